(* C10 - bytes mode under the double-byte ('wide') and single-byte ('narrow') encodings: the
   hypotheses of the generic development (EditBytesGeneric.v) are discharged from C11's theorems
   about within_double_byte / move_next_char / move_prev_char / calc_text_pos
   (Proofs/WideProofs.v, Proofs/WideExact.v, imported read-only). *)
From Coq Require Import ZArith List Bool Lia ZifyBool.
From Urwid Require Import PyBase PyList Utf8 wcwidth_table_gen str_util_gen Width WidthFacts WideProofs WideExact.
From Urwid Require Import Edit EditSpec EditProofs EditBytes EditBytesGeneric.
Import ListNotations.
Open Scope Z_scope.

Arguments Z.add : simpl never.
Arguments Z.sub : simpl never.
Arguments Z.mul : simpl never.
Arguments Z.ltb : simpl never.
Arguments Z.leb : simpl never.
Arguments Z.eqb : simpl never.
Arguments Z.min : simpl never.
Arguments Z.to_nat : simpl never.
Arguments Z.of_nat : simpl never.

(* ---------- ASCII keys ---------- *)
Definition ascii_key (cs : list Z) : bool := forallb (fun c => (0 <=? c) && (c <? 128)) cs.

Lemma ascii_encs cs : ascii_key cs = true -> utf8_encode_str cs = Ok cs.
Proof.
  intros H. unfold utf8_encode_str.
  assert (S: forallb scalar cs = true).
  { unfold ascii_key in H. rewrite forallb_forall in *. intros c Hc. specialize (H c Hc). unfold scalar. lia. }
  rewrite S. f_equal. unfold encs.
  induction cs as [|c r IH]; [reflexivity|].
  cbn [ascii_key forallb] in H. apply andb_true_iff in H. destruct H as [H1 H2].
  cbn [forallb] in S. apply andb_true_iff in S. destruct S as [_ S2].
  cbn [flat_map]. unfold utf8_encode at 1. replace (c <? 128) with true by lia. cbn [app]. f_equal. apply IH; assumption.
Qed.

(* ---------- double-byte encodings ---------- *)
(* the character-level name of a double-byte character *)
Definition dbcode (c : dbchar) : Z := match c with DSingle b => b | DDouble l t => l * 256 + t end.

Notation woff := (off dbchar dbbytes).
Notation wflat := (flat dbchar dbbytes).
Notation woks := (oks dbchar dbchar_ok).

Lemma wflat_dbflat cs : wflat cs = dbflat cs.
Proof. reflexivity. Qed.

Lemma w_enc1_len c : dbchar_ok c -> 1 <= zlen (dbbytes c).
Proof. intros _. apply zlen_dbbytes. Qed.

Lemma takez_snoc {A} (pre : list A) c post : takez (zlen pre + 1) (pre ++ c :: post) = pre ++ [c].
Proof.
  replace (zlen pre + 1) with (zlen (pre ++ [c])) by (rewrite zlen_app; reflexivity).
  change (c :: post) with ([c] ++ post). rewrite app_assoc. apply g_takez_app_zlen.
Qed.

Lemma w_takez_succ (cs : list dbchar) a c :
  0 <= a < zlen cs -> cs = takez a cs ++ c :: dropz (a + 1) cs -> takez (a + 1) cs = takez a cs ++ [c].
Proof.
  intros H E. set (pre := takez a cs) in *. set (post := dropz (a + 1) cs) in *.
  assert (La: zlen pre = a) by (unfold pre; apply g_zlen_takez_le; lia).
  rewrite E. rewrite <- La at 1. apply takez_snoc.
Qed.

Lemma w_off_succ cs a c :
  0 <= a < zlen cs -> cs = takez a cs ++ c :: dropz (a + 1) cs -> woff cs (a + 1) = woff cs a + zlen (dbbytes c).
Proof.
  intros H E. unfold off. rewrite (w_takez_succ cs a c H E), flat_app, zlen_app.
  f_equal. unfold flat. cbn [flat_map]. rewrite app_nil_r. reflexivity.
Qed.

Lemma w_next cs a : woks cs -> 0 <= a < zlen cs ->
  Width.move_next_char MWide (wflat cs) (woff cs a) (zlen (wflat cs)) = Ok (woff cs (a + 1)).
Proof.
  intros Ho H. destruct (g_split_at cs a H) as [c E].
  pose proof (w_off_succ cs a c H E) as S.
  assert (Ho': Forall dbchar_ok (takez a cs ++ c :: dropz (a + 1) cs)) by (rewrite <- E; exact Ho).
  destruct (move_next_prev_inverse_wide (takez a cs) c (dropz (a + 1) cs) Ho') as (n & Hn & En & _).
  cbv zeta in Hn. rewrite <- E in Hn. unfold off, flat in *. unfold dbflat in *.
  rewrite Hn. f_equal. rewrite En. lia.
Qed.

Lemma w_prev cs b : woks cs -> 0 < b <= zlen cs ->
  Width.move_prev_char MWide (wflat cs) 0 (woff cs b) = Ok (woff cs (b - 1)).
Proof.
  intros Ho H. destruct (g_split_at cs (b - 1) ltac:(lia)) as [c E].
  pose proof (w_off_succ cs (b - 1) c ltac:(lia) E) as S. replace (b - 1 + 1) with b in * by lia.
  assert (Ho': Forall dbchar_ok (takez (b - 1) cs ++ c :: dropz b cs)) by (rewrite <- E; exact Ho).
  destruct (move_next_prev_inverse_wide (takez (b - 1) cs) c (dropz b cs) Ho') as (n & _ & En & Hp).
  cbv zeta in Hp. rewrite <- E in Hp. unfold off, flat in *. unfold dbflat in *.
  rewrite S, <- En. exact Hp.
Qed.

Lemma w_off_of_prefix (d pre rest : list dbchar) : d = pre ++ rest -> zlen (dbflat pre) = woff d (zlen pre).
Proof. intros ->. unfold off. rewrite g_takez_app_zlen. reflexivity. Qed.

Lemma w_tpos wcw d a b col p : woks d -> 0 <= a <= b -> b <= zlen d -> 0 <= col ->
  btpos wcw MWide (wflat d) (woff d a) (woff d b) col = Ok p -> exists j, a <= j <= b /\ p = woff d j.
Proof.
  intros Ho H1 H2 Hc H. unfold btpos in H.
  pose proof (off_mono dbchar dbbytes dbchar_ok w_enc1_len d a b Ho H1 H2) as M.
  pose proof (off_nonneg dbchar dbbytes d a) as N.
  pose proof (off_le_len dbchar dbbytes dbchar_ok w_enc1_len d b Ho ltac:(lia)) as L.
  destruct (calc_text_pos_wide_spec wcw (wflat d) (woff d a) (woff d b) col ltac:(lia) L Hc)
    as (q & c & E & Hq & _ & _ & _ & Hcls & _).
  rewrite E in H. inversion H; subst p.
  destruct (Z.eq_dec q (woff d b)) as [->|Hne]; [exists b; split; [lia|reflexivity]|].
  destruct (Hcls ltac:(lia)) as (r & Er & Hr).
  assert (Ed: d = takez a d ++ dropz a d) by (symmetry; apply g_takez_dropz_id).
  assert (Ho2: Forall dbchar_ok (takez a d ++ dropz a d)) by (rewrite <- Ed; exact Ho).
  assert (Hrange: zlen (dbflat (takez a d)) <= q < zlen (dbflat (takez a d ++ dropz a d))).
  { rewrite <- Ed. change (zlen (dbflat (takez a d))) with (woff d a). change (dbflat d) with (wflat d). lia. }
  destruct (wdb_class (takez a d) (dropz a d) q Ho2 Hrange) as (r' & Er' & _ & _ & _ & Hn2).
  rewrite <- Ed in Er'. change (zlen (dbflat (takez a d))) with (woff d a) in Er'.
  rewrite wflat_dbflat in Er. rewrite Er in Er'. inversion Er'; subst r'.
  destruct (Hn2 Hr) as (pre' & rest' & Epr & Ezl). rewrite <- Ed in Epr.
  pose proof (w_off_of_prefix d pre' rest' Epr) as Ej. rewrite Ezl in Ej.
  assert (Hjr: 0 <= zlen pre' <= zlen d) by (rewrite Epr, zlen_app; pose proof (zlen_nonneg pre'); pose proof (zlen_nonneg rest'); lia).
  exists (zlen pre'). split; [|exact Ej].
  (* a <= j <= b by strict monotonicity of the boundary map *)
  split.
  - destruct (Z_lt_ge_dec (zlen pre') a) as [Hlt|]; [|lia].
    pose proof (off_lt dbchar dbbytes dbchar_ok w_enc1_len d (zlen pre') a Ho ltac:(lia) ltac:(lia)). lia.
  - destruct (Z_lt_ge_dec b (zlen pre')) as [Hlt|]; [|lia].
    pose proof (off_lt dbchar dbbytes dbchar_ok w_enc1_len d b (zlen pre') Ho ltac:(lia) ltac:(lia)). lia.
Qed.

Definition w_keyA (cs : list Z) : list dbchar := map DSingle cs.

Lemma w_flat_singles cs : wflat (map DSingle cs) = cs.
Proof. unfold flat. induction cs as [|c r IH]; [reflexivity|]. cbn [map flat_map dbbytes app]. f_equal. exact IH. Qed.

Lemma w_code_singles cs : map dbcode (map DSingle cs) = cs.
Proof. induction cs as [|c r IH]; [reflexivity|]. cbn [map dbcode]. f_equal. exact IH. Qed.

Lemma w_key (kenc : list Z -> list Z) (Hk : forall cs, ascii_key cs = true -> kenc cs = cs) cs : ascii_key cs = true ->
  kenc cs = wflat (w_keyA cs) /\ woks (w_keyA cs) /\ map dbcode (w_keyA cs) = cs.
Proof.
  intros H. rewrite (Hk cs H). unfold w_keyA. rewrite w_flat_singles, w_code_singles.
  split; [reflexivity|]. split; [|reflexivity].
  unfold oks. apply Forall_forall. intros x Hx. apply in_map_iff in Hx. destruct Hx as (c & <- & Hc).
  unfold ascii_key in H. rewrite forallb_forall in H. specialize (H c Hc). cbn [dbchar_ok]. lia.
Qed.

Lemma w_ascii c : c = 32 \/ c = 10 -> dbbytes (DSingle c) = [c] /\ dbchar_ok (DSingle c) /\ dbcode (DSingle c) = c.
Proof. intros [-> | ->]; repeat split; cbn; lia. Qed.

Section WideTheorems.
Variable wcw : Z -> Z.
Variable upper : Z -> list Z.
Variable lower : list Z -> list Z.
Variable kenc : list Z -> list Z.      (* key.encode(get_encoding(), "replace") under the double-byte codec *)
Hypothesis kenc_ascii : forall cs, ascii_key cs = true -> kenc cs = cs.     (* the codec is ASCII-compatible *)

Definition Rw := Rg dbchar dbbytes dbchar_ok dbcode.
Definition OnW := OnG dbchar dbbytes dbchar_ok.
Definition w_edit_key := g_edit_key ascii_key.
Definition w_evs_ok := g_evs_ok dbchar dbbytes dbchar_ok MWide wcw kenc.

(* left / right / backspace / delete act on one whole (single- or double-byte) character, an ASCII
   key / enter is inserted at the cursor: simulation of the character-level reference editor *)
Theorem wide_keys_sim sb ss k w lay lay' :
  Rw sb ss -> w_edit_key k ->
  let '(sb', sg, r) := bkeypress wcw MWide kenc sb k w lay in
  Rw sb' (fst (ref_key (Width.cw wcw) upper lower ss k w lay')) /\
  r = snd (ref_key (Width.cw wcw) upper lower ss k w lay') /\
  chain (text sb) sg (text sb') /\ (r = Ok RUnhandled -> sg = []).
Proof.
  exact (g_key_sim dbchar dbbytes dbchar_ok dbcode MWide wcw upper lower w_enc1_len w_prev w_next
           kenc ascii_key w_keyA (w_key kenc kenc_ascii) DSingle w_ascii sb ss k w lay lay').
Qed.

(* ANY accepted key string - a typed double-byte character, or "?" for one the codec cannot represent -
   whose bytes are the well-formed characters xs: exactly those characters are inserted at the cursor *)
Theorem wide_any_key_sim sb ss cs xs w lay :
  Rw sb ss -> bvalid_char wcw cs = Ok true -> kenc cs = dbflat xs -> Forall dbchar_ok xs ->
  let '(sb', sg, r) := bkeypress wcw MWide kenc sb (KText cs) w lay in
  Rw sb' (put ss (ins_at (text ss) (pos ss) (map dbcode xs)) (pos ss + zlen (map dbcode xs))) /\
  r = Ok RHandled /\ chain (text sb) sg (text sb').
Proof.
  exact (g_text_key_sim dbchar dbbytes dbchar_ok dbcode MWide wcw upper lower w_enc1_len kenc sb ss cs xs w lay).
Qed.

(* the offset is never inside a double-byte character, along every history *)
Theorem wide_run_on_boundary es sb :
  OnW sb -> w_evs_ok sb es ->
  Forall (fun o => OnW (fst (fst o))) (snd (brun wcw MWide kenc sb es)) /\ OnW (fst (brun wcw MWide kenc sb es)).
Proof.
  exact (g_run_OnG dbchar dbbytes dbchar_ok dbcode MWide wcw upper lower w_enc1_len w_prev w_next (w_tpos wcw)
           kenc ascii_key w_keyA (w_key kenc kenc_ascii) DSingle w_ascii es sb).
Qed.

(* what OnW means: the offset is the end of a prefix of the character decomposition of the text *)
Theorem OnW_meaning sb : OnW sb ->
  exists pre post, Forall dbchar_ok (pre ++ post) /\ text sb = dbflat pre ++ dbflat post /\ pos sb = zlen (dbflat pre).
Proof.
  intros (c & t & k & _ & _ & Ht & Ot & Hk & Hp & _).
  exists (takez k t), (dropz k t). rewrite g_takez_dropz_id. split; [exact Ot|].
  split; [|exact Hp]. rewrite Ht. rewrite <- dbflat_app, g_takez_dropz_id. reflexivity.
Qed.

End WideTheorems.

(* ---------- single-byte encodings ('narrow'): every byte is a character ---------- *)
Definition nb1 (b : Z) : list Z := [b].
Definition nok (b : Z) : Prop := True.
Notation noff := (off Z nb1).
Notation nflat := (flat Z nb1).

Lemma nflat_id cs : nflat cs = cs.
Proof. unfold flat. induction cs as [|c r IH]; [reflexivity|]. cbn [flat_map nb1 app]. f_equal. exact IH. Qed.

Lemma noff_id cs k : 0 <= k <= zlen cs -> noff cs k = k.
Proof. intros H. unfold off. rewrite nflat_id. apply g_zlen_takez_le. exact H. Qed.

Lemma n_enc1_len c : nok c -> 1 <= zlen (nb1 c).
Proof. intros _. unfold zlen; cbn; lia. Qed.

Lemma n_prev cs b : oks Z nok cs -> 0 < b <= zlen cs ->
  Width.move_prev_char MNarrow (nflat cs) 0 (noff cs b) = Ok (noff cs (b - 1)).
Proof.
  intros _ H. rewrite !noff_id by lia. unfold Width.move_prev_char. replace (b <=? 0) with false by lia. reflexivity.
Qed.

Lemma n_next cs a : oks Z nok cs -> 0 <= a < zlen cs ->
  Width.move_next_char MNarrow (nflat cs) (noff cs a) (zlen (nflat cs)) = Ok (noff cs (a + 1)).
Proof.
  intros _ H. rewrite !noff_id by lia. rewrite nflat_id. unfold Width.move_next_char.
  replace (zlen cs <=? a) with false by lia. reflexivity.
Qed.

Lemma n_tpos wcw d a b col p : oks Z nok d -> 0 <= a <= b -> b <= zlen d -> 0 <= col ->
  btpos wcw MNarrow (nflat d) (noff d a) (noff d b) col = Ok p -> exists j, a <= j <= b /\ p = noff d j.
Proof.
  intros _ H1 H2 Hc H. unfold btpos in H. rewrite !noff_id in H by lia.
  rewrite calc_text_pos_narrow_spec in H by lia. inversion H; subst p.
  exists (Z.min b (a + col)). split; [lia|]. rewrite noff_id by lia. reflexivity.
Qed.

Lemma n_key (kenc : list Z -> list Z) (Hk : forall cs, ascii_key cs = true -> kenc cs = cs) cs : ascii_key cs = true ->
  kenc cs = nflat cs /\ oks Z nok cs /\ map (fun b : Z => b) cs = cs.
Proof.
  intros H. rewrite (Hk cs H), nflat_id, map_id. repeat split.
  unfold oks. apply Forall_forall. intros; exact I.
Qed.

Lemma n_ascii c : c = 32 \/ c = 10 -> nb1 c = [c] /\ nok c /\ c = c.
Proof. intros _. repeat split. Qed.

Section NarrowTheorems.
Variable wcw : Z -> Z.
Variable upper : Z -> list Z.
Variable lower : list Z -> list Z.
Variable kenc : list Z -> list Z.
Hypothesis kenc_ascii : forall cs, ascii_key cs = true -> kenc cs = cs.

Definition Rn := Rg Z nb1 nok (fun b => b).

(* under a single-byte encoding the bytes model IS the character-level reference editor on bytes *)
Theorem narrow_keys_sim sb ss k w lay lay' :
  Rn sb ss -> g_edit_key ascii_key k ->
  let '(sb', sg, r) := bkeypress wcw MNarrow kenc sb k w lay in
  Rn sb' (fst (ref_key (Width.cw wcw) upper lower ss k w lay')) /\
  r = snd (ref_key (Width.cw wcw) upper lower ss k w lay') /\
  chain (text sb) sg (text sb') /\ (r = Ok RUnhandled -> sg = []).
Proof.
  exact (g_key_sim Z nb1 nok (fun b => b) MNarrow wcw upper lower n_enc1_len n_prev n_next
           kenc ascii_key (fun cs => cs) (n_key kenc kenc_ascii) (fun c => c) n_ascii sb ss k w lay lay').
Qed.

(* any accepted key: the bytes the codec gives (one byte per character, "?" for what it cannot
   represent) are inserted at the cursor *)
Theorem narrow_any_key_sim sb ss cs w lay :
  Rn sb ss -> bvalid_char wcw cs = Ok true ->
  let '(sb', sg, r) := bkeypress wcw MNarrow kenc sb (KText cs) w lay in
  Rn sb' (put ss (ins_at (text ss) (pos ss) (kenc cs)) (pos ss + zlen (kenc cs))) /\
  r = Ok RHandled /\ chain (text sb) sg (text sb').
Proof.
  intros R Hv.
  pose proof (g_text_key_sim Z nb1 nok (fun b => b) MNarrow wcw upper lower n_enc1_len kenc sb ss cs (kenc cs) w lay R Hv) as G.
  rewrite map_id in G. apply G; [symmetry; apply nflat_id|].
  unfold oks. apply Forall_forall. intros; exact I.
Qed.

Theorem Rn_meaning sb ss : Rn sb ss -> text sb = text ss /\ pos sb = pos ss.
Proof.
  intros (cs & Es & Ht & Hp & _ & _ & _ & _ & HI). rewrite map_id in Es. subst cs.
  unfold Inv in HI. rewrite nflat_id in Ht. rewrite noff_id in Hp by exact HI. auto.
Qed.

End NarrowTheorems.

(* ---------- every mode, any bytes (ill-formed included): the offset stays inside the text ---------- *)
Section AnyMode.
Variable wcw : Z -> Z.
Variable m : tmode.
Variable kenc : list Z -> list Z.

Lemma insert_text_inv s t : Inv (fst (insert_text s t)).
Proof.
  unfold insert_text. destruct (insert_text_result s t) as [rt rp]. destruct (set_edit_text s rt) as [s1 sg].
  cbn [fst]. apply set_edit_pos_inv.
Qed.

Lemma set_edit_text_inv s t : Inv (fst (set_edit_text s t)).
Proof. unfold set_edit_text. cbn [fst]. apply set_edit_pos_inv. Qed.

Lemma bmctc_inv s w lay x y : Inv s -> Inv (fst (bmove_cursor_to_coords wcw m s w lay x y)).
Proof.
  intros H. unfold bmove_cursor_to_coords.
  destruct (bget_line_translation wcw m s w lay) as [trans|]; [|exact H].
  destruct (bposition_coords wcw m s w lay 0) as [[tx ty]|]; [|exact H].
  destruct ((y <? ty) || (y >=? zlen trans)); [exact H|].
  destruct (bcalc_pos wcw m (disp s) trans x y) as [p|]; [|exact H].
  cbn [fst]. change (Inv (set_edit_pos s (clampz (p - zlen (caption s)) 0 (zlen (text s))))). apply set_edit_pos_inv.
Qed.

Theorem bytes_pos_inv_step s e : Inv s -> Inv (fst (fst (bstep wcw m kenc s e))).
Proof.
  intros H. destruct e as [k w lay|b c rw w lay|f w lay|w lay|p]; cbn [bstep].
  - unfold bkeypress. destruct k.
    + destruct (bvalid_char wcw cs) as [[|]|]; try exact H.
      pose proof (insert_text_inv s (kenc cs)) as I. destruct (insert_text s (kenc cs)). exact I.
    + destruct (allow_tab s); [|exact H].
      pose proof (insert_text_inv s (spaces (8 - pos s mod 8))) as I. destruct (insert_text s (spaces (8 - pos s mod 8))). exact I.
    + destruct (multiline s); [|exact H].
      pose proof (insert_text_inv s [10]) as I. destruct (insert_text s [10]). exact I.
    + destruct (pos s =? 0); [exact H|].
      destruct (Width.move_prev_char m (text s) 0 (pos s)); [apply set_edit_pos_inv|exact H].
    + destruct (pos s >=? zlen (text s)); [exact H|].
      destruct (Width.move_next_char m (text s) (pos s) (zlen (text s))); [apply set_edit_pos_inv|exact H].
    + unfold bget_cursor_coords.
      destruct (bposition_coords wcw m (with_shiftv s true) w lay (pos (with_shiftv s true))) as [[x y]|]; [|exact H].
      pose proof (g_gpc_state m wcw (with_shiftv s true) w lay) as G.
      destruct (bget_pref_col wcw m (with_shiftv s true) w lay) as [s2 [pc|]]; cbn [fst] in G.
      * assert (I2: Inv s2) by (destruct G as [-> | ->]; exact H).
        pose proof (bmctc_inv s2 w lay pc (y - 1) I2) as I3.
        destruct (bmove_cursor_to_coords wcw m s2 w lay pc (y - 1)) as [s3 [[|]|]]; exact I3.
      * destruct G as [-> | ->]; exact H.
    + unfold bget_cursor_coords.
      destruct (bposition_coords wcw m (with_shiftv s true) w lay (pos (with_shiftv s true))) as [[x y]|]; [|exact H].
      pose proof (g_gpc_state m wcw (with_shiftv s true) w lay) as G.
      destruct (bget_pref_col wcw m (with_shiftv s true) w lay) as [s2 [pc|]]; cbn [fst] in G.
      * assert (I2: Inv s2) by (destruct G as [-> | ->]; exact H).
        pose proof (bmctc_inv s2 w lay pc (y + 1) I2) as I3.
        destruct (bmove_cursor_to_coords wcw m s2 w lay pc (y + 1)) as [s3 [[|]|]]; exact I3.
      * destruct G as [-> | ->]; exact H.
    + change (pos (with_pref s None)) with (pos s). change (text (with_pref s None)) with (text s).
      destruct (pos s =? 0); [exact H|].
      destruct (Width.move_prev_char m (text s) 0 (pos s)) as [p1|]; [|exact H].
      destruct (set_edit_text (with_pref s None) (takez p1 (text s) ++ dropz (pos s) (text s))). apply set_edit_pos_inv.
    + change (pos (with_pref s None)) with (pos s). change (text (with_pref s None)) with (text s).
      destruct (pos s >=? zlen (text s)); [exact H|].
      destruct (Width.move_next_char m (text s) (pos s) (zlen (text s))) as [p1|]; [|exact H].
      pose proof (set_edit_text_inv (with_pref s None) (takez (pos s) (text s) ++ dropz p1 (text s))) as I.
      destruct (set_edit_text (with_pref s None) (takez (pos s) (text s) ++ dropz p1 (text s))). exact I.
    + unfold bget_cursor_coords.
      destruct (bposition_coords wcw m (with_shiftv (with_pref s None) true) w lay (pos (with_shiftv (with_pref s None) true))) as [[x y]|]; [|exact H].
      pose proof (bmctc_inv (with_shiftv (with_pref s None) true) w lay PLeft y H) as I3.
      destruct (bmove_cursor_to_coords wcw m (with_shiftv (with_pref s None) true) w lay PLeft y) as [s3 [b|]]; exact I3.
    + unfold bget_cursor_coords.
      destruct (bposition_coords wcw m (with_shiftv (with_pref s None) true) w lay (pos (with_shiftv (with_pref s None) true))) as [[x y]|]; [|exact H].
      pose proof (bmctc_inv (with_shiftv (with_pref s None) true) w lay PRight y H) as I3.
      destruct (bmove_cursor_to_coords wcw m (with_shiftv (with_pref s None) true) w lay PRight y) as [s3 [b|]]; exact I3.
  - destruct (b =? 1); [|exact H].
    pose proof (bmctc_inv s w lay (PInt c) rw H) as I3.
    destruct (bmove_cursor_to_coords wcw m s w lay (PInt c) rw) as [s1 [bb|]]; exact I3.
  - unfold bget_cursor_coords.
    destruct (match rcache s with Some (w', f') => (w' =? w) && Bool.eqb f' f | None => false end).
    + destruct (bget_line_translation wcw m (with_shiftv s f) w lay); [|exact H].
      destruct f; [|exact H].
      destruct (bposition_coords wcw m (with_shiftv (with_shiftv s true) true) w lay (pos (with_shiftv (with_shiftv s true) true))) as [[x y]|]; exact H.
    + destruct (bget_line_translation wcw m (with_shiftv s f) w lay); [|exact H].
      destruct f; [|exact H].
      destruct (bposition_coords wcw m (with_shiftv (with_shiftv s true) true) w lay (pos (with_shiftv (with_shiftv s true) true))) as [[x y]|]; exact H.
  - pose proof (g_gpc_state m wcw s w lay) as G.
    destruct (bget_pref_col wcw m s w lay) as [s1 [pc|]]; cbn [fst] in *; (destruct G as [-> | ->]; exact H).
  - apply set_edit_pos_inv.
Qed.

Theorem bytes_pos_inv_run es : forall s, Inv s ->
  Forall (fun o => Inv (fst (fst o))) (snd (brun wcw m kenc s es)) /\ Inv (fst (brun wcw m kenc s es)).
Proof.
  induction es as [|e r IH]; intros s H; [cbn; auto|].
  cbn [brun]. pose proof (bytes_pos_inv_step s e H) as I1.
  destruct (bstep wcw m kenc s e) as [[s1 sg] rt]. cbn [fst] in *.
  destruct (IH s1 I1) as [A0 B]. destruct (brun wcw m kenc s1 r) as [s2 outs]. cbn [fst snd] in *.
  split; [constructor; assumption|assumption].
Qed.

End AnyMode.
