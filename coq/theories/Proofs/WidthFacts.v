(* C11 - list/index facts and the list-level specification of the column scan. *)
From Coq Require Import ZArith List Bool Lia ZifyBool.
Import ListNotations.
From Urwid Require Import PyBase PyList Utf8 wcwidth_table_gen str_util_gen Width.
Open Scope Z_scope.
Arguments Z.add : simpl never.
Arguments Z.sub : simpl never.
Arguments Z.mul : simpl never.
Arguments Z.div : simpl never.
Arguments Z.modulo : simpl never.
Arguments Z.ltb : simpl never.
Arguments Z.leb : simpl never.
Arguments Z.eqb : simpl never.
Arguments Z.min : simpl never.
Arguments Z.max : simpl never.
Arguments Z.of_nat : simpl never.
Arguments Z.to_nat : simpl never.

(* ---------- indexing ---------- *)
Lemma to_nat_zlen {A} (l : list A) : Z.to_nat (zlen l) = length l.
Proof. unfold zlen. apply Nat2Z.id. Qed.

Lemma get_index_app_mid {A} (pre : list A) c rest :
  get_index (pre ++ c :: rest) (zlen pre) = Ok c.
Proof.
  unfold get_index, norm_index, nthz.
  pose proof (zlen_nonneg pre).
  destruct (zlen pre <? 0) eqn:E; [lia|]. rewrite E.
  rewrite to_nat_zlen, nth_error_app2 by lia. now rewrite Nat.sub_diag.
Qed.

Lemma get_index_app_off {A} (pre : list A) rest k :
  0 <= k -> get_index (pre ++ rest) (zlen pre + k) = get_index rest k \/ zlen rest <= k.
Proof.
  intros Hk. destruct (Z_lt_le_dec k (zlen rest)) as [Hlt|]; [left|right; lia].
  unfold get_index, norm_index, nthz. pose proof (zlen_nonneg pre).
  rewrite zlen_app.
  destruct (zlen pre + k <? 0) eqn:E1; [lia|]. rewrite E1.
  destruct (k <? 0) eqn:E2; [lia|]. rewrite E2.
  rewrite nth_error_app2 by (unfold zlen in *; lia).
  replace (Z.to_nat (zlen pre + k) - length pre)%nat with (Z.to_nat k) by (unfold zlen; lia).
  reflexivity.
Qed.

Lemma get_index_in {A} (l : list A) i :
  0 <= i < zlen l -> get_index l i = match nthz l i with Some x => Ok x | None => Err IndexError end.
Proof.
  intros H. unfold get_index, norm_index. destruct (i <? 0) eqn:E; [lia|]. reflexivity.
Qed.

Lemma nthz_app_mid {A} (pre : list A) c rest : nthz (pre ++ c :: rest) (zlen pre) = Some c.
Proof.
  unfold nthz. pose proof (zlen_nonneg pre). destruct (zlen pre <? 0) eqn:E; [lia|].
  rewrite to_nat_zlen, nth_error_app2 by lia. now rewrite Nat.sub_diag.
Qed.

Lemma get_index_out {A} (l : list A) : get_index l (zlen l) = Err IndexError.
Proof.
  unfold get_index, norm_index, nthz. pose proof (zlen_nonneg l).
  destruct (zlen l <? 0) eqn:E; [lia|]. rewrite E, to_nat_zlen.
  replace (nth_error l (length l)) with (@None A); [reflexivity|].
  symmetry. apply nth_error_None. lia.
Qed.

(* ---------- slices inside the text ---------- *)
Lemma skipn_skipn' {A} (x y : nat) (l : list A) : skipn x (skipn y l) = skipn (y + x) l.
Proof.
  revert l. induction y as [|y IH]; intros l; [reflexivity|].
  destruct l as [|a l]; [now rewrite !skipn_nil|]. cbn [skipn Nat.add]. apply IH.
Qed.
Lemma py_slice_in {A} (l : list A) a b :
  0 <= a <= b -> b <= zlen l -> py_slice l a b = takez (b - a) (dropz a l).
Proof.
  intros H1 H2. unfold py_slice, slice_indices.
  assert (E0 : (1 <? 0) = false) by reflexivity. rewrite E0.
  destruct (a <? 0) eqn:Ea; [lia|].
  destruct (b <? 0) eqn:Eb; [lia|].
  destruct (zlen l <=? a) eqn:E1; destruct (zlen l <=? b) eqn:E2.
  - assert (a = zlen l) by lia. assert (b = zlen l) by lia. subst a.
    destruct (zlen l <? zlen l) eqn:E3; [lia|].
    replace (b - zlen l) with 0 by lia. reflexivity.
  - lia.
  - assert (b = zlen l) by lia. subst b.
    destruct (a <? zlen l) eqn:E3; [reflexivity|lia].
  - destruct (a <? b) eqn:E3; [reflexivity|].
    assert (a = b) by lia. subst. replace (b - b) with 0 by lia. reflexivity.
Qed.

Lemma takez_dropz_split {A} (l : list A) a b :
  0 <= a <= b -> b <= zlen l ->
  l = takez a l ++ takez (b - a) (dropz a l) ++ dropz b l.
Proof.
  intros H1 H2. unfold takez, dropz.
  replace (Z.to_nat b) with (Z.to_nat a + Z.to_nat (b - a))%nat by lia.
  rewrite <- (skipn_skipn' (Z.to_nat (b - a)) (Z.to_nat a)).
  rewrite (firstn_skipn (Z.to_nat (b - a)) (skipn (Z.to_nat a) l)).
  now rewrite firstn_skipn.
Qed.

Lemma zlen_takez_in {A} (l : list A) a : 0 <= a <= zlen l -> zlen (takez a l) = a.
Proof. intros. rewrite zlen_takez by lia. lia. Qed.

Lemma zlen_slice_in {A} (l : list A) a b :
  0 <= a <= b -> b <= zlen l -> zlen (takez (b - a) (dropz a l)) = b - a.
Proof. intros. rewrite zlen_takez, zlen_dropz by lia. lia. Qed.

Lemma takez_app_exact {A} (a b : list A) : takez (zlen a) (a ++ b) = a.
Proof.
  unfold takez. rewrite to_nat_zlen. rewrite firstn_app, Nat.sub_diag, firstn_all. cbn. apply app_nil_r.
Qed.

Lemma dropz_app_exact {A} (a b : list A) : dropz (zlen a) (a ++ b) = b.
Proof.
  unfold dropz. rewrite to_nat_zlen. rewrite skipn_app, Nat.sub_diag, skipn_all. reflexivity.
Qed.

Lemma takez_takez_slice {A} (l : list A) a p b :
  0 <= a <= p -> p <= b -> b <= zlen l ->
  takez (p - a) (takez (b - a) (dropz a l)) = takez (p - a) (dropz a l).
Proof.
  intros. unfold takez. rewrite firstn_firstn. f_equal. lia.
Qed.

Lemma slice_split {A} (l : list A) a p b :
  0 <= a <= p -> p <= b -> b <= zlen l ->
  takez (b - a) (dropz a l) = takez (p - a) (dropz a l) ++ takez (b - p) (dropz p l).
Proof.
  intros. unfold takez, dropz.
  replace (Z.to_nat (b - a)) with (Z.to_nat (p - a) + Z.to_nat (b - p))%nat by lia.
  rewrite <- (firstn_skipn (Z.to_nat (p - a)) (firstn (Z.to_nat (p - a) + Z.to_nat (b - p)) (skipn (Z.to_nat a) l))).
  f_equal.
  - rewrite firstn_firstn. f_equal. lia.
  - rewrite skipn_firstn_comm. rewrite skipn_skipn'.
    f_equal; [lia|]. f_equal. lia.
Qed.

Lemma nth_error_firstn' {A} (n : nat) : forall (l : list A) (k : nat),
  (k < n)%nat -> nth_error (firstn n l) k = nth_error l k.
Proof.
  induction n as [|n IH]; intros l k Hk; [lia|].
  destruct l as [|a l]; [reflexivity|]. destruct k as [|k]; [reflexivity|].
  cbn [firstn nth_error]. apply IH. lia.
Qed.

Lemma nth_error_skipn' {A} (n : nat) : forall (l : list A) (k : nat),
  nth_error (skipn n l) k = nth_error l (n + k).
Proof.
  induction n as [|n IH]; intros l k; [reflexivity|].
  destruct l as [|a l]; [now destruct k|]. cbn [skipn Nat.add nth_error]. apply IH.
Qed.

Lemma nthz_slice {A} (l : list A) a b k :
  0 <= a -> 0 <= k < b - a -> b <= zlen l -> nthz (takez (b - a) (dropz a l)) k = nthz l (a + k).
Proof.
  intros. unfold nthz, takez, dropz.
  destruct (k <? 0) eqn:E1; [lia|]. destruct (a + k <? 0) eqn:E2; [lia|].
  rewrite nth_error_firstn' by lia. rewrite nth_error_skipn'. f_equal. lia.
Qed.

Lemma takez_0 {A} (l : list A) : takez 0 l = [].
Proof. reflexivity. Qed.
Lemma takez_succ {A} (c : A) r k : 0 <= k -> takez (k + 1) (c :: r) = c :: takez k r.
Proof. intros. unfold takez. replace (Z.to_nat (k + 1)) with (S (Z.to_nat k)) by lia. reflexivity. Qed.
Lemma nthz_0 {A} (c : A) r : nthz (c :: r) 0 = Some c.
Proof. reflexivity. Qed.
Lemma nthz_succ {A} (c : A) r k : 0 <= k -> nthz (c :: r) (k + 1) = nthz r k.
Proof.
  intros. unfold nthz. destruct (k <? 0) eqn:E1; [lia|]. destruct (k + 1 <? 0) eqn:E2; [lia|].
  replace (Z.to_nat (k + 1)) with (S (Z.to_nat k)) by lia. reflexivity.
Qed.

Section Facts.
Variable wcw : Z -> Z.
Hypothesis Hw : forall c, wcw c <= 2.

Notation cw := (cw wcw).
Notation wsum := (wsum wcw).

Lemma cw_range c : 0 <= cw c <= 2.
Proof.
  unfold Width.cw, get_char_width_gen. specialize (Hw c).
  destruct (0 <=? wcw c) eqn:E; lia.
Qed.

Lemma wsum_app a b : wsum (a ++ b) = wsum a + wsum b.
Proof. induction a; cbn [Width.wsum app]; [lia|]. rewrite IHa. lia. Qed.

Lemma wsum_nonneg l : 0 <= wsum l.
Proof. induction l; cbn [Width.wsum]; [lia|]. pose proof (cw_range a). lia. Qed.

(* ---------- the list-level scan: (characters consumed, columns) ---------- *)
Fixpoint tpos (l : list Z) (col cols : Z) : Z * Z :=
  match l with
  | [] => (0, cols)
  | c :: r =>
      if col <? cw c + cols then (0, cols)
      else let '(k, c') := tpos r col (cols + cw c) in (k + 1, c')
  end.

Lemma tpos_spec l : forall col cols,
  let '(k, c') := tpos l col cols in
  0 <= k <= zlen l /\
  c' = cols + wsum (takez k l) /\
  (cols <= col -> c' <= col) /\
  (k = zlen l \/ exists ch, nthz l k = Some ch /\ col < c' + cw ch).
Proof.
  induction l as [|c r IH]; intros col cols; cbn [tpos].
  - change (zlen (@nil Z)) with 0. rewrite takez_0. cbn [Width.wsum].
    split; [lia|]. split; [lia|]. split; [lia|]. now left.
  - pose proof (zlen_nonneg r). rewrite zlen_cons.
    destruct (col <? cw c + cols) eqn:E.
    + rewrite takez_0, nthz_0. cbn [Width.wsum].
      split; [lia|]. split; [lia|]. split; [lia|].
      right. exists c. split; [reflexivity|lia].
    + specialize (IH col (cols + cw c)). destruct (tpos r col (cols + cw c)) as [k c'].
      destruct IH as (Hk & Hc & Hle & Hmax).
      rewrite takez_succ, nthz_succ by lia. cbn [Width.wsum].
      split; [lia|]. split; [lia|]. split; [lia|].
      destruct Hmax as [->|(ch & Hn & Hlt)]; [left; lia|right].
      exists ch. split; [exact Hn|exact Hlt].
Qed.

(* the first index whose character does not fit: every earlier prefix fits *)
Lemma tpos_prefix_fits l : forall col cols j,
  0 <= j < fst (tpos l col cols) -> cols + wsum (takez (j + 1) l) <= col.
Proof.
  induction l as [|c r IH]; intros col cols j; cbn [tpos].
  - cbn [fst]. lia.
  - destruct (col <? cw c + cols) eqn:E; [cbn [fst]; lia|].
    specialize (IH col (cols + cw c)).
    destruct (tpos r col (cols + cw c)) as [k c'] eqn:Et. cbn [fst] in *. intros Hj.
    rewrite takez_succ by lia. cbn [Width.wsum].
    destruct (Z.eq_dec j 0) as [->|Hn].
    + rewrite takez_0. cbn [Width.wsum]. lia.
    + specialize (IH (j - 1)). replace (j - 1 + 1) with j in IH by lia. lia.
Qed.

(* ---------- bridge: the index loop of calc_string_text_pos is the list scan ---------- *)
Lemma cstp_loop_tpos mid : forall pre post cols pref e,
  e = zlen pre + zlen mid ->
  cstp_loop wcw (pre ++ mid ++ post) (length mid) (zlen pre) cols pref e
  = Ok (zlen pre + fst (tpos mid pref cols), snd (tpos mid pref cols)).
Proof.
  induction mid as [|c r IH]; intros pre post cols pref e He; cbn [cstp_loop length tpos].
  - change (zlen (@nil Z)) with 0 in He. cbn. f_equal. f_equal. lia.
  - cbn [app]. rewrite get_index_app_mid.
    destruct (pref <? cw c + cols) eqn:E.
    + cbn. f_equal. f_equal. lia.
    + specialize (IH (pre ++ [c]) post (cols + cw c) pref e).
      rewrite <- app_assoc in IH. cbn [app] in IH.
      rewrite zlen_app, zlen_cons, zlen_nil in IH. rewrite zlen_cons in He.
      replace (zlen pre + (1 + 0)) with (zlen pre + 1) in IH by lia.
      rewrite IH by lia.
      destruct (tpos r pref (cols + cw c)) as [k c']. cbn. f_equal. f_equal. lia.
Qed.

End Facts.
