(* C02, byte level: a TextCanvas row in a double-byte encoding, trimmed by util.trim_text_attr_cs
   (C11's model, imported read-only), is the cell-level row trimmed by [trim_cells]: a double-width
   character cut by either edge becomes a space that keeps the character's attribute and gets
   charset None.  The cell abstraction of Model/Canvas.v is thereby PROVED for the "wide" byte
   encodings instead of trusted.

   A row is described by its list of tagged characters (character, attribute, charset); from it
   come the bytes [tbytes], the per-byte attributes / charsets [tattrs] / [tcss] (what the
   run-length lists must expand to) and the screen cells [cells_of] (the row of Model/Canvas.v).
   In the wide mode one byte is one column, so bytes and cells line up one to one. *)
From Coq Require Import ZArith List Bool Lia ZifyBool.
From Urwid Require Import PyBase PyList Utf8 Width WidthFacts WideProofs WideExact.
From Urwid Require Import Canvas CanvasFacts CanvasDelta2 CanvasBytes CanvasBytesRle.
Import ListNotations.
Open Scope Z_scope.
Arguments Z.add : simpl never.
Arguments Z.sub : simpl never.
Arguments Z.mul : simpl never.
Arguments Z.ltb : simpl never.
Arguments Z.leb : simpl never.
Arguments Z.eqb : simpl never.
Arguments Z.min : simpl never.
Arguments Z.max : simpl never.
Arguments Z.to_nat : simpl never.
Arguments Z.of_nat : simpl never.

(* ------------------------------------------------------------------ tagged characters *)
Definition tch := (dbchar * Z * Z)%type.
Definition tchar (x : tch) : dbchar := fst (fst x).
Definition tattr (x : tch) : Z := snd (fst x).
Definition tcs (x : tch) : Z := snd x.
Definition tch_ok (x : tch) : Prop := dbchar_ok (tchar x).

Definition chars (l : list tch) : list dbchar := map tchar l.
Definition tbytes (l : list tch) : list Z := dbflat (chars l).
(* one (byte, attribute, charset) triple per byte *)
Definition pb1 (x : tch) : list (Z * oz * oz) := map (fun b => (b, oz_of_z (tattr x), oz_of_z (tcs x))) (dbbytes (tchar x)).
Definition pb (l : list tch) : list (Z * oz * oz) := flat_map pb1 l.
Definition tattrs (l : list tch) : list oz := map (fun t => snd (fst t)) (pb l).
Definition tcss (l : list tch) : list oz := map snd (pb l).

(* the cells of Model/Canvas.v; the payload of a cell is the byte string of its character *)
Definition cells1 (x : tch) : row :=
  match tchar x with
  | DSingle b => [Cell KN (tattr x) (tcs x) [b]]
  | DDouble l t => [Cell KL (tattr x) (tcs x) [l; t]; Cell KR (tattr x) (tcs x) []]
  end.
Definition cells_of (l : list tch) : row := flat_map cells1 l.

(* the space that replaces a cut character: attribute kept, charset None *)
Definition sp_tch (a : Z) : tch := (DSingle 32, a, 0).

Lemma cells1_sp a : cells1 (sp_tch a) = [space a].
Proof. reflexivity. Qed.

Lemma tbytes_pb l : tbytes l = map (fun t => fst (fst t)) (pb l).
Proof.
  unfold tbytes, chars, pb, dbflat. induction l as [|x l IH]; [reflexivity|].
  cbn [map flat_map]. rewrite map_app, IH. f_equal. unfold pb1. rewrite map_map. cbn [fst]. now rewrite map_id.
Qed.

Lemma pb_app a b : pb (a ++ b) = pb a ++ pb b.
Proof. apply flat_map_app. Qed.
Lemma cells_of_app a b : cells_of (a ++ b) = cells_of a ++ cells_of b.
Proof. apply flat_map_app. Qed.
Lemma tbytes_app a b : tbytes (a ++ b) = tbytes a ++ tbytes b.
Proof. unfold tbytes, chars. rewrite map_app. apply dbflat_app. Qed.

Lemma zlen_map {A B} (f : A -> B) l : zlen (map f l) = zlen l.
Proof. unfold zlen. now rewrite map_length. Qed.

Lemma zlen_pb l : zlen (pb l) = zlen (tbytes l).
Proof. rewrite tbytes_pb. now rewrite zlen_map. Qed.

Lemma zlen_cells1 x : zlen (cells1 x) = zlen (dbbytes (tchar x)).
Proof. unfold cells1. destruct (tchar x); reflexivity. Qed.

Lemma zlen_cells_of l : zlen (cells_of l) = zlen (tbytes l).
Proof.
  induction l as [|x l IH]; [reflexivity|].
  change (cells_of (x :: l)) with (cells1 x ++ cells_of l).
  change (tbytes (x :: l)) with (dbbytes (tchar x) ++ tbytes l).
  now rewrite !zlen_app, IH, zlen_cells1.
Qed.

Lemma tbytes_cons x l : tbytes (x :: l) = dbbytes (tchar x) ++ tbytes l.
Proof. reflexivity. Qed.

Lemma zlen_tchar x : 1 <= zlen (dbbytes (tchar x)) <= 2.
Proof. apply zlen_dbbytes. Qed.

(* ------------------------------------------------------------------ positions: boundary or middle of a character *)
Fixpoint midb (l : list tch) (p : Z) : bool :=
  match l with
  | [] => false
  | x :: r =>
      let n := zlen (dbbytes (tchar x)) in
      if p <=? 0 then false else if p <? n then true else midb r (p - n)
  end.

Lemma midb_app l1 : forall l2 q, 0 <= q -> midb (l1 ++ l2) (zlen (tbytes l1) + q) = midb l2 q.
Proof.
  induction l1 as [|x l1 IH]; intros l2 q Hq.
  - cbn [app]. change (zlen (tbytes [])) with 0. f_equal; lia.
  - cbn [app midb]. rewrite tbytes_cons, zlen_app. pose proof (zlen_tchar x). pose proof (zlen_nonneg (tbytes l1)).
    destruct (Z.eq_dec (zlen (tbytes l1) + q) 0) as [E0|N0].
    + (* only possible for the empty rest *)
      assert (q = 0) by lia. subst q. assert (zlen (tbytes l1) = 0) by lia.
      destruct (zlen (dbbytes (tchar x)) + zlen (tbytes l1) + 0 <=? 0) eqn:E1; [lia|].
      destruct (zlen (dbbytes (tchar x)) + zlen (tbytes l1) + 0 <? zlen (dbbytes (tchar x))) eqn:E2; [lia|].
      replace (zlen (dbbytes (tchar x)) + zlen (tbytes l1) + 0 - zlen (dbbytes (tchar x))) with (zlen (tbytes l1) + 0) by lia.
      apply IH. lia.
    + destruct (zlen (dbbytes (tchar x)) + zlen (tbytes l1) + q <=? 0) eqn:E1; [lia|].
      destruct (zlen (dbbytes (tchar x)) + zlen (tbytes l1) + q <? zlen (dbbytes (tchar x))) eqn:E2; [lia|].
      replace (zlen (dbbytes (tchar x)) + zlen (tbytes l1) + q - zlen (dbbytes (tchar x))) with (zlen (tbytes l1) + q) by lia.
      apply IH. lia.
Qed.

Lemma midb_0 l : midb l 0 = false.
Proof. destruct l; [reflexivity|]. cbn [midb]. destruct (0 <=? 0) eqn:E; [reflexivity|lia]. Qed.

Lemma midb_end l : midb l (zlen (tbytes l)) = false.
Proof.
  pose proof (midb_app l [] 0 ltac:(lia)) as H. rewrite app_nil_r in H.
  replace (zlen (tbytes l) + 0) with (zlen (tbytes l)) in H by lia. rewrite H. reflexivity.
Qed.

(* a position splits the row: at a boundary, or inside a two-byte character *)
Lemma midb_split l : forall p, 0 <= p <= zlen (tbytes l) ->
  if midb l p
  then exists l1 b t a s l2, l = l1 ++ (DDouble b t, a, s) :: l2 /\ zlen (tbytes l1) = p - 1
  else exists l1 l2, l = l1 ++ l2 /\ zlen (tbytes l1) = p.
Proof.
  induction l as [|x l IH]; intros p Hp.
  - cbn [midb]. exists [], []. split; [reflexivity|]. change (zlen (tbytes [])) with 0 in *. lia.
  - cbn [midb]. rewrite tbytes_cons, zlen_app in Hp. pose proof (zlen_tchar x) as Hx.
    destruct (p <=? 0) eqn:E0.
    + exists [], (x :: l). split; [reflexivity|]. change (zlen (tbytes [])) with 0. lia.
    + destruct (p <? zlen (dbbytes (tchar x))) eqn:E1.
      * destruct x as [[c a] s]. unfold tchar in *. cbn [fst] in *. destruct c as [b|b t].
        { change (zlen (dbbytes (DSingle b))) with 1 in *. lia. }
        exists [], b, t, a, s, l. split; [reflexivity|]. change (zlen (tbytes [])) with 0.
        change (zlen (dbbytes (DDouble b t))) with 2 in *. lia.
      * specialize (IH (p - zlen (dbbytes (tchar x))) ltac:(lia)).
        destruct (midb l (p - zlen (dbbytes (tchar x)))).
        -- destruct IH as (l1 & b & t & a & s & l2 & E & Hl). exists (x :: l1), b, t, a, s, l2.
           split; [rewrite E; reflexivity|]. rewrite tbytes_cons, zlen_app. lia.
        -- destruct IH as (l1 & l2 & E & Hl). exists (x :: l1), l2.
           split; [rewrite E; reflexivity|]. rewrite tbytes_cons, zlen_app. lia.
Qed.

Lemma Forall_chars l : Forall tch_ok l -> Forall dbchar_ok (chars l).
Proof. unfold chars. intros H. apply Forall_map. exact H. Qed.

(* within_double_byte answers 2 exactly in the middle of a character *)
Lemma wdb_midb l p : Forall tch_ok l -> 0 <= p < zlen (tbytes l) ->
  (within_double_byte (tbytes l) 0 p = Ok 2 <-> midb l p = true).
Proof.
  intros Hok Hp. pose proof (midb_split l p ltac:(lia)) as S.
  destruct (midb l p) eqn:M.
  - destruct S as (l1 & b & t & a & s & l2 & E & Hl). split; [reflexivity|]. intros _.
    apply Forall_chars in Hok. rewrite E in Hok. unfold chars in Hok. rewrite map_app in Hok. cbn [map] in Hok.
    pose proof (wdb_exact [] (map tchar l1) (tchar (DDouble b t, a, s)) (map tchar l2) [] Hok) as X.
    cbn zeta in X. cbn [app] in X. rewrite app_nil_r in X. change (zlen (@nil Z)) with 0 in X.
    unfold tchar at 3 in X. cbn [fst] in X. destruct X as [_ X].
    unfold tbytes, chars. rewrite E, map_app. cbn [map]. unfold tchar at 2. cbn [fst].
    replace p with (0 + zlen (dbflat (map tchar l1)) + 1); [exact X|]. unfold tbytes, chars in Hl. lia.
  - destruct S as (l1 & l2 & E & Hl). split; [|discriminate]. intros W. exfalso.
    destruct l2 as [|x l2].
    { rewrite app_nil_r in E. subst l1. lia. }
    apply Forall_chars in Hok. rewrite E in Hok. unfold chars in Hok. rewrite map_app in Hok. cbn [map] in Hok.
    pose proof (wdb_exact [] (map tchar l1) (tchar x) (map tchar l2) [] Hok) as X.
    cbn zeta in X. cbn [app] in X. rewrite app_nil_r in X. change (zlen (@nil Z)) with 0 in X.
    unfold tbytes, chars in W, Hl. rewrite E, map_app in W. cbn [map] in W.
    replace (0 + zlen (dbflat (map tchar l1))) with p in X by lia.
    destruct (tchar x); [rewrite W in X; discriminate|destruct X as [X _]; rewrite W in X; discriminate].
Qed.

(* ------------------------------------------------------------------ small list facts *)
Lemma tattrs_app a b : tattrs (a ++ b) = tattrs a ++ tattrs b.
Proof. unfold tattrs. now rewrite pb_app, map_app. Qed.
Lemma tcss_app a b : tcss (a ++ b) = tcss a ++ tcss b.
Proof. unfold tcss. now rewrite pb_app, map_app. Qed.
Lemma zlen_tattrs l : zlen (tattrs l) = zlen (tbytes l).
Proof. unfold tattrs. now rewrite zlen_map, zlen_pb. Qed.
Lemma zlen_tcss l : zlen (tcss l) = zlen (tbytes l).
Proof. unfold tcss. now rewrite zlen_map, zlen_pb. Qed.

Lemma first_okb_cells l : first_okb (cells_of l) = true.
Proof.
  destruct l as [|x l]; [reflexivity|]. change (cells_of (x :: l)) with (cells1 x ++ cells_of l).
  unfold cells1. destruct (tchar x); reflexivity.
Qed.

Lemma last_okb_app_cons r c : last_okb (r ++ [c]) = match ck c with KL => false | _ => true end.
Proof.
  induction r as [|d r IH]; [reflexivity|]. cbn [app last_okb].
  destruct (r ++ [c]) eqn:E; [destruct r; discriminate|]. exact IH.
Qed.

Lemma last_okb_cells l : last_okb (cells_of l) = true.
Proof.
  induction l as [|x l _] using rev_ind; [reflexivity|].
  rewrite cells_of_app. change (cells_of [x]) with (cells1 x ++ []). rewrite app_nil_r.
  unfold cells1. destruct (tchar x).
  - now rewrite last_okb_app_cons.
  - change [Cell KL (tattr x) (tcs x) [lead; trail]; Cell KR (tattr x) (tcs x) []]
      with ([Cell KL (tattr x) (tcs x) [lead; trail]] ++ [Cell KR (tattr x) (tcs x) []]).
    rewrite app_assoc. now rewrite last_okb_app_cons.
Qed.

Lemma fix_right_snoc r c : fix_right (r ++ [c]) = r ++ [match ck c with KL => space (ca c) | _ => c end].
Proof.
  induction r as [|d r IH]; [cbn [app fix_right]; destruct (ck c); reflexivity|].
  cbn [app fix_right]. destruct (r ++ [c]) eqn:E; [destruct r; discriminate|]. rewrite <- E, IH. reflexivity.
Qed.

Lemma dropz_1_cons {A} (x : A) r : dropz 1 (x :: r) = r.
Proof. reflexivity. Qed.

Lemma takez_1_cons {A} (x : A) r : takez 1 (x :: r) = [x].
Proof. reflexivity. Qed.

Lemma pb_dbl b t a s l : pb ((DDouble b t, a, s) :: l) = (b, oz_of_z a, oz_of_z s) :: (t, oz_of_z a, oz_of_z s) :: pb l.
Proof. reflexivity. Qed.

Lemma cells_dbl b t a s l : cells_of ((DDouble b t, a, s) :: l) = Cell KL a s [b; t] :: Cell KR a s [] :: cells_of l.
Proof. reflexivity. Qed.

Lemma tbytes_dbl b t a s l : zlen (tbytes ((DDouble b t, a, s) :: l)) = 2 + zlen (tbytes l).
Proof. rewrite tbytes_cons, zlen_app. reflexivity. Qed.

(* ------------------------------------------------------------------ the left edge *)
Lemma left_cut l s : Forall tch_ok l -> 0 <= s < zlen (tbytes l) ->
  let pl := if midb l s then 1 else 0 in
  exists m g,
    cells_of m = fix_left (dropz s (cells_of l)) /\
    pb m = repeatz (32, g, None) pl ++ dropz (s + pl) (pb l) /\
    (pl = 1 -> nthz (tattrs l) (s + pl - 1) = Some g) /\
    Forall tch_ok m /\
    midb m pl = false /\
    (forall q, pl <= q -> midb m q = midb l (s + q)).
Proof.
  intros Hok Hs. pose proof (midb_split l s ltac:(lia)) as S. cbn zeta.
  destruct (midb l s) eqn:M.
  - destruct S as (l1 & b & t & a & c & l2 & E & Hl).
    exists (sp_tch a :: l2), (oz_of_z a). subst l.
    assert (Z1 : zlen (cells_of l1) = s - 1) by (rewrite zlen_cells_of; lia).
    assert (Z2 : zlen (pb l1) = s - 1) by (rewrite zlen_pb; lia).
    split; [|split; [|split; [|split; [|split]]]].
    + rewrite cells_of_app, cells_dbl. rewrite dropz_app_r by lia.
      replace (s - zlen (cells_of l1)) with 1 by lia. rewrite dropz_1_cons. reflexivity.
    + rewrite pb_app, pb_dbl. rewrite dropz_app_r by lia.
      replace (s + 1 - zlen (pb l1)) with 2 by lia. reflexivity.
    + intros _. rewrite tattrs_app. rewrite nthz_app_r by (rewrite zlen_tattrs; lia). rewrite zlen_tattrs.
      replace (s + 1 - 1 - zlen (tbytes l1)) with 1 by lia. reflexivity.
    + apply Forall_app in Hok. destruct Hok as [_ Hok]. inversion Hok; subst.
      constructor; [unfold tch_ok, sp_tch, tchar; cbn; lia|assumption].
    + reflexivity.
    + intros q Hq.
      change (midb (sp_tch a :: l2) q) with (if q <=? 0 then false else if q <? 1 then true else midb l2 (q - 1)).
      destruct (q <=? 0) eqn:E0; [lia|]. destruct (q <? 1) eqn:E1; [lia|].
      replace (l1 ++ (DDouble b t, a, c) :: l2) with ((l1 ++ [(DDouble b t, a, c)]) ++ l2) by (now rewrite <- app_assoc).
      replace (s + q) with (zlen (tbytes (l1 ++ [(DDouble b t, a, c)])) + (q - 1)).
      * now rewrite midb_app by lia.
      * rewrite tbytes_app, zlen_app, tbytes_dbl. change (zlen (tbytes [])) with 0. lia.
  - destruct S as (l1 & l2 & E & Hl). exists l2, None. subst l.
    split; [|split; [|split; [|split; [|split]]]].
    + rewrite cells_of_app. rewrite dropz_app_r by (rewrite zlen_cells_of; lia).
      rewrite zlen_cells_of. replace (s - zlen (tbytes l1)) with 0 by lia. rewrite dropz_le0 by lia.
      symmetry. apply fix_left_clean, first_okb_cells.
    + rewrite pb_app. rewrite dropz_app_r by (rewrite zlen_pb; lia). rewrite zlen_pb.
      replace (s + 0 - zlen (tbytes l1)) with 0 by lia. rewrite dropz_le0 by lia. reflexivity.
    + intros; lia.
    + apply Forall_app in Hok. tauto.
    + apply midb_0.
    + intros q Hq. rewrite <- Hl. now rewrite midb_app by lia.
Qed.

(* ------------------------------------------------------------------ the right edge *)
Lemma right_cut m n : Forall tch_ok m -> 0 < n <= zlen (tbytes m) ->
  let pr := if midb m n then 1 else 0 in
  exists m' g,
    cells_of m' = fix_right (takez n (cells_of m)) /\
    pb m' = takez (n - pr) (pb m) ++ repeatz (32, g, None) pr /\
    (pr = 1 -> nthz (tattrs m) (n - pr) = Some g) /\
    Forall tch_ok m'.
Proof.
  intros Hok Hn. pose proof (midb_split m n ltac:(lia)) as S. cbn zeta.
  destruct (midb m n) eqn:M.
  - destruct S as (m1 & b & t & a & c & m2 & E & Hl).
    exists (m1 ++ [sp_tch a]), (oz_of_z a). subst m.
    assert (Z1 : zlen (cells_of m1) = n - 1) by (rewrite zlen_cells_of; lia).
    assert (Z2 : zlen (pb m1) = n - 1) by (rewrite zlen_pb; lia).
    split; [|split; [|split]].
    + rewrite !cells_of_app, cells_dbl. rewrite takez_app_r by lia.
      replace (n - zlen (cells_of m1)) with 1 by lia. rewrite takez_1_cons.
      rewrite fix_right_snoc. reflexivity.
    + rewrite !pb_app. rewrite takez_app_l by lia. rewrite takez_all by lia. reflexivity.
    + intros _. rewrite tattrs_app. rewrite nthz_app_r by (rewrite zlen_tattrs; lia). rewrite zlen_tattrs.
      replace (n - 1 - zlen (tbytes m1)) with 0 by lia. reflexivity.
    + apply Forall_app in Hok. destruct Hok as [Hok _]. apply Forall_app. split; [assumption|].
      constructor; [unfold tch_ok, sp_tch, tchar; cbn; lia|constructor].
  - destruct S as (m1 & m2 & E & Hl). exists m1, None. subst m.
    split; [|split; [|split]].
    + rewrite cells_of_app. rewrite takez_app_l by (rewrite zlen_cells_of; lia).
      rewrite takez_all by (rewrite zlen_cells_of; lia). symmetry. apply fix_right_clean, last_okb_cells.
    + rewrite pb_app. rewrite takez_app_l by (rewrite zlen_pb; lia). rewrite takez_all by (rewrite zlen_pb; lia).
      now rewrite app_nil_r.
    + intros; lia.
    + apply Forall_app in Hok. tauto.
Qed.
