(* C02, byte level: a TextCanvas row in a double-byte encoding, trimmed by util.trim_text_attr_cs
   (C11's model, imported read-only), is the cell-level row trimmed by [trim_cells]: a double-width
   character cut by either edge becomes a space that keeps the character's attribute and gets
   charset None.  The cell abstraction of Model/Canvas.v is thereby PROVED for the "wide" byte
   encodings instead of trusted.

   A row is described by its list of tagged characters (character, attribute, charset); from it
   come the bytes [tbytes], the per-byte attributes / charsets [tattrs] / [tcss] (what the
   run-length lists must expand to) and the screen cells [cells_of] (the row of Model/Canvas.v).
   In the wide mode one byte is one column, so bytes and cells line up one to one. *)
From Coq Require Import ZArith List Bool Lia ZifyBool.
From Urwid Require Import PyBase PyList Utf8 Width WidthFacts WideProofs WideExact GenEq.
From Urwid Require Import Canvas CanvasFacts CanvasDelta2 CanvasBytes CanvasBytesRle.
Import ListNotations.
Open Scope Z_scope.
Arguments Z.add : simpl never.
Arguments Z.sub : simpl never.
Arguments Z.mul : simpl never.
Arguments Z.ltb : simpl never.
Arguments Z.leb : simpl never.
Arguments Z.eqb : simpl never.
Arguments Z.min : simpl never.
Arguments Z.max : simpl never.
Arguments Z.to_nat : simpl never.
Arguments Z.of_nat : simpl never.

(* ------------------------------------------------------------------ tagged characters *)
Definition tch := (dbchar * Z * Z)%type.
Definition tchar (x : tch) : dbchar := fst (fst x).
Definition tattr (x : tch) : Z := snd (fst x).
Definition tcs (x : tch) : Z := snd x.
Definition tch_ok (x : tch) : Prop := dbchar_ok (tchar x).

Definition chars (l : list tch) : list dbchar := map tchar l.
Definition tbytes (l : list tch) : list Z := dbflat (chars l).
(* one (byte, attribute, charset) triple per byte *)
Definition pb1 (x : tch) : list (Z * oz * oz) := map (fun b => (b, oz_of_z (tattr x), oz_of_z (tcs x))) (dbbytes (tchar x)).
Definition pb (l : list tch) : list (Z * oz * oz) := flat_map pb1 l.
Definition tattrs (l : list tch) : list oz := map (fun t => snd (fst t)) (pb l).
Definition tcss (l : list tch) : list oz := map snd (pb l).

(* the cells of Model/Canvas.v; the payload of a cell is the byte string of its character *)
Definition cells1 (x : tch) : row :=
  match tchar x with
  | DSingle b => [Cell KN (tattr x) (tcs x) [b]]
  | DDouble l t => [Cell KL (tattr x) (tcs x) [l; t]; Cell KR (tattr x) (tcs x) []]
  end.
Definition cells_of (l : list tch) : row := flat_map cells1 l.

(* the space that replaces a cut character: attribute kept, charset None *)
Definition sp_tch (a : Z) : tch := (DSingle 32, a, 0).

Lemma cells1_sp a : cells1 (sp_tch a) = [space a].
Proof. reflexivity. Qed.

Lemma tbytes_pb l : tbytes l = map (fun t => fst (fst t)) (pb l).
Proof.
  unfold tbytes, chars, pb, dbflat. induction l as [|x l IH]; [reflexivity|].
  cbn [map flat_map]. rewrite map_app, IH. f_equal. unfold pb1. rewrite map_map. cbn [fst]. now rewrite map_id.
Qed.

Lemma pb_app a b : pb (a ++ b) = pb a ++ pb b.
Proof. apply flat_map_app. Qed.
Lemma cells_of_app a b : cells_of (a ++ b) = cells_of a ++ cells_of b.
Proof. apply flat_map_app. Qed.
Lemma tbytes_app a b : tbytes (a ++ b) = tbytes a ++ tbytes b.
Proof. unfold tbytes, chars. rewrite map_app. apply dbflat_app. Qed.

Lemma zlen_map {A B} (f : A -> B) l : zlen (map f l) = zlen l.
Proof. unfold zlen. now rewrite map_length. Qed.

Lemma zlen_pb l : zlen (pb l) = zlen (tbytes l).
Proof. rewrite tbytes_pb. now rewrite zlen_map. Qed.

Lemma zlen_cells1 x : zlen (cells1 x) = zlen (dbbytes (tchar x)).
Proof. unfold cells1. destruct (tchar x); reflexivity. Qed.

Lemma zlen_cells_of l : zlen (cells_of l) = zlen (tbytes l).
Proof.
  induction l as [|x l IH]; [reflexivity|].
  change (cells_of (x :: l)) with (cells1 x ++ cells_of l).
  change (tbytes (x :: l)) with (dbbytes (tchar x) ++ tbytes l).
  now rewrite !zlen_app, IH, zlen_cells1.
Qed.

Lemma tbytes_cons x l : tbytes (x :: l) = dbbytes (tchar x) ++ tbytes l.
Proof. reflexivity. Qed.

Lemma zlen_tchar x : 1 <= zlen (dbbytes (tchar x)) <= 2.
Proof. apply zlen_dbbytes. Qed.

(* ------------------------------------------------------------------ positions: boundary or middle of a character *)
Fixpoint midb (l : list tch) (p : Z) : bool :=
  match l with
  | [] => false
  | x :: r =>
      let n := zlen (dbbytes (tchar x)) in
      if p <=? 0 then false else if p <? n then true else midb r (p - n)
  end.

Lemma midb_app l1 : forall l2 q, 0 <= q -> midb (l1 ++ l2) (zlen (tbytes l1) + q) = midb l2 q.
Proof.
  induction l1 as [|x l1 IH]; intros l2 q Hq.
  - cbn [app]. change (zlen (tbytes [])) with 0. f_equal; lia.
  - cbn [app midb]. rewrite tbytes_cons, zlen_app. pose proof (zlen_tchar x). pose proof (zlen_nonneg (tbytes l1)).
    destruct (Z.eq_dec (zlen (tbytes l1) + q) 0) as [E0|N0].
    + (* only possible for the empty rest *)
      assert (q = 0) by lia. subst q. assert (zlen (tbytes l1) = 0) by lia.
      destruct (zlen (dbbytes (tchar x)) + zlen (tbytes l1) + 0 <=? 0) eqn:E1; [lia|].
      destruct (zlen (dbbytes (tchar x)) + zlen (tbytes l1) + 0 <? zlen (dbbytes (tchar x))) eqn:E2; [lia|].
      replace (zlen (dbbytes (tchar x)) + zlen (tbytes l1) + 0 - zlen (dbbytes (tchar x))) with (zlen (tbytes l1) + 0) by lia.
      apply IH. lia.
    + destruct (zlen (dbbytes (tchar x)) + zlen (tbytes l1) + q <=? 0) eqn:E1; [lia|].
      destruct (zlen (dbbytes (tchar x)) + zlen (tbytes l1) + q <? zlen (dbbytes (tchar x))) eqn:E2; [lia|].
      replace (zlen (dbbytes (tchar x)) + zlen (tbytes l1) + q - zlen (dbbytes (tchar x))) with (zlen (tbytes l1) + q) by lia.
      apply IH. lia.
Qed.

Lemma midb_0 l : midb l 0 = false.
Proof. destruct l; [reflexivity|]. cbn [midb]. destruct (0 <=? 0) eqn:E; [reflexivity|lia]. Qed.

Lemma midb_end l : midb l (zlen (tbytes l)) = false.
Proof.
  pose proof (midb_app l [] 0 ltac:(lia)) as H. rewrite app_nil_r in H.
  replace (zlen (tbytes l) + 0) with (zlen (tbytes l)) in H by lia. rewrite H. reflexivity.
Qed.

(* a position splits the row: at a boundary, or inside a two-byte character *)
Lemma midb_split l : forall p, 0 <= p <= zlen (tbytes l) ->
  if midb l p
  then exists l1 b t a s l2, l = l1 ++ (DDouble b t, a, s) :: l2 /\ zlen (tbytes l1) = p - 1
  else exists l1 l2, l = l1 ++ l2 /\ zlen (tbytes l1) = p.
Proof.
  induction l as [|x l IH]; intros p Hp.
  - cbn [midb]. exists [], []. split; [reflexivity|]. change (zlen (tbytes [])) with 0 in *. lia.
  - cbn [midb]. rewrite tbytes_cons, zlen_app in Hp. pose proof (zlen_tchar x) as Hx.
    destruct (p <=? 0) eqn:E0.
    + exists [], (x :: l). split; [reflexivity|]. change (zlen (tbytes [])) with 0. lia.
    + destruct (p <? zlen (dbbytes (tchar x))) eqn:E1.
      * destruct x as [[c a] s]. unfold tchar in *. cbn [fst] in *. destruct c as [b|b t].
        { change (zlen (dbbytes (DSingle b))) with 1 in *. lia. }
        exists [], b, t, a, s, l. split; [reflexivity|]. change (zlen (tbytes [])) with 0.
        change (zlen (dbbytes (DDouble b t))) with 2 in *. lia.
      * specialize (IH (p - zlen (dbbytes (tchar x))) ltac:(lia)).
        destruct (midb l (p - zlen (dbbytes (tchar x)))).
        -- destruct IH as (l1 & b & t & a & s & l2 & E & Hl). exists (x :: l1), b, t, a, s, l2.
           split; [rewrite E; reflexivity|]. rewrite tbytes_cons, zlen_app. lia.
        -- destruct IH as (l1 & l2 & E & Hl). exists (x :: l1), l2.
           split; [rewrite E; reflexivity|]. rewrite tbytes_cons, zlen_app. lia.
Qed.

Lemma Forall_chars l : Forall tch_ok l -> Forall dbchar_ok (chars l).
Proof. unfold chars. intros H. apply Forall_map. exact H. Qed.

(* within_double_byte answers 2 exactly in the middle of a character *)
Lemma wdb_midb l p : Forall tch_ok l -> 0 <= p < zlen (tbytes l) ->
  (within_double_byte (tbytes l) 0 p = Ok 2 <-> midb l p = true).
Proof.
  intros Hok Hp. pose proof (midb_split l p ltac:(lia)) as S.
  destruct (midb l p) eqn:M.
  - destruct S as (l1 & b & t & a & s & l2 & E & Hl). split; [reflexivity|]. intros _.
    apply Forall_chars in Hok. rewrite E in Hok. unfold chars in Hok. rewrite map_app in Hok. cbn [map] in Hok.
    pose proof (wdb_exact [] (map tchar l1) (tchar (DDouble b t, a, s)) (map tchar l2) [] Hok) as X.
    cbn zeta in X. cbn [app] in X. rewrite app_nil_r in X. change (zlen (@nil Z)) with 0 in X.
    unfold tchar at 3 in X. cbn [fst] in X. destruct X as [_ X].
    unfold tbytes, chars. rewrite E, map_app. cbn [map]. unfold tchar at 2. cbn [fst].
    replace p with (0 + zlen (dbflat (map tchar l1)) + 1); [exact X|]. unfold tbytes, chars in Hl. lia.
  - destruct S as (l1 & l2 & E & Hl). split; [|discriminate]. intros W. exfalso.
    destruct l2 as [|x l2].
    { rewrite app_nil_r in E. subst l1. lia. }
    apply Forall_chars in Hok. rewrite E in Hok. unfold chars in Hok. rewrite map_app in Hok. cbn [map] in Hok.
    pose proof (wdb_exact [] (map tchar l1) (tchar x) (map tchar l2) [] Hok) as X.
    cbn zeta in X. cbn [app] in X. rewrite app_nil_r in X. change (zlen (@nil Z)) with 0 in X.
    unfold tbytes, chars in W, Hl. rewrite E, map_app in W. cbn [map] in W.
    replace (0 + zlen (dbflat (map tchar l1))) with p in X by lia.
    destruct (tchar x); [rewrite W in X; discriminate|destruct X as [X _]; rewrite W in X; discriminate].
Qed.

(* ------------------------------------------------------------------ small list facts *)
Lemma tattrs_app a b : tattrs (a ++ b) = tattrs a ++ tattrs b.
Proof. unfold tattrs. now rewrite pb_app, map_app. Qed.
Lemma tcss_app a b : tcss (a ++ b) = tcss a ++ tcss b.
Proof. unfold tcss. now rewrite pb_app, map_app. Qed.
Lemma zlen_tattrs l : zlen (tattrs l) = zlen (tbytes l).
Proof. unfold tattrs. now rewrite zlen_map, zlen_pb. Qed.
Lemma zlen_tcss l : zlen (tcss l) = zlen (tbytes l).
Proof. unfold tcss. now rewrite zlen_map, zlen_pb. Qed.

Lemma first_okb_cells l : first_okb (cells_of l) = true.
Proof.
  destruct l as [|x l]; [reflexivity|]. change (cells_of (x :: l)) with (cells1 x ++ cells_of l).
  unfold cells1. destruct (tchar x); reflexivity.
Qed.

Lemma last_okb_app_cons r c : last_okb (r ++ [c]) = match ck c with KL => false | _ => true end.
Proof.
  induction r as [|d r IH]; [reflexivity|]. cbn [app last_okb].
  destruct (r ++ [c]) eqn:E; [destruct r; discriminate|]. exact IH.
Qed.

Lemma last_okb_cells l : last_okb (cells_of l) = true.
Proof.
  induction l as [|x l _] using rev_ind; [reflexivity|].
  rewrite cells_of_app. change (cells_of [x]) with (cells1 x ++ []). rewrite app_nil_r.
  unfold cells1. destruct (tchar x).
  - now rewrite last_okb_app_cons.
  - change [Cell KL (tattr x) (tcs x) [lead; trail]; Cell KR (tattr x) (tcs x) []]
      with ([Cell KL (tattr x) (tcs x) [lead; trail]] ++ [Cell KR (tattr x) (tcs x) []]).
    rewrite app_assoc. now rewrite last_okb_app_cons.
Qed.

Lemma fix_right_snoc r c : fix_right (r ++ [c]) = r ++ [match ck c with KL => space (ca c) | _ => c end].
Proof.
  induction r as [|d r IH]; [cbn [app fix_right]; destruct (ck c); reflexivity|].
  rewrite <- app_comm_cons. destruct (r ++ [c]) as [|c0 l0] eqn:E; [destruct r; discriminate|].
  change (fix_right (d :: c0 :: l0)) with (d :: fix_right (c0 :: l0)). rewrite IH. reflexivity.
Qed.

Lemma dropz_1_cons {A} (x : A) r : dropz 1 (x :: r) = r.
Proof. reflexivity. Qed.

Lemma takez_1_cons {A} (x : A) r : takez 1 (x :: r) = [x].
Proof. reflexivity. Qed.

Lemma pb_dbl b t a s l : pb ((DDouble b t, a, s) :: l) = (b, oz_of_z a, oz_of_z s) :: (t, oz_of_z a, oz_of_z s) :: pb l.
Proof. reflexivity. Qed.

Lemma cells_dbl b t a s l : cells_of ((DDouble b t, a, s) :: l) = Cell KL a s [b; t] :: Cell KR a s [] :: cells_of l.
Proof. reflexivity. Qed.

Lemma tbytes_dbl b t a s l : zlen (tbytes ((DDouble b t, a, s) :: l)) = 2 + zlen (tbytes l).
Proof. rewrite tbytes_cons, zlen_app. reflexivity. Qed.

(* ------------------------------------------------------------------ the left edge *)
Lemma left_cut l s : Forall tch_ok l -> 0 <= s < zlen (tbytes l) ->
  let pl := if midb l s then 1 else 0 in
  exists m g,
    cells_of m = fix_left (dropz s (cells_of l)) /\
    pb m = repeatz (32, g, None) pl ++ dropz (s + pl) (pb l) /\
    (pl = 1 -> nthz (tattrs l) (s + pl - 1) = Some g) /\
    Forall tch_ok m /\
    midb m pl = false /\
    (forall q, pl <= q -> midb m q = midb l (s + q)).
Proof.
  intros Hok Hs. pose proof (midb_split l s ltac:(lia)) as S. cbn zeta.
  destruct (midb l s) eqn:M.
  - destruct S as (l1 & b & t & a & c & l2 & E & Hl).
    exists (sp_tch a :: l2), (oz_of_z a). subst l.
    assert (Z1 : zlen (cells_of l1) = s - 1) by (rewrite zlen_cells_of; lia).
    assert (Z2 : zlen (pb l1) = s - 1) by (rewrite zlen_pb; lia).
    split; [|split; [|split; [|split; [|split]]]].
    + rewrite cells_of_app, cells_dbl. rewrite dropz_app_r by lia.
      replace (s - zlen (cells_of l1)) with 1 by lia. rewrite dropz_1_cons. reflexivity.
    + rewrite pb_app, pb_dbl. rewrite dropz_app_r by lia.
      replace (s + 1 - zlen (pb l1)) with 2 by lia. reflexivity.
    + intros _. rewrite tattrs_app. rewrite nthz_app_r by (rewrite zlen_tattrs; lia). rewrite zlen_tattrs.
      replace (s + 1 - 1 - zlen (tbytes l1)) with 1 by lia. reflexivity.
    + apply Forall_app in Hok. destruct Hok as [_ Hok]. inversion Hok; subst.
      constructor; [unfold tch_ok, sp_tch, tchar; cbn; lia|assumption].
    + change (midb (sp_tch a :: l2) 1) with (midb l2 0). apply midb_0.
    + intros q Hq.
      change (midb (sp_tch a :: l2) q) with (if q <=? 0 then false else if q <? 1 then true else midb l2 (q - 1)).
      destruct (q <=? 0) eqn:E0; [lia|]. destruct (q <? 1) eqn:E1; [lia|].
      replace (l1 ++ (DDouble b t, a, c) :: l2) with ((l1 ++ [(DDouble b t, a, c)]) ++ l2) by (now rewrite <- app_assoc).
      replace (s + q) with (zlen (tbytes (l1 ++ [(DDouble b t, a, c)])) + (q - 1)).
      * now rewrite midb_app by lia.
      * rewrite tbytes_app, zlen_app, tbytes_dbl. change (zlen (tbytes [])) with 0. lia.
  - destruct S as (l1 & l2 & E & Hl). exists l2, None. subst l.
    split; [|split; [|split; [|split; [|split]]]].
    + rewrite cells_of_app. rewrite dropz_app_r by (rewrite zlen_cells_of; lia).
      rewrite zlen_cells_of. replace (s - zlen (tbytes l1)) with 0 by lia. rewrite dropz_le0 by lia.
      symmetry. apply fix_left_clean, first_okb_cells.
    + rewrite pb_app. rewrite dropz_app_r by (rewrite zlen_pb; lia). rewrite zlen_pb.
      replace (s + 0 - zlen (tbytes l1)) with 0 by lia. rewrite dropz_le0 by lia. reflexivity.
    + intros; lia.
    + apply Forall_app in Hok. tauto.
    + apply midb_0.
    + intros q Hq. rewrite <- Hl. now rewrite midb_app by lia.
Qed.

(* ------------------------------------------------------------------ the right edge *)
Lemma right_cut m n : Forall tch_ok m -> 0 < n <= zlen (tbytes m) ->
  let pr := if midb m n then 1 else 0 in
  exists m' g,
    cells_of m' = fix_right (takez n (cells_of m)) /\
    pb m' = takez (n - pr) (pb m) ++ repeatz (32, g, None) pr /\
    (pr = 1 -> nthz (tattrs m) (n - pr) = Some g) /\
    Forall tch_ok m'.
Proof.
  intros Hok Hn. pose proof (midb_split m n ltac:(lia)) as S. cbn zeta.
  destruct (midb m n) eqn:M.
  - destruct S as (m1 & b & t & a & c & m2 & E & Hl).
    exists (m1 ++ [sp_tch a]), (oz_of_z a). subst m.
    assert (Z1 : zlen (cells_of m1) = n - 1) by (rewrite zlen_cells_of; lia).
    assert (Z2 : zlen (pb m1) = n - 1) by (rewrite zlen_pb; lia).
    split; [|split; [|split]].
    + rewrite !cells_of_app, cells_dbl. rewrite takez_app_r by lia.
      replace (n - zlen (cells_of m1)) with 1 by lia. rewrite takez_1_cons.
      rewrite fix_right_snoc. reflexivity.
    + rewrite !pb_app. rewrite takez_app_l by lia. rewrite takez_all by lia. reflexivity.
    + intros _. rewrite tattrs_app. rewrite nthz_app_r by (rewrite zlen_tattrs; lia). rewrite zlen_tattrs.
      replace (n - 1 - zlen (tbytes m1)) with 0 by lia. reflexivity.
    + apply Forall_app in Hok. destruct Hok as [Hok _]. apply Forall_app. split; [assumption|].
      constructor; [unfold tch_ok, sp_tch, tchar; cbn; lia|constructor].
  - destruct S as (m1 & m2 & E & Hl). exists m1, None. subst m.
    split; [|split; [|split]].
    + rewrite cells_of_app. rewrite takez_app_l by (rewrite zlen_cells_of; lia).
      rewrite takez_all by (rewrite zlen_cells_of; lia). symmetry. apply fix_right_clean, last_okb_cells.
    + rewrite pb_app. rewrite takez_app_l by (rewrite zlen_pb; lia). rewrite takez_all by (rewrite zlen_pb; lia).
      now rewrite app_nil_r.
    + intros; lia.
    + apply Forall_app in Hok. tauto.
Qed.

(* ------------------------------------------------------------------ util.trim_text_attr_cs on a double-byte row *)
Lemma ttac_unfold wcw m text (attr cs : rle) sc ec sp ep pl pr :
  calc_trim_text wcw m text 0 (zlen text) sc ec = Ok (sp, ep, pl, pr) ->
  trim_text_attr_cs wcw m text attr cs sc ec =
  Ok (repeatz 32 pl ++ py_slice text sp ep ++ repeatz 32 pr,
      (let A := rle_subseg attr sp ep in
       let A1 := if negb (pl =? 0) then rle_prepend_modify A (rle_get_at attr (sp - 1)) 1 else A in
       if negb (pr =? 0) then rle_append_modify A1 (rle_get_at attr ep) 1 else A1),
      (let C := rle_subseg cs sp ep in
       let C1 := if negb (pl =? 0) then rle_prepend_modify C None 1 else C in
       if negb (pr =? 0) then rle_append_modify C1 None 1 else C1)).
Proof. intros E. unfold trim_text_attr_cs. rewrite E. destruct (negb (pl =? 0)), (negb (pr =? 0)); reflexivity. Qed.

Lemma nnr_prepend (r : rle) a : nnr r -> nnr (rle_prepend_modify r a 1).
Proof.
  intros Hn. unfold rle_prepend_modify. destruct r as [|[al run] t]; [repeat constructor; cbn; lia|].
  inversion Hn as [|p l Hp Ht]; subst. cbn [snd] in Hp.
  destruct (oz_eqb a al).
  - constructor; [cbn [snd]; lia|assumption].
  - constructor; [cbn [snd]; lia|]. constructor; [cbn [snd]; lia|assumption].
Qed.

Lemma nnr_append (r : rle) a n : nnr r -> 0 <= n -> nnr (rle_append_modify r a n).
Proof.
  intros Hr Hn. unfold rle_append_modify, rle_append_modify_gen. destruct (n =? 0); [exact Hr|].
  induction r as [|[la lr] t IH]; [repeat constructor; exact Hn|].
  inversion Hr as [|p l Hp Ht]; subst. cbn [snd] in Hp. destruct t as [|y t'].
  - cbn [rle_append_core]. destruct (oz_eqb la a); repeat constructor; cbn [snd]; lia.
  - change (rle_append_core oz_eqb ((la, lr) :: y :: t') a n) with ((la, lr) :: rle_append_core oz_eqb (y :: t') a n).
    constructor; [exact Hp|apply IH, Ht].
Qed.

Lemma rexp_pads (A : rle) g1 g2 pl pr : nnr A -> (pl = 0 \/ pl = 1) -> (pr = 0 \/ pr = 1) ->
  let A1 := if negb (pl =? 0) then rle_prepend_modify A g1 1 else A in
  let A2 := if negb (pr =? 0) then rle_append_modify A1 g2 1 else A1 in
  rexp A2 = repeatz g1 pl ++ rexp A ++ repeatz g2 pr /\ nnr A2 /\ (posr A -> posr A2).
Proof.
  intros Hn [-> | ->] [-> | ->]; cbn zeta;
    change (negb (0 =? 0)) with false; change (negb (1 =? 0)) with true; cbv iota.
  - split; [now rewrite app_nil_r|]. tauto.
  - split; [|split].
    + now rewrite rexp_append by (try assumption; lia).
    + apply nnr_append; [assumption|lia].
    + intros. apply posr_append; [assumption|lia].
  - split; [|split].
    + rewrite rexp_prepend by assumption. now rewrite app_nil_r.
    + now apply nnr_prepend.
    + intros. now apply posr_prepend.
  - split; [|split].
    + rewrite rexp_append by (try apply nnr_prepend; try assumption; lia). now rewrite rexp_prepend by assumption.
    + apply nnr_append; [now apply nnr_prepend|lia].
    + intros. apply posr_append; [now apply posr_prepend|lia].
Qed.

Lemma map_repeatz {A B} (f : A -> B) x n : map f (repeatz x n) = repeatz (f x) n.
Proof. unfold repeatz. induction (Z.to_nat n) as [|k IH]; [reflexivity|]. cbn [repeat map]. now rewrite IH. Qed.

Lemma wdb_at_end text : within_double_byte text 0 (zlen text) <> Ok 2.
Proof. unfold within_double_byte. rewrite (wdb_unfold 2). rewrite get_index_out. discriminate. Qed.

(* the function assembled from the translated code is C11's trim_text_attr_cs (C11: Proofs/GenEq.v) *)
Lemma trim_text_attr_cs_g_eq wcw md text (attr cs : rle) sc ec :
  trim_text_attr_cs_g wcw md text attr cs sc ec = trim_text_attr_cs wcw md text attr cs sc ec.
Proof.
  unfold trim_text_attr_cs_g, trim_text_attr_cs. rewrite calc_trim_text_g_eq.
  destruct (calc_trim_text wcw md text 0 (zlen text) sc ec) as [[[[sp ep] pl] pr]|e]; [|reflexivity].
  rewrite !rle_subseg_gen_eq, !rle_get_at_gen_eq.
  destruct (negb (pl =? 0)), (negb (pr =? 0)); reflexivity.
Qed.

Section Row.
Variable wcw : Z -> Z.

Theorem trim_row_refines l (attr cs : rle) s e :
  Forall tch_ok l -> nnr attr -> nnr cs -> rexp attr = tattrs l -> rexp cs = tcss l ->
  0 <= s < e -> e <= zlen (tbytes l) ->
  exists l' a' c',
    trim_text_attr_cs wcw MWide (tbytes l) attr cs s e = Ok (tbytes l', a', c') /\
    rexp a' = tattrs l' /\ rexp c' = tcss l' /\ nnr a' /\ nnr c' /\
    (posr attr -> posr a') /\ (posr cs -> posr c') /\
    Forall tch_ok l' /\ zlen (tbytes l') = e - s /\
    cells_of l' = trim_cells (cells_of l) s e.
Proof.
  intros Hok Na Nc Xa Xc Hse Hle.
  destruct (calc_trim_text_wide wcw (chars l) s e (Forall_chars _ Hok) Hse Hle)
    as (sp & ep & pl & pr & E & Hsum & Hsp & Hpl & Hpr & Fl & Fr).
  fold (tbytes l) in E, Fl, Fr.
  assert (PL : pl = if midb l s then 1 else 0).
  { pose proof (wdb_midb l s Hok ltac:(lia)) as W. destruct (midb l s); [apply Fl; tauto|].
    destruct Hpl as [H|H]; [exact H|]. apply Fl in H. apply W in H. discriminate. }
  assert (PR : pr = if midb l e then 1 else 0).
  { destruct (Z.eq_dec e (zlen (tbytes l))) as [-> | Ne].
    - rewrite midb_end. destruct Hpr as [H|H]; [exact H|]. apply Fr in H. now apply wdb_at_end in H.
    - pose proof (wdb_midb l e Hok ltac:(lia)) as W. destruct (midb l e); [apply Fr; tauto|].
      destruct Hpr as [H|H]; [exact H|]. apply Fr in H. apply W in H. discriminate. }
  destruct (left_cut l s Hok ltac:(lia)) as (m & g1 & Cm & Pm & G1 & Okm & Mpl & Mq). cbn zeta in *.
  rewrite <- PL in *.
  set (n := e - s).
  assert (Hnpl : pl <= n) by (unfold n; lia).
  assert (Mn : midb m n = midb l e) by (rewrite Mq by exact Hnpl; f_equal; unfold n; lia).
  assert (Lm : zlen (tbytes m) = zlen (tbytes l) - s).
  { rewrite <- zlen_pb, Pm, zlen_app, zlen_repeatz by lia. rewrite zlen_dropz by lia. rewrite zlen_pb. lia. }
  destruct (right_cut m n Okm ltac:(unfold n; lia)) as (m' & g2 & Cm' & Pm' & G2 & Okm'). cbn zeta in *.
  rewrite Mn, <- PR in *.
  (* the slice is not negative *)
  assert (Hmid : 0 <= n - pr - pl).
  { destruct Hpr as [-> | ->]; [lia|]. destruct (Z.eq_dec n pl) as [En|]; [|lia].
    rewrite En, Mpl in Mn. rewrite <- Mn in PR. discriminate. }
  assert (Hep : ep = sp + (n - pr - pl)) by (unfold n; lia).
  assert (Hspb : 0 <= sp <= ep) by lia.
  assert (Hepl : ep <= zlen (tbytes l)) by (unfold n in *; lia).
  (* the per-byte triples of the result *)
  assert (PB : pb m' = repeatz (32, g1, None) pl ++ takez (ep - sp) (dropz sp (pb l)) ++ repeatz (32, g2, None) pr).
  { rewrite Pm', Pm. rewrite takez_app_r by (rewrite zlen_repeatz; lia). rewrite zlen_repeatz by lia.
    rewrite <- app_assoc. rewrite <- Hsp. do 2 f_equal. f_equal. lia. }
  exists m'. rewrite (ttac_unfold _ _ _ _ _ _ _ _ _ _ _ E).
  set (A := rle_subseg attr sp ep). set (C := rle_subseg cs sp ep).
  assert (NA : nnr A) by (apply rle_subseg_nn; [assumption|lia]).
  assert (NC : nnr C) by (apply rle_subseg_nn; [assumption|lia]).
  assert (XA : rexp A = takez (ep - sp) (dropz sp (tattrs l))) by (unfold A; rewrite rexp_subseg, Xa by (assumption || lia); reflexivity).
  assert (XC : rexp C = takez (ep - sp) (dropz sp (tcss l))) by (unfold C; rewrite rexp_subseg, Xc by (assumption || lia); reflexivity).
  destruct (rexp_pads A (rle_get_at attr (sp - 1)) (rle_get_at attr ep) pl pr NA Hpl Hpr) as (RA & NA2 & PA2).
  destruct (rexp_pads C None None pl pr NC Hpl Hpr) as (RC & NC2 & PC2).
  cbn zeta in *.
  (* the attributes of the two replacement spaces *)
  assert (GA1 : repeatz (rle_get_at attr (sp - 1)) pl = repeatz g1 pl).
  { destruct Hpl as [-> | Hp1]; [now rewrite !repeatz_0 by lia|]. f_equal.
    apply rle_get_at_nth; [assumption|]. rewrite Xa. rewrite <- (G1 Hp1). f_equal. lia. }
  assert (GA2 : repeatz (rle_get_at attr ep) pr = repeatz g2 pr).
  { destruct Hpr as [-> | Hp1]; [now rewrite !repeatz_0 by lia|]. f_equal.
    apply rle_get_at_nth; [assumption|]. rewrite Xa. rewrite <- (G2 Hp1).
    unfold tattrs at 2. rewrite Pm, map_app, map_repeatz. cbn [fst snd].
    rewrite nthz_app_r by (rewrite zlen_repeatz; lia). rewrite zlen_repeatz by lia.
    rewrite <- dropz_map. fold (tattrs l). rewrite nthz_dropz by lia. f_equal. lia. }
  eexists _, _. split; [|split; [|split; [|split; [|split; [|split; [|split; [|split; [|split]]]]]]]].
  - f_equal. f_equal. f_equal.
    rewrite (tbytes_pb m'), PB, !map_app, !map_repeatz. cbn [fst].
    rewrite py_slice_in by lia. rewrite (tbytes_pb l). now rewrite dropz_map, takez_map.
  - rewrite RA, XA, GA1, GA2. unfold tattrs at 2. rewrite PB, !map_app, !map_repeatz. cbn [fst snd].
    unfold tattrs. now rewrite dropz_map, takez_map.
  - rewrite RC, XC. unfold tcss at 2. rewrite PB, !map_app, !map_repeatz. cbn [snd].
    unfold tcss. now rewrite dropz_map, takez_map.
  - exact NA2.
  - exact NC2.
  - intros P. apply PA2. apply rle_subseg_pos; [assumption|lia].
  - intros P. apply PC2. apply rle_subseg_pos; [assumption|lia].
  - exact Okm'.
  - rewrite <- zlen_pb, PB, !zlen_app, !zlen_repeatz by lia.
    rewrite zlen_takez by lia. rewrite zlen_dropz by lia. rewrite zlen_pb. lia.
  - rewrite Cm', Cm. rewrite takez_fix_left by (unfold n; lia). reflexivity.
Qed.
End Row.

(* ------------------------------------------------------------------ the segments of a content row, read back *)
Definition pairs (l : list tch) : list (oz * oz) := map (fun t => (snd (fst t), snd t)) (pb l).
Definition tpair (x : tch) : oz * oz := (oz_of_z (tattr x), oz_of_z (tcs x)).

Lemma pairs_combine l : combine (tattrs l) (tcss l) = pairs l.
Proof. unfold tattrs, tcss, pairs. induction (pb l) as [|t r IH]; [reflexivity|]. cbn [map combine]. now rewrite IH. Qed.

Lemma pairs_app a b : pairs (a ++ b) = pairs a ++ pairs b.
Proof. unfold pairs. now rewrite pb_app, map_app. Qed.

Lemma zlen_pairs l : zlen (pairs l) = zlen (tbytes l).
Proof. unfold pairs. now rewrite zlen_map, zlen_pb. Qed.

Lemma pairs_cons x l : pairs (x :: l) = repeatz (tpair x) (zlen (dbbytes (tchar x))) ++ pairs l.
Proof.
  change (x :: l) with ([x] ++ l). rewrite pairs_app. f_equal.
  unfold pairs, pb. cbn [flat_map]. rewrite app_nil_r. unfold pb1. rewrite map_map. cbn [fst snd].
  unfold tpair. destruct (tchar x); reflexivity.
Qed.

Lemma z_of_oz_of_z v : z_of_oz (oz_of_z v) = v.
Proof. unfold oz_of_z. destruct (v =? 0) eqn:E; cbn [z_of_oz]; lia. Qed.

Lemma Forall_pairs v l : Forall (fun p => p = v) (pairs l) -> Forall (fun x => tpair x = v) l.
Proof.
  induction l as [|x l IH]; intros H; [constructor|].
  rewrite pairs_cons in H. apply Forall_app in H. destruct H as [H1 H2]. constructor; [|now apply IH].
  pose proof (zlen_tchar x) as Hx. unfold repeatz in H1.
  destruct (Z.to_nat (zlen (dbbytes (tchar x)))) eqn:E; [lia|]. cbn [repeat] in H1. now inversion H1.
Qed.

Lemma Forall_repeatz {A} (x : A) n : Forall (fun p => p = x) (repeatz x n).
Proof. unfold repeatz. induction (Z.to_nat n); constructor; auto. Qed.

(* decoding the bytes of whole characters that share one attribute and charset *)
Lemma dec_bytes_chars m a c l :
  Forall tch_ok l -> Forall (fun x => tpair x = (a, c)) l ->
  dec_bytes (map_attr m (z_of_oz a)) (z_of_oz c) (tbytes l) = Some (map (cell_map_attr m) (cells_of l)).
Proof.
  induction l as [|x l IH]; intros Hok Hp; [reflexivity|].
  inversion Hok as [|x' l' Hx Hl]; subst. inversion Hp as [|x' l' Px Pl]; subst.
  specialize (IH Hl Pl). rewrite tbytes_cons. change (cells_of (x :: l)) with (cells1 x ++ cells_of l). rewrite map_app.
  unfold tpair in Px. inversion Px as [[Ea Ec]].
  assert (Ta : z_of_oz (oz_of_z (tattr x)) = tattr x) by apply z_of_oz_of_z.
  assert (Tc : z_of_oz (oz_of_z (tcs x)) = tcs x) by apply z_of_oz_of_z.
  rewrite Ea in Ta |- *. rewrite Ec in Tc |- *.
  unfold tch_ok in Hx. unfold cells1. destruct (tchar x) as [b|b t]; cbn [dbchar_ok] in Hx; cbn [dbbytes app].
  - cbn [dec_bytes]. destruct (b <? 128) eqn:E; [|lia]. rewrite IH. cbn [map cell_map_attr ck ca ccs cch app].
    rewrite Ta, Tc. reflexivity.
  - cbn [dec_bytes]. destruct (b <? 128) eqn:E; [lia|]. rewrite IH. cbn [map cell_map_attr ck ca ccs cch app].
    rewrite Ta, Tc. reflexivity.
Qed.

Lemma app_inv_length {A} (a : list A) : forall b c d, length a = length c -> a ++ b = c ++ d -> a = c /\ b = d.
Proof.
  induction a as [|x a IH]; intros b c d Hl E; destruct c as [|y c]; try discriminate Hl.
  - cbn in E. tauto.
  - cbn [app] in E. inversion E; subst. cbn [length] in Hl. destruct (IH b c d ltac:(lia) H1). subst. tauto.
Qed.

(* the first run of a canonical run-length list over a row ends on a character boundary *)
Lemma first_run_split L a c run (p' : list ((oz * oz) * Z)) :
  posr (((a, c), run) :: p') -> canon (((a, c), run) :: p') ->
  rexp (((a, c), run) :: p') = pairs L ->
  exists L1 L2, L = L1 ++ L2 /\ zlen (tbytes L1) = run /\ Forall (fun x => tpair x = (a, c)) L1 /\
                rexp p' = pairs L2.
Proof.
  intros Pp Cp X. inversion Pp as [|q l Hq Hp']; subst. cbn [snd] in Hq. cbn [rexp] in X.
  assert (Hlen : run + zlen (rexp p') = zlen (tbytes L)).
  { rewrite <- zlen_pairs, <- X, zlen_app, zlen_repeatz by lia. reflexivity. }
  pose proof (zlen_nonneg (rexp p')) as Hnn.
  pose proof (midb_split L run ltac:(lia)) as S.
  destruct (midb L run) eqn:M.
  - exfalso. destruct S as (l1 & b & t & a0 & s0 & l2 & E & Hl). subst L.
    rewrite pairs_app, pairs_cons in X.
    change (zlen (dbbytes (tchar (DDouble b t, a0, s0)))) with 2 in X.
    change (repeatz (tpair (DDouble b t, a0, s0)) 2) with [tpair (DDouble b t, a0, s0); tpair (DDouble b t, a0, s0)] in X.
    (* byte run-1 and byte run carry the same pair *)
    assert (N1 : nthz (repeatz (a, c) run ++ rexp p') (run - 1) = Some (tpair (DDouble b t, a0, s0))).
    { rewrite X. rewrite nthz_app_r by (rewrite zlen_pairs; lia). rewrite zlen_pairs.
      replace (run - 1 - zlen (tbytes l1)) with 0 by lia. reflexivity. }
    assert (N2 : nthz (repeatz (a, c) run ++ rexp p') run = Some (tpair (DDouble b t, a0, s0))).
    { rewrite X. rewrite nthz_app_r by (rewrite zlen_pairs; lia). rewrite zlen_pairs.
      replace (run - zlen (tbytes l1)) with 1 by lia. reflexivity. }
    rewrite nthz_repeatz_app in N1, N2 by lia.
    destruct (run - 1 <? run) eqn:E1; [|lia]. destruct (run <? run) eqn:E2; [lia|].
    replace (run - run) with 0 in N2 by lia.
    destruct p' as [|[[a' c'] run'] p'']; [cbn in N2; discriminate|].
    inversion Hp' as [|q' l' Hq' _]; subst. cbn [snd] in Hq'.
    cbn [rexp] in N2. rewrite nthz_repeatz_app in N2 by lia. destruct (0 <? run') eqn:E3; [|lia].
    destruct Cp as [Cne _]. congruence.
  - destruct S as (L1 & L2 & E & Hl). exists L1, L2. subst L. rewrite pairs_app in X.
    assert (X1 : repeatz (a, c) run = pairs L1 /\ rexp p' = pairs L2).
    { apply app_inv_length; [|exact X]. apply Nat2Z.inj. change (zlen (repeatz (a, c) run) = zlen (pairs L1)).
      rewrite zlen_repeatz, zlen_pairs by lia. lia. }
    destruct X1 as [X1 X2]. repeat split; try assumption.
    apply Forall_pairs. rewrite <- X1. apply Forall_repeatz.
Qed.

Lemma tbytes_empty L : zlen (tbytes L) = 0 -> L = [].
Proof.
  destruct L as [|x L]; [reflexivity|]. rewrite tbytes_cons, zlen_app.
  pose proof (zlen_tchar x). pose proof (zlen_nonneg (tbytes L)). lia.
Qed.

Lemma bsegs_dec m : forall (p : list ((oz * oz) * Z)) L pre,
  Forall tch_ok L -> posr p -> canon p -> rexp p = pairs L ->
  dec_row (bsegs (pre ++ tbytes L) (zlen pre) p m) = Some (map (cell_map_attr m) (cells_of L)).
Proof.
  induction p as [|[[a c] run] p' IH]; intros L pre Hok Pp Cp X.
  - cbn [rexp] in X. assert (L = []) as ->; [|reflexivity].
    apply tbytes_empty. rewrite <- zlen_pairs, <- X. reflexivity.
  - destruct (first_run_split L a c run p' Pp Cp X) as (L1 & L2 & E & Hl & F1 & X2). subst L.
    apply Forall_app in Hok. destruct Hok as [Ok1 Ok2].
    inversion Pp as [|q l Hq Pp']; subst. cbn [snd] in Hq. destruct Cp as [_ Cp'].
    cbn [bsegs dec_row]. rewrite tbytes_app.
    assert (SL : py_slice (pre ++ tbytes L1 ++ tbytes L2) (zlen pre) (zlen pre + zlen (tbytes L1)) = tbytes L1).
    { pose proof (zlen_nonneg pre). pose proof (zlen_nonneg (tbytes L1)). pose proof (zlen_nonneg (tbytes L2)).
      rewrite py_slice_in by (rewrite ?zlen_app; lia).
      apply takez_dropz_mid. lia. }
    rewrite SL. rewrite (dec_bytes_chars m a c L1 Ok1 F1).
    replace (zlen pre + zlen (tbytes L1)) with (zlen (pre ++ tbytes L1)) by (rewrite zlen_app; lia).
    rewrite app_assoc. rewrite (IH L2 (pre ++ tbytes L1) Ok2 Pp' Cp' X2).
    now rewrite cells_of_app, map_app.
Qed.

(* ------------------------------------------------------------------ one row of TextCanvas.content *)
Definition brow_rel (x : list Z * rle * rle) (l : list tch) : Prop :=
  fst (fst x) = tbytes l /\ rexp (snd (fst x)) = tattrs l /\ rexp (snd x) = tcss l /\
  posr (snd (fst x)) /\ posr (snd x) /\ Forall tch_ok l.

Section Content.
Variable wcw : Z -> Z.

Lemma bcontent_row_refines maxcol tl cols m x l :
  brow_rel x l -> zlen (tbytes l) = maxcol -> 0 <= tl -> 0 < cols -> tl + cols <= maxcol ->
  exists segs, bcontent_row wcw MWide maxcol tl cols m x = Ok segs /\
    dec_row segs = Some (map (cell_map_attr m)
                           (if negb (tl =? 0) || (cols <? maxcol) then trim_cells (cells_of l) tl (tl + cols)
                            else cells_of l)).
Proof.
  intros R Hw Htl Hc Hsum. destruct x as [[t a] c]. unfold brow_rel in R. cbn [fst snd] in R.
  destruct R as (Et & Xa & Xc & Pa & Pc & Hok). subst t. unfold bcontent_row. rewrite trim_text_attr_cs_g_eq.
  destruct (negb (tl =? 0) || (cols <? maxcol)) eqn:Cond.
  - destruct (trim_row_refines wcw l a c tl (tl + cols) Hok (posr_nnr _ Pa) (posr_nnr _ Pc) Xa Xc ltac:(lia) ltac:(lia))
      as (l' & a' & c' & E & Xa' & Xc' & _ & _ & Pa' & Pc' & Ok' & _ & Cl').
    rewrite E. destruct (rle_product_spec a' c' (Pa' Pa) (Pc' Pc)) as (p & Ep & Xp & Pp & Cp).
    rewrite Ep. eexists. split; [reflexivity|].
    rewrite Xa', Xc', pairs_combine in Xp.
    pose proof (bsegs_dec m p l' [] Ok' Pp Cp Xp) as D. cbn [app] in D. change (zlen (@nil Z)) with 0 in D.
    rewrite D, Cl'. reflexivity.
  - destruct (rle_product_spec a c Pa Pc) as (p & Ep & Xp & Pp & Cp).
    rewrite Ep. eexists. split; [reflexivity|].
    rewrite Xa, Xc, pairs_combine in Xp.
    pose proof (bsegs_dec m p l [] Hok Pp Cp Xp) as D. cbn [app] in D. change (zlen (@nil Z)) with 0 in D.
    exact D.
Qed.
End Content.

(* ------------------------------------------------------------------ TextCanvas.content *)
Definition btext_of (R3 : list (list Z * rle * rle)) (maxcol : Z) : btext :=
  BText (map (fun x => fst (fst x)) R3) (map (fun x => snd (fst x)) R3) (map snd R3) maxcol.

Lemma zip3_maps {A B C} (R3 : list (A * B * C)) :
  zip3 (map (fun x => fst (fst x)) R3) (map (fun x => snd (fst x)) R3) (map snd R3) = R3.
Proof. induction R3 as [|[[a b] c] r IH]; [reflexivity|]. cbn [map zip3 fst snd]. now rewrite IH. Qed.

Lemma Forall2_firstn {A B} (R : A -> B -> Prop) n : forall a b, Forall2 R a b -> Forall2 R (firstn n a) (firstn n b).
Proof. induction n as [|n IH]; intros a b H; [constructor|]. destruct H; [constructor|]. cbn [firstn]. constructor; auto. Qed.
Lemma Forall2_skipn {A B} (R : A -> B -> Prop) n : forall a b, Forall2 R a b -> Forall2 R (skipn n a) (skipn n b).
Proof. induction n as [|n IH]; intros a b H; [exact H|]. destruct H; [constructor|]. cbn [skipn]. auto. Qed.
Lemma Forall2_zlen {A B} (R : A -> B -> Prop) a b : Forall2 R a b -> zlen a = zlen b.
Proof. intros H. unfold zlen. f_equal. induction H; [reflexivity|]. cbn [length]. lia. Qed.
Lemma Forall_firstn {A} (P : A -> Prop) n : forall a, Forall P a -> Forall P (firstn n a).
Proof. induction n as [|n IH]; intros a H; [constructor|]. destruct H; [constructor|]. cbn [firstn]. constructor; auto. Qed.
Lemma Forall_skipn {A} (P : A -> Prop) n : forall a, Forall P a -> Forall P (skipn n a).
Proof. induction n as [|n IH]; intros a H; [exact H|]. destruct H; [constructor|]. cbn [skipn]. auto. Qed.

Section Content2.
Variable wcw : Z -> Z.

Lemma mapM_rows maxcol tl cols m : forall Rs Ls,
  Forall2 brow_rel Rs Ls -> Forall (fun l => zlen (tbytes l) = maxcol) Ls ->
  0 <= tl -> 0 < cols -> tl + cols <= maxcol ->
  exists S, mapM (bcontent_row wcw MWide maxcol tl cols m) Rs = Ok S /\
    map dec_row S =
    map Some (map (fun r : row => map (cell_map_attr m)
                     (if negb (tl =? 0) || (cols <? maxcol) then trim_cells r tl (tl + cols) else r))
                  (map cells_of Ls)).
Proof.
  intros Rs Ls H. induction H as [|x l Rs Ls Hx H IH]; intros W H1 H2 H3.
  - exists []. split; reflexivity.
  - inversion W as [|l' Ls' Wl WL]; subst.
    destruct (bcontent_row_refines wcw _ tl cols m x l Hx eq_refl H1 H2 H3) as (segs & E & D).
    destruct (IH WL H1 H2 H3) as (S & ES & DS).
    exists (segs :: S). cbn [mapM]. rewrite E, ES. split; [reflexivity|].
    cbn [map]. rewrite D, DS. reflexivity.
Qed.

Theorem text_content_refines R3 ls maxcol tl tt cols rows m :
  Forall2 brow_rel R3 ls -> Forall (fun l => zlen (tbytes l) = maxcol) ls ->
  match text_content (map cells_of ls) maxcol tl tt cols rows m with
  | Err e => btext_content wcw MWide (btext_of R3 maxcol) tl tt cols rows m = Err e
  | Ok rws => exists S, btext_content wcw MWide (btext_of R3 maxcol) tl tt cols rows m = Ok S /\
                        map dec_row S = map Some rws
  end.
Proof.
  intros HR HW. unfold text_content, btext_content. cbn [bt_maxcol bt_text bt_attr bt_cs btext_of].
  assert (LN : zlen (map (fun x : list Z * rle * rle => fst (fst x)) R3) = zlen (map cells_of ls)).
  { rewrite !zlen_map. now apply Forall2_zlen with (R := brow_rel). }
  rewrite LN. set (maxrow := zlen (map cells_of ls)).
  set (cols' := if cols =? 0 then maxcol - tl else cols).
  set (rows' := if rows =? 0 then maxrow - tt else rows).
  destruct (negb ((0 <=? tl) && (tl <? maxcol) && (0 <? cols') && (tl + cols' <=? maxcol))) eqn:G1; [reflexivity|].
  destruct (negb ((0 <=? tt) && (tt <? maxrow) && (0 <? rows') && (tt + rows' <=? maxrow))) eqn:G2; [reflexivity|].
  assert (LR : zlen R3 = maxrow) by (unfold maxrow; rewrite zlen_map; now apply Forall2_zlen with (R := brow_rel)).
  assert (LL : zlen ls = maxrow) by (unfold maxrow; now rewrite zlen_map).
  destruct (negb (tt =? 0) || (rows' <? maxrow)) eqn:Sel.
  - rewrite !py_slice_in by (rewrite ?zlen_map; lia).
    rewrite !dropz_map, !takez_map.
    replace (tt + rows' - tt) with rows' by lia.
    rewrite zip3_maps.
    destruct (mapM_rows maxcol tl cols' m (takez rows' (dropz tt R3)) (takez rows' (dropz tt ls)))
      as (S & ES & DS); try lia.
    + apply Forall2_firstn, Forall2_skipn, HR.
    + apply Forall_firstn, Forall_skipn, HW.
    + exists S. split; [exact ES|exact DS].
  - rewrite zip3_maps.
    destruct (mapM_rows maxcol tl cols' m R3 ls HR HW) as (S & ES & DS); try lia.
    exists S. split; [exact ES|exact DS].
Qed.
End Content2.

(* ------------------------------------------------------------------ TextCanvas.__init__ *)
(* what the constructor is given for one row: the bytes of the characters, and run-length lists that may
   stop short of the end of the text (the rest is attribute None / charset None) *)
Definition binit_rel (x : list Z * rle * rle) (l : list tch) : Prop :=
  fst (fst x) = tbytes l /\ posr (snd (fst x)) /\ posr (snd x) /\
  (exists k, 0 <= k /\ rexp (snd (fst x)) ++ repeatz None k = tattrs l) /\
  (exists k, 0 <= k /\ rexp (snd x) ++ repeatz None k = tcss l) /\
  Forall tch_ok l.

Definition pad_tch (maxcol : Z) (l : list tch) : list tch := l ++ repeatz (sp_tch 0) (maxcol - zlen (tbytes l)).

Lemma pb_repeat_sp n : pb (repeatz (sp_tch 0) n) = repeatz (32, None, None) n.
Proof. unfold repeatz. induction (Z.to_nat n) as [|k IH]; [reflexivity|]. cbn [repeat]. change (pb (sp_tch 0 :: repeat (sp_tch 0) k)) with ((32, None, None) :: pb (repeat (sp_tch 0) k)). now rewrite IH. Qed.

Lemma cells_repeat_sp n : cells_of (repeatz (sp_tch 0) n) = repeatz (space 0) n.
Proof. unfold repeatz. induction (Z.to_nat n) as [|k IH]; [reflexivity|]. cbn [repeat]. change (cells_of (sp_tch 0 :: repeat (sp_tch 0) k)) with (space 0 :: cells_of (repeat (sp_tch 0) k)). now rewrite IH. Qed.

Lemma cells_pad maxcol l : cells_of (pad_tch maxcol l) = cells_of l ++ repeatz (space 0) (maxcol - zlen (cells_of l)).
Proof. unfold pad_tch. now rewrite cells_of_app, cells_repeat_sp, zlen_cells_of. Qed.

Lemma tbytes_pad maxcol l : tbytes (pad_tch maxcol l) = tbytes l ++ repeatz 32 (maxcol - zlen (tbytes l)).
Proof. unfold pad_tch. rewrite tbytes_app. f_equal. rewrite tbytes_pb, pb_repeat_sp, map_repeatz. reflexivity. Qed.

Lemma Forall_repeatz_P {A} (P : A -> Prop) x n : P x -> Forall P (repeatz x n).
Proof. intros. unfold repeatz. induction (Z.to_nat n); constructor; auto. Qed.

Lemma init_row_refines maxcol x l :
  binit_rel x l -> zlen (tbytes l) <= maxcol ->
  exists y, init_row maxcol (zlen (tbytes l)) (fst (fst x)) (Some (snd (fst x))) (Some (snd x)) = Ok y /\
            brow_rel y (pad_tch maxcol l) /\ zlen (tbytes (pad_tch maxcol l)) = maxcol.
Proof.
  intros R Hw. destruct x as [[t a] c]. unfold binit_rel in R. cbn [fst snd] in *.
  destruct R as (Et & Pa & Pc & (ka & Hka & Xa) & (kc & Hkc & Xc) & Hok). subst t.
  set (w := zlen (tbytes l)) in *. pose proof (zlen_nonneg (tbytes l)) as Hw0. fold w in Hw0.
  unfold init_row. rewrite !rle_len_gen_eq. destruct (maxcol <? w) eqn:E1; [lia|].
  assert (T' : (if w <? maxcol then tbytes l ++ repeatz 32 (maxcol - w) else tbytes l) = tbytes (pad_tch maxcol l)).
  { rewrite tbytes_pad. fold w. destruct (w <? maxcol) eqn:E2; [reflexivity|]. rewrite repeatz_0 by lia. now rewrite app_nil_r. }
  rewrite T'.
  assert (ZT : zlen (tbytes (pad_tch maxcol l)) = maxcol).
  { rewrite tbytes_pad, zlen_app, zlen_repeatz by (fold w; lia). fold w. lia. }
  rewrite ZT.
  assert (La : rle_len a = w - ka).
  { rewrite <- zlen_rexp by (apply posr_nnr, Pa). pose proof (f_equal zlen Xa) as H.
    rewrite zlen_app, zlen_repeatz, zlen_tattrs in H by lia. fold w in H. lia. }
  assert (Lc : rle_len c = w - kc).
  { rewrite <- zlen_rexp by (apply posr_nnr, Pc). pose proof (f_equal zlen Xc) as H.
    rewrite zlen_app, zlen_repeatz, zlen_tcss in H by lia. fold w in H. lia. }
  destruct (maxcol - rle_len a <? 0) eqn:E3; [lia|]. destruct (maxcol - rle_len c <? 0) eqn:E4; [lia|].
  eexists. split; [reflexivity|]. split; [|reflexivity].
  unfold brow_rel. cbn [fst snd].
  assert (XA : forall (r : rle) k kk, posr r -> 0 <= kk -> rle_len r = w - kk -> k = maxcol - rle_len r ->
               rexp (if negb (k =? 0) then rle_append_modify r None k else r) = rexp r ++ repeatz None kk ++ repeatz None (maxcol - w)
               /\ posr (if negb (k =? 0) then rle_append_modify r None k else r)).
  { intros r k kk Pr Hkk Lr Ek. destruct (negb (k =? 0)) eqn:E5.
    - split; [|apply posr_append; [assumption|lia]].
      rewrite rexp_append by (try apply posr_nnr; try assumption; lia). f_equal.
      rewrite <- repeatz_add by lia. f_equal. lia.
    - split; [|assumption]. rewrite !repeatz_0 by lia. now rewrite !app_nil_r. }
  destruct (XA a (maxcol - rle_len a) ka Pa Hka La eq_refl) as [RA PA].
  destruct (XA c (maxcol - rle_len c) kc Pc Hkc Lc eq_refl) as [RC PC].
  split; [reflexivity|]. split; [|split; [|split; [exact PA|split; [exact PC|]]]].
  - etransitivity; [exact RA|]. unfold pad_tch. rewrite tattrs_app, <- Xa, <- app_assoc. do 2 f_equal.
    unfold tattrs. rewrite pb_repeat_sp, map_repeatz. reflexivity.
  - etransitivity; [exact RC|]. unfold pad_tch. rewrite tcss_app, <- Xc, <- app_assoc. do 2 f_equal.
    unfold tcss. rewrite pb_repeat_sp, map_repeatz. reflexivity.
  - unfold pad_tch. apply Forall_app. split; [assumption|]. apply Forall_repeatz_P. unfold tch_ok, sp_tch, tchar. cbn. lia.
Qed.

Section Init.
Variable wcw : Z -> Z.

Lemma widths_wide (texts : list (list Z)) :
  mapM (fun t => calc_width_g wcw MWide t 0 (zlen t)) texts = Ok (map (fun t => zlen t) texts).
Proof.
  induction texts as [|t r IH]; [reflexivity|]. cbn [mapM map]. rewrite calc_width_g_eq.
  rewrite (calc_width_bytes_count wcw MWide t 0 (zlen t)) by (try (now left); apply zlen_nonneg).
  rewrite IH. f_equal. f_equal. lia.
Qed.

Lemma init_loop_refines maxcol : forall I3 ls, Forall2 binit_rel I3 ls ->
  if existsb (fun w => maxcol <? w) (map (fun r : row => zlen r) (map cells_of ls))
  then init_loop maxcol (map (fun x => fst (fst x)) I3) (map (fun t => zlen t) (map (fun x => fst (fst x)) I3))
                 (map (fun x => snd (fst x)) I3) (map snd I3) = Err CanvasError
  else exists R3, init_loop maxcol (map (fun x => fst (fst x)) I3) (map (fun t => zlen t) (map (fun x => fst (fst x)) I3))
                            (map (fun x => snd (fst x)) I3) (map snd I3) = Ok R3 /\
                  Forall2 brow_rel R3 (map (pad_tch maxcol) ls) /\
                  Forall (fun l => zlen (tbytes l) = maxcol) (map (pad_tch maxcol) ls).
Proof.
  intros I3 ls H. induction H as [|x l I3 ls Hx H IH].
  - cbn. exists []. repeat split; constructor.
  - cbn [map existsb init_loop hd_error List.tl].
    assert (Et : fst (fst x) = tbytes l) by (destruct Hx; assumption).
    rewrite Et. rewrite zlen_cells_of.
    destruct (maxcol <? zlen (tbytes l)) eqn:E.
    + cbn [orb]. unfold init_row. rewrite E. reflexivity.
    + cbn [orb]. destruct (init_row_refines maxcol x l Hx ltac:(lia)) as (y & Ey & Ry & Wy).
      rewrite Et in Ey. rewrite Ey.
      destruct (existsb (fun w : Z => maxcol <? w) (map (fun r : row => zlen r) (map cells_of ls))).
      * rewrite IH. reflexivity.
      * destruct IH as (R3 & E3 & F2 & FW). rewrite E3. exists (y :: R3).
        split; [reflexivity|]. split; constructor; assumption.
Qed.

(* TextCanvas(text, attr, cs, maxcol=...) in a double-byte encoding IS make_text on the cells *)
Theorem btext_init_refines I3 ls (mc : oz) :
  Forall2 binit_rel I3 ls ->
  match make_text mc (map cells_of ls) with
  | Err e => btext_init wcw MWide (map (fun x => fst (fst x)) I3) (map (fun x => snd (fst x)) I3) (map snd I3) mc = Err e
  | Ok k => exists R3 ls' maxcol,
      btext_init wcw MWide (map (fun x => fst (fst x)) I3) (map (fun x => snd (fst x)) I3) (map snd I3) mc
        = Ok (btext_of R3 maxcol) /\
      k = LText (map cells_of ls') maxcol /\ Forall2 brow_rel R3 ls' /\
      Forall (fun l => zlen (tbytes l) = maxcol) ls'
  end.
Proof.
  intros H. unfold make_text, btext_init. rewrite widths_wide.
  assert (EW : map (fun t : list Z => zlen t) (map (fun x : list Z * rle * rle => fst (fst x)) I3)
               = map (fun r : row => zlen r) (map cells_of ls)).
  { clear mc. induction H as [|x l I3 ls Hx H IH]; [reflexivity|]. cbn [map]. rewrite IH. f_equal.
    destruct Hx as [Et _]. rewrite Et. now rewrite zlen_cells_of. }
  set (maxcol := match mc with Some m => m | None => fold_right Z.max 0 (map (fun r : row => zlen r) (map cells_of ls)) end).
  assert (EM : match mc with Some m => m | None => fold_right Z.max 0 (map (fun t : list Z => zlen t) (map (fun x : list Z * rle * rle => fst (fst x)) I3)) end = maxcol).
  { unfold maxcol. now rewrite EW. }
  rewrite EM. pose proof (init_loop_refines maxcol I3 ls H) as L.
  destruct (existsb (fun w : Z => maxcol <? w) (map (fun r : row => zlen r) (map cells_of ls))).
  - rewrite L. reflexivity.
  - destruct L as (R3 & E3 & F2 & FW). rewrite E3.
    exists R3, (map (pad_tch maxcol) ls), maxcol. split; [reflexivity|]. split; [|tauto].
    f_equal. rewrite !map_map. apply map_ext. intros l. now rewrite cells_pad.
Qed.
End Init.

(* ------------------------------------------------------------------ constructor + content, end to end *)
Theorem byte_text_canvas_is_cell_text_canvas wcw I3 ls (mc : oz) tl tt cols rows m :
  Forall2 binit_rel I3 ls ->
  match make_text mc (map cells_of ls) with
  | Err e => btext_init wcw MWide (map (fun x => fst (fst x)) I3) (map (fun x => snd (fst x)) I3) (map snd I3) mc = Err e
  | Ok k =>
      exists b, btext_init wcw MWide (map (fun x => fst (fst x)) I3) (map (fun x => snd (fst x)) I3) (map snd I3) mc = Ok b /\
      match canvas_content (Canvas 1 k) tl tt cols rows m with
      | Err e => btext_content wcw MWide b tl tt cols rows m = Err e
      | Ok rws => exists S, btext_content wcw MWide b tl tt cols rows m = Ok S /\ map dec_row S = map Some rws
      end
  end.
Proof.
  intros H. pose proof (btext_init_refines wcw I3 ls mc H) as I.
  destruct (make_text mc (map cells_of ls)) as [k|e]; [|exact I].
  destruct I as (R3 & ls' & maxcol & EI & -> & F2 & FW). exists (btext_of R3 maxcol). split; [exact EI|].
  unfold canvas_content. cbn [cknd]. apply text_content_refines; assumption.
Qed.

(* ------------------------------------------------------------------ boolean form of the hypotheses *)
Definition dbchar_okb (c : dbchar) : bool :=
  match c with
  | DSingle b => (0 <=? b) && (b <? 128)
  | DDouble l t => (129 <=? l) && (l <=? 255) && (((64 <=? t) && (t <=? 126)) || ((128 <=? t) && (t <=? 255)))
  end.
Definition tch_okb (x : tch) : bool := dbchar_okb (tchar x).

Fixpoint list_eqb {A} (eqb : A -> A -> bool) (a b : list A) : bool :=
  match a, b with
  | [], [] => true
  | x :: a', y :: b' => eqb x y && list_eqb eqb a' b'
  | _, _ => false
  end.

Lemma list_eqb_true {A} (eqb : A -> A -> bool) : (forall x y, eqb x y = true -> x = y) ->
  forall a b, list_eqb eqb a b = true -> a = b.
Proof.
  intros H a. induction a as [|x a IH]; intros [|y b] E; try discriminate; [reflexivity|].
  cbn [list_eqb] in E. apply andb_true_iff in E. destruct E as [E1 E2]. f_equal; [now apply H|now apply IH].
Qed.

Definition posrb {A} (r : list (A * Z)) : bool := forallb (fun p => 0 <? snd p) r.

Lemma posrb_true {A} (r : list (A * Z)) : posrb r = true -> posr r.
Proof. unfold posrb, posr. rewrite forallb_forall, Forall_forall. intros H x Hx. specialize (H x Hx). lia. Qed.

(* a row handed to the constructor (text, attribute runs, charset runs) against its tagged characters *)
Definition binit_okb (x : list Z * rle * rle) (l : list tch) : bool :=
  let '(t, a, c) := x in
  list_eqb Z.eqb t (tbytes l) && posrb a && posrb c &&
  (rle_len a <=? zlen t) && list_eqb oz_eqb (rexp a ++ repeatz None (zlen t - rle_len a)) (tattrs l) &&
  (rle_len c <=? zlen t) && list_eqb oz_eqb (rexp c ++ repeatz None (zlen t - rle_len c)) (tcss l) &&
  forallb tch_okb l.

Lemma binit_okb_rel x l : binit_okb x l = true -> binit_rel x l.
Proof.
  destruct x as [[t a] c]. unfold binit_okb, binit_rel. cbn [fst snd]. intros H.
  repeat (apply andb_true_iff in H; destruct H as [H ?]).
  split; [apply (list_eqb_true Z.eqb); [intros; lia|assumption]|].
  split; [now apply posrb_true|]. split; [now apply posrb_true|].
  split; [exists (zlen t - rle_len a); split; [lia|apply (list_eqb_true oz_eqb); [exact oz_eqb_true|assumption]]|].
  split; [exists (zlen t - rle_len c); split; [lia|apply (list_eqb_true oz_eqb); [exact oz_eqb_true|assumption]]|].
  rewrite forallb_forall in H0. apply Forall_forall. intros y Hy. specialize (H0 y Hy).
  unfold tch_okb, tch_ok in *. destruct (tchar y); cbn [dbchar_okb dbchar_ok] in *; lia.
Qed.

Lemma binit_okb_all (ils : list ((list Z * rle * rle) * list tch)) :
  forallb (fun p => binit_okb (fst p) (snd p)) ils = true -> Forall2 binit_rel (map fst ils) (map snd ils).
Proof.
  induction ils as [|[x l] r IH]; intros H; [constructor|].
  cbn [forallb fst snd] in H. apply andb_true_iff in H. destruct H as [H1 H2].
  cbn [map fst snd]. constructor; [now apply binit_okb_rel|now apply IH].
Qed.
