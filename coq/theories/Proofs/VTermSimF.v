(* C15 - simulation, continued (see Proofs/VTermSim.v).
   C15 - simulation of the reference VT100 (Model/VT100Ref.v) by the emulator model (Model/VTerm.v) fed with
   the byte encoding of the reference's commands: the relation R, one lemma per command, composition. *)
From Coq Require Import ZArith List Bool Lia ZifyBool.
Import ListNotations.
From Urwid Require Import PyBase PyList vterm_csi_gen VTerm VT100Ref VTermRefine VTermListFacts VTermProofs VTermParse VTermSim VTermSimB VTermSimC VTermSimD.
Open Scope Z_scope.

Arguments Z.mul : simpl never.
Arguments Z.add : simpl never.
Arguments Z.sub : simpl never.
Arguments Z.div : simpl never.
Arguments Z.modulo : simpl never.
Arguments Z.ltb : simpl never.
Arguments Z.leb : simpl never.
Arguments Z.eqb : simpl never.
Arguments Z.min : simpl never.
Arguments Z.max : simpl never.
Arguments Z.pow : simpl never.
Arguments Z.to_nat : simpl never.
Arguments Z.of_nat : simpl never.


(* ---------- HT ---------- *)
Lemma nthz_repeat {A} (x : A) n i : 0 <= i < Z.of_nat n -> nthz (repeat x n) i = Some x.
Proof.
  intros H. unfold nthz. replace (i <? 0) with false by lia.
  assert (Z.to_nat i < n)%nat as Hn by lia. revert Hn. generalize (Z.to_nat i) as k. clear. intros k. revert k.
  induction n; intros k Hk; [lia|]. destruct k; [reflexivity|]. cbn [repeat nth_error]. apply IHn. lia.
Qed.

Lemma is_tabstop_default t v x : Rg t v -> 0 <= x < v_w v -> is_tabstop t x = Ok (x mod 8 =? 0).
Proof.
  intros H Hx. pose proof H as []. unfold is_tabstop. rewrite g_tabs. unfold tabs0, repeatz.
  pose proof (tablen_bound (v_w v) ltac:(lia)) as B.
  set (tl := if 0 <? v_w v mod 8 then v_w v / 8 + 1 else v_w v / 8) in *.
  assert (0 <= x / 8 < tl) as Hi.
  { split; [apply Z.div_pos; lia|apply Z.div_lt_upper_bound; lia]. }
  rewrite (get_index_nthz _ (x / 8) 1); [|lia|apply nthz_repeat; lia]. cbn [bind].
  pose proof (Z.mod_pos_bound x 8 ltac:(lia)) as Hm. set (m := x mod 8) in *.
  assert (m = 0 \/ m = 1 \/ m = 2 \/ m = 3 \/ m = 4 \/ m = 5 \/ m = 6 \/ m = 7) as E by lia.
  clearbody m. repeat (destruct E as [E|E]; [subst m; reflexivity|]). subst m. reflexivity.
Qed.

Lemma tab_loop_default fuel : forall t v x, Rg t v -> 0 <= x <= v_w v - 1 -> v_w v - 1 - x < Z.of_nat fuel ->
  tab_loop fuel t x = Ok (t, Z.min (v_w v - 1) ((x / 8 + 1) * 8)).
Proof.
  induction fuel; intros t v x H Hx Hf; [lia|]. pose proof H as [].
  cbn [tab_loop]. rewrite g_w.
  pose proof (Z.div_mod x 8 ltac:(lia)) as Dx. pose proof (Z.mod_pos_bound x 8 ltac:(lia)) as Mx.
  destruct (x <? v_w v - 1) eqn:C.
  - rewrite (is_tabstop_default t v (x + 1) H) by lia. cbn [bind].
    destruct ((x + 1) mod 8 =? 0) eqn:C2.
    + f_equal. f_equal.
      assert ((x + 1) mod 8 = 0) as M1 by lia. pose proof (Z.div_mod (x + 1) 8 ltac:(lia)) as D1. rewrite M1 in D1.
      assert (x mod 8 = 7) as M7.
      { assert ((x + 1) mod 8 = (x mod 8 + 1) mod 8) as E by (rewrite Z.add_mod_idemp_l by lia; reflexivity).
        rewrite M1 in E. destruct (Z.eq_dec (x mod 8) 7); [assumption|]. rewrite Z.mod_small in E by lia. lia. }
      lia.
    + rewrite (IHfuel t v (x + 1) H) by lia. f_equal. f_equal. f_equal.
      assert ((x + 1) / 8 = x / 8) as E.
      { symmetry. apply (Z.div_unique (x + 1) 8 (x / 8) (x mod 8 + 1)); [|lia].
        assert ((x + 1) mod 8 = (x mod 8 + 1) mod 8) as E by (rewrite Z.add_mod_idemp_l by lia; reflexivity).
        destruct (Z.eq_dec (x mod 8) 7) as [E7|E7]; [rewrite E7 in E; change ((7 + 1) mod 8) with 0 in E; lia|lia]. }
      rewrite E. reflexivity.
  - f_equal. f_equal. lia.
Qed.

Lemma pc_ht s : m_display_ctrl (modes s) = false -> process_char s [9] = tab s.
Proof. intros Hd. unfold process_char. destruct (cur s). cbv zeta. rewrite Hd. reflexivity. Qed.

Lemma sim_ht s v : R s v -> ambiguous v CHt = false ->
  exists s', addbytes s (enc_cmd CHt) = Ok s' /\ R s' (exec v CHt).
Proof.
  intros HR Ha. pose proof (R_idle s v HR) as [He Hp Hu Hd Hm]. destruct HR as (H0 & _).
  pose proof (R0_bounds s v H0) as B. pose proof (R0_org s v H0) as Og. pose proof H0 as [].
  cbn [enc_cmd exec ambiguous] in *. rewrite addbytes_1. rewrite addbyte_ascii by (auto; lia). rewrite pc_ht by assumption.
  unfold tab. rewrite r_cur.
  rewrite (tab_loop_default _ s v (v_x v) (R0_Rg s v H0)) by lia. cbn [bind fst snd].
  eexists. split; [reflexivity|].
  destruct (stc_frame (with_rotten s false) (Z.min (v_w v - 1) ((v_x v / 8 + 1) * 8)) (v_y v)) as (_ & _ & _ & Ei & Ep & _).
  split; [|split; [rewrite Ei; exact He|rewrite Ep; exact Hp]].
  pose proof (Z.div_pos (v_x v) 8 ltac:(lia) ltac:(lia)).
  erewrite with_xy_eq; [apply R0_move; assumption| |]; [unfold clamp; split_ifs; lia|csolve v Og].
Qed.

