(* Lemmas about slices, column sums, calc_text_pos, find_nl and scan_back of Model/TextLayout.v *)
From Coq Require Import ZArith List Bool Lia ZifyBool.
Import ListNotations.
From Urwid Require Import PyBase TextLayout.
Open Scope Z_scope.

Arguments Z.add : simpl never.
Arguments Z.sub : simpl never.
Arguments Z.mul : simpl never.
Arguments Z.div : simpl never.
Arguments Z.ltb : simpl never.
Arguments Z.leb : simpl never.
Arguments Z.eqb : simpl never.
Arguments Z.min : simpl never.
Arguments Z.max : simpl never.
Arguments Z.of_nat : simpl never.
Arguments Z.to_nat : simpl never.

(* ---------- lists ---------- *)
Lemma firstn_add {A} n m (l : list A) : firstn (n + m) l = firstn n l ++ firstn m (skipn n l).
Proof.
  revert l; induction n; intros l; cbn [Nat.add firstn skipn app]; [reflexivity|].
  destruct l; cbn [firstn skipn app]; [now rewrite firstn_nil | now rewrite IHn].
Qed.

Lemma skipn_add {A} n m (l : list A) : skipn (n + m) l = skipn m (skipn n l).
Proof.
  revert l; induction n; intros l; cbn [Nat.add skipn]; [reflexivity|].
  destruct l; cbn [skipn]; [now rewrite skipn_nil | apply IHn].
Qed.

Lemma nth_error_firstn_lt {A} (l : list A) : forall n m, (m < n)%nat -> nth_error (firstn n l) m = nth_error l m.
Proof.
  induction l; intros n m H; [now rewrite firstn_nil|].
  destruct n; [lia|]. destruct m; cbn [firstn nth_error]; [reflexivity|]. apply IHl; lia.
Qed.

Lemma nthz_cons_0 {A} (x : A) l : nthz (x :: l) 0 = Some x.
Proof. reflexivity. Qed.

Lemma nthz_cons_S {A} (x : A) l k : 0 <= k -> nthz (x :: l) (k + 1) = nthz l k.
Proof.
  intros H. unfold nthz. destruct (k <? 0) eqn:E1; [lia|]. destruct (k + 1 <? 0) eqn:E2; [lia|].
  replace (Z.to_nat (k + 1)) with (S (Z.to_nat k)) by lia. reflexivity.
Qed.

Lemma nthz_nil {A} k : nthz (@nil A) k = None.
Proof. unfold nthz. destruct (k <? 0); [reflexivity|]. now destruct (Z.to_nat k). Qed.

Lemma nthz_lt {A} (t : list A) i c : nthz t i = Some c -> 0 <= i < zlen t.
Proof.
  unfold nthz, zlen; destruct (i <? 0) eqn:E; [discriminate|]; intros H.
  assert (Hn : (Z.to_nat i < length t)%nat) by (apply nth_error_Some; congruence). lia.
Qed.

Lemma nthz_ex {A} (t : list A) i : 0 <= i < zlen t -> exists c, nthz t i = Some c.
Proof.
  unfold nthz, zlen; intros H. destruct (i <? 0) eqn:E; [lia|].
  destruct (nth_error t (Z.to_nat i)) eqn:N; [eauto|].
  apply nth_error_None in N; lia.
Qed.

Lemma nthz_none {A} (t : list A) i : zlen t <= i -> nthz t i = None.
Proof.
  unfold nthz, zlen; intros H. destruct (i <? 0) eqn:E; [reflexivity|].
  apply nth_error_None; lia.
Qed.

Lemma nthz_skipn {A} (t : list A) a c r : 0 <= a -> skipn (Z.to_nat a) t = c :: r -> nthz t a = Some c.
Proof.
  intros Ha H. unfold nthz. destruct (a <? 0) eqn:E; [lia|].
  rewrite <- (firstn_skipn (Z.to_nat a) t). rewrite H.
  rewrite nth_error_app2; rewrite firstn_length.
  - assert (Hl : (Z.to_nat a <= length t)%nat).
    { destruct (Nat.le_gt_cases (Z.to_nat a) (length t)); [assumption|].
      rewrite skipn_all2 in H by lia. discriminate. }
    rewrite Nat.min_l by assumption. rewrite Nat.sub_diag. reflexivity.
  - apply Nat.le_min_l.
Qed.

Lemma skipn_nthz {A} (t : list A) a c : nthz t a = Some c ->
  skipn (Z.to_nat a) t = c :: skipn (Z.to_nat (a + 1)) t.
Proof.
  intros H. pose proof (nthz_lt _ _ _ H) as Hr. unfold nthz in H.
  destruct (a <? 0) eqn:E; [lia|].
  replace (Z.to_nat (a + 1)) with (S (Z.to_nat a)) by lia.
  revert H. generalize (Z.to_nat a) as n. clear. intros n; revert t.
  induction n; intros t H; destruct t; cbn in H; try discriminate.
  - inversion H; reflexivity.
  - cbn [skipn]. apply IHn; assumption.
Qed.

(* ---------- slices ---------- *)
Lemma slice_nil t a b : b <= a -> slice t a b = [].
Proof. intros; unfold slice, takez. replace (Z.to_nat (b - a)) with O by lia. reflexivity. Qed.

Lemma slice_split t a b c : 0 <= a <= b -> b <= c -> slice t a c = slice t a b ++ slice t b c.
Proof.
  intros H1 H2; unfold slice, takez, dropz.
  replace (Z.to_nat (c - a)) with (Z.to_nat (b - a) + Z.to_nat (c - b))%nat by lia.
  rewrite firstn_add. f_equal. rewrite <- skipn_add.
  replace (Z.to_nat a + Z.to_nat (b - a))%nat with (Z.to_nat b) by lia. reflexivity.
Qed.

Lemma slice_cons t a b c : a < b -> nthz t a = Some c -> slice t a b = c :: slice t (a + 1) b.
Proof.
  intros H N. pose proof (nthz_lt _ _ _ N). unfold slice, takez, dropz.
  rewrite (skipn_nthz _ _ _ N).
  replace (Z.to_nat (b - a)) with (S (Z.to_nat (b - (a + 1)))) by lia. reflexivity.
Qed.

Lemma slice_one t a c : nthz t a = Some c -> slice t a (a + 1) = [c].
Proof. intros N. rewrite (slice_cons _ _ _ c) by (lia || assumption). now rewrite slice_nil by lia. Qed.

Lemma slice_snoc t a b c : 0 <= a <= b -> nthz t b = Some c -> slice t a (b + 1) = slice t a b ++ [c].
Proof. intros H N. rewrite (slice_split t a b (b + 1)) by lia. now rewrite (slice_one _ _ _ N). Qed.

Lemma zlen_slice t a b : 0 <= a <= b -> b <= zlen t -> zlen (slice t a b) = b - a.
Proof.
  intros H1 H2. unfold slice. rewrite zlen_takez by lia. rewrite zlen_dropz by lia. lia.
Qed.

Lemma slice_past_end t a b : zlen t <= a -> slice t a b = [].
Proof.
  intros H. unfold slice, dropz, takez, zlen in *. rewrite skipn_all2 by lia. now rewrite firstn_nil.
Qed.

Lemma nthz_slice t a b k : 0 <= a -> 0 <= k < b - a -> nthz (slice t a b) k = nthz t (a + k).
Proof.
  intros Ha Hk. unfold nthz, slice, takez, dropz.
  destruct (k <? 0) eqn:E1; [lia|]. destruct (a + k <? 0) eqn:E2; [lia|].
  rewrite nth_error_firstn_lt by lia.
  replace (Z.to_nat (a + k)) with (Z.to_nat a + Z.to_nat k)%nat by lia.
  generalize (Z.to_nat a) (Z.to_nat k). clear. intros n m; revert t.
  induction n; intros t; cbn [skipn Nat.add]; [reflexivity|].
  destruct t; [destruct m; reflexivity | apply IHn].
Qed.

Lemma In_slice t a b c : 0 <= a -> In c (slice t a b) -> exists k, a <= k < b /\ nthz t k = Some c.
Proof.
  intros Ha H. apply In_nth_error in H. destruct H as [n Hn].
  assert (Hlen : (n < length (slice t a b))%nat) by (apply nth_error_Some; congruence).
  assert (Hb : Z.of_nat n < b - a).
  { unfold slice, takez in Hlen. rewrite firstn_length in Hlen. lia. }
  exists (a + Z.of_nat n). split; [lia|].
  rewrite <- (nthz_slice t a b) by lia. unfold nthz. destruct (Z.of_nat n <? 0) eqn:E; [lia|].
  now rewrite Nat2Z.id.
Qed.

Section Facts.
Variable cw : Z -> Z.
Hypothesis cw_range : forall c, 0 <= cw c <= 2.

Notation sumw := (sumw cw).

Lemma sumw_app a b : sumw (a ++ b) = sumw a + sumw b.
Proof. induction a; cbn [app TextLayout.sumw]; lia. Qed.

Lemma sumw_nonneg l : 0 <= sumw l.
Proof. induction l; cbn [TextLayout.sumw]; [lia | pose proof (cw_range a); lia]. Qed.

Lemma sumw_rev l : sumw (rev l) = sumw l.
Proof. induction l; cbn [rev TextLayout.sumw]; [reflexivity|]. rewrite sumw_app; cbn [TextLayout.sumw]; lia. Qed.

Lemma sumw_slice_split t a b c : 0 <= a <= b -> b <= c ->
  sumw (slice t a c) = sumw (slice t a b) + sumw (slice t b c).
Proof. intros; rewrite (slice_split t a b c) by lia; apply sumw_app. Qed.

Lemma sumw_slice_mono t a b c : 0 <= a <= b -> b <= c -> sumw (slice t a b) <= sumw (slice t a c).
Proof. intros; rewrite (sumw_slice_split t a b c) by lia. pose proof (sumw_nonneg (slice t b c)); lia. Qed.

Lemma sumw_slice_mono_l t a b c : 0 <= a <= b -> b <= c -> sumw (slice t b c) <= sumw (slice t a c).
Proof. intros; rewrite (sumw_slice_split t a b c) by lia. pose proof (sumw_nonneg (slice t a b)); lia. Qed.

Lemma sumw_slice_cons t a b c : a < b -> nthz t a = Some c ->
  sumw (slice t a b) = cw c + sumw (slice t (a + 1) b).
Proof. intros H N; rewrite (slice_cons _ _ _ _ H N); reflexivity. Qed.

Lemma sumw_slice_snoc t a b c : 0 <= a <= b -> nthz t b = Some c ->
  sumw (slice t a (b + 1)) = sumw (slice t a b) + cw c.
Proof. intros H N; rewrite (slice_snoc _ _ _ _ H N), sumw_app; cbn [TextLayout.sumw]; lia. Qed.

Lemma sumw_zero_all l : sumw l = 0 -> forall c, In c l -> cw c = 0.
Proof.
  induction l; cbn [TextLayout.sumw In]; intros H c HI; [contradiction|]. destruct HI as [E|I].
  - subst. pose proof (cw_range c). pose proof (sumw_nonneg l). lia.
  - apply IHl; [|assumption]. pose proof (cw_range a). pose proof (sumw_nonneg l). lia.
Qed.

Lemma sumw_slice_zero_nth t a b k c : 0 <= a -> sumw (slice t a b) = 0 -> a <= k < b ->
  nthz t k = Some c -> cw c = 0.
Proof.
  intros Ha H Hk N. apply (sumw_zero_all _ H). pose proof (nthz_lt _ _ _ N).
  rewrite (slice_split t a k b) by lia. apply in_or_app; right.
  rewrite (slice_cons _ _ _ _ (proj2 Hk) N). now left.
Qed.

Lemma sumw_spaces n : sumw (spaces n) = Z.max 0 n * cw SP.
Proof.
  unfold spaces. assert (H : forall k, sumw (repeatz k SP) = Z.of_nat k * cw SP).
  { induction k; cbn [repeatz TextLayout.sumw]; [lia|]. rewrite IHk. lia. }
  rewrite H. lia.
Qed.

(* ---------- calc_string_text_pos ---------- *)
Lemma ctp_spec l : forall pos cols pref p c, ctp cw l pos cols pref = (p, c) ->
  exists k, 0 <= k <= zlen l /\ p = pos + k /\ c = cols + sumw (takez k l) /\
            (cols <= pref -> c <= pref) /\
            (k = zlen l \/ exists ch, nthz l k = Some ch /\ pref < cw ch + c).
Proof.
  induction l as [|x l IH]; intros pos cols pref p c H; cbn [ctp] in H.
  - inversion H; subst. exists 0. unfold zlen, takez. rewrite firstn_nil. cbn [length TextLayout.sumw].
    repeat split; try lia.
  - destruct (pref <? cw x + cols) eqn:E.
    + inversion H; subst. exists 0. rewrite zlen_cons. pose proof (zlen_nonneg l).
      unfold takez. replace (Z.to_nat 0) with O by lia. cbn [firstn TextLayout.sumw].
      repeat split; try lia.
      right. exists x. split; [reflexivity | lia].
    + apply IH in H. destruct H as (k & Hk & Hp & Hc & Hle & Hend).
      exists (k + 1). rewrite zlen_cons. repeat split; try lia.
      * unfold takez in *. replace (Z.to_nat (k + 1)) with (S (Z.to_nat k)) by lia.
        cbn [firstn TextLayout.sumw]. lia.
      * destruct Hend as [-> | (ch & N & L)]; [left; lia | right].
        exists ch. split; [|assumption]. rewrite nthz_cons_S by lia. exact N.
Qed.

Lemma takez_slice t a b k : 0 <= a -> 0 <= k <= b - a -> takez k (slice t a b) = slice t a (a + k).
Proof.
  intros Ha Hk. unfold slice, takez. rewrite firstn_firstn.
  replace (a + k - a) with k by lia. f_equal. lia.
Qed.

Lemma calc_text_pos_spec t a b pref : 0 <= a <= b -> b <= zlen t -> 0 <= pref ->
  exists p c, calc_text_pos cw t a b pref = LOk (p, c) /\ a <= p <= b /\ c = sumw (slice t a p) /\
              c <= pref /\ (p = b \/ exists ch, nthz t p = Some ch /\ pref < cw ch + c).
Proof.
  intros H1 H2 H3. unfold calc_text_pos. destruct (b <? a) eqn:E; [lia|].
  destruct (ctp cw (slice t a b) a 0 pref) as [p c] eqn:C.
  exists p, c. split; [reflexivity|].
  apply ctp_spec in C. destruct C as (k & Hk & Hp & Hc & Hle & Hend).
  rewrite zlen_slice in * by lia.
  rewrite takez_slice in Hc by lia. subst p.
  repeat split; try lia.
  destruct Hend as [-> | (ch & N & L)]; [left; lia | right].
  exists ch. split; [|assumption]. pose proof (nthz_lt _ _ _ N) as Hlt. rewrite zlen_slice in Hlt by lia.
  rewrite nthz_slice in N by lia. exact N.
Qed.

(* the position returned is past every prefix that fits, and before every prefix that does not *)
Lemma ctp_result_ge t a b pref p c m : 0 <= a <= b -> b <= zlen t -> 0 <= pref ->
  calc_text_pos cw t a b pref = LOk (p, c) -> a <= m <= b -> sumw (slice t a m) <= pref -> m <= p.
Proof.
  intros H1 H2 H3 H Hm Hs.
  destruct (calc_text_pos_spec t a b pref H1 H2 H3) as (p' & c' & E & Hp & Hc & Hle & Hend).
  rewrite E in H; inversion H; subst p' c'.
  destruct (Z_lt_le_dec p m) as [L|]; [exfalso | assumption].
  destruct Hend as [-> | (ch & N & Lt)]; [lia|].
  assert (sumw (slice t a (p + 1)) <= sumw (slice t a m)) by (apply sumw_slice_mono; lia).
  rewrite (sumw_slice_snoc t a p ch) in * by (lia || assumption). lia.
Qed.

Lemma ctp_result_lt t a b pref p c m : 0 <= a <= b -> b <= zlen t -> 0 <= pref ->
  calc_text_pos cw t a b pref = LOk (p, c) -> a <= m <= b -> pref < sumw (slice t a m) -> p < m.
Proof.
  intros H1 H2 H3 H Hm Hs.
  destruct (calc_text_pos_spec t a b pref H1 H2 H3) as (p' & c' & E & Hp & Hc & Hle & Hend).
  rewrite E in H; inversion H; subst p' c'.
  destruct (Z_lt_le_dec p m) as [|L]; [assumption | exfalso].
  assert (sumw (slice t a m) <= sumw (slice t a p)) by (apply sumw_slice_mono; lia). lia.
Qed.

Lemma calc_width_ok t a b : a <= b -> calc_width cw t a b = LOk (sumw (slice t a b)).
Proof. intros; unfold calc_width. destruct (b <? a) eqn:E; [lia | reflexivity]. Qed.

(* ---------- find_nl ---------- *)
Lemma find_from_spec l c : forall pos,
  match find_from l c pos with
  | Some p => exists k, 0 <= k < zlen l /\ p = pos + k /\ nthz l k = Some c /\
                        (forall j, 0 <= j < k -> nthz l j <> Some c)
  | None => forall j, nthz l j <> Some c
  end.
Proof.
  induction l as [|x l IH]; intros pos; cbn [find_from].
  - intros j. rewrite nthz_nil. discriminate.
  - destruct (x =? c) eqn:E.
    + exists 0. rewrite zlen_cons. pose proof (zlen_nonneg l). repeat split; try lia.
      all: try (rewrite nthz_cons_0; f_equal; lia).
      all: try (intros; lia).
    + specialize (IH (pos + 1)). destruct (find_from l c (pos + 1)).
      * destruct IH as (k & Hk & Hp & N & Hno). exists (k + 1). rewrite zlen_cons.
        repeat split; try lia.
        -- rewrite nthz_cons_S by lia. exact N.
        -- intros j Hj. destruct (Z.eq_dec j 0) as [->|].
           ++ rewrite nthz_cons_0. intros Q; inversion Q; lia.
           ++ replace j with ((j - 1) + 1) by lia. rewrite nthz_cons_S by lia. apply Hno; lia.
      * intros j. destruct (Z.eq_dec j 0) as [->|].
        -- rewrite nthz_cons_0. intros Q; inversion Q; lia.
        -- destruct (Z_lt_le_dec j 0).
           ++ unfold nthz. destruct (j <? 0) eqn:E1; [discriminate | lia].
           ++ replace j with ((j - 1) + 1) by lia. rewrite nthz_cons_S by lia. apply IH.
Qed.

Lemma find_nl_spec t idx : 0 <= idx <= zlen t ->
  idx <= find_nl t idx <= zlen t /\
  (find_nl t idx = zlen t \/ nthz t (find_nl t idx) = Some NL) /\
  (forall k, idx <= k < find_nl t idx -> nthz t k <> Some NL).
Proof.
  intros H. unfold find_nl. pose proof (find_from_spec (dropz idx t) NL idx) as S.
  assert (Hd : dropz idx t = slice t idx (zlen t)).
  { unfold slice, takez, dropz. rewrite firstn_all2; [reflexivity|]. rewrite skipn_length. unfold zlen. lia. }
  destruct (find_from (dropz idx t) NL idx) as [p|].
  - destruct S as (k & Hk & Hp & N & Hno). rewrite Hd in *. rewrite zlen_slice in Hk by lia.
    rewrite nthz_slice in N by lia. subst p. repeat split; try lia.
    + right; exact N.
    + intros j Hj. specialize (Hno (j - idx) ltac:(lia)). rewrite nthz_slice in Hno by lia.
      replace (idx + (j - idx)) with j in Hno by lia. exact Hno.
  - repeat split; try lia. intros j Hj. specialize (S (j - idx)). rewrite Hd in S.
    rewrite nthz_slice in S by lia. replace (idx + (j - idx)) with j in S by lia. exact S.
Qed.

(* ---------- scan_back ---------- *)
Lemma scan_back_spec t idx n : 0 <= idx -> idx + Z.of_nat n <= zlen t ->
  match scan_back cw t idx n with
  | ScanErr => False
  | ScanSpace prev => idx <= prev < idx + Z.of_nat n /\ nthz t prev = Some SP /\
        (forall k, prev < k < idx + Z.of_nat n -> exists c, nthz t k = Some c /\ c <> SP /\ cw c <> 2)
  | ScanWide prev => idx <= prev < idx + Z.of_nat n /\ (exists c, nthz t prev = Some c /\ c <> SP /\ cw c = 2) /\
        (forall k, prev < k < idx + Z.of_nat n -> exists c, nthz t k = Some c /\ c <> SP /\ cw c <> 2)
  | ScanNone => forall k, idx <= k < idx + Z.of_nat n -> exists c, nthz t k = Some c /\ c <> SP /\ cw c <> 2
  end.
Proof.
  intros Hi. induction n; intros Hn; cbn [scan_back].
  - intros k Hk; lia.
  - destruct (nthz_ex t (idx + Z.of_nat n) ltac:(lia)) as [c N]. rewrite N.
    destruct (c =? SP) eqn:E1.
    + assert (c = SP) by lia; subst c. repeat split; try lia; try exact N; try (intros; lia).
    + destruct (cw c =? 2) eqn:E2.
      * split; [lia|]. split; [exists c; repeat split; [exact N | lia | lia] | intros; lia].
      * specialize (IHn ltac:(lia)).
        assert (Hc : exists c0, nthz t (idx + Z.of_nat n) = Some c0 /\ c0 <> SP /\ cw c0 <> 2)
          by (exists c; repeat split; [exact N | lia | lia]).
        destruct (scan_back cw t idx n) as [prev|prev| |]; try exact IHn.
        -- destruct IHn as (A & B & C). repeat split; try lia; try exact B.
           intros k Hk. destruct (Z.eq_dec k (idx + Z.of_nat n)) as [->|]; [exact Hc | apply C; lia].
        -- destruct IHn as (A & B & C). repeat split; try lia; try exact B.
           intros k Hk. destruct (Z.eq_dec k (idx + Z.of_nat n)) as [->|]; [exact Hc | apply C; lia].
        -- intros k Hk. destruct (Z.eq_dec k (idx + Z.of_nat n)) as [->|]; [exact Hc | apply IHn; lia].
Qed.

End Facts.
