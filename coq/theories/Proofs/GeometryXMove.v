(* C09, extended model: after a successful move_cursor_to_coords the cursor is on the requested row - for trees with
   fixed-size parts and for size ().  Part 1: what a move leaves unchanged (the shape of the tree, hence sizing() and
   the packed width of every widget). *)
From Coq Require Import ZArith List Bool Lia ZifyBool.
Import ListNotations.
From Urwid Require Import PyBase geo_padfill_gen Geometry GeometryX GeometryFacts GeometryProofs GeometryMoveProofs
  GeometryMoveFull GeometryXProofs.
Open Scope Z_scope.

Arguments Z.add : simpl never. Arguments Z.sub : simpl never. Arguments Z.mul : simpl never.
Arguments Z.div : simpl never. Arguments Z.modulo : simpl never. Arguments Z.ltb : simpl never.
Arguments Z.leb : simpl never. Arguments Z.eqb : simpl never. Arguments Z.min : simpl never.
Arguments Z.max : simpl never. Arguments Z.quot : simpl never.

(* everything of a leaf but its cursor *)
Definition leaf_static (l : leafd) := (lid l, lbox l, lh l, lwrap l, lsel l, lapi l, lrej l, lminw l, lfw l).

(* the same tree up to focus positions (Pile, Columns, Frame) and leaf cursors *)
Fixpoint same_shape (w w' : widget) {struct w} : Prop :=
  match w, w' with
  | Leaf l, Leaf l' => leaf_static l = leaf_static l'
  | Pile items _, Pile items' _ =>
      (fix go (l : list (popt * widget)) (l' : list (popt * widget)) : Prop :=
         match l, l' with
         | [], [] => True
         | it :: r, it' :: r' => fst it = fst it' /\ same_shape (snd it) (snd it') /\ go r r'
         | _, _ => False
         end) items items'
  | Columns items _ dc mw, Columns items' _ dc' mw' =>
      dc = dc' /\ mw = mw' /\
      (fix go (l : list (copt * bool * widget)) (l' : list (copt * bool * widget)) : Prop :=
         match l, l' with
         | [], [] => True
         | it :: r, it' :: r' => fst it = fst it' /\ same_shape (snd it) (snd it') /\ go r r'
         | _, _ => False
         end) items items'
  | Padding c a1 a2 a3 a4 a5 a6 a7, Padding c' b1 b2 b3 b4 b5 b6 b7 =>
      (a1, a2, a3, a4, a5, a6, a7) = (b1, b2, b3, b4, b5, b6, b7) /\ same_shape c c'
  | Filler c a1 a2 a3 a4 a5 a6 a7, Filler c' b1 b2 b3 b4 b5 b6 b7 =>
      (a1, a2, a3, a4, a5, a6, a7) = (b1, b2, b3, b4, b5, b6, b7) /\ same_shape c c'
  | Frame b h f _, Frame b' h' f' _ =>
      same_shape b b'
      /\ match h, h' with Some x, Some x' => same_shape x x' | None, None => True | _, _ => False end
      /\ match f, f' with Some x, Some x' => same_shape x x' | None, None => True | _, _ => False end
  | BoxAdapter c h, BoxAdapter c' h' => h = h' /\ same_shape c c'
  | AttrMap c, AttrMap c' => same_shape c c'
  | Overlay t b a1 a2 a3 a4 a5 a6 a7 a8 a9 a10 a11 a12 a13 a14, Overlay t' b' b1 b2 b3 b4 b5 b6 b7 b8 b9 b10 b11 b12 b13 b14 =>
      (a1, a2, a3, a4, a5, a6, a7, a8, a9, a10, a11, a12, a13, a14) = (b1, b2, b3, b4, b5, b6, b7, b8, b9, b10, b11, b12, b13, b14)
      /\ same_shape t t' /\ same_shape b b'
  | _, _ => False
  end.

(* the list part, as a relation *)
Definition items_same {A} (l l' : list (A * widget)) : Prop :=
  Forall2 (fun it it' => fst it = fst it' /\ same_shape (snd it) (snd it')) l l'.

Lemma pile_go_iff (l l' : list (popt * widget)) :
  (fix go (l : list (popt * widget)) (l' : list (popt * widget)) : Prop :=
     match l, l' with
     | [], [] => True
     | it :: r, it' :: r' => fst it = fst it' /\ same_shape (snd it) (snd it') /\ go r r'
     | _, _ => False
     end) l l' <-> items_same l l'.
Proof.
  revert l'. induction l as [|it r IH]; intros [|it' r']; split; intro H; try (now inversion H).
  - constructor.
  - destruct H as [H1 [H2 H3]]. constructor; [split; assumption|apply IH; exact H3].
  - inversion H; subst. destruct H3 as [H1 H2]. split; [exact H1|]. split; [exact H2|]. apply IH. exact H5.
Qed.
Lemma cols_go_iff (l l' : list (copt * bool * widget)) :
  (fix go (l : list (copt * bool * widget)) (l' : list (copt * bool * widget)) : Prop :=
     match l, l' with
     | [], [] => True
     | it :: r, it' :: r' => fst it = fst it' /\ same_shape (snd it) (snd it') /\ go r r'
     | _, _ => False
     end) l l' <-> items_same l l'.
Proof.
  revert l'. induction l as [|it r IH]; intros [|it' r']; split; intro H; try (now inversion H).
  - constructor.
  - destruct H as [H1 [H2 H3]]. constructor; [split; assumption|apply IH; exact H3].
  - inversion H; subst. destruct H3 as [H1 H2]. split; [exact H1|]. split; [exact H2|]. apply IH. exact H5.
Qed.

Lemma same_pile items fp items' fp' : same_shape (Pile items fp) (Pile items' fp') <-> items_same items items'.
Proof. cbn [same_shape]. apply pile_go_iff. Qed.
Lemma same_cols items fp dc mw items' fp' dc' mw' :
  same_shape (Columns items fp dc mw) (Columns items' fp' dc' mw') <-> dc = dc' /\ mw = mw' /\ items_same items items'.
Proof. cbn [same_shape]. rewrite cols_go_iff. reflexivity. Qed.

Lemma same_shape_refl : forall w, same_shape w w.
Proof.
  induction w using widget_ind2.
  - reflexivity.
  - apply same_pile. induction H; constructor; auto.
  - apply same_cols. split; [reflexivity|]. split; [reflexivity|]. induction H; constructor; auto.
  - split; [reflexivity|assumption].
  - split; [reflexivity|assumption].
  - cbn [same_shape]. split; [assumption|]. split; [destruct hdr; [apply H; reflexivity|exact I]|destruct ftr; [apply H0; reflexivity|exact I]].
  - split; [reflexivity|assumption].
  - assumption.
  - split; [reflexivity|]. split; assumption.
Qed.

Lemma items_same_refl {A} (l : list (A * widget)) : items_same l l.
Proof. induction l; constructor; auto. split; [reflexivity|apply same_shape_refl]. Qed.

Lemma items_same_set {A} (items : list (A * widget)) i c :
  (forall o c0, nthz items i = Some (o, c0) -> same_shape c0 c) -> items_same items (set_nth_w items i c).
Proof.
  revert i. induction items as [|[a w] items IH]; intros i H; [constructor|]. cbn [set_nth_w].
  destruct (i =? 0) eqn:E.
  - constructor; [|apply items_same_refl]. split; [reflexivity|]. cbn [snd]. apply (H a w). rewrite nthz_cons, E. reflexivity.
  - constructor; [split; [reflexivity|apply same_shape_refl]|]. apply IH. intros o c0 Hn. apply (H o c0).
    rewrite nthz_cons, E. destruct (i <? 0) eqn:E2; [|exact Hn].
    unfold nthz in Hn. assert (E3 : i - 1 <? 0 = true) by lia. rewrite E3 in Hn. discriminate Hn.
Qed.

Lemma forall_nth {A} (P : widget -> Prop) (items : list (A * widget)) i a c :
  Forall (fun it => P (snd it)) items -> nthz items i = Some (a, c) -> P c.
Proof. intros H Hn. rewrite Forall_forall in H. apply (H (a, c)). eapply nthz_In; eauto. Qed.

Lemma nth_view_single_ok d v i cs c r : m_ok (v_move (nth_view d [v] i) cs c r) = true -> nth_view d [v] i = v.
Proof.
  unfold nth_view. rewrite nthz_cons. destruct (i =? 0); [reflexivity|].
  destruct (i <? 0); [intro H; discriminate H|]. rewrite nthz_nil. intro H; discriminate H.
Qed.

(* move_cursor_to_coords of the proved model changes focus positions and leaf cursors only *)
Lemma move_same_shape : forall w s col row, same_shape w (m_w (move_cursor w s col row)).
Proof.
  unfold move_cursor.
  assert (Single : forall K : widget -> widget, forall w,
            (forall c, kidviews (K c) = [view c]) -> (forall c i c', set_child (K c) i c' = K c') ->
            (forall c f, set_focus (K c) f = K c) -> (forall c c', same_shape c c' -> same_shape (K c) (K c')) ->
            (forall s col row, same_shape w (m_w (v_move (view w) s col row))) ->
            forall nd s col row, same_shape (K w) (m_w (interp_move (K w) nd (kidviews (K w)) s col row))).
  { intros K w Kk Ks Kf Kc IH nd s col row. unfold interp_move.
    destruct (n_move nd s col row) as [| |i0|i0 cs0 c0 r0 nf0]; cbn [m_w]; try apply same_shape_refl.
    - rewrite Kf. apply same_shape_refl.
    - destruct (m_ok _) eqn:Eok; cbn [m_w]; [|apply same_shape_refl]. rewrite Kk in *.
      rewrite (nth_view_single_ok _ _ _ _ _ _ Eok). rewrite Ks. destruct nf0; [rewrite Kf|]; apply Kc, IH. }
  induction w using widget_ind2; intros s col row; rewrite view_eq.
  - cbn [leaf_view v_move]. destruct (leaf_accepts l s row); cbn [m_w same_shape]; reflexivity.
  - cbn [interp v_move]; unfold interp_move.
    destruct (n_move _ s col row) as [| |i0|i0 cs0 c0 r0 nf0]; cbn [m_w]; try apply same_shape_refl.
    + apply same_pile, items_same_refl.
    + destruct (m_ok _) eqn:Eok; cbn [m_w]; [|apply same_shape_refl].
      assert (G : items_same items (set_nth_w items i0 (m_w (v_move (nth_view (Pile items fp) (kidviews (Pile items fp)) i0) cs0 c0 r0)))).
      { apply items_same_set. intros o c1 Hn. cbn [kidviews kids_with]. rewrite (nth_view_kids _ items i0 o c1 Hn).
        apply (forall_nth (fun c => forall s col row, same_shape c (m_w (v_move (view c) s col row))) items i0 o c1 H Hn). }
      destruct nf0; cbn [set_child set_focus]; apply same_pile; exact G.
  - cbn [interp v_move]; unfold interp_move.
    destruct (n_move _ s col row) as [| |i0|i0 cs0 c0 r0 nf0]; cbn [m_w]; try apply same_shape_refl.
    + apply same_cols. split; [reflexivity|]. split; [reflexivity|]. apply items_same_refl.
    + destruct (m_ok _) eqn:Eok; cbn [m_w]; [|apply same_shape_refl].
      assert (G : items_same items (set_nth_w items i0 (m_w (v_move (nth_view (Columns items fp dc mw) (kidviews (Columns items fp dc mw)) i0) cs0 c0 r0)))).
      { apply items_same_set. intros o c1 Hn. cbn [kidviews kids_with]. rewrite (nth_view_kids _ items i0 o c1 Hn).
        apply (forall_nth (fun c => forall s col row, same_shape c (m_w (v_move (view c) s col row))) items i0 o c1 H Hn). }
      destruct nf0; cbn [set_child set_focus]; apply same_cols; (split; [reflexivity|]; split; [reflexivity|]; exact G).
  - apply (Single (fun x => Padding x a b c d e f g)); try reflexivity; [intros; split; [reflexivity|assumption]|exact IHw].
  - apply (Single (fun x => Filler x a b c d e f g)); try reflexivity; [intros; split; [reflexivity|assumption]|exact IHw].
  - cbn [interp v_move]. unfold interp_move, wnode. cbn [node_of n_move m_w]. apply same_shape_refl.
  - apply (Single (fun x => BoxAdapter x h)); try reflexivity; [intros; split; [reflexivity|assumption]|exact IHw].
  - apply (Single (fun x => AttrMap x)); try reflexivity; [intros; assumption|exact IHw].
  - cbn [interp v_move]. unfold interp_move, wnode. cbn [node_of n_move m_w]. apply same_shape_refl.
Qed.

(* ------------------------------------------------------------------------------------------ *)
(* the static part of an extended info: sizing() flags and the packed width                     *)
(* ------------------------------------------------------------------------------------------ *)
Definition xstat (a b : xinfo) : Prop :=
  x_flow a = x_flow b /\ x_fixed a = x_fixed b /\ fst (x_pack a) = fst (x_pack b) /\ i_box (xc a) = i_box (xc b).
Lemma xstat_refl a : xstat a a. Proof. repeat split. Qed.

Definition prel_stat (x y : popt * xinfo) : Prop := fst x = fst y /\ xstat (snd x) (snd y).
Definition crel_stat (x y : copt * bool * xinfo) : Prop := fst x = fst y /\ xstat (snd x) (snd y).

Lemma xpile_sizing_stat a b : Forall2 prel_stat a b -> xpile_sizing a = xpile_sizing b.
Proof.
  intro H. unfold xpile_sizing. destruct H as [|x y a b Hxy H]; [reflexivity|].
  assert (G : forall st, fold_left (fun st it =>
      match st with
      | SzDone _ _ _ => st
      | SzRun b f x =>
          let '(o, xi) := it in
          let cb := i_box (xc xi) in
          let '(fb, ff, fx) :=
            match o with
            | PWeight _ => (cb, x_flow xi, x_fixed xi && (cb || x_flow xi))
            | PGiven _ => (cb, cb, false)
            | PPack => (false, x_flow xi, x_fixed xi)
            end in
          if negb (fb || ff || fx) then SzDone true true false
          else if fb && negb (ff || fx) then SzDone true false false
          else SzRun (b || fb) (f || ff) (x || fx)
      end) (x :: a) st = fold_left (fun st it =>
      match st with
      | SzDone _ _ _ => st
      | SzRun b f x =>
          let '(o, xi) := it in
          let cb := i_box (xc xi) in
          let '(fb, ff, fx) :=
            match o with
            | PWeight _ => (cb, x_flow xi, x_fixed xi && (cb || x_flow xi))
            | PGiven _ => (cb, cb, false)
            | PPack => (false, x_flow xi, x_fixed xi)
            end in
          if negb (fb || ff || fx) then SzDone true true false
          else if fb && negb (ff || fx) then SzDone true false false
          else SzRun (b || fb) (f || ff) (x || fx)
      end) (y :: b) st).
  { assert (H2 : Forall2 prel_stat (x :: a) (y :: b)) by (constructor; assumption). clear Hxy H.
    induction H2 as [|[o xi] [o' xi'] l l' [Ho [Hf [Hx [Hp Hb]]]] _ IH]; intro st; [reflexivity|].
    cbn [fold_left fst snd] in *. subst o'. rewrite Hf, Hx, Hb. apply IH. }
  rewrite G. reflexivity.
Qed.

Lemma xpile_max_width_stat a b : Forall2 prel_stat a b -> xpile_max_width a = xpile_max_width b.
Proof.
  intro H. unfold xpile_max_width. f_equal.
  induction H as [|[o xi] [o' xi'] l l' [Ho [Hf [Hx [Hp Hb]]]] _ IH]; [reflexivity|].
  cbn [flat_map fst snd] in *. rewrite Hx, Hp, IH. reflexivity.
Qed.

Lemma xcolumns_sizing_stat a b : Forall2 crel_stat a b -> xcolumns_sizing a = xcolumns_sizing b.
Proof.
  intro H. unfold xcolumns_sizing. destruct H as [|x y a b Hxy H]; [reflexivity|].
  assert (G : map (fun it : copt * bool * xinfo => let '(o, isbox, xi) := it in
                   let cb := i_box (xc xi) in
                   match o with
                   | CWeight _ => (cb, x_flow xi, x_fixed xi && (cb || x_flow xi), false, isbox)
                   | CGiven _ => (cb, x_flow xi, x_flow xi, true, isbox)
                   | CPack => (false, x_flow xi, x_fixed xi, false, isbox)
                   end) (x :: a)
            = map (fun it : copt * bool * xinfo => let '(o, isbox, xi) := it in
                   let cb := i_box (xc xi) in
                   match o with
                   | CWeight _ => (cb, x_flow xi, x_fixed xi && (cb || x_flow xi), false, isbox)
                   | CGiven _ => (cb, x_flow xi, x_flow xi, true, isbox)
                   | CPack => (false, x_flow xi, x_fixed xi, false, isbox)
                   end) (y :: b)).
  { assert (H2 : Forall2 crel_stat (x :: a) (y :: b)) by (constructor; assumption). clear Hxy H.
    induction H2 as [|[[o ib] xi] [[o' ib'] xi'] l l' [Ho [Hf [Hx [Hp Hb]]]] _ IH]; [reflexivity|].
    cbn [map fst snd] in *. inversion Ho; subst o' ib'. rewrite Hf, Hx, Hb, IH. reflexivity. }
  cbv beta iota zeta. cbv beta iota zeta in G. rewrite G. reflexivity.
Qed.

Lemma xcolumns_fixed_supported_stat a b : Forall2 crel_stat a b -> xcolumns_fixed_supported a = xcolumns_fixed_supported b.
Proof.
  intro H. unfold xcolumns_fixed_supported.
  induction H as [|[[o ib] xi] [[o' ib'] xi'] l l' [Ho [Hf [Hx [Hp Hb]]]] _ IH]; [reflexivity|].
  cbn [forallb fst snd] in *. inversion Ho; subst o' ib'. rewrite Hf, Hx, IH. reflexivity.
Qed.

(* the widths of a Columns rendered fixed *)
Definition fixed_colw (it : copt * bool * xinfo) : Z :=
  match it with (CGiven n, _, _) => n | (_, _, xi) => fst (x_pack xi) end.

Lemma xcolumns_fixed_widths a fp dc mw :
  map (fun t : Z * Z * size => fst (fst t)) (xcolumns_sizes a fp dc mw fixed_size)
  = if xcolumns_fixed_supported a then map fixed_colw a else [].
Proof.
  unfold xcolumns_sizes. rewrite is_fixed_fixed. destruct (xcolumns_fixed_supported a); [|reflexivity].
  cbv zeta. generalize (zmaxl (flat_map (fun it : copt * bool * xinfo => let '(o, isbox, xi) := it in
                  match o with
                  | CGiven n => if isbox then [] else [i_rows (xc xi) n]
                  | _ => [snd (x_pack xi)]
                  end) a)). intro mh. rewrite map_map. apply map_ext. intros [[o ib] xi].
  destruct o; [destruct ib; reflexivity| |]; reflexivity.
Qed.

Lemma xcolumns_fixed_widths_stat a b fp fp' dc mw :
  Forall2 crel_stat a b ->
  map (fun t : Z * Z * size => fst (fst t)) (xcolumns_sizes a fp dc mw fixed_size)
  = map (fun t : Z * Z * size => fst (fst t)) (xcolumns_sizes b fp' dc mw fixed_size).
Proof.
  intro H. rewrite !xcolumns_fixed_widths, (xcolumns_fixed_supported_stat a b H).
  destruct (xcolumns_fixed_supported b); [|reflexivity].
  induction H as [|[[o ib] xi] [[o' ib'] xi'] l l' [Ho [Hf [Hx [Hp Hb]]]] _ IH]; [reflexivity|].
  cbn [map fst snd] in *. inversion Ho; subst o' ib'. rewrite IH. f_equal.
  unfold fixed_colw. destruct o; [reflexivity| |]; exact Hp.
Qed.

(* the extended info of any tree: flags and packed size by the rules of GeometryX.v, the cinfo of the proved model
   when the tree has no fixed parts *)
Definition xlayer (w : widget) : xinfo :=
  match w with Leaf l => xleaf_info l | _ => xselfof w end.

Lemma xview_snd w :
  x_flow (snd (xview w)) = x_flow (xlayer w) /\ x_fixed (snd (xview w)) = x_fixed (xlayer w) /\
  x_pack (snd (xview w)) = x_pack (xlayer w) /\
  xc (snd (xview w)) = if sized_tree w then v_info (view w) else xc (xlayer w).
Proof.
  unfold xlayer, xselfof. destruct w; cbn [xview xkids];
    try match goal with |- context [xnode_of ?a ?b] => destruct (xnode_of a b) end;
    match goal with |- context [if ?b then _ else _] => destruct b end; cbn [fst snd x_flow x_fixed x_pack xc]; auto.
Qed.

Lemma items_same_fst {A} (l l' : list (A * widget)) : items_same l l' -> map fst l' = map fst l.
Proof. intro H. induction H as [|x y l l' [H1 _] _ IH]; [reflexivity|]. cbn [map]. rewrite IH, H1. reflexivity. Qed.

Lemma same_sized : forall w w', same_shape w w' -> sized_tree w' = sized_tree w.
Proof.
  induction w using widget_ind2; intros w' Hs; destruct w'; try contradiction.
  - cbn [same_shape] in Hs. unfold leaf_static in Hs. inversion Hs. cbn [sized_tree]. congruence.
  - apply same_pile in Hs. cbn [sized_tree]. induction Hs as [|x y l l' [H1 H2] _ IH]; [reflexivity|].
    cbn [forallb]. inversion H; subst. rewrite (H4 _ H2), (IH H5). reflexivity.
  - apply same_cols in Hs. destruct Hs as [_ [_ Hs]]. cbn [sized_tree].
    induction Hs as [|x y l l' [H1 H2] _ IH]; [reflexivity|].
    cbn [forallb]. inversion H; subst. rewrite (H4 _ H2), (IH H5), H1. reflexivity.
  - destruct Hs as [_ Hs]. cbn [sized_tree]. apply IHw. exact Hs.
  - destruct Hs as [_ Hs]. cbn [sized_tree]. apply IHw. exact Hs.
  - match goal with Hs : same_shape _ (Frame _ ?h' ?f' _) |- _ =>
      destruct Hs as [Hb [Hh Hf]]; cbn [sized_tree]; rewrite (IHw _ Hb); f_equal; [f_equal|];
      [destruct hdr as [x|], h' as [x'|]; try contradiction; [apply (H x eq_refl); exact Hh|reflexivity]
      |destruct ftr as [x|], f' as [x'|]; try contradiction; [apply (H0 x eq_refl); exact Hf|reflexivity]]
    end.
  - destruct Hs as [_ Hs]. cbn [sized_tree]. apply IHw. exact Hs.
  - cbn [sized_tree]. apply IHw. exact Hs.
  - destruct Hs as [Ho [Ht Hb]]. inversion Ho; subst. cbn [sized_tree]. rewrite (IHw1 _ Ht), (IHw2 _ Hb). reflexivity.
Qed.

Lemma sized_ibox c c' :
  same_shape c c' -> xstat (snd (xview c')) (snd (xview c)) -> sized_tree c = true ->
  i_box (v_info (view c')) = i_box (v_info (view c)).
Proof.
  intros Hs [_ [_ [_ Hb]]] Hz. pose proof (same_sized c c' Hs) as Hz'. rewrite Hz in Hz'.
  destruct (xview_sized c Hz) as [_ E]. destruct (xview_sized c' Hz') as [_ E']. rewrite <- E, <- E'. exact Hb.
Qed.

Lemma xstat_via_layer w w' :
  sized_tree w' = sized_tree w ->
  x_flow (xlayer w') = x_flow (xlayer w) -> x_fixed (xlayer w') = x_fixed (xlayer w) ->
  fst (x_pack (xlayer w')) = fst (x_pack (xlayer w)) ->
  (sized_tree w = true -> i_box (v_info (view w')) = i_box (v_info (view w))) ->
  (sized_tree w = false -> i_box (xc (xlayer w')) = i_box (xc (xlayer w))) ->
  xstat (snd (xview w')) (snd (xview w)).
Proof.
  intros Hz H1 H2 H3 H4 H5. destruct (xview_snd w) as [A1 [A2 [A3 A4]]]. destruct (xview_snd w') as [B1 [B2 [B3 B4]]].
  unfold xstat. rewrite A1, A2, A3, A4, B1, B2, B3, B4, Hz. repeat split; try assumption.
  destruct (sized_tree w); auto.
Qed.

Lemma pile_kids_stat items items' :
  Forall (fun it : popt * widget => forall w', same_shape (snd it) w' -> xstat (snd (xview w')) (snd (xview (snd it)))) items ->
  items_same items items' ->
  Forall2 prel_stat (combine (map fst items') (map snd (map (fun it => xview (snd it)) items')))
                    (combine (map fst items) (map snd (map (fun it => xview (snd it)) items))).
Proof.
  intros IH Hs. induction Hs as [|[o c] [o' c'] l l' [H1 H2] _ IHs]; [constructor|].
  cbn [map combine fst snd] in *. inversion IH; subst. constructor; [|apply IHs; assumption].
  split; [cbn [fst]; congruence|]. cbn [snd]. apply H3. exact H2.
Qed.

Lemma cols_kids_stat (items items' : list (copt * bool * widget)) :
  Forall (fun it : copt * bool * widget => forall w', same_shape (snd it) w' -> xstat (snd (xview w')) (snd (xview (snd it)))) items ->
  items_same items items' ->
  Forall2 crel_stat (combine (map fst items') (map snd (map (fun it => xview (snd it)) items')))
                    (combine (map fst items) (map snd (map (fun it => xview (snd it)) items))).
Proof.
  intros IH Hs. induction Hs as [|[o c] [o' c'] l l' [H1 H2] _ IHs]; [constructor|].
  cbn [map combine fst snd] in *. inversion IH; subst. constructor; [|apply IHs; assumption].
  split; [cbn [fst]; congruence|]. cbn [snd]. apply H3. exact H2.
Qed.

Lemma sized_kids_ibox {A} (items items' : list (A * widget)) :
  Forall (fun it : A * widget => forall w', same_shape (snd it) w' -> xstat (snd (xview w')) (snd (xview (snd it)))) items ->
  items_same items items' -> Forall (fun it => sized_tree (snd it) = true) items ->
  Forall2 (fun x y : A * cinfo => fst x = fst y /\ i_box (snd x) = i_box (snd y))
          (combine (map fst items') (map v_info (map (fun it => view (snd it)) items')))
          (combine (map fst items) (map v_info (map (fun it => view (snd it)) items))).
Proof.
  intros IH Hs Hz. induction Hs as [|[o c] [o' c'] l l' [H1 H2] _ IHs]; [constructor|].
  cbn [map combine fst snd] in *. inversion IH; subst. inversion Hz; subst.
  constructor; [|apply IHs; assumption].
  split; [cbn [fst]; congruence|]. cbn [snd] in *. apply sized_ibox; auto.
Qed.

Lemma nth_xinfo_0 x l : nth_xinfo (x :: l) 0 = x. Proof. reflexivity. Qed.
Lemma nth_info_0 x l : nth_info (x :: l) 0 = x. Proof. reflexivity. Qed.

Lemma same_xstat : forall w w', same_shape w w' -> xstat (snd (xview w')) (snd (xview w)).
Proof.
  induction w using widget_ind2; intros w' Hs; pose proof (same_sized _ _ Hs) as Hz;
    destruct w'; try contradiction; apply xstat_via_layer; try exact Hz.
  1-5: cbn [same_shape] in Hs; unfold leaf_static in Hs; inversion Hs;
       cbn [xlayer xleaf_info x_flow x_fixed x_pack fst xc view leaf_view v_info leaf_info i_box]; intros; congruence.
  (* Pile *)
  1-5: apply same_pile in Hs; pose proof (pile_kids_stat items _ H Hs) as Hk.
  1-3,5: unfold xlayer, xselfof; cbn [xkids xnode_of snd]; unfold xpile_info, xpile_cinfo;
         rewrite (xpile_sizing_stat _ _ Hk); destruct (xpile_sizing _) as [[b f] x];
         cbn [x_flow x_fixed x_pack fst xc i_box]; try (intros; reflexivity).
  1: apply xpile_max_width_stat; exact Hk.
  1: { intro Hz1. rewrite !view_eq. cbn [interp v_info]. unfold wnode. cbn [node_of n_info kidviews kids_with].
      unfold pile_info. cbn [i_box].
      assert (Hz2 : Forall (fun it : popt * widget => sized_tree (snd it) = true) items).
      { cbn [sized_tree] in Hz1. rewrite forallb_forall in Hz1. apply Forall_forall. exact Hz1. }
      pose proof (sized_kids_ibox items _ H Hs Hz2) as G.
      induction G as [|[o ci] [o' ci'] l l' [G1 G2] _ IHG]; [reflexivity|].
      cbn [existsb fst snd] in *. subst o'. rewrite G2, IHG. reflexivity. }
  (* Columns *)
  1-5: apply same_cols in Hs; destruct Hs as [Edc [Emw Hs]]; subst dc0 mw0; pose proof (cols_kids_stat items _ H Hs) as Hk.
  1-3,5: unfold xlayer, xselfof; cbn [xkids xnode_of snd]; unfold xcolumns_info, xcolumns_cinfo;
         rewrite (xcolumns_sizing_stat _ _ Hk); destruct (xcolumns_sizing _) as [[b f] x];
         cbn [x_flow x_fixed x_pack fst xc i_box]; try (intros; reflexivity).
  1: { pose proof (xcolumns_fixed_widths_stat _ _ fp0 fp dc mw Hk) as G.
       assert (G2 : zlen (xcolumns_sizes (combine (map fst items0) (map snd (map (fun it => xview (snd it)) items0))) fp0 dc mw fixed_size)
                  = zlen (xcolumns_sizes (combine (map fst items) (map snd (map (fun it => xview (snd it)) items))) fp dc mw fixed_size)).
       { unfold zlen. f_equal. rewrite <- (map_length (fun t : Z * Z * size => fst (fst t))), G, map_length. reflexivity. }
       rewrite G, G2. reflexivity. }
  1: { intro Hz1. rewrite !view_eq. cbn [interp v_info]. unfold wnode. cbn [node_of n_info kidviews kids_with].
      unfold columns_info. cbn [i_box].
      assert (Hz2 : Forall (fun it : copt * bool * widget => sized_tree (snd it) = true) items).
      { cbn [sized_tree] in Hz1. rewrite forallb_forall in Hz1. apply Forall_forall. intros it Hit.
        specialize (Hz1 it Hit). apply andb_true_iff in Hz1 as [_ Hz1]. exact Hz1. }
      pose proof (sized_kids_ibox items _ H Hs Hz2) as G.
      induction G as [|[o ci] [o' ci'] l l' [G1 G2] _ IHG]; [reflexivity|].
      cbn [forallb fst snd] in *. rewrite G2, IHG. reflexivity. }
  (* Padding *)
  1-5: destruct Hs as [Eo Hs]; inversion Eo; subst; destruct (IHw _ Hs) as [I1 [I2 [I3 I4]]].
  1-3,5: unfold xlayer, xselfof; cbn [xkids xnode_of snd map]; rewrite !nth_xinfo_0; unfold xpadding_info, xpadding_pack;
         cbn [x_flow x_fixed x_pack xc padding_info i_box pa_wt pa_wamt pa_minw pa_left pa_right pa_at pa_aamt]; try (intros _); try congruence.
  1: destruct (is_given wt); cbn [fst]; congruence.
  1: { intro Hz1. rewrite !view_eq. cbn [interp v_info]. unfold wnode. cbn [node_of n_info kidviews kids_with map].
       rewrite !nth_info_0. cbn [padding_info i_box]. apply sized_ibox; auto. }
  (* Filler *)
  1-5: destruct Hs as [Eo Hs]; inversion Eo; subst.
  1-3,5: unfold xlayer, xselfof; cbn [xkids xnode_of snd map]; intros; reflexivity.
  1: intros _; rewrite !view_eq; reflexivity.
  (* Frame *)
  1-3,5: unfold xlayer, xselfof; cbn [xkids xnode_of snd map]; intros; reflexivity.
  1: intros _; rewrite !view_eq; reflexivity.
  (* BoxAdapter *)
  1-5: destruct Hs as [Eo Hs]; subst.
  1-3,5: unfold xlayer, xselfof; cbn [xkids xnode_of snd map]; intros; reflexivity.
  1: intros _; rewrite !view_eq; reflexivity.
  (* AttrMap *)
  1-5: cbn [same_shape] in Hs; destruct (IHw _ Hs) as [I1 [I2 [I3 I4]]].
  1-3,5: unfold xlayer, xselfof; cbn [xkids xnode_of snd map]; rewrite !nth_xinfo_0; intros; assumption.
  1: { intro Hz1. rewrite !view_eq. cbn [interp v_info]. unfold wnode. cbn [node_of n_info kidviews kids_with map].
       rewrite !nth_info_0. unfold attrmap_info. apply sized_ibox; auto. }
  (* Overlay *)
  1-5: destruct Hs as [Eo [Ht Hb]]; inversion Eo; subst.
  1-3,5: unfold xlayer, xselfof; cbn [xkids xnode_of snd map]; intros; reflexivity.
  intros _; rewrite !view_eq; reflexivity.
Qed.

(* ------------------------------------------------------------------------------------------ *)
(* Part 2: the statement, and the trees without fixed parts (through the bridge)                *)
(* ------------------------------------------------------------------------------------------ *)
(* what a container looks at in a child it renders with size [s]: the flags, sizing(), the packed width; the packed
   height when s = (), rows() at the width of s when s is a flow size *)
Definition xieq (s : size) (a b : xinfo) : Prop :=
  feq (xc a) (xc b) /\ x_flow a = x_flow b /\ x_fixed a = x_fixed b /\ fst (x_pack a) = fst (x_pack b) /\
  (is_fixed s = true -> snd (x_pack a) = snd (x_pack b)) /\
  (is_fixed s = false -> snd s = None -> i_rows (xc a) (fst s) = i_rows (xc b) (fst s)).

Lemma xieq_refl s a : xieq s a a.
Proof. split; [apply feq_refl|]. repeat split. Qed.

Lemma xh_xieq s a b : xieq s a b -> xh a s = xh b s.
Proof.
  intros [_ [_ [_ [_ [Hp Hr]]]]]. unfold xh, crows. destruct (is_fixed s) eqn:E; [apply Hp; reflexivity|].
  destruct (snd s) eqn:E2; [reflexivity|]. apply Hr; reflexivity.
Qed.

Definition XMoveOK (w : widget) : Prop :=
  forall s col row, v_fits (fst (xview w)) s = true -> i_hasmove (v_info (fst (xview w))) = true ->
    let m := v_move (fst (xview w)) s col row in
    m_ok m = true ->
    sized_tree (m_w m) = sized_tree w /\ xieq s (snd (xview (m_w m))) (snd (xview w)) /\
    v_fits (fst (xview (m_w m))) s = true /\
    (m_asked m <> None ->
       i_sel (v_info (fst (xview w))) = true /\ 0 <= row < xh (snd (xview w)) s /\
       exists x, v_cursor (fst (xview (m_w m))) s = CSome x row).

Lemma xmove_ok_sized w : sized_tree w = true -> XMoveOK w.
Proof.
  intros Hz s col row. destruct (xview_sized w Hz) as [Ev Ec]. rewrite Ev. intros Hf Hm m Hok.
  pose proof (move_okf_all w s col row Hf Hm Hok) as [Hieq [Hfit Hask]]. fold (move_cursor w s col row) in m.
  pose proof (move_same_shape w s col row) as Hsh. fold m in Hsh, Hieq, Hfit, Hask.
  pose proof (same_sized _ _ Hsh) as Hz'. rewrite Hz in Hz'.
  destruct (xview_sized (m_w m) Hz') as [Ev' Ec']. destruct (same_xstat _ _ Hsh) as [S1 [S2 [S3 S4]]].
  destruct (view_good w) as [FP _]. pose proof (FP s Hf) as Hpos. pose proof (pos_not_fixed s Hpos) as Hnf.
  split; [rewrite Hz, Hz'; reflexivity|]. split; [|split].
  - destruct Hieq as [Hfeq Hrows]. unfold xieq. rewrite Ec, Ec'. split; [exact Hfeq|].
    split; [exact S1|]. split; [exact S2|]. split; [exact S3|]. split; [intro H; congruence|]. intros _ E. apply Hrows. exact E.
  - rewrite Ev'. exact Hfit.
  - intro Hne. destruct (Hask Hne) as [Hsel [Hrow Hcur]]. split; [exact Hsel|]. split.
    + unfold xh. rewrite Hnf, Ec. exact Hrow.
    + rewrite Ev'. exact Hcur.
Qed.

(* ------------------------------------------------------------------------------------------ *)
(* Part 3: the generic steps over [xinterp]                                                    *)
(* ------------------------------------------------------------------------------------------ *)
Lemma xstep_fits d d' nd nd' kv i v' s :
  v_fits (xinterp d nd kv) s = true ->
  n_fits nd' s = true ->
  (forall q, In q (n_place nd' s) -> exists q0, In q0 (n_place nd s) /\ p_idx q0 = p_idx q /\ p_size q0 = p_size q) ->
  (forall q, In q (n_place nd s) -> p_idx q = i -> v_fits v' (p_size q) = true) ->
  0 <= i < zlen kv ->
  v_fits (xinterp d' nd' (set_nth_v kv i v')) s = true.
Proof.
  intros Hf Hn' Hpl Hk Hi. pose proof Hf as Hf0. cbn [xinterp v_fits] in Hf0. unfold xinterp_fits in Hf0.
  apply andb_true_iff in Hf0 as [Hf0 _]. apply andb_true_iff in Hf0 as [Hs0 _].
  destruct (xinterp_fits_inv d nd kv s Hf) as [_ [Hn Hkids]].
  cbn [xinterp v_fits]. unfold xinterp_fits. rewrite Hs0, Hn'. cbn [andb]. apply forallb_forall. intros q Hq.
  destruct (Hpl q Hq) as [q0 [Hq0 [Ei Es]]].
  destruct (Z.eq_dec (p_idx q) i) as [E|E].
  - rewrite E, nth_view_set_same by exact Hi. rewrite <- Es. apply Hk; [exact Hq0|qlia].
  - rewrite (nth_view_set_other_fits d d' kv i (p_idx q) v' E). rewrite <- Ei, <- Es. apply Hkids. exact Hq0.
Qed.

Lemma xstep_refits d d' nd nd' kv s :
  v_fits (xinterp d nd kv) s = true -> n_fits nd' s = true ->
  (forall q, In q (n_place nd' s) -> exists q0, In q0 (n_place nd s) /\ p_idx q0 = p_idx q /\ p_size q0 = p_size q) ->
  v_fits (xinterp d' nd' kv) s = true.
Proof.
  intros Hf Hn' Hpl. pose proof Hf as Hf0. cbn [xinterp v_fits] in Hf0. unfold xinterp_fits in Hf0.
  apply andb_true_iff in Hf0 as [Hf0 _]. apply andb_true_iff in Hf0 as [Hs0 _].
  destruct (xinterp_fits_inv d nd kv s Hf) as [_ [Hn Hkids]].
  cbn [xinterp v_fits]. unfold xinterp_fits. rewrite Hs0, Hn'. cbn [andb]. apply forallb_forall. intros q Hq.
  destruct (Hpl q Hq) as [q0 [Hq0 [Ei Es]]]. specialize (Hkids q0 Hq0). rewrite Ei, Es in Hkids.
  unfold nth_view in *. destruct (nthz kv (p_idx q)); [exact Hkids|discriminate Hkids].
Qed.

Lemma xstep_cursor d nd (kids : list kid) s i cs x r' row :
  XLocalCursor nd (map snd kids) ->
  n_fits nd s = true -> xsize_ok s ->
  (exists p, In p (n_place nd s) /\ p_isfocus p = true /\ p_idx p = i /\ p_size p = cs /\ p_y p = row - r') ->
  v_cursor (nth_view d (map fst kids) i) cs = CSome x r' ->
  i_sel (xc (nth_xinfo (map snd kids) i)) = true -> i_hascur (xc (nth_xinfo (map snd kids) i)) = true ->
  xsize_ok cs -> r' < xh (nth_xinfo (map snd kids) i) cs ->
  exists x', v_cursor (xinterp d nd (map fst kids)) s = CSome x' row.
Proof.
  intros LC Hn Hok [p [Hp [Hpf [Hpi [Hps Hpy]]]]] Hc Hsel Hhc Hcs Hr.
  destruct (LC s Hn Hok) as [p0 [Hp0 [Hp0f [Huniq Hplan]]]].
  assert (p = p0) by (apply Huniq; assumption). subst p0.
  cbn [xinterp interp v_cursor]. unfold interp_cursor. cbv zeta in Hplan. rewrite Hpi, Hps in Hplan.
  destruct (n_cursor nd s) as [|e|i0 cs0 dx dy clamp nr].
  - destruct Hplan as [H|[H|H]]; [congruence|congruence|contradiction].
  - contradiction.
  - destruct Hplan as [-> [-> [-> [-> [-> Hclamp]]]]]. rewrite Hc.
    destruct clamp as [m|].
    + assert (E : m <=? r' = false) by qlia. rewrite E. eexists. f_equal. qlia.
    + eexists. f_equal. qlia.
Qed.

Lemma xview_unsized' w :
  sized_tree w = false -> match w with Leaf _ => False | _ => True end ->
  xview w = (xinterp w (xnodeof w) (map fst (xkids w)), xselfof w).
Proof.
  intros H L. pose proof (xview_unsized w H) as E. destruct w; [contradiction|..];
    destruct E as [A B]; rewrite (surjective_pairing (xview _)); f_equal; assumption.
Qed.

(* what the move plan of a node says about its placement *)
Definition XMoveTarget (nd : node) (kx : list xinfo) : Prop :=
  forall s col row i cs c' r' nf, n_fits nd s = true -> xsize_ok s -> i_hasmove (n_info nd) = true ->
    n_move nd s col row = MPAsk i cs c' r' nf ->
    i_hasmove (xc (nth_xinfo kx i)) = true /\ 0 <= i < zlen kx /\
    (nf = None \/ (nf = Some i /\ i_sel (xc (nth_xinfo kx i)) = true)) /\
    exists p, In p (n_place nd s) /\ p_idx p = i /\ p_size p = cs /\ p_y p = row - r' /\
              (nf = None -> p_isfocus p = true) /\
              (forall q, In q (n_place nd s) -> p_idx q = i -> q = p).

(* hasattr(w, "move_cursor_to_coords") implies hasattr(w, "get_cursor_coords"), extended model *)
Lemma xhasmove_hascur : forall w, i_hasmove (v_info (fst (xview w))) = true -> i_hascur (v_info (fst (xview w))) = true.
Proof.
  induction w using widget_ind2;
    match goal with |- context [xview ?W] => destruct (sized_tree W) eqn:Hz;
      [destruct (xview_sized W Hz) as [-> _]; apply hasmove_hascur|rewrite xview_eq, Hz] end;
    cbn [xkids xnode_of]; try (cbn; intros; reflexivity).
  - unfold xleaf_view. destruct (0 <? lfw l); cbn; auto.
  - cbn [fst xinterp interp v_info n_info]. unfold xpile_node. cbn [n_info]. unfold xpile_cinfo.
    destruct (xpile_sizing _) as [[? ?] ?]. cbn. auto.
  - cbn [fst xinterp interp v_info n_info]. unfold xcolumns_node. cbn [n_info]. unfold xcolumns_cinfo.
    destruct (xcolumns_sizing _) as [[? ?] ?]. cbn. auto.
  - cbn. rewrite nth_xinfo_0. destruct (xall_all w) as [[Ok _] _]. unfold XOk in Ok. rewrite <- Ok. exact IHw.
Qed.

(* ------------------------------------------------------------------------------------------ *)
(* Part 4: decorations with one child                                                          *)
(* ------------------------------------------------------------------------------------------ *)
Section XSingle.
  Variable K : widget -> widget.
  Hypothesis K_nonleaf : forall c, match K c with Leaf _ => False | _ => True end.
  Hypothesis K_kids : forall c, xkids (K c) = [xview c].
  Hypothesis K_node : forall c c' ki, xnode_of (K c) ki = xnode_of (K c') ki.
  Hypothesis K_set : forall c i c', set_child (K c) i c' = K c'.
  Hypothesis K_sized : forall c, sized_tree (K c) = sized_tree c.
  Let N (c : widget) (xi : xinfo) : node := fst (xnode_of (K c) [xi]).
  Let S (c : widget) (xi : xinfo) : xinfo := snd (xnode_of (K c) [xi]).
  Hypothesis K_info : forall c xi, n_info (N c xi) = xc (S c xi).
  Hypothesis K_sel : forall c xi, i_sel (n_info (N c xi)) = i_sel (xc xi).
  Hypothesis K_target : forall c xi, XMoveTarget (N c xi) [xi].
  Hypothesis K_plan : forall c xi s col row,
    match n_move (N c xi) s col row with MPFocus _ => False | MPAsk _ _ _ _ nf => nf = None | _ => True end.
  Hypothesis K_cursor : forall c xi, XLocalCursor (N c xi) [xi].
  Hypothesis K_within : forall c xi, XLocalWithin (N c xi) (S c xi) [xi].
  Hypothesis K_cong : forall c xi xi' s cs,
    n_fits (N c xi) s = true -> xsize_ok s ->
    (forall p, In p (n_place (N c xi) s) -> p_size p = cs) -> xieq cs xi' xi ->
    n_place (N c xi') s = n_place (N c xi) s /\ n_fits (N c xi') s = n_fits (N c xi) s /\ xieq s (S c xi') (S c xi).

  Lemma K_xview c : sized_tree (K c) = false ->
    xview (K c) = (xinterp (K c) (N c (snd (xview c))) [fst (xview c)], S c (snd (xview c))).
  Proof.
    intro Hz. rewrite (xview_unsized' (K c) Hz (K_nonleaf c)). unfold xnodeof, xselfof, N, S. rewrite K_kids. reflexivity.
  Qed.

  Lemma xmove_ok_single c : XMoveOK c -> XMoveOK (K c).
  Proof.
    intro IH. destruct (sized_tree (K c)) eqn:Hz; [apply xmove_ok_sized; exact Hz|].
    intros s col row. rewrite (K_xview c Hz). cbn [fst snd].
    set (xi := snd (xview c)). set (v := fst (xview c)).
    destruct (xall_all c) as [[Ok [FO _]] _]. unfold XOk in Ok. fold v xi in Ok, FO.
    intros Hf Hm. cbn [xinterp interp v_move v_info] in *. unfold interp_move.
    destruct (xinterp_fits_inv _ _ _ _ Hf) as [Hsok [Hn Hkids]].
    pose proof (K_plan c xi s col row) as Hplan.
    destruct (n_move (N c xi) s col row) as [| |i|i cs c' r' nf] eqn:E; cbn [m_ok m_w m_asked]; cbv zeta.
    - intro H; discriminate H.
    - intros _. rewrite (K_xview c Hz). cbn [fst snd]. fold xi v.
      split; [reflexivity|]. split; [apply xieq_refl|]. split; [exact Hf|]. intro H; congruence.
    - contradiction.
    - subst nf.
      destruct (K_target c xi s col row i cs c' r' None Hn Hsok Hm E) as [Hcm [Hi [_ [p [Hp [Hpi [Hps [Hpy [Hpf Hfun]]]]]]]]].
      specialize (Hpf eq_refl).
      assert (Ei0 : i = 0) by (unfold zlen in Hi; cbn in Hi; qlia). rewrite Ei0 in *. clear Ei0 i.
      change (nth_view (K c) [v] 0) with v. rewrite nth_xinfo_0 in Hcm.
      assert (Hcf : v_fits v cs = true).
      { specialize (Hkids p Hp). rewrite Hpi, Hps in Hkids. exact Hkids. }
      rewrite <- Ok in Hcm. specialize (IH cs c' r' Hcf Hcm). cbv zeta in IH. fold v in IH.
      destruct (m_ok (v_move v cs c' r')) eqn:Eok; cbn [m_ok m_w m_asked]; [|intro H; discriminate H].
      intros _. rewrite K_set.
      destruct (IH eq_refl) as [Hz2 [Hieq [Hfit' Hasked]]]. clear IH.
      set (c2 := m_w (v_move v cs c' r')) in *. fold xi in Hieq, Hasked.
      assert (Hzk : sized_tree (K c2) = false) by (rewrite K_sized, Hz2, <- K_sized; exact Hz).
      rewrite (K_xview c2 Hzk). cbn [fst snd]. unfold N, S. rewrite (K_node c2 c). fold (N c (snd (xview c2))) (S c (snd (xview c2))). fold (N c xi) (S c xi).
      set (xi2 := snd (xview c2)) in *. set (v2 := fst (xview c2)) in *.
      assert (Hsizes : forall q, In q (n_place (N c xi) s) -> p_size q = cs).
      { intros q Hq. assert (Hq0 : p_idx q = 0).
        { specialize (Hkids q Hq). unfold nth_view in Hkids. destruct (Z.eq_dec (p_idx q) 0) as [->|Hne]; [reflexivity|].
          rewrite nthz_cons in Hkids. assert (E0 : p_idx q =? 0 = false) by qlia. rewrite E0 in Hkids.
          destruct (p_idx q <? 0); [discriminate Hkids|]. rewrite nthz_nil in Hkids. discriminate Hkids. }
        rewrite (Hfun q Hq Hq0). exact Hps. }
      destruct (K_cong c xi xi2 s cs Hn Hsok Hsizes Hieq) as [Epl [Efit Einfo]].
      split; [rewrite !K_sized; exact Hz2|]. split; [exact Einfo|]. split.
      + change [v2] with (set_nth_v [v] 0 v2).
        apply (xstep_fits (K c) (K c2) _ _ [v] 0 v2 s Hf).
        * rewrite Efit. exact Hn.
        * intros q Hq. rewrite Epl in Hq. exists q. auto.
        * intros q Hq Hqi. rewrite (Hfun q Hq Hqi), Hps. exact Hfit'.
        * unfold zlen. cbn. qlia.
      + intro Hne. destruct (Hasked Hne) as [Hsel [Hrow [x Hcur]]].
        rewrite K_sel. rewrite Ok in Hsel. split; [exact Hsel|].
        destruct (K_within c xi s p Hn Hsok Hp) as [_ [_ [Hy0 Hy1]]]; [rewrite Hps; apply FO; exact Hcf|].
        rewrite Hpi, Hps, nth_xinfo_0 in Hy1.
        split; [qlia|].
        destruct Hieq as [[Es [Ec [Em Eb]]] Erest].
        destruct (xall_all c2) as [[Ok2 _] _]. unfold XOk in Ok2. fold v2 xi2 in Ok2.
        apply (xstep_cursor (K c2) (N c xi2) [(v2, xi2)] s 0 cs x r' row).
        * cbn [map snd]. apply K_cursor.
        * rewrite Efit. exact Hn.
        * exact Hsok.
        * exists p. rewrite Epl. auto.
        * cbn [map fst]. change (nth_view (K c2) [v2] 0) with v2. exact Hcur.
        * cbn [map snd]. rewrite nth_xinfo_0, Es. exact Hsel.
        * cbn [map snd]. rewrite nth_xinfo_0. rewrite <- Ok2. apply xhasmove_hascur. fold v2. rewrite Ok2, Em, <- Ok. exact Hcm.
        * apply FO. exact Hcf.
        * cbn [map snd]. rewrite nth_xinfo_0.
          rewrite (xh_xieq cs xi2 xi); [apply Hrow|]. split; [repeat split; assumption|exact Erest].
  Qed.
End XSingle.

Lemma so_target nd kx :
  LocalMoveTarget nd (map xc kx) ->
  (forall s col row i cs c' r' nf, n_move nd s col row = MPAsk i cs c' r' nf -> 0 <= i < zlen kx) ->
  XMoveTarget (sized_only nd) kx.
Proof.
  intros L B s col row i cs c' r' nf Hf Hok Hm E. unfold sized_only in *. cbn [n_fits n_move n_info n_place] in *.
  apply andb_true_iff in Hf as [Hnf Hf]. apply negb_true_iff in Hnf.
  pose proof (not_fixed_pos s Hok Hnf) as Hpos.
  destruct (L s col row i cs c' r' nf Hf Hpos Hm E) as [H1 [H2 H3]]. rewrite nth_info_xc in *.
  split; [exact H1|]. split; [exact (B _ _ _ _ _ _ _ _ E)|]. split; [exact H2|exact H3].
Qed.

Lemma xieq_feq s a b : xieq s a b -> feq (xc a) (xc b).
Proof. intros [H _]. exact H. Qed.

(* ---- AttrMap ---- *)
Lemma xmove_ok_attrmap c : XMoveOK c -> XMoveOK (AttrMap c).
Proof.
  apply (xmove_ok_single (fun c => AttrMap c)); try reflexivity; try (intros; exact I).
  - (* target *)
    intros c0 xi s col row i cs c' r' nf _ _ Hm E. cbn in E, Hm. unfold attrmap_move in E. inversion E; subst.
    rewrite nth_xinfo_0 in *. split; [exact Hm|]. split; [unfold zlen; cbn; qlia|]. split; [left; reflexivity|].
    exists (Placed 0 0 0 cs true false). cbn. repeat split; auto; try qlia. intros q [<-|[]] _. reflexivity.
  - intros c0 xi. apply (xattrmap_cursor [xi]).
  - intros c0 xi. apply (xattrmap_within [xi]).
  - intros c0 xi xi' s cs _ _ Hs Hieq. cbn [xnode_of fst snd node_of n_place n_fits]. rewrite !nth_xinfo_0.
    split; [reflexivity|]. split; [reflexivity|].
    rewrite <- (Hs (Placed 0 0 0 s true false)) in Hieq; [exact Hieq|]. cbn. left. reflexivity.
Qed.

(* ---- BoxAdapter ---- *)
Lemma boxadapter_keeps h ki : KeepsKind (sized_only (node_of (BoxAdapter (Leaf (LeafD 0 false 0 0 false false None [] 0 0)) h) ki))
                                        (node_of (BoxAdapter (Leaf (LeafD 0 false 0 0 false false None [] 0 0)) h) ki).
Proof.
  apply keeps_same_width. intros s p Hp. cbn [node_of n_place] in Hp. unfold boxadapter_place in Hp.
  destruct (snd s); [contradiction|]. destruct Hp as [<-|[]]. reflexivity.
Qed.

Lemma xmove_ok_boxadapter c h : XMoveOK c -> XMoveOK (BoxAdapter c h).
Proof.
  apply (xmove_ok_single (fun c => BoxAdapter c h)); try reflexivity; try (intros; exact I).
  - intros c0 xi. cbn [xnode_of fst map]. apply (so_target (node_of (BoxAdapter c0 h) [xc xi]) [xi]).
    + apply (boxadapter_target (map xc [xi]) h).
    + intros s col row i cs c' r' nf E. cbn [node_of n_move] in E. unfold boxadapter_move in E.
      destruct (snd s); [discriminate|]. destruct (negb _); [discriminate|]. inversion E; subst. unfold zlen; cbn; qlia.
  - intros c0 xi s col row. cbn [xnode_of fst map sized_only n_move node_of]. unfold boxadapter_move.
    destruct (snd s); [exact I|]. destruct (negb _); [exact I|reflexivity].
  - intros c0 xi. cbn [xnode_of fst map]. apply (so_cursor _ true); [apply (boxadapter_keeps h)|apply boxadapter_cursor_ok].
  - intros c0 xi.
    change (XLocalWithin (sized_only (node_of (BoxAdapter c0 h) (map xc [xi]))) (sized_xinfo (n_info (node_of (BoxAdapter c0 h) (map xc [xi]))) true) [xi]).
    apply (so_within _ true); [apply (boxadapter_keeps h)|apply boxadapter_within].
  - intros c0 xi xi' s cs _ _ Hs Hieq. cbn [xnode_of fst snd map sized_only n_place n_fits node_of n_info].
    split; [reflexivity|]. split; [reflexivity|].
    rewrite !nth_info_0. destruct Hieq as [[Es _] _]. unfold xieq, sized_xinfo, boxadapter_info. cbn [xc x_flow x_fixed x_pack fst snd i_rows].
    split; [repeat split; cbn; auto|]. repeat split; auto.
Qed.

(* ---- Filler ---- *)
Definition leaf0 : widget := Leaf (LeafD 0 false 0 0 false false None [] 0 0).
Lemma filler_keeps a b c0 d e f g ki :
  KeepsKind (sized_only (node_of (Filler leaf0 a b c0 d e f g) ki)) (node_of (Filler leaf0 a b c0 d e f g) ki).
Proof.
  apply keeps_same_width. intros s p Hp. cbn [node_of n_place] in Hp. unfold filler_place in Hp.
  destruct (filler_values _ _ s) as [t bt]. destruct Hp as [<-|[]]. cbn [p_size]. unfold filler_csize.
  destruct (filler_values _ _ s). destruct (is_pack _); reflexivity.
Qed.

Lemma xmove_ok_filler c a b c0 d e f g : XMoveOK c -> XMoveOK (Filler c a b c0 d e f g).
Proof.
  apply (xmove_ok_single (fun c => Filler c a b c0 d e f g)); try reflexivity; try (intros; exact I).
  - intros c1 xi. cbn [xnode_of fst map]. apply (so_target (node_of (Filler c1 a b c0 d e f g) [xc xi]) [xi]).
    + apply (filler_target (map xc [xi])).
    + intros s col row i cs c' r' nf E. cbn [node_of n_move] in E. unfold filler_move in E.
      destruct (negb _); [discriminate|]. destruct (filler_values _ _ _). destruct (_ || _); [discriminate|].
      inversion E; subst. unfold zlen; cbn; qlia.
  - intros c1 xi s col row. cbn [xnode_of fst map sized_only n_move node_of]. unfold filler_move.
    destruct (negb _); [exact I|]. destruct (filler_values _ _ _). destruct (_ || _); [exact I|reflexivity].
  - intros c1 xi. cbn [xnode_of fst map]. apply (so_cursor _ true); [apply filler_keeps|apply filler_cursor_ok].
  - intros c1 xi.
    change (XLocalWithin (sized_only (node_of (Filler c1 a b c0 d e f g) (map xc [xi])))
                         (sized_xinfo (n_info (node_of (Filler c1 a b c0 d e f g) (map xc [xi]))) (is_pack c0 || is_given c0)) [xi]).
    apply (so_within _ _); [apply filler_keeps|apply filler_within].
  - intros c1 xi xi' s cs Hfit Hok Hs Hieq. cbn [xnode_of fst snd map sized_only n_place n_fits node_of n_info] in *.
    rewrite !nth_info_0 in *. set (o := FillOpts a b c0 d e f g) in *.
    set (ci := xc xi) in *. set (ci' := xc xi') in *.
    apply andb_true_iff in Hfit as [Hnf _]. apply negb_true_iff in Hnf.
    destruct Hieq as [[Es [Ec [Em Eb]]] [Efl [Efx [Epw [Eph Er]]]]]. fold ci ci' in Es, Ec, Em, Eb, Er.
    assert (Erows : is_pack (fi_ht o) = true -> i_rows ci' (fst s) = i_rows ci (fst s)).
    { intro Ep. unfold filler_place in Hs. destruct (filler_values o ci s) as [t bt] eqn:Ev.
      specialize (Hs _ (or_introl eq_refl)). cbn [p_size] in Hs. unfold filler_csize in Hs. rewrite Ev, Ep in Hs.
      subst cs. apply Er; [|reflexivity]. unfold is_fixed in *. cbn [fst]. exact Hnf. }
    assert (Efr : filler_rows o ci' (fst s) = filler_rows o ci (fst s)).
    { unfold filler_rows. destruct (is_pack (fi_ht o)) eqn:Ep; [rewrite Erows; reflexivity|reflexivity]. }
    assert (Emr : filler_maxrow o ci' s = filler_maxrow o ci s).
    { unfold filler_maxrow. destruct (snd s); [reflexivity|exact Efr]. }
    assert (Efv : filler_values o ci' s = filler_values o ci s).
    { unfold filler_values. rewrite Emr. destruct (is_pack (fi_ht o)) eqn:Ep; [rewrite Erows; reflexivity|reflexivity]. }
    assert (Ecs : filler_csize o ci' s = filler_csize o ci s).
    { unfold filler_csize. rewrite Efv, Emr. reflexivity. }
    split; [unfold filler_place; rewrite Efv, Ecs; reflexivity|]. split.
    + f_equal. unfold filler_fits. rewrite Efv, Emr. destruct (is_pack (fi_ht o)) eqn:Ep; [rewrite Erows; reflexivity|reflexivity].
    + unfold xieq, sized_xinfo, filler_info. cbn [xc x_flow x_fixed x_pack fst snd i_rows].
      split; [repeat split; cbn; auto|]. repeat split; auto.
Qed.

(* ---- Padding (also rendered fixed around a fixed widget) ---- *)
Lemma xpadding_target o xi : XMoveTarget (xpadding_node o xi) [xi].
Proof.
  intros s col row i cs c' r' nf Hf Hok Hm E. destruct (is_fixed s) eqn:Efx.
  - destruct (xpadding_fixed_inv [xi] o s Efx Hf) as [Ev [Hl [Hr [Ecs _]]]]. rewrite nth_xinfo_0 in Ev.
    unfold xpadding_node in *. cbn [n_move n_place n_info] in *. rewrite Efx in *. rewrite Ev in *.
    destruct (i_hasmove (xc xi)) eqn:Eh; cbn [negb] in E; [|discriminate]. inversion E; subst.
    rewrite nth_xinfo_0. split; [exact Eh|]. split; [unfold zlen; cbn; qlia|]. split; [left; reflexivity|].
    exists (Placed 0 (pa_left o) 0 (xpadding_csize_fixed o) true false). cbn [p_idx p_size p_y p_isfocus].
    split; [left; reflexivity|]. repeat split; auto; try qlia. intros q [<-|[]] _. reflexivity.
  - pose proof (not_fixed_pos s Hok Efx) as Hpos.
    unfold xpadding_node in *. cbn [n_move n_place n_info n_fits] in *. rewrite Efx in *.
    apply andb_true_iff in Hf as [Hf _].
    destruct (padding_target [xc xi] o s col row i cs c' r' nf Hf Hpos Hm E) as [H1 [H2 H3]].
    assert (Ei : i = 0 /\ nf = None).
    { unfold padding_move in E. destruct (negb _); [discriminate|].
      destruct (padding_values o (fst s)). inversion E; subst. auto. }
    destruct Ei as [-> ->]. rewrite nth_info_0 in H1. rewrite nth_xinfo_0.
    split; [exact H1|]. split; [unfold zlen; cbn; qlia|]. split; [left; reflexivity|exact H3].
Qed.

Lemma xmove_ok_padding c a b c0 d e f g : XMoveOK c -> XMoveOK (Padding c a b c0 d e f g).
Proof.
  apply (xmove_ok_single (fun c => Padding c a b c0 d e f g)); try reflexivity; try (intros; exact I).
  - intros c1 xi. apply xpadding_target.
  - intros c1 xi s col row. cbn [xnode_of fst]. rewrite nth_xinfo_0. unfold xpadding_node. cbn [n_move].
    destruct (is_fixed s).
    + destruct (negb _); [exact I|]. destruct (xpadding_values_fixed _ _). reflexivity.
    + unfold padding_move. destruct (negb _); [exact I|]. destruct (padding_values _ _). reflexivity.
  - intros c1 xi. apply (xpadding_cursor [xi]).
  - intros c1 xi. apply (xpadding_within [xi]).
  - intros c1 xi xi' s cs Hfit Hok Hs Hieq. cbn [xnode_of fst snd] in *. rewrite !nth_xinfo_0 in *.
    set (o := PadOpts a b c0 d e f g) in *.
    destruct Hieq as [[Es [Ec [Em Eb]]] [Efl [Efx [Epw [Eph Er]]]]].
    destruct (is_fixed s) eqn:Efs.
    + destruct (xpadding_fixed_inv [xi] o s Efs Hfit) as [Ev [Hl [Hr [Ecs [Hxf [Epk1 Epk2]]]]]]. rewrite nth_xinfo_0 in *.
      assert (Ev' : xpadding_values_fixed o xi' = xpadding_values_fixed o xi).
      { unfold xpadding_values_fixed. rewrite Epw. reflexivity. }
      assert (Ecs0 : cs = fixed_size).
      { unfold xpadding_node in Hs. cbn [n_place] in Hs. rewrite Efs, Ev in Hs.
        rewrite <- (Hs _ (or_introl eq_refl)). cbn [p_size]. exact Ecs. }
      subst cs. specialize (Eph is_fixed_fixed).
      unfold xpadding_node in *. cbn [n_place n_fits] in *. rewrite Efs in *. rewrite Ev', Efx, Epw.
      split; [reflexivity|]. split; [reflexivity|].
      assert (Eg : is_given (pa_wt o) = false).
      { rewrite Ev in Hfit. destruct (pa_wt o); cbn in *; try reflexivity.
        repeat (apply andb_true_iff in Hfit as [Hfit ?]); discriminate. }
      unfold xieq, xpadding_info, xpadding_pack, padding_info. cbn [xc x_flow x_fixed x_pack i_sel i_hascur i_hasmove i_box i_rows].
      rewrite Eg, Efl, Efx, Epw, Eph, Efs. cbn [fst snd].
      split; [repeat split; auto|]. repeat split; auto. intro H; discriminate H.
    + unfold xpadding_node in *. cbn [n_place n_fits] in *. rewrite Efs in *.
      split; [reflexivity|]. split; [reflexivity|].
      unfold xieq, xpadding_info, xpadding_pack, padding_info. cbn [xc x_flow x_fixed x_pack i_sel i_hascur i_hasmove i_box i_rows].
      rewrite Efl, Efx, Epw, Efs.
      split; [repeat split; auto|]. split; [reflexivity|]. split; [reflexivity|].
      split; [destruct (is_given (pa_wt o)); reflexivity|]. split; [intro H; discriminate H|].
      intros _ Esn. unfold padding_place in Hs. apply andb_true_iff in Hfit as [_ Hnn].
      destruct (padding_values o (fst s)) as [l r]. specialize (Hs _ (or_introl eq_refl)). cbn [p_size] in Hs. subst cs.
      cbn [fst snd] in Er. replace (fst s - l - r) with (fst s - (l + r)) by qlia. apply Er; [|exact Esn].
      unfold is_fixed. cbn [fst]. qlia.
Qed.

(* ------------------------------------------------------------------------------------------ *)
(* Part 5: Pile                                                                                *)
(* ------------------------------------------------------------------------------------------ *)
(* the size class an item of a Pile is rendered with (the number of rows of a box size does not matter here) *)
Definition xitem_cs (mw : Z) (s : size) (o : popt) (xi : xinfo) : size :=
  if is_fixed s then (if x_flow xi then (mw, None) else fixed_size)
  else match o with
       | PGiven n => (fst s, Some n)
       | PPack => xitem_size o xi (fst s)
       | PWeight _ => match snd s with None => xitem_size o xi (fst s) | Some _ => (fst s, Some 0) end
       end.
Definition xprel (mw : Z) (s : size) (x y : popt * xinfo) : Prop :=
  fst x = fst y /\ xieq (xitem_cs mw s (fst y) (snd y)) (snd x) (snd y).

Lemma xprel_refl mw s x : xprel mw s x x.
Proof. split; [reflexivity|apply xieq_refl]. Qed.

Lemma xieq_stat s a b : xieq s a b -> xstat a b.
Proof. intros [[_ [_ [_ Hb]]] [Hf [Hx [Hp _]]]]. repeat split; assumption. Qed.

Lemma xprel_stat mw s a b : Forall2 (xprel mw s) a b -> Forall2 prel_stat a b.
Proof. intro H. induction H as [|x y l l' [H1 H2] _ IH]; constructor; auto. split; [exact H1|]. eapply xieq_stat; eauto. Qed.

Lemma xpile_fixed_supported_stat a b : Forall2 prel_stat a b -> xpile_fixed_supported a = xpile_fixed_supported b.
Proof.
  intro H. unfold xpile_fixed_supported. f_equal.
  - induction H as [|[o xi] [o' xi'] l l' [Ho [Hf [Hx _]]] _ IH]; [reflexivity|].
    cbn [forallb fst snd] in *. subst o'. rewrite Hf, Hx, IH. reflexivity.
  - induction H as [|[o xi] [o' xi'] l l' [Ho [Hf [Hx _]]] _ IH]; [reflexivity|].
    cbn [existsb fst snd] in *. rewrite Hx, IH. reflexivity.
Qed.

Lemma not_fixed_nonneg c r : 0 <= c -> is_fixed (c, r) = false.
Proof. intro H. unfold is_fixed. cbn [fst]. qlia. Qed.

Lemma xieq_rows c a b : 0 <= c -> xieq (c, None) a b -> i_rows (xc a) c = i_rows (xc b) c.
Proof. intros Hc [_ [_ [_ [_ [_ Hr]]]]]. apply (Hr (not_fixed_nonneg _ _ Hc) eq_refl). Qed.
Lemma xieq_pack a b : xieq fixed_size a b -> snd (x_pack a) = snd (x_pack b).
Proof. intros [_ [_ [_ [_ [Hp _]]]]]. apply (Hp is_fixed_fixed). Qed.
Lemma xieq_flags s a b : xieq s a b -> x_flow a = x_flow b /\ x_fixed a = x_fixed b.
Proof. intros [_ [H1 [H2 _]]]. auto. Qed.

Lemma xpile_pass1_cong mw s a b :
  is_fixed s = false -> 0 <= fst s -> Forall2 (xprel mw s) a b -> xpile_pass1 a (fst s) = xpile_pass1 b (fst s).
Proof.
  intros Efx Hc H. induction H as [|[o xi] [o' xi'] l l' [Ho Hx] _ IH]; [reflexivity|].
  cbn [xpile_pass1 fst snd] in *. subst o'. rewrite IH. destruct (xpile_pass1 l' (fst s)) as [[l0 used] wt].
  destruct o; try reflexivity.
  unfold xitem_cs in Hx. rewrite Efx in Hx. unfold xitem_size in Hx. cbn [is_ppack] in Hx. rewrite andb_true_r in Hx.
  destruct (xieq_flags _ _ _ Hx) as [Hfl Hfx]. rewrite Hfl, Hfx.
  destruct (x_flow xi') eqn:E1; cbn [negb andb].
  - rewrite (xieq_rows _ _ _ Hc Hx). reflexivity.
  - destruct (x_fixed xi') eqn:E2.
    + rewrite (xieq_pack _ _ Hx). reflexivity.
    + rewrite (xieq_rows _ _ _ Hc Hx). reflexivity.
Qed.

Lemma xpile_pass2_cong mw s a b l rem wt : Forall2 (xprel mw s) a b -> xpile_pass2 a l rem wt = xpile_pass2 b l rem wt.
Proof.
  intro H. revert l rem wt. induction H as [|[o xi] [o' xi'] la lb [Ho _] _ IH]; intros l rem wt; [reflexivity|].
  cbn [xpile_pass2 fst] in *. subst o'. destruct l as [|x l]; [reflexivity|]. destruct x; rewrite IH; reflexivity.
Qed.

Lemma xitem_cong (s : size) o xi xi' :
  0 <= fst s ->
  xieq (xitem_size o xi (fst s)) xi' xi ->
  xitem_height o xi' (fst s) = xitem_height o xi (fst s) /\ xitem_size o xi' (fst s) = xitem_size o xi (fst s).
Proof.
  intros Hc Hx. unfold xitem_height, xitem_size in *. destruct (xieq_flags _ _ _ Hx) as [Hfl Hfx]. rewrite Hfl, Hfx.
  destruct (x_flow xi) eqn:E1.
  - rewrite (xieq_rows _ _ _ Hc Hx). auto.
  - destruct (x_fixed xi && is_ppack o) eqn:E2.
    + rewrite (xieq_pack _ _ Hx). auto.
    + rewrite (xieq_rows _ _ _ Hc Hx). auto.
Qed.

Lemma xpile_item_rows_cong mw s a b :
  is_fixed s = false -> 0 <= fst s -> Forall2 (xprel mw s) a b -> xpile_item_rows a s = xpile_item_rows b s.
Proof.
  intros Efx Hc H. unfold xpile_item_rows. destruct (snd s) eqn:Es.
  - rewrite (xpile_pass1_cong mw s a b Efx Hc H). destruct (xpile_pass1 b (fst s)) as [[l used] wt].
    apply (xpile_pass2_cong mw s). exact H.
  - induction H as [|[o xi] [o' xi'] la lb [Ho Hx] _ IH]; [reflexivity|].
    cbn [map fst snd] in *. subst o'. rewrite IH. f_equal. unfold xitem_cs in Hx. rewrite Efx, Es in Hx.
    destruct o; [|reflexivity|]; apply (xitem_cong s _ _ _ Hc Hx).
Qed.

Lemma xpile_rows_sizes_cong mw s a b :
  Forall2 (xprel mw s) a b -> mw = xpile_max_width b ->
  (is_fixed s = false -> 0 <= fst s) -> (is_fixed s = true -> 0 <= mw) ->
  xpile_rows_sizes a s = xpile_rows_sizes b s.
Proof.
  intros H Emw Hs Hm. pose proof (xprel_stat _ _ _ _ H) as Hst. unfold xpile_rows_sizes.
  rewrite (xpile_fixed_supported_stat _ _ Hst), (xpile_max_width_stat _ _ Hst), <- Emw. clear Emw.
  generalize (xpile_fixed_supported b). intro sup.
  destruct (is_fixed s) eqn:Efx.
  - destruct sup; [|reflexivity]. specialize (Hm eq_refl).
    induction H as [|[o xi] [o' xi'] la lb [Ho Hx] _ IH]; [reflexivity|].
    cbn [map fst snd] in *. inversion Hst; subst. rewrite (IH H4). f_equal.
    unfold xitem_cs in Hx. rewrite Efx in Hx. destruct (xieq_flags _ _ _ Hx) as [Hfl Hfx]. rewrite Hfl.
    destruct (x_flow xi').
    + rewrite (xieq_rows _ _ _ Hm Hx). reflexivity.
    + rewrite (xieq_pack _ _ Hx). reflexivity.
  - specialize (Hs eq_refl). rewrite (xpile_item_rows_cong mw s a b Efx Hs H).
    generalize (xpile_item_rows b s). intro irs. revert irs.
    induction H as [|[o xi] [o' xi'] la lb [Ho Hx] _ IH]; intros irs; [reflexivity|].
    destruct irs as [|ir irs]; [reflexivity|]. cbn [combine map fst snd] in *. inversion Hst; subst.
    rewrite (IH H4). f_equal. unfold xitem_cs in Hx. rewrite Efx in Hx.
    destruct o'.
    + destruct (xitem_cong s _ _ _ Hs Hx) as [-> ->]. reflexivity.
    + reflexivity.
    + destruct (snd s); [reflexivity|]. destruct (xitem_cong s _ _ _ Hs Hx) as [-> ->]. reflexivity.
Qed.

Section XPileTarget.
  Variable its : xp_items.
  Variable fp : Z.
  Let nx := xpile_node its fp.

  Lemma xpile_find_placed s row i wrow cs :
    xpile_fits its fp s = true -> xsize_ok s -> pile_find (xpile_rows_sizes its s) 0 0 row = Some (i, wrow, cs) ->
    0 <= i < zlen its /\ 0 <= wrow /\
    forall fp', In (Placed i 0 wrow cs (fp' =? i) false) (pile_place_from (xpile_rows_sizes its s) 0 0 fp') /\
                (forall q, In q (pile_place_from (xpile_rows_sizes its s) 0 0 fp') -> p_idx q = i -> q = Placed i 0 wrow cs (fp' =? i) false).
  Proof.
    intros Hf Hok Hfind. destruct (xpile_fits_inv its fp [] s Hf Hok) as [Hfp [Hlen [Hall Htot]]].
    destruct (pile_find_inv _ _ _ _ _ _ _ Hfind) as [pre [x [post [E [Hi [Hw [Hc Hlt]]]]]]].
    pose proof Hall as Hall'. rewrite E in Hall'. apply Forall_app in Hall' as [Hpre Hrest].
    pose proof (Forall_inv Hrest) as Hx. cbn beta in Hx. pose proof (zsum_nonneg pre Hpre) as Hz.
    rewrite E, zlen_app, zlen_cons in Hlen. pose proof (zlen_nonneg pre). pose proof (zlen_nonneg post).
    split; [qlia|]. split; [qlia|]. intro fp'. rewrite E. split.
    - pose proof (pile_place_from_in fp' pre x post 0 0 Hpre) as G.
      replace (0 + zlen pre) with i in G by qlia. replace (0 + zsum (map fst pre)) with wrow in G by qlia.
      rewrite Hc. apply G. qlia.
    - intros q Hq Hqi. rewrite <- E in Hq.
      destruct (pile_place_from_inv fp' _ 0 0 q Hall Hq) as [pre2 [x2 [post2 [E2 ->]]]].
      cbn [p_idx] in Hqi. rewrite E in E2.
      destruct (app_mid_eq pre pre2 x x2 post post2 E2) as [<- [<- <-]].
      { unfold zlen in *. qlia. }
      rewrite Hc. f_equal; qlia.
  Qed.

  Lemma xpile_target : XMoveTarget nx (map snd its).
  Proof.
    unfold nx. intros s col row i cs c' r' nf Hf Hok _ E. cbn [n_fits n_move n_place] in *. unfold xpile_move in E.
    destruct (pile_find (xpile_rows_sizes its s) 0 0 row) as [[[i0 wrow] cs0]|] eqn:Efind; [|discriminate].
    destruct (i_sel (xc (nth_xinfo (map snd its) i0))) eqn:Es; cbn [negb] in E; [|discriminate].
    destruct (i_hasmove (xc (nth_xinfo (map snd its) i0))) eqn:Eh; [|discriminate].
    inversion E; subst. split; [exact Eh|].
    destruct (xpile_find_placed s row i wrow cs Hf Hok Efind) as [Hi [Hw Hpl]]. destruct (Hpl fp) as [Hin Hfun].
    split; [rewrite zlen_map; exact Hi|]. split; [right; auto|].
    exists (Placed i 0 wrow cs (fp =? i) false). cbn [p_idx p_size p_y p_isfocus].
    repeat split; auto; try qlia. intro H; discriminate H.
  Qed.

  Lemma xpile_fits_refocus s i : xpile_fits its fp s = true -> 0 <= i < zlen its -> xpile_fits its i s = true.
  Proof.
    unfold xpile_fits. intros H Hi.
    apply andb_true_iff in H as [H H7]. apply andb_true_iff in H as [H H6]. apply andb_true_iff in H as [H H5].
    apply andb_true_iff in H as [H H4]. apply andb_true_iff in H as [H H3]. apply andb_true_iff in H as [H1 H2].
    rewrite H1, H4, H5, H6, H7. cbn [andb]. qlia.
  Qed.

  Lemma xpile_place_refocus s i q :
    xpile_fits its fp s = true -> xsize_ok s -> In q (pile_place_from (xpile_rows_sizes its s) 0 0 i) ->
    exists q0, In q0 (pile_place_from (xpile_rows_sizes its s) 0 0 fp) /\ p_idx q0 = p_idx q /\ p_size q0 = p_size q.
  Proof.
    intros Hf Hok Hq. destruct (xpile_fits_inv its fp [] s Hf Hok) as [_ [_ [Hall _]]].
    destruct (pile_place_from_inv i _ 0 0 q Hall Hq) as [pre [x [post [E ->]]]].
    rewrite E in Hall. apply Forall_app in Hall as [Hpre Hrest]. pose proof (Forall_inv Hrest) as Hx. cbn beta in Hx.
    exists (Placed (0 + zlen pre) 0 (0 + zsum (map fst pre)) (snd x) (fp =? 0 + zlen pre) false).
    split; [|split; reflexivity]. rewrite E. apply pile_place_from_in; [exact Hpre|qlia].
  Qed.
End XPileTarget.
