(* C09, extended model: after a successful move_cursor_to_coords the cursor is on the requested row - for trees with
   fixed-size parts and for size ().  Part 1: what a move leaves unchanged (the shape of the tree, hence sizing() and
   the packed width of every widget). *)
From Coq Require Import ZArith List Bool Lia ZifyBool.
Import ListNotations.
From Urwid Require Import PyBase geo_padfill_gen Geometry GeometryX GeometryFacts GeometryProofs GeometryMoveProofs
  GeometryMoveFull GeometryXProofs.
Open Scope Z_scope.

Arguments Z.add : simpl never. Arguments Z.sub : simpl never. Arguments Z.mul : simpl never.
Arguments Z.div : simpl never. Arguments Z.modulo : simpl never. Arguments Z.ltb : simpl never.
Arguments Z.leb : simpl never. Arguments Z.eqb : simpl never. Arguments Z.min : simpl never.
Arguments Z.max : simpl never. Arguments Z.quot : simpl never.

(* everything of a leaf but its cursor *)
Definition leaf_static (l : leafd) := (lid l, lbox l, lh l, lwrap l, lsel l, lapi l, lrej l, lminw l, lfw l).

(* the same tree up to focus positions (Pile, Columns, Frame) and leaf cursors *)
Fixpoint same_shape (w w' : widget) {struct w} : Prop :=
  match w, w' with
  | Leaf l, Leaf l' => leaf_static l = leaf_static l'
  | Pile items _, Pile items' _ =>
      (fix go (l : list (popt * widget)) (l' : list (popt * widget)) : Prop :=
         match l, l' with
         | [], [] => True
         | it :: r, it' :: r' => fst it = fst it' /\ same_shape (snd it) (snd it') /\ go r r'
         | _, _ => False
         end) items items'
  | Columns items _ dc mw, Columns items' _ dc' mw' =>
      dc = dc' /\ mw = mw' /\
      (fix go (l : list (copt * bool * widget)) (l' : list (copt * bool * widget)) : Prop :=
         match l, l' with
         | [], [] => True
         | it :: r, it' :: r' => fst it = fst it' /\ same_shape (snd it) (snd it') /\ go r r'
         | _, _ => False
         end) items items'
  | Padding c a1 a2 a3 a4 a5 a6 a7, Padding c' b1 b2 b3 b4 b5 b6 b7 =>
      (a1, a2, a3, a4, a5, a6, a7) = (b1, b2, b3, b4, b5, b6, b7) /\ same_shape c c'
  | Filler c a1 a2 a3 a4 a5 a6 a7, Filler c' b1 b2 b3 b4 b5 b6 b7 =>
      (a1, a2, a3, a4, a5, a6, a7) = (b1, b2, b3, b4, b5, b6, b7) /\ same_shape c c'
  | Frame b h f _, Frame b' h' f' _ =>
      same_shape b b'
      /\ match h, h' with Some x, Some x' => same_shape x x' | None, None => True | _, _ => False end
      /\ match f, f' with Some x, Some x' => same_shape x x' | None, None => True | _, _ => False end
  | BoxAdapter c h, BoxAdapter c' h' => h = h' /\ same_shape c c'
  | AttrMap c, AttrMap c' => same_shape c c'
  | Overlay t b a1 a2 a3 a4 a5 a6 a7 a8 a9 a10 a11 a12 a13 a14, Overlay t' b' b1 b2 b3 b4 b5 b6 b7 b8 b9 b10 b11 b12 b13 b14 =>
      (a1, a2, a3, a4, a5, a6, a7, a8, a9, a10, a11, a12, a13, a14) = (b1, b2, b3, b4, b5, b6, b7, b8, b9, b10, b11, b12, b13, b14)
      /\ same_shape t t' /\ same_shape b b'
  | _, _ => False
  end.

(* the list part, as a relation *)
Definition items_same {A} (l l' : list (A * widget)) : Prop :=
  Forall2 (fun it it' => fst it = fst it' /\ same_shape (snd it) (snd it')) l l'.

Lemma pile_go_iff (l l' : list (popt * widget)) :
  (fix go (l : list (popt * widget)) (l' : list (popt * widget)) : Prop :=
     match l, l' with
     | [], [] => True
     | it :: r, it' :: r' => fst it = fst it' /\ same_shape (snd it) (snd it') /\ go r r'
     | _, _ => False
     end) l l' <-> items_same l l'.
Proof.
  revert l'. induction l as [|it r IH]; intros [|it' r']; split; intro H; try (now inversion H).
  - constructor.
  - destruct H as [H1 [H2 H3]]. constructor; [split; assumption|apply IH; exact H3].
  - inversion H; subst. destruct H3 as [H1 H2]. split; [exact H1|]. split; [exact H2|]. apply IH. exact H5.
Qed.
Lemma cols_go_iff (l l' : list (copt * bool * widget)) :
  (fix go (l : list (copt * bool * widget)) (l' : list (copt * bool * widget)) : Prop :=
     match l, l' with
     | [], [] => True
     | it :: r, it' :: r' => fst it = fst it' /\ same_shape (snd it) (snd it') /\ go r r'
     | _, _ => False
     end) l l' <-> items_same l l'.
Proof.
  revert l'. induction l as [|it r IH]; intros [|it' r']; split; intro H; try (now inversion H).
  - constructor.
  - destruct H as [H1 [H2 H3]]. constructor; [split; assumption|apply IH; exact H3].
  - inversion H; subst. destruct H3 as [H1 H2]. split; [exact H1|]. split; [exact H2|]. apply IH. exact H5.
Qed.

Lemma same_pile items fp items' fp' : same_shape (Pile items fp) (Pile items' fp') <-> items_same items items'.
Proof. cbn [same_shape]. apply pile_go_iff. Qed.
Lemma same_cols items fp dc mw items' fp' dc' mw' :
  same_shape (Columns items fp dc mw) (Columns items' fp' dc' mw') <-> dc = dc' /\ mw = mw' /\ items_same items items'.
Proof. cbn [same_shape]. rewrite cols_go_iff. reflexivity. Qed.

Lemma same_shape_refl : forall w, same_shape w w.
Proof.
  induction w using widget_ind2.
  - reflexivity.
  - apply same_pile. induction H; constructor; auto.
  - apply same_cols. split; [reflexivity|]. split; [reflexivity|]. induction H; constructor; auto.
  - split; [reflexivity|assumption].
  - split; [reflexivity|assumption].
  - cbn [same_shape]. split; [assumption|]. split; [destruct hdr; [apply H; reflexivity|exact I]|destruct ftr; [apply H0; reflexivity|exact I]].
  - split; [reflexivity|assumption].
  - assumption.
  - split; [reflexivity|]. split; assumption.
Qed.

Lemma items_same_refl {A} (l : list (A * widget)) : items_same l l.
Proof. induction l; constructor; auto. split; [reflexivity|apply same_shape_refl]. Qed.

Lemma items_same_set {A} (items : list (A * widget)) i c :
  (forall o c0, nthz items i = Some (o, c0) -> same_shape c0 c) -> items_same items (set_nth_w items i c).
Proof.
  revert i. induction items as [|[a w] items IH]; intros i H; [constructor|]. cbn [set_nth_w].
  destruct (i =? 0) eqn:E.
  - constructor; [|apply items_same_refl]. split; [reflexivity|]. cbn [snd]. apply (H a w). rewrite nthz_cons, E. reflexivity.
  - constructor; [split; [reflexivity|apply same_shape_refl]|]. apply IH. intros o c0 Hn. apply (H o c0).
    rewrite nthz_cons, E. destruct (i <? 0) eqn:E2; [|exact Hn].
    unfold nthz in Hn. assert (E3 : i - 1 <? 0 = true) by lia. rewrite E3 in Hn. discriminate Hn.
Qed.

Lemma forall_nth {A} (P : widget -> Prop) (items : list (A * widget)) i a c :
  Forall (fun it => P (snd it)) items -> nthz items i = Some (a, c) -> P c.
Proof. intros H Hn. rewrite Forall_forall in H. apply (H (a, c)). eapply nthz_In; eauto. Qed.

Lemma nth_view_single_ok d v i cs c r : m_ok (v_move (nth_view d [v] i) cs c r) = true -> nth_view d [v] i = v.
Proof.
  unfold nth_view. rewrite nthz_cons. destruct (i =? 0); [reflexivity|].
  destruct (i <? 0); [intro H; discriminate H|]. rewrite nthz_nil. intro H; discriminate H.
Qed.

(* move_cursor_to_coords of the proved model changes focus positions and leaf cursors only *)
Lemma move_same_shape : forall w s col row, same_shape w (m_w (move_cursor w s col row)).
Proof.
  unfold move_cursor.
  assert (Single : forall K : widget -> widget, forall w,
            (forall c, kidviews (K c) = [view c]) -> (forall c i c', set_child (K c) i c' = K c') ->
            (forall c f, set_focus (K c) f = K c) -> (forall c c', same_shape c c' -> same_shape (K c) (K c')) ->
            (forall s col row, same_shape w (m_w (v_move (view w) s col row))) ->
            forall nd s col row, same_shape (K w) (m_w (interp_move (K w) nd (kidviews (K w)) s col row))).
  { intros K w Kk Ks Kf Kc IH nd s col row. unfold interp_move.
    destruct (n_move nd s col row) as [| |i0|i0 cs0 c0 r0 nf0]; cbn [m_w]; try apply same_shape_refl.
    - rewrite Kf. apply same_shape_refl.
    - destruct (m_ok _) eqn:Eok; cbn [m_w]; [|apply same_shape_refl]. rewrite Kk in *.
      rewrite (nth_view_single_ok _ _ _ _ _ _ Eok). rewrite Ks. destruct nf0; [rewrite Kf|]; apply Kc, IH. }
  induction w using widget_ind2; intros s col row; rewrite view_eq.
  - cbn [leaf_view v_move]. destruct (leaf_accepts l s row); cbn [m_w same_shape]; reflexivity.
  - cbn [interp v_move]; unfold interp_move.
    destruct (n_move _ s col row) as [| |i0|i0 cs0 c0 r0 nf0]; cbn [m_w]; try apply same_shape_refl.
    + apply same_pile, items_same_refl.
    + destruct (m_ok _) eqn:Eok; cbn [m_w]; [|apply same_shape_refl].
      assert (G : items_same items (set_nth_w items i0 (m_w (v_move (nth_view (Pile items fp) (kidviews (Pile items fp)) i0) cs0 c0 r0)))).
      { apply items_same_set. intros o c1 Hn. cbn [kidviews kids_with]. rewrite (nth_view_kids _ items i0 o c1 Hn).
        apply (forall_nth (fun c => forall s col row, same_shape c (m_w (v_move (view c) s col row))) items i0 o c1 H Hn). }
      destruct nf0; cbn [set_child set_focus]; apply same_pile; exact G.
  - cbn [interp v_move]; unfold interp_move.
    destruct (n_move _ s col row) as [| |i0|i0 cs0 c0 r0 nf0]; cbn [m_w]; try apply same_shape_refl.
    + apply same_cols. split; [reflexivity|]. split; [reflexivity|]. apply items_same_refl.
    + destruct (m_ok _) eqn:Eok; cbn [m_w]; [|apply same_shape_refl].
      assert (G : items_same items (set_nth_w items i0 (m_w (v_move (nth_view (Columns items fp dc mw) (kidviews (Columns items fp dc mw)) i0) cs0 c0 r0)))).
      { apply items_same_set. intros o c1 Hn. cbn [kidviews kids_with]. rewrite (nth_view_kids _ items i0 o c1 Hn).
        apply (forall_nth (fun c => forall s col row, same_shape c (m_w (v_move (view c) s col row))) items i0 o c1 H Hn). }
      destruct nf0; cbn [set_child set_focus]; apply same_cols; (split; [reflexivity|]; split; [reflexivity|]; exact G).
  - apply (Single (fun x => Padding x a b c d e f g)); try reflexivity; [intros; split; [reflexivity|assumption]|exact IHw].
  - apply (Single (fun x => Filler x a b c d e f g)); try reflexivity; [intros; split; [reflexivity|assumption]|exact IHw].
  - cbn [interp v_move]. unfold interp_move, wnode. cbn [node_of n_move m_w]. apply same_shape_refl.
  - apply (Single (fun x => BoxAdapter x h)); try reflexivity; [intros; split; [reflexivity|assumption]|exact IHw].
  - apply (Single (fun x => AttrMap x)); try reflexivity; [intros; assumption|exact IHw].
  - cbn [interp v_move]. unfold interp_move, wnode. cbn [node_of n_move m_w]. apply same_shape_refl.
Qed.

(* ------------------------------------------------------------------------------------------ *)
(* the static part of an extended info: sizing() flags and the packed width                     *)
(* ------------------------------------------------------------------------------------------ *)
Definition xstat (a b : xinfo) : Prop :=
  x_flow a = x_flow b /\ x_fixed a = x_fixed b /\ fst (x_pack a) = fst (x_pack b) /\ i_box (xc a) = i_box (xc b).
Lemma xstat_refl a : xstat a a. Proof. repeat split. Qed.

Definition prel_stat (x y : popt * xinfo) : Prop := fst x = fst y /\ xstat (snd x) (snd y).
Definition crel_stat (x y : copt * bool * xinfo) : Prop := fst x = fst y /\ xstat (snd x) (snd y).

Lemma xpile_sizing_stat a b : Forall2 prel_stat a b -> xpile_sizing a = xpile_sizing b.
Proof.
  intro H. unfold xpile_sizing. destruct H as [|x y a b Hxy H]; [reflexivity|].
  assert (G : forall st, fold_left (fun st it =>
      match st with
      | SzDone _ _ _ => st
      | SzRun b f x =>
          let '(o, xi) := it in
          let cb := i_box (xc xi) in
          let '(fb, ff, fx) :=
            match o with
            | PWeight _ => (cb, x_flow xi, x_fixed xi && (cb || x_flow xi))
            | PGiven _ => (cb, cb, false)
            | PPack => (false, x_flow xi, x_fixed xi)
            end in
          if negb (fb || ff || fx) then SzDone true true false
          else if fb && negb (ff || fx) then SzDone true false false
          else SzRun (b || fb) (f || ff) (x || fx)
      end) (x :: a) st = fold_left (fun st it =>
      match st with
      | SzDone _ _ _ => st
      | SzRun b f x =>
          let '(o, xi) := it in
          let cb := i_box (xc xi) in
          let '(fb, ff, fx) :=
            match o with
            | PWeight _ => (cb, x_flow xi, x_fixed xi && (cb || x_flow xi))
            | PGiven _ => (cb, cb, false)
            | PPack => (false, x_flow xi, x_fixed xi)
            end in
          if negb (fb || ff || fx) then SzDone true true false
          else if fb && negb (ff || fx) then SzDone true false false
          else SzRun (b || fb) (f || ff) (x || fx)
      end) (y :: b) st).
  { assert (H2 : Forall2 prel_stat (x :: a) (y :: b)) by (constructor; assumption). clear Hxy H.
    induction H2 as [|[o xi] [o' xi'] l l' [Ho [Hf [Hx [Hp Hb]]]] _ IH]; intro st; [reflexivity|].
    cbn [fold_left fst snd] in *. subst o'. rewrite Hf, Hx, Hb. apply IH. }
  rewrite G. reflexivity.
Qed.

Lemma xpile_max_width_stat a b : Forall2 prel_stat a b -> xpile_max_width a = xpile_max_width b.
Proof.
  intro H. unfold xpile_max_width. f_equal.
  induction H as [|[o xi] [o' xi'] l l' [Ho [Hf [Hx [Hp Hb]]]] _ IH]; [reflexivity|].
  cbn [flat_map fst snd] in *. rewrite Hx, Hp, IH. reflexivity.
Qed.

Lemma xcolumns_sizing_stat a b : Forall2 crel_stat a b -> xcolumns_sizing a = xcolumns_sizing b.
Proof.
  intro H. unfold xcolumns_sizing. destruct H as [|x y a b Hxy H]; [reflexivity|].
  assert (G : map (fun it : copt * bool * xinfo => let '(o, isbox, xi) := it in
                   let cb := i_box (xc xi) in
                   match o with
                   | CWeight _ => (cb, x_flow xi, x_fixed xi && (cb || x_flow xi), false, isbox)
                   | CGiven _ => (cb, x_flow xi, x_flow xi, true, isbox)
                   | CPack => (false, x_flow xi, x_fixed xi, false, isbox)
                   end) (x :: a)
            = map (fun it : copt * bool * xinfo => let '(o, isbox, xi) := it in
                   let cb := i_box (xc xi) in
                   match o with
                   | CWeight _ => (cb, x_flow xi, x_fixed xi && (cb || x_flow xi), false, isbox)
                   | CGiven _ => (cb, x_flow xi, x_flow xi, true, isbox)
                   | CPack => (false, x_flow xi, x_fixed xi, false, isbox)
                   end) (y :: b)).
  { assert (H2 : Forall2 crel_stat (x :: a) (y :: b)) by (constructor; assumption). clear Hxy H.
    induction H2 as [|[[o ib] xi] [[o' ib'] xi'] l l' [Ho [Hf [Hx [Hp Hb]]]] _ IH]; [reflexivity|].
    cbn [map fst snd] in *. inversion Ho; subst o' ib'. rewrite Hf, Hx, Hb, IH. reflexivity. }
  cbv beta iota zeta. cbv beta iota zeta in G. rewrite G. reflexivity.
Qed.

Lemma xcolumns_fixed_supported_stat a b : Forall2 crel_stat a b -> xcolumns_fixed_supported a = xcolumns_fixed_supported b.
Proof.
  intro H. unfold xcolumns_fixed_supported.
  induction H as [|[[o ib] xi] [[o' ib'] xi'] l l' [Ho [Hf [Hx [Hp Hb]]]] _ IH]; [reflexivity|].
  cbn [forallb fst snd] in *. inversion Ho; subst o' ib'. rewrite Hf, Hx, IH. reflexivity.
Qed.

(* the widths of a Columns rendered fixed *)
Definition fixed_colw (it : copt * bool * xinfo) : Z :=
  match it with (CGiven n, _, _) => n | (_, _, xi) => fst (x_pack xi) end.

Lemma xcolumns_fixed_widths a fp dc mw :
  map (fun t : Z * Z * size => fst (fst t)) (xcolumns_sizes a fp dc mw fixed_size)
  = if xcolumns_fixed_supported a then map fixed_colw a else [].
Proof.
  unfold xcolumns_sizes. rewrite is_fixed_fixed. destruct (xcolumns_fixed_supported a); [|reflexivity].
  cbv zeta. generalize (zmaxl (flat_map (fun it : copt * bool * xinfo => let '(o, isbox, xi) := it in
                  match o with
                  | CGiven n => if isbox then [] else [i_rows (xc xi) n]
                  | _ => [snd (x_pack xi)]
                  end) a)). intro mh. rewrite map_map. apply map_ext. intros [[o ib] xi].
  destruct o; [destruct ib; reflexivity| |]; reflexivity.
Qed.

Lemma xcolumns_fixed_widths_stat a b fp fp' dc mw :
  Forall2 crel_stat a b ->
  map (fun t : Z * Z * size => fst (fst t)) (xcolumns_sizes a fp dc mw fixed_size)
  = map (fun t : Z * Z * size => fst (fst t)) (xcolumns_sizes b fp' dc mw fixed_size).
Proof.
  intro H. rewrite !xcolumns_fixed_widths, (xcolumns_fixed_supported_stat a b H).
  destruct (xcolumns_fixed_supported b); [|reflexivity].
  induction H as [|[[o ib] xi] [[o' ib'] xi'] l l' [Ho [Hf [Hx [Hp Hb]]]] _ IH]; [reflexivity|].
  cbn [map fst snd] in *. inversion Ho; subst o' ib'. rewrite IH. f_equal.
  unfold fixed_colw. destruct o; [reflexivity| |]; exact Hp.
Qed.

(* the extended info of any tree: flags and packed size by the rules of GeometryX.v, the cinfo of the proved model
   when the tree has no fixed parts *)
Definition xlayer (w : widget) : xinfo :=
  match w with Leaf l => xleaf_info l | _ => xselfof w end.

Lemma xview_snd w :
  x_flow (snd (xview w)) = x_flow (xlayer w) /\ x_fixed (snd (xview w)) = x_fixed (xlayer w) /\
  x_pack (snd (xview w)) = x_pack (xlayer w) /\
  xc (snd (xview w)) = if sized_tree w then v_info (view w) else xc (xlayer w).
Proof.
  unfold xlayer, xselfof. destruct w; cbn [xview xkids];
    try match goal with |- context [xnode_of ?a ?b] => destruct (xnode_of a b) end;
    match goal with |- context [if ?b then _ else _] => destruct b end; cbn [fst snd x_flow x_fixed x_pack xc]; auto.
Qed.

Lemma items_same_fst {A} (l l' : list (A * widget)) : items_same l l' -> map fst l' = map fst l.
Proof. intro H. induction H as [|x y l l' [H1 _] _ IH]; [reflexivity|]. cbn [map]. rewrite IH, H1. reflexivity. Qed.

Lemma same_sized : forall w w', same_shape w w' -> sized_tree w' = sized_tree w.
Proof.
  induction w using widget_ind2; intros w' Hs; destruct w'; try contradiction.
  - cbn [same_shape] in Hs. unfold leaf_static in Hs. inversion Hs. cbn [sized_tree]. congruence.
  - apply same_pile in Hs. cbn [sized_tree]. induction Hs as [|x y l l' [H1 H2] _ IH]; [reflexivity|].
    cbn [forallb]. inversion H; subst. rewrite (H4 _ H2), (IH H5). reflexivity.
  - apply same_cols in Hs. destruct Hs as [_ [_ Hs]]. cbn [sized_tree].
    induction Hs as [|x y l l' [H1 H2] _ IH]; [reflexivity|].
    cbn [forallb]. inversion H; subst. rewrite (H4 _ H2), (IH H5), H1. reflexivity.
  - destruct Hs as [Eo Hs]. inversion Eo; subst. cbn [sized_tree]. rewrite (IHw _ Hs). reflexivity.
  - destruct Hs as [_ Hs]. cbn [sized_tree]. apply IHw. exact Hs.
  - match goal with Hs : same_shape _ (Frame _ ?h' ?f' _) |- _ =>
      destruct Hs as [Hb [Hh Hf]]; cbn [sized_tree]; rewrite (IHw _ Hb); f_equal; [f_equal|];
      [destruct hdr as [x|], h' as [x'|]; try contradiction; [apply (H x eq_refl); exact Hh|reflexivity]
      |destruct ftr as [x|], f' as [x'|]; try contradiction; [apply (H0 x eq_refl); exact Hf|reflexivity]]
    end.
  - destruct Hs as [_ Hs]. cbn [sized_tree]. apply IHw. exact Hs.
  - cbn [sized_tree]. apply IHw. exact Hs.
  - destruct Hs as [Ho [Ht Hb]]. inversion Ho; subst. cbn [sized_tree]. rewrite (IHw1 _ Ht), (IHw2 _ Hb). reflexivity.
Qed.

Lemma sized_ibox c c' :
  same_shape c c' -> xstat (snd (xview c')) (snd (xview c)) -> sized_tree c = true ->
  i_box (v_info (view c')) = i_box (v_info (view c)).
Proof.
  intros Hs [_ [_ [_ Hb]]] Hz. pose proof (same_sized c c' Hs) as Hz'. rewrite Hz in Hz'.
  destruct (xview_sized c Hz) as [_ E]. destruct (xview_sized c' Hz') as [_ E']. rewrite <- E, <- E'. exact Hb.
Qed.

Lemma xstat_via_layer w w' :
  sized_tree w' = sized_tree w ->
  x_flow (xlayer w') = x_flow (xlayer w) -> x_fixed (xlayer w') = x_fixed (xlayer w) ->
  fst (x_pack (xlayer w')) = fst (x_pack (xlayer w)) ->
  (sized_tree w = true -> i_box (v_info (view w')) = i_box (v_info (view w))) ->
  (sized_tree w = false -> i_box (xc (xlayer w')) = i_box (xc (xlayer w))) ->
  xstat (snd (xview w')) (snd (xview w)).
Proof.
  intros Hz H1 H2 H3 H4 H5. destruct (xview_snd w) as [A1 [A2 [A3 A4]]]. destruct (xview_snd w') as [B1 [B2 [B3 B4]]].
  unfold xstat. rewrite A1, A2, A3, A4, B1, B2, B3, B4, Hz. repeat split; try assumption.
  destruct (sized_tree w); auto.
Qed.

Lemma pile_kids_stat items items' :
  Forall (fun it : popt * widget => forall w', same_shape (snd it) w' -> xstat (snd (xview w')) (snd (xview (snd it)))) items ->
  items_same items items' ->
  Forall2 prel_stat (combine (map fst items') (map snd (map (fun it => xview (snd it)) items')))
                    (combine (map fst items) (map snd (map (fun it => xview (snd it)) items))).
Proof.
  intros IH Hs. induction Hs as [|[o c] [o' c'] l l' [H1 H2] _ IHs]; [constructor|].
  cbn [map combine fst snd] in *. inversion IH; subst. constructor; [|apply IHs; assumption].
  split; [cbn [fst]; congruence|]. cbn [snd]. apply H3. exact H2.
Qed.

Lemma cols_kids_stat (items items' : list (copt * bool * widget)) :
  Forall (fun it : copt * bool * widget => forall w', same_shape (snd it) w' -> xstat (snd (xview w')) (snd (xview (snd it)))) items ->
  items_same items items' ->
  Forall2 crel_stat (combine (map fst items') (map snd (map (fun it => xview (snd it)) items')))
                    (combine (map fst items) (map snd (map (fun it => xview (snd it)) items))).
Proof.
  intros IH Hs. induction Hs as [|[o c] [o' c'] l l' [H1 H2] _ IHs]; [constructor|].
  cbn [map combine fst snd] in *. inversion IH; subst. constructor; [|apply IHs; assumption].
  split; [cbn [fst]; congruence|]. cbn [snd]. apply H3. exact H2.
Qed.

Lemma sized_kids_ibox {A} (items items' : list (A * widget)) :
  Forall (fun it : A * widget => forall w', same_shape (snd it) w' -> xstat (snd (xview w')) (snd (xview (snd it)))) items ->
  items_same items items' -> Forall (fun it => sized_tree (snd it) = true) items ->
  Forall2 (fun x y : A * cinfo => fst x = fst y /\ i_box (snd x) = i_box (snd y))
          (combine (map fst items') (map v_info (map (fun it => view (snd it)) items')))
          (combine (map fst items) (map v_info (map (fun it => view (snd it)) items))).
Proof.
  intros IH Hs Hz. induction Hs as [|[o c] [o' c'] l l' [H1 H2] _ IHs]; [constructor|].
  cbn [map combine fst snd] in *. inversion IH; subst. inversion Hz; subst.
  constructor; [|apply IHs; assumption].
  split; [cbn [fst]; congruence|]. cbn [snd] in *. apply sized_ibox; auto.
Qed.

Lemma nth_xinfo_0 x l : nth_xinfo (x :: l) 0 = x. Proof. reflexivity. Qed.
Lemma nth_info_0 x l : nth_info (x :: l) 0 = x. Proof. reflexivity. Qed.

Lemma same_xstat : forall w w', same_shape w w' -> xstat (snd (xview w')) (snd (xview w)).
Proof.
  induction w using widget_ind2; intros w' Hs; pose proof (same_sized _ _ Hs) as Hz;
    destruct w'; try contradiction; apply xstat_via_layer; try exact Hz.
  1-5: cbn [same_shape] in Hs; unfold leaf_static in Hs; inversion Hs;
       cbn [xlayer xleaf_info x_flow x_fixed x_pack fst xc view leaf_view v_info leaf_info i_box]; intros; congruence.
  (* Pile *)
  1-5: apply same_pile in Hs; pose proof (pile_kids_stat items _ H Hs) as Hk.
  1-3,5: unfold xlayer, xselfof; cbn [xkids xnode_of snd]; unfold xpile_info, xpile_cinfo;
         rewrite (xpile_sizing_stat _ _ Hk); destruct (xpile_sizing _) as [[b f] x];
         cbn [x_flow x_fixed x_pack fst xc i_box]; try (intros; reflexivity).
  1: apply xpile_max_width_stat; exact Hk.
  1: { intro Hz1. rewrite !view_eq. cbn [interp v_info]. unfold wnode. cbn [node_of n_info kidviews kids_with].
      unfold pile_info. cbn [i_box].
      assert (Hz2 : Forall (fun it : popt * widget => sized_tree (snd it) = true) items).
      { cbn [sized_tree] in Hz1. rewrite forallb_forall in Hz1. apply Forall_forall. exact Hz1. }
      pose proof (sized_kids_ibox items _ H Hs Hz2) as G.
      induction G as [|[o ci] [o' ci'] l l' [G1 G2] _ IHG]; [reflexivity|].
      cbn [existsb fst snd] in *. subst o'. rewrite G2, IHG. reflexivity. }
  (* Columns *)
  1-5: apply same_cols in Hs; destruct Hs as [Edc [Emw Hs]]; subst dc0 mw0; pose proof (cols_kids_stat items _ H Hs) as Hk.
  1-3,5: unfold xlayer, xselfof; cbn [xkids xnode_of snd]; unfold xcolumns_info, xcolumns_cinfo;
         rewrite (xcolumns_sizing_stat _ _ Hk); destruct (xcolumns_sizing _) as [[b f] x];
         cbn [x_flow x_fixed x_pack fst xc i_box]; try (intros; reflexivity).
  1: { pose proof (xcolumns_fixed_widths_stat _ _ fp0 fp dc mw Hk) as G.
       assert (G2 : zlen (xcolumns_sizes (combine (map fst items0) (map snd (map (fun it => xview (snd it)) items0))) fp0 dc mw fixed_size)
                  = zlen (xcolumns_sizes (combine (map fst items) (map snd (map (fun it => xview (snd it)) items))) fp dc mw fixed_size)).
       { unfold zlen. f_equal. rewrite <- (map_length (fun t : Z * Z * size => fst (fst t))), G, map_length. reflexivity. }
       rewrite G, G2. reflexivity. }
  1: { intro Hz1. rewrite !view_eq. cbn [interp v_info]. unfold wnode. cbn [node_of n_info kidviews kids_with].
      unfold columns_info. cbn [i_box].
      assert (Hz2 : Forall (fun it : copt * bool * widget => sized_tree (snd it) = true) items).
      { cbn [sized_tree] in Hz1. rewrite forallb_forall in Hz1. apply Forall_forall. intros it Hit.
        specialize (Hz1 it Hit). apply andb_true_iff in Hz1 as [_ Hz1]. exact Hz1. }
      pose proof (sized_kids_ibox items _ H Hs Hz2) as G.
      induction G as [|[o ci] [o' ci'] l l' [G1 G2] _ IHG]; [reflexivity|].
      cbn [forallb fst snd] in *. rewrite G2, IHG. reflexivity. }
  (* Padding *)
  1-5: destruct Hs as [Eo Hs]; inversion Eo; subst; destruct (IHw _ Hs) as [I1 [I2 [I3 I4]]].
  1-3,5: unfold xlayer, xselfof; cbn [xkids xnode_of snd map]; rewrite !nth_xinfo_0; unfold xpadding_info, xpadding_pack;
         cbn [x_flow x_fixed x_pack xc padding_info i_box pa_wt pa_wamt pa_minw pa_left pa_right pa_at pa_aamt]; try (intros _); try congruence.
  1: destruct (is_given wt); cbn [fst]; congruence.
  1: { intro Hz1. rewrite !view_eq. cbn [interp v_info]. unfold wnode. cbn [node_of n_info kidviews kids_with map].
       rewrite !nth_info_0. cbn [padding_info i_box]. apply sized_ibox; auto.
       cbn [sized_tree] in Hz1. apply andb_true_iff in Hz1 as [_ Hz1]. exact Hz1. }
  (* Filler *)
  1-5: destruct Hs as [Eo Hs]; inversion Eo; subst.
  1-3,5: unfold xlayer, xselfof; cbn [xkids xnode_of snd map]; intros; reflexivity.
  1: intros _; rewrite !view_eq; reflexivity.
  (* Frame *)
  1-3,5: unfold xlayer, xselfof; cbn [xkids xnode_of snd map]; intros; reflexivity.
  1: intros _; rewrite !view_eq; reflexivity.
  (* BoxAdapter *)
  1-5: destruct Hs as [Eo Hs]; subst.
  1-3,5: unfold xlayer, xselfof; cbn [xkids xnode_of snd map]; intros; reflexivity.
  1: intros _; rewrite !view_eq; reflexivity.
  (* AttrMap *)
  1-5: cbn [same_shape] in Hs; destruct (IHw _ Hs) as [I1 [I2 [I3 I4]]].
  1-3,5: unfold xlayer, xselfof; cbn [xkids xnode_of snd map]; rewrite !nth_xinfo_0; intros; assumption.
  1: { intro Hz1. rewrite !view_eq. cbn [interp v_info]. unfold wnode. cbn [node_of n_info kidviews kids_with map].
       rewrite !nth_info_0. unfold attrmap_info. apply sized_ibox; auto. }
  (* Overlay *)
  1-5: destruct Hs as [Eo [Ht Hb]]; inversion Eo; subst.
  1-3,5: unfold xlayer, xselfof; cbn [xkids xnode_of snd map]; intros; reflexivity.
  intros _; rewrite !view_eq; reflexivity.
Qed.

(* ------------------------------------------------------------------------------------------ *)
(* Part 2: the statement, and the trees without fixed parts (through the bridge)                *)
(* ------------------------------------------------------------------------------------------ *)
(* what a container looks at in a child it renders with size [s]: the flags, sizing(), the packed width; the packed
   height when s = (), rows() at the width of s when s is a flow size *)
Definition xieq (s : size) (a b : xinfo) : Prop :=
  feq (xc a) (xc b) /\ x_flow a = x_flow b /\ x_fixed a = x_fixed b /\ fst (x_pack a) = fst (x_pack b) /\
  (is_fixed s = true -> snd (x_pack a) = snd (x_pack b)) /\
  (is_fixed s = false -> snd s = None -> i_rows (xc a) (fst s) = i_rows (xc b) (fst s)).

Lemma xieq_refl s a : xieq s a a.
Proof. split; [apply feq_refl|]. repeat split. Qed.

Lemma xh_xieq s a b : xieq s a b -> xh a s = xh b s.
Proof.
  intros [_ [_ [_ [_ [Hp Hr]]]]]. unfold xh, crows. destruct (is_fixed s) eqn:E; [apply Hp; reflexivity|].
  destruct (snd s) eqn:E2; [reflexivity|]. apply Hr; reflexivity.
Qed.

Definition XMoveOK (w : widget) : Prop :=
  forall s col row, v_fits (fst (xview w)) s = true -> i_hasmove (v_info (fst (xview w))) = true ->
    let m := v_move (fst (xview w)) s col row in
    m_ok m = true ->
    sized_tree (m_w m) = sized_tree w /\ xieq s (snd (xview (m_w m))) (snd (xview w)) /\
    v_fits (fst (xview (m_w m))) s = true /\
    (m_asked m <> None ->
       i_sel (v_info (fst (xview w))) = true /\ 0 <= row < xh (snd (xview w)) s /\
       exists x, v_cursor (fst (xview (m_w m))) s = CSome x row).

Lemma xmove_ok_sized w : sized_tree w = true -> XMoveOK w.
Proof.
  intros Hz s col row. destruct (xview_sized w Hz) as [Ev Ec]. rewrite Ev. intros Hf Hm m Hok.
  pose proof (move_okf_all w s col row Hf Hm Hok) as [Hieq [Hfit Hask]]. fold (move_cursor w s col row) in m.
  pose proof (move_same_shape w s col row) as Hsh. fold m in Hsh, Hieq, Hfit, Hask.
  pose proof (same_sized _ _ Hsh) as Hz'. rewrite Hz in Hz'.
  destruct (xview_sized (m_w m) Hz') as [Ev' Ec']. destruct (same_xstat _ _ Hsh) as [S1 [S2 [S3 S4]]].
  destruct (view_good w) as [FP _]. pose proof (FP s Hf) as Hpos. pose proof (pos_not_fixed s Hpos) as Hnf.
  split; [rewrite Hz, Hz'; reflexivity|]. split; [|split].
  - destruct Hieq as [Hfeq Hrows]. unfold xieq. rewrite Ec, Ec'. split; [exact Hfeq|].
    split; [exact S1|]. split; [exact S2|]. split; [exact S3|]. split; [intro H; congruence|]. intros _ E. apply Hrows. exact E.
  - rewrite Ev'. exact Hfit.
  - intro Hne. destruct (Hask Hne) as [Hsel [Hrow Hcur]]. split; [exact Hsel|]. split.
    + unfold xh. rewrite Hnf, Ec. exact Hrow.
    + rewrite Ev'. exact Hcur.
Qed.

(* ------------------------------------------------------------------------------------------ *)
(* Part 3: the generic steps over [xinterp]                                                    *)
(* ------------------------------------------------------------------------------------------ *)
Lemma xstep_fits d d' nd nd' kv i v' s :
  v_fits (xinterp d nd kv) s = true ->
  n_fits nd' s = true ->
  (forall q, In q (n_place nd' s) -> exists q0, In q0 (n_place nd s) /\ p_idx q0 = p_idx q /\ p_size q0 = p_size q) ->
  (forall q, In q (n_place nd s) -> p_idx q = i -> v_fits v' (p_size q) = true) ->
  0 <= i < zlen kv ->
  v_fits (xinterp d' nd' (set_nth_v kv i v')) s = true.
Proof.
  intros Hf Hn' Hpl Hk Hi. pose proof Hf as Hf0. cbn [xinterp v_fits] in Hf0. unfold xinterp_fits in Hf0.
  apply andb_true_iff in Hf0 as [Hf0 _]. apply andb_true_iff in Hf0 as [Hs0 _].
  destruct (xinterp_fits_inv d nd kv s Hf) as [_ [Hn Hkids]].
  cbn [xinterp v_fits]. unfold xinterp_fits. rewrite Hs0, Hn'. cbn [andb]. apply forallb_forall. intros q Hq.
  destruct (Hpl q Hq) as [q0 [Hq0 [Ei Es]]].
  destruct (Z.eq_dec (p_idx q) i) as [E|E].
  - rewrite E, nth_view_set_same by exact Hi. rewrite <- Es. apply Hk; [exact Hq0|qlia].
  - rewrite (nth_view_set_other_fits d d' kv i (p_idx q) v' E). rewrite <- Ei, <- Es. apply Hkids. exact Hq0.
Qed.

Lemma xstep_refits d d' nd nd' kv s :
  v_fits (xinterp d nd kv) s = true -> n_fits nd' s = true ->
  (forall q, In q (n_place nd' s) -> exists q0, In q0 (n_place nd s) /\ p_idx q0 = p_idx q /\ p_size q0 = p_size q) ->
  v_fits (xinterp d' nd' kv) s = true.
Proof.
  intros Hf Hn' Hpl. pose proof Hf as Hf0. cbn [xinterp v_fits] in Hf0. unfold xinterp_fits in Hf0.
  apply andb_true_iff in Hf0 as [Hf0 _]. apply andb_true_iff in Hf0 as [Hs0 _].
  destruct (xinterp_fits_inv d nd kv s Hf) as [_ [Hn Hkids]].
  cbn [xinterp v_fits]. unfold xinterp_fits. rewrite Hs0, Hn'. cbn [andb]. apply forallb_forall. intros q Hq.
  destruct (Hpl q Hq) as [q0 [Hq0 [Ei Es]]]. specialize (Hkids q0 Hq0). rewrite Ei, Es in Hkids.
  unfold nth_view in *. destruct (nthz kv (p_idx q)); [exact Hkids|discriminate Hkids].
Qed.

Lemma xstep_cursor d nd (kids : list kid) s i cs x r' row :
  XLocalCursor nd (map snd kids) ->
  n_fits nd s = true -> xsize_ok s ->
  (exists p, In p (n_place nd s) /\ p_isfocus p = true /\ p_idx p = i /\ p_size p = cs /\ p_y p = row - r') ->
  v_cursor (nth_view d (map fst kids) i) cs = CSome x r' ->
  i_sel (xc (nth_xinfo (map snd kids) i)) = true -> i_hascur (xc (nth_xinfo (map snd kids) i)) = true ->
  xsize_ok cs -> r' < xh (nth_xinfo (map snd kids) i) cs ->
  exists x', v_cursor (xinterp d nd (map fst kids)) s = CSome x' row.
Proof.
  intros LC Hn Hok [p [Hp [Hpf [Hpi [Hps Hpy]]]]] Hc Hsel Hhc Hcs Hr.
  destruct (LC s Hn Hok) as [p0 [Hp0 [Hp0f [Huniq Hplan]]]].
  assert (p = p0) by (apply Huniq; assumption). subst p0.
  cbn [xinterp interp v_cursor]. unfold interp_cursor. cbv zeta in Hplan. rewrite Hpi, Hps in Hplan.
  destruct (n_cursor nd s) as [|e|i0 cs0 dx dy clamp nr].
  - destruct Hplan as [H|[H|H]]; [congruence|congruence|contradiction].
  - contradiction.
  - destruct Hplan as [-> [-> [-> [-> [-> Hclamp]]]]]. rewrite Hc.
    destruct clamp as [m|].
    + assert (E : m <=? r' = false) by qlia. rewrite E. eexists. f_equal. qlia.
    + eexists. f_equal. qlia.
Qed.

Lemma xview_unsized' w :
  sized_tree w = false -> match w with Leaf _ => False | _ => True end ->
  xview w = (xinterp w (xnodeof w) (map fst (xkids w)), xselfof w).
Proof.
  intros H L. pose proof (xview_unsized w H) as E. destruct w; [contradiction|..];
    destruct E as [A B]; rewrite (surjective_pairing (xview _)); f_equal; assumption.
Qed.

(* what the move plan of a node says about its placement *)
Definition XMoveTarget (nd : node) (kx : list xinfo) : Prop :=
  forall s col row i cs c' r' nf, n_fits nd s = true -> xsize_ok s -> i_hasmove (n_info nd) = true ->
    n_move nd s col row = MPAsk i cs c' r' nf ->
    i_hasmove (xc (nth_xinfo kx i)) = true /\ 0 <= i < zlen kx /\
    (nf = None \/ (nf = Some i /\ i_sel (xc (nth_xinfo kx i)) = true)) /\
    exists p, In p (n_place nd s) /\ p_idx p = i /\ p_size p = cs /\ p_y p = row - r' /\
              (nf = None -> p_isfocus p = true) /\
              (forall q, In q (n_place nd s) -> p_idx q = i -> q = p).

(* hasattr(w, "move_cursor_to_coords") implies hasattr(w, "get_cursor_coords"), extended model *)
Lemma xhasmove_hascur : forall w, i_hasmove (v_info (fst (xview w))) = true -> i_hascur (v_info (fst (xview w))) = true.
Proof.
  induction w using widget_ind2;
    match goal with |- context [xview ?W] => destruct (sized_tree W) eqn:Hz;
      [destruct (xview_sized W Hz) as [-> _]; apply hasmove_hascur|rewrite xview_eq, Hz] end;
    cbn [xkids xnode_of]; try (cbn; intros; reflexivity).
  - unfold xleaf_view. destruct (0 <? lfw l); cbn; auto.
  - cbn [fst xinterp interp v_info n_info]. unfold xpile_node. cbn [n_info]. unfold xpile_cinfo.
    destruct (xpile_sizing _) as [[? ?] ?]. cbn. auto.
  - cbn [fst xinterp interp v_info n_info]. unfold xcolumns_node. cbn [n_info]. unfold xcolumns_cinfo.
    destruct (xcolumns_sizing _) as [[? ?] ?]. cbn. auto.
  - cbn. rewrite nth_xinfo_0. destruct (xall_all w) as [[Ok _] _]. unfold XOk in Ok. rewrite <- Ok. exact IHw.
Qed.

(* ------------------------------------------------------------------------------------------ *)
(* Part 4: decorations with one child                                                          *)
(* ------------------------------------------------------------------------------------------ *)
Section XSingle.
  Variable K : widget -> widget.
  Hypothesis K_nonleaf : forall c, match K c with Leaf _ => False | _ => True end.
  Hypothesis K_kids : forall c, xkids (K c) = [xview c].
  Hypothesis K_node : forall c c' ki, xnode_of (K c) ki = xnode_of (K c') ki.
  Hypothesis K_set : forall c i c', set_child (K c) i c' = K c'.
  Hypothesis K_sized : forall c c', sized_tree c' = sized_tree c -> sized_tree (K c') = sized_tree (K c).
  Let N (c : widget) (xi : xinfo) : node := fst (xnode_of (K c) [xi]).
  Let S (c : widget) (xi : xinfo) : xinfo := snd (xnode_of (K c) [xi]).
  Hypothesis K_info : forall c xi, n_info (N c xi) = xc (S c xi).
  Hypothesis K_sel : forall c xi, i_sel (n_info (N c xi)) = i_sel (xc xi).
  Hypothesis K_target : forall c xi, XMoveTarget (N c xi) [xi].
  Hypothesis K_plan : forall c xi s col row,
    match n_move (N c xi) s col row with MPFocus _ => False | MPAsk _ _ _ _ nf => nf = None | _ => True end.
  Hypothesis K_cursor : forall c xi, XLocalCursor (N c xi) [xi].
  Hypothesis K_within : forall c xi, XLocalWithin (N c xi) (S c xi) [xi].
  Hypothesis K_cong : forall c xi xi' s cs,
    n_fits (N c xi) s = true -> xsize_ok s ->
    (forall p, In p (n_place (N c xi) s) -> p_size p = cs) -> xieq cs xi' xi ->
    n_place (N c xi') s = n_place (N c xi) s /\ n_fits (N c xi') s = n_fits (N c xi) s /\ xieq s (S c xi') (S c xi).

  Lemma K_xview c : sized_tree (K c) = false ->
    xview (K c) = (xinterp (K c) (N c (snd (xview c))) [fst (xview c)], S c (snd (xview c))).
  Proof.
    intro Hz. rewrite (xview_unsized' (K c) Hz (K_nonleaf c)). unfold xnodeof, xselfof, N, S. rewrite K_kids. reflexivity.
  Qed.

  Lemma xmove_ok_single c : XMoveOK c -> XMoveOK (K c).
  Proof.
    intro IH. destruct (sized_tree (K c)) eqn:Hz; [apply xmove_ok_sized; exact Hz|].
    intros s col row. rewrite (K_xview c Hz). cbn [fst snd].
    set (xi := snd (xview c)). set (v := fst (xview c)).
    destruct (xall_all c) as [[Ok [FO _]] _]. unfold XOk in Ok. fold v xi in Ok, FO.
    intros Hf Hm. cbn [xinterp interp v_move v_info] in *. unfold interp_move.
    destruct (xinterp_fits_inv _ _ _ _ Hf) as [Hsok [Hn Hkids]].
    pose proof (K_plan c xi s col row) as Hplan.
    destruct (n_move (N c xi) s col row) as [| |i|i cs c' r' nf] eqn:E; cbn [m_ok m_w m_asked]; cbv zeta.
    - intro H; discriminate H.
    - intros _. rewrite (K_xview c Hz). cbn [fst snd]. fold xi v.
      split; [reflexivity|]. split; [apply xieq_refl|]. split; [exact Hf|]. intro H; congruence.
    - contradiction.
    - subst nf.
      destruct (K_target c xi s col row i cs c' r' None Hn Hsok Hm E) as [Hcm [Hi [_ [p [Hp [Hpi [Hps [Hpy [Hpf Hfun]]]]]]]]].
      specialize (Hpf eq_refl).
      assert (Ei0 : i = 0) by (unfold zlen in Hi; cbn in Hi; qlia). rewrite Ei0 in *. clear Ei0 i.
      change (nth_view (K c) [v] 0) with v. rewrite nth_xinfo_0 in Hcm.
      assert (Hcf : v_fits v cs = true).
      { specialize (Hkids p Hp). rewrite Hpi, Hps in Hkids. exact Hkids. }
      rewrite <- Ok in Hcm. specialize (IH cs c' r' Hcf Hcm). cbv zeta in IH. fold v in IH.
      destruct (m_ok (v_move v cs c' r')) eqn:Eok; cbn [m_ok m_w m_asked]; [|intro H; discriminate H].
      intros _. rewrite K_set.
      destruct (IH eq_refl) as [Hz2 [Hieq [Hfit' Hasked]]]. clear IH.
      set (c2 := m_w (v_move v cs c' r')) in *. fold xi in Hieq, Hasked.
      assert (Hzk : sized_tree (K c2) = false) by (rewrite (K_sized c c2 Hz2); exact Hz).
      rewrite (K_xview c2 Hzk). cbn [fst snd]. unfold N, S. rewrite (K_node c2 c). fold (N c (snd (xview c2))) (S c (snd (xview c2))). fold (N c xi) (S c xi).
      set (xi2 := snd (xview c2)) in *. set (v2 := fst (xview c2)) in *.
      assert (Hsizes : forall q, In q (n_place (N c xi) s) -> p_size q = cs).
      { intros q Hq. assert (Hq0 : p_idx q = 0).
        { specialize (Hkids q Hq). unfold nth_view in Hkids. destruct (Z.eq_dec (p_idx q) 0) as [->|Hne]; [reflexivity|].
          rewrite nthz_cons in Hkids. assert (E0 : p_idx q =? 0 = false) by qlia. rewrite E0 in Hkids.
          destruct (p_idx q <? 0); [discriminate Hkids|]. rewrite nthz_nil in Hkids. discriminate Hkids. }
        rewrite (Hfun q Hq Hq0). exact Hps. }
      destruct (K_cong c xi xi2 s cs Hn Hsok Hsizes Hieq) as [Epl [Efit Einfo]].
      split; [apply K_sized; exact Hz2|]. split; [exact Einfo|]. split.
      + change [v2] with (set_nth_v [v] 0 v2).
        apply (xstep_fits (K c) (K c2) _ _ [v] 0 v2 s Hf).
        * rewrite Efit. exact Hn.
        * intros q Hq. rewrite Epl in Hq. exists q. auto.
        * intros q Hq Hqi. rewrite (Hfun q Hq Hqi), Hps. exact Hfit'.
        * unfold zlen. cbn. qlia.
      + intro Hne. destruct (Hasked Hne) as [Hsel [Hrow [x Hcur]]].
        rewrite K_sel. rewrite Ok in Hsel. split; [exact Hsel|].
        destruct (K_within c xi s p Hn Hsok Hp) as [_ [_ [Hy0 Hy1]]]; [rewrite Hps; apply FO; exact Hcf|].
        rewrite Hpi, Hps, nth_xinfo_0 in Hy1.
        split; [qlia|].
        destruct Hieq as [[Es [Ec [Em Eb]]] Erest].
        destruct (xall_all c2) as [[Ok2 _] _]. unfold XOk in Ok2. fold v2 xi2 in Ok2.
        apply (xstep_cursor (K c2) (N c xi2) [(v2, xi2)] s 0 cs x r' row).
        * cbn [map snd]. apply K_cursor.
        * rewrite Efit. exact Hn.
        * exact Hsok.
        * exists p. rewrite Epl. auto.
        * cbn [map fst]. change (nth_view (K c2) [v2] 0) with v2. exact Hcur.
        * cbn [map snd]. rewrite nth_xinfo_0, Es. exact Hsel.
        * cbn [map snd]. rewrite nth_xinfo_0. rewrite <- Ok2. apply xhasmove_hascur. fold v2. rewrite Ok2, Em, <- Ok. exact Hcm.
        * apply FO. exact Hcf.
        * cbn [map snd]. rewrite nth_xinfo_0.
          rewrite (xh_xieq cs xi2 xi); [apply Hrow|]. split; [repeat split; assumption|exact Erest].
  Qed.
End XSingle.

Lemma so_target nd kx :
  LocalMoveTarget nd (map xc kx) ->
  (forall s col row i cs c' r' nf, n_move nd s col row = MPAsk i cs c' r' nf -> 0 <= i < zlen kx) ->
  XMoveTarget (sized_only nd) kx.
Proof.
  intros L B s col row i cs c' r' nf Hf Hok Hm E. unfold sized_only in *. cbn [n_fits n_move n_info n_place] in *.
  apply andb_true_iff in Hf as [Hnf Hf]. apply negb_true_iff in Hnf.
  pose proof (not_fixed_pos s Hok Hnf) as Hpos.
  destruct (L s col row i cs c' r' nf Hf Hpos Hm E) as [H1 [H2 H3]]. rewrite nth_info_xc in *.
  split; [exact H1|]. split; [exact (B _ _ _ _ _ _ _ _ E)|]. split; [exact H2|exact H3].
Qed.

Lemma xieq_feq s a b : xieq s a b -> feq (xc a) (xc b).
Proof. intros [H _]. exact H. Qed.

(* ---- AttrMap ---- *)
Lemma xmove_ok_attrmap c : XMoveOK c -> XMoveOK (AttrMap c).
Proof.
  apply (xmove_ok_single (fun c => AttrMap c)); try reflexivity; try (intros; exact I);
    try (intros ? ? Hsz; cbn [sized_tree]; rewrite Hsz; reflexivity).
  - (* target *)
    intros c0 xi s col row i cs c' r' nf _ _ Hm E. cbn in E, Hm. unfold attrmap_move in E. inversion E; subst.
    rewrite nth_xinfo_0 in *. split; [exact Hm|]. split; [unfold zlen; cbn; qlia|]. split; [left; reflexivity|].
    exists (Placed 0 0 0 cs true false). cbn. repeat split; auto; try qlia. intros q [<-|[]] _. reflexivity.
  - intros c0 xi. apply (xattrmap_cursor [xi]).
  - intros c0 xi. apply (xattrmap_within [xi]).
  - intros c0 xi xi' s cs _ _ Hs Hieq. cbn [xnode_of fst snd node_of n_place n_fits]. rewrite !nth_xinfo_0.
    split; [reflexivity|]. split; [reflexivity|].
    rewrite <- (Hs (Placed 0 0 0 s true false)) in Hieq; [exact Hieq|]. cbn. left. reflexivity.
Qed.

(* ---- BoxAdapter ---- *)
Lemma boxadapter_keeps h ki : KeepsKind (sized_only (node_of (BoxAdapter (Leaf (LeafD 0 false 0 0 false false None [] 0 0)) h) ki))
                                        (node_of (BoxAdapter (Leaf (LeafD 0 false 0 0 false false None [] 0 0)) h) ki).
Proof.
  apply keeps_same_width. intros s p Hp. cbn [node_of n_place] in Hp. unfold boxadapter_place in Hp.
  destruct (snd s); [contradiction|]. destruct Hp as [<-|[]]. reflexivity.
Qed.

Lemma xmove_ok_boxadapter c h : XMoveOK c -> XMoveOK (BoxAdapter c h).
Proof.
  apply (xmove_ok_single (fun c => BoxAdapter c h)); try reflexivity; try (intros; exact I);
    try (intros ? ? Hsz; cbn [sized_tree]; rewrite Hsz; reflexivity).
  - intros c0 xi. cbn [xnode_of fst map]. apply (so_target (node_of (BoxAdapter c0 h) [xc xi]) [xi]).
    + apply (boxadapter_target (map xc [xi]) h).
    + intros s col row i cs c' r' nf E. cbn [node_of n_move] in E. unfold boxadapter_move in E.
      destruct (snd s); [discriminate|]. destruct (negb _); [discriminate|]. inversion E; subst. unfold zlen; cbn; qlia.
  - intros c0 xi s col row. cbn [xnode_of fst map sized_only n_move node_of]. unfold boxadapter_move.
    destruct (snd s); [exact I|]. destruct (negb _); [exact I|reflexivity].
  - intros c0 xi. cbn [xnode_of fst map]. apply (so_cursor _ true); [apply (boxadapter_keeps h)|apply boxadapter_cursor_ok].
  - intros c0 xi.
    change (XLocalWithin (sized_only (node_of (BoxAdapter c0 h) (map xc [xi]))) (sized_xinfo (n_info (node_of (BoxAdapter c0 h) (map xc [xi]))) true) [xi]).
    apply (so_within _ true); [apply (boxadapter_keeps h)|apply boxadapter_within].
  - intros c0 xi xi' s cs _ _ Hs Hieq. cbn [xnode_of fst snd map sized_only n_place n_fits node_of n_info].
    split; [reflexivity|]. split; [reflexivity|].
    rewrite !nth_info_0. destruct Hieq as [[Es _] _]. unfold xieq, sized_xinfo, boxadapter_info. cbn [xc x_flow x_fixed x_pack fst snd i_rows].
    split; [repeat split; cbn; auto|]. repeat split; auto.
Qed.

(* ---- Filler ---- *)
Definition leaf0 : widget := Leaf (LeafD 0 false 0 0 false false None [] 0 0).
Lemma filler_keeps a b c0 d e f g ki :
  KeepsKind (sized_only (node_of (Filler leaf0 a b c0 d e f g) ki)) (node_of (Filler leaf0 a b c0 d e f g) ki).
Proof.
  apply keeps_same_width. intros s p Hp. cbn [node_of n_place] in Hp. unfold filler_place in Hp.
  destruct (filler_values _ _ s) as [t bt]. destruct Hp as [<-|[]]. cbn [p_size]. unfold filler_csize.
  destruct (filler_values _ _ s). destruct (is_pack _); reflexivity.
Qed.

Lemma xmove_ok_filler c a b c0 d e f g : XMoveOK c -> XMoveOK (Filler c a b c0 d e f g).
Proof.
  apply (xmove_ok_single (fun c => Filler c a b c0 d e f g)); try reflexivity; try (intros; exact I);
    try (intros ? ? Hsz; cbn [sized_tree]; rewrite Hsz; reflexivity).
  - intros c1 xi. cbn [xnode_of fst map]. apply (so_target (node_of (Filler c1 a b c0 d e f g) [xc xi]) [xi]).
    + apply (filler_target (map xc [xi])).
    + intros s col row i cs c' r' nf E. cbn [node_of n_move] in E. unfold filler_move in E.
      destruct (negb _); [discriminate|]. destruct (filler_values _ _ _). destruct (_ || _); [discriminate|].
      inversion E; subst. unfold zlen; cbn; qlia.
  - intros c1 xi s col row. cbn [xnode_of fst map sized_only n_move node_of]. unfold filler_move.
    destruct (negb _); [exact I|]. destruct (filler_values _ _ _). destruct (_ || _); [exact I|reflexivity].
  - intros c1 xi. cbn [xnode_of fst map]. apply (so_cursor _ true); [apply filler_keeps|apply filler_cursor_ok].
  - intros c1 xi.
    change (XLocalWithin (sized_only (node_of (Filler c1 a b c0 d e f g) (map xc [xi])))
                         (sized_xinfo (n_info (node_of (Filler c1 a b c0 d e f g) (map xc [xi]))) (is_pack c0 || is_given c0)) [xi]).
    apply (so_within _ _); [apply filler_keeps|apply filler_within].
  - intros c1 xi xi' s cs Hfit Hok Hs Hieq. cbn [xnode_of fst snd map sized_only n_place n_fits node_of n_info] in *.
    rewrite !nth_info_0 in *. set (o := FillOpts a b c0 d e f g) in *.
    set (ci := xc xi) in *. set (ci' := xc xi') in *.
    apply andb_true_iff in Hfit as [Hnf _]. apply negb_true_iff in Hnf.
    destruct Hieq as [[Es [Ec [Em Eb]]] [Efl [Efx [Epw [Eph Er]]]]]. fold ci ci' in Es, Ec, Em, Eb, Er.
    assert (Erows : is_pack (fi_ht o) = true -> i_rows ci' (fst s) = i_rows ci (fst s)).
    { intro Ep. unfold filler_place in Hs. destruct (filler_values o ci s) as [t bt] eqn:Ev.
      specialize (Hs _ (or_introl eq_refl)). cbn [p_size] in Hs. unfold filler_csize in Hs. rewrite Ev, Ep in Hs.
      subst cs. apply Er; [|reflexivity]. unfold is_fixed in *. cbn [fst]. exact Hnf. }
    assert (Efr : filler_rows o ci' (fst s) = filler_rows o ci (fst s)).
    { unfold filler_rows. destruct (is_pack (fi_ht o)) eqn:Ep; [rewrite Erows; reflexivity|reflexivity]. }
    assert (Emr : filler_maxrow o ci' s = filler_maxrow o ci s).
    { unfold filler_maxrow. destruct (snd s); [reflexivity|exact Efr]. }
    assert (Efv : filler_values o ci' s = filler_values o ci s).
    { unfold filler_values. rewrite Emr. destruct (is_pack (fi_ht o)) eqn:Ep; [rewrite Erows; reflexivity|reflexivity]. }
    assert (Ecs : filler_csize o ci' s = filler_csize o ci s).
    { unfold filler_csize. rewrite Efv, Emr. reflexivity. }
    split; [unfold filler_place; rewrite Efv, Ecs; reflexivity|]. split.
    + f_equal. unfold filler_fits. rewrite Efv, Emr. destruct (is_pack (fi_ht o)) eqn:Ep; [rewrite Erows; reflexivity|reflexivity].
    + unfold xieq, sized_xinfo, filler_info. cbn [xc x_flow x_fixed x_pack fst snd i_rows].
      split; [repeat split; cbn; auto|]. repeat split; auto.
Qed.

(* ---- Padding (also rendered fixed around a fixed widget) ---- *)
Lemma xpadding_target o xi : XMoveTarget (xpadding_node o xi) [xi].
Proof.
  intros s col row i cs c' r' nf Hf Hok Hm E. destruct (is_fixed s) eqn:Efx.
  - destruct (xpadding_fixed_inv [xi] o s Efx Hf) as [Ev [Hl [Hr _]]]. rewrite nth_xinfo_0 in Ev.
    unfold xpadding_node in *. cbn [n_move n_place n_info] in *. rewrite Efx in *. rewrite Ev in *.
    destruct (i_hasmove (xc xi)) eqn:Eh; cbn [negb] in E; [|discriminate]. inversion E; subst.
    rewrite nth_xinfo_0. split; [exact Eh|]. split; [unfold zlen; cbn; qlia|]. split; [left; reflexivity|].
    exists (Placed 0 (pa_left o) 0 (xpadding_csize_fixed o) true false). cbn [p_idx p_size p_y p_isfocus].
    split; [left; reflexivity|]. repeat split; auto; try qlia. intros q [<-|[]] _. reflexivity.
  - pose proof (not_fixed_pos s Hok Efx) as Hpos.
    unfold xpadding_node in *. cbn [n_move n_place n_info n_fits] in *. rewrite Efx in *.
    apply andb_true_iff in Hf as [Hf _].
    destruct (padding_target [xc xi] o s col row i cs c' r' nf Hf Hpos Hm E) as [H1 [H2 H3]].
    assert (Ei : i = 0 /\ nf = None).
    { unfold padding_move in E. destruct (negb _); [discriminate|].
      destruct (padding_values o (fst s)). inversion E; subst. auto. }
    destruct Ei as [-> ->]. rewrite nth_info_0 in H1. rewrite nth_xinfo_0.
    split; [exact H1|]. split; [unfold zlen; cbn; qlia|]. split; [left; reflexivity|exact H3].
Qed.

Lemma xmove_ok_padding c a b c0 d e f g : XMoveOK c -> XMoveOK (Padding c a b c0 d e f g).
Proof.
  apply (xmove_ok_single (fun c => Padding c a b c0 d e f g)); try reflexivity; try (intros; exact I);
    try (intros ? ? Hsz; cbn [sized_tree]; rewrite Hsz; reflexivity).
  - intros c1 xi. apply xpadding_target.
  - intros c1 xi s col row. cbn [xnode_of fst]. rewrite nth_xinfo_0. unfold xpadding_node. cbn [n_move].
    destruct (is_fixed s).
    + destruct (negb _); [exact I|]. destruct (xpadding_values_fixed _ _). reflexivity.
    + unfold padding_move. destruct (negb _); [exact I|]. destruct (padding_values _ _). reflexivity.
  - intros c1 xi. apply (xpadding_cursor [xi]).
  - intros c1 xi. apply (xpadding_within [xi]).
  - intros c1 xi xi' s cs Hfit Hok Hs Hieq. cbn [xnode_of fst snd] in *. rewrite !nth_xinfo_0 in *.
    set (o := PadOpts a b c0 d e f g) in *.
    destruct Hieq as [[Es [Ec [Em Eb]]] [Efl [Efx [Epw [Eph Er]]]]].
    destruct (is_fixed s) eqn:Efs.
    + destruct (xpadding_fixed_inv [xi] o s Efs Hfit) as [Ev [Hl [Hr [_ [_ Hkind]]]]]. rewrite nth_xinfo_0 in *.
      assert (Ev' : xpadding_values_fixed o xi' = xpadding_values_fixed o xi).
      { unfold xpadding_values_fixed. rewrite Epw. reflexivity. }
      assert (Ecs0 : cs = xpadding_csize_fixed o).
      { unfold xpadding_node in Hs. cbn [n_place] in Hs. rewrite Efs, Ev in Hs.
        rewrite <- (Hs _ (or_introl eq_refl)). reflexivity. }
      unfold xpadding_node in *. cbn [n_place n_fits] in *. rewrite Efs in *. rewrite Ev', Efx, Epw.
      split; [reflexivity|]. split; [reflexivity|].
      unfold xieq, xpadding_info, xpadding_pack, padding_info. cbn [xc x_flow x_fixed x_pack i_sel i_hascur i_hasmove i_box i_rows].
      rewrite Efl, Efx, Epw, Efs.
      destruct Hkind as [[Eg [Ecf _]]|[Eg [Ecf Hw1]]]; rewrite Eg; cbn [fst snd].
      * rewrite Ecs0, Ecf in Eph. rewrite (Eph is_fixed_fixed).
        split; [repeat split; auto|]. repeat split; auto. intro H; discriminate H.
      * rewrite Ecs0, Ecf in Er. assert (Hnf : is_fixed (pa_wamt o, None) = false) by (unfold is_fixed; cbn [fst]; qlia).
        cbn [fst snd] in Er. rewrite (Er Hnf eq_refl).
        split; [repeat split; auto|]. repeat split; auto. intro H; discriminate H.
    + unfold xpadding_node in *. cbn [n_place n_fits] in *. rewrite Efs in *.
      split; [reflexivity|]. split; [reflexivity|].
      unfold xieq, xpadding_info, xpadding_pack, padding_info. cbn [xc x_flow x_fixed x_pack i_sel i_hascur i_hasmove i_box i_rows].
      rewrite Efl, Efx, Epw, Efs.
      split; [repeat split; auto|]. split; [reflexivity|]. split; [reflexivity|].
      split; [destruct (is_given (pa_wt o)); reflexivity|]. split; [intro H; discriminate H|].
      intros _ Esn. unfold padding_place in Hs. apply andb_true_iff in Hfit as [_ Hnn].
      destruct (padding_values o (fst s)) as [l r]. specialize (Hs _ (or_introl eq_refl)). cbn [p_size] in Hs. subst cs.
      cbn [fst snd] in Er. replace (fst s - l - r) with (fst s - (l + r)) by qlia. apply Er; [|exact Esn].
      unfold is_fixed. cbn [fst]. clear - Hnn. lia.
Qed.

(* ------------------------------------------------------------------------------------------ *)
(* Part 5: Pile                                                                                *)
(* ------------------------------------------------------------------------------------------ *)
(* the size class an item of a Pile is rendered with (the number of rows of a box size does not matter here) *)
Definition xitem_cs (mw : Z) (s : size) (o : popt) (xi : xinfo) : size :=
  if is_fixed s then (if x_flow xi then (mw, None) else fixed_size)
  else match o with
       | PGiven n => (fst s, Some n)
       | PPack => xitem_size o xi (fst s)
       | PWeight _ => match snd s with None => xitem_size o xi (fst s) | Some _ => (fst s, Some 0) end
       end.
Definition xprel (mw : Z) (s : size) (x y : popt * xinfo) : Prop :=
  fst x = fst y /\ xieq (xitem_cs mw s (fst y) (snd y)) (snd x) (snd y).

Lemma xprel_refl mw s x : xprel mw s x x.
Proof. split; [reflexivity|apply xieq_refl]. Qed.

Lemma xieq_stat s a b : xieq s a b -> xstat a b.
Proof. intros [[_ [_ [_ Hb]]] [Hf [Hx [Hp _]]]]. repeat split; assumption. Qed.

Lemma xprel_stat mw s a b : Forall2 (xprel mw s) a b -> Forall2 prel_stat a b.
Proof. intro H. induction H as [|x y l l' [H1 H2] _ IH]; constructor; auto. split; [exact H1|]. eapply xieq_stat; eauto. Qed.

Lemma xpile_fixed_supported_stat a b : Forall2 prel_stat a b -> xpile_fixed_supported a = xpile_fixed_supported b.
Proof.
  intro H. unfold xpile_fixed_supported. f_equal.
  - induction H as [|[o xi] [o' xi'] l l' [Ho [Hf [Hx _]]] _ IH]; [reflexivity|].
    cbn [forallb fst snd] in *. subst o'. rewrite Hf, Hx, IH. reflexivity.
  - induction H as [|[o xi] [o' xi'] l l' [Ho [Hf [Hx _]]] _ IH]; [reflexivity|].
    cbn [existsb fst snd] in *. rewrite Hx, IH. reflexivity.
Qed.

Lemma not_fixed_nonneg c r : 0 <= c -> is_fixed (c, r) = false.
Proof. intro H. unfold is_fixed. cbn [fst]. qlia. Qed.

Lemma xieq_rows c a b : 0 <= c -> xieq (c, None) a b -> i_rows (xc a) c = i_rows (xc b) c.
Proof. intros Hc [_ [_ [_ [_ [_ Hr]]]]]. apply (Hr (not_fixed_nonneg _ _ Hc) eq_refl). Qed.
Lemma xieq_pack a b : xieq fixed_size a b -> snd (x_pack a) = snd (x_pack b).
Proof. intros [_ [_ [_ [_ [Hp _]]]]]. apply (Hp is_fixed_fixed). Qed.
Lemma xieq_flags s a b : xieq s a b -> x_flow a = x_flow b /\ x_fixed a = x_fixed b.
Proof. intros [_ [H1 [H2 _]]]. auto. Qed.

Lemma xpile_pass1_cong mw s a b :
  is_fixed s = false -> 0 <= fst s -> Forall2 (xprel mw s) a b -> xpile_pass1 a (fst s) = xpile_pass1 b (fst s).
Proof.
  intros Efx Hc H. induction H as [|[o xi] [o' xi'] l l' [Ho Hx] _ IH]; [reflexivity|].
  cbn [xpile_pass1 fst snd] in *. subst o'. rewrite IH. destruct (xpile_pass1 l' (fst s)) as [[l0 used] wt].
  destruct o; try reflexivity.
  unfold xitem_cs in Hx. rewrite Efx in Hx. unfold xitem_size in Hx. cbn [is_ppack] in Hx. rewrite andb_true_r in Hx.
  destruct (xieq_flags _ _ _ Hx) as [Hfl Hfx]. rewrite Hfl, Hfx.
  destruct (x_flow xi') eqn:E1; cbn [negb andb].
  - rewrite (xieq_rows _ _ _ Hc Hx). reflexivity.
  - destruct (x_fixed xi') eqn:E2.
    + rewrite (xieq_pack _ _ Hx). reflexivity.
    + rewrite (xieq_rows _ _ _ Hc Hx). reflexivity.
Qed.

Lemma xpile_pass2_cong mw s a b l rem wt : Forall2 (xprel mw s) a b -> xpile_pass2 a l rem wt = xpile_pass2 b l rem wt.
Proof.
  intro H. revert l rem wt. induction H as [|[o xi] [o' xi'] la lb [Ho _] _ IH]; intros l rem wt; [reflexivity|].
  cbn [xpile_pass2 fst] in *. subst o'. destruct l as [|x l]; [reflexivity|]. destruct x; rewrite IH; reflexivity.
Qed.

Lemma xitem_cong (s : size) o xi xi' :
  0 <= fst s ->
  xieq (xitem_size o xi (fst s)) xi' xi ->
  xitem_height o xi' (fst s) = xitem_height o xi (fst s) /\ xitem_size o xi' (fst s) = xitem_size o xi (fst s).
Proof.
  intros Hc Hx. unfold xitem_height, xitem_size in *. destruct (xieq_flags _ _ _ Hx) as [Hfl Hfx]. rewrite Hfl, Hfx.
  destruct (x_flow xi) eqn:E1.
  - rewrite (xieq_rows _ _ _ Hc Hx). auto.
  - destruct (x_fixed xi && is_ppack o) eqn:E2.
    + rewrite (xieq_pack _ _ Hx). auto.
    + rewrite (xieq_rows _ _ _ Hc Hx). auto.
Qed.

Lemma xpile_item_rows_cong mw s a b :
  is_fixed s = false -> 0 <= fst s -> Forall2 (xprel mw s) a b -> xpile_item_rows a s = xpile_item_rows b s.
Proof.
  intros Efx Hc H. unfold xpile_item_rows. destruct (snd s) eqn:Es.
  - rewrite (xpile_pass1_cong mw s a b Efx Hc H). destruct (xpile_pass1 b (fst s)) as [[l used] wt].
    apply (xpile_pass2_cong mw s). exact H.
  - induction H as [|[o xi] [o' xi'] la lb [Ho Hx] _ IH]; [reflexivity|].
    cbn [map fst snd] in *. subst o'. rewrite IH. f_equal. unfold xitem_cs in Hx. rewrite Efx, Es in Hx.
    destruct o; [|reflexivity|]; apply (xitem_cong s _ _ _ Hc Hx).
Qed.

Lemma xpile_rows_sizes_cong mw s a b :
  Forall2 (xprel mw s) a b -> mw = xpile_max_width b ->
  (is_fixed s = false -> 0 <= fst s) -> (is_fixed s = true -> 0 <= mw) ->
  xpile_rows_sizes a s = xpile_rows_sizes b s.
Proof.
  intros H Emw Hs Hm. pose proof (xprel_stat _ _ _ _ H) as Hst. unfold xpile_rows_sizes.
  rewrite (xpile_fixed_supported_stat _ _ Hst), (xpile_max_width_stat _ _ Hst), <- Emw. clear Emw.
  generalize (xpile_fixed_supported b). intro sup.
  destruct (is_fixed s) eqn:Efx.
  - destruct sup; [|reflexivity]. specialize (Hm eq_refl).
    induction H as [|[o xi] [o' xi'] la lb [Ho Hx] _ IH]; [reflexivity|].
    cbn [map fst snd] in *. inversion Hst; subst. rewrite (IH H4). f_equal.
    unfold xitem_cs in Hx. rewrite Efx in Hx. destruct (xieq_flags _ _ _ Hx) as [Hfl Hfx]. rewrite Hfl.
    destruct (x_flow xi').
    + rewrite (xieq_rows _ _ _ Hm Hx). reflexivity.
    + rewrite (xieq_pack _ _ Hx). reflexivity.
  - specialize (Hs eq_refl). rewrite (xpile_item_rows_cong mw s a b Efx Hs H).
    generalize (xpile_item_rows b s). intro irs. revert irs.
    induction H as [|[o xi] [o' xi'] la lb [Ho Hx] _ IH]; intros irs; [reflexivity|].
    destruct irs as [|ir irs]; [reflexivity|]. cbn [combine map fst snd] in *. inversion Hst; subst.
    rewrite (IH H4). f_equal. unfold xitem_cs in Hx. rewrite Efx in Hx.
    destruct o'.
    + destruct (xitem_cong s _ _ _ Hs Hx) as [-> ->]. reflexivity.
    + reflexivity.
    + destruct (snd s); [reflexivity|]. destruct (xitem_cong s _ _ _ Hs Hx) as [-> ->]. reflexivity.
Qed.

Section XPileTarget.
  Variable its : xp_items.
  Variable fp : Z.
  Let nx := xpile_node its fp.

  Lemma xpile_find_placed s row i wrow cs :
    xpile_fits its fp s = true -> xsize_ok s -> pile_find (xpile_rows_sizes its s) 0 0 row = Some (i, wrow, cs) ->
    0 <= i < zlen its /\ 0 <= wrow /\
    forall fp', In (Placed i 0 wrow cs (fp' =? i) false) (pile_place_from (xpile_rows_sizes its s) 0 0 fp') /\
                (forall q, In q (pile_place_from (xpile_rows_sizes its s) 0 0 fp') -> p_idx q = i -> q = Placed i 0 wrow cs (fp' =? i) false).
  Proof.
    intros Hf Hok Hfind. destruct (xpile_fits_inv its fp [] s Hf Hok) as [Hfp [Hlen [Hall Htot]]].
    destruct (pile_find_inv _ _ _ _ _ _ _ Hfind) as [pre [x [post [E [Hi [Hw [Hc Hlt]]]]]]].
    pose proof Hall as Hall'. rewrite E in Hall'. apply Forall_app in Hall' as [Hpre Hrest].
    pose proof (Forall_inv Hrest) as Hx. cbn beta in Hx. pose proof (zsum_nonneg pre Hpre) as Hz.
    rewrite E, zlen_app, zlen_cons in Hlen. pose proof (zlen_nonneg pre). pose proof (zlen_nonneg post).
    split; [qlia|]. split; [qlia|]. intro fp'. rewrite E. split.
    - pose proof (pile_place_from_in fp' pre x post 0 0 Hpre) as G.
      replace (0 + zlen pre) with i in G by qlia. replace (0 + zsum (map fst pre)) with wrow in G by qlia.
      rewrite Hc. apply G. qlia.
    - intros q Hq Hqi. rewrite <- E in Hq.
      destruct (pile_place_from_inv fp' _ 0 0 q Hall Hq) as [pre2 [x2 [post2 [E2 ->]]]].
      cbn [p_idx] in Hqi. rewrite E in E2.
      destruct (app_mid_eq pre pre2 x x2 post post2 E2) as [<- [<- <-]].
      { unfold zlen in *. qlia. }
      rewrite Hc. f_equal; qlia.
  Qed.

  Lemma xpile_target : XMoveTarget nx (map snd its).
  Proof.
    unfold nx, xpile_node. intros s col row i cs c' r' nf Hf Hok _ E. cbn [n_fits n_move n_place] in *. unfold xpile_move in E.
    destruct (pile_find (xpile_rows_sizes its s) 0 0 row) as [[[i0 wrow] cs0]|] eqn:Efind; [|discriminate]. cbv zeta in E.
    destruct (i_sel (xc (nth_xinfo (map snd its) i0))) eqn:Es; cbn [negb] in E; [|discriminate].
    destruct (i_hasmove (xc (nth_xinfo (map snd its) i0))) eqn:Eh; [|discriminate].
    inversion E; subst. split; [exact Eh|].
    destruct (xpile_find_placed s row i wrow cs Hf Hok Efind) as [Hi [Hw Hpl]]. destruct (Hpl fp) as [Hin Hfun].
    split; [rewrite zlen_map; exact Hi|]. split; [right; auto|].
    exists (Placed i 0 wrow cs (fp =? i) false). cbn [p_idx p_size p_y p_isfocus].
    repeat split; auto; try qlia. intro H; discriminate H.
  Qed.

  Lemma xpile_fits_refocus s i : xpile_fits its fp s = true -> 0 <= i < zlen its -> xpile_fits its i s = true.
  Proof.
    unfold xpile_fits. intros H Hi.
    apply andb_true_iff in H as [H H7]. apply andb_true_iff in H as [H H6]. apply andb_true_iff in H as [H H5].
    apply andb_true_iff in H as [H H4]. apply andb_true_iff in H as [H H3]. apply andb_true_iff in H as [H1 H2].
    rewrite H1, H4, H5, H6, H7. cbn [andb]. qlia.
  Qed.

  Lemma xpile_place_refocus s i q :
    xpile_fits its fp s = true -> xsize_ok s -> In q (pile_place_from (xpile_rows_sizes its s) 0 0 i) ->
    exists q0, In q0 (pile_place_from (xpile_rows_sizes its s) 0 0 fp) /\ p_idx q0 = p_idx q /\ p_size q0 = p_size q.
  Proof.
    intros Hf Hok Hq. destruct (xpile_fits_inv its fp [] s Hf Hok) as [_ [_ [Hall _]]].
    destruct (pile_place_from_inv i _ 0 0 q Hall Hq) as [pre [x [post [E ->]]]].
    rewrite E in Hall. apply Forall_app in Hall as [Hpre Hrest]. pose proof (Forall_inv Hrest) as Hx. cbn beta in Hx.
    exists (Placed (0 + zlen pre) 0 (0 + zsum (map fst pre)) (snd x) (fp =? 0 + zlen pre) false).
    split; [|split; reflexivity]. rewrite E. apply pile_place_from_in; [exact Hpre|qlia].
  Qed.
End XPileTarget.

Lemma xpile_wtotal_opts a b c : map fst a = map fst b -> snd (xpile_pass1 a c) = snd (xpile_pass1 b c).
Proof.
  revert b. induction a as [|[o xi] a IH]; intros [|[o' xi'] b] H; try discriminate; [reflexivity|].
  cbn [map fst] in H. inversion H; subst o'. cbn [xpile_pass1]. specialize (IH b H2).
  destruct (xpile_pass1 a c) as [[l u] w]. destruct (xpile_pass1 b c) as [[l' u'] w']. cbn [snd] in *. subst w'.
  destruct o; cbn [snd]; try reflexivity. destruct (n =? 0); reflexivity.
Qed.

Lemma forall2_map_fst {A B} (R : A * B -> A * B -> Prop) a b :
  (forall x y, R x y -> fst x = fst y) -> Forall2 R a b -> map fst a = map fst b.
Proof. intros HR H. induction H as [|x y l l' Hxy _ IH]; [reflexivity|]. cbn [map]. rewrite IH, (HR _ _ Hxy). reflexivity. Qed.

Lemma xpile_widths_stat a b c :
  Forall2 prel_stat a b ->
  forallb (fun it : popt * xinfo => x_flow (snd it) || negb (x_fixed (snd it) && is_ppack (fst it)) || (fst (x_pack (snd it)) <=? c)) a
  = forallb (fun it : popt * xinfo => x_flow (snd it) || negb (x_fixed (snd it) && is_ppack (fst it)) || (fst (x_pack (snd it)) <=? c)) b.
Proof.
  intro H. induction H as [|[o xi] [o' xi'] l l' [Ho [Hf [Hx [Hp _]]]] _ IH]; [reflexivity|].
  cbn [forallb fst snd] in *. subst o'. rewrite Hf, Hx, Hp, IH. reflexivity.
Qed.

Lemma xpile_samewidth_stat a b c :
  Forall2 prel_stat a b ->
  forallb (fun it : popt * xinfo => x_flow (snd it) || (fst (x_pack (snd it)) =? c)) a
  = forallb (fun it : popt * xinfo => x_flow (snd it) || (fst (x_pack (snd it)) =? c)) b.
Proof.
  intro H. induction H as [|[o xi] [o' xi'] l l' [Ho [Hf [Hx [Hp _]]]] _ IH]; [reflexivity|].
  cbn [forallb fst snd] in *. rewrite Hf, Hp, IH. reflexivity.
Qed.

Lemma xpile_fits_cong mw s a b fp :
  Forall2 (xprel mw s) a b -> mw = xpile_max_width b ->
  (is_fixed s = false -> 0 <= fst s) -> (is_fixed s = true -> 0 <= mw) ->
  xpile_fits a fp s = xpile_fits b fp s.
Proof.
  intros H Emw Hs Hm. pose proof (xprel_stat _ _ _ _ H) as Hst. unfold xpile_fits.
  rewrite (xpile_rows_sizes_cong mw s a b H Emw Hs Hm), (xpile_max_width_stat _ _ Hst), (xpile_widths_stat _ _ (fst s) Hst),
    (xpile_samewidth_stat _ _ (xpile_max_width b) Hst).
  assert (El : zlen a = zlen b) by (unfold zlen; rewrite (forall2_length _ _ _ H); reflexivity). rewrite El.
  rewrite (xpile_wtotal_opts a b (fst s)); [reflexivity|].
  apply (forall2_map_fst (xprel mw s)); [intros x y [E _]; exact E|exact H].
Qed.

Lemma xpile_sel_cong mw s a b :
  Forall2 (xprel mw s) a b ->
  existsb (fun it : popt * xinfo => i_sel (xc (snd it))) a = existsb (fun it : popt * xinfo => i_sel (xc (snd it))) b.
Proof.
  intro H. induction H as [|[o xi] [o' xi'] l l' [Ho [[Es _] _]] _ IH]; [reflexivity|].
  cbn [existsb snd] in *. rewrite Es, IH. reflexivity.
Qed.

Lemma xpile_info_cong mw s a b kc kc' :
  Forall2 (xprel mw s) a b -> mw = xpile_max_width b ->
  (is_fixed s = false -> 0 <= fst s) -> (is_fixed s = true -> 0 <= mw) ->
  xieq s (xpile_info a kc') (xpile_info b kc).
Proof.
  intros H Emw Hs Hm. pose proof (xprel_stat _ _ _ _ H) as Hst.
  unfold xpile_info, xpile_cinfo. rewrite (xpile_sizing_stat _ _ Hst). destruct (xpile_sizing b) as [[bx f] x].
  unfold xieq. cbn [xc x_flow x_fixed x_pack fst snd i_rows].
  split; [repeat split; cbn [i_sel i_hascur i_hasmove i_box]; try reflexivity; apply (xpile_sel_cong mw s); exact H|].
  split; [reflexivity|]. split; [reflexivity|]. split; [apply xpile_max_width_stat; exact Hst|]. split.
  - intro Efx. rewrite <- (xrs_fixed_indep a s Efx), <- (xrs_fixed_indep b s Efx).
    rewrite (xpile_rows_sizes_cong mw s a b H Emw Hs Hm). reflexivity.
  - intros Efx Esn. specialize (Hs Efx). destruct s as [c r]. cbn [fst snd] in *. subst r.
    rewrite (xpile_item_rows_cong mw (c, None) a b Efx Hs H). reflexivity.
Qed.

(* ---- replacing one element of a list ---- *)
Fixpoint set_nth_g {B} (l : list B) (i : Z) (x : B) : list B :=
  match l with [] => [] | y :: r => if i =? 0 then x :: r else y :: set_nth_g r (i - 1) x end.

Lemma map_set_nth_g {B C} (f : B -> C) l i x : map f (set_nth_g l i x) = set_nth_g (map f l) i (f x).
Proof. revert i. induction l as [|y l IH]; intro i; [reflexivity|]. cbn [set_nth_g map]. destruct (i =? 0); cbn [map]; [reflexivity|]. rewrite IH. reflexivity. Qed.
Lemma set_nth_v_g l i v : set_nth_v l i v = set_nth_g l i v.
Proof. revert i. induction l as [|y l IH]; intro i; [reflexivity|]. cbn [set_nth_v set_nth_g]. rewrite IH. reflexivity. Qed.
Lemma set_nth_g_length {B} (l : list B) i x : length (set_nth_g l i x) = length l.
Proof. revert i. induction l as [|y l IH]; intro i; [reflexivity|]. cbn [set_nth_g]. destruct (i =? 0); cbn [length]; [reflexivity|]. rewrite IH. reflexivity. Qed.
Lemma nthz_set_nth_g_same {B} (l : list B) i x : 0 <= i < zlen l -> nthz (set_nth_g l i x) i = Some x.
Proof.
  revert i. induction l as [|y l IH]; intros i H; [unfold zlen in H; cbn in H; qlia|].
  cbn [set_nth_g]. destruct (i =? 0) eqn:E; rewrite nthz_cons, E; [reflexivity|].
  assert (E2 : i <? 0 = false) by qlia. rewrite E2. rewrite zlen_cons in H. apply IH. qlia.
Qed.
Lemma xkids_set_nth_w {A} (items : list (A * widget)) i c :
  map (fun it => xview (snd it)) (set_nth_w items i c) = set_nth_g (map (fun it => xview (snd it)) items) i (xview c).
Proof.
  revert i. induction items as [|[a w] items IH]; intro i; [reflexivity|]. cbn [set_nth_w map set_nth_g snd].
  destruct (i =? 0); cbn [map snd]; [reflexivity|]. f_equal. apply IH.
Qed.
Lemma combine_set_g {A B} (R : A * B -> A * B -> Prop) (opts : list A) l i x' o x :
  (forall z, R z z) -> nthz (combine opts l) i = Some (o, x) -> R (o, x') (o, x) ->
  Forall2 R (combine opts (set_nth_g l i x')) (combine opts l).
Proof.
  intros Hrefl. revert l i. induction opts as [|a opts IH]; intros l i Hn HR; [constructor|].
  destruct l as [|k l]; [cbn in Hn; rewrite nthz_nil in Hn; discriminate|].
  cbn [set_nth_g combine] in *. rewrite nthz_cons in Hn. destruct (i =? 0) eqn:E.
  - inversion Hn; subst. cbn [combine]. constructor; [exact HR|].
    clear - Hrefl. induction (combine opts l); constructor; auto.
  - destruct (i <? 0); [discriminate|]. cbn [combine]. constructor; [apply Hrefl|]. apply IH; assumption.
Qed.
Lemma sized_set_nth_w {A} (items : list (A * widget)) (g : A -> bool) i c o c0 :
  nthz items i = Some (o, c0) -> sized_tree c = sized_tree c0 ->
  forallb (fun it => g (fst it) && sized_tree (snd it)) (set_nth_w items i c)
  = forallb (fun it => g (fst it) && sized_tree (snd it)) items.
Proof.
  revert i. induction items as [|[a w] items IH]; intros i Hn Hs; [reflexivity|]. cbn [set_nth_w].
  rewrite nthz_cons in Hn. destruct (i =? 0) eqn:E.
  - inversion Hn; subst. cbn [forallb fst snd]. rewrite Hs. reflexivity.
  - destruct (i <? 0); [discriminate|]. cbn [forallb]. rewrite (IH _ Hn Hs). reflexivity.
Qed.

(* a box size demands nothing of a child's rows() or packed height *)
Lemma xieq_box c n s0 a b : xieq s0 a b -> 0 <= c -> xieq (c, Some n) a b.
Proof.
  intros [H1 [H2 [H3 [H4 _]]]] Hc. split; [exact H1|]. split; [exact H2|]. split; [exact H3|]. split; [exact H4|].
  split; [intro E; rewrite (not_fixed_nonneg c (Some n) Hc) in E; discriminate E|intros _ E; discriminate E].
Qed.

(* the size an item gets in get_rows_sizes is the size class [xitem_cs] (up to the number of rows of a box size) *)
Lemma xrs_nth_cs its s i h cs o xi :
  (is_fixed s = false -> 0 <= fst s) ->
  nthz (xpile_rows_sizes its s) i = Some (h, cs) -> nthz its i = Some (o, xi) ->
  cs = xitem_cs (xpile_max_width its) s o xi \/
  (exists n, cs = (fst s, Some n) /\ exists n', xitem_cs (xpile_max_width its) s o xi = (fst s, Some n')).
Proof.
  intros Hs Hn Hi. unfold xpile_rows_sizes in Hn. unfold xitem_cs. destruct (is_fixed s) eqn:Efx.
  - destruct (xpile_fixed_supported its); [|rewrite nthz_nil in Hn; discriminate].
    rewrite nthz_map, Hi in Hn. cbn [option_map snd] in Hn. destruct (x_flow xi); inversion Hn; left; reflexivity.
  - rewrite nthz_map in Hn.
    destruct (nthz (combine its (xpile_item_rows its s)) i) as [[[o1 xi1] ir]|] eqn:E; [|discriminate].
    apply nthz_combine_inv in E as [Ei _]. rewrite Hi in Ei. inversion Ei; subst o1 xi1. cbn [option_map] in Hn.
    destruct o as [|n|n].
    + inversion Hn. left. reflexivity.
    + inversion Hn. left. reflexivity.
    + destruct (snd s); inversion Hn; [right; eauto|left; reflexivity].
Qed.

Lemma xmove_ok_pile items fp : Forall (fun it => XMoveOK (snd it)) items -> XMoveOK (Pile items fp).
Proof.
  intro IH. destruct (sized_tree (Pile items fp)) eqn:Hz; [apply xmove_ok_sized; exact Hz|].
  intros s col row. rewrite (xview_unsized' _ Hz I). unfold xnodeof, xselfof. cbn [xkids xnode_of fst snd].
  set (kids := map (fun it : popt * widget => xview (snd it)) items).
  set (its := combine (map fst items) (map snd kids)).
  intros Hf Hm. cbn [xinterp interp v_move v_info] in *. unfold interp_move.
  destruct (xinterp_fits_inv _ _ _ _ Hf) as [Hsok [Hn Hkids]].
  assert (Elen : length (map fst items) = length (map snd kids)) by (unfold kids; rewrite !map_length; reflexivity).
  assert (Eki : map snd its = map snd kids) by (apply map_snd_combine; exact Elen).
  assert (Ezl : zlen its = zlen items).
  { unfold its. rewrite (zlen_combine_same _ _ Elen). apply zlen_map. }
  assert (Ezk : zlen kids = zlen items) by (unfold kids; apply zlen_map).
  unfold xpile_node in Hn, Hkids |- *. cbn [n_move n_fits n_place n_info] in *.
  assert (Hs0 : is_fixed s = false -> 0 <= fst s).
  { intro E. destruct (not_fixed_pos s Hsok E) as [H _]. qlia. }
  assert (Hm0 : is_fixed s = true -> 0 <= xpile_max_width its).
  { intro E. unfold xpile_fits in Hn. rewrite E in Hn. apply andb_true_iff in Hn as [_ Hn]. qlia. }
  destruct (xpile_move its s col row) as [| |i|i cs c' r' nf] eqn:E; cbn [m_ok m_w m_asked]; cbv zeta.
  - intro H; discriminate H.
  - exfalso. unfold xpile_move in E. destruct (pile_find _ _ _ _) as [[[? ?] ?]|]; [|discriminate]. cbv zeta in E.
    destruct (i_sel _) in E; cbn [negb] in E; [|discriminate]. destruct (i_hasmove _) in E; discriminate.
  - (* focus moved, child not asked *)
    intros _. cbn [set_focus].
    assert (Hz' : sized_tree (Pile items i) = false) by exact Hz.
    rewrite (xview_unsized' _ Hz' I). unfold xnodeof, xselfof. cbn [xkids xnode_of fst snd]. fold kids. fold its.
    split; [reflexivity|]. split; [apply xieq_refl|]. split; [|intro H; congruence].
    unfold xpile_move in E. destruct (pile_find (xpile_rows_sizes its s) 0 0 row) as [[[i0 wrow] cs0]|] eqn:Efind; [|discriminate].
    cbv zeta in E. destruct (i_sel _) in E; cbn [negb] in E; [|discriminate]. destruct (i_hasmove _) in E; [discriminate|]. inversion E; subst i0.
    destruct (xpile_find_placed its fp s row i wrow cs0 Hn Hsok Efind) as [Hi _].
    eapply (xstep_refits (Pile items fp) (Pile items i)); [exact Hf| |].
    + unfold xpile_node. cbn [n_fits]. apply (xpile_fits_refocus its fp s i Hn Hi).
    + unfold xpile_node. cbn [n_place]. intros q Hq. apply (xpile_place_refocus its fp s i q Hn Hsok Hq).
  - unfold xpile_move in E. destruct (pile_find (xpile_rows_sizes its s) 0 0 row) as [[[i0 wrow] cs0]|] eqn:Efind; [|discriminate].
    cbv zeta in E.
    destruct (i_sel (xc (nth_xinfo (map snd its) i0))) eqn:Esel; cbn [negb] in E; [|discriminate].
    destruct (i_hasmove (xc (nth_xinfo (map snd its) i0))) eqn:Ehm; [|discriminate].
    inversion E; subst i0 cs0 c' r' nf. clear E.
    destruct (xpile_find_placed its fp s row i wrow cs Hn Hsok Efind) as [Hi [Hw Hpl]].
    destruct (Hpl fp) as [Hp Hfun]. destruct (Hpl i) as [Hp' _].
    assert (Hik : 0 <= i < zlen kids) by qlia.
    destruct (nthz_some items i) as [[o ci] Hni]; [qlia|].
    assert (Hnk : nthz kids i = Some (xview ci)) by (unfold kids; rewrite nthz_map, Hni; reflexivity).
    assert (Ekid : forall d, nth_view d (map fst kids) i = fst (xview ci)).
    { intro d. unfold nth_view. rewrite nthz_map, Hnk. reflexivity. }
    assert (Einfo : nth_xinfo (map snd its) i = snd (xview ci)).
    { rewrite Eki. unfold nth_xinfo. rewrite nthz_map, Hnk. reflexivity. }
    rewrite Ekid. rewrite Einfo in Esel, Ehm.
    set (v := fst (xview ci)) in *. set (xi := snd (xview ci)) in *.
    destruct (xall_all ci) as [[Ok [FO _]] _]. unfold XOk in Ok. fold v xi in Ok, FO.
    assert (Hcf : v_fits v cs = true).
    { specialize (Hkids _ Hp). cbn [p_idx p_size] in Hkids. rewrite Ekid in Hkids. exact Hkids. }
    assert (IHi : XMoveOK ci).
    { rewrite Forall_forall in IH. apply (IH (o, ci)). eapply nthz_In; eauto. }
    rewrite <- Ok in Ehm. specialize (IHi cs col (row - wrow) Hcf Ehm). cbv zeta in IHi. fold v xi in IHi.
    destruct (m_ok (v_move v cs col (row - wrow))) eqn:Eok; cbn [m_ok m_w m_asked]; [|intro H; discriminate H].
    intros _. cbn [set_child set_focus] in *.
    set (c2 := m_w (v_move v cs col (row - wrow))) in *.
    destruct (IHi eq_refl) as [Hz2 [Hieq [Hfit' Hasked]]]. clear IHi.
    assert (Hz' : sized_tree (Pile (set_nth_w items i c2) i) = false).
    { rewrite <- Hz. cbn [sized_tree].
      change (forallb (fun it : popt * widget => (fun _ : popt => true) (fst it) && sized_tree (snd it)) (set_nth_w items i c2)
              = forallb (fun it : popt * widget => (fun _ : popt => true) (fst it) && sized_tree (snd it)) items).
      apply (sized_set_nth_w items (fun _ => true) i c2 o ci Hni Hz2). }
    rewrite (xview_unsized' _ Hz' I). unfold xnodeof, xselfof. cbn [xkids xnode_of fst snd].
    rewrite xkids_set_nth_w, map_fst_set_nth_w. fold kids. rewrite !map_set_nth_g.
    set (xi2 := snd (xview c2)) in *. set (v2 := fst (xview c2)) in *.
    set (its' := combine (map fst items) (set_nth_g (map snd kids) i xi2)).
    assert (Hits : nthz its i = Some (o, xi)).
    { unfold its. apply nthz_combine; [rewrite nthz_map, Hni; reflexivity|]. rewrite nthz_map, Hnk. reflexivity. }
    assert (Hrs : exists h, nthz (xpile_rows_sizes its s) i = Some (h, cs)).
    { destruct (pile_find_inv _ _ _ _ _ _ _ Efind) as [pre [x [post [Ers [Ei [_ [Ecs _]]]]]]].
      pose proof (nthz_app_mid pre x post) as Hx. rewrite <- Ers in Hx. replace (zlen pre) with i in Hx by qlia.
      destruct x as [h0 cs0]. cbn [snd] in Ecs. subst cs0. exists h0. exact Hx. }
    destruct Hrs as [h0 Hrs].
    assert (Hrel : Forall2 (xprel (xpile_max_width its) s) its' its).
    { unfold its', its. apply (combine_set_g (xprel (xpile_max_width its) s) (map fst items) (map snd kids) i xi2 o xi).
      - apply xprel_refl.
      - exact Hits.
      - split; [reflexivity|]. cbn [fst snd].
        destruct (xrs_nth_cs its s i h0 cs o xi Hs0 Hrs Hits) as [<-|[n [Ecs [n' Ecs']]]]; [exact Hieq|].
        rewrite Ecs'. apply (xieq_box _ _ _ _ _ Hieq). destruct (is_fixed s) eqn:Efs; [|apply Hs0; reflexivity].
        exfalso. unfold xitem_cs in Ecs'. rewrite Efs in Ecs'. destruct (x_flow xi); discriminate Ecs'. }
    pose proof (xprel_stat _ _ _ _ Hrel) as Hst.
    assert (Emw : xpile_max_width its = xpile_max_width its) by reflexivity.
    assert (Elen' : length (map fst items) = length (set_nth_g (map snd kids) i xi2)).
    { rewrite set_nth_g_length. exact Elen. }
    assert (Eki' : map snd its' = set_nth_g (map snd kids) i xi2) by (apply map_snd_combine; exact Elen').
    assert (Efits : xpile_fits its' i s = true).
    { rewrite (xpile_fits_cong _ s its' its i Hrel Emw Hs0 Hm0). apply (xpile_fits_refocus its fp s i Hn Hi). }
    assert (Ers : xpile_rows_sizes its' s = xpile_rows_sizes its s) by (apply (xpile_rows_sizes_cong _ s its' its Hrel Emw Hs0 Hm0)).
    split; [rewrite Hz, Hz'; reflexivity|]. split; [apply (xpile_info_cong _ s its' its _ _ Hrel Emw Hs0 Hm0)|]. split.
    + rewrite <- set_nth_v_g.
      apply (xstep_fits (Pile items fp) _ (xpile_node its fp) _ (map fst kids) i v2 s Hf).
      * unfold xpile_node. cbn [n_fits]. exact Efits.
      * unfold xpile_node. cbn [n_place]. intros q Hq. rewrite Ers in Hq. apply (xpile_place_refocus its fp s i q Hn Hsok Hq).
      * unfold xpile_node. cbn [n_place]. intros q Hq Hqi. rewrite (Hfun q Hq Hqi). cbn [p_size]. exact Hfit'.
      * rewrite zlen_map. exact Hik.
    + intro Hne. destruct (Hasked Hne) as [_ [Hrow [x Hcur]]].
      destruct Hieq as [[Es [Ec [Em Eb]]] Erest].
      destruct (xall_all c2) as [[Ok2 _] _]. unfold XOk in Ok2. fold v2 xi2 in Ok2.
      split; [|split].
      * unfold xpile_cinfo. destruct (xpile_sizing its) as [[? ?] ?]. cbn [i_sel]. apply existsb_exists.
        exists (o, xi). split; [eapply nthz_In; eauto|]. exact Esel.
      * pose proof (xpile_within its fp (map x_ccols (map snd kids)) s _ Hn Hsok Hp) as HW. cbn [p_idx p_size p_x p_y] in HW.
        rewrite Einfo in HW. destruct HW as [_ [_ [Hy0 Hy1]]]; [apply FO; exact Hcf|]. clear - Hy0 Hy1 Hrow Hw. qlia.
      * set (kids' := set_nth_g kids i (v2, xi2)).
        assert (Ekv' : map fst kids' = set_nth_g (map fst kids) i v2) by (unfold kids'; rewrite map_set_nth_g; reflexivity).
        assert (Ekx' : map snd kids' = set_nth_g (map snd kids) i xi2) by (unfold kids'; rewrite map_set_nth_g; reflexivity).
        rewrite <- Ekv'.
        assert (Hk2 : nthz kids' i = Some (v2, xi2)) by (apply nthz_set_nth_g_same; exact Hik).
        assert (Ev2 : nth_view (Pile (set_nth_w items i c2) i) (map fst kids') i = v2).
        { unfold nth_view. rewrite nthz_map, Hk2. reflexivity. }
        assert (Ex2 : nth_xinfo (map snd kids') i = xi2).
        { unfold nth_xinfo. rewrite nthz_map, Hk2. reflexivity. }
        apply (xstep_cursor _ (xpile_node its' i) kids' s i cs x (row - wrow) row).
        -- rewrite Ekx', <- Eki'. apply (xpile_cursor_ok its' i []).
        -- unfold xpile_node. cbn [n_fits]. exact Efits.
        -- exact Hsok.
        -- exists (Placed i 0 wrow cs (i =? i) false). unfold xpile_node. cbn [n_place p_isfocus p_idx p_size p_y].
           split; [rewrite Ers; exact Hp'|]. clear. repeat split; qlia.
        -- rewrite Ev2. exact Hcur.
        -- rewrite Ex2, Es. exact Esel.
        -- rewrite Ex2, <- Ok2. apply xhasmove_hascur. fold v2. rewrite Ok2, Em, <- Ok. exact Ehm.
        -- apply FO. exact Hcf.
        -- rewrite Ex2. rewrite (xh_xieq cs xi2 xi); [apply Hrow|]. split; [repeat split; assumption|exact Erest].
Qed.


(* ------------------------------------------------------------------------------------------ *)
(* Part 6: Columns                                                                             *)
(* ------------------------------------------------------------------------------------------ *)
(* Columns.column_widths with 'pack' columns = column_widths of Geometry.v once each 'pack' column is given the
   width its widget packs to *)
Definition resolve_opt (mw maxcol : Z) (it : copt * bool * xinfo) : copt :=
  match fst (fst it) with CPack => CGiven (xstatic_w CPack (snd it) mw maxcol) | o => o end.

Lemma resolve_static mw maxcol it :
  static_w (resolve_opt mw maxcol it) mw = xstatic_w (fst (fst it)) (snd it) mw maxcol.
Proof. destruct it as [[o b] xi]. unfold resolve_opt. cbn [fst snd]. destruct o; reflexivity. Qed.

Lemma xcw_phase1_resolve items : forall i fp dc mw maxcol shared,
  xcw_phase1 items i fp dc mw maxcol shared = cw_phase1 (map (resolve_opt mw maxcol) items) i fp dc mw shared.
Proof.
  induction items as [|[[o b] xi] items IH]; intros i fp dc mw maxcol shared; [reflexivity|].
  cbn [xcw_phase1 map cw_phase1]. rewrite (resolve_static mw maxcol (o, b, xi)). cbn [fst snd].
  destruct ((shared <? xstatic_w o xi mw maxcol + dc) && (fp <? i)); [reflexivity|].
  rewrite IH. destruct (cw_phase1 _ _ _ _ _ _) as [[ws sh] wt]. destruct o; reflexivity.
Qed.

Lemma xcolumn_widths_resolve items fp dc mw maxcol :
  xcolumn_widths items fp dc mw maxcol = column_widths (map (resolve_opt mw maxcol) items) fp dc mw maxcol.
Proof. unfold xcolumn_widths, column_widths. rewrite xcw_phase1_resolve. reflexivity. Qed.

Lemma xcolumn_widths_fp items fp fp' dc mw maxcol :
  0 <= dc -> forallb (fun it : copt * bool * xinfo => 0 <=? xstatic_w (fst (fst it)) (snd it) mw maxcol) items = true ->
  zsum (map (fun it : copt * bool * xinfo => xstatic_w (fst (fst it)) (snd it) mw maxcol + dc) items) <= maxcol + dc ->
  xcolumn_widths items fp dc mw maxcol = xcolumn_widths items fp' dc mw maxcol.
Proof.
  intros Hd Hall Hsum. rewrite !xcolumn_widths_resolve. apply column_widths_fp; [exact Hd| |].
  - apply Forall_map. apply Forall_forall. intros it Hit. rewrite resolve_static.
    rewrite forallb_forall in Hall. specialize (Hall it Hit). qlia.
  - rewrite map_map. erewrite map_ext; [exact Hsum|]. intro it. cbv beta. rewrite resolve_static. reflexivity.
Qed.

Lemma xcolumns_fits_static its fp dc mw s :
  xcolumns_fits its fp dc mw s = true -> is_fixed s = false ->
  0 <= dc /\ forallb (fun it : copt * bool * xinfo => 0 <=? xstatic_w (fst (fst it)) (snd it) mw (fst s)) its = true /\
  zsum (map (fun it : copt * bool * xinfo => xstatic_w (fst (fst it)) (snd it) mw (fst s) + dc) its) <= fst s + dc.
Proof.
  intros Hf Efx. unfold xcolumns_fits in Hf. rewrite Efx in Hf. cbn [orb] in Hf.
  apply andb_true_iff in Hf as [Hf H8]. apply andb_true_iff in H8 as [H8 H10]. apply andb_true_iff in H8 as [H8 H9].
  apply andb_true_iff in Hf as [Hf H7]. apply andb_true_iff in Hf as [Hf H6].
  apply andb_true_iff in Hf as [Hf H5]. apply andb_true_iff in Hf as [Hf H4]. 
  split; [qlia|]. split; [exact H9|qlia].
Qed.

Lemma xcolumns_sizes_fp its fp fp' dc mw s :
  xcolumns_fits its fp dc mw s = true ->
  xcolumns_sizes its fp' dc mw s = xcolumns_sizes its fp dc mw s.
Proof.
  intro Hf. unfold xcolumns_sizes. destruct (is_fixed s) eqn:Efx; [reflexivity|].
  destruct (xcolumns_fits_static its fp dc mw s Hf Efx) as [Hd [Hall Hsum]].
  rewrite (xcolumn_widths_fp its fp' fp dc mw (fst s) Hd Hall Hsum). reflexivity.
Qed.

Lemma xcolumns_fits_refocus its fp fp' dc mw s :
  xcolumns_fits its fp dc mw s = true -> 0 <= fp' < zlen its -> xcolumns_fits its fp' dc mw s = true.
Proof.
  intros Hf Hi. pose proof (xcolumns_sizes_fp its fp fp' dc mw s Hf) as E.
  unfold xcolumns_fits in *. rewrite E.
  repeat (apply andb_true_iff in Hf as [Hf ?]).
  repeat (apply andb_true_iff; split); try assumption; qlia.
Qed.

Section XColumnsTarget.
  Variable its : xc_items.
  Variable fp dc mw : Z.

  Lemma xcolumns_best_placed s col i x e csz :
    xcolumns_fits its fp dc mw s = true ->
    columns_best (xcolumns_sizes its fp dc mw s) (map (fun it : copt * bool * xinfo => i_sel (xc (snd it))) its) 0 0 dc col None
      = Some (i, x, e, csz) ->
    0 <= i < zlen its /\ i_sel (xc (nth_xinfo (map snd its) i)) = true /\
    (forall fp', In (Placed i x 0 csz (fp' =? i) false)
                    (columns_place_from (xcolumns_sizes its fp dc mw s) 0 0 (zlen (xcolumns_sizes its fp dc mw s)) fp' dc) /\
      (forall q, In q (columns_place_from (xcolumns_sizes its fp dc mw s) 0 0 (zlen (xcolumns_sizes its fp dc mw s)) fp' dc) ->
                 p_idx q = i -> q = Placed i x 0 csz (fp' =? i) false)).
  Proof.
    intros Hf Hb. destruct (xcolumns_fits_inv its fp dc mw s Hf) as [Hfp [Hdc [Hlen [Hw _]]]].
    destruct (columns_best_inv _ _ _ _ _ _ _ _ Hb) as [Hn|[pre [t [post [E [Hsel Hr]]]]]]; [discriminate|].
    inversion Hr; subst i x e csz. clear Hr.
    pose proof Hw as Hw'. rewrite E in Hw'. apply Forall_app in Hw' as [Hpre Hrest].
    pose proof (Forall_inv Hrest) as Ht. cbn beta in Ht.
    pose proof Hlen as Hlen'. rewrite E, zlen_app, zlen_cons in Hlen'. pose proof (zlen_nonneg pre). pose proof (zlen_nonneg post).
    replace (0 + zlen pre) with (zlen pre) by qlia. replace (0 + xoff dc pre) with (xoff dc pre) by qlia.
    split; [qlia|]. split.
    - rewrite nthz_map in Hsel. destruct (nthz its (zlen pre)) as [[[o b] xi]|] eqn:Ei; [|discriminate].
      cbn [option_map snd] in Hsel. unfold nth_xinfo. rewrite nthz_map, Ei. cbn [option_map snd]. congruence.
    - intro fp'. split.
      + rewrite E at 1.
        pose proof (columns_place_from_in fp' dc pre t post 0 0 _ eq_refl Hpre Ht) as G.
        replace (0 + zlen pre) with (zlen pre) in G by qlia. replace (0 + xoff dc pre) with (xoff dc pre) in G by qlia.
        rewrite E. exact G.
      + intros q Hq Hqi.
        destruct (columns_place_from_inv fp' dc _ 0 0 _ q eq_refl Hw Hq) as [pre2 [t2 [post2 [E2 ->]]]].
        cbn [p_idx] in Hqi. rewrite E in E2.
        destruct (app_mid_eq pre pre2 t t2 post post2 E2) as [<- [<- <-]].
        { unfold zlen in *. qlia. }
        f_equal; qlia.
  Qed.

  Lemma xcolumns_target : XMoveTarget (xcolumns_node its fp dc mw) (map snd its).
  Proof.
    unfold xcolumns_node. intros s col row i cs c' r' nf Hf Hok _ E. cbn [n_fits n_move n_place] in *. unfold xcolumns_move in E.
    cbv zeta in E.
    destruct (columns_best (xcolumns_sizes its fp dc mw s) (map (fun it : copt * bool * xinfo => i_sel (xc (snd it))) its) 0 0 dc col None)
      as [[[[i0 x0] e0] cs0]|] eqn:Ebest; [|discriminate].
    destruct (i_hasmove (xc (nth_xinfo (map snd its) i0))) eqn:Eh; [|discriminate].
    inversion E; subst. split; [exact Eh|].
    destruct (xcolumns_best_placed s col i x0 e0 cs Hf Ebest) as [Hi [Hsel Hpl]]. destruct (Hpl fp) as [Hin Hfun].
    split; [rewrite zlen_map; exact Hi|]. split; [right; auto|].
    exists (Placed i x0 0 cs (fp =? i) false). cbn [p_idx p_size p_y p_isfocus].
    repeat split; auto; try qlia. intro H; discriminate H.
  Qed.

  Lemma xcolumns_place_refocus s fp' q :
    xcolumns_fits its fp dc mw s = true ->
    In q (columns_place_from (xcolumns_sizes its fp dc mw s) 0 0 (zlen (xcolumns_sizes its fp dc mw s)) fp' dc) ->
    exists q0, In q0 (columns_place_from (xcolumns_sizes its fp dc mw s) 0 0 (zlen (xcolumns_sizes its fp dc mw s)) fp dc)
               /\ p_idx q0 = p_idx q /\ p_size q0 = p_size q.
  Proof.
    intros Hf Hq. destruct (xcolumns_fits_inv its fp dc mw s Hf) as [_ [_ [_ [Hw _]]]].
    destruct (columns_place_from_inv fp' dc _ 0 0 _ q eq_refl Hw Hq) as [pre [x [post [E ->]]]].
    pose proof Hw as Hw'. rewrite E in Hw'. apply Forall_app in Hw' as [Hpre Hrest]. pose proof (Forall_inv Hrest) as Hx. cbn beta in Hx.
    exists (Placed (0 + zlen pre) (0 + xoff dc pre) 0 (snd x) (fp =? 0 + zlen pre) false).
    split; [|split; reflexivity]. rewrite E at 1. rewrite E. apply columns_place_from_in; auto.
  Qed.
End XColumnsTarget.

(* the size class a column's widget is rendered with (the number of rows of a box size does not matter) *)
Definition xcol_cs (s : size) (w : Z) (it : copt * bool * xinfo) : size :=
  let '(o, isbox, xi) := it in
  if is_fixed s then match o with CGiven n => if isbox then (n, Some 0) else (n, None) | _ => fixed_size end
  else
    let bx := match snd s with Some _ => i_box (xc xi) || isbox | None => isbox end in
    if bx then (w, Some 0) else if x_flow xi then (w, None) else if is_cpack o then fixed_size else (w, Some 0).
Definition xcrel_f (s : size) (x y : copt * bool * xinfo) : Prop :=
  fst x = fst y /\ xieq (xcol_cs s 0 y) (snd x) (snd y).
Definition xzrel (s : size) (p q : Z * (copt * bool * xinfo)) : Prop :=
  fst p = fst q /\ fst (snd p) = fst (snd q) /\ xieq (xcol_cs s (fst q) (snd q)) (snd (snd p)) (snd (snd q)).

Lemma xstatic_w_stat o xi xi' mw maxcol : xstat xi xi' -> xstatic_w o xi mw maxcol = xstatic_w o xi' mw maxcol.
Proof. intros [Hf [Hx [Hp _]]]. unfold xstatic_w. rewrite Hf, Hx, Hp. reflexivity. Qed.

Lemma xcw_phase1_stat a b : Forall2 crel_stat a b -> forall i fp dc mw maxcol shared,
  xcw_phase1 a i fp dc mw maxcol shared = xcw_phase1 b i fp dc mw maxcol shared.
Proof.
  intro H. induction H as [|[[o ib] xi] [[o' ib'] xi'] l l' [Ho Hs] _ IH]; intros i fp dc mw maxcol shared; [reflexivity|].
  cbn [xcw_phase1 fst snd] in *. inversion Ho; subst o' ib'. rewrite (xstatic_w_stat o xi xi' mw maxcol Hs), IH. reflexivity.
Qed.
Lemma xcolumn_widths_stat a b fp dc mw maxcol : Forall2 crel_stat a b -> xcolumn_widths a fp dc mw maxcol = xcolumn_widths b fp dc mw maxcol.
Proof. intro H. unfold xcolumn_widths. rewrite (xcw_phase1_stat a b H). reflexivity. Qed.

(* one column of a Columns rendered fixed *)
Lemma xcol_fixed_item s x y :
  is_fixed s = true -> xcrel_f s x y -> (match fst (fst y) with CGiven n => 1 <= n | _ => True end) ->
  (let '(o, isbox, xi) := x in match o with CGiven n => if isbox then [] else [i_rows (xc xi) n] | _ => [snd (x_pack xi)] end)
  = (let '(o, isbox, xi) := y in match o with CGiven n => if isbox then [] else [i_rows (xc xi) n] | _ => [snd (x_pack xi)] end)
  /\ forall mh,
     (let '(o, isbox, xi) := x in
      match o with
      | CGiven n => if isbox then (n, mh, (n, Some mh)) else (n, i_rows (xc xi) n, (n, None))
      | _ => (fst (x_pack xi), snd (x_pack xi), fixed_size)
      end)
     = (let '(o, isbox, xi) := y in
      match o with
      | CGiven n => if isbox then (n, mh, (n, Some mh)) else (n, i_rows (xc xi) n, (n, None))
      | _ => (fst (x_pack xi), snd (x_pack xi), fixed_size)
      end).
Proof.
  intros Efx [Ho Hx] Hn. destruct x as [[o ib] xi], y as [[o' ib'] xi']. cbn [fst snd] in *. inversion Ho; subst o' ib'.
  unfold xcol_cs in Hx. rewrite Efx in Hx. destruct (xieq_stat _ _ _ Hx) as [_ [_ [Hp _]]].
  destruct o as [n| |].
  - destruct ib; [split; reflexivity|]. assert (Hn0 : 0 <= n) by qlia. rewrite (xieq_rows n xi xi' Hn0 Hx). split; reflexivity.
  - rewrite (xieq_pack _ _ Hx), Hp. split; reflexivity.
  - rewrite (xieq_pack _ _ Hx), Hp. split; reflexivity.
Qed.

(* one column of a Columns rendered with (maxcol,) or (maxcol, maxrow) *)
Lemma xcol_sized_item s p q :
  is_fixed s = false -> xzrel s p q -> 1 <= fst q ->
  i_box (xc (snd (snd p))) = i_box (xc (snd (snd q))) /\ x_flow (snd (snd p)) = x_flow (snd (snd q)) /\
  (x_flow (snd (snd q)) = true -> i_box (xc (snd (snd q))) || snd (fst (snd q)) = false \/ snd s = None /\ snd (fst (snd q)) = false ->
     i_rows (xc (snd (snd p))) (fst q) = i_rows (xc (snd (snd q))) (fst q)) /\
  (x_flow (snd (snd q)) = false -> is_cpack (fst (fst (snd q))) = true ->
     i_box (xc (snd (snd q))) || snd (fst (snd q)) = false \/ snd s = None /\ snd (fst (snd q)) = false ->
     snd (x_pack (snd (snd p))) = snd (x_pack (snd (snd q)))).
Proof.
  intros Efx [Hw [Ho Hx]] Hq. destruct p as [w [[o ib] xi]], q as [w' [[o' ib'] xi']]. cbn [fst snd] in *.
  inversion Ho; subst o' ib'. subst w'. destruct (xieq_stat _ _ _ Hx) as [Hf [_ [_ Hb]]].
  split; [exact Hb|]. split; [exact Hf|]. unfold xcol_cs in Hx. rewrite Efx in Hx.
  assert (Hw0 : 0 <= w) by qlia.
  split.
  - intros Efl Hcase. rewrite Efl in Hx.
    destruct Hcase as [Hc|[Es Hc]].
    + assert (Ebx : match snd s with Some _ => i_box (xc xi') || ib | None => ib end = false).
      { destruct (snd s); [exact Hc|]. apply orb_false_iff in Hc as [_ Hc]. exact Hc. }
      rewrite Ebx in Hx. apply (xieq_rows w xi xi' Hw0 Hx).
    + rewrite Es, Hc in Hx. apply (xieq_rows w xi xi' Hw0 Hx).
  - intros Efl Ecp Hcase. rewrite Efl, Ecp in Hx.
    destruct Hcase as [Hc|[Es Hc]].
    + assert (Ebx : match snd s with Some _ => i_box (xc xi') || ib | None => ib end = false).
      { destruct (snd s); [exact Hc|]. apply orb_false_iff in Hc as [_ Hc]. exact Hc. }
      rewrite Ebx in Hx. apply (xieq_pack _ _ Hx).
    + rewrite Es, Hc in Hx. apply (xieq_pack _ _ Hx).
Qed.

Lemma xcolumns_sizes_cong_fixed s a b fp dc mw :
  is_fixed s = true -> Forall2 (xcrel_f s) a b ->
  Forall (fun t => 1 <= cw t) (xcolumns_sizes b fp dc mw s) ->
  xcolumns_sizes a fp dc mw s = xcolumns_sizes b fp dc mw s.
Proof.
  intros Efx H Hw.
  assert (Hst : Forall2 crel_stat a b).
  { clear Hw. induction H as [|x y l l' [H1 H2] _ IH]; constructor; auto. split; [exact H1|]. eapply xieq_stat; eauto. }
  unfold xcolumns_sizes in *. rewrite Efx in *. rewrite (xcolumns_fixed_supported_stat a b Hst).
  destruct (xcolumns_fixed_supported b); [|reflexivity].
  set (hsf := fun it : copt * bool * xinfo => let '(o, isbox, xi) := it in
                  match o with CGiven n => if isbox then [] else [i_rows (xc xi) n] | _ => [snd (x_pack xi)] end) in *.
  cbv zeta in *.
  set (F := fun (mh : Z) (it : copt * bool * xinfo) => let '(o, isbox, xi) := it in
             match o with
             | CGiven n => if isbox then (n, mh, (n, Some mh)) else (n, i_rows (xc xi) n, (n, None))
             | _ => (fst (x_pack xi), snd (x_pack xi), fixed_size)
             end) in *.
  assert (Hitems : Forall2 (fun x y => hsf x = hsf y /\ forall mh, F mh x = F mh y) a b).
  { revert Hw. generalize (zmaxl (flat_map hsf b)). intros mh Hw. clear Hst.
    induction H as [|x y l l' Hxy _ IH]; [constructor|]. cbn [map] in Hw. pose proof (Forall_inv Hw) as Hw1. pose proof (Forall_inv_tail Hw) as Hw2.
    constructor; [|apply IH; assumption].
    apply (xcol_fixed_item s x y Efx Hxy). destruct y as [[o ib] xi]. cbn [fst]. unfold F, cw in Hw1.
    destruct o; [|exact I|exact I]. destruct ib; cbn [fst] in Hw1; exact Hw1. }
  assert (Ehs : flat_map hsf a = flat_map hsf b).
  { clear - Hitems. induction Hitems as [|x y l l' [H1 _] _ IH]; [reflexivity|]. cbn [flat_map]. rewrite H1, IH. reflexivity. }
  change (map (F (zmaxl (flat_map hsf a))) a = map (F (zmaxl (flat_map hsf b))) b).
  rewrite Ehs. generalize (zmaxl (flat_map hsf b)). intro mh.
  clear - Hitems. induction Hitems as [|x y l l' [_ H2] _ IH]; [reflexivity|]. cbn [map]. rewrite H2, IH. reflexivity.
Qed.

Lemma xcolumns_sizes_cong_sized s a b fp dc mw :
  is_fixed s = false -> Forall2 crel_stat a b ->
  Forall2 (xzrel s) (combine (xcolumn_widths b fp dc mw (fst s)) a) (combine (xcolumn_widths b fp dc mw (fst s)) b) ->
  Forall (fun t => 1 <= cw t) (xcolumns_sizes b fp dc mw s) ->
  xcolumns_sizes a fp dc mw s = xcolumns_sizes b fp dc mw s.
Proof.
  intros Efx Hst H Hw. unfold xcolumns_sizes in *. rewrite Efx in *. rewrite (xcolumn_widths_stat a b fp dc mw (fst s) Hst).
  set (ws := xcolumn_widths b fp dc mw (fst s)) in *. cbv zeta in *.
  destruct (snd s) as [maxrow|] eqn:Es.
  - (* box *)
    revert Hw. generalize (combine ws b) (combine ws a) H. clear H. intros zb za H Hw.
    induction H as [|p q l l' Hpq _ IH]; [reflexivity|]. cbn [map] in *.
    pose proof (Forall_inv Hw) as Hw1. pose proof (Forall_inv_tail Hw) as Hw2. rewrite (IH Hw2). f_equal.
    assert (Hq : 1 <= fst q).
    { destruct q as [w [[o ib] xi]]. cbn [fst]. unfold cw in Hw1.
      destruct (i_box (xc xi) || ib); [exact Hw1|]. destruct (x_flow xi); [exact Hw1|]. destruct (is_cpack o); exact Hw1. }
    destruct (xcol_sized_item s p q Efx Hpq Hq) as [Hb [Hf [Hr Hp]]].
    destruct Hpq as [Hw0 [Ho _]].
    destruct p as [w [[o ib] xi]], q as [w' [[o' ib'] xi']]. cbn [fst snd] in *. inversion Ho; subst o' ib'. subst w'.
    rewrite Hb, Hf. destruct (i_box (xc xi') || ib) eqn:Ebx; [reflexivity|].
    assert (E0 : 0 <? w = true) by qlia. rewrite E0.
    destruct (x_flow xi') eqn:Efl.
    + rewrite (Hr eq_refl (or_introl eq_refl)). reflexivity.
    + destruct (is_cpack o) eqn:Ecp; [|reflexivity]. rewrite (Hp eq_refl eq_refl (or_introl eq_refl)). reflexivity.
  - (* flow *)
    set (hsf := fun p : Z * (copt * bool * xinfo) => let '(width, (o, isbox, xi)) := p in
                  if isbox then []
                  else if x_flow xi then [if 0 <? width then i_rows (xc xi) width else 0]
                  else if is_cpack o then [if 0 <? width then snd (x_pack xi) else 0]
                  else []) in *.
    set (G := fun (mx : Z) (p : Z * (copt * bool * xinfo)) => let '(width, (o, isbox, xi)) := p in
             if isbox then (width, mx, (width, Some mx))
             else if x_flow xi then (width, (if 0 <? width then i_rows (xc xi) width else 0), (width, None))
             else if is_cpack o then (width, (if 0 <? width then snd (x_pack xi) else 0), fixed_size)
             else (width, mx, (width, Some mx))) in *.
    assert (Hitems : Forall2 (fun p q => hsf p = hsf q /\ forall mx, G mx p = G mx q) (combine ws a) (combine ws b)).
    { revert Hw. generalize (Z.max 1 (zmaxl (flat_map hsf (combine ws b)))). intros mx Hw.
      revert Hw. generalize (combine ws b) (combine ws a) H. clear H. intros zb za H Hw.
      induction H as [|p q l l' Hpq _ IH]; [constructor|]. cbn [map] in Hw.
      pose proof (Forall_inv Hw) as Hw1. pose proof (Forall_inv_tail Hw) as Hw2.
      constructor; [|apply IH; assumption].
      assert (Hq : 1 <= fst q).
      { destruct q as [w [[o ib] xi]]. cbn [fst]. unfold G, cw in Hw1.
        destruct ib; [exact Hw1|]. destruct (x_flow xi); [exact Hw1|]. destruct (is_cpack o); exact Hw1. }
      destruct (xcol_sized_item s p q Efx Hpq Hq) as [Hb [Hf [Hr Hp]]].
      destruct Hpq as [Hw0 [Ho _]].
      destruct p as [w [[o ib] xi]], q as [w' [[o' ib'] xi']]. cbn [fst snd] in *. inversion Ho; subst o' ib'. subst w'.
      unfold hsf, G. rewrite Hf. destruct ib; [split; reflexivity|].
      assert (E0 : 0 <? w = true) by qlia. rewrite E0.
      destruct (x_flow xi') eqn:Efl.
      + rewrite (Hr eq_refl (or_intror (conj Es eq_refl))). split; reflexivity.
      + destruct (is_cpack o) eqn:Ecp; [|split; reflexivity].
        rewrite (Hp eq_refl eq_refl (or_intror (conj Es eq_refl))). split; reflexivity. }
    assert (Ehs : flat_map hsf (combine ws a) = flat_map hsf (combine ws b)).
    { clear - Hitems. induction Hitems as [|x y l l' [H1 _] _ IH]; [reflexivity|]. cbn [flat_map]. rewrite H1, IH. reflexivity. }
    change (map (G (Z.max 1 (zmaxl (flat_map hsf (combine ws a))))) (combine ws a)
            = map (G (Z.max 1 (zmaxl (flat_map hsf (combine ws b))))) (combine ws b)).
    rewrite Ehs. generalize (Z.max 1 (zmaxl (flat_map hsf (combine ws b)))). intro mx.
    clear - Hitems. induction Hitems as [|x y l l' [_ H2] _ IH]; [reflexivity|]. cbn [map]. rewrite H2, IH. reflexivity.
Qed.

Lemma combine_set_inner {A B} (opts : list A) (l : list B) i o x' :
  nthz opts i = Some o -> combine opts (set_nth_g l i x') = set_nth_g (combine opts l) i (o, x').
Proof.
  revert l i. induction opts as [|a opts IH]; intros l i Hn; [rewrite nthz_nil in Hn; discriminate|].
  destruct l as [|y l]; [reflexivity|]. cbn [set_nth_g combine]. rewrite nthz_cons in Hn.
  destruct (i =? 0) eqn:E; [inversion Hn; reflexivity|]. destruct (i <? 0); [discriminate|].
  cbn [combine]. rewrite (IH l (i - 1) Hn). reflexivity.
Qed.

(* the entry of get_column_sizes of column i: its size is the size class [xcol_cs] *)
Lemma xcs_nth_cs its fp dc mw s i w h cs it :
  nthz (xcolumns_sizes its fp dc mw s) i = Some (w, h, cs) -> nthz its i = Some it ->
  (is_fixed s = false -> nthz (combine (xcolumn_widths its fp dc mw (fst s)) its) i = Some (w, it)) /\
  (cs = xcol_cs s w it \/ exists c n n', cs = (c, Some n) /\ xcol_cs s w it = (c, Some n')).
Proof.
  intros Hn Hi. unfold xcolumns_sizes in Hn. unfold xcol_cs. destruct it as [[o ib] xi]. destruct (is_fixed s) eqn:Efx.
  - split; [intro H; discriminate H|].
    destruct (xcolumns_fixed_supported its); [|rewrite nthz_nil in Hn; discriminate].
    rewrite nthz_map, Hi in Hn. cbn [option_map] in Hn.
    destruct o; [destruct ib|..]; inversion Hn; subst; [right; eauto|left; reflexivity..].
  - destruct (snd s) as [maxrow|] eqn:Es; rewrite nthz_map in Hn;
      destruct (nthz (combine (xcolumn_widths its fp dc mw (fst s)) its) i) as [[w0 [[o1 ib1] xi1]]|] eqn:E; try discriminate;
      pose proof E as E'; apply nthz_combine_inv in E' as [_ Ei]; rewrite Hi in Ei; inversion Ei; subst o1 ib1 xi1;
      cbn [option_map] in Hn.
    + destruct (i_box (xc xi) || ib); [inversion Hn; subst; split; [intros _; reflexivity|right; eauto]|].
      destruct (x_flow xi); [inversion Hn; subst; split; [intros _; reflexivity|left; reflexivity]|].
      destruct (is_cpack o); inversion Hn; subst; (split; [intros _; reflexivity|]); [left; reflexivity|right; eauto].
    + destruct ib; [inversion Hn; subst; split; [intros _; reflexivity|right; eauto]|].
      destruct (x_flow xi); [inversion Hn; subst; split; [intros _; reflexivity|left; reflexivity]|].
      destruct (is_cpack o); inversion Hn; subst; (split; [intros _; reflexivity|]); [left; reflexivity|right; eauto].
Qed.

Definition packrel (p q : (Z * Z * size) * (copt * bool * xinfo)) : Prop :=
  fst p = fst q /\ fst (x_pack (snd (snd p))) = fst (x_pack (snd (snd q))) /\
  (is_fixed (snd (fst q)) = true -> snd (x_pack (snd (snd p))) = snd (x_pack (snd (snd q)))).

Lemma forallb_impl2 {A} (f : A -> bool) (R : A -> A -> Prop) a b :
  (forall x y, R x y -> f y = true -> f x = true) -> Forall2 R a b -> forallb f b = true -> forallb f a = true.
Proof.
  intros HR H. induction H as [|x y l l' Hxy _ IH]; [reflexivity|]. cbn [forallb]. intro Hb.
  apply andb_true_iff in Hb as [H1 H2]. rewrite (HR _ _ Hxy H1), (IH H2). reflexivity.
Qed.

Lemma xcolumns_static_stat a b mw maxcol :
  Forall2 crel_stat a b ->
  map (fun it : copt * bool * xinfo => xstatic_w (fst (fst it)) (snd it) mw maxcol) a
  = map (fun it : copt * bool * xinfo => xstatic_w (fst (fst it)) (snd it) mw maxcol) b.
Proof.
  intro H. induction H as [|[[o ib] xi] [[o' ib'] xi'] l l' [Ho Hs] _ IH]; [reflexivity|].
  cbn [map fst snd] in *. inversion Ho; subst. rewrite (xstatic_w_stat o' xi xi' mw maxcol Hs), IH. reflexivity.
Qed.

Lemma xcolumns_fits_cong a b fp dc mw s :
  xcolumns_sizes a fp dc mw s = xcolumns_sizes b fp dc mw s -> Forall2 crel_stat a b ->
  Forall2 packrel (combine (xcolumns_sizes b fp dc mw s) a) (combine (xcolumns_sizes b fp dc mw s) b) ->
  xcolumns_fits b fp dc mw s = true -> xcolumns_fits a fp dc mw s = true.
Proof.
  intros Es Hst Hpk Hf. unfold xcolumns_fits in *. rewrite Es. cbv zeta in *.
  assert (El : zlen a = zlen b) by (unfold zlen; rewrite (forall2_length _ _ _ Hst); reflexivity). rewrite El.
  assert (E1 : forallb (fun it : copt * bool * xinfo => 0 <=? xstatic_w (fst (fst it)) (snd it) mw (fst s)) a
             = forallb (fun it : copt * bool * xinfo => 0 <=? xstatic_w (fst (fst it)) (snd it) mw (fst s)) b).
  { apply (forallb_cong _ crel_stat); [|exact Hst]. intros [[o ib] xi] [[o' ib'] xi'] [Ho Hx]. cbn [fst snd] in *.
    inversion Ho; subst. rewrite (xstatic_w_stat o' xi xi' mw (fst s) Hx). reflexivity. }
  assert (E2 : map (fun it : copt * bool * xinfo => xstatic_w (fst (fst it)) (snd it) mw (fst s) + dc) a
             = map (fun it : copt * bool * xinfo => xstatic_w (fst (fst it)) (snd it) mw (fst s) + dc) b).
  { clear - Hst. induction Hst as [|[[o ib] xi] [[o' ib'] xi'] l l' [Ho Hx] _ IH]; [reflexivity|].
    cbn [map fst snd] in *. inversion Ho; subst. rewrite (xstatic_w_stat o' xi xi' mw (fst s) Hx), IH. reflexivity. }
  rewrite E1, E2.
  apply andb_true_iff in Hf as [Hf H8]. apply andb_true_iff in Hf as [Hf H7].
  rewrite Hf, H8. cbn [andb]. rewrite andb_true_r.
  refine (forallb_impl2 _ packrel _ _ _ Hpk H7).
  intros [e1 [ob1 x1]] [e2 [ob2 x2]] [He [Hp1 Hp2]] Hq. cbn [fst snd] in *. subst e1.
  apply orb_true_iff in Hq as [Hq|Hq]; [rewrite Hq; reflexivity|].
  destruct (is_fixed (snd e2)) eqn:Efx; [|reflexivity]. cbn [negb orb]. rewrite Hp1, (Hp2 eq_refl). exact Hq.
Qed.

Lemma xcolumns_info_cong s a b fp fp' dc mw :
  Forall2 crel_stat a b -> Forall2 (fun x y : copt * bool * xinfo => feq (xc (snd x)) (xc (snd y))) a b ->
  xcolumns_sizes a fp' dc mw s = xcolumns_sizes b fp dc mw s ->
  xieq s (xcolumns_info a fp' dc mw) (xcolumns_info b fp dc mw).
Proof.
  intros Hst Hfe Es. unfold xcolumns_info, xcolumns_cinfo. rewrite (xcolumns_sizing_stat _ _ Hst).
  destruct (xcolumns_sizing b) as [[bx f] x]. unfold xieq. cbn [xc x_flow x_fixed x_pack fst snd i_rows].
  split.
  { repeat split; cbn [i_sel i_hascur i_hasmove i_box]; try reflexivity.
    apply (existsb_cong _ _ _ _ (fun x y H => proj1 H) Hfe). }
  split; [reflexivity|]. split; [reflexivity|]. split.
  - pose proof (xcolumns_fixed_widths_stat a b fp' fp dc mw Hst) as G.
    assert (G2 : zlen (xcolumns_sizes a fp' dc mw fixed_size) = zlen (xcolumns_sizes b fp dc mw fixed_size)).
    { unfold zlen. f_equal. rewrite <- (map_length (fun t : Z * Z * size => fst (fst t))), G, map_length. reflexivity. }
    rewrite G, G2. reflexivity.
  - split.
    + intro Efx. rewrite <- (xcs_fixed_indep a fp' dc mw s Efx), <- (xcs_fixed_indep b fp dc mw s Efx), Es. reflexivity.
    + intros Efx Esn. destruct s as [c r]. cbn [fst snd] in *. subst r. rewrite Es. reflexivity.
Qed.

Lemma crel_stat_refl x : crel_stat x x. Proof. split; [reflexivity|apply xstat_refl]. Qed.
Lemma packrel_refl p : packrel p p. Proof. repeat split. Qed.
Lemma xcrel_f_refl s x : xcrel_f s x x. Proof. split; [reflexivity|apply xieq_refl]. Qed.
Lemma xzrel_refl s p : xzrel s p p. Proof. split; [reflexivity|]. split; [reflexivity|apply xieq_refl]. Qed.

Lemma xmove_ok_columns items fp dc mw : Forall (fun it => XMoveOK (snd it)) items -> XMoveOK (Columns items fp dc mw).
Proof.
  intro IH. destruct (sized_tree (Columns items fp dc mw)) eqn:Hz; [apply xmove_ok_sized; exact Hz|].
  intros s col row. rewrite (xview_unsized' _ Hz I). unfold xnodeof, xselfof. cbn [xkids xnode_of fst snd].
  set (kids := map (fun it : copt * bool * widget => xview (snd it)) items).
  set (its := combine (map fst items) (map snd kids)).
  intros Hf Hm. cbn [xinterp interp v_move v_info] in *. unfold interp_move.
  destruct (xinterp_fits_inv _ _ _ _ Hf) as [Hsok [Hn Hkids]].
  assert (Elen : length (map fst items) = length (map snd kids)) by (unfold kids; rewrite !map_length; reflexivity).
  assert (Eki : map snd its = map snd kids) by (apply map_snd_combine; exact Elen).
  assert (Eopts : map fst its = map fst items) by (apply map_fst_combine; exact Elen).
  assert (Ezl : zlen its = zlen items).
  { unfold its. rewrite (zlen_combine_same _ _ Elen). apply zlen_map. }
  assert (Ezk : zlen kids = zlen items) by (unfold kids; apply zlen_map).
  unfold xcolumns_node in Hn, Hkids |- *. cbn [n_move n_fits n_place n_info] in *.
  destruct (xcolumns_move its fp dc mw s col row) as [| |i|i cs c' r' nf] eqn:E; cbn [m_ok m_w m_asked]; cbv zeta.
  - intro H; discriminate H.
  - exfalso. unfold xcolumns_move in E. cbv zeta in E. destruct (columns_best _ _ _ _ _ _ _) as [[[[? ?] ?] ?]|]; [|discriminate].
    destruct (i_hasmove _) in E; discriminate.
  - (* the chosen column has no move_cursor_to_coords: only the focus moves *)
    intros _. cbn [set_focus]. unfold xcolumns_move in E. cbv zeta in E.
    destruct (columns_best (xcolumns_sizes its fp dc mw s) (map (fun it : copt * bool * xinfo => i_sel (xc (snd it))) its) 0 0 dc col None)
      as [[[[i0 x0] e0] cs0]|] eqn:Ebest; [|discriminate].
    destruct (i_hasmove _) in E; [discriminate|]. inversion E; subst i0. clear E.
    destruct (xcolumns_best_placed its fp dc mw s col i x0 e0 cs0 Hn Ebest) as [Hi _].
    assert (Hz' : sized_tree (Columns items i dc mw) = false) by exact Hz.
    rewrite (xview_unsized' _ Hz' I). unfold xnodeof, xselfof. cbn [xkids xnode_of fst snd]. fold kids. fold its.
    pose proof (xcolumns_sizes_fp its fp i dc mw s Hn) as Esz.
    split; [reflexivity|]. split; [|split; [|intro H; congruence]].
    + apply xcolumns_info_cong; [apply forall2_refl; apply crel_stat_refl|apply forall2_refl; intro; apply feq_refl|exact Esz].
    + eapply (xstep_refits (Columns items fp dc mw) (Columns items i dc mw)); [exact Hf| |].
      * unfold xcolumns_node. cbn [n_fits]. apply (xcolumns_fits_refocus its fp i dc mw s Hn). qlia.
      * unfold xcolumns_node. cbn [n_place]. intros q Hq. rewrite Esz in Hq. apply (xcolumns_place_refocus its fp dc mw s i q Hn Hq).
  - unfold xcolumns_move in E. cbv zeta in E.
    destruct (columns_best (xcolumns_sizes its fp dc mw s) (map (fun it : copt * bool * xinfo => i_sel (xc (snd it))) its) 0 0 dc col None)
      as [[[[i0 x0] e0] cs0]|] eqn:Ebest; [|discriminate].
    destruct (i_hasmove (xc (nth_xinfo (map snd its) i0))) eqn:Ehm; [|discriminate].
    inversion E; subst i0 cs0 c' r' nf. clear E.
    destruct (xcolumns_best_placed its fp dc mw s col i x0 e0 cs Hn Ebest) as [Hi [Esel Hpl]].
    destruct (Hpl fp) as [Hp Hfun]. destruct (Hpl i) as [Hp' _].
    assert (Hii : 0 <= i < zlen items) by qlia. assert (Hik : 0 <= i < zlen kids) by qlia.
    pose proof (xcolumns_fits_refocus its fp i dc mw s Hn Hi) as Hni_fit.
    pose proof (xcolumns_sizes_fp its fp i dc mw s Hn) as Esz.
    destruct (nthz_some items i) as [[[o ib] ci] Hni]; [exact Hii|].
    assert (Hnk : nthz kids i = Some (xview ci)) by (unfold kids; rewrite nthz_map, Hni; reflexivity).
    assert (Ekid : forall d, nth_view d (map fst kids) i = fst (xview ci)).
    { intro d. unfold nth_view. rewrite nthz_map, Hnk. reflexivity. }
    assert (Einfo : nth_xinfo (map snd its) i = snd (xview ci)).
    { rewrite Eki. unfold nth_xinfo. rewrite nthz_map, Hnk. reflexivity. }
    rewrite Ekid. rewrite Einfo in Esel, Ehm.
    set (v := fst (xview ci)) in *. set (xi := snd (xview ci)) in *.
    destruct (xall_all ci) as [[Ok [FO _]] _]. unfold XOk in Ok. fold v xi in Ok, FO.
    assert (Hcf : v_fits v cs = true).
    { specialize (Hkids _ Hp). cbn [p_idx p_size] in Hkids. rewrite Ekid in Hkids. exact Hkids. }
    assert (IHi : XMoveOK ci).
    { rewrite Forall_forall in IH. apply (IH (o, ib, ci)). eapply nthz_In; eauto. }
    rewrite <- Ok in Ehm. specialize (IHi cs (Z.min (Z.max 0 (col - x0)) (e0 - x0 - 1)) row Hcf Ehm). cbv zeta in IHi. fold v xi in IHi.
    destruct (m_ok (v_move v cs (Z.min (Z.max 0 (col - x0)) (e0 - x0 - 1)) row)) eqn:Eok; cbn [m_ok m_w m_asked]; [|intro H; discriminate H].
    intros _. cbn [set_child set_focus] in *.
    set (c2 := m_w (v_move v cs (Z.min (Z.max 0 (col - x0)) (e0 - x0 - 1)) row)) in *.
    destruct (IHi eq_refl) as [Hz2 [Hieq [Hfit' Hasked]]]. clear IHi.
    assert (Hz' : sized_tree (Columns (set_nth_w items i c2) i dc mw) = false).
    { rewrite <- Hz. cbn [sized_tree].
      apply (sized_set_nth_w items (fun ob : copt * bool => negb (is_cpack (fst ob))) i c2 (o, ib) ci Hni Hz2). }
    rewrite (xview_unsized' _ Hz' I). unfold xnodeof, xselfof. cbn [xkids xnode_of fst snd].
    rewrite xkids_set_nth_w, map_fst_set_nth_w. fold kids. rewrite !map_set_nth_g.
    set (xi2 := snd (xview c2)) in *. set (v2 := fst (xview c2)) in *.
    set (its' := combine (map fst items) (set_nth_g (map snd kids) i xi2)).
    assert (Hits : nthz its i = Some (o, ib, xi)).
    { unfold its. apply nthz_combine; [rewrite nthz_map, Hni; reflexivity|]. rewrite nthz_map, Hnk. reflexivity. }
    assert (Hent : exists w h, nthz (xcolumns_sizes its i dc mw s) i = Some (w, h, cs)).
    { rewrite Esz. destruct (columns_best_inv _ _ _ _ _ _ _ _ Ebest) as [Hx|[pre [t [post [Ecs [_ Hr]]]]]]; [discriminate|].
      injection Hr as Ei Ex Ee Ec. pose proof (nthz_app_mid pre t post) as Hx. rewrite <- Ecs in Hx.
      replace (zlen pre) with i in Hx by (clear - Ei; qlia). destruct t as [[w h] csz]. cbn [snd] in Ec. subst csz.
      exists w, h. exact Hx. }
    destruct Hent as [w [h Hent]].
    destruct (xcs_nth_cs its i dc mw s i w h cs (o, ib, xi) Hent Hits) as [Hzip Hcs].
    destruct (xcolumns_fits_inv its i dc mw s Hni_fit) as [_ [_ [_ [Hwid _]]]].
    assert (Hopt : nthz (map fst items) i = Some (o, ib)) by (rewrite nthz_map, Hni; reflexivity).
    assert (Eits' : its' = set_nth_g its i (o, ib, xi2)) by (apply combine_set_inner; exact Hopt).
    assert (Hst : Forall2 crel_stat its' its).
    { unfold its', its. apply (combine_set_g crel_stat (map fst items) (map snd kids) i xi2 (o, ib) xi); [apply crel_stat_refl|exact Hits|].
      split; [reflexivity|]. apply (xieq_stat cs). exact Hieq. }
    assert (Hfe : Forall2 (fun x y : copt * bool * xinfo => feq (xc (snd x)) (xc (snd y))) its' its).
    { unfold its', its.
      apply (combine_set_g (fun x y : copt * bool * xinfo => feq (xc (snd x)) (xc (snd y))) (map fst items) (map snd kids) i xi2 (o, ib) xi);
        [intro; apply feq_refl|exact Hits|apply Hieq]. }
    assert (Hcls : xieq (xcol_cs s w (o, ib, xi)) xi2 xi).
    { destruct Hcs as [<-|[c [n [n' [Ecs Ecs']]]]]; [exact Hieq|]. rewrite Ecs'. apply (xieq_box _ _ _ _ _ Hieq).
      pose proof (proj1 (Forall_forall _ _) Hwid (w, h, cs) (nthz_In _ _ _ Hent)) as HF. unfold cw in HF. cbn [fst] in HF.
      destruct (xcolumns_sizes_shape its i dc mw s i _ Hent) as [o1 [b1 [xi1 [_ Hsh]]]]. unfold col_shape in Hsh.
      rewrite Ecs in Hsh. destruct Hsh as [Hsh|[Hsh|[Hsh _]]]; [discriminate Hsh| |discriminate Hsh].
      injection Hsh as Hc _. clear - Hc HF. lia. }
    assert (Esz' : xcolumns_sizes its' i dc mw s = xcolumns_sizes its i dc mw s).
    { destruct (is_fixed s) eqn:Efs.
      - apply (xcolumns_sizes_cong_fixed s its' its i dc mw Efs); [|exact Hwid].
        unfold its', its. apply (combine_set_g (xcrel_f s) (map fst items) (map snd kids) i xi2 (o, ib) xi); [apply xcrel_f_refl|exact Hits|].
        split; [reflexivity|]. cbn [snd]. unfold xcol_cs in *. rewrite Efs in *. exact Hcls.
      - apply (xcolumns_sizes_cong_sized s its' its i dc mw Efs Hst); [|exact Hwid].
        rewrite Eits'.
        apply (combine_set_g (xzrel s) (xcolumn_widths its i dc mw (fst s)) its i (o, ib, xi2) w (o, ib, xi)); [apply xzrel_refl|apply Hzip; reflexivity|].
        split; [reflexivity|]. split; [reflexivity|]. cbn [fst snd]. exact Hcls. }
    assert (Hpk : Forall2 packrel (combine (xcolumns_sizes its i dc mw s) its') (combine (xcolumns_sizes its i dc mw s) its)).
    { rewrite Eits'.
      apply (combine_set_g packrel (xcolumns_sizes its i dc mw s) its i (o, ib, xi2) (w, h, cs) (o, ib, xi)); [apply packrel_refl| |].
      - apply nthz_combine; assumption.
      - split; [reflexivity|]. cbn [fst snd]. destruct Hieq as [_ [_ [_ [Hp1 [Hp2 _]]]]]. split; [exact Hp1|exact Hp2]. }
    assert (Hfit2 : xcolumns_fits its' i dc mw s = true) by (apply (xcolumns_fits_cong its' its i dc mw s Esz' Hst Hpk Hni_fit)).
    assert (Elen' : length (map fst items) = length (set_nth_g (map snd kids) i xi2)).
    { rewrite set_nth_g_length. exact Elen. }
    assert (Eki' : map snd its' = set_nth_g (map snd kids) i xi2) by (apply map_snd_combine; exact Elen').
    split; [rewrite Hz, Hz'; reflexivity|].
    split; [apply xcolumns_info_cong; [exact Hst|exact Hfe|rewrite Esz'; exact Esz]|]. split.
    + rewrite <- set_nth_v_g.
      apply (xstep_fits (Columns items fp dc mw) _ (xcolumns_node its fp dc mw) _ (map fst kids) i v2 s Hf).
      * unfold xcolumns_node. cbn [n_fits]. exact Hfit2.
      * unfold xcolumns_node. cbn [n_place]. intros q Hq. rewrite Esz', Esz in Hq.
        apply (xcolumns_place_refocus its fp dc mw s i q Hn Hq).
      * unfold xcolumns_node. cbn [n_place]. intros q Hq Hqi. rewrite (Hfun q Hq Hqi). cbn [p_size]. exact Hfit'.
      * rewrite zlen_map. exact Hik.
    + intro Hne. destruct (Hasked Hne) as [_ [Hrow [x Hcur]]].
      destruct Hieq as [[Es [Ec [Em Eb]]] Erest].
      destruct (xall_all c2) as [[Ok2 _] _]. unfold XOk in Ok2. fold v2 xi2 in Ok2.
      split; [|split].
      * unfold xcolumns_cinfo. destruct (xcolumns_sizing its) as [[? ?] ?]. cbn [i_sel]. apply existsb_exists.
        exists (o, ib, xi). split; [eapply nthz_In; eauto|]. exact Esel.
      * pose proof (xcolumns_within its fp dc mw s _ Hn Hsok Hp) as HW. cbn [p_idx p_size p_x p_y] in HW.
        rewrite Einfo in HW. destruct HW as [_ [_ [Hy0 Hy1]]]; [apply FO; exact Hcf|]. clear - Hy0 Hy1 Hrow. qlia.
      * set (kids' := set_nth_g kids i (v2, xi2)).
        assert (Ekv' : map fst kids' = set_nth_g (map fst kids) i v2) by (unfold kids'; rewrite map_set_nth_g; reflexivity).
        assert (Ekx' : map snd kids' = set_nth_g (map snd kids) i xi2) by (unfold kids'; rewrite map_set_nth_g; reflexivity).
        rewrite <- Ekv'.
        assert (Hk2 : nthz kids' i = Some (v2, xi2)) by (apply nthz_set_nth_g_same; exact Hik).
        assert (Ev2 : nth_view (Columns (set_nth_w items i c2) i dc mw) (map fst kids') i = v2).
        { unfold nth_view. rewrite nthz_map, Hk2. reflexivity. }
        assert (Ex2 : nth_xinfo (map snd kids') i = xi2).
        { unfold nth_xinfo. rewrite nthz_map, Hk2. reflexivity. }
        apply (xstep_cursor _ (xcolumns_node its' i dc mw) kids' s i cs x row row).
        -- rewrite Ekx', <- Eki'. apply (xcolumns_cursor_ok its' i dc mw).
        -- unfold xcolumns_node. cbn [n_fits]. exact Hfit2.
        -- exact Hsok.
        -- exists (Placed i x0 0 cs (i =? i) false). unfold xcolumns_node. cbn [n_place p_isfocus p_idx p_size p_y].
           split; [rewrite Esz', Esz; exact Hp'|]. clear. repeat split; qlia.
        -- rewrite Ev2. exact Hcur.
        -- rewrite Ex2, Es. exact Esel.
        -- rewrite Ex2, <- Ok2. apply xhasmove_hascur. fold v2. rewrite Ok2, Em, <- Ok. exact Ehm.
        -- apply FO. exact Hcf.
        -- rewrite Ex2. rewrite (xh_xieq cs xi2 xi); [apply Hrow|]. split; [repeat split; assumption|exact Erest].
Qed.

(* ------------------------------------------------------------------------------------------ *)
(* Part 7: every tree of the extended model, every size including ()                            *)
(* ------------------------------------------------------------------------------------------ *)
Theorem xmove_ok_all : forall w, XMoveOK w.
Proof.
  induction w using widget_ind2.
  - destruct (sized_tree (Leaf l)) eqn:Hz; [apply xmove_ok_sized; exact Hz|].
    intros s col row. rewrite xview_eq, Hz. cbn [fst]. unfold xleaf_view. cbn [sized_tree] in Hz.
    assert (E : 0 <? lfw l = true \/ 0 <? lfw l = false) by (destruct (0 <? lfw l); auto).
    destruct E as [E|E]; rewrite E; cbn [v_fits v_info v_move m_ok].
    + intros _ _ H. discriminate H.
    + intros Hf. apply andb_true_iff in Hf as [Hnf Hf]. cbn [leaf_view v_fits] in Hf. unfold leaf_fits in Hf.
      repeat (apply andb_true_iff in Hf as [Hf ?]). qlia.
  - apply xmove_ok_pile. exact H.
  - apply xmove_ok_columns. exact H.
  - apply xmove_ok_padding. exact IHw.
  - apply xmove_ok_filler. exact IHw.
  - destruct (sized_tree (Frame w hdr ftr fpt)) eqn:Hz; [apply xmove_ok_sized; exact Hz|].
    intros s col row. rewrite (xview_unsized' _ Hz I). intros _ Hm. discriminate Hm.
  - apply xmove_ok_boxadapter. exact IHw.
  - apply xmove_ok_attrmap. exact IHw.
  - match goal with |- XMoveOK ?W => destruct (sized_tree W) eqn:Hz; [apply xmove_ok_sized; exact Hz|];
      intros s col row; rewrite (xview_unsized' _ Hz I); intros _ Hm; discriminate Hm end.
Qed.

(* after a successful move that went down to a leaf: the tree still fits and the reported cursor is on the requested row *)
Theorem xcursor_on_requested_row : forall w s col row,
  v_fits (fst (xview w)) s = true -> i_hasmove (v_info (fst (xview w))) = true ->
  let m := v_move (fst (xview w)) s col row in
  m_ok m = true -> m_asked m <> None ->
  v_fits (fst (xview (m_w m))) s = true /\ exists x, v_cursor (fst (xview (m_w m))) s = CSome x row.
Proof.
  intros w s col row Hf Hm m Hok Hasked.
  destruct (xmove_ok_all w s col row Hf Hm Hok) as [_ [_ [H1 H2]]].
  split; [exact H1|]. destruct (H2 Hasked) as [_ [_ H3]]. exact H3.
Qed.
