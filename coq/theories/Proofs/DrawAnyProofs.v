(* C04 - draw_paints for ANY text: runs that start with a character taking no column (a combining character,
   a C0 control character under UTF-8) and runs that hold no column.  The row spec threads the combining
   characters across the runs ([row_paint]); the lemmas of DrawScreenProofs.v are redone on it. *)
From Coq Require Import ZArith List Bool Lia ZifyBool.
From Urwid Require Import PyBase attrspec_escape_gen TermRef DrawScreen PaintSpec TermRefFacts DrawScreenProofs.
Import ListNotations.
Open Scope Z_scope.

Arguments Z.add : simpl never.
Arguments Z.sub : simpl never.
Arguments Z.mul : simpl never.
Arguments Z.ltb : simpl never.
Arguments Z.leb : simpl never.
Arguments Z.eqb : simpl never.
Arguments Z.min : simpl never.
Arguments Z.max : simpl never.
Arguments Z.to_nat : simpl never.
Arguments Z.of_nat : simpl never.

(* ================= 1. painting runs one after the other ================= *)
Definition run_any' (c : cfg) (r : crun) : Prop :=
  let '(a, cs, text) := r in
  Forall (chr_ok (g_utf8 c)) text /\ (if g_utf8 c then cs = 0 else cs = 0 \/ cs = 1 \/ cs = 2).

Lemma run_any_weak c r : run_any c r -> run_any' c r.
Proof. destruct r as [[a cs] text]. intros (_ & H1 & H2 & _). split; assumption. Qed.

Lemma run_ok'_any' c r : run_ok' c r -> run_any' c r.
Proof. destruct r as [[a cs] text]. intros (H1 & _ & H2). split; assumption. Qed.

Lemma row_threaded_is_paint c row : row_cells_threaded c row = row_paint c [] row.
Proof. reflexivity. Qed.

Lemma row_paint_app c P a b : row_paint c P (a ++ b) = row_paint c (row_paint c P a) b.
Proof. unfold row_paint. apply fold_left_app. Qed.

Lemma row_paint_cons c P r row : row_paint c P (r :: row) = row_paint c (paint_run c P r) row.
Proof. reflexivity. Qed.

Lemma paint_run_ok c P r : WFc P -> run_any' c r ->
  WFc (paint_run c P r) /\ zlen (paint_run c P r) = zlen P + calc_width (snd r).
Proof.
  destruct r as [[a cs] text]. intros HP (Ht & _). cbn [paint_run snd].
  destruct (out_text_ok c cs text Ht) as (Ow & Oc & _).
  destruct (paint_text_ok cs (attr_vis c a) (out_text c cs text) P HP Ow) as [H1 H2]. split; [exact H1|]. lia.
Qed.

Lemma row_paint_ok c row : forall P, WFc P -> Forall (run_any' c) row ->
  WFc (row_paint c P row) /\ zlen (row_paint c P row) = zlen P + row_width row.
Proof.
  induction row as [|r row IH]; intros P HP Hok.
  - cbn. split; [exact HP|]. change (row_width []) with 0. lia.
  - apply Forall_cons_iff in Hok as [Hr Hrow]. rewrite row_paint_cons.
    destruct (paint_run_ok c P r HP Hr) as [H1 H2]. destruct (IH _ H1 Hrow) as [H3 H4].
    split; [exact H3|]. rewrite H4, H2, row_width_cons. lia.
Qed.

(* a run whose text starts with a character taking a column is appended *)
Lemma paint_run_base c P a cs text : Forall (chr_ok (g_utf8 c)) text -> starts_with_base text ->
  paint_run c P (a, cs, text) = P ++ run_cells c (a, cs, text).
Proof.
  intros Ht Hb. cbn [paint_run run_cells]. destruct (out_text_ok c cs text Ht) as (Ow & _ & Ob & _).
  apply paint_text_base; auto.
Qed.

Lemma base_text_starts t : base_text t -> starts_with_base t.
Proof. intros (ch & zs & -> & H & _). exact H. Qed.

Lemma run_any'_width c r : run_any' c r -> 0 <= calc_width (snd r).
Proof.
  destruct r as [[a cs] text]. intros [H _]. cbn [snd]. apply calc_width_nonneg. eapply Forall_chr_ok_w12; eauto.
Qed.

Lemma row_width_nonneg_any c row : Forall (run_any' c) row -> 0 <= row_width row.
Proof.
  induction 1 as [|r row H _ IH]; [change (row_width []) with 0; lia|]. rewrite row_width_cons.
  pose proof (run_any'_width c r H). lia.
Qed.

(* ================= 2. the runs of a row, any text ================= *)
Lemma emit_run_any c rs r t0 t y P R :
  cfg_ok c -> run_any' c r -> Inv c rs t -> RowSt t y P R -> SameFrame t0 t y -> 0 <= y < zlen (t_grid t0) ->
  zlen P + calc_width (snd r) <= t_cols t ->
  exists R', RowSt (run t (fst (emit_run c rs r))) y (paint_run c P r) R'
          /\ SameFrame t0 (run t (fst (emit_run c rs r))) y
          /\ Inv c (snd (emit_run c rs r)) (run t (fst (emit_run c rs r)))
          /\ r_first (snd (emit_run c rs r)) = false.
Proof.
  intros Hc Hok HI HR HF Hy Hfit. destruct r as [[a cs] text]. cbn [snd] in Hfit.
  destruct Hok as (Htext & Hcs). destruct HI as (Iattr & Iirm & Ics).
  unfold emit_run.
  fold (out_text c cs text). destruct (out_text_ok c cs text Htext) as (Ow & Oc & _ & _). cbn [fst snd].
  rewrite !run_app.
  set (ta := if r_last rs =? a then [] else attr_to_escape c a).
  assert (H1 : exists t1, run t ta = t1 /\ RowSt t1 y P R /\ SameFrame t0 t1 y /\ t_attr t1 = attr_vis c a
                          /\ t_irm t1 = false /\ CsInv c (r_first rs) (r_lcs rs) t1).
  { unfold ta. destruct (r_last rs =? a) eqn:E.
    - exists t. assert (r_last rs = a) by lia. subst a. splits; auto.
    - exists (set_attr t (attr_vis c a)). rewrite attr_escape_run by assumption.
      splits; auto using RowSt_set_attr, SameFrame_set_attr. }
  destruct H1 as (t1 & -> & HR1 & HF1 & Hat1 & Hir1 & Ics1).
  set (switch := negb (g_utf8 c) && (r_first rs || negb (r_lcs rs =? cs))).
  set (tc := if switch then (if r_lcs rs =? 2 then [TIbmOff] else []) ++ [cs_tok cs] else []).
  assert (H2 : exists t2, run t1 tc = t2 /\ RowSt t2 y P R /\ SameFrame t0 t2 y /\ t_attr t2 = attr_vis c a
                          /\ t_irm t2 = false /\ cur_cs t2 = cs
                          /\ CsInv c false (if switch then cs else r_lcs rs) t2).
  { unfold tc, switch. destruct (g_utf8 c) eqn:U.
    - cbn [negb andb]. exists t1. subst cs. destruct (cs_utf8_ok c _ _ t1 U Ics1) as [Hc0 Hany].
      splits; auto.
    - cbn [negb andb].
      destruct (r_first rs || negb (r_lcs rs =? cs)) eqn:S.
      + destruct (cs_switch_ok c (r_first rs) (r_lcs rs) cs t1 U Ics1 Hcs) as (Et & Hcur & Hinv).
        eexists. split; [reflexivity|]. rewrite Et in *.
        splits; auto using RowSt_set_so, RowSt_set_ibm, SameFrame_set_so, SameFrame_set_ibm.
      + exists t1. assert (Hf : r_first rs = false) by (destruct (r_first rs); [discriminate|reflexivity]).
        assert (Hlcs : r_lcs rs = cs).
        { apply orb_false_elim in S as [_ S2]. apply negb_false_iff in S2. apply Z.eqb_eq in S2. exact S2. }
        rewrite Hf in Ics1. splits; auto. rewrite <- Hlcs. apply (cs_same_ok c); assumption. }
  destruct H2 as (t2 & -> & HR2 & HF2 & Hat2 & Hir2 & Hcs2' & HI2).
  assert (Hcols2 : t_cols t2 = t_cols t) by (rewrite (SameFrame_cols _ _ _ HF2), (SameFrame_cols _ _ _ HF); reflexivity).
  destruct (print_any (out_text c cs text) t0 t2 y P R HR2 HF2 Hy (or_introl Hir2) Ow) as (R' & HR3 & HF3 & HM3 & _).
  { rewrite Hcols2, Oc. exact Hfit. }
  exists R'. rewrite Hcs2', Hat2 in HR3. split; [exact HR3|]. split; [exact HF3|]. split; [|reflexivity].
  destruct HM3 as (M1 & M2 & M3 & M4).
  unfold Inv. cbn [r_last r_first r_lcs]. rewrite M1, M2. splits; auto.
  unfold CsInv in *. rewrite M3, M4, (SameFrame_g1 t0 t2 _ y HF2 HF3). exact HI2.
Qed.

Lemma emit_runs_any c row : forall rs t0 t y P R,
  cfg_ok c -> Forall (run_any' c) row -> Inv c rs t -> RowSt t y P R -> SameFrame t0 t y -> 0 <= y < zlen (t_grid t0) ->
  zlen P + row_width row <= t_cols t ->
  exists R', RowSt (run t (fst (emit_runs c rs row))) y (row_paint c P row) R'
          /\ SameFrame t0 (run t (fst (emit_runs c rs row))) y
          /\ Inv c (snd (emit_runs c rs row)) (run t (fst (emit_runs c rs row))).
Proof.
  induction row as [|r row IH]; intros rs t0 t y P R Hc Hok HI HR HF Hy Hfit.
  - exists R. cbn [emit_runs fst snd run fold_left row_paint]. splits; auto.
  - apply Forall_cons_iff in Hok as [Hr Hrow]. rewrite row_width_cons in Hfit.
    pose proof (row_width_nonneg_any c row Hrow) as Hnn. pose proof (run_any'_width c r Hr) as Hnr.
    destruct (emit_run_any c rs r t0 t y P R Hc Hr HI HR HF Hy) as (R1 & HR1 & HF1 & HI1 & Hf1); [lia|].
    cbn [emit_runs]. destruct (emit_run c rs r) as [t1 st1] eqn:E1. cbn [fst snd] in *.
    assert (Hcols : t_cols (run t t1) = t_cols t)
      by (rewrite (SameFrame_cols _ _ _ HF1), (SameFrame_cols _ _ _ HF); reflexivity).
    assert (HwP : WFc P) by apply HR.
    destruct (paint_run_ok c P r HwP Hr) as [_ Hz].
    destruct (IH st1 t0 (run t t1) y _ _ Hc Hrow HI1 HR1 HF1 Hy) as (R2 & HR2 & HF2 & HI2).
    { rewrite Hz. lia. }
    destruct (emit_runs c st1 row) as [t2 st2] eqn:E2. cbn [fst snd] in *.
    exists R2. rewrite run_app. rewrite row_paint_cons. splits; auto.
Qed.

(* ================= 3. one row, any text ================= *)
Definition RowDoneA (c : cfg) (t1 t2 : term) (y : Z) (row : crow) (rs2 : rstate) (keep_inv : Prop) : Prop :=
  row_shows_any c row (get_row (t_grid t2) y) /\ SameFrame t1 t2 y /\ t_y t2 = y /\
  Modes c rs2 t2 /\ (keep_inv -> Inv c rs2 t2).

Lemma row_plain_any c rs row t0 t y R0 keep :
  cfg_ok c -> Forall (run_any' c) row -> Inv c rs t -> RowSt t y [] R0 -> SameFrame t0 t y -> 0 <= y < zlen (t_grid t0) ->
  row_width row = t_cols t ->
  RowDoneA c t0 (run t (fst (emit_runs c rs row))) y row (snd (emit_runs c rs row)) keep.
Proof.
  intros Hc Hok HI HR HF Hy Hw.
  destruct (emit_runs_any c row rs t0 t y [] R0 Hc Hok HI HR HF Hy) as (R' & HR' & HF' & HI').
  { rewrite zlen_nil. lia. }
  destruct HR' as (Hty & Hrow & Hlen & _).
  destruct (row_paint_ok c row [] WFc_nil Hok) as [_ Hz]. rewrite zlen_nil in Hz. rewrite Hz in Hlen.
  rewrite (SameFrame_cols _ _ _ HF'), <- (SameFrame_cols _ _ _ HF) in Hlen.
  assert (R' = []) by (apply zlen_zero_nil; lia). subst R'. rewrite app_nil_r in Hrow.
  pose proof (Inv_modes _ _ _ HI') as HM.
  unfold RowDoneA. splits; auto. unfold row_shows_any. rewrite Hrow. apply Forall2_vis_refl.
Qed.

(* trailing blanks of the last run are erased instead of printed *)
Lemma row_ws_any c rs front a cs text t0 t y R0 keep :
  cfg_ok c -> Forall (run_any' c) (front ++ [(a, cs, text)]) -> Inv c rs t -> RowSt t y [] R0 -> SameFrame t0 t y ->
  0 <= y < zlen (t_grid t0) -> row_width (front ++ [(a, cs, text)]) = t_cols t ->
  (match last_opt text with Some ch => is_space ch | None => false end) = true ->
  using_sul c a = false -> t_bce t = true ->
  RowDoneA c t0 (run t (fst (emit_runs c rs (front ++ [(a, cs, rstrip text)])) ++ [TEl])) y
           (front ++ [(a, cs, text)]) (snd (emit_runs c rs (front ++ [(a, cs, rstrip text)]))) keep.
Proof.
  intros Hc Hok HI HR HF Hy Hw Hsp Hsul Hbce.
  destruct (snoc_cases text) as [->|(r0 & ch & ->)]; [discriminate|].
  rewrite last_opt_snoc in Hsp. rewrite (rstrip_last_space r0 ch Hsp).
  destruct (rstrip_spec r0) as (sp0 & Hr0 & Hsp0).
  set (tx := rstrip r0) in *. set (sp := sp0 ++ [ch]).
  assert (Htext : r0 ++ [ch] = tx ++ sp) by (unfold sp; rewrite app_assoc, <- Hr0; reflexivity).
  assert (Hspaces : Forall (fun ch : chr => fst ch = 32) sp).
  { unfold sp. apply Forall_app. split; [exact Hsp0|]. constructor; [|constructor]. unfold is_space in Hsp. lia. }
  rewrite Htext in *.
  apply Forall_app in Hok as [Hfront Hl]. apply Forall_inv in Hl. destruct Hl as (Hchars & Hcs).
  apply Forall_app in Hchars as [Htx Hspok].
  assert (Hspb : starts_with_base sp).
  { unfold sp. assert (Hch : snd ch <> 0).
    { apply Forall_app in Hspok as [_ H]. apply Forall_inv in H. destruct H as (_ & _ & Hs & _).
      unfold is_space in Hsp. rewrite Hs by lia. discriminate. }
    destruct sp0 as [|c0 sp0']; [exact Hch|]. cbn. apply Forall_inv in Hsp0.
    apply Forall_app in Hspok as [H _]. apply Forall_inv in H. destruct H as (_ & _ & Hs & _). rewrite (Hs Hsp0). discriminate. }
  assert (Hrow' : Forall (run_any' c) (front ++ [(a, cs, tx)])).
  { apply Forall_app. split; [exact Hfront|]. constructor; [|constructor]. split; assumption. }
  destruct (spaces_cells cs (attr_vis c a) sp) as [Hcells Hwsp]; auto.
  { destruct (g_utf8 c); auto. }
  assert (Hsplen : 1 <= zlen sp). { unfold sp. rewrite zlen_app, zlen_cons, zlen_nil. pose proof (zlen_nonneg sp0). lia. }
  rewrite row_width_app, row_width_single in Hw. cbn [snd] in Hw. rewrite calc_width_app, Hwsp in Hw.
  assert (Hw' : row_width (front ++ [(a, cs, tx)]) = t_cols t - zlen sp).
  { rewrite row_width_app, row_width_single. cbn [snd]. lia. }
  destruct (emit_runs_any c (front ++ [(a, cs, tx)]) rs t0 t y [] R0 Hc Hrow' HI HR HF Hy) as (R' & HR' & HF' & HI').
  { rewrite zlen_nil. lia. }
  set (rs2 := snd (emit_runs c rs (front ++ [(a, cs, tx)]))) in *.
  set (t2 := run t (fst (emit_runs c rs (front ++ [(a, cs, tx)])))) in *.
  set (P' := row_paint c [] (front ++ [(a, cs, tx)])) in *.
  assert (Hcols2 : t_cols t2 = t_cols t) by (rewrite (SameFrame_cols _ _ _ HF'), (SameFrame_cols _ _ _ HF); reflexivity).
  destruct (row_paint_ok c (front ++ [(a, cs, tx)]) [] WFc_nil Hrow') as [HwP' HzP0]. rewrite zlen_nil in HzP0. fold P' in HwP', HzP0.
  assert (HzP : zlen P' = t_cols t - zlen sp) by lia.
  rewrite run_app. fold t2. cbn [run fold_left].
  destruct (el_ok t0 t2 y _ _ HR' HF') as (Hrow & HF3 & HM3 & _ & Hy3 & _).
  { rewrite (SameFrame_len _ _ _ HF'). exact Hy. }
  { rewrite HzP, Hcols2. lia. }
  assert (E4 : Inv c rs2 (step t2 TEl)).
  { eapply Inv_same_modes; [exact HM3| |exact HI']. eapply SameFrame_g1; eauto. }
  pose proof (Inv_modes _ _ _ E4) as E1.
  assert (Hty : t_y (step t2 TEl) = y) by (rewrite Hy3; apply HR').
  (* the row spec: what was painted, then the blanks *)
  assert (Espec : row_cells_threaded c (front ++ [(a, cs, tx ++ sp)]) = P' ++ text_cells cs (attr_vis c a) sp).
  { rewrite row_threaded_is_paint. unfold P'. rewrite !row_paint_app. cbn [row_paint fold_left paint_run].
    rewrite out_text_app, paint_text_app. rewrite (out_text_spaces c cs sp Hspaces).
    destruct (out_text_ok c cs sp Hspok) as (Ow & _). rewrite (out_text_spaces c cs sp Hspaces) in Ow.
    apply paint_text_base; assumption. }
  unfold RowDoneA. splits; auto.
  unfold row_shows_any. rewrite Hrow, Espec.
  apply Forall2_app; [apply Forall2_vis_refl|].
  rewrite Hcells.
  replace (Z.to_nat (t_cols t2 - zlen P')) with (length sp) by (rewrite HzP, Hcols2; unfold zlen; lia).
  rewrite <- (repeat_length (mkCell 32 1 cs (attr_vis c a) []) (length sp)) at 2.
  apply Forall2_repeat_r. apply Forall_forall. intros e He. apply repeat_spec in He. subst e.
  destruct HI' as (Hattr & _). fold rs2 in Hattr.
  assert (Hlast : r_last rs2 = a) by (unfold rs2; rewrite emit_runs_last; reflexivity).
  rewrite Hlast in Hattr.
  assert (Hbce2 : t_bce t2 = true).
  { destruct HF' as (_ & _ & _ & _ & _ & _ & B & _). destruct HF as (_ & _ & _ & _ & _ & _ & B0 & _). congruence. }
  destruct (sul_false_flags c a Hsul) as (F1 & F2 & F3).
  unfold vis_eq, erase_cell. cbn. rewrite Hbce2, Hattr, F1, F2, F3. splits; auto.
  change (32 =? 32) with true. cbn [andb]. cbv iota. splits; auto. intros; discriminate.
Qed.

(* ================= 4. Screen._last_row, any text ================= *)
Lemma out_text_nil c cs : out_text c cs [] = [].
Proof. unfold out_text, trans_text. destruct (cs =? 2), (g_utf8 c); reflexivity. Qed.

Lemma paint_run_nil c P a cs : paint_run c P (a, cs, []) = P.
Proof. cbn [paint_run]. rewrite out_text_nil. reflexivity. Qed.

(* a text cut in front of a character that takes a column *)
Lemma paint_run_split c P a cs t1 t2 :
  Forall (chr_ok (g_utf8 c)) t2 -> base_text t2 ->
  paint_run c P (a, cs, t1 ++ t2) = paint_run c P (a, cs, t1) ++ run_cells c (a, cs, t2).
Proof.
  intros H2 Hb. cbn [paint_run run_cells]. rewrite out_text_app, paint_text_app.
  destruct (out_text_ok c cs t2 H2) as (Ow & _ & Ob & _).
  apply paint_text_base; [exact Ow|]. apply Ob. apply base_text_starts. exact Hb.
Qed.

Lemma split_last_base_w u text : Forall (chr_ok u) text -> text_width u text =? 0 = false ->
  exists t0 c zs, text = t0 ++ c :: zs /\ snd c <> 0 /\ Forall zw zs.
Proof.
  intros Hok. rewrite (text_width_calc u text Hok).
  induction text as [|x l IH] using rev_ind; [cbn; intros; lia|]. intros Hw.
  apply Forall_app in Hok as [Hl Hx]. apply Forall_inv in Hx.
  destruct (Z.eq_dec (snd x) 0) as [Hz|Hnz].
  - rewrite calc_width_app in Hw. cbn [calc_width] in Hw.
    destruct (IH Hl) as (t0 & c & zs & E & Hc & Hzs); [lia|].
    exists t0, c, (zs ++ [x]). rewrite E, <- app_assoc. cbn [app]. splits; auto.
    apply Forall_app. split; [exact Hzs|]. constructor; [exact Hz|constructor].
  - exists l, x, []. splits; auto.
Qed.

Lemma last_row_any c cols row :
  row_any c cols row -> row <> [] ->
  last_row (g_utf8 c) row = Ok (row, 0, None)
  \/ (exists nr0 ya ycs yt za zcs zt,
        last_row (g_utf8 c) row = Ok (nr0 ++ [(za, zcs, zt)], calc_width zt, Some (ya, ycs, yt))
        /\ row_paint c [] row = row_paint c [] nr0 ++ run_cells c (ya, ycs, yt) ++ run_cells c (za, zcs, zt)
        /\ Forall (run_any' c) (nr0 ++ [(za, zcs, zt)]) /\ run_any' c (ya, ycs, yt)
        /\ base_text yt /\ base_text zt
        /\ row_width nr0 + calc_width yt + calc_width zt = cols).
Proof.
  intros [Hruns Hwidth] Hne.
  destruct (snoc_cases row) as [->|(front & [[za zcs] lt] & ->)]; [congruence|].
  apply Forall_app in Hruns as [Hfront Hlast]. apply Forall_inv in Hlast as Hz.
  destruct Hz as (Hltne & Hlt & Hzcs & _).
  assert (Hfront' : Forall (run_any' c) front) by (eapply Forall_impl; [|exact Hfront]; apply run_any_weak).
  unfold last_row. rewrite last_opt_snoc, removelast_last.
  destruct (text_width (g_utf8 c) lt =? 0) eqn:Ew0; [left; reflexivity|].
  destruct (split_last_base_w _ lt Hlt Ew0) as (lt0 & zc & zs & -> & Hzc0 & Hzs).
  rewrite (calc_text_pos_last _ lt0 zc zs Hlt Hzc0 Hzs).
  pose proof (zlen_nonneg lt0) as Hl0.
  assert (Hlt0 : Forall (chr_ok (g_utf8 c)) lt0) by (apply Forall_app in Hlt as [H _]; exact H).
  assert (Hzt : Forall (chr_ok (g_utf8 c)) (zc :: zs)) by (apply Forall_app in Hlt as [_ H]; exact H).
  assert (Hbz : base_text (zc :: zs)) by (exists zc, zs; auto).
  assert (Hwz : text_width (g_utf8 c) (zc :: zs) = calc_width (zc :: zs)) by (apply text_width_calc; exact Hzt).
  assert (Hzrun : run_any' c (za, zcs, zc :: zs)) by (split; assumption).
  rewrite row_width_app, row_width_single in Hwidth. cbn [snd] in Hwidth. rewrite calc_width_app in Hwidth.
  destruct (zlen lt0 =? 0) eqn:E0.
  - (* Z starts its run *)
    assert (lt0 = []) by (apply zlen_zero_nil; lia). subst lt0. cbn [app] in *. change (calc_width []) with 0 in Hwidth.
    destruct (snoc_cases front) as [->|(front0 & [[ya ycs] nt] & ->)]; [left; reflexivity|].
    rewrite last_opt_snoc, removelast_last.
    apply Forall_app in Hfront as [Hfront0 Hy]. apply Forall_inv in Hy as Hyr.
    destruct Hyr as (Hntne & Hnt & Hycs & _).
    assert (Hfront0' : Forall (run_any' c) front0) by (eapply Forall_impl; [|exact Hfront0]; apply run_any_weak).
    destruct (text_width (g_utf8 c) nt =? 0) eqn:Ewn; [left; reflexivity|]. right.
    destruct (split_last_base_w _ nt Hnt Ewn) as (nt0 & yc & ys & -> & Hyc0 & Hys).
    rewrite (calc_text_pos_last _ nt0 yc ys Hnt Hyc0 Hys).
    assert (Hnt0 : Forall (chr_ok (g_utf8 c)) nt0) by (apply Forall_app in Hnt as [H _]; exact H).
    assert (Hyt : Forall (chr_ok (g_utf8 c)) (yc :: ys)) by (apply Forall_app in Hnt as [_ H]; exact H).
    assert (Hby : base_text (yc :: ys)) by (exists yc, ys; auto).
    rewrite dropz_app_exact by reflexivity. rewrite takez_app_exact by reflexivity. rewrite Hwz.
    exists (if zlen nt0 =? 0 then front0 else front0 ++ [(ya, ycs, nt0)]), ya, ycs, (yc :: ys), za, zcs, (zc :: zs).
    rewrite row_width_app, row_width_single in Hwidth. cbn [snd] in Hwidth. rewrite calc_width_app in Hwidth.
    split; [reflexivity|]. splits; auto.
    + rewrite !row_paint_app. cbn [row_paint fold_left].
      rewrite (paint_run_split c _ ya ycs nt0 (yc :: ys) Hyt Hby).
      rewrite (paint_run_base c _ za zcs (zc :: zs) Hzt (base_text_starts _ Hbz)).
      rewrite <- app_assoc. f_equal.
      destruct (zlen nt0 =? 0) eqn:En.
      * assert (nt0 = []) by (apply zlen_zero_nil; lia). subst nt0. rewrite paint_run_nil. reflexivity.
      * rewrite row_paint_app. reflexivity.
    + apply Forall_app. split.
      * destruct (zlen nt0 =? 0); [exact Hfront0'|]. apply Forall_app. split; [exact Hfront0'|].
        constructor; [|constructor]. split; assumption.
      * constructor; [exact Hzrun|constructor].
    + split; assumption.
    + destruct (zlen nt0 =? 0) eqn:En.
      * assert (nt0 = []) by (apply zlen_zero_nil; lia). subst nt0. cbn [calc_width app] in *. lia.
      * rewrite row_width_app, row_width_single. cbn [snd]. lia.
  - (* Y and Z are in the same run *)
    destruct (zlen lt0 <? 0) eqn:En; [lia|].
    rewrite dropz_app_exact by reflexivity. rewrite takez_app_exact by reflexivity.
    destruct (text_width (g_utf8 c) lt0 =? 0) eqn:Ewl; [left; reflexivity|]. right.
    destruct (split_last_base_w _ lt0 Hlt0 Ewl) as (lt1 & yc & ys & -> & Hyc0 & Hys).
    rewrite (calc_text_pos_last _ lt1 yc ys Hlt0 Hyc0 Hys).
    assert (Hlt1 : Forall (chr_ok (g_utf8 c)) lt1) by (apply Forall_app in Hlt0 as [H _]; exact H).
    assert (Hyt : Forall (chr_ok (g_utf8 c)) (yc :: ys)) by (apply Forall_app in Hlt0 as [_ H]; exact H).
    assert (Hby : base_text (yc :: ys)) by (exists yc, ys; auto).
    rewrite dropz_app_exact by reflexivity. rewrite Hwz.
    rewrite <- app_assoc. rewrite takez_app_exact by reflexivity.
    exists (if zlen lt1 =? 0 then front else front ++ [(za, zcs, lt1)]), za, zcs, (yc :: ys), za, zcs, (zc :: zs).
    rewrite calc_width_app in Hwidth.
    split; [reflexivity|]. splits; auto.
    + rewrite !row_paint_app. cbn [row_paint fold_left]. rewrite app_assoc.
      rewrite (paint_run_split c _ za zcs (lt1 ++ yc :: ys) (zc :: zs) Hzt Hbz).
      rewrite (paint_run_split c _ za zcs lt1 (yc :: ys) Hyt Hby).
      rewrite <- app_assoc. f_equal.
      destruct (zlen lt1 =? 0) eqn:E1.
      * assert (lt1 = []) by (apply zlen_zero_nil; lia). subst lt1. rewrite paint_run_nil. reflexivity.
      * rewrite row_paint_app. reflexivity.
    + apply Forall_app. split.
      * destruct (zlen lt1 =? 0); [exact Hfront'|]. apply Forall_app. split; [exact Hfront'|].
        constructor; [|constructor]. split; assumption.
      * constructor; [exact Hzrun|constructor].
    + split; assumption.
    + destruct (zlen lt1 =? 0) eqn:E1.
      * assert (lt1 = []) by (apply zlen_zero_nil; lia). subst lt1. cbn [calc_width app] in *. lia.
      * rewrite row_width_app, row_width_single. cbn [snd]. lia.
Qed.

(* the bottom-right cell, any text *)
Lemma row_trick_any c rs nr0 ya ycs yt za zcs zt row t0 t y R0 :
  cfg_ok c -> Forall (run_any' c) (nr0 ++ [(za, zcs, zt)]) -> run_any' c (ya, ycs, yt) ->
  base_text yt -> base_text zt ->
  row_paint c [] row = row_paint c [] nr0 ++ run_cells c (ya, ycs, yt) ++ run_cells c (za, zcs, zt) ->
  row_width nr0 + calc_width yt + calc_width zt = t_cols t ->
  Inv c rs t -> RowSt t y [] R0 -> SameFrame t0 t y -> 0 <= y < zlen (t_grid t0) ->
  RowDoneA c t0
    (run t (fst (emit_runs c rs (nr0 ++ [(za, zcs, zt)]))
            ++ emit_ins c (snd (emit_runs c rs (nr0 ++ [(za, zcs, zt)]))) (calc_width zt) (ya, ycs, yt)))
    y row (snd (emit_runs c rs (nr0 ++ [(za, zcs, zt)]))) False.
Proof.
  intros Hc Hnr Hyr Hby Hbz Hcells Hw HI HR HF Hy.
  set (nr := nr0 ++ [(za, zcs, zt)]) in *.
  destruct Hyr as (Hyt & Hycs).
  destruct (base_text_width yt Hby) as (yc & ys & Eyt & Hyc0 & Hys & Hwyt).
  destruct (base_text_width zt Hbz) as (zc & zs & Ezt & Hzc0 & Hzs & Hwzt).
  assert (Hnr0 : Forall (run_any' c) nr0) by (apply Forall_app in Hnr as [H _]; exact H).
  assert (Hzr : run_any' c (za, zcs, zt)) by (apply Forall_app in Hnr as [_ H]; apply Forall_inv in H; exact H).
  destruct Hzr as (Hzt & Hzcs).
  assert (Hzr' : run_ok' c (za, zcs, zt)) by (unfold run_ok'; splits; auto; apply base_text_starts; exact Hbz).
  pose proof (run_cells_ok c _ Hzr') as [HzZ0 HwZ0]. cbn [snd] in HzZ0.
  (* the text that is sent for Y *)
  destruct (out_text_ok c ycs yt Hyt) as (Ow & Oc & _ & _).
  destruct (base_text_width _ (out_text_base c ycs yt Hyt Hby)) as (oc & os & Eot & Hoc0 & Hos & Hwot).
  assert (Hsame : snd oc = snd yc) by lia.
  assert (Hwo : snd oc = 1 \/ snd oc = 2).
  { rewrite Eot in Ow. apply Forall_inv in Ow. destruct Ow as [H|[H|H]]; [congruence|auto|auto]. }
  assert (Hos12 : Forall w12 os) by (rewrite Eot in Ow; eapply Forall_inv_tail; eauto).
  assert (Hyc : chr_ok (g_utf8 c) yc) by (rewrite Eyt in Hyt; apply Forall_inv in Hyt; exact Hyt).
  assert (Hzc : chr_ok (g_utf8 c) zc) by (rewrite Ezt in Hzt; apply Forall_inv in Hzt; exact Hzt).
  assert (Hwy : snd yc = 1 \/ snd yc = 2) by (destruct (chr_ok_w12 _ _ Hyc) as [H|[H|H]]; [congruence|auto|auto]).
  assert (Hwz : snd zc = 1 \/ snd zc = 2) by (destruct (chr_ok_w12 _ _ Hzc) as [H|[H|H]]; [congruence|auto|auto]).
  assert (Hys12 : Forall w12 ys).
  { rewrite Eyt in Hyt. apply Forall_inv_tail in Hyt. eapply Forall_chr_ok_w12; eauto. }
  pose proof (row_width_nonneg_any c nr0 Hnr0) as Hn0.
  set (P0 := row_paint c [] nr0) in *.
  destruct (row_paint_ok c nr0 [] WFc_nil Hnr0) as [HwP0 HzP0]. rewrite zlen_nil in HzP0. fold P0 in HwP0, HzP0.
  assert (Hwnr : row_width nr = t_cols t - snd yc).
  { unfold nr. rewrite row_width_app, row_width_single. cbn [snd]. lia. }
  destruct (emit_runs_any c nr rs t0 t y [] R0 Hc Hnr HI HR HF Hy) as (R' & HR2 & HF2 & HI2).
  { rewrite zlen_nil. lia. }
  set (rs2 := snd (emit_runs c rs nr)) in *. set (t2 := run t (fst (emit_runs c rs nr))) in *.
  assert (Hcols2 : t_cols t2 = t_cols t) by (rewrite (SameFrame_cols _ _ _ HF2), (SameFrame_cols _ _ _ HF); reflexivity).
  set (Zc := run_cells c (za, zcs, zt)) in *. set (Yc := run_cells c (ya, ycs, yt)) in *.
  assert (Hsplit : row_paint c [] nr = P0 ++ Zc).
  { unfold nr, P0, Zc. rewrite row_paint_app. cbn [row_paint fold_left].
    apply paint_run_base; [exact Hzt|apply base_text_starts; exact Hbz]. }
  assert (HzZ : zlen Zc = snd zc) by (unfold Zc; rewrite <- Hwzt; exact HzZ0).
  assert (HwZ : WFc Zc) by exact HwZ0.
  assert (Hz0 : zlen P0 = row_width nr0) by lia.
  assert (HzP : zlen (row_paint c [] nr) = t_cols t - snd yc).
  { destruct (row_paint_ok c nr [] WFc_nil Hnr) as [_ Hzz]. rewrite zlen_nil in Hzz. lia. }
  assert (Hlen2 : zlen (t_grid t2) = zlen (t_grid t0)) by (apply (SameFrame_len _ _ _ HF2)).
  (* where the terminal is after Z *)
  pose proof HR2 as (Hy2 & Hrow2 & Hlen2' & _ & Hpos2).
  assert (Elt : zlen (row_paint c [] nr) <? t_cols t2 = true) by lia. rewrite Elt in Hpos2. destruct Hpos2 as [Hx2 Hp2].
  assert (HzR' : zlen R' = snd yc) by lia.
  destruct HI2 as (_ & Hirm2 & Hcs2).
  (* backspaces *)
  unfold emit_ins. cbv beta iota zeta. fold (out_text c ycs yt). rewrite Eot. rewrite !run_app. fold t2. rewrite Hwzt.
  assert (Hbs : run t2 (repeat TBs (Z.to_nat (snd zc))) = set_pos t2 (zlen (P0)) y false).
  { rewrite bs_run by (rewrite Hx2, Hsplit, zlen_app, HzZ; pose proof (zlen_nonneg (P0)); lia).
    destruct (Z.to_nat (snd zc)) eqn:En; [lia|]. f_equal; [|exact Hy2].
    rewrite Hx2, Hsplit, zlen_app, HzZ. lia. }
  rewrite Hbs. set (t3 := set_pos t2 (zlen (P0)) y false).
  assert (HR3 : RowSt t3 y (P0) (Zc ++ R')).
  { apply RowSt_set_pos_back; [rewrite <- Hsplit; exact HR2|exact HwP0|].
    rewrite <- Hsplit. lia. }
  assert (HF3 : SameFrame t0 t3 y) by (unfold SameFrame in *; cbn; exact HF2).
  (* attribute of Y *)
  rewrite attr_escape_run by assumption. set (t4 := set_attr t3 (attr_vis c ya)).
  assert (Hcs4 : CsInv c (r_first rs2) (r_lcs rs2) t4) by (unfold CsInv in *; cbn; exact Hcs2).
  (* charset of Y *)
  set (tc := if negb (g_utf8 c) then (if r_lcs rs2 =? 2 then [TIbmOff] else []) ++ [cs_tok ycs] else []).
  assert (H5 : exists t5, run t4 tc = t5 /\ RowSt t5 y (P0) (Zc ++ R') /\ SameFrame t0 t5 y
                 /\ t_attr t5 = attr_vis c ya /\ cur_cs t5 = ycs /\ t_irm t5 = false
                 /\ (if g_utf8 c then t_so t5 = false /\ t_ibm t5 = false else t_ibm t5 = (ycs =? 2))).
  { unfold tc. destruct (g_utf8 c) eqn:U; cbn [negb].
    - exists t4. subst ycs. destruct (cs_utf8_ok c _ _ t4 U Hcs4) as [Hc0 _].
      splits; auto using RowSt_set_attr, SameFrame_set_attr.
      + apply (CsInv_so_utf8 _ _ _ _ Hcs4 U).
      + apply (CsInv_so_utf8 _ _ _ _ Hcs4 U).
    - destruct (cs_switch_ok c (r_first rs2) (r_lcs rs2) ycs t4 U Hcs4 Hycs) as (Et & Hcur & _).
      eexists. split; [reflexivity|]. rewrite Et in *.
      splits; auto using RowSt_set_so, RowSt_set_ibm, RowSt_set_attr, SameFrame_set_so, SameFrame_set_ibm, SameFrame_set_attr. }
  fold tc. destruct H5 as (t5 & -> & HR5 & HF5 & Hat5 & Hcs5 & Hirm5 & Hmode5).
  (* insert Y, then its combining characters *)
  set (tail := if negb (g_utf8 c) && (ycs =? 2) then [TIbmOff] else []).
  set (t6 := set_irm t5 true).
  set (t7 := put t6 (fst oc) (snd oc)).
  set (t8 := run t7 (map ch_tok os)).
  replace (run (run (run (run t5 [TIrmOn]) (map ch_tok (oc :: os))) [TIrmOff]) tail) with (run (set_irm t8 false) tail)
    by reflexivity.
  assert (HR6 : RowSt t6 y (P0) (Zc ++ R')) by (apply RowSt_set_irm; exact HR5).
  assert (HF6 : SameFrame t0 t6 y) by (apply SameFrame_set_irm; exact HF5).
  assert (Hy6 : 0 <= y < zlen (t_grid t6)) by (cbn; rewrite (SameFrame_len _ _ _ HF5); exact Hy).
  assert (HzR'o : zlen R' = snd oc) by lia.
  destruct (put_ins_ok t0 t6 y (P0) Zc R' (fst oc) (snd oc) HR6 HF6 Hy6 eq_refl Hwo HzR'o HwZ)
    as (HR7 & HF7 & HM7).
  fold t7 in HR7, HF7, HM7.
  destruct HM7 as (M1 & M2 & M3 & M4). cbn in M1, M2, M3, M4.
  assert (Hcs7 : cur_cs t7 = ycs).
  { unfold cur_cs in *. rewrite M3, M4, (SameFrame_g1 t0 t6 t7 y HF6 HF7). cbn. exact Hcs5. }
  destruct (print_any os t0 t7 y _ Zc HR7 HF7 Hy (or_intror Hos) Hos12) as (R8 & HR8 & HF8 & HM8 & HR8eq).
  { rewrite (calc_width_zw os Hos). destruct HR7 as (_ & _ & Hl & _). rewrite zlen_app in *.
    pose proof (zlen_nonneg Zc). lia. }
  fold t8 in HR8, HF8, HM8. rewrite (HR8eq Hos) in HR8. clear HR8eq R8.
  destruct HM8 as (N1 & N2 & N3 & N4).
  (* what is now in front of Z is exactly Y with its combining characters *)
  assert (EY : paint_text (P0 ++ char_cells (fst oc) (snd oc) (cur_cs t6) (t_attr t6)) (cur_cs t7) (t_attr t7) os
               = P0 ++ Yc).
  { rewrite Hcs7, M1. replace (cur_cs t6) with ycs by (unfold cur_cs in *; cbn; exact (eq_sym Hcs5)).
    replace (t_attr t6) with (attr_vis c ya) by (cbn; congruence).
    rewrite ?Hat5. rewrite paint_text_prefix.
    - f_equal. unfold Yc. cbn [run_cells]. rewrite Eot. rewrite paint_text_cons. unfold paint_chr.
      destruct (snd oc =? 0) eqn:E0; [clear -E0 Hoc0; lia|]. cbn [app]. reflexivity.
    - apply WFc_char_cells. clear -Hwo. lia.
    - unfold char_cells. destruct (snd oc =? 0) eqn:E0; [clear -E0 Hoc0; lia|discriminate].
    - exact Hos12. }
  rewrite EY in HR8.
  (* insert mode off, IBMPC off again if Y was drawn in it *)
  assert (H9 : exists t9, run (set_irm t8 false) tail = t9 /\ t_grid t9 = t_grid t8 /\ SameFrame t0 t9 y /\ t_y t9 = y
                 /\ t_irm t9 = false /\ t_ibm t9 = false /\ (g_utf8 c = true -> t_so t9 = false)).
  { assert (Y8 : t_y t8 = y) by apply HR8.
    assert (I8 : t_ibm t8 = t_ibm t5) by (rewrite N4, M4; reflexivity).
    assert (S8 : t_so t8 = t_so t5) by (rewrite N3, M3; reflexivity).
    unfold tail. destruct (g_utf8 c) eqn:U; cbn [negb andb].
    - exists (set_irm t8 false). destruct Hmode5 as [S5 I5].
      splits; try reflexivity; try exact Y8; try (unfold SameFrame in *; cbn; exact HF8); try (cbn; congruence);
        try (intros _; cbn; congruence).
    - destruct (ycs =? 2) eqn:E2.
      + exists (set_ibm (set_irm t8 false) false).
        splits; try reflexivity; try exact Y8; try (unfold SameFrame in *; cbn; exact HF8); try (intros; discriminate).
      + exists (set_irm t8 false).
        splits; try reflexivity; try exact Y8; try (unfold SameFrame in *; cbn; exact HF8); try (cbn; congruence);
          try (intros; discriminate). }
  destruct H9 as (t9 & -> & Hg9 & HF9 & Hy9 & Hirm9 & Hibm9 & Hso9).
  unfold RowDoneA. splits; auto; try contradiction.
  - unfold row_shows_any. rewrite row_threaded_is_paint. rewrite Hg9.
    destruct HR8 as (_ & Hrow8 & _). rewrite Hrow8.
    rewrite Hcells, <- app_assoc. apply Forall2_vis_refl.
  - unfold Modes. splits; auto. intros H. congruence.
Qed.


(* ================= 5. the row loop, any text ================= *)
Record LoopInvA (c : cfg) (cols rows : Z) (tb : term) (content : list crow) (y : Z) (acc : dacc) (t : term) : Prop := mkLIA {
  la_ru : d_ru acc = None;
  la_sb : d_sb acc = takez y content;
  la_inv : y < rows -> Inv c (d_rs acc) t;
  la_modes : Modes c (d_rs acc) t;
  la_cols : t_cols t = cols;
  la_rows : t_rows t = rows;
  la_len : zlen (t_grid t) = rows;
  la_scr : t_scrolled t = t_scrolled tb;
  la_vis : t_visible t = t_visible tb;
  la_bce : t_bce t = t_bce tb;
  la_g1 : t_g1 t = t_g1 tb;
  la_home : y = 0 -> t_x t = 0 /\ t_y t = 0 /\ t_pending t = false;
  la_done : forall y' row, 0 <= y' < y -> nthz content y' = Some row -> row_shows_any c row (get_row (t_grid t) y');
  la_rest : forall y', y <= y' -> get_row (t_grid t) y' = get_row (t_grid tb) y' }.





(* cursor positioning before a row *)
Lemma position_okA c cols rows tb content y acc t :
  LoopInvA c cols rows tb content y acc t -> 0 <= y < rows -> 1 <= cols ->
  zlen (get_row (t_grid tb) y) = cols ->
  let t1 := run t (if negb (y =? 0) || false then set_cursor_position false (d_cy acc) 0 y else []) in
  (t1 = t \/ t1 = set_pos t 0 y false) /\ RowSt t1 y [] (get_row (t_grid t) y).
Proof.
  intros L Hy Hc Hrow t1. subst t1.
  pose proof (la_rest _ _ _ _ _ _ _ _ L y (Z.le_refl y)) as Hr.
  pose proof (la_cols _ _ _ _ _ _ _ _ L) as Hcols.
  pose proof (la_rows _ _ _ _ _ _ _ _ L) as Hrows.
  pose proof (la_home _ _ _ _ _ _ _ _ L) as Hhome.
  clear L.
  destruct (y =? 0) eqn:E; cbn [negb orb].
  - assert (y = 0) by lia. subst y. destruct (Hhome eq_refl) as (Hx & Hy0 & Hp).
    cbn [run fold_left]. split; [left; reflexivity|].
    unfold RowSt. cbn [app]. change (zlen (@nil cell)) with 0. splits; auto.
    + rewrite Hr. lia.
    + constructor.
    + assert (E' : 0 <? t_cols t = true) by lia. rewrite E'. auto.
  - unfold set_cursor_position. cbn [negb run fold_left].
    rewrite cup_ok by lia. split; [right; reflexivity|].
    unfold RowSt. cbn. change (zlen (@nil cell)) with 0. splits; auto.
    + rewrite Hr. lia.
    + constructor.
    + assert (E' : 0 <? t_cols t = true) by lia. rewrite E'. auto.
Qed.

Lemma loop_nextA c cols rows tb content y row acc t t1 t2 rs2 out' (keep : Prop) :
  LoopInvA c cols rows tb content y acc t -> 0 <= y < rows ->
  nthz content y = Some row ->
  (t1 = t \/ t1 = set_pos t 0 y false) ->
  RowDoneA c t1 t2 y row rs2 keep -> (y + 1 < rows -> keep) ->
  LoopInvA c cols rows tb content (y + 1) (mkAcc out' (d_sb acc ++ [row]) y rs2 None) t2.
Proof.
  intros L Hy Hrow Ht1 (Hshow & HF & _ & Hmodes & Hinv) Hkeep. destruct L.
  assert (G : t_grid t1 = t_grid t /\ t_cols t1 = t_cols t /\ t_rows t1 = t_rows t /\ t_scrolled t1 = t_scrolled t
              /\ t_visible t1 = t_visible t /\ t_bce t1 = t_bce t /\ t_g1 t1 = t_g1 t).
  { destruct Ht1 as [-> | ->]; cbn; splits; reflexivity. }
  destruct G as (G1 & G2 & G3 & G4 & G5 & G6 & G7).
  destruct HF as (F1 & F2 & F3 & F4 & F5 & F6 & F7 & F8).
  constructor; cbn [d_ru d_sb d_rs d_out d_cy].
  - reflexivity.
  - rewrite la_sb0. symmetry. apply takez_succ. exact Hrow.
  - intros H. apply Hinv. apply Hkeep. exact H.
  - exact Hmodes.
  - rewrite F1, G2. exact la_cols0.
  - rewrite F2, G3. exact la_rows0.
  - rewrite F3, G1. exact la_len0.
  - rewrite F5, G4. exact la_scr0.
  - rewrite F6, G5. exact la_vis0.
  - rewrite F7, G6. exact la_bce0.
  - rewrite F8, G7. assumption.
  - intros H. exfalso. clear -H Hy. lia.
  - intros y' row' Hy' Hn. destruct (Z.eq_dec y' y) as [->|Hne].
    + rewrite Hrow in Hn. inversion Hn; subst. exact Hshow.
    + rewrite F4 by exact Hne. rewrite G1. apply la_done0; [clear -Hy' Hne; lia|exact Hn].
  - intros y' Hy'. rewrite F4 by (clear -Hy'; lia). rewrite G1. apply la_rest0. clear -Hy'. lia.
Qed.



Lemma draw_row_okA c cols rows tb content osb y row acc t :
  cfg_ok c -> 1 <= cols -> 0 <= y < rows ->
  nthz content y = Some row -> row_any c cols row ->
  (g_bce c = true -> t_bce tb = true) ->
  zlen (get_row (t_grid tb) y) = cols ->
  (osb <> [] -> grid_shows_any c osb (t_grid tb)) ->
  LoopInvA c cols rows tb content y acc t ->
  exists acc' toks, draw_row c cols rows osb y row acc = Ok acc' /\ d_out acc' = d_out acc ++ toks
     /\ LoopInvA c cols rows tb content (y + 1) acc' (run t toks).
Proof.
  intros Hc Hcols Hy Hnth Hrow Hbce Hlen Hosb L.
  pose proof (la_ru _ _ _ _ _ _ _ _ L) as Hru.
  unfold draw_row.
  set (same := match osb with [] => false | _ => match nthz osb y with Some o => row_eqb o row | None => false end end).
  destruct same eqn:Es.
  - (* the row is already on the screen *)
    assert (Ho : osb <> [] /\ nthz osb y = Some row).
    { unfold same in Es. destruct osb as [|o0 osb']; [discriminate|]. split; [discriminate|].
      destruct (nthz (o0 :: osb') y) as [o|]; [|discriminate]. apply row_eqb_eq in Es. subst o. reflexivity. }
    destruct Ho as [Hne Ho]. destruct (Hosb Hne) as [_ Hshows].
    exists (mkAcc (d_out acc) (d_sb acc ++ [row]) (d_cy acc) (d_rs acc) (d_ru acc)), [].
    split; [reflexivity|]. split; [cbn; now rewrite app_nil_r|]. cbn [run fold_left].
    destruct L. constructor; cbn [d_ru d_sb d_rs d_out d_cy]; auto.
    + rewrite la_sb0. symmetry. apply takez_succ. exact Hnth.
    + intros H. apply la_inv0. clear -H. lia.
    + intros H. exfalso. clear -H Hy. lia.
    + intros y' row' Hy' Hn. destruct (Z.eq_dec y' y) as [->|Hne'].
      * rewrite Hnth in Hn. inversion Hn; subst. rewrite la_rest0 by apply Z.le_refl. apply Hshows. exact Ho.
      * apply la_done0; [clear -Hy' Hne'; lia|exact Hn].
    + intros y' Hy'. apply la_rest0. clear -Hy'. lia.
  - (* the row is drawn *)
    clear same Es. rewrite Hru. cbn [bind].
    destruct (position_okA c cols rows tb content y acc t L Hy Hcols Hlen) as [Ht1 HR1].
    set (t_pos := if negb (y =? 0) || false then set_cursor_position false (d_cy acc) 0 y else []) in *.
    set (t1 := run t t_pos) in *.
    assert (HI1 : Inv c (d_rs acc) t1).
    { destruct Ht1 as [-> | ->]; [|apply Inv_set_pos]; apply (la_inv _ _ _ _ _ _ _ _ L); clear -Hy; lia. }
    assert (Hcols1 : t_cols t1 = cols).
    { destruct Ht1 as [-> | ->]; cbn; apply (la_cols _ _ _ _ _ _ _ _ L). }
    assert (Hlen1 : zlen (t_grid t1) = rows).
    { destruct Ht1 as [-> | ->]; cbn; apply (la_len _ _ _ _ _ _ _ _ L). }
    assert (Hbce1 : g_bce c = true -> t_bce t1 = true).
    { intros B. destruct Ht1 as [-> | ->]; cbn; rewrite (la_bce _ _ _ _ _ _ _ _ L); auto. }
    assert (Hy1 : 0 <= y < zlen (t_grid t1)) by (rewrite Hlen1; exact Hy).
    assert (Hrow' : Forall (run_any' c) row) by (destruct Hrow as [Hh _]; eapply Forall_impl; [|exact Hh]; apply run_any_weak).
    destruct Hrow as [Hruns Hwidth].
    assert (Hw1 : row_width row = t_cols t1) by congruence.
    assert (Hrne : row <> []).
    { intros ->. change (row_width []) with 0 in Hwidth. clear -Hwidth Hcols. lia. }
    assert (Hrok : row_any c cols row) by (split; assumption).
    destruct (snoc_cases row) as [->|(front & [[a cs] text] & ->)]; [congruence|].
    rewrite last_opt_snoc, removelast_last.
    destruct ((match last_opt text with Some ch => is_space ch | None => false end) && g_bce c && negb (using_sul c a)) eqn:Ews.
    + (* trailing blanks erased *)
      apply andb_prop in Ews as [Ews Esul]. apply andb_prop in Ews as [Esp Eb].
      apply negb_true_iff in Esul. cbn [bind].
      pose proof (row_ws_any c (d_rs acc) front a cs text t1 t1 y (get_row (t_grid t) y) True Hc Hrow' HI1 HR1
                    (SameFrame_refl _ _) Hy1 Hw1 Esp Esul (Hbce1 Eb)) as W.
      match goal with |- context [emit_runs ?ea ?eb ?ec] =>
        destruct (emit_runs ea eb ec) as [t_runs rs2] eqn:Er;
        assert (E1 : t_runs = fst (emit_runs ea eb ec)) by (rewrite Er; reflexivity);
        assert (E2 : rs2 = snd (emit_runs ea eb ec)) by (rewrite Er; reflexivity); clear Er end.
      eexists. exists (t_pos ++ t_runs ++ [] ++ [TEl]). split; [reflexivity|]. split; [reflexivity|].
      rewrite run_app. fold t1. cbn [app].
      subst t_runs rs2. eapply loop_nextA with (t1 := t1) (keep := True); eauto.
    + destruct ((y =? rows - 1) && (1 <? cols)) eqn:Elast.
      * (* bottom row *)
        apply andb_prop in Elast as [Ey Ec].
        destruct (last_row_any c cols _ Hrok Hrne) as
          [Elr | (nr0 & ya & ycs & yt & za & zcs & zt & Elr & Hcells & Hnr & Hyr & Hby & Hbz & Hwsum)].
        -- rewrite Elr. cbn [bind].
           pose proof (row_plain_any c (d_rs acc) _ t1 t1 y (get_row (t_grid t) y) True Hc Hrow' HI1 HR1
                         (SameFrame_refl _ _) Hy1 Hw1) as W.
           match goal with |- context [emit_runs ?ea ?eb ?ec] =>
             destruct (emit_runs ea eb ec) as [t_runs rs2] eqn:Er;
             assert (E1 : t_runs = fst (emit_runs ea eb ec)) by (rewrite Er; reflexivity);
             assert (E2 : rs2 = snd (emit_runs ea eb ec)) by (rewrite Er; reflexivity); clear Er end.
           eexists. exists (t_pos ++ t_runs ++ [] ++ []). split; [reflexivity|]. split; [reflexivity|].
           rewrite run_app. fold t1. cbn [app]. rewrite app_nil_r.
           subst t_runs rs2. eapply loop_nextA with (t1 := t1) (keep := True); eauto.
        -- rewrite Elr. cbn [bind].
           assert (Hwsum' : row_width nr0 + calc_width yt + calc_width zt = t_cols t1) by congruence.
           pose proof (row_trick_any c (d_rs acc) nr0 ya ycs yt za zcs zt _ t1 t1 y (get_row (t_grid t) y) Hc Hnr Hyr Hby Hbz Hcells
                         Hwsum' HI1 HR1 (SameFrame_refl _ _) Hy1) as W.
           match goal with |- context [emit_runs ?ea ?eb ?ec] =>
             destruct (emit_runs ea eb ec) as [t_runs rs2] eqn:Er;
             assert (E1 : t_runs = fst (emit_runs ea eb ec)) by (rewrite Er; reflexivity);
             assert (E2 : rs2 = snd (emit_runs ea eb ec)) by (rewrite Er; reflexivity); clear Er end.
           eexists. exists (t_pos ++ t_runs ++ emit_ins c rs2 (calc_width zt) (ya, ycs, yt) ++ []).
           split; [reflexivity|]. split; [reflexivity|].
           rewrite run_app. fold t1. rewrite app_nil_r.
           subst t_runs rs2. eapply loop_nextA with (t1 := t1) (keep := False); eauto.
           intros H. exfalso. clear -H Ey. lia.
      * (* any other row, printed in full *)
        cbn [bind].
        pose proof (row_plain_any c (d_rs acc) _ t1 t1 y (get_row (t_grid t) y) True Hc Hrow' HI1 HR1
                      (SameFrame_refl _ _) Hy1 Hw1) as W.
        match goal with |- context [emit_runs ?ea ?eb ?ec] =>
          destruct (emit_runs ea eb ec) as [t_runs rs2] eqn:Er;
          assert (E1 : t_runs = fst (emit_runs ea eb ec)) by (rewrite Er; reflexivity);
          assert (E2 : rs2 = snd (emit_runs ea eb ec)) by (rewrite Er; reflexivity); clear Er end.
        eexists. exists (t_pos ++ t_runs ++ [] ++ []). split; [reflexivity|]. split; [reflexivity|].
        rewrite run_app. fold t1. cbn [app]. rewrite app_nil_r.
        subst t_runs rs2. eapply loop_nextA with (t1 := t1) (keep := True); eauto.
Qed.




Lemma draw_rows_okA c cols rows tb content osb : forall rest y acc t,
  cfg_ok c -> 1 <= cols -> 0 <= y -> y + zlen rest = rows -> dropz y content = rest ->
  Forall (row_any c cols) content ->
  (g_bce c = true -> t_bce tb = true) ->
  Forall (fun r => zlen r = cols) (t_grid tb) -> zlen (t_grid tb) = rows ->
  (osb <> [] -> grid_shows_any c osb (t_grid tb)) ->
  LoopInvA c cols rows tb content y acc t ->
  exists acc' toks, draw_rows c cols rows osb y rest acc = Ok acc' /\ d_out acc' = d_out acc ++ toks
     /\ LoopInvA c cols rows tb content rows acc' (run t toks).
Proof.
  induction rest as [|r rest IH]; intros y acc t Hc Hcols Hy Hsum Hdrop Hcontent Hbce Hgrid Hglen Hosb L.
  - exists acc, []. rewrite zlen_nil in Hsum. assert (y = rows) by lia. subst y.
    split; [reflexivity|]. split; [now rewrite app_nil_r|]. exact L.
  - rewrite zlen_cons in Hsum. pose proof (zlen_nonneg rest) as Hnn.
    destruct (dropz_cons_nth content y r rest Hy Hdrop) as [Hnth Hdrop'].
    assert (Hyr : 0 <= y < rows) by lia.
    assert (Hrow : row_any c cols r) by (eapply Forall_nthz; eauto).
    assert (Hlen : zlen (get_row (t_grid tb) y) = cols).
    { apply (Forall_get_row (fun r => zlen r = cols)); [exact Hgrid|lia]. }
    destruct (draw_row_okA c cols rows tb content osb y r acc t Hc Hcols Hyr Hnth Hrow Hbce Hlen Hosb L)
      as (acc1 & toks1 & E1 & O1 & L1).
    destruct (IH (y + 1) acc1 (run t toks1)) as (acc2 & toks2 & E2 & O2 & L2); auto; try lia.
    exists acc2, (toks1 ++ toks2). cbn [draw_rows]. rewrite E1. cbn [bind]. split; [exact E2|]. split.
    + rewrite O2, O1, app_assoc. reflexivity.
    + rewrite run_app. exact L2.
Qed.

(* ================= 6. one frame, any text ================= *)



Theorem draw_paints_any_lemma c s t cols rows content cursor :
  cfg_ok c -> SyncAny c s t -> t_cols t = cols -> t_rows t = rows ->
  canvas_any c cols rows content -> cursor_ok cols rows cursor ->
  exists toks s', draw_screen c s cols rows content cursor false false = Ok (toks, s')
     /\ PaintsAny c (run t toks) content cursor /\ SyncAny c s' (run t toks) /\ s_buf s' = content
     /\ t_cols (run t toks) = cols /\ t_rows (run t toks) = rows.
Proof.
  intros Hc (Sru & Sres & (T1 & T2 & T3 & T4) & Sirm & Sscr & Sibm & Sso & Sg1 & Sbce & Sbuf) Hcols Hrows [Clen Crows] Hcur.
  unfold draw_screen.
  assert (E1 : negb (rows =? zlen content) = false) by (rewrite Clen; clear; lia). rewrite E1.
  rewrite andb_false_r. rewrite Sres, Sru.
  set (t_g1' := if s_g1 s then [] else [TG1]).
  set (out0 := [THide] ++ attr_to_escape c 0 ++ [THome] ++ set_cursor_home false (s_cy s)).
  set (ta := run t t_g1').
  assert (Hta : ta = t \/ ta = set_g1 t true).
  { unfold ta, t_g1'. destruct (s_g1 s); [left|right]; reflexivity. }
  assert (Hg1a : t_g1 ta = true).
  { unfold ta, t_g1'. destruct (s_g1 s) eqn:G; [apply Sg1; reflexivity|reflexivity]. }
  set (tb := run ta out0).
  assert (Htb : tb = set_pos (set_attr (set_visible ta false) (attr_vis c 0)) 0 0 false).
  { unfold tb, out0. rewrite !run_app. cbn [run fold_left step]. rewrite attr_escape_run by exact Hc.
    unfold set_cursor_home. cbn [negb run fold_left].
    assert (Ecup : step (set_pos (set_attr (set_visible ta false) (attr_vis c 0)) 0 0 false) (TCup (0 + 1) (0 + 1))
                   = set_pos (set_pos (set_attr (set_visible ta false) (attr_vis c 0)) 0 0 false) 0 0 false).
    { apply cup_ok; cbn; destruct Hta as [-> | ->]; cbn; clear -T1 T2; lia. }
    change (TCup 1 1) with (TCup (0 + 1) (0 + 1)). cbn [fold_left]. rewrite Ecup. reflexivity. }
  assert (Gb : t_grid tb = t_grid t /\ t_cols tb = cols /\ t_rows tb = rows /\ t_scrolled tb = false /\ t_visible tb = false
               /\ t_bce tb = t_bce t /\ t_g1 tb = true /\ t_ibm tb = false /\ t_irm tb = false /\ t_so tb = t_so t
               /\ t_attr tb = attr_vis c 0 /\ t_x tb = 0 /\ t_y tb = 0 /\ t_pending tb = false).
  { rewrite Htb. destruct Hta as [Ea | Ea]; rewrite Ea in *; cbn in *; splits; auto. }
  destruct Gb as (B1 & B2 & B3 & B4 & B5 & B6 & B7 & B8 & B9 & B10 & B11 & B12 & B13 & B14).
  (* the loop *)
  set (acc0 := mkAcc out0 [] 0 (mkRs 0 true 0) None).
  assert (L0 : LoopInvA c cols rows tb content 0 acc0 tb).
  { constructor; cbn [d_ru d_sb d_rs d_out d_cy acc0]; auto.
    - intros _. unfold Inv, CsInv. cbn [r_last r_first r_lcs]. splits; auto.
      destruct (g_utf8 c) eqn:U.
      + split; [rewrite B10; apply Sso; reflexivity|exact B8].
      + splits; auto. discriminate.
    - unfold Modes. splits; auto.
      + intros H. congruence.
      + intros U. rewrite B10. apply Sso. exact U.
    - rewrite B1, T3. exact Hrows.
    - intros y' row' H. exfalso. clear -H. lia. }
  assert (A1 : 1 <= cols) by (rewrite <- Hcols; exact T1).
  assert (A2 : 0 + zlen content = rows) by (rewrite Clen; clear; lia).
  assert (A3 : g_bce c = true -> t_bce tb = true) by (intros B; rewrite B6; apply Sbce; exact B).
  assert (A4 : Forall (fun r => zlen r = cols) (t_grid tb)) by (rewrite B1, <- Hcols; exact T4).
  assert (A5 : zlen (t_grid tb) = rows) by (rewrite B1, T3; exact Hrows).
  assert (A6 : s_buf s <> [] -> grid_shows_any c (s_buf s) (t_grid tb)) by (intros H; rewrite B1; apply Sbuf; exact H).
  destruct (draw_rows_okA c cols rows tb content (s_buf s) content 0 acc0 tb Hc A1 (Z.le_refl 0) A2 eq_refl Crows A3 A4 A5 A6 L0)
    as (acc' & ltoks & Ed & Od & L).
  fold acc0. rewrite Ed. cbn [bind].
  set (tl := run tb ltoks) in *.
  pose proof (la_g1 _ _ _ _ _ _ _ _ L) as Lg1.
  pose proof L as L'. destruct L'.
  assert (Hshows : grid_shows_any c content (t_grid tl)).
  { split; [rewrite la_len0; symmetry; exact Clen|].
    intros y row Hn. apply la_done0; [|exact Hn]. apply nthz_split in Hn as [_ Hn]. rewrite Clen in Hn. exact Hn. }
  assert (Hsb : d_sb acc' = content) by (rewrite la_sb0, <- Clen; apply takez_full).
  assert (Hrowlen : Forall (fun r => zlen r = cols) (t_grid tl)).
  { apply Forall_from_rows. intros y Hy. rewrite la_len0 in Hy.
    assert (Hyc : 0 <= y < zlen content) by (rewrite Clen; exact Hy).
    destruct (nthz_range content y Hyc) as [row Hn].
    pose proof (la_done0 y row Hy Hn) as Hs. unfold row_shows in Hs. apply Forall2_zlen in Hs. rewrite <- Hs.
    pose proof (Forall_nthz _ _ _ _ Crows Hn) as Hrok.
    rewrite row_threaded_is_paint. destruct Hrok as [Hh Hw].
    destruct (row_paint_ok c row [] WFc_nil) as [_ Hzz]; [eapply Forall_impl; [|exact Hh]; apply run_any_weak|].
    rewrite Hzz, zlen_nil. clear -Hw. lia. }
  (* the IBMPC mapping is switched off at the end of the frame *)
  set (t_ibm' := if negb (g_utf8 c) && (r_lcs (d_rs acc') =? 2) then [TIbmOff] else []).
  assert (G2 : exists tl2, run tl t_ibm' = tl2 /\ t_grid tl2 = t_grid tl /\ t_cols tl2 = cols /\ t_rows tl2 = rows
                 /\ t_scrolled tl2 = false /\ t_visible tl2 = false /\ t_bce tl2 = t_bce tl /\ t_g1 tl2 = true
                 /\ t_irm tl2 = false /\ t_ibm tl2 = false /\ (g_utf8 c = true -> t_so tl2 = false)).
  { destruct la_modes0 as (Mirm & Mibm & Mso).
    unfold t_ibm'. destruct (negb (g_utf8 c) && (r_lcs (d_rs acc') =? 2)) eqn:E.
    - exists (set_ibm tl false). cbn. splits; auto; congruence.
    - exists tl. cbn [run fold_left]. splits; auto; try congruence.
      destruct (t_ibm tl) eqn:Ei; [|reflexivity]. destruct (Mibm eq_refl) as [U L2]. rewrite U, L2 in E. discriminate. }
  destruct G2 as (tl2 & Etl2 & Q1 & Q2 & Q3 & Q4 & Q5 & Q6 & Q7 & Q8 & Q9 & Q10).
  destruct cursor as [[cx cy]|].
  - (* cursor shown *)
    destruct Hcur as [Hcx Hcy].
    eexists. eexists. split; [reflexivity|].
    rewrite Od. cbn [d_out acc0]. rewrite !run_app. fold ta. fold tb. fold tl. fold t_ibm'. rewrite Etl2.
    unfold set_cursor_position. cbn [negb run fold_left].
    rewrite cup_ok by (rewrite ?Q2, ?Q3; assumption). cbn [step].
    split; [|split].
    + split; [cbn; rewrite Q1; exact Hshows|]. split; [cbn; splits; reflexivity|]. cbn. exact Q4.
    + unfold SyncAny. cbn. splits; auto.
      * unfold term_ok. cbn. rewrite Q1, Q2, Q3, la_len0. splits; auto; congruence.
      * intros B. rewrite Q6, la_bce0, B6. apply Sbce. exact B.
      * intros _. rewrite Hsb, Q1. exact Hshows.
    + cbn. splits; auto.
  - (* cursor hidden *)
    eexists. eexists. split; [reflexivity|].
    rewrite Od. cbn [d_out acc0]. rewrite !run_app. fold ta. fold tb. fold tl. fold t_ibm'. rewrite Etl2. cbn [run fold_left].
    split; [|split].
    + split; [rewrite Q1; exact Hshows|]. split; [cbn; exact Q5|]. exact Q4.
    + unfold SyncAny. cbn. splits; auto.
      * unfold term_ok. rewrite Q1, Q2, Q3, la_len0. splits; auto; congruence.
      * intros B. rewrite Q6, la_bce0, B6. apply Sbce. exact B.
      * intros _. rewrite Hsb, Q1. exact Hshows.
    + cbn. splits; auto.
Qed.


(* ================= 7. the full statement and plain histories ================= *)
Theorem any_text_full_lemma : draw_paints_any_text_full.
Proof.
  intros c s t cols rows content cursor Hc HS Hcols Hrows Hcan Hcur.
  destruct (draw_paints_any_lemma c s t cols rows content cursor Hc HS Hcols Hrows Hcan Hcur)
    as (toks & s' & E & HP & HS' & _).
  exists toks, s'. auto.
Qed.

Lemma sync_start_any c t : term_start_ok c t -> SyncAny c (init_scr false) t.
Proof.
  intros (H1 & H2 & H3 & H4 & H5 & H6). unfold SyncAny. cbn. splits; auto; try discriminate; try congruence.
Qed.

(* on the canvases of draw_paints the two invariants and the two "paints" coincide *)
Lemma row_shows_any_iff c cols row trow : row_ok c cols row -> (row_shows_any c row trow <-> row_shows c row trow).
Proof.
  intros H. unfold row_shows_any, row_shows. rewrite row_threaded_is_paint.
  assert (E : row_paint c [] row = row_cells c row).
  { destruct H as [Hr _]. clear -Hr. assert (G : forall P, row_paint c P row = P ++ row_cells c row).
    { induction row as [|[[a cs] text] row IH]; intros P; [cbn; now rewrite app_nil_r|].
      apply Forall_cons_iff in Hr as [(_ & Hb & Ht & _) Hrest]. rewrite row_paint_cons.
      rewrite (paint_run_base c P a cs text Ht Hb). rewrite (IH Hrest).
      cbn [row_cells flat_map]. fold (row_cells c row). now rewrite app_assoc. }
    apply (G []). }
  rewrite E. tauto.
Qed.

Lemma run_draws_any_ok c cols rows frames : forall s t,
  cfg_ok c -> SyncAny c s t -> t_cols t = cols -> t_rows t = rows ->
  Forall (fun f : canvas => canvas_any c cols rows (fst f) /\ cursor_ok cols rows (snd f)) frames ->
  exists s' t', run_draws c s t frames = Some (s', t') /\ SyncAny c s' t' /\
    forall content cursor, last_opt frames = Some (content, cursor) -> PaintsAny c t' content cursor.
Proof.
  induction frames as [|[content cursor] rest IH]; intros s t Hc HS Hcols Hrows Hok.
  - exists s, t. splits; auto. intros; discriminate.
  - apply Forall_cons_iff in Hok as [[Hcan Hcur] Hrest]. cbn [fst snd] in *.
    destruct (draw_paints_any_lemma c s t cols rows content cursor Hc HS Hcols Hrows Hcan Hcur)
      as (toks & s1 & E & HP & HS1 & _ & Hc1 & Hr1).
    cbn [run_draws]. rewrite Hcols, Hrows, E.
    destruct (IH s1 (run t toks) Hc HS1 Hc1 Hr1 Hrest) as (s' & t' & E' & HS' & HL).
    exists s', t'. splits; auto. intros c0 cur0 Hl. destruct rest as [|f rest'].
    + cbn in Hl. inversion Hl; subst. cbn [run_draws] in E'. inversion E'; subst. exact HP.
    + apply HL. exact Hl.
Qed.

Theorem draws_paint_any_lemma : draws_paint_any_statement.
Proof.
  intros c cols rows frames content cursor s t Hc Hcols Hrows Hok E.
  assert (HS : SyncAny c (init_scr false) (new_term cols rows)).
  { apply sync_start_any. unfold term_start_ok. splits; auto using term_ok_new. }
  destruct (run_draws_any_ok c cols rows _ _ _ Hc HS eq_refl eq_refl Hok) as (s' & t' & E' & _ & HL).
  rewrite E in E'. inversion E'; subst. apply HL. apply last_opt_snoc.
Qed.
