(* C07 - proofs about the ListBox view model (Model/ListBoxView.v).
   Structure: list/rows lemmas; closed forms of the three fill loops of calculate_visible;
   the arithmetic of the focus offset pre-processing; the facts [VisFacts] about the result of
   calc_vis; the window produced by render_vis; view_ok; the two writers preserve StateOK. *)
From Coq Require Import ZArith List Bool Lia ZifyBool.
Import ListNotations.
From Urwid Require Import PyBase ListBoxView.
Open Scope Z_scope.

Arguments Z.add : simpl never.
Arguments Z.sub : simpl never.
Arguments Z.mul : simpl never.
Arguments Z.div : simpl never.
Arguments Z.modulo : simpl never.
Arguments Z.ltb : simpl never.
Arguments Z.leb : simpl never.
Arguments Z.eqb : simpl never.
Arguments Z.min : simpl never.
Arguments Z.max : simpl never.
Arguments Z.of_nat : simpl never.
Arguments Z.to_nat : simpl never.

(* ------------------------------------------------------------------------------------- *)
Ltac splits := repeat match goal with |- _ /\ _ => split end.

(* rows of lists of fill items *)
Definition rs (l : list fitem) : list (Z * Z) := flat_map rows_of l.
Fixpoint tot (l : list fitem) : Z := match l with [] => 0 | x :: r => snd x + tot r end.
Definition nonneg (l : list fitem) : Prop := Forall (fun x => 0 <= snd x) l.
Definition nzf (x : fitem) : bool := negb (snd x =? 0).

Lemma rs_app a b : rs (a ++ b) = rs a ++ rs b.
Proof. unfold rs. apply flat_map_app. Qed.

Lemma tot_app a b : tot (a ++ b) = tot a + tot b.
Proof. induction a; cbn [tot app]; lia. Qed.

Lemma nonneg_app a b : nonneg (a ++ b) <-> nonneg a /\ nonneg b.
Proof. unfold nonneg. apply Forall_app. Qed.

Lemma nonneg_rev a : nonneg a -> nonneg (rev a).
Proof. unfold nonneg. apply Forall_rev. Qed.

Lemma tot_nonneg l : nonneg l -> 0 <= tot l.
Proof. induction 1; cbn [tot]; lia. Qed.

Lemma tot_rev l : tot (rev l) = tot l.
Proof. induction l; cbn [rev tot]; [reflexivity|]. rewrite tot_app. cbn [tot]. lia. Qed.

Lemma zlen_rows_of x : 0 <= snd x -> zlen (rows_of x) = snd x.
Proof. intros. unfold rows_of, zlen. rewrite map_length, seq_length. lia. Qed.

Lemma rows_of_zero x : snd x = 0 -> rows_of x = [].
Proof. intros H. unfold rows_of. rewrite H. reflexivity. Qed.

Lemma zlen_rs l : nonneg l -> zlen (rs l) = tot l.
Proof.
  induction 1; [reflexivity|]. unfold rs in *. cbn [flat_map tot].
  rewrite zlen_app, zlen_rows_of, IHForall by assumption. reflexivity.
Qed.

Lemma rs_filter l : rs (filter nzf l) = rs l.
Proof.
  induction l as [|x l IH]; [reflexivity|]. cbn [filter]. unfold nzf at 1.
  destruct (snd x =? 0) eqn:E; cbn [negb].
  - unfold rs in *. cbn [flat_map]. rewrite rows_of_zero by lia. exact IH.
  - unfold rs in *. cbn [flat_map]. now rewrite IH.
Qed.

Lemma rs_rev_filter l : rs (rev (filter nzf l)) = rs (rev l).
Proof.
  induction l as [|x l IH]; [reflexivity|]. cbn [filter rev]. unfold nzf at 1.
  destruct (snd x =? 0) eqn:E; cbn [negb].
  - rewrite rs_app, IH. unfold rs at 3. cbn [flat_map]. rewrite rows_of_zero by lia. now rewrite !app_nil_r.
  - cbn [rev]. now rewrite !rs_app, IH.
Qed.

Lemma tot_filter l : tot (filter nzf l) = tot l.
Proof.
  induction l as [|x l IH]; [reflexivity|]. cbn [filter]. unfold nzf at 1.
  destruct (snd x =? 0) eqn:E; cbn [negb tot]; lia.
Qed.

Lemma nonneg_filter l : nonneg l -> nonneg (filter nzf l).
Proof. unfold nonneg. rewrite !Forall_forall. intros H x Hx. apply filter_In in Hx. now apply H. Qed.

(* ------------------------------------------------------------------------------------- *)
(* closed forms of the three loops *)
Lemma fill_up2_spec : forall above fl o trt acc,
  0 <= fl -> nonneg above ->
  exists taken rest,
    fill_up2 above fl o trt acc
      = (acc ++ filter nzf taken, rest, o - Z.max 0 (fl - tot taken),
         if fl <? tot taken then tot taken - fl else trt)
    /\ above = taken ++ rest /\ (tot taken < fl -> rest = []) /\ (fl = 0 -> taken = []) /\
    (0 < fl -> fl < tot taken -> exists pre x, taken = pre ++ [x] /\ tot pre < fl).
Proof.
  induction above as [|[pos p] rest0 IH]; intros fl o trt acc Hfl Hnn.
  - exists [], []. cbn [fill_up2 tot filter app]. rewrite app_nil_r.
    destruct (fl <=? 0) eqn:E.
    + replace (Z.max 0 (fl - 0)) with 0 by lia. replace (o - 0) with o by lia.
      destruct (fl <? 0) eqn:E2; [lia|]. splits; auto; intros; lia.
    + replace (Z.max 0 (fl - 0)) with fl by lia.
      destruct (fl <? 0) eqn:E2; [lia|]. splits; auto; intros; lia.
  - inversion Hnn as [|? ? Hp Hrest]; subst. cbn [snd] in Hp.
    cbn [fill_up2]. destruct (fl <=? 0) eqn:E.
    + exists [], ((pos, p) :: rest0). cbn [tot filter app]. rewrite app_nil_r.
      replace (Z.max 0 (fl - 0)) with 0 by lia. replace (o - 0) with o by lia.
      destruct (fl <? 0) eqn:E2; [lia|]. splits; auto; intros; lia.
    + destruct (fl <? p) eqn:E1.
      * exists [(pos, p)], rest0. cbn [tot filter app]. unfold nzf. cbn [snd].
        destruct (p =? 0) eqn:E0; [lia|]. cbn [negb].
        replace (p + 0) with p by lia. rewrite E1.
        replace (Z.max 0 (fl - p)) with 0 by lia. replace (o - 0) with o by lia.
        splits; auto; try (intros; lia); intros; exists [], (pos, p); split; [reflexivity | cbn [tot]; lia].
      * destruct (IH (fl - p) o trt (if p =? 0 then acc else acc ++ [(pos, p)]) ltac:(lia) Hrest)
          as (taken & rest & Heq & Habove & Hex & Hz & Hl).
        exists ((pos, p) :: taken), rest. rewrite Heq. cbn [tot filter app snd]. unfold nzf at 2. cbn [snd].
        split; [|split; [now rewrite Habove | split; [intros; apply Hex; lia | split; [intros; lia |]]]].
        2: { intros H0 Hlt.
             assert (Hpos : 0 < fl - p).
             { destruct (Z.eq_dec (fl - p) 0) as [Hq|Hq]; [|lia]. rewrite (Hz ltac:(lia)) in Hlt. cbn [tot] in Hlt. lia. }
             destruct (Hl Hpos ltac:(lia)) as (pre & x & Hpre & Htp).
             exists ((pos, p) :: pre), x. split; [now rewrite Hpre | cbn [tot snd]; lia]. }
        f_equal; [f_equal; [f_equal|]|].
        -- destruct (p =? 0); cbn [negb]; [reflexivity|]. now rewrite <- app_assoc.
        -- lia.
        -- destruct (fl - p <? tot taken) eqn:A1, (fl <? p + tot taken) eqn:A2; lia.
Qed.

Lemma fill_down_spec : forall below fl trb acc,
  nonneg below ->
  exists taken rest,
    fill_down below fl trb acc
      = (acc ++ filter nzf taken, fl - tot taken,
         if (0 <? fl) && (fl <? tot taken) then tot taken - fl else trb)
    /\ below = taken ++ rest /\ (0 < fl - tot taken -> rest = []) /\ (fl <= 0 -> taken = []) /\
    (0 < fl -> fl < tot taken -> exists pre x, taken = pre ++ [x] /\ tot pre < fl).
Proof.
  induction below as [|[pos p] rest0 IH]; intros fl trb acc Hnn.
  - exists [], []. cbn [fill_down tot filter app]. rewrite app_nil_r.
    replace (fl - 0) with fl by lia.
    destruct (fl <=? 0) eqn:E; destruct ((0 <? fl) && (fl <? 0)) eqn:E2; try lia; splits; auto; intros; lia.
  - inversion Hnn as [|? ? Hp Hrest]; subst. cbn [snd] in Hp.
    cbn [fill_down]. destruct (fl <=? 0) eqn:E.
    + exists [], ((pos, p) :: rest0). cbn [tot filter app]. rewrite app_nil_r.
      replace (fl - 0) with fl by lia.
      destruct ((0 <? fl) && (fl <? 0)) eqn:E2; [lia|]. splits; auto; intros; lia.
    + destruct (fl <? p) eqn:E1.
      * exists [(pos, p)], rest0. cbn [tot filter app]. unfold nzf. cbn [snd].
        destruct (p =? 0) eqn:E0; [lia|]. cbn [negb].
        replace (p + 0) with p by lia.
        destruct ((0 <? fl) && (fl <? p)) eqn:E2; [|lia].
        splits; auto; try (intros; lia); intros; exists [], (pos, p); split; [reflexivity | cbn [tot]; lia].
      * destruct (IH (fl - p) trb (if p =? 0 then acc else acc ++ [(pos, p)]) Hrest)
          as (taken & rest & Heq & Hbelow & Hex & Hz & Hl).
        exists ((pos, p) :: taken), rest. rewrite Heq. cbn [tot filter app snd]. unfold nzf at 2. cbn [snd].
        split; [|split; [now rewrite Hbelow | split; [intros; apply Hex; lia | split; [intros; lia |]]]].
        2: { intros H0 Hlt.
             assert (Hpos : 0 < fl - p).
             { destruct (Z.eq_dec (fl - p) 0) as [Hq|Hq]; [|lia]. rewrite (Hz ltac:(lia)) in Hlt. cbn [tot] in Hlt. lia. }
             destruct (Hl Hpos ltac:(lia)) as (pre & x & Hpre & Htp).
             exists ((pos, p) :: pre), x. split; [now rewrite Hpre | cbn [tot snd]; lia]. }
        f_equal; [f_equal|].
        -- destruct (p =? 0); cbn [negb]; [reflexivity|]. now rewrite <- app_assoc.
        -- lia.
        -- destruct (fl - p <=? 0) eqn:B0.
           ++ rewrite (Hz ltac:(lia)). cbn [tot].
              destruct ((0 <? fl - p) && (fl - p <? 0)) eqn:A1; [lia|].
              destruct ((0 <? fl) && (fl <? p + 0)) eqn:A2; [lia|]. reflexivity.
           ++ destruct ((0 <? fl - p) && (fl - p <? tot taken)) eqn:A1,
                       ((0 <? fl) && (fl <? p + tot taken)) eqn:A2; lia.
Qed.

Lemma fill_up4_spec : forall above fl o trt acc,
  nonneg above ->
  exists taken rest,
    fill_up4 above fl o trt acc
      = (acc ++ taken, o + Z.min (Z.max 0 fl) (tot taken),
         if (0 <? fl) && (fl <? tot taken) then tot taken - fl else trt)
    /\ above = taken ++ rest /\ (tot taken < fl -> rest = []) /\ (fl <= 0 -> taken = []) /\
    (0 < fl -> fl < tot taken -> exists pre x, taken = pre ++ [x] /\ tot pre < fl).
Proof.
  induction above as [|[pos p] rest0 IH]; intros fl o trt acc Hnn.
  - exists [], []. cbn [fill_up4 tot app]. rewrite app_nil_r.
    replace (Z.min (Z.max 0 fl) 0) with 0 by lia. replace (o + 0) with o by lia.
    destruct (fl <=? 0) eqn:E; destruct ((0 <? fl) && (fl <? 0)) eqn:E2; try lia; splits; auto; intros; lia.
  - inversion Hnn as [|? ? Hp Hrest]; subst. cbn [snd] in Hp.
    cbn [fill_up4]. destruct (fl <=? 0) eqn:E.
    + exists [], ((pos, p) :: rest0). cbn [tot app]. rewrite app_nil_r.
      replace (Z.min (Z.max 0 fl) 0) with 0 by lia. replace (o + 0) with o by lia.
      destruct ((0 <? fl) && (fl <? 0)) eqn:E2; [lia|]. splits; auto; intros; lia.
    + destruct (fl <? p) eqn:E1.
      * exists [(pos, p)], rest0. cbn [tot app snd].
        replace (p + 0) with p by lia.
        destruct ((0 <? fl) && (fl <? p)) eqn:E2; [|lia].
        replace (Z.min (Z.max 0 fl) p) with fl by lia.
        splits; auto; try (intros; lia); intros; exists [], (pos, p); split; [reflexivity | cbn [tot]; lia].
      * destruct (IH (fl - p) (o + p) trt (acc ++ [(pos, p)]) Hrest)
          as (taken & rest & Heq & Habove & Hex & Hz & Hl).
        exists ((pos, p) :: taken), rest. rewrite Heq. cbn [tot app snd].
        split; [|split; [now rewrite Habove | split; [intros; apply Hex; lia | split; [intros; lia |]]]].
        2: { intros H0 Hlt.
             assert (Hpos : 0 < fl - p).
             { destruct (Z.eq_dec (fl - p) 0) as [Hq|Hq]; [|lia]. rewrite (Hz ltac:(lia)) in Hlt. cbn [tot] in Hlt. lia. }
             destruct (Hl Hpos ltac:(lia)) as (pre & x & Hpre & Htp).
             exists ((pos, p) :: pre), x. split; [now rewrite Hpre | cbn [tot snd]; lia]. }
        f_equal; [f_equal|].
        -- now rewrite <- app_assoc.
        -- lia.
        -- destruct (fl - p <=? 0) eqn:B0.
           ++ rewrite (Hz ltac:(lia)). cbn [tot].
              destruct ((0 <? fl - p) && (fl - p <? 0)) eqn:A1; [lia|].
              destruct ((0 <? fl) && (fl <? p + 0)) eqn:A2; [lia|]. reflexivity.
           ++ destruct ((0 <? fl - p) && (fl - p <? tot taken)) eqn:A1,
                       ((0 <? fl) && (fl <? p + tot taken)) eqn:A2; lia.
Qed.

(* ------------------------------------------------------------------------------------- *)
(* the offset / inset the loops start from (get_focus_offset_inset, clamp, cursor adjust) *)
Lemma adjust_ok : forall h maxrow o0 i0 cur,
  1 <= maxrow -> 0 <= o0 -> 0 <= i0 -> (o0 = 0 \/ i0 = 0) -> (1 <= h -> i0 < h) -> (h = 0 -> i0 = 0) ->
  (forall cy, cur = Some cy -> 0 <= cy < h) ->
  exists o1 i1,
    cursor_adjust maxrow (clamp_offset maxrow o0) i0 cur = (o1, i1) /\
    0 <= o1 < maxrow /\ 0 <= i1 /\ (o1 = 0 \/ i1 = 0) /\ (1 <= h -> i1 < h) /\ (h = 0 -> i1 = 0) /\
    (forall cy, cur = Some cy -> 0 <= cy + o1 - i1 < maxrow).
Proof.
  intros h maxrow o0 i0 cur Hmr Ho Hi Hoi Hih Hi0 Hcur.
  unfold clamp_offset.
  destruct (negb (maxrow =? 0) && (maxrow <=? o0)) eqn:G3;
    unfold cursor_adjust; (destruct cur as [cy|]; [specialize (Hcur cy eq_refl)|]);
    repeat match goal with |- context [if ?c then _ else _] => destruct c eqn:? end;
    eexists; eexists; (split; [reflexivity|]); splits; try lia;
    try (intros c [= <-]; lia); try (intros c [=]).
Qed.

Lemma pre_ok : forall h o n d maxrow cur,
  0 <= h -> 0 <= o -> 0 <= n < d -> 1 <= maxrow -> (forall cy, cur = Some cy -> 0 <= cy < h) ->
  exists o0 i0 o1 i1,
    focus_offset_inset h o n d = Ok (o0, i0) /\
    cursor_adjust maxrow (clamp_offset maxrow o0) i0 cur = (o1, i1) /\
    0 <= o1 < maxrow /\ 0 <= i1 /\ (o1 = 0 \/ i1 = 0) /\ (1 <= h -> i1 < h) /\ (h = 0 -> i1 = 0) /\
    (forall cy, cur = Some cy -> 0 <= cy + o1 - i1 < maxrow).
Proof.
  intros h o n d maxrow cur Hh Ho Hnd Hmr Hcur.
  assert (Hi : 0 <= h * n / d /\ (1 <= h -> h * n / d < h) /\ (h = 0 -> h * n / d = 0)).
  { split; [apply Z.div_pos; nia|]. split.
    - intros. apply Z.div_lt_upper_bound; nia.
    - intros ->. now rewrite Z.mul_0_l, Z.div_0_l by lia. }
  unfold focus_offset_inset.
  destruct (o =? 0) eqn:Eo.
  - destruct ((n <? 0) || (d <? 0) || (d <=? n)) eqn:G; [lia|].
    revert Hi. generalize (h * n / d). intros i (Hi0 & Hi1 & Hi2).
    destruct (negb (i =? 0) && (h <=? i)) eqn:G2; [lia|].
    destruct (adjust_ok h maxrow o i cur) as (o1 & i1 & E & F); try lia; try assumption.
    exists o, i, o1, i1. split; [reflexivity|]. split; assumption.
  - destruct (adjust_ok h maxrow o 0 cur) as (o1 & i1 & E & F); try lia; try assumption.
    exists o, 0, o1, i1. split; [reflexivity|]. split; assumption.
Qed.

Lemma refill_top_spec : forall fl o trt, 0 <= fl -> 0 <= trt ->
  exists dd, refill_top fl o trt = (fl - dd, o + dd, trt - dd) /\
             0 <= dd <= fl /\ dd <= trt /\ (fl - dd = 0 \/ trt - dd = 0).
Proof.
  intros fl o trt Hfl Htrt. unfold refill_top.
  destruct ((0 <? fl) && (0 <? trt)) eqn:E.
  - destruct (fl <=? trt) eqn:E2.
    + exists fl. replace (fl - fl) with 0 by lia. repeat split; try lia.
    + exists trt. replace (trt - trt) with 0 by lia. repeat split; try lia.
  - exists 0. replace (fl - 0) with fl by lia. replace (o + 0) with o by lia. replace (trt - 0) with trt by lia.
    repeat split; try lia.
Qed.

(* ------------------------------------------------------------------------------------- *)
(* what calc_vis returns: the widgets taken above (loop 2, then loop 4) and below (loop 3) are
   prefixes of the walks, and the offsets/trims satisfy the window equations *)
Definition VisFacts (above below : list fitem) (fpos h maxrow : Z) (cur : option Z) (v : vis) : Prop :=
  v_fpos v = fpos /\ v_frows v = h /\ v_cursor v = cur /\
  exists t2 t4 restA takenB restB,
    above = (t2 ++ t4) ++ restA /\ below = takenB ++ restB /\
    v_above v = filter nzf t2 ++ t4 /\ v_below v = filter nzf takenB /\
    (* a trim only cuts into the outermost widget *)
    (0 < v_trim_top v ->
       (exists pre x, t2 ++ t4 = pre ++ [x] /\ v_trim_top v < snd x) \/ (t2 ++ t4 = [] /\ v_trim_top v < h)) /\
    (0 < v_trim_bottom v -> takenB <> [] -> exists pre x, takenB = pre ++ [x] /\ v_trim_bottom v < snd x) /\
    let A := tot (t2 ++ t4) in let B := tot takenB in let oi := v_off_inset v in
    let trt := v_trim_top v in let trb := v_trim_bottom v in
    let fr := maxrow - (oi + h + B - trb) in
    A - trt = oi /\ 0 <= trt /\ 0 <= trb /\ 0 <= fr /\
    (0 < fr -> restA = [] /\ trt = 0 /\ restB = [] /\ trb = 0) /\
    (0 < trt -> 0 < oi + h) /\
    (1 <= h -> exists r, 0 <= r < h /\ 0 <= oi + r < maxrow - fr) /\
    (forall cy, cur = Some cy -> 0 <= oi + cy < maxrow - fr).

Lemma calc_vis_ok : forall above below fpos h o n d maxrow cur,
  nonneg above -> nonneg below -> 0 <= h -> 0 <= o -> 0 <= n < d -> 1 <= maxrow ->
  (forall cy, cur = Some cy -> 0 <= cy < h) ->
  exists v, calc_vis above below fpos h o n d maxrow cur = Ok v /\ VisFacts above below fpos h maxrow cur v.
Proof.
  intros above below fpos h o n d maxrow cur Hna Hnb Hh Ho Hnd Hmr Hcur.
  destruct (pre_ok h o n d maxrow cur Hh Ho Hnd Hmr Hcur)
    as (o0 & i0 & o1 & i1 & Efo & Eca & Ho1 & Hi1 & Hoi & Hih & Hi0 & Hcv).
  unfold calc_vis. rewrite Efo, Eca.
  destruct (fill_up2_spec above o1 o1 i1 [] ltac:(lia) Hna) as (t2 & r2 & E2 & Hab & Hex2 & Hz2 & Hl2).
  rewrite E2. cbn [app].
  assert (Hn2 : nonneg t2 /\ nonneg r2) by (apply nonneg_app; now rewrite <- Hab).
  destruct Hn2 as [Hnt2 Hnr2].
  pose proof (tot_nonneg _ Hnt2) as HT2.
  match goal with |- context [fill_down ?b ?fl ?tb ?acc] =>
    remember fl as fl3 eqn:Hfl3;
    destruct (fill_down_spec b fl3 tb acc Hnb) as (tB & rB & E3 & Hbe & Hex3 & Hz3 & Hl3) end.
  rewrite E3. cbn [app].
  assert (HnB : nonneg tB /\ nonneg rB) by (apply nonneg_app; now rewrite <- Hbe).
  destruct HnB as [HntB HnrB].
  pose proof (tot_nonneg _ HntB) as HTB.
  match goal with |- context [refill_top ?fl ?oo ?tt] =>
    destruct (refill_top_spec fl oo tt) as (dd & ER & Hdd1 & Hdd2 & Hdd3) end.
  { lia. }
  { destruct (o1 <? tot t2) eqn:?; lia. }
  rewrite ER.
  match goal with |- context [fill_up4 ?a ?fl ?oo ?tt ?acc] =>
    remember fl as fl4 eqn:Hfl4; remember tt as trt4 eqn:Htrt4;
    destruct (fill_up4_spec a fl4 oo trt4 acc Hnr2) as (t4 & r4 & E4 & Hab4 & Hex4 & Hz4 & Hl4) end.
  rewrite E4.
  assert (Hn4 : nonneg t4 /\ nonneg r4) by (apply nonneg_app; now rewrite <- Hab4).
  destruct Hn4 as [Hnt4 Hnr4].
  pose proof (tot_nonneg _ Hnt4) as HT4.
  eexists. split; [reflexivity|].
  unfold VisFacts. cbn [v_fpos v_frows v_cursor v_above v_below v_off_inset v_trim_top v_trim_bottom].
  split; [reflexivity|]. split; [reflexivity|]. split; [reflexivity|].
  exists t2, t4, r4, tB, rB.
  split; [rewrite Hab, Hab4; now rewrite app_assoc|].
  split; [assumption|]. split; [reflexivity|]. split; [reflexivity|].
  assert (Hz2' : o1 = 0 -> tot t2 = 0) by (intros Hq; now rewrite (Hz2 Hq)).
  assert (Hz3' := fun Hq => f_equal tot (Hz3 Hq)).
  assert (Hz4' := fun Hq => f_equal tot (Hz4 Hq)).
  cbn [tot] in Hz3', Hz4'.
  split.
  { (* the top trim *)
    intros Hpos. destruct ((0 <? fl4) && (fl4 <? tot t4)) eqn:C3.
    - destruct (Hl4 ltac:(lia) ltac:(lia)) as (pre & x & Ex & Hlt). left. exists (t2 ++ pre), x.
      split; [now rewrite Ex, app_assoc|]. rewrite Ex, tot_app in Hpos |- *. cbn [tot] in *. lia.
    - assert (Et4 : t4 = []) by (apply Hz4; lia). rewrite Et4, app_nil_r.
      destruct (o1 <? tot t2) eqn:C1.
      + destruct (Hl2 ltac:(lia) ltac:(lia)) as (pre & x & Ex & Hlt). left. exists pre, x.
        split; [assumption|]. rewrite Ex, tot_app in *. cbn [tot] in *. lia.
      + right. assert (Et2 : t2 = []) by (apply Hz2; lia). split; [assumption | lia]. }
  split.
  { (* the bottom trim *)
    intros Hpos Hne. destruct ((0 <? fl3) && (fl3 <? tot tB)) eqn:C2.
    - destruct (Hl3 ltac:(lia) ltac:(lia)) as (pre & x & Ex & Hlt). exists pre, x.
      split; [assumption|]. rewrite Ex, tot_app in *. cbn [tot] in *. lia.
    - exfalso. apply Hne. apply Hz3. lia. }
  clear E2 E3 ER E4 Efo Eca Hl2 Hl3 Hl4 Hz2 Hz3 Hz4 Hna Hnb Hnt2 Hnr2 HntB HnrB Hnt4 Hnr4 Hab Hbe Hab4 Ho Hnd.
  rewrite tot_app.
  remember (tot t2) as T2 eqn:HeqT2; clear HeqT2.
  remember (tot tB) as TB eqn:HeqTB; clear HeqTB.
  remember (tot t4) as T4 eqn:HeqT4; clear HeqT4.
  subst fl4 trt4 fl3.
  destruct (o1 <? T2) eqn:C1;
  [replace (Z.max 0 (o1 - T2)) with 0 in * by lia; replace (o1 - 0) with o1 in * by lia
  |replace (Z.max 0 (o1 - T2)) with (o1 - T2) in * by lia; replace (o1 - (o1 - T2)) with T2 in * by lia];
  match goal with |- context [(0 <? ?a) && (?a <? TB)] =>
    destruct ((0 <? a) && (a <? TB)) eqn:C2; [replace (Z.max 0 (a - TB)) with 0 in * by lia|] end;
  match goal with |- context [(0 <? ?a) && (?a <? T4)] => destruct ((0 <? a) && (a <? T4)) eqn:C3 end;
  splits; try lia.
  all: try (intros Hfr; splits; try lia; first [apply Hex4; lia | apply Hex3; lia]).
  all: try (intros Hh1; exists i1; lia).
  all: try (intros cy Hc; specialize (Hcv cy Hc); specialize (Hcur cy Hc); lia).
Qed.
