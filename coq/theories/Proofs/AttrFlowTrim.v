(* C17 part 2c: trim_line / LayoutSegment.subseg - the lines apply_text_layout cuts itself
   (clip mode, overlong custom layouts) stay well-formed, and a cut text segment shows exactly
   the columns of the window, the blank for half a double-width character carrying that
   character's attribute (the character at text offset 0 included). *)
From Coq Require Import ZArith List Bool Lia ZifyBool.
Import ListNotations.
From Urwid Require Import PyBase PyList AttrFlow AttrFlowBasics AttrFlowLayout AttrFlowClip.
Open Scope Z_scope.

Arguments Z.add : simpl never.
Arguments Z.sub : simpl never.
Arguments Z.mul : simpl never.
Arguments Z.ltb : simpl never.
Arguments Z.leb : simpl never.
Arguments Z.eqb : simpl never.
Arguments Z.min : simpl never.
Arguments Z.max : simpl never.
Arguments Z.to_nat : simpl never.
Arguments Z.of_nat : simpl never.

(* ---------- a line that fits is handed on unchanged ---------- *)
Lemma trim_line_go_fits text e : forall segs acc,
  Forall (fun s => 0 <= seg_sc s <= e) segs -> 0 < e ->
  trim_line_go text segs 0 0 e acc = Ok (acc ++ segs).
Proof.
  induction segs as [|s r IH]; intros acc H He; cbn [trim_line_go]; [now rewrite app_nil_r|].
  inversion H as [|? ? [H1 H2] Hr]; subst.
  change (0 =? 0) with true. cbn [negb orb].
  destruct (seg_sc s <? 0) eqn:E0; [lia|].
  destruct (e <=? 0) eqn:E1; [lia|].
  destruct (e <? 0 + seg_sc s) eqn:E2; [lia|].
  rewrite IH by assumption. now rewrite <- app_assoc.
Qed.

Lemma trim_line_fits text segs maxcol :
  Forall (fun s => 0 <= seg_sc s <= maxcol) segs -> 0 < maxcol -> trim_line text segs maxcol = Ok segs.
Proof. intros. unfold trim_line. now rewrite trim_line_go_fits. Qed.

(* ---------- segments before trimming ---------- *)
Definition rchars_ok (txt : list rchr) : Prop :=
  Forall (fun c => 1 <= r_len c /\ 1 <= r_wid c <= 2) txt.

(* the text of a segment as a row of one-offset characters with their attributes *)
Definition text_row (text : list chr) (attrs : rle) (o e : Z) : crow :=
  combine (text_rchars text o e) (map (rle_get_at attrs) (zrange' o e)).

Definition wf_pre (text : list chr) (s : seg) : Prop :=
  match s with
  | SText sc o e => 0 < sc /\ 0 <= o /\ o < e /\ e <= zlen text /\
                    sc <= rc_wid (text_rchars text o e) /\
                    Forall (fun c => 1 <= c_lw c <= 2) (sub text o e)
  | SIns sc o txt ilen => 0 < sc /\ 0 <= o /\ 0 <= ilen /\ rchars_ok txt /\ sc <= rc_wid txt
  | SPad sc None => True
  | SPad sc (Some o) => 0 <= sc /\ 0 <= o
  end.

Lemma wf_pre_kept text s : wf_pre text s -> 0 <= seg_sc s -> wf_seg text s.
Proof.
  destruct s as [sc o e|sc o txt ilen|sc [o|]]; cbn [wf_pre wf_seg seg_sc]; intros H Hs.
  - tauto.
  - tauto.
  - exact H.
  - exact Hs.
Qed.

(* ---------- rows built from character lists ---------- *)
Lemma map_fst_combine {A B} (a : list A) : forall (b : list B), length a = length b -> map fst (combine a b) = a.
Proof. induction a as [|x t IH]; intros [|y u] H; cbn in *; try discriminate; [reflexivity|]. f_equal. apply IH. lia. Qed.

Lemma rc_len_bl row : rc_len (map fst row) = bl row.
Proof. induction row as [|x t IH]; cbn [map rc_len bl]; [reflexivity | now rewrite IH]. Qed.
Lemma rc_wid_wd row : rc_wid (map fst row) = wd row.
Proof. induction row as [|x t IH]; cbn [map rc_wid wd]; [reflexivity | now rewrite IH]. Qed.

Lemma length_text_rchars text o e : 0 <= o -> o <= e -> e <= zlen text ->
  length (text_rchars text o e) = Z.to_nat (e - o).
Proof. intros. unfold text_rchars. rewrite map_length, py_slice_sub by lia. apply length_sub; lia. Qed.

Lemma text_row_fst text attrs o e : 0 <= o -> o <= e -> e <= zlen text ->
  map fst (text_row text attrs o e) = text_rchars text o e.
Proof.
  intros. unfold text_row. apply map_fst_combine.
  rewrite length_text_rchars, map_length, length_zrange by lia. reflexivity.
Qed.

Lemma text_row_wf text attrs o e : 0 <= o -> o <= e -> e <= zlen text ->
  Forall (fun c => 1 <= c_lw c <= 2) (sub text o e) -> row_wf (text_row text attrs o e).
Proof.
  intros Ho Hoe He Hw. unfold row_wf, text_row, text_rchars. rewrite py_slice_sub by lia.
  apply Forall_forall. intros [c a] Hin. apply in_combine_l in Hin. apply in_map_iff in Hin.
  destruct Hin as (x & <- & Hx). rewrite Forall_forall in Hw. specialize (Hw x Hx). cbn. lia.
Qed.

Lemma bl_len1 row : Forall (fun x : rchr * attr => r_len (fst x) = 1) row -> bl row = zlen row.
Proof. induction 1 as [|x t H _ IH]; [reflexivity|]. cbn [bl]. rewrite zlen_cons, IH, H. lia. Qed.

Lemma text_row_len1 text attrs o e : Forall (fun x : rchr * attr => r_len (fst x) = 1) (text_row text attrs o e).
Proof.
  unfold text_row, text_rchars. apply Forall_forall. intros [c a] Hin. apply in_combine_l in Hin.
  apply in_map_iff in Hin. destruct Hin as (x & <- & _). reflexivity.
Qed.

Lemma len1_app (a b : crow) : Forall (fun x : rchr * attr => r_len (fst x) = 1) (a ++ b) ->
  Forall (fun x : rchr * attr => r_len (fst x) = 1) a /\ Forall (fun x : rchr * attr => r_len (fst x) = 1) b.
Proof. apply Forall_app. Qed.

(* splitting text_row at an offset *)
Lemma zrange_map_split {A} (f : Z -> A) a m b : a <= m <= b ->
  map f (zrange' a b) = map f (zrange' a m) ++ map f (zrange' m b).
Proof. intro H. now rewrite (zrange_split a m b), map_app. Qed.

Lemma text_row_split text attrs o m e : 0 <= o -> o <= m -> m <= e -> e <= zlen text ->
  text_row text attrs o e = text_row text attrs o m ++ text_row text attrs m e.
Proof.
  intros Ho Hm He Hl. unfold text_row, text_rchars. rewrite !py_slice_sub by lia.
  rewrite (sub_split text o m e) by lia. rewrite map_app, (zrange_map_split _ o m e) by lia.
  apply combine_app_eq. rewrite !map_length, length_sub, length_zrange by lia. reflexivity.
Qed.

(* a split of a one-byte-per-character row is the split at that offset *)
Lemma app_eq_length {A} (a1 : list A) : forall a2 b1 b2, a1 ++ a2 = b1 ++ b2 -> length a1 = length b1 -> a1 = b1 /\ a2 = b2.
Proof.
  induction a1 as [|x t IH]; intros a2 [|y u] b2 H L; cbn in *; try discriminate; [auto|].
  inversion H; subst. destruct (IH a2 u b2 H2 ltac:(lia)) as [-> ->]. auto.
Qed.

Lemma text_row_decomp text attrs o e P M R : 0 <= o -> o <= e -> e <= zlen text ->
  text_row text attrs o e = P ++ M ++ R ->
  P = text_row text attrs o (o + bl P) /\ M = text_row text attrs (o + bl P) (o + bl P + bl M) /\
  o + bl P + bl M <= e /\ 0 <= bl P /\ 0 <= bl M.
Proof.
  intros Ho Hoe He Hrow.
  pose proof (text_row_len1 text attrs o e) as H1. rewrite Hrow in H1.
  apply len1_app in H1. destruct H1 as [HP HMR]. apply len1_app in HMR. destruct HMR as [HM HR].
  pose proof (bl_len1 P HP) as BP. pose proof (bl_len1 M HM) as BM. pose proof (bl_len1 R HR) as BR.
  assert (Hlen : zlen (text_row text attrs o e) = e - o).
  { unfold zlen, text_row. rewrite combine_length, length_text_rchars, map_length, length_zrange by lia. lia. }
  rewrite Hrow, !zlen_app in Hlen.
  pose proof (zlen_nonneg P). pose proof (zlen_nonneg M). pose proof (zlen_nonneg R).
  rewrite (text_row_split text attrs o (o + bl P) e) in Hrow by lia.
  apply app_eq_length in Hrow.
  2:{ unfold text_row. rewrite combine_length, length_text_rchars, map_length, length_zrange by lia.
      unfold zlen in *. lia. }
  destruct Hrow as [E1 E2].
  rewrite (text_row_split text attrs (o + bl P) (o + bl P + bl M) e) in E2 by lia.
  apply app_eq_length in E2.
  2:{ unfold text_row. rewrite combine_length, length_text_rchars, map_length, length_zrange by lia.
      unfold zlen in *. lia. }
  destruct E2 as [E2 _]. repeat split; try (now symmetry); lia.
Qed.

(* ---------- per-column demands, in layout columns ---------- *)
Definition pad_attr (attrs : rle) (o : Z) : attr := rle_get_at attrs o.

Definition seg_cols (text : list chr) (attrs : rle) (s : seg) : list attr :=
  match s with
  | SText _ o e => colattrs (text_row text attrs o e)
  | SIns sc o txt _ => repeat (if rc_len txt =? 0 then pad_attr attrs o else rle_get_at attrs o) (Z.to_nat sc)
  | SPad sc None => repeat None (Z.to_nat sc)
  | SPad sc (Some o) => repeat (pad_attr attrs o) (Z.to_nat sc)
  end.

(* what the window [sc, ec) of a decomposed row looks like, per column *)
Lemma decomp_columns row sc ec P M R pl pr : row_wf row -> 0 <= sc -> sc < ec -> ec <= wd row ->
  trim_decomp row sc ec P M R pl pr ->
  (if pl =? 0 then [] else [last_attr P]) ++ colattrs M ++ (if pr =? 0 then [] else [first_attr R])
  = sub (colattrs row) sc ec.
Proof.
  intros Hwf Hsc Hlt Hec (Hrow & _ & HwP & HwM & Hpl & Hpr).
  assert (HwfP : row_wf P /\ row_wf (M ++ R)) by (apply row_wf_app; now rewrite <- Hrow).
  destruct HwfP as [HwfP HwfMR]. apply row_wf_app in HwfMR. destruct HwfMR as [HwfM HwfR].
  pose proof (length_colattrs M HwfM) as LM.
  assert (HR : firstn (Z.to_nat (ec - sc - pl)) (colattrs M ++ colattrs R)
               = colattrs M ++ (if pr =? 0 then [] else [first_attr R])).
  { destruct Hpr as [->|[-> (d & R0 & -> & Hd)]].
    - change (0 =? 0) with true. rewrite app_nil_r. apply firstn_len_app. lia.
    - change (1 =? 0) with false. cbn [first_attr].
      change (colattrs (d :: R0)) with (repeat (snd d) (Z.to_nat (r_wid (fst d))) ++ colattrs R0). rewrite Hd.
      change (Z.to_nat 2) with 2%nat. cbn [repeat app].
      replace (Z.to_nat (ec - sc - pl)) with (length (colattrs M) + 1)%nat by lia.
      rewrite firstn_app. rewrite firstn_all2 by lia.
      replace (length (colattrs M) + 1 - length (colattrs M))%nat with 1%nat by lia. reflexivity. }
  unfold sub. rewrite Hrow, !colattrs_app.
  destruct Hpl as [->|[-> (P0 & c & -> & Hc)]].
  - change (0 =? 0) with true. cbn [app].
    pose proof (length_colattrs P HwfP) as LP.
    rewrite skipn_len_app by lia. replace (ec - sc) with (ec - sc - 0) by lia. now rewrite HR.
  - change (1 =? 0) with false. unfold last_attr. rewrite rev_app_distr. cbn [rev app].
    apply row_wf_app in HwfP. destruct HwfP as [HwfP0 _].
    pose proof (length_colattrs P0 HwfP0) as LP0. rewrite wd_app in HwP. cbn [wd] in HwP.
    rewrite colattrs_app. change (colattrs [c]) with (repeat (snd c) (Z.to_nat (r_wid (fst c))) ++ []). rewrite Hc.
    change (Z.to_nat 2) with 2%nat. cbn [repeat app]. rewrite <- app_assoc. cbn [app].
    replace (Z.to_nat sc) with (length (colattrs P0) + 1)%nat by lia.
    rewrite skipn_add. rewrite skipn_len_app by reflexivity. cbn [skipn].
    replace (Z.to_nat (ec - sc)) with (S (Z.to_nat (ec - sc - 1))) by lia. cbn [firstn].
    f_equal. now rewrite HR.
Qed.

(* ---------- subseg of a text segment ---------- *)
Lemma last_attr_text_row text attrs o m : 0 <= o -> o < m -> m <= zlen text ->
  last_attr (text_row text attrs o m) = rle_get_at attrs (m - 1).
Proof.
  intros Ho Hm Hl. rewrite (text_row_split text attrs o (m - 1) m) by lia.
  unfold last_attr. rewrite rev_app_distr.
  assert (E : exists c, text_row text attrs (m - 1) m = [(c, rle_get_at attrs (m - 1))]).
  { unfold text_row, text_rchars. rewrite py_slice_sub by lia. unfold zrange'.
    replace (Z.to_nat (m - (m - 1))) with 1%nat by lia. cbn [zseq map].
    pose proof (length_sub text (m - 1) m ltac:(lia) ltac:(lia) Hl) as L.
    replace (Z.to_nat (m - (m - 1))) with 1%nat in L by lia.
    destruct (sub text (m - 1) m) as [|x [|y u]]; cbn in L; try lia. eexists. reflexivity. }
  destruct E as [c ->]. reflexivity.
Qed.

Lemma first_attr_text_row text attrs m e : 0 <= m -> m < e -> e <= zlen text ->
  first_attr (text_row text attrs m e) = rle_get_at attrs m.
Proof.
  intros Hm He Hl. unfold text_row, text_rchars. rewrite py_slice_sub by lia. unfold zrange'.
  replace (Z.to_nat (e - m)) with (S (Z.to_nat (e - m - 1))) by lia. cbn [zseq map].
  pose proof (length_sub text m e Hm ltac:(lia) Hl) as L.
  destruct (sub text m e) as [|x u]; [cbn in L; lia|]. reflexivity.
Qed.

Lemma subseg_text_spec text attrs sc o en start e :
  wf_pre text (SText sc o en) -> 0 <= start -> start < e -> e <= sc ->
  exists l, subseg text (SText sc o en) start e = Ok l /\ Forall (wf_seg text) l /\
    flat_map (seg_cols text attrs) l = sub (seg_cols text attrs (SText sc o en)) start e.
Proof.
  intros (H1 & H2 & H3 & H4 & H5 & H6) Hs Hlt He.
  unfold subseg. cbn [seg_sc].
  replace (Z.max start 0) with start by lia. replace (Z.min e sc) with e by lia.
  destruct (e <=? start) eqn:E0; [lia|].
  destruct (en =? 0) eqn:E1; [lia|]. cbn [negb].
  destruct ((o <? 0) || (en <? o) || (zlen text <? en)) eqn:E2; [lia|].
  set (row := text_row text attrs o en).
  assert (Hwf : row_wf row) by (apply text_row_wf; assumption || lia).
  assert (Hfst : map fst row = text_rchars text o en) by (apply text_row_fst; lia).
  assert (Hwd : sc <= wd row) by (rewrite <- rc_wid_wd, Hfst; exact H5).
  destruct (calc_trim_decomp row start e Hwf Hs Hlt ltac:(lia)) as (P & M & R & pl & pr & Hd).
  pose proof Hd as (Hrow & Hcalc & HwP & HwM & Hpl & Hpr).
  rewrite Hfst in Hcalc. rewrite Hcalc.
  destruct (text_row_decomp text attrs o en P M R H2 ltac:(lia) H4 Hrow) as (EP & EM & Hb & HbP & HbM).
  assert (HwfP : row_wf P /\ row_wf (M ++ R)) by (apply row_wf_app; now rewrite <- Hrow).
  destruct HwfP as [HwfP HwfMR]. apply row_wf_app in HwfMR. destruct HwfMR as [HwfM HwfR].
  pose proof (wd_nonneg M HwfM) as HwM0.
  assert (Hpl01 : pl = 0 \/ pl = 1) by (destruct Hpl as [?|[? _]]; auto).
  assert (Hpr01 : pr = 0 \/ pr = 1) by (destruct Hpr as [?|[? _]]; auto).
  (* bytes of P when a pad is there *)
  assert (HP1 : pl = 1 -> 1 <= bl P).
  { intros ->. destruct Hpl as [?|[_ (P0 & c & -> & _)]]; [lia|].
    apply row_wf_app in HwfP. destruct HwfP as [HwfP0 Hc]. inversion Hc as [|? ? [Hl _] _]; subst.
    rewrite bl_app. cbn [bl]. pose proof (bl_nonneg P0 HwfP0). lia. }
  assert (HM1 : wd M <> 0 -> 1 <= bl M /\ 0 < wd M).
  { intro Hne. destruct M as [|x M']; [cbn in Hne; lia|].
    inversion HwfM as [|? ? [Hl _] HM']; subst. cbn [bl]. pose proof (bl_nonneg M' HM'). lia. }
  assert (HRe : pr = 1 -> o + bl P + bl M < en).
  { intros ->. destruct Hpr as [?|[_ (d & R0 & -> & _)]]; [lia|].
    pose proof (text_row_len1 text attrs o en) as L1. fold row in L1. rewrite Hrow in L1.
    pose proof (bl_len1 _ L1) as B. rewrite !bl_app in B. cbn [bl] in B.
    assert (Z1 : zlen (P ++ M ++ d :: R0) = en - o).
    { rewrite <- Hrow. unfold zlen, row, text_row.
      rewrite combine_length, length_text_rchars, map_length, length_zrange by lia. lia. }
    inversion HwfR as [|? ? [Hl _] HR0]; subst. pose proof (bl_nonneg R0 HR0). lia. }
  eexists. split; [reflexivity|]. split.
  - (* well-formed *)
    apply Forall_app. split; [|apply Forall_app; split].
    + destruct (pl =? 0) eqn:Ep; cbn [negb]; [constructor|]. constructor; [|constructor].
      cbn [wf_seg]. specialize (HP1 ltac:(lia)). lia.
    + replace (e - start - pl - pr) with (wd M) by lia.
      destruct (wd M =? 0) eqn:Em; cbn [negb]; [constructor|]. constructor; [|constructor].
      cbn [wf_seg]. destruct (HM1 ltac:(lia)). lia.
    + destruct (pr =? 0) eqn:Ep; cbn [negb]; [constructor|]. constructor; [|constructor].
      cbn [wf_seg]. lia.
  - (* columns *)
    cbn [seg_cols]. fold row.
    rewrite <- (decomp_columns row start e P M R pl pr Hwf Hs Hlt ltac:(lia) Hd).
    rewrite !flat_map_app. f_equal; [|f_equal].
    + destruct Hpl as [->|[-> (P0 & c & EPc & Hc)]]; [reflexivity|].
      change (1 =? 0) with false. cbn [negb flat_map seg_cols app]. change (Z.to_nat 1) with 1%nat. cbn [repeat].
      f_equal. specialize (HP1 eq_refl).
      assert (HL : last_attr P = rle_get_at attrs (o + bl P - 1)) by (rewrite EP at 1; apply last_attr_text_row; lia).
      rewrite HL. reflexivity.
    + replace (e - start - pl - pr) with (wd M) by lia.
      destruct (wd M =? 0) eqn:Em; cbn [negb flat_map].
      * destruct M as [|x M']; [reflexivity|]. exfalso.
        inversion HwfM as [|? ? [_ Hw] HM']; subst. cbn [wd] in Em. pose proof (wd_nonneg M' HM'). lia.
      * cbn [seg_cols]. rewrite app_nil_r. replace (o + (bl P + bl M)) with (o + bl P + bl M) by lia. now rewrite <- EM.
    + destruct Hpr as [->|[-> (d & R0 & ER & Hdw)]]; [reflexivity|].
      change (1 =? 0) with false. cbn [negb flat_map seg_cols app]. change (Z.to_nat 1) with 1%nat. cbn [repeat app].
      replace (o + (bl P + bl M)) with (o + bl P + bl M) by lia.
      specialize (HRe eq_refl).
      assert (ERt : R = text_row text attrs (o + bl P + bl M) en).
      { fold row in Hrow. unfold row in Hrow.
        rewrite (text_row_split text attrs o (o + bl P) en) in Hrow by lia.
        rewrite (text_row_split text attrs (o + bl P) (o + bl P + bl M) en) in Hrow by lia.
        rewrite <- EP, <- EM in Hrow. apply app_inv_head in Hrow. apply app_inv_head in Hrow. now symmetry. }
      rewrite ERt, first_attr_text_row by lia. reflexivity.
Qed.

(* ---------- subseg of the other segments, and trim_line ---------- *)
Lemma rc_len_nonneg txt : Forall (fun c => 0 <= r_len c) txt -> 0 <= rc_len txt.
Proof. induction 1; cbn [rc_len]; lia. Qed.

Lemma Forall_drop_bytes (P : rchr -> Prop) txt : forall n, Forall P txt -> Forall P (drop_bytes txt n).
Proof.
  induction txt as [|c t IH]; intros n H; cbn [drop_bytes]; [constructor|].
  destruct (n <=? 0); [assumption|]. inversion H; subst. now apply IH.
Qed.

Lemma Forall_take_bytes (P : rchr -> Prop) txt : forall n, Forall P txt -> Forall P (take_bytes txt n).
Proof.
  induction txt as [|c t IH]; intros n H; cbn [take_bytes]; [constructor|].
  destruct (n <=? 0); [constructor|]. inversion H; subst. constructor; [assumption | now apply IH].
Qed.

Lemma subseg_wf text s start e : wf_pre text s -> 0 <= start ->
  exists l, subseg text s start e = Ok l /\ Forall (wf_seg text) l.
Proof.
  intros Hwf Hs.
  destruct s as [sc o en|sc o txt ilen|sc oo].
  - destruct (Z_lt_le_dec (Z.max start 0) (Z.min e sc)) as [Hlt|Hge].
    + destruct (subseg_text_spec text [] sc o en (Z.max start 0) (Z.min e sc) Hwf ltac:(lia) Hlt ltac:(lia))
        as (l & E & W & _).
      exists l. split; [|exact W].
      unfold subseg in *. cbn [seg_sc] in *.
      replace (Z.max (Z.max start 0) 0) with (Z.max start 0) in E by lia.
      replace (Z.min (Z.min e sc) sc) with (Z.min e sc) in E by lia. exact E.
    + exists []. split; [|constructor]. unfold subseg. cbn [seg_sc].
      destruct (Z.min e sc <=? Z.max start 0) eqn:E0; [reflexivity | lia].
  - destruct Hwf as (H1 & H2 & H3 & H4 & H5). unfold subseg. cbn [seg_sc].
    destruct (Z.min e sc <=? Z.max start 0) eqn:E0; [exists []; split; [reflexivity | constructor]|].
    destruct (rc_len txt =? 0) eqn:E1; cbn [negb].
    + eexists. split; [reflexivity|]. constructor; [|constructor]. cbn [wf_seg]. lia.
    + destruct (calc_trim_text txt (Z.max start 0) (Z.min e sc)) as [[[spos epos] pl] pr].
      eexists. split; [reflexivity|]. constructor; [|constructor]. cbn [wf_seg].
      split; [lia|]. split; [lia|]. apply rc_len_nonneg.
      apply Forall_app. split; [apply Forall_forall; intros x Hx; apply repeat_spec in Hx; subst; cbn; lia|].
      apply Forall_app. split.
      * apply Forall_take_bytes, Forall_drop_bytes. eapply Forall_impl; [|exact H4]. cbn. intros; lia.
      * apply Forall_forall; intros x Hx; apply repeat_spec in Hx; subst; cbn; lia.
  - unfold subseg. cbn [seg_sc].
    destruct (Z.min e sc <=? Z.max start 0) eqn:E0; [exists []; split; [reflexivity | constructor]|].
    eexists. split; [reflexivity|]. constructor; [|constructor].
    destruct oo as [o|]; cbn [wf_seg wf_pre] in *; lia.
Qed.

Lemma seg_check_pre text s : wf_pre text s -> seg_sc s > 0 -> seg_check s = Ok tt.
Proof.
  destruct s as [sc o en|sc o txt ilen|sc [o|]]; cbn [wf_pre seg_check seg_sc]; intros H Hs.
  - destruct (sc <=? 0) eqn:E; [lia | reflexivity].
  - destruct (sc <=? 0) eqn:E; [lia | reflexivity].
  - destruct (sc <? 0) eqn:E; [lia | reflexivity].
  - reflexivity.
Qed.

Lemma trim_line_go_wf text e : forall segs start x acc,
  Forall (wf_pre text) segs -> 0 <= start -> Forall (wf_seg text) acc ->
  exists l, trim_line_go text segs start x e acc = Ok l /\ Forall (wf_seg text) l.
Proof.
  induction segs as [|s r IH]; intros start x acc Hp Hs Ha; cbn [trim_line_go].
  - exists acc. auto.
  - inversion Hp as [|? ? Hs0 Hr]; subst.
    destruct (negb (start =? 0) || (seg_sc s <? 0)) eqn:E0.
    + destruct (seg_sc s <=? start) eqn:E1; [apply IH; assumption || lia|].
      rewrite (seg_check_pre text s Hs0) by lia.
      destruct (e <=? x + seg_sc s) eqn:E2.
      * apply subseg_wf; assumption.
      * destruct (subseg_wf text s start (seg_sc s) Hs0 Hs) as (l & El & Wl). rewrite El.
        apply IH; try assumption; try lia. apply Forall_app. auto.
    + destruct (e <=? x) eqn:E1; [exists acc; auto|].
      destruct (e <? x + seg_sc s) eqn:E2.
      * rewrite (seg_check_pre text s Hs0) by lia.
        destruct (subseg_wf text s 0 (e - x) Hs0 ltac:(lia)) as (l & El & Wl). rewrite El.
        eexists. split; [reflexivity|]. apply Forall_app. auto.
      * apply IH; try assumption. apply Forall_app. split; [assumption|]. constructor; [|constructor].
        apply wf_pre_kept; [assumption | lia].
Qed.

(* every line of segments as a layout produces them - any alignment pad, overlong or not - is
   handed to the segment loop as a list of well-formed segments *)
Lemma trim_line_wf text segs maxcol : Forall (wf_pre text) segs ->
  exists l, trim_line text segs maxcol = Ok l /\ Forall (wf_seg text) l.
Proof. intro H. unfold trim_line. apply trim_line_go_wf; [assumption | lia | constructor]. Qed.

Lemma trimmed_lines_exist text maxcol lines : Forall (Forall (wf_pre text)) lines ->
  exists tl, trimmed_lines text maxcol lines tl.
Proof.
  induction 1 as [|l r Hl Hr [tl IH]]; [exists []; constructor|].
  destruct (trim_line_wf text l maxcol Hl) as (l' & E & W).
  exists (l' :: tl). constructor; [split; assumption | exact IH].
Qed.
