(* C18 - proofs about the translated tables and the translated parser / describer cores.
   Finite domains are settled by complete vm_compute sweeps lifted with forallb_forall; payloads
   outside the swept range and true colours are handled by arithmetic. *)
From Coq Require Import ZArith List Bool Lia ZifyBool.
Import ListNotations.
From Urwid Require Import PyBase PyList ColourBase colours_gen Colours.
Open Scope Z_scope.

(* ------------------------------------------------------------------ enumeration *)
Definition upto (n : nat) : list Z := map Z.of_nat (seq 0 n).

Lemma In_upto n z : 0 <= z < Z.of_nat n -> In z (upto n).
Proof.
  intros H. unfold upto. apply in_map_iff. exists (Z.to_nat z). split; [lia|].
  apply in_seq. lia.
Qed.

Lemma sweep (n : nat) (P : Z -> bool) :
  forallb P (upto n) = true -> forall z, 0 <= z < Z.of_nat n -> P z = true.
Proof. intros H z Hz. rewrite forallb_forall in H. apply H, In_upto, Hz. Qed.

(* ------------------------------------------------------------------ xterm reference tables (closed forms) *)
(* XTerm-col.ad / X11 rgb.txt: color0 .. color15 *)
Definition xterm_basic : list (Z * Z * Z) :=
  [(0, 0, 0); (205, 0, 0); (0, 205, 0); (205, 205, 0); (0, 0, 238); (205, 0, 205); (0, 205, 205);
   (229, 229, 229); (127, 127, 127); (255, 0, 0); (0, 255, 0); (255, 255, 0); (92, 92, 255);
   (255, 0, 255); (0, 255, 255); (255, 255, 255)].
Definition triple_d (l : list (Z * Z * Z)) (i : Z) : Z * Z * Z :=
  match nthz l i with Some t => t | None => (0, 0, 0) end.
(* 256colres.h: the cube uses 0 | 55 + 40 k, the gray ramp 8 + 10 k *)
Definition xcube256 (k : Z) : Z := if k =? 0 then 0 else 55 + 40 * k.
Definition xgray256 (k : Z) : Z := 8 + 10 * k.
Definition xterm256 (n : Z) : Z * Z * Z :=
  if n <? 16 then triple_d xterm_basic n
  else if n <? 232 then
    let m := n - 16 in (xcube256 (m / 36), xcube256 ((m / 6) mod 6), xcube256 (m mod 6))
  else let g := xgray256 (n - 232) in (g, g, g).
(* 88colres.h *)
Definition xcube88 (k : Z) : Z := nth_d [0; 139; 205; 255] k.
Definition xgray88 (k : Z) : Z := nth_d [46; 92; 115; 139; 162; 185; 208; 231] k.
Definition xterm88 (n : Z) : Z * Z * Z :=
  if n <? 16 then triple_d xterm_basic n
  else if n <? 80 then
    let m := n - 16 in (xcube88 (m / 16), xcube88 ((m / 4) mod 4), xcube88 (m mod 4))
  else let g := xgray88 (n - 80) in (g, g, g).

Definition triple_eqb (a b : Z * Z * Z) : bool :=
  let '(a1, a2, a3) := a in let '(b1, b2, b3) := b in (a1 =? b1) && (a2 =? b2) && (a3 =? b3).
Lemma triple_eqb_eq a b : triple_eqb a b = true -> a = b.
Proof. destruct a as [[? ?] ?], b as [[? ?] ?]; cbn; intros; f_equal; [f_equal|]; lia. Qed.

Definition table_ok (tbl : list (Z * Z * Z)) (f : Z -> Z * Z * Z) (n : Z) : bool :=
  match get_index tbl n with Ok t => triple_eqb t (f n) | Err _ => false end.

Lemma color_values_256_sweep : forallb (table_ok COLOR_VALUES_256 xterm256) (upto 256) = true.
Proof. vm_compute. reflexivity. Qed.
Lemma color_values_88_sweep : forallb (table_ok COLOR_VALUES_88 xterm88) (upto 88) = true.
Proof. vm_compute. reflexivity. Qed.

Lemma color_values_256_xterm n : 0 <= n < 256 -> get_index COLOR_VALUES_256 n = Ok (xterm256 n).
Proof.
  intros H. pose proof (sweep 256 _ color_values_256_sweep n ltac:(lia)) as S.
  unfold table_ok in S. destruct (get_index COLOR_VALUES_256 n); [|discriminate].
  now rewrite (triple_eqb_eq _ _ S).
Qed.
Lemma color_values_88_xterm n : 0 <= n < 88 -> get_index COLOR_VALUES_88 n = Ok (xterm88 n).
Proof.
  intros H. pose proof (sweep 88 _ color_values_88_sweep n ltac:(lia)) as S.
  unfold table_ok in S. destruct (get_index COLOR_VALUES_88 n); [|discriminate].
  now rewrite (triple_eqb_eq _ _ S).
Qed.

Lemma basic_values_xterm : BASIC_COLOR_VALUES = xterm_basic.
Proof. reflexivity. Qed.
Lemma lengths_256_88 : zlen COLOR_VALUES_256 = 256 /\ zlen COLOR_VALUES_88 = 88.
Proof. split; reflexivity. Qed.

(* ------------------------------------------------------------------ nearest step *)
(* the palette levels among which a value is looked up *)
Definition gray_levels_256 : list Z := [0] ++ GRAY_STEPS_256 ++ [255].
Definition gray_levels_88 : list Z := [0] ++ GRAY_STEPS_88 ++ [255].

Definition nearest_b (steps : list Z) (v s : Z) : bool :=
  existsb (Z.eqb s) steps && forallb (fun t => Z.abs (s - v) <=? Z.abs (t - v)) steps.
Definition is_nearest (steps : list Z) (v s : Z) : Prop :=
  In s steps /\ forall t, In t steps -> Z.abs (s - v) <= Z.abs (t - v).
Lemma nearest_b_ok steps v s : nearest_b steps v s = true -> is_nearest steps v s.
Proof.
  unfold nearest_b, is_nearest. rewrite andb_true_iff, existsb_exists, forallb_forall.
  intros [[x [Hx Ex]] F]. apply Z.eqb_eq in Ex. subst x. split; [assumption|].
  intros t Ht. specialize (F t Ht). lia.
Qed.

(* _value_lookup_table(steps, 256)[v] is the index of a nearest step, for every v < 256 *)
Definition lookup_ok (steps lookup : list Z) (v : Z) : bool :=
  match nthz lookup v with
  | Some k => match nthz steps k with Some s => nearest_b steps v s | None => false end
  | None => false
  end.
Definition lookup_exact (steps lookup : list Z) (j : Z) : bool :=
  match nthz steps j with
  | Some s => match nthz lookup s with Some k => k =? j | None => false end
  | None => false
  end.

Lemma cube_256_lookup_sweep : forallb (lookup_ok CUBE_STEPS_256 CUBE_256_LOOKUP) (upto 256) = true.
Proof. vm_compute. reflexivity. Qed.
Lemma gray_256_lookup_sweep : forallb (lookup_ok gray_levels_256 GRAY_256_LOOKUP) (upto 256) = true.
Proof. vm_compute. reflexivity. Qed.
Lemma cube_88_lookup_sweep : forallb (lookup_ok CUBE_STEPS_88 CUBE_88_LOOKUP) (upto 256) = true.
Proof. vm_compute. reflexivity. Qed.
Lemma gray_88_lookup_sweep : forallb (lookup_ok gray_levels_88 GRAY_88_LOOKUP) (upto 256) = true.
Proof. vm_compute. reflexivity. Qed.
Lemma lookup_exact_sweeps :
  forallb (lookup_exact CUBE_STEPS_256 CUBE_256_LOOKUP) (upto 6) = true /\
  forallb (lookup_exact gray_levels_256 GRAY_256_LOOKUP) (upto 26) = true /\
  forallb (lookup_exact CUBE_STEPS_88 CUBE_88_LOOKUP) (upto 4) = true /\
  forallb (lookup_exact gray_levels_88 GRAY_88_LOOKUP) (upto 10) = true.
Proof. repeat split; vm_compute; reflexivity. Qed.

Lemma lookup_ok_spec steps lookup (n : nat) :
  forallb (lookup_ok steps lookup) (upto n) = true ->
  forall v, 0 <= v < Z.of_nat n ->
    exists k s, nthz lookup v = Some k /\ nthz steps k = Some s /\ is_nearest steps v s.
Proof.
  intros S v Hv. pose proof (sweep n _ S v Hv) as P. unfold lookup_ok in P.
  destruct (nthz lookup v) as [k|] eqn:E1; [|discriminate].
  destruct (nthz steps k) as [s|] eqn:E2; [|discriminate].
  exists k, s. split; [reflexivity|]. split; [exact E2|]. now apply nearest_b_ok.
Qed.

Lemma lookup_exact_spec steps lookup (n : nat) :
  forallb (lookup_exact steps lookup) (upto n) = true ->
  forall j, 0 <= j < Z.of_nat n -> exists s, nthz steps j = Some s /\ nthz lookup s = Some j.
Proof.
  intros S j Hj. pose proof (sweep n _ S j Hj) as P. unfold lookup_exact in P.
  destruct (nthz steps j) as [s|] eqn:E1; [|discriminate].
  destruct (nthz lookup s) as [k|] eqn:E2; [|discriminate].
  apply Z.eqb_eq in P. subst k. exists s. now split.
Qed.

(* the table generator itself, for arbitrary ascending steps: a generic statement would need the
   sortedness premise of the docstring; the four instances the module builds are covered above. *)

(* ------------------------------------------------------------------ string-level: '#rgb', 'g#xx', 'gNN' reach a nearest entry *)
Definition rgb_of (tbl : list (Z * Z * Z)) (c : Z) : Z * Z * Z := triple_d tbl c.

(* '#rgb' : digit d stands for the 8-bit value 17 d (0xdd) *)
Definition cube_parse_ok (parse : desc -> result (option Z)) (tbl : list (Z * Z * Z)) (steps : list Z) (rgb : Z) : bool :=
  match parse (DCube rgb) with
  | Ok (Some c) =>
      let '(R, G, B) := rgb_of tbl c in
      (0 <=? c) && (c <? zlen tbl)
      && nearest_b steps (17 * (rgb / 256)) R && nearest_b steps (17 * ((rgb / 16) mod 16)) G
      && nearest_b steps (17 * (rgb mod 16)) B
  | _ => false
  end.
Lemma cube_parse_256_sweep : forallb (cube_parse_ok parse_color_256 COLOR_VALUES_256 CUBE_STEPS_256) (upto 4096) = true.
Proof. vm_compute. reflexivity. Qed.
Lemma cube_parse_88_sweep : forallb (cube_parse_ok parse_color_88 COLOR_VALUES_88 CUBE_STEPS_88) (upto 4096) = true.
Proof. vm_compute. reflexivity. Qed.

(* 'g#xx' : the 8-bit value itself;  'gNN' : NN percent, scaled by int_scale(NN, 101, 256) *)
Definition gray_parse_ok (parse : desc -> result (option Z)) (tbl : list (Z * Z * Z)) (levels : list Z)
           (mk : Z -> desc) (val : Z -> Z) (n : Z) : bool :=
  match parse (mk n) with
  | Ok (Some c) =>
      let '(R, G, B) := rgb_of tbl c in
      (0 <=? c) && (c <? zlen tbl) && (R =? G) && (G =? B) && nearest_b levels (val n) R
  | _ => false
  end.
Definition pct (n : Z) : Z := int_scale n 101 256.
Lemma gray_hex_256_sweep :
  forallb (gray_parse_ok parse_color_256 COLOR_VALUES_256 gray_levels_256 DGrayHex (fun v => v)) (upto 256) = true.
Proof. vm_compute. reflexivity. Qed.
Lemma gray_dec_256_sweep :
  forallb (gray_parse_ok parse_color_256 COLOR_VALUES_256 gray_levels_256 DGrayDec pct) (upto 101) = true.
Proof. vm_compute. reflexivity. Qed.
Lemma gray_hex_88_sweep :
  forallb (gray_parse_ok parse_color_88 COLOR_VALUES_88 gray_levels_88 DGrayHex (fun v => v)) (upto 256) = true.
Proof. vm_compute. reflexivity. Qed.
Lemma gray_dec_88_sweep :
  forallb (gray_parse_ok parse_color_88 COLOR_VALUES_88 gray_levels_88 DGrayDec pct) (upto 101) = true.
Proof. vm_compute. reflexivity. Qed.

(* int_scale(NN, 101, 256) is NN * 255 / 100 rounded half up *)
Lemma pct_closed_form n : pct n = (2 * 255 * n + 100) / 200.
Proof. unfold pct, int_scale. f_equal; lia. Qed.

Lemma digits3 r g b : 0 <= r < 16 -> 0 <= g < 16 -> 0 <= b < 16 ->
  (r * 256 + g * 16 + b) / 256 = r /\ ((r * 256 + g * 16 + b) / 16) mod 16 = g /\ (r * 256 + g * 16 + b) mod 16 = b.
Proof. intros. repeat split; Z.div_mod_to_equations; lia. Qed.

Lemma cube_parse_spec parse tbl steps (S : forallb (cube_parse_ok parse tbl steps) (upto 4096) = true) :
  forall r g b, 0 <= r < 16 -> 0 <= g < 16 -> 0 <= b < 16 ->
  exists c R G B, parse (DCube (r * 256 + g * 16 + b)) = Ok (Some c) /\ 0 <= c < zlen tbl /\
    rgb_of tbl c = (R, G, B) /\
    is_nearest steps (17 * r) R /\ is_nearest steps (17 * g) G /\ is_nearest steps (17 * b) B.
Proof.
  intros r g b Hr Hg Hb.
  pose proof (sweep 4096 _ S (r * 256 + g * 16 + b) ltac:(lia)) as P. unfold cube_parse_ok in P.
  destruct (digits3 r g b Hr Hg Hb) as [D1 [D2 D3]]. rewrite D1, D2, D3 in P.
  destruct (parse (DCube (r * 256 + g * 16 + b))) as [[c|]|]; try discriminate.
  destruct (rgb_of tbl c) as [[R G] B] eqn:ER.
  rewrite !andb_true_iff in P. destruct P as [[[[P1 P2] P3] P4] P5].
  exists c, R, G, B. split; [reflexivity|]. split; [lia|]. split; [exact ER|].
  split; [|split]; now apply nearest_b_ok.
Qed.

Lemma gray_parse_spec parse tbl levels mk val (n : nat)
      (S : forallb (gray_parse_ok parse tbl levels mk val) (upto n) = true) :
  forall v, 0 <= v < Z.of_nat n ->
  exists c s, parse (mk v) = Ok (Some c) /\ 0 <= c < zlen tbl /\ rgb_of tbl c = (s, s, s) /\
    is_nearest levels (val v) s.
Proof.
  intros v Hv. pose proof (sweep n _ S v Hv) as P. unfold gray_parse_ok in P.
  destruct (parse (mk v)) as [[c|]|]; try discriminate.
  destruct (rgb_of tbl c) as [[R G] B] eqn:ER.
  rewrite !andb_true_iff in P. destruct P as [[[[P1 P2] P3] P4] P5].
  assert (R = G) by lia. assert (G = B) by lia. subst G B.
  exists c, R. split; [reflexivity|]. split; [lia|]. split; [exact ER|]. now apply nearest_b_ok.
Qed.

(* ------------------------------------------------------------------ describe o parse is a projection *)
(* the descriptions the describers produce: 'hN', '#rgb' (three hex digits), 'gN' *)
Definition norm_ok (d : desc) : bool :=
  match d with DH _ | DGrayDec _ => true | DCube x => (0 <=? x) && (x <? 4096) | _ => false end.
Definition rt_ok (desc_f : Z -> result desc) (parse : desc -> result (option Z)) (c : Z) : bool :=
  match desc_f c with
  | Ok d' => norm_ok d' && match parse d' with Ok (Some c') => c' =? c | _ => false end
  | Err _ => false
  end.
Lemma rt_256_sweep : forallb (rt_ok color_desc_256 parse_color_256) (upto 256) = true.
Proof. vm_compute. reflexivity. Qed.
Lemma rt_88_sweep : forallb (rt_ok color_desc_88 parse_color_88) (upto 88) = true.
Proof. vm_compute. reflexivity. Qed.

Lemma rt_256_norm c : 0 <= c < 256 ->
  exists d', color_desc_256 c = Ok d' /\ parse_color_256 d' = Ok (Some c) /\ norm_ok d' = true.
Proof.
  intros H. pose proof (sweep 256 _ rt_256_sweep c ltac:(lia)) as P. unfold rt_ok in P.
  destruct (color_desc_256 c) as [d'|]; [|discriminate]. exists d'. split; [reflexivity|].
  apply andb_true_iff in P. destruct P as [N P]. split; [|exact N].
  destruct (parse_color_256 d') as [[c'|]|]; try discriminate. apply Z.eqb_eq in P. now subst.
Qed.
Lemma rt_256 c : 0 <= c < 256 ->
  exists d', color_desc_256 c = Ok d' /\ parse_color_256 d' = Ok (Some c).
Proof. intros H. destruct (rt_256_norm c H) as [d' [A [B _]]]. now exists d'. Qed.
Lemma rt_88_norm c : 0 <= c < 88 ->
  exists d', color_desc_88 c = Ok d' /\ parse_color_88 d' = Ok (Some c) /\ norm_ok d' = true.
Proof.
  intros H. pose proof (sweep 88 _ rt_88_sweep c ltac:(lia)) as P. unfold rt_ok in P.
  destruct (color_desc_88 c) as [d'|]; [|discriminate]. exists d'. split; [reflexivity|].
  apply andb_true_iff in P. destruct P as [N P]. split; [|exact N].
  destruct (parse_color_88 d') as [[c'|]|]; try discriminate. apply Z.eqb_eq in P. now subst.
Qed.
Lemma rt_88 c : 0 <= c < 88 ->
  exists d', color_desc_88 c = Ok d' /\ parse_color_88 d' = Ok (Some c).
Proof. intros H. destruct (rt_88_norm c H) as [d' [A [B _]]]. now exists d'. Qed.

(* ------------------------------------------------------------------ the parsers: total, in range *)
(* what the lexer can produce: three hex characters are below 0x1000 (a sign makes them negative) *)
Definition lexable (d : desc) : Prop := match d with DCube rgb => rgb < 4096 | _ => True end.

Definition in_range_b (hi : Z) (r : result (option Z)) : bool :=
  match r with Ok (Some c) => (0 <=? c) && (c <? hi) | Ok None => true | Err _ => false end.
Definition in_range (hi : Z) (r : result (option Z)) : Prop :=
  exists o, r = Ok o /\ forall c, o = Some c -> 0 <= c < hi.
Lemma in_range_b_ok hi r : in_range_b hi r = true -> in_range hi r.
Proof.
  destruct r as [[c|]|]; cbn; intros H; try discriminate.
  - exists (Some c). split; [reflexivity|]. intros c' E. inversion E. lia.
  - exists None. split; [reflexivity|]. discriminate.
Qed.
Lemma in_range_some hi c : 0 <= c < hi -> in_range hi (Ok (Some c)).
Proof. intros H. exists (Some c). split; [reflexivity|]. intros c' E. injection E as <-. exact H. Qed.
Lemma in_range_none hi : in_range hi (Ok None).
Proof. exists None. split; [reflexivity|discriminate]. Qed.

Lemma p256_cube_sweep : forallb (fun n => in_range_b 256 (parse_color_256 (DCube n))) (upto 4096) = true.
Proof. vm_compute. reflexivity. Qed.
Lemma p256_ghex_sweep : forallb (fun n => in_range_b 256 (parse_color_256 (DGrayHex n))) (upto 256) = true.
Proof. vm_compute. reflexivity. Qed.
Lemma p256_gdec_sweep : forallb (fun n => in_range_b 256 (parse_color_256 (DGrayDec n))) (upto 101) = true.
Proof. vm_compute. reflexivity. Qed.
Lemma p88_cube_sweep : forallb (fun n => in_range_b 88 (parse_color_88 (DCube n))) (upto 4096) = true.
Proof. vm_compute. reflexivity. Qed.
Lemma p88_ghex_sweep : forallb (fun n => in_range_b 88 (parse_color_88 (DGrayHex n))) (upto 256) = true.
Proof. vm_compute. reflexivity. Qed.
Lemma p88_gdec_sweep : forallb (fun n => in_range_b 88 (parse_color_88 (DGrayDec n))) (upto 101) = true.
Proof. vm_compute. reflexivity. Qed.

Ltac lex_cbn := cbn [s_len_gt4 s_len7 s_is_h s_is_hash4 s_is_hash s_is_hash7 s_is_ghash s_is_g s_int s_collapse7 s_hi_nibbles].

Lemma parse_256_total d : lexable d -> in_range 256 (parse_color_256 d).
Proof.
  destruct d as [|n|n|n|n|n|n|]; intros L; try (apply in_range_none).
  - (* DH *) unfold parse_color_256; lex_cbn.
    destruct ((n <? 0) || (255 <? n)) eqn:E; [apply in_range_none|].
    apply in_range_some. lia.
  - (* DCube *) cbn in L. destruct (Z.ltb_spec n 0).
    + unfold parse_color_256; lex_cbn. replace (0 <=? n) with false by lia. apply in_range_none.
    + apply in_range_b_ok. exact (sweep 4096 _ p256_cube_sweep n ltac:(lia)).
  - (* DGrayDec *) destruct (Z.ltb_spec n 0); [|destruct (Z.ltb_spec 100 n)].
    + unfold parse_color_256; lex_cbn. replace ((n <? 0) || (100 <? n)) with true by lia. apply in_range_none.
    + unfold parse_color_256; lex_cbn. replace ((n <? 0) || (100 <? n)) with true by lia. apply in_range_none.
    + apply in_range_b_ok. exact (sweep 101 _ p256_gdec_sweep n ltac:(lia)).
  - (* DGrayHex *) destruct (Z.ltb_spec n 0); [|destruct (Z.ltb_spec 255 n)].
    + unfold parse_color_256; lex_cbn. replace ((n <? 0) || (255 <? n)) with true by lia. apply in_range_none.
    + unfold parse_color_256; lex_cbn. replace ((n <? 0) || (255 <? n)) with true by lia. apply in_range_none.
    + apply in_range_b_ok. exact (sweep 256 _ p256_ghex_sweep n ltac:(lia)).
Qed.

Lemma hi_nibbles_range n : 0 <= n < 16777216 -> 0 <= hi_nibbles n < 4096.
Proof.
  intros H. unfold hi_nibbles.
  assert (0 <= n / 1048576 < 16) by (split; [apply Z.div_pos; lia | apply Z.div_lt_upper_bound; lia]).
  pose proof (Z.mod_pos_bound (n / 4096) 16 ltac:(lia)).
  pose proof (Z.mod_pos_bound (n / 16) 16 ltac:(lia)). lia.
Qed.

(* parse_color_88 on a description that is not 7 long is the second copy of the shared body *)
Lemma parse_88_total d : lexable d -> in_range 88 (parse_color_88 d).
Proof.
  destruct d as [|n|n|n|n|n|n|]; intros L; try (apply in_range_none).
  - unfold parse_color_88; lex_cbn.
    destruct ((n <? 0) || (87 <? n)) eqn:E; [apply in_range_none|].
    apply in_range_some. lia.
  - cbn in L. destruct (Z.ltb_spec n 0).
    + unfold parse_color_88; lex_cbn. replace (0 <=? n) with false by lia. apply in_range_none.
    + apply in_range_b_ok. exact (sweep 4096 _ p88_cube_sweep n ltac:(lia)).
  - destruct (Z.ltb_spec n 0); [|destruct (Z.ltb_spec 100 n)].
    + unfold parse_color_88; lex_cbn. replace ((n <? 0) || (100 <? n)) with true by lia. apply in_range_none.
    + unfold parse_color_88; lex_cbn. replace ((n <? 0) || (100 <? n)) with true by lia. apply in_range_none.
    + apply in_range_b_ok. exact (sweep 101 _ p88_gdec_sweep n ltac:(lia)).
  - destruct (Z.ltb_spec n 0); [|destruct (Z.ltb_spec 255 n)].
    + unfold parse_color_88; lex_cbn. replace ((n <? 0) || (255 <? n)) with true by lia. apply in_range_none.
    + unfold parse_color_88; lex_cbn. replace ((n <? 0) || (255 <? n)) with true by lia. apply in_range_none.
    + apply in_range_b_ok. exact (sweep 256 _ p88_ghex_sweep n ltac:(lia)).
  - (* DTrue: '#rrggbb' collapses to the high nibbles *)
    assert (E : parse_color_88 (DTrue n) = parse_color_88 (s_collapse7 (DTrue n))).
    { unfold parse_color_88 at 1. lex_cbn.
      destruct ((0 <=? n) && (n <? 16777216)) eqn:R; reflexivity. }
    rewrite E. cbn [s_collapse7]. destruct ((0 <=? n) && (n <? 16777216)) eqn:R; [|apply in_range_none].
    pose proof (hi_nibbles_range n ltac:(lia)).
    apply in_range_b_ok. exact (sweep 4096 _ p88_cube_sweep (hi_nibbles n) ltac:(lia)).
Qed.

(* the describers are total on palette numbers *)
Lemma desc_256_total c : 0 <= c < 256 -> exists d, color_desc_256 c = Ok d.
Proof. intros H. destruct (rt_256 c H) as [d [E _]]. now exists d. Qed.
Lemma desc_88_total c : 0 <= c < 88 -> exists d, color_desc_88 c = Ok d.
Proof. intros H. destruct (rt_88 c H) as [d [E _]]. now exists d. Qed.

(* parse o describe o parse = parse, on every lexable description *)
Lemma parse_describe_256 d c : lexable d -> parse_color_256 d = Ok (Some c) ->
  exists d', color_desc_256 c = Ok d' /\ parse_color_256 d' = Ok (Some c).
Proof.
  intros L E. destruct (parse_256_total d L) as [o [Eo R]]. rewrite Eo in E. inversion E; subst o.
  apply rt_256. now apply R.
Qed.
Lemma parse_describe_88 d c : lexable d -> parse_color_88 d = Ok (Some c) ->
  exists d', color_desc_88 c = Ok d' /\ parse_color_88 d' = Ok (Some c).
Proof.
  intros L E. destruct (parse_88_total d L) as [o [Eo R]]. rewrite Eo in E. inversion E; subst o.
  apply rt_88. now apply R.
Qed.

(* ------------------------------------------------------------------ '#rrggbb' at 256 colours degrades through the cube *)
Lemma true_to_256_total d : lexable d -> exists o, true_to_256 d = Ok o /\
  forall d', o = Some d' -> exists c, 0 <= c < 256 /\ color_desc_256 c = Ok d' /\ parse_color_256 d' = Ok (Some c).
Proof.
  intros L. unfold true_to_256.
  destruct (s_is_hash7 d) eqn:H7; cbn [negb].
  2:{ exists None. split; [reflexivity|discriminate]. }
  destruct d; try discriminate. cbn [s_hi_nibbles].
  destruct ((0 <=? n) && (n <? 16777216)) eqn:R.
  - pose proof (hi_nibbles_range n ltac:(lia)) as HR.
    destruct (parse_256_total (DCube (hi_nibbles n)) ltac:(cbn; lia)) as [o [Eo Ro]].
    rewrite Eo. cbn [bind]. destruct o as [c|].
    + destruct (rt_256 c (Ro c eq_refl)) as [d' [Ed Ep]]. rewrite Ed. cbn [bind].
      exists (Some d'). split; [reflexivity|]. intros d'' E; inversion E; subst d''.
      exists c. split; [now apply Ro|]. now split.
    + exists None. split; [reflexivity|discriminate].
  - exists None. split; [reflexivity|discriminate].
Qed.

(* ------------------------------------------------------------------ true colour *)
Lemma rgb_pack_range_sweep :
  forallb (fun c => match get_index COLOR_VALUES_256 c with
                    | Ok (r, g, b) => (0 <=? Z.shiftl r 16 + Z.shiftl g 8 + b) && (Z.shiftl r 16 + Z.shiftl g 8 + b <? 16777216)
                    | Err _ => false end) (upto 256) = true.
Proof. vm_compute. reflexivity. Qed.

Lemma parse_true_total d : lexable d -> (match d with DTrue n => n < 16777216 | DCube n => 0 <= n | _ => True end) ->
  in_range 16777216 (parse_color_true d).
Proof.
  intros L T. unfold parse_color_true.
  destruct (parse_256_total d L) as [o [Eo Ro]]. rewrite Eo. cbn [bind].
  destruct o as [c|].
  - pose proof (sweep 256 _ rgb_pack_range_sweep c ltac:(apply Ro; reflexivity)) as P. cbn beta in P.
    destruct (get_index COLOR_VALUES_256 c) as [[[r g] b]|]; [|discriminate]. cbn [bind].
    apply in_range_some. generalize dependent (Z.shiftl r 16 + Z.shiftl g 8 + b). intros x P. lia.
  - destruct d as [|n|n|n|n|n|n|]; lex_cbn; cbn [negb]; try apply in_range_none.
    + (* DCube with parse_256 = None: impossible for 0 <= n < 4096 *)
      exfalso. cbn in L. pose proof (sweep 4096 _ p256_cube_sweep n ltac:(lia)) as P.
      assert (Q : forallb (fun n => match parse_color_256 (DCube n) with Ok (Some _) => true | _ => false end) (upto 4096) = true)
        by (vm_compute; reflexivity).
      pose proof (sweep 4096 _ Q n ltac:(lia)) as Q'. cbn beta in Q'. rewrite Eo in Q'. discriminate.
    + destruct (0 <=? n) eqn:E; [|apply in_range_none].
      apply in_range_some. lia.
Qed.

(* '#rrggbb' with 0 <= n < 2^24 : describing and parsing are mutually inverse, by computation on the
   symbolic n (no sweep) *)
Lemma true_roundtrip n : 0 <= n < 16777216 ->
  color_desc_true n = Ok (DTrue n) /\ parse_color_true (DTrue n) = Ok (Some n).
Proof.
  intros H. split; [reflexivity|].
  unfold parse_color_true. unfold parse_color_256 at 1. lex_cbn. cbn [bind negb].
  replace (0 <=? n) with true by lia. reflexivity.
Qed.

Lemma parse_describe_true d c : lexable d -> (match d with DTrue n => n < 16777216 | DCube n => 0 <= n | _ => True end) ->
  parse_color_true d = Ok (Some c) ->
  exists d', color_desc_true c = Ok d' /\ parse_color_true d' = Ok (Some c).
Proof.
  intros L T E. destruct (parse_true_total d L T) as [o [Eo R]]. rewrite Eo in E. inversion E; subst o.
  exists (DTrue c). apply true_roundtrip. now apply R.
Qed.

(* the palette colours keep their xterm RGB value when given at 2^24 colours *)
Lemma parse_true_palette d c : parse_color_256 d = Ok (Some c) -> 0 <= c < 256 ->
  parse_color_true d = Ok (Some (let '(r, g, b) := xterm256 c in r * 65536 + g * 256 + b)).
Proof.
  intros E H. unfold parse_color_true. rewrite E. cbn [bind].
  rewrite (color_values_256_xterm c H). cbn [bind].
  destruct (xterm256 c) as [[r g] b]. rewrite !Z.shiftl_mul_pow2 by lia. reflexivity.
Qed.

(* ------------------------------------------------------------------ _gray_num_* agree with the gray branch of the parsers *)
Definition gray_num_ok_256 (v : Z) : bool :=
  match nthz GRAY_256_LOOKUP v, parse_color_256 (DGrayHex v) with
  | Some k, Ok (Some c) => c =? gray_num_256 k
  | _, _ => false
  end.
Definition gray_num_ok_88 (v : Z) : bool :=
  match nthz GRAY_88_LOOKUP v, parse_color_88 (DGrayHex v) with
  | Some k, Ok (Some c) => c =? gray_num_88 k
  | _, _ => false
  end.
Lemma gray_num_sweeps : forallb gray_num_ok_256 (upto 256) = true /\ forallb gray_num_ok_88 (upto 256) = true.
Proof. split; vm_compute; reflexivity. Qed.

(* ------------------------------------------------------------------ '#rrggbb' below 2^24 colours: the high nibbles, through the cube *)
Lemma p256_cube_some_sweep :
  forallb (fun n => match parse_color_256 (DCube n) with Ok (Some _) => true | _ => false end) (upto 4096) = true.
Proof. vm_compute. reflexivity. Qed.

Lemma degrade_88 n : 0 <= n < 16777216 -> parse_color_88 (DTrue n) = parse_color_88 (DCube (hi_nibbles n)).
Proof.
  intros H. unfold parse_color_88 at 1. lex_cbn.
  replace ((0 <=? n) && (n <? 16777216)) with true by lia. reflexivity.
Qed.

Lemma degrade_256 n : 0 <= n < 16777216 ->
  bind (true_to_256 (DTrue n)) (fun t => parse_color_256 (match t with Some d' => d' | None => DTrue n end))
  = parse_color_256 (DCube (hi_nibbles n)).
Proof.
  intros H. pose proof (hi_nibbles_range n H) as HR.
  unfold true_to_256. lex_cbn. cbn [negb]. replace ((0 <=? n) && (n <? 16777216)) with true by lia.
  pose proof (sweep 4096 _ p256_cube_some_sweep (hi_nibbles n) ltac:(lia)) as S. cbn beta in S.
  destruct (parse_256_total (DCube (hi_nibbles n)) ltac:(cbn; lia)) as [o [Eo Ro]].
  rewrite Eo in S |- *. destruct o as [c|]; [|discriminate]. cbn [bind].
  destruct (rt_256 c (Ro c eq_refl)) as [d' [Ed Ep]]. rewrite Ed. cbn [bind]. exact Ep.
Qed.
