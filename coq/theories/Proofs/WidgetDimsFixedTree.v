(* C01 - FIXED sizing over trees: which nodes are covered and the induction. *)
From Coq Require Import ZArith List Bool Lia ZifyBool.
Import ListNotations.
From Urwid Require Import WidgetDims WidgetDimsProofs WidgetDimsFrame WidgetDimsOverlay WidgetDimsColsArith
  WidgetDimsCols WidgetDimsTree WidgetDimsFixed WidgetDimsFixedPile WidgetDimsFixedCols.
Open Scope Z_scope.

(* every leaf that claims FIXED sizing renders what it packs (hypothesis, discharged by testing) *)
Fixpoint leaves_fx (w : widget) : Prop :=
  match w with
  | WLeaf d => GoodFx (leaf_sem d)
  | WAttr w => leaves_fx w
  | WPadding w _ _ _ _ _ => leaves_fx w
  | WPile items _ => leaves_fx_p items
  | WColumns items _ _ _ => leaves_fx_c items
  | _ => True
  end
with leaves_fx_p (l : pitems) : Prop :=
  match l with PNil => True | PCons w _ _ r => leaves_fx w /\ leaves_fx_p r end
with leaves_fx_c (l : citems) : Prop :=
  match l with CNil => True | CCons w _ _ _ r => leaves_fx w /\ leaves_fx_c r end.

Definition padfix_b (wt : wtype) (mw : option Z) : bool :=
  match wt with
  | WGiven n => match mw with None => true | Some m => m <=? n end
  | WPack => match mw with None => true | Some m => m <=? 1 end
  | _ => false
  end.

(* the nodes on the FIXED path that are covered.  A node that does not claim FIXED sizing is always fine:
   nothing is asked of it in fixed mode. *)
Fixpoint fixed_fragment (w : widget) : bool :=
  negb (s_fixed (m_sizing (denote w))) ||
  match w with
  | WLeaf _ => true
  | WAttr w => fixed_fragment w
  | WPadding w _ wt mw _ _ => padfix_b wt mw && (match wt with WPack => fixed_fragment w | _ => true end)
  | WOverlay t b p =>
      (match ov_wt p with
       | WRelative pct => (pct <=? 100) && (match ov_minw p with Some m => 0 <=? m | None => true end)
       | WGiven _ => true
       | _ => false
       end)
  | WPile items _ => fixed_fragment_p items
  | WColumns items _ _ _ => fixed_fragment_c items
  | _ => false
  end
with fixed_fragment_p (l : pitems) : bool :=
  match l with PNil => true | PCons w _ _ r => fixed_fragment w && fixed_fragment_p r end
with fixed_fragment_c (l : citems) : bool :=
  match l with CNil => true | CCons w _ _ _ r => fixed_fragment w && fixed_fragment_c r end.

Theorem fixed_contract_by_induction :
  forall w, wf_b w = true -> proved_fragment w = true -> fixed_fragment w = true ->
            leaves_ok w -> leaves_fx w -> GoodFx (denote w).
Proof.
  apply (widget_mut
    (fun w => wf_b w = true -> proved_fragment w = true -> fixed_fragment w = true ->
              leaves_ok w -> leaves_fx w -> GoodFx (denote w))
    (fun l => forall ps, wf_p l ps = true -> proved_fragment_p l = true -> fixed_fragment_p l = true ->
              leaves_ok_p l -> leaves_fx_p l -> s_fixed ps = true -> Forall pfx_ok (denote_p l))
    (fun l => forall cs, wf_c l cs = true -> proved_fragment_c l cs = true -> fixed_fragment_c l = true ->
              leaves_ok_c l -> leaves_fx_c l -> s_fixed cs = true -> Forall cfx_ok (denote_c l))
    (fun _ => True)).
  - (* leaf *) intros d _ _ _ _ Hx. exact Hx.
  - (* attr *) intros w IH Hw Hp Hf Hl Hx.
    destruct (s_fixed (m_sizing (denote (WAttr w)))) eqn:ES; [|apply nofixed_fx; exact ES].
    cbn [fixed_fragment] in Hf. rewrite ES in Hf. cbn [negb orb] in Hf.
    cbn [denote]. apply attr_fx. apply IH; auto.
  - (* boxadapter *) intros w _ h _ _ _ _ _. apply nofixed_fx. reflexivity.
  - (* padding *) intros w IH a wt mw l r Hw Hp Hf Hl Hx.
    destruct (s_fixed (m_sizing (denote (WPadding w a wt mw l r)))) eqn:ES; [|apply nofixed_fx; exact ES].
    cbn [fixed_fragment] in Hf. rewrite ES in Hf. cbn [negb orb] in Hf.
    cbn [denote wf_b proved_fragment leaves_ok leaves_fx] in *.
    apply padding_fx; try lia.
    + apply contract_by_structural_induction; auto; lia.
    + intros ->. apply IH; auto; lia.
    + unfold padfix_ok, padfix_b in *. destruct wt; try discriminate; destruct mw; auto; lia.
  - (* filler *) intros w _ va ht mh t b _ _ _ _ _. apply nofixed_fx. cbn. destruct ht; reflexivity.
  - (* pile *) intros items IH fp Hw Hp Hf Hl Hx.
    destruct (s_fixed (m_sizing (denote (WPile items fp)))) eqn:ES; [|apply nofixed_fx; exact ES].
    cbn [fixed_fragment] in Hf. rewrite ES in Hf. cbn [negb orb] in Hf.
    cbn [denote wf_b proved_fragment leaves_ok leaves_fx] in *.
    apply pile_fx.
    + apply denote_p_nonempty. lia.
    + apply (IH (pile_sizing (denote_p items))); auto; lia.
  - (* columns *) intros items IH d mw fp Hw Hp Hf Hl Hx.
    destruct (s_fixed (m_sizing (denote (WColumns items d mw fp)))) eqn:ES; [|apply nofixed_fx; exact ES].
    cbn [fixed_fragment] in Hf. rewrite ES in Hf. cbn [negb orb] in Hf.
    cbn [denote wf_b proved_fragment leaves_ok leaves_fx cols_sem mk_node m_sizing] in *.
    repeat match type of Hw with (_ && _) = true => apply andb_prop in Hw; let H := fresh "W" in destruct Hw as [Hw H] end.
    apply andb_prop in Hp. destruct Hp as [Hp1 Hp2].
    apply cols_fx; try lia.
    + apply (IH (cols_sizing (denote_c items))); auto.
    + rewrite ES in W. cbn [negb orb] in W. apply existsb_exists in W. destruct W as [it [Hin Hb]].
      apply Exists_exists. exists it. split; [exact Hin|]. destruct (ci_box it); [discriminate|reflexivity].
  - (* frame *) intros. apply nofixed_fx. reflexivity.
  - (* overlay *) intros t _ b _ p Hw Hp Hf Hl Hx.
    destruct (s_fixed (m_sizing (denote (WOverlay t b p)))) eqn:ES; [|apply nofixed_fx; exact ES].
    cbn [fixed_fragment] in Hf. rewrite ES in Hf. cbn [negb orb] in Hf.
    cbn [denote wf_b proved_fragment leaves_ok] in *. destruct Hl as [L1 L2].
    repeat match type of Hw with (_ && _) = true => apply andb_prop in Hw; let H := fresh "W" in destruct Hw as [Hw H] end.
    repeat match type of Hp with (_ && _) = true => apply andb_prop in Hp; let H := fresh "P" in destruct Hp as [Hp H] end.
    assert (OG : overlay_given p) by (eapply overlay_given_of_bools; eauto).
    apply overlay_fx; auto.
    + apply contract_by_structural_induction; auto.
    + exists 1. apply contract_by_structural_induction; auto.
    + split; [exact OG|]. destruct (ov_wt p); auto. destruct (ov_minw p); lia.
  - (* PNil *) intros; constructor.
  - (* PCons *) intros w IHw k n r IHr ps Hw Hp Hf Hl Hx Hs.
    cbn [wf_p proved_fragment_p fixed_fragment_p leaves_ok_p leaves_fx_p denote_p] in *.
    destruct Hl as [L1 L2]. destruct Hx as [X1 X2].
    apply andb_prop in Hw. destruct Hw as [Hw Hw3]. apply andb_prop in Hw. destruct Hw as [Hw1 Hw2].
    apply andb_prop in Hp. destruct Hp as [Hp1 Hp2]. apply andb_prop in Hf. destruct Hf as [Hf1 Hf2].
    constructor; [|apply (IHr ps); auto].
    unfold pfx_ok. cbn [pi_sem pi_kind pi_amount]. split; [|split].
    + apply contract_by_structural_induction; auto.
    + unfold fpack_pos. intros Hfx f. exact (gx_pack _ (IHw Hw1 Hp1 Hf1 L1 X1) Hfx f).
    + unfold pile_child_ok, impb in Hw2. rewrite Hs in Hw2. destruct k; cbn in Hw2.
      * split; lia.
      * exact Hw2.
      * apply andb_prop in Hw2. destruct Hw2 as [Hw2 Kfx]. apply andb_prop in Hw2. destruct Hw2 as [Hw2 _].
        apply andb_prop in Hw2. destruct Hw2 as [Hw2 _]. apply andb_prop in Hw2. destruct Hw2 as [Kn _].
        split; [lia|]. cbn in Kfx.
        destruct (s_flow (m_sizing (denote w))); [left; reflexivity|right].
        destruct (s_fixed (m_sizing (denote w))), (s_box (m_sizing (denote w))); cbn in Kfx; try discriminate; auto.
  - (* CNil *) intros; constructor.
  - (* CCons *) intros w IHw k n b r IHr cs Hw Hp Hf Hl Hx Hs.
    cbn [wf_c proved_fragment_c fixed_fragment_c leaves_ok_c leaves_fx_c denote_c] in *.
    destruct Hl as [L1 L2]. destruct Hx as [X1 X2].
    apply andb_prop in Hw. destruct Hw as [Hw Hw3]. apply andb_prop in Hw. destruct Hw as [Hw1 Hw2].
    repeat match type of Hp with (_ && _) = true => apply andb_prop in Hp; let H := fresh "P" in destruct Hp as [Hp H] end.
    apply andb_prop in Hf. destruct Hf as [Hf1 Hf2].
    constructor; [|apply (IHr cs); auto].
    unfold cfx_ok. cbn [ci_sem ci_kind ci_amount ci_box]. split; [|split].
    + apply contract_by_structural_induction; auto.
    + apply IHw; auto.
    + unfold cols_child_ok, impb in Hw2. rewrite Hs in Hw2. cbn [negb orb] in Hw2.
      apply andb_prop in Hw2. destruct Hw2 as [Hw2 Kfx]. apply andb_prop in Hw2. destruct Hw2 as [Hw2 _].
      apply andb_prop in Hw2. destruct Hw2 as [Ka _].
      destruct k.
      * apply andb_prop in Ka. destruct Ka as [Kn _]. split; [lia|]. destruct b; cbn in Kfx; exact Kfx.
      * apply andb_prop in Kfx. destruct Kfx as [K1 K2]. split; [exact K1|]. destruct b; [discriminate|reflexivity].
      * apply andb_prop in Ka. destruct Ka as [Kn _]. split; [lia|]. destruct b; cbn in Kfx; exact Kfx.
  - exact I.
  - intros; exact I.
Qed.

Theorem leaf_fx_sufficient d :
  (s_fixed (l_sizing d) = true -> forall f,
     match l_fixed_pack d f with Ok (w, h) => 1 <= w /\ 1 <= h | Err e => soft e end) ->
  (s_fixed (l_sizing d) = true -> forall f,
     match l_fixed_render d f with
     | Ok cv => l_fixed_pack d f = Ok (cc cv, cr cv) /\ rect cv = true /\ inside cv
     | Err e => soft e end) ->
  GoodFx (leaf_sem d).
Proof.
  intros H1 H2. constructor; cbn [leaf_sem m_sizing m_pack m_render degenerate]; intros Hs f.
  - apply H1; auto.
  - specialize (H2 Hs f). destruct (l_fixed_render d f); [|exact H2]. unfold meets. cbn [leaf_sem m_pack]. exact H2.
Qed.
