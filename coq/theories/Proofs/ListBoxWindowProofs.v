(* C07 - proofs, part 2: the window produced by render_vis (Model/ListBoxView.v) is a contiguous
   slice of the stacked item rows; view_ok; the writers of the view state preserve StateOK. *)
From Coq Require Import ZArith List Bool Lia ZifyBool.
Import ListNotations.
From Urwid Require Import PyBase ListBoxView ListBoxViewProofs.
Open Scope Z_scope.

Arguments Z.add : simpl never.
Arguments Z.sub : simpl never.
Arguments Z.mul : simpl never.
Arguments Z.div : simpl never.
Arguments Z.modulo : simpl never.
Arguments Z.ltb : simpl never.
Arguments Z.leb : simpl never.
Arguments Z.eqb : simpl never.
Arguments Z.min : simpl never.
Arguments Z.max : simpl never.
Arguments Z.of_nat : simpl never.
Arguments Z.to_nat : simpl never.

(* ------------------------------------------------------------------------------------- *)
(* Z-indexed list slicing lemmas *)
Lemma dropz_app_exact {A} (X M : list A) : dropz (zlen X) (X ++ M) = M.
Proof. unfold dropz, zlen. rewrite Nat2Z.id. rewrite skipn_app, skipn_all, Nat.sub_diag. reflexivity. Qed.

Lemma dropz_add {A} (a b : Z) (l : list A) : 0 <= a -> 0 <= b -> dropz (a + b) l = dropz b (dropz a l).
Proof.
  intros Ha Hb. unfold dropz. replace (Z.to_nat (a + b)) with (Z.to_nat a + Z.to_nat b)%nat by lia.
  generalize (Z.to_nat a) (Z.to_nat b). clear. intros n m. revert l.
  induction n; intros l; [reflexivity|]. destruct l; [now destruct m|]. cbn [plus skipn]. apply IHn.
Qed.

Lemma dropz_app_le {A} (n : Z) (M Y : list A) : 0 <= n <= zlen M -> dropz n (M ++ Y) = dropz n M ++ Y.
Proof.
  intros H. unfold dropz, zlen in *. rewrite skipn_app.
  replace (Z.to_nat n - length M)%nat with 0%nat by lia. reflexivity.
Qed.

Lemma takez_app_le {A} (n : Z) (M Y : list A) : n <= zlen M -> takez n (M ++ Y) = takez n M.
Proof.
  intros H. unfold takez, zlen in *. rewrite firstn_app.
  replace (Z.to_nat n - length M)%nat with 0%nat by lia. cbn [firstn]. now rewrite app_nil_r.
Qed.

Lemma takez_all {A} (n : Z) (M : list A) : zlen M <= n -> takez n M = M.
Proof. intros H. unfold takez, zlen in *. apply firstn_all2. lia. Qed.

Lemma dropz_0 {A} (M : list A) : dropz 0 M = M.
Proof. reflexivity. Qed.

Lemma nth_error_firstn_lt {A} : forall (k j : nat) (l : list A), (j < k)%nat -> nth_error (firstn k l) j = nth_error l j.
Proof.
  induction k; intros j l H; [lia|]. destruct l; [now destruct j|]. destruct j; [reflexivity|].
  cbn [firstn nth_error]. apply IHk. lia.
Qed.

Lemma nth_error_skipn_add {A} : forall (a j : nat) (l : list A), nth_error (skipn a l) j = nth_error l (a + j).
Proof.
  induction a; intros j l; [reflexivity|]. destruct l; [now destruct j|]. cbn [skipn plus nth_error]. apply IHa.
Qed.

Lemma nthz_slice {A} (l : list A) (p k j : Z) :
  0 <= p -> 0 <= j < k -> nthz (takez k (dropz p l)) j = nthz l (p + j).
Proof.
  intros Hp Hj. unfold nthz, takez, dropz.
  destruct (j <? 0) eqn:E1; [lia|]. destruct (p + j <? 0) eqn:E2; [lia|].
  rewrite nth_error_firstn_lt by lia. rewrite nth_error_skipn_add. f_equal. lia.
Qed.

Lemma nthz_app_l {A} (a b : list A) j : 0 <= j < zlen a -> nthz (a ++ b) j = nthz a j.
Proof.
  intros H. unfold nthz, zlen in *. destruct (j <? 0); [reflexivity|]. apply nth_error_app1. lia.
Qed.

Lemma nthz_app_r {A} (a b : list A) j : 0 <= j -> nthz (a ++ b) (zlen a + j) = nthz b j.
Proof.
  intros H. unfold nthz, zlen. destruct (Z.of_nat (length a) + j <? 0) eqn:E; [lia|].
  destruct (j <? 0) eqn:E2; [lia|]. rewrite nth_error_app2 by lia. f_equal. lia.
Qed.

Lemma nthz_In {A} (l : list A) j x : nthz l j = Some x -> In x l.
Proof. unfold nthz. destruct (j <? 0); [discriminate|]. apply nth_error_In. Qed.

Lemma nthz_lt {A} (l : list A) j x : nthz l j = Some x -> 0 <= j < zlen l.
Proof.
  unfold nthz, zlen. destruct (j <? 0) eqn:E; [discriminate|]. intros H.
  assert (Z.to_nat j < length l)%nat by (apply nth_error_Some; congruence). lia.
Qed.

Lemma nthz_rows_of (x : fitem) r : 0 <= r < snd x -> nthz (rows_of x) r = Some (fst x, r).
Proof.
  intros H. unfold nthz, rows_of. destruct (r <? 0) eqn:E; [lia|].
  rewrite nth_error_map. rewrite nth_error_nth' with (d := 0%nat) by (rewrite seq_length; lia).
  rewrite seq_nth by lia. cbn [option_map plus]. f_equal. f_equal. lia.
Qed.

(* ------------------------------------------------------------------------------------- *)
(* the walker as numbered lists *)
Definition heights_ok (its : list item) : Prop := Forall (fun w => 0 <= i_rows w) its.
Definition all_rows (its : list item) : list (Z * Z) := rs (number 0 its).
Definition rows_before (its : list item) (f : Z) : Z := tot (number 0 (takez f its)).

Lemma number_app : forall a b s, number s (a ++ b) = number s a ++ number (s + zlen a) b.
Proof.
  induction a as [|x a IH]; intros b s; cbn [number app].
  - rewrite zlen_nil. replace (s + 0) with s by lia. reflexivity.
  - rewrite IH, zlen_cons. replace (s + (1 + zlen a)) with (s + 1 + zlen a) by lia. reflexivity.
Qed.

Lemma nonneg_number : forall l s, heights_ok l -> nonneg (number s l).
Proof.
  induction l as [|x l IH]; intros s H; cbn [number]; [constructor|].
  inversion H; subst. constructor; [assumption|]. apply IH. assumption.
Qed.

Lemma heights_ok_app a b : heights_ok (a ++ b) <-> heights_ok a /\ heights_ok b.
Proof. unfold heights_ok. apply Forall_app. Qed.

Lemma split_at {A} (l : list A) f w : nthz l f = Some w ->
  l = takez f l ++ w :: dropz (f + 1) l /\ zlen (takez f l) = f /\ 0 <= f < zlen l.
Proof.
  unfold nthz, takez, dropz, zlen. destruct (f <? 0) eqn:E; [discriminate|]. intros H.
  assert (Hlt : (Z.to_nat f < length l)%nat) by (apply nth_error_Some; congruence).
  replace (Z.to_nat (f + 1)) with (S (Z.to_nat f)) by lia.
  split; [|split; [rewrite firstn_length; lia | lia]].
  revert H Hlt. generalize (Z.to_nat f). clear. intros n. revert l.
  induction n; intros l H Hlt; destruct l; cbn in *; try lia.
  - now inversion H.
  - f_equal. apply IHn; [assumption | lia].
Qed.

Lemma number_split its f w : nthz its f = Some w ->
  number 0 its = number 0 (takez f its) ++ (f, i_rows w) :: number (f + 1) (dropz (f + 1) its).
Proof.
  intros H. destruct (split_at its f w H) as (E & L & _).
  rewrite E at 1. rewrite number_app. cbn [number]. rewrite L. reflexivity.
Qed.

Lemma all_rows_split its f w : nthz its f = Some w ->
  all_rows its = rs (rev (above_of its f)) ++ rows_of (f, i_rows w) ++ rs (below_of its f).
Proof.
  intros H. unfold all_rows, above_of, below_of. rewrite (number_split its f w H), rev_involutive.
  rewrite rs_app. unfold rs at 2. cbn [flat_map]. reflexivity.
Qed.

Lemma rows_before_above its f : rows_before its f = tot (above_of its f).
Proof. unfold rows_before, above_of. now rewrite tot_rev. Qed.

(* position of the last entry of a fill list (default d) *)
Definition lastpos (d : Z) (l : list fitem) : Z := fold_left (fun _ x => fst x) l d.

Lemma lastpos_rev d l : match rev l with (p, _) :: _ => p | [] => d end = lastpos d l.
Proof.
  destruct l as [|x l] using rev_ind; [reflexivity|].
  rewrite rev_app_distr. cbn [rev app]. unfold lastpos. rewrite fold_left_app. cbn [fold_left].
  destruct x. reflexivity.
Qed.

Lemma lastpos_app d a b : lastpos d (a ++ b) = lastpos (lastpos d a) b.
Proof. unfold lastpos. apply fold_left_app. Qed.

(* everything after the last widget with rows has no rows *)
Lemma bottom_tail : forall l s d, d < s ->
  let bp := lastpos d (filter nzf (number s l)) in
  d <= bp /\ (bp < s -> bp = d) /\
  existsb (fun w => negb (i_rows w =? 0)) (dropz (Z.max 0 (bp + 1 - s)) l) = false.
Proof.
  induction l as [|x l IH]; intros s d Hd; cbn [number filter].
  - unfold lastpos. cbn [fold_left]. splits; try lia. unfold dropz. now rewrite skipn_nil.
  - change (nzf (s, i_rows x)) with (negb (i_rows x =? 0)). destruct (i_rows x =? 0) eqn:E; cbn [negb].
    + destruct (IH (s + 1) d ltac:(lia)) as (H1 & H2 & H3). splits; try lia.
      destruct (Z.ltb_spec (lastpos d (filter nzf (number (s + 1) l))) (s + 1)) as [Hlt|Hge].
      * rewrite (H2 Hlt) in *. replace (Z.max 0 (d + 1 - s)) with 0 by lia.
        replace (Z.max 0 (d + 1 - (s + 1))) with 0 in H3 by lia.
        rewrite dropz_0 in *. cbn [existsb]. rewrite E. cbn [negb orb]. exact H3.
      * remember (lastpos d (filter nzf (number (s + 1) l))) as bp eqn:Hbp. clear Hbp.
        replace (Z.max 0 (bp + 1 - s)) with (1 + Z.max 0 (bp + 1 - (s + 1))) by lia.
        rewrite (dropz_add 1 (Z.max 0 (bp + 1 - (s + 1))) (x :: l)) by lia. exact H3.
    + change ((s, i_rows x) :: filter nzf (number (s + 1) l)) with ([(s, i_rows x)] ++ filter nzf (number (s + 1) l)).
      rewrite lastpos_app. change (lastpos d [(s, i_rows x)]) with s.
      destruct (IH (s + 1) s ltac:(lia)) as (H1 & H2 & H3). splits; try lia.
      remember (lastpos s (filter nzf (number (s + 1) l))) as bp eqn:Hbp. clear Hbp.
      replace (Z.max 0 (bp + 1 - s)) with (1 + Z.max 0 (bp + 1 - (s + 1))) by lia.
      rewrite (dropz_add 1 (Z.max 0 (bp + 1 - (s + 1))) (x :: l)) by lia. exact H3.
Qed.

(* ------------------------------------------------------------------------------------- *)
(* the window *)
Definition cur_out (its : list item) (f p : Z) (cur : option Z) : option Z :=
  match cur with Some cy => Some (rows_before its f + cy - p) | None => None end.

Definition window (its : list item) (p maxrow : Z) : list (Z * Z) :=
  takez maxrow (dropz p (all_rows its)) ++
  repeat blank (Z.to_nat (maxrow - zlen (takez maxrow (dropz p (all_rows its))))).

Lemma render_vis_ok : forall its f w maxrow cur v,
  heights_ok its -> nthz its f = Some w -> 1 <= maxrow ->
  VisFacts (above_of its f) (below_of its f) f (i_rows w) maxrow cur v ->
  exists p,
    0 <= p <= zlen (all_rows its) /\
    render_vis its v maxrow = Ok (window its p maxrow, cur_out its f p cur) /\
    (zlen (all_rows its) - p < maxrow -> p = 0) /\
    (1 <= i_rows w -> exists r, 0 <= r < i_rows w /\ p <= rows_before its f + r < p + maxrow) /\
    (forall cy, cur = Some cy -> p <= rows_before its f + cy < p + maxrow).
Proof.
  intros its f w maxrow cur v Hok Hw Hmr HV.
  destruct HV as (Efp & Efr & Ecu & t2 & t4 & restA & takenB & restB & Hab & Hbe & Eva & Evb & F).
  cbv zeta in F.
  destruct F as (Ftop & Fbot & FJ & Ftt & Ftb & Ffr & Fex & Ftt2 & Ffoc & Fcur).
  destruct (split_at its f w Hw) as (Esplit & Ltake & Hfr).
  assert (Hokp : heights_ok (takez f its) /\ heights_ok (w :: dropz (f + 1) its))
    by (apply heights_ok_app; now rewrite <- Esplit).
  destruct Hokp as [Hok1 Hok2].
  assert (Hh : 0 <= i_rows w) by (inversion Hok2; assumption).
  assert (Hok3 : heights_ok (dropz (f + 1) its)) by (inversion Hok2; assumption).
  assert (Hna : nonneg (above_of its f)) by (apply nonneg_rev, nonneg_number; assumption).
  assert (Hnb : nonneg (below_of its f)) by (apply nonneg_number; assumption).
  rewrite Hab in Hna. rewrite Hbe in Hnb.
  apply nonneg_app in Hna. destruct Hna as [HnA HnrA].
  apply nonneg_app in Hnb. destruct Hnb as [HnB HnrB].
  pose proof (all_rows_split its f w Hw) as Eall.
  rewrite Hab, Hbe in Eall. rewrite rev_app_distr, !rs_app in Eall.
  assert (EM : rs (rev (v_above v)) = rs (rev (t2 ++ t4))).
  { rewrite Eva, !rev_app_distr, !rs_app, rs_rev_filter. reflexivity. }
  assert (EB : rs (v_below v) = rs takenB) by (rewrite Evb; apply rs_filter).
  assert (Erb : rows_before its f = tot (t2 ++ t4) + tot restA).
  { rewrite rows_before_above, Hab, tot_app. reflexivity. }
  assert (LX : zlen (rs (rev restA)) = tot restA) by (rewrite zlen_rs, tot_rev; [reflexivity | now apply nonneg_rev]).
  assert (LA : zlen (rs (rev (t2 ++ t4))) = tot (t2 ++ t4)) by (rewrite zlen_rs, tot_rev; [reflexivity | now apply nonneg_rev]).
  assert (LB : zlen (rs takenB) = tot takenB) by (now apply zlen_rs).
  assert (LF : zlen (rows_of (f, i_rows w)) = i_rows w) by (now apply zlen_rows_of).
  assert (LY : zlen (rs restB) = tot restB) by (now apply zlen_rs).
  pose proof (tot_nonneg _ HnA) as HA0. pose proof (tot_nonneg _ HnrA) as HX0.
  pose proof (tot_nonneg _ HnB) as HB0. pose proof (tot_nonneg _ HnrB) as HY0.
  unfold render_vis. change (@flat_map fitem (Z * Z) rows_of) with rs. rewrite Efp, Efr, Ecu, EM, EB.
  set (X := rs (rev restA)) in *. set (MA := rs (rev (t2 ++ t4))) in *.
  set (MF := rows_of (f, i_rows w)) in *. set (MB := rs takenB) in *. set (Y := rs restB) in *.
  set (M := MA ++ MF ++ MB).
  assert (LM : zlen M = tot (t2 ++ t4) + i_rows w + tot takenB) by (unfold M; rewrite !zlen_app; lia).
  assert (EallM : all_rows its = X ++ M ++ Y).
  { rewrite Eall. unfold M. now rewrite <- !app_assoc. }
  clearbody M. clear Eall.
  remember (v_trim_top v) as trt eqn:Htrt. remember (v_trim_bottom v) as trb eqn:Htrb.
  remember (v_off_inset v) as oi eqn:Hoi.
  remember (tot (t2 ++ t4)) as A eqn:HA. remember (tot takenB) as B eqn:HB.
  remember (i_rows w) as h eqn:Hhh.
  assert (Hrows : 0 <= oi + h + B).
  { destruct (Z.ltb_spec 0 (maxrow - (oi + h + B - trb))) as [Hp|Hp]; [destruct (Fex Hp) as (_ & ? & _ & ?)|]; lia. }
  assert (E1 : (if trt =? 0 then M else dropz trt M) = dropz trt M).
  { destruct (trt =? 0) eqn:E; [|reflexivity]. replace trt with 0 by lia. reflexivity. }
  rewrite E1.
  assert (L1 : zlen (dropz trt M) = oi + h + B) by (rewrite zlen_dropz by lia; lia).
  rewrite L1.
  assert (E2 : (if trb =? 0 then dropz trt M else takez (oi + h + B - trb) (dropz trt M))
               = takez (oi + h + B - trb) (dropz trt M)).
  { destruct (trb =? 0) eqn:E; [|reflexivity]. replace (oi + h + B - trb) with (zlen (dropz trt M)) by lia.
    symmetry. apply takez_all. lia. }
  rewrite E2.
  set (c0 := match cur with Some cy => Some (zlen MA + cy) | None => None end).
  set (c1 := if trt =? 0 then c0 else
             match c0 with
             | Some y => if (0 <=? y - trt) && (y - trt <? zlen M - trt) then Some (y - trt) else None
             | None => None
             end).
  assert (E3 : (if trb =? 0 then c1 else
                match c1 with
                | Some y => if (0 <=? y) && (y <? oi + h + B - trb) then Some y else None
                | None => None
                end) = cur_out its f (zlen X + trt) cur).
  { unfold cur_out, c1, c0. rewrite Erb, LA, LX. destruct cur as [cy|].
    - specialize (Fcur cy eq_refl).
      destruct (trt =? 0) eqn:Et.
      + destruct (trb =? 0) eqn:Eb; [f_equal; lia|].
        destruct ((0 <=? A + cy) && (A + cy <? oi + h + B - trb)) eqn:Ec; [f_equal; lia | lia].
      + destruct ((0 <=? A + cy - trt) && (A + cy - trt <? zlen M - trt)) eqn:Ec1; [|lia].
        destruct (trb =? 0) eqn:Eb; [f_equal; lia|].
        destruct ((0 <=? A + cy - trt) && (A + cy - trt <? oi + h + B - trb)) eqn:Ec; [f_equal; lia | lia].
    - destruct (trt =? 0), (trb =? 0); reflexivity. }
  rewrite E3.
  exists (zlen X + trt).
  assert (Hall : zlen (all_rows its) = tot restA + (A + h + B) + tot restB).
  { rewrite EallM, !zlen_app. lia. }
  destruct (negb (trt =? 0) && ((trt <? 0) || (zlen M <=? trt))) eqn:C1; [lia|].
  destruct (negb (trb =? 0) && ((trb <=? 0) || (oi + h + B <? trb))) eqn:C2.
  { destruct (Z.ltb_spec 0 (maxrow - (oi + h + B - trb))) as [Hp|Hp]; [destruct (Fex Hp) as (_ & ? & _ & ?)|]; lia. }
  destruct (maxrow <? zlen M - trt - trb) eqn:C3; [lia|].
  destruct (zlen M - trt - trb <? maxrow) eqn:C4.
  - (* the list is exhausted at both ends *)
    destruct (Fex ltac:(lia)) as (ErA & Ett & ErB & Etb).
    assert (EX : X = []) by (unfold X; rewrite ErA; reflexivity).
    assert (EY : Y = []) by (unfold Y; rewrite ErB; reflexivity).
    assert (EtA : tot restA = 0) by (rewrite ErA; reflexivity).
    assert (EtB : tot restB = 0) by (rewrite ErB; reflexivity).
    destruct (negb (trb =? 0)) eqn:C5; [lia|].
    rewrite lastpos_rev.
    assert (Hex : existsb (fun w0 : item => negb (i_rows w0 =? 0)) (dropz (lastpos f (v_below v) + 1) its) = false).
    { destruct (bottom_tail (dropz (f + 1) its) (f + 1) f ltac:(lia)) as (G1 & G2 & G3).
      change (number (f + 1) (dropz (f + 1) its)) with (below_of its f) in *.
      rewrite Hbe, ErB, app_nil_r, <- Evb in *.
      remember (lastpos f (v_below v)) as bp eqn:Hbp. clear Hbp.
      replace (bp + 1) with ((f + 1) + Z.max 0 (bp + 1 - (f + 1))) by lia.
      rewrite dropz_add by lia. exact G3. }
    rewrite Hex.
    splits; try lia.
    + f_equal. f_equal. unfold window. rewrite LX. replace (tot restA + trt) with 0 by lia.
      rewrite EallM, EX, EY, app_nil_r. cbn [app]. rewrite Ett, !dropz_0.
      rewrite (takez_all maxrow M) by lia. rewrite (takez_all (oi + h + B - trb) M) by lia.
      f_equal. f_equal. lia.
    + intros Hh1. destruct (Ffoc Hh1) as (r & Hr1 & Hr2). exists r. lia.
    + intros cy Hc. specialize (Fcur cy Hc). lia.
  - (* a full window *)
    splits; try lia.
    + f_equal. f_equal. unfold window. rewrite EallM.
      rewrite dropz_add by lia. rewrite dropz_app_exact. rewrite dropz_app_le by lia.
      rewrite takez_app_le by lia.
      replace (oi + h + B - trb) with maxrow by lia.
      rewrite zlen_takez by lia. rewrite L1.
      replace (Z.to_nat (maxrow - Z.min maxrow (oi + h + B))) with 0%nat by lia.
      cbn [repeat]. now rewrite app_nil_r.
    + intros Hh1. destruct (Ffoc Hh1) as (r & Hr1 & Hr2). exists r. lia.
    + intros cy Hc. specialize (Fcur cy Hc). lia.
Qed.

(* ------------------------------------------------------------------------------------- *)
(* view_ok: every state with offset_rows >= 0 and 0 <= inum < iden renders a gap-free window *)
Record StateOK (its : list item) (o n d maxrow : Z) : Prop := {
  sok_heights : heights_ok its;
  sok_off : 0 <= o;
  sok_inset : 0 <= n < d;
  sok_maxrow : 1 <= maxrow }.

Definition cursor_ok (w : item) : Prop := forall cy, i_cy w = Some cy -> 0 <= cy < i_rows w.

Lemma nth_all_rows its f w r : heights_ok its -> nthz its f = Some w -> 0 <= r < i_rows w ->
  nthz (all_rows its) (rows_before its f + r) = Some (f, r).
Proof.
  intros Hok Hw Hr. rewrite (all_rows_split its f w Hw).
  destruct (split_at its f w Hw) as (Esplit & _ & _).
  assert (Hok1 : heights_ok (takez f its)) by (rewrite Esplit in Hok; now apply heights_ok_app in Hok).
  assert (L : zlen (rs (rev (above_of its f))) = rows_before its f).
  { unfold above_of. rewrite rev_involutive. unfold rows_before. apply zlen_rs. now apply nonneg_number. }
  rewrite <- L. rewrite nthz_app_r by lia. rewrite nthz_app_l by (rewrite zlen_rows_of; cbn [snd]; lia).
  now rewrite nthz_rows_of by (cbn [snd]; lia).
Qed.

Lemma number_pos : forall l s y, In y (number s l) -> s <= fst y.
Proof.
  induction l as [|a l IH]; intros s y H; cbn [number] in H; [contradiction|].
  destruct H as [<-|H]; [cbn [fst]; lia|]. specialize (IH (s + 1) y H). lia.
Qed.

Lemma all_rows_pos its x : In x (all_rows its) -> 0 <= fst x.
Proof.
  unfold all_rows, rs. intros H. apply in_flat_map in H. destruct H as (y & Hy & Hx).
  unfold rows_of in Hx. apply in_map_iff in Hx. destruct Hx as (k & <- & _). cbn [fst].
  now apply (number_pos its 0).
Qed.

Lemma zlen_repeat {A} (x : A) n : zlen (repeat x n) = Z.of_nat n.
Proof. unfold zlen. now rewrite repeat_length. Qed.

Lemma zlen_window its p maxrow : 0 <= p -> 0 <= maxrow -> zlen (window its p maxrow) = maxrow.
Proof.
  intros. unfold window. rewrite zlen_app, zlen_repeat. rewrite zlen_takez by lia. lia.
Qed.

Lemma view_ok_lemma : forall its f o n d maxrow fflag w,
  StateOK its o n d maxrow -> nthz its f = Some w -> cursor_ok w ->
  exists p,
    0 <= p <= zlen (all_rows its) /\
    render_view its f o n d maxrow fflag
      = Ok (window its p maxrow, cur_out its f p (cursor_of w maxrow fflag)) /\
    (zlen (all_rows its) - p < maxrow -> p = 0) /\
    (1 <= i_rows w -> exists r, 0 <= r < i_rows w /\ In (f, r) (takez maxrow (dropz p (all_rows its)))) /\
    (forall cy, cursor_of w maxrow fflag = Some cy ->
       0 <= rows_before its f + cy - p < maxrow /\
       nthz (window its p maxrow) (rows_before its f + cy - p) = Some (f, cy)).
Proof.
  intros its f o n d maxrow fflag w [Hok Ho Hnd Hmr] Hw Hc.
  destruct (split_at its f w Hw) as (Esplit & Ltake & Hfr).
  assert (Hokp : heights_ok (takez f its) /\ heights_ok (w :: dropz (f + 1) its))
    by (apply heights_ok_app; now rewrite <- Esplit).
  destruct Hokp as [Hok1 Hok2].
  assert (Hh : 0 <= i_rows w) by (inversion Hok2; assumption).
  assert (Hok3 : heights_ok (dropz (f + 1) its)) by (inversion Hok2; assumption).
  assert (Hcur : forall cy, cursor_of w maxrow fflag = Some cy -> 0 <= cy < i_rows w).
  { intros cy. unfold cursor_of. destruct (negb (maxrow =? 0) && i_sel w && fflag); [apply Hc | discriminate]. }
  destruct (calc_vis_ok (above_of its f) (below_of its f) f (i_rows w) o n d maxrow (cursor_of w maxrow fflag))
    as (v & Ev & HV); try assumption.
  { apply nonneg_rev, nonneg_number; assumption. }
  { apply nonneg_number; assumption. }
  destruct (render_vis_ok its f w maxrow _ v Hok Hw Hmr HV) as (p & Hp & Er & Hbl & Hfoc & Hcv).
  exists p. unfold render_view, visible. rewrite Hw, Ev.
  splits; try assumption; try lia.
  - intros Hh1. destruct (Hfoc Hh1) as (r & Hr1 & Hr2). exists r. split; [assumption|].
    apply (nthz_In _ (rows_before its f + r - p)).
    rewrite nthz_slice by lia. replace (p + (rows_before its f + r - p)) with (rows_before its f + r) by lia.
    now apply (nth_all_rows its f w).
  - intros cy Hcy. specialize (Hcv cy Hcy). specialize (Hcur cy Hcy). split; [lia|].
    pose proof (nth_all_rows its f w cy Hok Hw Hcur) as Hn. pose proof (nthz_lt _ _ _ Hn) as Hlt.
    unfold window. rewrite nthz_app_l by (rewrite zlen_takez by lia; rewrite zlen_dropz by lia; lia).
    rewrite nthz_slice by lia. replace (p + (rows_before its f + cy - p)) with (rows_before its f + cy) by lia.
    now apply (nth_all_rows its f w).
Qed.

(* ------------------------------------------------------------------------------------- *)
(* the two writers *)
Definition ViewOK (s : lb) : Prop := 0 <= off s /\ 0 <= inum s < iden s.

Lemma shift_focus_writes : forall s maxrow oi s',
  shift_focus s maxrow oi = Ok s' ->
  ViewOK s' /\ items s' = items s /\ focus s' = focus s /\ pend s' = pend s /\ off s' < Z.max 1 maxrow /\
  vpend s' = vpend s.
Proof.
  intros s maxrow oi s'. unfold shift_focus.
  destruct (0 <=? oi) eqn:E1.
  - destruct (maxrow <=? oi) eqn:E2; [discriminate|]. intros [= <-]. unfold ViewOK. cbn. splits; try reflexivity; lia.
  - destruct (oi + rows_at (items s) (focus s) <=? 0) eqn:E2; [discriminate|]. intros [= <-].
    unfold ViewOK. cbn. splits; try reflexivity; lia.
Qed.

Lemma change_focus_sr_writes : forall s maxrow position oi cf sr s',
  change_focus_sr s maxrow position oi cf sr = Ok s' ->
  ViewOK s' /\ items s' = items s /\ focus s' = position /\ pend s' = pend s /\
  (exists w, nthz (items s) position = Some w) /\ vpend s' = vpend s.
Proof.
  intros s maxrow position oi cf sr s'. unfold change_focus_sr.
  destruct (nthz (items s) position) as [w|] eqn:Ew; [|discriminate].
  remember (snap_sr sr maxrow (i_rows w) oi (i_sel w) cf) as oi' eqn:Hs. clear Hs.
  destruct (0 <=? oi') eqn:E1.
  - intros [= <-]. unfold ViewOK. cbn. splits; try reflexivity; try lia. now exists w.
  - destruct (oi' + i_rows w <=? 0) eqn:E2; [discriminate|]. intros [= <-].
    unfold ViewOK. cbn. splits; try reflexivity; try lia. now exists w.
Qed.

Lemma change_focus_writes : forall s maxrow position oi cf s',
  change_focus s maxrow position oi cf = Ok s' ->
  ViewOK s' /\ items s' = items s /\ focus s' = position /\ pend s' = pend s /\
  exists w, nthz (items s) position = Some w.
Proof.
  intros s maxrow position oi cf s' H. unfold change_focus in H.
  destruct (change_focus_sr_writes _ _ _ _ _ _ _ H) as (A & B & C & D & E & _). splits; assumption.
Qed.
