(* C06, stronger form: the garbage collector may free ANY live canvas at any time (no assumption that a canvas
   keeps the canvases it displays alive).  Possible since CanvasCache.cleanup invalidates the dependants of a widget
   whose last canvas went away.  The invariant no longer says that the children of a cached canvas are cached;
   it follows the recorded render traces through a ghost list G of all canvases ever created. *)
From Coq Require Import ZArith List Bool Lia.
Import ListNotations.
From Urwid Require Import PyBase Cache CacheFacts CacheProofs.
Open Scope Z_scope.
Arguments Z.add : simpl never.
Arguments Z.sub : simpl never.
Arguments Z.eqb : simpl never.
Arguments Z.ltb : simpl never.

(* every widget that has a dependants list has cached canvases *)
Definition DH (c : cache) : Prop := forall x, alookup (deps c) x <> None -> alookup (widgets c) x <> None.

Lemma invalidate_fold_dh m :
  (forall c w c', invalidate m c w = Some c' -> DH c -> DH c') ->
  forall ds c c', invalidate_all m ds c = Some c' -> DH c -> DH c'.
Proof.
  intros IH. unfold invalidate_all. induction ds as [|d ds IHd]; intros c c' H D; cbn [fold_left] in H.
  - inversion H. subst. exact D.
  - destruct (invalidate m c d) as [c1|] eqn:E.
    + eapply IHd; eauto.
    + exfalso. clear -H. induction ds; cbn in H; [discriminate|auto].
Qed.

Lemma drop_dh c w : DH c -> alookup (deps c) w = None -> DH (drop_entries c w).
Proof.
  intros D N x Hx. unfold drop_entries in *. cbn [deps widgets] in *. rewrite alookup_aremove.
  destruct (w =? x) eqn:E; [apply Z.eqb_eq in E; subst; contradiction|apply D; exact Hx].
Qed.

Lemma invalidate_dh n : forall c w c', invalidate n c w = Some c' -> DH c -> DH c'.
Proof.
  induction n as [|m IH]; intros c w c' H D; cbn [invalidate] in H.
  - destruct (alookup (deps (drop_entries c w)) w) eqn:E; [discriminate|]. inversion H. subst.
    apply drop_dh; [exact D|exact E].
  - destruct (alookup (deps (drop_entries c w)) w) as [ds|] eqn:E.
    + refine (invalidate_fold_dh m IH ds _ c' H _).
      intros x Hx. cbn [deps widgets] in *. unfold drop_entries in *. cbn [deps widgets] in *.
      rewrite alookup_aremove in Hx. rewrite alookup_aremove.
      destruct (w =? x) eqn:Ex; [contradiction|apply D; exact Hx].
    + inversion H. subst. apply drop_dh; [exact D|exact E].
Qed.

Lemma invalidate_all_dh n ds c c' : invalidate_all n ds c = Some c' -> DH c -> DH c'.
Proof. apply invalidate_fold_dh. apply invalidate_dh. Qed.

(* ---------- what a mutation or a collection does to the cache, as a relation ---------- *)
Record Shrunk (a b : cache) : Prop := {
  s_sub : forall x y r, lookup2 b x y = Some r -> lookup2 a x y = Some r;
  s_deps : forall x, alookup (deps b) x = alookup (deps a) x \/ alookup (deps b) x = None;
  s_changed : forall x, alookup (deps b) x <> alookup (deps a) x -> alookup (widgets b) x = None;
  s_closed : forall x p, alookup (widgets a) x <> None -> alookup (widgets b) x = None ->
                         In p (deps_of a x) -> alookup (widgets b) p = None }.

Lemma Post_Shrunk a b : Post a b -> Shrunk a b.
Proof.
  intros [P1 P2 P5 PC]. split; auto.
  intros x y r L. destruct (P1 x) as [E|E].
  - rewrite <- (lookup2_same_widgets a b x y E). exact L.
  - apply lookup2_has in L. contradiction.
Qed.

Lemma Shrunk_refl a : Shrunk a a.
Proof. apply Post_Shrunk. apply Post_refl. Qed.

(* ---------- cleanup: the last canvas of a widget, or not ---------- *)
Lemma cleanup_entry_cases c r w k :
  RefsOK c -> alookup (refs c) r = Some (w, k) ->
  let c1 := cleanup_entry c r in
  (cleanup_popped c r = [] /\ alookup (widgets c1) w <> None /\ deps c1 = deps c) \/
  (cleanup_popped c r = deps_of c w /\ alookup (widgets c1) w = None /\
   forall x, alookup (deps c1) x = if w =? x then None else alookup (deps c) x).
Proof.
  intros [A B N] R. cbn zeta. pose proof (A _ _ _ R) as L.
  unfold cleanup_entry, cleanup_popped. rewrite R. unfold lookup2, sizes_of in L.
  destruct (alookup (widgets c) w) as [sizes|] eqn:W; [|cbn in L; discriminate].
  destruct sizes as [|e0 sizes0] eqn:S; [cbn in L; discriminate|]. rewrite <- S in *.
  destruct (aremove sizes k) as [|e1 rest] eqn:AR.
  - right. split; [reflexivity|]. split.
    + cbn [widgets]. rewrite alookup_aremove, Z.eqb_refl. reflexivity.
    + intros x. cbn [deps]. apply alookup_aremove.
  - left. split; [reflexivity|]. split.
    + cbn [widgets]. rewrite alookup_aset, Z.eqb_refl. discriminate.
    + reflexivity.
Qed.

Lemma cleanup_entry_refsok c r : RefsOK c -> RefsOK (cleanup_entry c r).
Proof.
  intros RO. destruct (alookup (refs c) r) as [[w k]|] eqn:Er; [|rewrite (cleanup_absent _ _ Er); exact RO].
  destruct (cleanup_spec c r w k RO Er) as [S1 [S2 [S3 S4]]]. cbn zeta in *.
  destruct RO as [RA RB RN]. pose proof (RA _ _ _ Er) as Lc. split.
  - intros r0 x y Hr. rewrite S2 in Hr. destruct (r =? r0) eqn:E; [discriminate|].
    pose proof (RA _ _ _ Hr) as L. rewrite S1. destruct ((x =? w) && (y =? k)) eqn:E2; [|exact L].
    apply andb_true_iff in E2. destruct E2 as [E1 E2]. apply Z.eqb_eq in E1, E2. subst.
    rewrite Lc in L. inversion L. subst. rewrite Z.eqb_refl in E. discriminate.
  - intros x y r0 L. rewrite S1 in L. destruct ((x =? w) && (y =? k)) eqn:E; [discriminate|].
    rewrite S2. destruct (r =? r0) eqn:E2; [|apply RB; exact L].
    apply Z.eqb_eq in E2. subst r0. pose proof (RB _ _ _ L) as Er2. rewrite Er in Er2. inversion Er2. subst.
    rewrite !Z.eqb_refl in E. discriminate.
  - exact S4.
Qed.

Lemma cleanup_entry_no_self c r x y r' :
  RefsOK c -> lookup2 (cleanup_entry c r) x y = Some r' -> lookup2 c x y = Some r' /\ r' <> r.
Proof.
  intros RO L. destruct (alookup (refs c) r) as [[w k]|] eqn:Er.
  - destruct (cleanup_spec c r w k RO Er) as [S1 _]. cbn zeta in S1. rewrite S1 in L.
    destruct ((x =? w) && (y =? k)) eqn:E; [discriminate|]. split; [exact L|].
    intros ->. pose proof (refs_bwd _ RO _ _ _ L) as E2. rewrite Er in E2. inversion E2. subst.
    rewrite !Z.eqb_refl in E. discriminate.
  - rewrite (cleanup_absent _ _ Er) in L. split; [exact L|]. intros ->.
    pose proof (refs_bwd _ RO _ _ _ L). congruence.
Qed.

Lemma cleanup_total c r : exists c2,
  invalidate_all (S (length (deps (cleanup_entry c r)))) (cleanup_popped c r) (cleanup_entry c r) = Some c2 /\
  cleanup c r = c2.
Proof.
  destruct (invalidate_all_total (S (length (deps (cleanup_entry c r)))) (cleanup_popped c r) (cleanup_entry c r)
              ltac:(lia)) as [c2 [E _]].
  exists c2. split; [exact E|]. unfold cleanup. rewrite E. reflexivity.
Qed.

Lemma cleanup_shrunk c r :
  RefsOK c -> DH c ->
  Shrunk c (cleanup c r) /\ RefsOK (cleanup c r) /\ DH (cleanup c r) /\
  (forall x y r', lookup2 (cleanup c r) x y = Some r' -> r' <> r).
Proof.
  intros RO D. destruct (cleanup_total c r) as [c2 [E ->]].
  destruct (invalidate_all_spec _ _ _ _ E) as [P [Nds R2]].
  pose proof (cleanup_entry_refsok c r RO) as RO1.
  pose proof (Post_Shrunk _ _ P) as SP.
  assert (NoSelf : forall x y r', lookup2 c2 x y = Some r' -> lookup2 c x y = Some r' /\ r' <> r).
  { intros x y r' L. apply (cleanup_entry_no_self c r x y r' RO). apply (s_sub _ _ SP). exact L. }
  destruct (alookup (refs c) r) as [[w k]|] eqn:Er.
  - assert (Wother : forall x, x <> w -> alookup (widgets (cleanup_entry c r)) x = alookup (widgets c) x).
    { intros x Hx. eapply cleanup_widgets_none; eauto. }
    destruct (cleanup_entry_cases c r w k RO Er) as [[Ep [Ww Ed]]|[Ep [Ww Ed]]]; cbn zeta in *.
    + (* not the last canvas *)
      rewrite Ep in E. cbn in E. inversion E. subst c2. clear E.
      assert (D1 : DH (cleanup_entry c r)).
      { intros x Hx. rewrite Ed in Hx. destruct (Z.eq_dec x w) as [->|Ne]; [exact Ww|]. rewrite Wother by exact Ne. auto. }
      split; [|split; [exact RO1|split; [exact D1|intros x y r' L; apply (NoSelf x y r' L)]]].
      split.
      * intros x y r' L. apply (NoSelf x y r' L).
      * intros x. left. rewrite Ed. reflexivity.
      * intros x Hx. rewrite Ed in Hx. contradiction.
      * intros x p Ha Hb _. exfalso. destruct (Z.eq_dec x w) as [->|Ne]; [contradiction|].
        rewrite Wother in Hb by exact Ne. contradiction.
    + (* the last canvas: the dependants are invalidated *)
      assert (D1 : DH (cleanup_entry c r)).
      { intros x Hx. rewrite Ed in Hx. destruct (w =? x) eqn:Ex; [contradiction|].
        rewrite Wother; [apply D; exact Hx|]. intros ->. rewrite Z.eqb_refl in Ex. discriminate. }
      split; [|split; [apply R2; exact RO1|split; [eapply invalidate_all_dh; eauto|intros x y r' L; apply (NoSelf x y r' L)]]].
      destruct P as [P1 P2 P5 PC].
      assert (Wn : alookup (widgets c2) w = None) by (destruct (P1 w) as [E1|E1]; congruence).
      split.
      * intros x y r' L. apply (NoSelf x y r' L).
      * intros x. destruct (P2 x) as [E1|E1]; [|auto]. rewrite E1, Ed. destruct (w =? x); auto.
      * intros x Hx. destruct (w =? x) eqn:Ex.
        -- apply Z.eqb_eq in Ex. subst. exact Wn.
        -- apply P5. rewrite Ed, Ex. exact Hx.
      * intros x p Ha Hb I. destruct (w =? x) eqn:Ex.
        -- apply Z.eqb_eq in Ex. subst x. apply Nds. rewrite Ep. exact I.
        -- assert (x <> w) by (intros ->; rewrite Z.eqb_refl in Ex; discriminate).
           apply (PC x p); [rewrite Wother by assumption; exact Ha|exact Hb|].
           unfold deps_of in *. rewrite Ed, Ex. exact I.
  - (* the weakref is unknown: nothing happens *)
    assert (cleanup_popped c r = []) as Ep by (unfold cleanup_popped; rewrite Er; reflexivity).
    rewrite Ep, (cleanup_absent _ _ Er) in E. cbn in E. inversion E. subst c2.
    split; [apply Shrunk_refl|]. split; [exact RO|]. split; [exact D|].
    intros x y r' L ->. pose proof (refs_bwd _ RO _ _ _ L). congruence.
Qed.

(* ---------- store keeps DH ---------- *)
Lemma fold_add_dep_dom wd dl : forall d x,
  alookup (fold_left (add_dep wd) dl d) x <> None -> alookup d x <> None \/ In x dl.
Proof.
  induction dl as [|z dl IH]; intros d x H; cbn [fold_left] in H; [left; exact H|].
  destruct (IH _ _ H) as [H1|H1]; [|right; right; exact H1].
  unfold add_dep in H1. rewrite alookup_aset in H1. destruct (z =? x) eqn:E.
  - apply Z.eqb_eq in E. subst. right. left. reflexivity.
  - left. exact H1.
Qed.

Section StoreDH.
  Variable C : Type.
  Variable cacheable : widget -> bool.
  Lemma store_dh (c : cache) (cv : canvas C) dl :
    cacheable (c_w cv) = true -> (forall x, In x dl -> amem (widgets c) x = true) ->
    DH c -> DH (store C cacheable c cv dl).
  Proof.
    intros HC HD D x Hx.
    destruct (store_spec C cacheable c cv dl HC HD) as [_ [_ [_ [_ [S5 _]]]]]. cbn zeta in S5.
    assert (Hw : alookup (widgets c) x <> None -> alookup (widgets (store C cacheable c cv dl)) x <> None).
    { intros H. destruct (Z.eq_dec x (c_w cv)) as [->|Ne].
      - unfold store. rewrite HC. cbn [negb].
        destruct (existsb (fun w => negb (amem (widgets c) w)) dl); [exact H|].
        cbn [widgets]. rewrite alookup_aset, Z.eqb_refl. discriminate.
      - rewrite S5 by exact Ne. exact H. }
    unfold store in Hx. rewrite HC in Hx. cbn [negb] in Hx.
    destruct (existsb (fun w => negb (amem (widgets c) w)) dl) eqn:E.
    - apply Hw. apply D. exact Hx.
    - cbn [deps] in Hx. apply Hw. destruct (fold_add_dep_dom _ _ _ _ Hx) as [H1|H1]; [apply D; exact H1|].
      specialize (HD x H1). unfold amem in HD. destruct (alookup (widgets c) x); [discriminate|discriminate].
  Qed.
End StoreDH.

Section GC.
  Variable C : Type.
  Variable body : widget -> Z -> key -> prog C.
  Variable rbody : widget -> Z -> key -> rprog.
  Variable rows_of : C -> Z.
  Variable cacheable : widget -> bool.
  Variable rcache : widget -> bool.
  Variable rank : widget -> nat.

  Notation state := (state C).
  Notation canvas := (canvas C).
  Notation fresh := (fresh C body).
  Notation crender := (crender C body cacheable).
  Notation run_prog := (run_prog C).
  Notation fetch := (fetch C).
  Notation step := (step C body rbody rows_of cacheable rcache).
  Notation cached := (cached C).

  Notation run := (run C body rbody rows_of cacheable rcache).

  (* ---------- the invariant ---------- *)
  Definition good (vr : list (Z * Z)) (cv : canvas) : Prop :=
    forall m y, fresh vr m (c_w cv) (c_k cv) = Some y -> c_content cv = y.

  (* cv (alive or not) has the content of a cache-less render now, it was rendered from the canvases recorded in
     the ghost list G, each of which is linked in the same way, and every widget on the way lists its displayer
     as a dependant *)
  Inductive Lk (c : cache) (vr : list (Z * Z)) (G : list canvas) : canvas -> Prop :=
  | lk_intro cv : good vr cv ->
      Tr c vr G (c_w cv) (c_children cv) (body (c_w cv) (version vr (c_w cv)) (c_k cv)) -> Lk c vr G cv
  with Tr (c : cache) (vr : list (Z * Z)) (G : list canvas) : widget -> list cid -> prog C -> Prop :=
  | tr_ret w x : Tr c vr G w [] (Ret x)
  | tr_ask w i r x k cont cx :
      In cx G -> c_id cx = i -> c_w cx = x -> c_k cx = k -> In w (deps_of c x) ->
      Lk c vr G cx -> Tr c vr G w r (cont (c_content cx)) -> Tr c vr G w (i :: r) (Ask x k cont).

  Scheme Lk_min := Minimality for Lk Sort Prop
    with Tr_min := Minimality for Tr Sort Prop.
  Combined Scheme LkTr_min from Lk_min, Tr_min.

  Lemma Lk_good c vr G cv : Lk c vr G cv -> good vr cv.
  Proof. intros H. inversion H. assumption. Qed.

  Record Inv2 (st : state) (G : list canvas) : Prop := {
    i_sub : forall cv, In cv (heap st) -> In cv G;
    i_gids : forall cv, In cv G -> c_id cv < next st;
    i_gnodup : NoDup (map c_id G);
    i_hnodup : NoDup (map c_id (heap st));
    i_live : forall w k c, lookup2 (cc st) w k = Some c ->
               exists cv, In cv (heap st) /\ c_id cv = c /\ c_w cv = w /\ c_k cv = k;
    i_refs : RefsOK (cc st);
    i_dh : DH (cc st);
    i_link : forall cv, cached st cv -> Lk (cc st) (ver st) G cv }.

  (* ---------- monotonicity ---------- *)
  Lemma LkTr_ext c c' vr G G' :
    (forall x y, In y (deps_of c x) -> In y (deps_of c' x)) -> (forall cv, In cv G -> In cv G') ->
    (forall cv, Lk c vr G cv -> Lk c' vr G' cv) /\
    (forall w ids p, Tr c vr G w ids p -> Tr c' vr G' w ids p).
  Proof.
    intros HD HG. apply LkTr_min.
    - intros cv Hg _ IH. constructor; assumption.
    - intros w x. constructor.
    - intros w i r x k cont cx Hin E1 E2 E3 D _ IHl _ IHt. econstructor; eauto.
  Qed.

  (* ---------- entries disappear (mutation or collection); versions change only where nothing is cached ---------- *)
  Section Shrink.
    Variable st : state.
    Variable G : list canvas.
    Variable c' : cache.
    Variable heap' : list canvas.
    Variable vr' : list (Z * Z).
    Hypothesis I : Inv2 st G.
    Hypothesis S : Shrunk (cc st) c'.
    Hypothesis R : RefsOK c'.
    Hypothesis D' : DH c'.
    Hypothesis Hsub : forall cv, In cv heap' -> In cv (heap st).
    Hypothesis Hnd : NoDup (map c_id heap').
    Hypothesis Hlive : forall w k c, lookup2 c' w k = Some c ->
                         exists cv, In cv heap' /\ c_id cv = c /\ c_w cv = w /\ c_k cv = k.
    Hypothesis V : forall x, alookup (widgets c') x <> None -> version vr' x = version (ver st) x.
    Let st' := State c' heap' (next st) vr'.

    Lemma shrink_retained w x : alookup (widgets c') w <> None -> In w (deps_of (cc st) x) ->
      alookup (widgets c') x <> None /\ deps_of c' x = deps_of (cc st) x.
    Proof.
      intros W Din.
      assert (Dx : alookup (deps (cc st)) x <> None).
      { unfold deps_of in Din. destruct (alookup (deps (cc st)) x); [discriminate|destruct Din]. }
      pose proof (i_dh st G I x Dx) as Wx.
      assert (Wx' : alookup (widgets c') x <> None).
      { intros N. apply W. exact (s_closed _ _ S x w Wx N Din). }
      split; [exact Wx'|].
      destruct (olz_eq_dec (alookup (deps c') x) (alookup (deps (cc st)) x)) as [E|E].
      - apply deps_of_same. exact E.
      - exfalso. apply Wx'. exact (s_changed _ _ S x E).
    Qed.

    Lemma shrink_LkTr :
      (forall cv, Lk (cc st) (ver st) G cv -> alookup (widgets c') (c_w cv) <> None ->
         Lk c' vr' G cv /\ forall m, fresh vr' m (c_w cv) (c_k cv) = fresh (ver st) m (c_w cv) (c_k cv)) /\
      (forall w ids p, Tr (cc st) (ver st) G w ids p -> alookup (widgets c') w <> None ->
         Tr c' vr' G w ids p /\ forall m, run_fresh C (fresh vr' m) p = run_fresh C (fresh (ver st) m) p).
    Proof.
      apply LkTr_min.
      - intros cv Hg _ IH W. destruct (IH W) as [T Eq].
        assert (Fe : forall m, fresh vr' m (c_w cv) (c_k cv) = fresh (ver st) m (c_w cv) (c_k cv)).
        { intros [|m]; [reflexivity|]. cbn [Cache.fresh]. rewrite (V _ W). apply Eq. }
        split; [|exact Fe]. constructor.
        + intros m y F. rewrite Fe in F. exact (Hg m y F).
        + rewrite (V _ W). exact T.
      - intros w x W. split; [constructor|reflexivity].
      - intros w i r x k cont cx Hin E1 E2 E3 Din Lx IHl _ IHt W.
        destruct (shrink_retained w x W Din) as [Wx Ed].
        assert (Wcx : alookup (widgets c') (c_w cx) <> None) by (rewrite E2; exact Wx).
        destruct (IHl Wcx) as [Lx' Fx]. destruct (IHt W) as [Tt Ft].
        split.
        + econstructor; eauto. rewrite Ed. exact Din.
        + intros m. cbn [run_fresh]. rewrite <- E2, <- E3, Fx.
          destruct (fresh (ver st) m (c_w cx) (c_k cx)) as [y|] eqn:Fy; [|reflexivity].
          rewrite <- (Lk_good _ _ _ _ Lx m y Fy). apply Ft.
    Qed.

    Lemma shrink_inv2 : Inv2 st' G.
    Proof.
      split; unfold st'; cbn [heap cc next ver].
      - intros cv Hin. apply (i_sub st G I). apply Hsub. exact Hin.
      - apply (i_gids st G I).
      - apply (i_gnodup st G I).
      - exact Hnd.
      - exact Hlive.
      - exact R.
      - exact D'.
      - intros cv [Hin L]. cbn [heap cc] in Hin, L.
        assert (Cc : cached st cv) by (split; [apply Hsub; exact Hin|apply (s_sub _ _ S); exact L]).
        apply (proj1 shrink_LkTr cv (i_link st G I cv Cc)). eapply lookup2_has; eauto.
    Qed.
  End Shrink.

  (* ---------- fetch ---------- *)
  Lemma fetch_some2 st G w k cv : Inv2 st G -> fetch st w k = Some cv -> cached st cv /\ c_w cv = w /\ c_k cv = k.
  Proof.
    intros I H. unfold Cache.fetch in H.
    destruct (alookup (widgets (cc st)) w) as [sizes|] eqn:W; [|discriminate].
    destruct (alookup sizes k) as [r|] eqn:K; [|discriminate].
    apply find_canvas_some in H. destruct H as [Hin Hid].
    assert (L : lookup2 (cc st) w k = Some r) by (unfold lookup2, sizes_of; rewrite W; exact K).
    destruct (i_live st G I _ _ _ L) as [cv' [I' [E1 [E2 E3]]]].
    assert (cv = cv') by (eapply heap_unique; eauto using i_hnodup; congruence). subst cv'.
    unfold CacheProofs.cached. subst. auto.
  Qed.

  Lemma fetch_none2 st G w k : Inv2 st G -> fetch st w k = None -> lookup2 (cc st) w k = None.
  Proof.
    intros I H. destruct (lookup2 (cc st) w k) as [r|] eqn:L; [|reflexivity]. exfalso.
    destruct (i_live st G I _ _ _ L) as [cv [I' [E1 [E2 E3]]]].
    unfold Cache.fetch in H. unfold lookup2, sizes_of in L.
    destruct (alookup (widgets (cc st)) w) as [sizes|]; [|cbn in L; discriminate].
    rewrite L in H. destruct (find_canvas_in C _ _ I') as [cv' F]. rewrite E1 in F. congruence.
  Qed.

  (* ================= rendering through the cache ================= *)
  Hypothesis body_ranked : forall w v k, prog_ranked (rank w) rank (body w v k).
  Hypothesis all_cacheable : forall w, cacheable w = true.
  Notation Ext := (Ext C).
  Notation ktrace := (ktrace C).

  Definition render_ok2 (n : nat) : Prop :=
    forall st G w k cv st', Inv2 st G -> crender n st w k = Some (cv, st') ->
      exists G', Inv2 st' G' /\ (forall x, In x G -> In x G') /\
        Ext st st' /\ cached st' cv /\ c_w cv = w /\ c_k cv = k /\ ver st' = ver st /\
        (forall x, (rank w < rank x)%nat -> alookup (widgets (cc st')) x = alookup (widgets (cc st)) x).

  Lemma cached_ext2 a b cv : Ext a b -> cached a cv -> cached b cv.
  Proof. intros E [I L]. split; [apply (ext_heap _ _ _ E)|apply (ext_entries _ _ _ E)]; assumption. Qed.

  Lemma run_prog_ok2 n : render_ok2 n -> forall r p st G c kids st',
    Inv2 st G -> prog_ranked r rank p -> run_prog (crender n) p st = Some (c, kids, st') ->
    exists G', Inv2 st' G' /\ (forall x, In x G -> In x G') /\
      Ext st st' /\ ver st' = ver st /\ Forall (cached st') kids /\ ktrace kids p c /\
      (forall x, (r <= rank x)%nat -> alookup (widgets (cc st')) x = alookup (widgets (cc st)) x).
  Proof.
    intros RO r p. induction p as [c0|x k cont IH]; intros st G c kids st' I PR H; cbn [Cache.run_prog] in H.
    - inversion H. subst. exists G. split; [exact I|]. split; [auto|]. split; [apply Ext_refl|]. repeat split; auto.
    - destruct (crender n st x k) as [[cx st1]|] eqn:E1; [|discriminate].
      destruct (run_prog (crender n) (cont (c_content cx)) st1) as [[[c1 kids1] st2]|] eqn:E2; [|discriminate].
      inversion H. subst c1 kids st2. clear H.
      destruct PR as [PR1 PR2].
      destruct (RO _ _ _ _ _ _ I E1) as [G1 [I1 [S1 [X1 [C1 [W1 [K1 [V1 R1]]]]]]]].
      destruct (IH _ _ _ _ _ _ I1 (PR2 _) E2) as [G2 [I2 [S2 [X2 [V2 [F2 [T2 R2]]]]]]].
      exists G2. split; [exact I2|]. split; [auto|]. split; [eapply Ext_trans; eauto|]. split; [congruence|].
      split; [constructor; [eapply cached_ext2; eauto|exact F2]|].
      split; [cbn [CacheProofs.ktrace]; auto|].
      intros y Hy. rewrite R2 by exact Hy. apply R1. lia.
  Qed.

  Lemma ktrace_fresh2 vr kids p c m x :
    Forall (good vr) kids -> ktrace kids p c -> run_fresh C (fresh vr m) p = Some x -> x = c.
  Proof.
    revert p. induction kids as [|cx r IH]; intros p F T H; destruct p as [c0|y k cont]; cbn [CacheProofs.ktrace] in T; try contradiction.
    - cbn in H. congruence.
    - cbn [run_fresh] in H. destruct T as [E1 [E2 T]]. inversion F as [|? ? Cx Fr]. subst.
      destruct (fresh vr m (c_w cx) (c_k cx)) as [y|] eqn:Fy; [|discriminate].
      rewrite <- (Cx _ _ Fy) in H. eapply IH; eauto.
  Qed.

  Lemma ktrace_Tr c vr G w kids p x :
    Forall (fun cx => In cx G /\ Lk c vr G cx /\ In w (deps_of c (c_w cx))) kids -> ktrace kids p x ->
    Tr c vr G w (map c_id kids) p.
  Proof.
    revert p. induction kids as [|cx r IH]; intros p F T; destruct p as [c0|y k cont]; cbn [CacheProofs.ktrace] in T; try contradiction; cbn [map].
    - constructor.
    - destruct T as [E1 [E2 T]]. inversion F as [|? ? [A1 [A2 A3]] Fr]. subst.
      econstructor; eauto.
  Qed.

  Lemma cached_amem2 st cv : cached st cv -> amem (widgets (cc st)) (c_w cv) = true.
  Proof.
    intros [_ L]. apply lookup2_has in L. unfold amem. destruct (alookup (widgets (cc st)) (c_w cv)); [reflexivity|contradiction].
  Qed.

  Lemma crender_ok2 : forall n, render_ok2 n.
  Proof.
    induction n as [|m IHm]; intros st G w k cv st' I H; [discriminate|].
    cbn [Cache.crender] in H.
    destruct (fetch st w k) as [cv0|] eqn:F.
    - inversion H. subst cv0 st'. destruct (fetch_some2 _ _ _ _ _ I F) as [Cc [Ew Ek]].
      exists G. split; [exact I|]. split; [auto|]. split; [apply Ext_refl|]. repeat split; auto; apply Cc.
    - destruct (run_prog (crender m) (body w (version (ver st) w) k) st) as [[[c kids] st1]|] eqn:R; [|discriminate].
      inversion H. subst cv st'. clear H.
      destruct (run_prog_ok2 m IHm _ _ _ _ _ _ _ I (body_ranked w _ k) R) as [G1 [I1 [SG [X1 [V1 [F1 [T1 R1]]]]]]].
      set (cv := Canvas (next st1) w k c (map c_id kids)) in *.
      assert (Lnone : lookup2 (cc st1) w k = None).
      { rewrite (lookup2_same_widgets (cc st) (cc st1)); [eapply fetch_none2; eauto|]. apply R1. lia. }
      assert (HD : forall x, In x (map c_w kids) -> amem (widgets (cc st1)) x = true).
      { intros x Hx. apply in_map_iff in Hx. destruct Hx as [cx [<- Hx]].
        apply cached_amem2. rewrite Forall_forall in F1. auto. }
      destruct (store_spec C cacheable (cc st1) cv (map c_w kids) (all_cacheable _) HD) as [S1 [S2 [S3 [S4 [S5 S6]]]]].
      pose proof (store_dh C cacheable (cc st1) cv (map c_w kids) (all_cacheable _) HD (i_dh _ _ I1)) as DH2.
      cbn zeta in *. change (c_w cv) with w in *. change (c_k cv) with k in *. change (c_id cv) with (next st1) in *.
      set (c2 := store C cacheable (cc st1) cv (map c_w kids)) in *.
      set (st2 := State c2 (cv :: heap st1) (next st1 + 1) (ver st1)).
      assert (Hlt : forall cv', In cv' G1 -> c_id cv' < next st1) by (apply i_gids; exact I1).
      assert (Hlth : forall cv', In cv' (heap st1) -> c_id cv' < next st1) by (intros a Ha; apply Hlt; apply (i_sub _ _ I1); exact Ha).
      assert (Lold : forall x y r, lookup2 (cc st1) x y = Some r -> lookup2 c2 x y = Some r).
      { intros x y r L. rewrite S1. destruct ((x =? w) && (y =? k)) eqn:E; [|exact L].
        apply andb_true_iff in E. destruct E as [E1 E2]. apply Z.eqb_eq in E1, E2. subst. congruence. }
      assert (X2 : Ext st1 st2).
      { split; unfold st2; cbn [heap cc next].
        - intros a Ha. right. exact Ha.
        - exact Lold.
        - exact S3.
        - lia. }
      assert (Cold : forall cv', cached st2 cv' -> cv' = cv \/ cached st1 cv').
      { intros cv' [Hin Hl]. unfold st2 in Hin, Hl. cbn [heap cc] in Hin, Hl. destruct Hin as [<-|Hin]; [left; reflexivity|right].
        split; [exact Hin|]. rewrite S1 in Hl.
        destruct ((c_w cv' =? w) && (c_k cv' =? k)); [|exact Hl].
        inversion Hl as [Hid]. specialize (Hlth _ Hin). lia. }
      assert (Cnew : cached st2 cv).
      { split; unfold st2; cbn [heap cc]; [left; reflexivity|]. change (c_w cv) with w. change (c_k cv) with k. change (c_id cv) with (next st1).
        rewrite S1, !Z.eqb_refl. reflexivity. }
      destruct (LkTr_ext (cc st1) c2 (ver st1) G1 (cv :: G1) S3 (fun a Ha => or_intror Ha)) as [LkE _].
      assert (I2 : Inv2 st2 (cv :: G1)).
      { split; unfold st2; cbn [heap cc next ver].
        - intros a [<-|Ha]; [left; reflexivity|right; apply (i_sub _ _ I1); exact Ha].
        - intros a [<-|Ha]; [cbn; lia|]. specialize (Hlt _ Ha). lia.
        - cbn [map c_id]. constructor; [|apply (i_gnodup _ _ I1)].
          intros Hi. apply in_map_iff in Hi. destruct Hi as [a [Ea Ha]]. specialize (Hlt _ Ha). cbn in Ea. lia.
        - cbn [map c_id]. constructor; [|apply (i_hnodup _ _ I1)].
          intros Hi. apply in_map_iff in Hi. destruct Hi as [a [Ea Ha]]. specialize (Hlth _ Ha). cbn in Ea. lia.
        - intros x y r L. rewrite S1 in L. destruct ((x =? w) && (y =? k)) eqn:E.
          + apply andb_true_iff in E. destruct E as [E1 E2]. apply Z.eqb_eq in E1, E2. subst.
            inversion L. exists cv. repeat split; auto. left. reflexivity.
          + destruct (i_live st1 G1 I1 _ _ _ L) as [cv' [A1 [A2 [A3 A4]]]]. exists cv'. repeat split; auto. right. exact A1.
        - destruct (i_refs st1 G1 I1) as [RA RB RN]. split.
          + intros r x y Hr. rewrite S2 in Hr. destruct (next st1 =? r) eqn:E.
            * apply Z.eqb_eq in E. subst r. inversion Hr. subst. rewrite S1, !Z.eqb_refl. reflexivity.
            * apply Lold. apply RA. exact Hr.
          + intros x y r L. rewrite S1 in L. rewrite S2. destruct ((x =? w) && (y =? k)) eqn:E.
            * apply andb_true_iff in E. destruct E as [E1 E2]. apply Z.eqb_eq in E1, E2. subst.
              inversion L. rewrite Z.eqb_refl. reflexivity.
            * destruct (next st1 =? r) eqn:E3.
              -- apply Z.eqb_eq in E3. subst r. destruct (i_live st1 G1 I1 _ _ _ L) as [cv' [A1 [A2 _]]].
                 specialize (Hlth _ A1). lia.
              -- apply RB. exact L.
          + apply S6. exact RN.
        - exact DH2.
        - intros cv' Cc. destruct (Cold _ Cc) as [->|Co].
          + assert (Gk : Forall (good (ver st1)) kids).
            { rewrite Forall_forall in *. intros cx Hx. eapply Lk_good. apply (i_link _ _ I1). auto. }
            constructor.
            * intros [|n0] x Hf; [discriminate|]. cbn [Cache.fresh] in Hf.
              change (c_w cv) with w in Hf. change (c_k cv) with k in Hf. change (c_content cv) with c.
              rewrite <- V1 in T1. symmetry. exact (ktrace_fresh2 _ kids _ c n0 x Gk T1 Hf).
            * change (c_w cv) with w. change (c_k cv) with k. change (c_children cv) with (map c_id kids).
              rewrite <- V1 in T1. apply (ktrace_Tr c2 (ver st1) (cv :: G1) w kids _ c); [|exact T1].
              rewrite Forall_forall in *. intros cx Hx. pose proof (F1 cx Hx) as Ccx. split; [|split].
              -- right. apply (i_sub _ _ I1). apply Ccx.
              -- apply LkE. apply (i_link _ _ I1). exact Ccx.
              -- apply S4. apply in_map. exact Hx.
          + apply LkE. apply (i_link _ _ I1). exact Co. }
      exists (cv :: G1). split; [exact I2|]. split; [intros a Ha; right; apply SG; exact Ha|].
      split; [eapply Ext_trans; eauto|]. split; [exact Cnew|].
      repeat split; auto.
      intros x Hx. unfold st2. cbn [cc]. rewrite S5; [apply R1; lia|]. intros ->. lia.
  Qed.


  (* ================= every operation keeps the invariant ================= *)
  Lemma in_remove2 (h : list canvas) r cv : In cv (remove_canvas C h r) <-> In cv h /\ c_id cv <> r.
  Proof.
    induction h as [|a h IH]; cbn [remove_canvas In]; [tauto|].
    destruct (c_id a =? r) eqn:E.
    - apply Z.eqb_eq in E. rewrite IH. split; [tauto|]. intros [[->|I] N]; [contradiction|tauto].
    - apply Z.eqb_neq in E. cbn [In]. rewrite IH. split; [intros [->|[I N]]; tauto|tauto].
  Qed.

  Lemma nodup_remove2 (h : list canvas) r : NoDup (map c_id h) -> NoDup (map c_id (remove_canvas C h r)).
  Proof.
    induction h as [|a h IH]; cbn [remove_canvas map]; [auto|].
    intros N. inversion N as [|? ? NI ND]. subst. destruct (c_id a =? r); [auto|].
    cbn [map]. constructor; [|auto].
    intros I. apply in_map_iff in I. destruct I as [b [E I]]. apply in_remove2 in I.
    apply NI. rewrite <- E. apply in_map. tauto.
  Qed.

  Lemma mutate_inv2 st G w v c' :
    Inv2 st G -> invalidate (S (length (deps (cc st)))) (cc st) w = Some c' ->
    Inv2 (State c' (heap st) (next st) (aset (ver st) w v)) G.
  Proof.
    intros I E. destruct (invalidate_spec _ _ _ _ E) as [P [Wn R]].
    apply (shrink_inv2 st G c' (heap st) (aset (ver st) w v) I (Post_Shrunk _ _ P) (R (i_refs _ _ I))
             (invalidate_dh _ _ _ _ E (i_dh _ _ I))); auto.
    - apply (i_hnodup _ _ I).
    - intros x y r L. apply (i_live _ _ I). apply (s_sub _ _ (Post_Shrunk _ _ P)). exact L.
    - intros x Wx. rewrite version_aset. destruct (w =? x) eqn:Ex; [|reflexivity].
      apply Z.eqb_eq in Ex. subst. contradiction.
  Qed.

  Lemma collect_inv2 st G c0 :
    Inv2 st G -> Inv2 (State (cleanup (cc st) c0) (remove_canvas C (heap st) c0) (next st) (ver st)) G.
  Proof.
    intros I. destruct (cleanup_shrunk (cc st) c0 (i_refs _ _ I) (i_dh _ _ I)) as [S [R [D NoSelf]]].
    apply (shrink_inv2 st G _ _ (ver st) I S R D).
    - intros cv Hin. apply in_remove2 in Hin. tauto.
    - apply nodup_remove2. apply (i_hnodup _ _ I).
    - intros x y r L. pose proof (NoSelf _ _ _ L) as Nr.
      destruct (i_live _ _ I _ _ _ (s_sub _ _ S _ _ _ L)) as [cv [A1 [A2 [A3 A4]]]].
      exists cv. repeat split; auto. apply in_remove2. split; [exact A1|congruence].
    - reflexivity.
  Qed.

  Lemma Inv2_cleared st G : Inv2 st G -> Inv2 (State empty_cache (heap st) (next st) (ver st)) G.
  Proof.
    intros I. split; cbn [cc heap next ver].
    - apply (i_sub _ _ I).
    - apply (i_gids _ _ I).
    - apply (i_gnodup _ _ I).
    - apply (i_hnodup _ _ I).
    - intros w k c L. discriminate.
    - split; try discriminate. intros w. constructor.
    - intros x H. cbn in H. contradiction.
    - intros cv [_ L]. discriminate.
  Qed.

  Lemma Inv2_init : Inv2 init [].
  Proof.
    split; cbn.
    - intros cv [].
    - intros cv [].
    - constructor.
    - constructor.
    - intros w k c L. discriminate.
    - split; try discriminate. intros w. constructor.
    - intros x H. contradiction.
    - intros cv [[] _].
  Qed.

  Lemma step_inv2 n st G o : Inv2 st G ->
    exists G', Inv2 (fst (step n st o)) G' /\ (forall x, In x G -> In x G').
  Proof.
    intros I. destruct o as [w k|w k|w v|c|]; cbn [Cache.step].
    - destruct (crender n st w k) as [[cv st']|] eqn:E; cbn [fst]; [|exists G; auto].
      destruct (crender_ok2 n _ _ _ _ _ _ I E) as [G' [I' [SG _]]]. exists G'. auto.
    - exists G. auto.
    - destruct (invalidate_total (S (length (deps (cc st)))) (cc st) w ltac:(lia)) as [c' [E _]].
      rewrite E. cbn [fst]. exists G. split; [apply mutate_inv2; assumption|auto].
    - destruct (alive C st c); cbn [fst]; exists G; split; auto. apply collect_inv2. exact I.
    - cbn [fst]. exists G. split; [apply Inv2_cleared; exact I|auto].
  Qed.

  Lemma run_inv2 n ops : forall st G, Inv2 st G ->
    exists G', Inv2 (run n st ops) G' /\ (forall x, In x G -> In x G').
  Proof.
    induction ops as [|o ops IH]; intros st G I; cbn [Cache.run fold_left]; [exists G; auto|].
    destruct (step_inv2 n st G o I) as [G1 [I1 S1]].
    destruct (IH _ _ I1) as [G2 [I2 S2]]. exists G2. split; [exact I2|auto].
  Qed.

  (* ================= enough fuel ================= *)
  Lemma run_prog_total2 m r p : forall st G,
    (forall st G w k, Inv2 st G -> (rank w < r)%nat -> exists cv st', crender m st w k = Some (cv, st')) ->
    Inv2 st G -> prog_ranked r rank p -> exists c kids st', run_prog (crender m) p st = Some (c, kids, st').
  Proof.
    induction p as [c|x k cont IH]; intros st G T I PR; cbn [Cache.run_prog]; [eauto|].
    destruct PR as [P1 P2]. destruct (T st G x k I P1) as [cx [st1 E]]. rewrite E.
    destruct (crender_ok2 m _ _ _ _ _ _ I E) as [G1 [I1 _]].
    destruct (IH (c_content cx) st1 G1 T I1 (P2 _)) as [c [kids [st2 E2]]]. rewrite E2. eauto.
  Qed.

  Lemma crender_total2 : forall n st G w k, Inv2 st G -> (rank w < n)%nat -> exists cv st', crender n st w k = Some (cv, st').
  Proof.
    induction n as [|m IH]; intros st G w k I L; [lia|]. cbn [Cache.crender].
    destruct (fetch st w k) as [cv|]; [eauto|].
    destruct (run_prog_total2 m (rank w) (body w (version (ver st) w) k) st G) as [c [kids [st1 E]]]; auto.
    - intros st0 G0 x kx I0 Lx. apply (IH st0 G0); [exact I0|lia].
    - rewrite E. eauto.
  Qed.

  (* ================= the property statements, collector unconstrained ================= *)
  Lemma cached_render_is_fresh2 n m st G w k cv st' x :
    Inv2 st G -> crender n st w k = Some (cv, st') -> fresh (ver st) m w k = Some x -> c_content cv = x.
  Proof.
    intros I E F. destruct (crender_ok2 n _ _ _ _ _ _ I E) as [G' [I' [_ [_ [Cc [Ew [Ek [V _]]]]]]]].
    apply (Lk_good _ _ _ _ (i_link st' G' I' cv Cc) m). rewrite Ew, Ek, V. exact F.
  Qed.

  Lemma gc_fresh_invariant n ops :
    let st := run n init ops in
    forall cv, cached st cv -> forall m x, fresh (ver st) m (c_w cv) (c_k cv) = Some x -> c_content cv = x.
  Proof.
    cbn zeta. destruct (run_inv2 n ops init [] Inv2_init) as [G [I _]].
    intros cv Cc. exact (Lk_good _ _ _ _ (i_link _ _ I cv Cc)).
  Qed.

  (* DepsComplete without liveness: the recorded render trace of a cached canvas is linked all the way down *)
  Lemma gc_deps_complete n ops :
    let st := run n init ops in
    exists G, (forall cv, In cv (heap st) -> In cv G) /\ forall cv, cached st cv -> Lk (cc st) (ver st) G cv.
  Proof.
    cbn zeta. destruct (run_inv2 n ops init [] Inv2_init) as [G [I _]].
    exists G. split; [apply (i_sub _ _ I)|apply (i_link _ _ I)].
  Qed.

  Lemma gc_render_equals_fresh n ops m m' w k cv st1 x :
    let st := run n init ops in
    crender m st w k = Some (cv, st1) -> fresh (ver st) m' w k = Some x -> c_content cv = x.
  Proof.
    cbn zeta. destruct (run_inv2 n ops init [] Inv2_init) as [G [I _]]. apply (cached_render_is_fresh2 _ _ _ G). exact I.
  Qed.

  Lemma gc_cache_invisible n m1 m2 ops w k cv st1 cv' st2 :
    let st := run n init ops in
    crender m1 st w k = Some (cv, st1) ->
    crender m2 (State empty_cache (heap st) (next st) (ver st)) w k = Some (cv', st2) ->
    c_content cv = c_content cv'.
  Proof.
    cbn zeta. intros E1 E2.
    destruct (run_inv2 n ops init [] Inv2_init) as [G [I _]].
    destruct (fresh_total_lemma C body rank body_ranked (ver (run n init ops)) (S (rank w)) w k ltac:(lia)) as [x F].
    rewrite (cached_render_is_fresh2 _ _ _ _ _ _ _ _ _ I E1 F).
    symmetry. apply (cached_render_is_fresh2 _ (S (rank w)) _ _ _ _ _ _ _ (Inv2_cleared _ _ I) E2). exact F.
  Qed.

  Lemma gc_render_total n ops m w k :
    (rank w < m)%nat -> exists cv st', crender m (run n init ops) w k = Some (cv, st').
  Proof.
    intros L. destruct (run_inv2 n ops init [] Inv2_init) as [G [I _]]. apply (crender_total2 m _ G); assumption.
  Qed.

  Lemma gc_change_visible n ops d v :
    let st := run n init (ops ++ [Mutate d v]) in
    version (ver st) d = v /\
    forall m m' w k cv st1 x, crender m st w k = Some (cv, st1) -> fresh (ver st) m' w k = Some x -> c_content cv = x.
  Proof.
    cbn zeta. split.
    - unfold Cache.run. rewrite fold_left_app. cbn [fold_left Cache.step].
      destruct (invalidate _ _ _); cbn [fst ver]; rewrite version_aset, Z.eqb_refl; reflexivity.
    - intros m m' w k cv st1 x. apply gc_render_equals_fresh.
  Qed.

  (* rows *)
  Notation crows := (crows C rbody rows_of rcache).
  Notation frows := (frows rbody).
  Hypothesis rows_consistent :
    forall vr n m w k x r, fresh vr n w k = Some x -> frows vr m w k = Some r -> rows_of x = r.

  Lemma rows_lemma2 st G : Inv2 st G -> forall n m w k r r',
    crows n st w k = Some r -> frows (ver st) m w k = Some r' -> r = r'.
  Proof.
    intros I. induction n as [|n IH]; intros m w k r r' H1 H2; [discriminate|].
    cbn [Cache.crows] in H1.
    destruct (if rcache w then fetch st w k else None) as [cv|] eqn:F.
    - destruct (rcache w); [|discriminate].
      destruct (fetch_some2 _ _ _ _ _ I F) as [Cc [Ew Ek]].
      destruct (fresh_total_lemma C body rank body_ranked (ver st) (S (rank w)) w k ltac:(lia)) as [x Fx].
      inversion H1. subst r. rewrite (Lk_good _ _ _ _ (i_link _ _ I cv Cc) (S (rank w)) x); [|rewrite Ew, Ek; exact Fx].
      eapply rows_consistent; eauto.
    - destruct m as [|m]; [discriminate|]. cbn [Cache.frows] in H2.
      revert H1 H2. generalize (rbody w (version (ver st) w) k). intros p. revert r r'.
      induction p as [z|x kx cont IHp]; intros r r' H1 H2; cbn [run_rows] in *.
      + congruence.
      + destruct (crows n st x kx) as [r1|] eqn:E1; [|discriminate].
        destruct (frows (ver st) m x kx) as [r2|] eqn:E2; [|discriminate].
        rewrite (IH _ _ _ _ _ E1 E2) in H1. eapply IHp; eauto.
  Qed.

  Lemma gc_rows_ok n ops m m' w k r r' :
    let st := run n init ops in
    crows m st w k = Some r -> frows (ver st) m' w k = Some r' -> r = r'.
  Proof.
    cbn zeta. destruct (run_inv2 n ops init [] Inv2_init) as [G [I _]]. apply (rows_lemma2 _ G). exact I.
  Qed.

  (* canvases are never written to *)
  Lemma gc_never_mutated n ops1 ops2 cv cv' :
    let st := run n init ops1 in
    In cv (heap st) -> In cv' (heap (run n st ops2)) -> c_id cv' = c_id cv -> cv' = cv.
  Proof.
    cbn zeta. intros H1 H2 E.
    destruct (run_inv2 n ops1 init [] Inv2_init) as [G [I _]].
    destruct (run_inv2 n ops2 _ G I) as [G' [I' SG]].
    apply (heap_unique C G'); [apply (i_gnodup _ _ I')|apply (i_sub _ _ I'); exact H2|apply SG; apply (i_sub _ _ I); exact H1|exact E].
  Qed.

End GC.
