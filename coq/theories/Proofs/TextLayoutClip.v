(* Rendering of over-long lines (clip mode, and ellipsis mode when no ellipsis fits) with ANY alignment:
   util.calc_trim_text with start_col >= 0, LayoutSegment.subseg on a text segment, trim_line on a line
   with a negative alignment shift.  Closes render_total for all wrap modes and alignments. *)
From Coq Require Import ZArith List Bool Lia ZifyBool.
Import ListNotations.
From Urwid Require Import PyBase TextLayout TextLayoutFacts TextLayoutProofs TextLayoutTop.
Open Scope Z_scope.

Arguments Z.add : simpl never.
Arguments Z.sub : simpl never.
Arguments Z.mul : simpl never.
Arguments Z.div : simpl never.
Arguments Z.ltb : simpl never.
Arguments Z.leb : simpl never.
Arguments Z.eqb : simpl never.
Arguments Z.min : simpl never.
Arguments Z.max : simpl never.
Arguments Z.of_nat : simpl never.
Arguments Z.to_nat : simpl never.

Ltac Zify.zify_post_hook ::= Z.div_mod_to_equations.

Section Clip.
Variable cw : Z -> Z.
Hypothesis cw_range : forall c, 0 <= cw c <= 2.
Hypothesis cw_space : cw SP = 1.
Variable t : list Z.

Notation len := (zlen t).
Notation W a b := (sumw cw (slice t a b)).

(* the position scan stops exactly on the column when no double-width character straddles it, and one
   column short otherwise *)
Lemma ctp_exact a b pref : 0 <= a <= b -> b <= len -> 0 <= pref -> pref <= W a b ->
  exists p c, calc_text_pos cw t a b pref = LOk (p, c) /\ a <= p <= b /\ c = W a p /\
              (c = pref \/ (c = pref - 1 /\ exists ch, nthz t p = Some ch /\ cw ch = 2 /\ p < b)).
Proof.
  intros H1 H2 H3 H4.
  destruct (calc_text_pos_spec cw t a b pref H1 H2 H3) as (p & c & E & Hp & Hc & Hle & Hend).
  exists p, c. repeat split; try assumption; try lia.
  destruct (Z.eq_dec c pref); [left; assumption | right].
  destruct Hend as [-> | (ch & N & L)]; [lia|]. pose proof (cw_range ch). pose proof (nthz_lt _ _ _ N).
  split; [lia|]. exists ch. repeat split; try assumption; try lia.
  destruct (Z.eq_dec p b); [|lia]. subst. lia.
Qed.

(* util.calc_trim_text, for a column range inside the line *)
Lemma calc_trim_text_spec a b sc0 ec : 0 <= a <= b -> b <= len -> 0 <= sc0 -> sc0 < ec -> ec <= W a b ->
  exists spos pos pl pr, calc_trim_text cw t a b sc0 ec = LOk (spos, pos, pl, pr) /\
     a <= spos <= pos /\ pos <= b /\ (pl = 0 \/ pl = 1) /\ (pr = 0 \/ pr = 1) /\
     W a spos = sc0 + pl /\ W spos pos = ec - sc0 - pl - pr /\ 0 <= ec - sc0 - pl - pr /\
     (pl = 1 -> a < spos).
Proof.
  intros H1 H2 H3 H4 H5. unfold calc_trim_text.
  assert (Hfirst : exists spos pl,
     (if 0 <? sc0
      then
       ' (spos1, sc1) <- calc_text_pos cw t a b sc0;;
       (if sc1 <? sc0
        then ' (spos2, _) <- calc_text_pos cw t a b (sc0 + 1);; LOk (spos2, 1)
        else LOk (spos1, 0))
      else LOk (a, 0)) = LOk (spos, pl) /\ a <= spos <= b /\ (pl = 0 \/ pl = 1) /\ W a spos = sc0 + pl /\ (pl = 1 -> a < spos)).
  { destruct (0 <? sc0) eqn:E0.
    - destruct (ctp_exact a b sc0 H1 H2 H3 ltac:(lia)) as (p1 & c1 & -> & Hp1 & Hc1 & Hx). cbn [lbind].
      destruct Hx as [Hx | (Hx & ch & N & Hch & Hpb)].
      + replace (c1 <? sc0) with false by lia. exists p1, 0. repeat split; try lia.
      + replace (c1 <? sc0) with true by lia.
        destruct (calc_text_pos_spec cw t a b (sc0 + 1) H1 H2 ltac:(lia)) as (p2 & c2 & E2 & Hp2 & Hc2 & Hle2 & _).
        rewrite E2. cbn [lbind]. exists p2, 1.
        assert (Hge : p1 + 1 <= p2).
        { apply (ctp_result_ge cw cw_range t a b (sc0 + 1) p2 c2 (p1 + 1)); try lia; try assumption.
          rewrite (sumw_slice_snoc cw t a p1 ch) by (lia || assumption). lia. }
        pose proof (sumw_slice_mono cw cw_range t a (p1 + 1) p2 ltac:(lia) ltac:(lia)) as Hm.
        rewrite (sumw_slice_snoc cw t a p1 ch) in Hm by (lia || assumption).
        repeat split; try lia.
    - exists a, 0. rewrite slice_nil by lia. cbn [sumw]. repeat split; try lia. }
  destruct Hfirst as (spos & pl & -> & Hsp & Hpl & HWs & Hpos). cbn [lbind].
  assert (HWrest : W spos b = W a b - sc0 - pl).
  { pose proof (sumw_slice_split cw t a spos b ltac:(lia) ltac:(lia)). lia. }
  destruct (ctp_exact spos b (ec - sc0 - pl) ltac:(lia) H2 ltac:(lia) ltac:(lia)) as (p & c & -> & Hp & Hc & Hx).
  cbn [lbind]. exists spos, p, pl, (if c <? ec - sc0 - pl then 1 else 0).
  split; [reflexivity|].
  destruct Hx as [Hx | (Hx & _)].
  - replace (c <? ec - sc0 - pl) with false by lia. repeat split; try lia; try assumption.
  - replace (c <? ec - sc0 - pl) with true by lia. pose proof (sumw_nonneg cw cw_range (slice t spos p)).
    repeat split; try lia; try assumption.
Qed.

(* LayoutSegment.subseg on a coherent text segment, and what apply_text_layout makes of the result *)
Lemma subseg_text_render sc a nl start end_ : 0 <= a < nl -> nl <= len -> sc = W a nl ->
  0 <= start -> start < Z.min end_ sc ->
  exists l row, subseg cw t (SText sc a nl) start end_ = LOk l /\ render_segs t l = LOk row /\
                sumw cw row = Z.min end_ sc - start.
Proof.
  intros Ha Hnl Hsc Hs Hlt. unfold subseg. cbn [seg_sc].
  replace (Z.max start 0) with start by lia.
  set (e' := Z.min end_ sc) in *.
  replace (e' <=? start) with false by lia. replace (nl =? 0) with false by lia.
  destruct (calc_trim_text_spec a nl start e' ltac:(lia) Hnl Hs Hlt ltac:(lia))
    as (spos & pos & pl & pr & -> & Hsp & Hpos & Hpl & Hpr & HW1 & HW2 & Hnn & Hplpos).
  cbn [lbind].
  assert (Hs1 : sumw cw (spaces 1) = 1) by (rewrite sumw_spaces, cw_space; lia).
  assert (Hmid : exists r, render_segs t (if e' - start - pl - pr =? 0 then [] else [SText (e' - start - pl - pr) spos pos]) = LOk r
                           /\ sumw cw r = e' - start - pl - pr).
  { destruct (e' - start - pl - pr =? 0) eqn:E; cbn [render_segs].
    - exists []. split; [reflexivity | cbn; lia].
    - unfold render_seg. cbn [seg_valid]. replace (negb (0 <? e' - start - pl - pr)) with false by lia.
      assert (spos < pos).
      { destruct (Z_lt_le_dec spos pos); [assumption|]. rewrite slice_nil in HW2 by lia. cbn in HW2. lia. }
      replace (pos =? 0) with false by lia. cbn [lbind]. eexists; split; [reflexivity|]. rewrite app_nil_r. lia. }
  destruct Hmid as (rm & Em & Sm).
  assert (Hpad : forall p o, (p = 0 \/ p = 1) ->
            exists r, render_segs t (if p =? 0 then [] else [SPad 1 o]) = LOk r /\ sumw cw r = p).
  { intros p o [-> | ->].
    - exists []. split; reflexivity.
    - replace (1 =? 0) with false by reflexivity. cbn [render_segs]. unfold render_seg. cbn [seg_valid].
      replace (negb (0 <=? 1)) with false by reflexivity. cbn [lbind]. eexists; split; [reflexivity|].
      rewrite app_nil_r. exact Hs1. }
  destruct (Hpad pl (spos - 1) Hpl) as (rl & El & Sl). destruct (Hpad pr pos Hpr) as (rr & Er & Sr).
  assert (Happ : forall l1 l2 r1 r2, render_segs t l1 = LOk r1 -> render_segs t l2 = LOk r2 ->
            render_segs t (l1 ++ l2) = LOk (r1 ++ r2)).
  { induction l1 as [|s l1 IH]; intros l2 r1 r2 E1 E2; cbn [render_segs app] in *.
    - inversion E1; subst. exact E2.
    - destruct (render_seg t s) as [x| |]; cbn [lbind] in *; try discriminate.
      destruct (render_segs t l1) as [y| |] eqn:Ey; cbn [lbind] in *; try discriminate.
      inversion E1; subst. rewrite (IH l2 y r2 eq_refl E2). cbn [lbind]. now rewrite app_assoc. }
  eexists. exists (rl ++ rm ++ rr). split; [reflexivity|]. split.
  - apply Happ; [exact El|]. apply Happ; [exact Em | exact Er].
  - rewrite !sumw_app. lia.
Qed.

Variable width : Z.
Hypothesis width_pos : 1 <= width.

(* an over-long plain line with a negative alignment shift: trim_line cuts it on both sides and the row
   that apply_text_layout builds is exactly [width] columns wide *)
Lemma render_line_clip_shifted a nl s : 0 <= a < nl -> nl <= len -> width < W a nl ->
  s < 0 -> width <= s + W a nl ->
  exists row, render_line cw t width [SShift s; SText (W a nl) a nl; SPad 0 nl] = LOk row /\ sumw cw row = width.
Proof.
  intros Ha Hnl Hw Hs Hcov. set (sc := W a nl) in *.
  unfold render_line, trim_line. cbn [trim_line_loop seg_sc].
  replace (negb (0 =? 0) || (s <? 0)) with true by lia.
  replace (s <=? 0) with true by lia.
  replace (negb (0 - s =? 0) || (sc <? 0)) with true by lia.
  replace (sc <=? 0 - s) with false by lia.
  cbn [seg_valid]. replace (negb (0 <? sc)) with false by lia.
  replace (width <=? 0 + s + sc) with true by lia.
  destruct (subseg_text_render sc a nl (0 - s) (width - (0 + s)) Ha Hnl eq_refl ltac:(lia) ltac:(lia))
    as (l & row & -> & Er & Sr).
  cbn [lbind]. rewrite Er. cbn [lbind].
  assert (sumw cw row = width) by lia.
  replace (width <? sumw cw row) with false by lia.
  eexists; split; [reflexivity|]. rewrite sumw_app, sumw_spaces, cw_space. lia.
Qed.

End Clip.

(* ---------- rendering never raises: all wrap modes, all alignments ---------- *)
Theorem trim_render_total_all cw t width align wrap ell :
  (forall c, 0 <= cw c <= 2) -> cw SP = 1 -> 1 <= width -> is_trim wrap ->
  exists rows, text_render cw t width align wrap ell = LOk rows /\
               Forall (fun r => sumw cw r = width) rows /\
               text_rows cw t width align wrap ell = LOk (zlen rows).
Proof.
  intros R S Hw Hm. unfold text_render, text_rows.
  destruct (layout_trim_cases cw R t width Hw align ell wrap Hm) as (segs & HL & E'). rewrite E'. cbn [to_lres lbind].
  assert (Hlines : forall ln, In ln (align_layout width align (rev segs)) ->
            exists row, render_line cw t width ln = LOk row /\ sumw cw row = width).
  { intros ln I. destruct (trim_line_origin cw t width align ell wrap segs ln HL I) as (l0 & a & b & HO & -> & NS & NE).
    pose proof (TLineOK_seg_ok cw R t width Hw ell wrap _ _ _ HO) as F.
    destruct (Z_le_gt_dec (total l0) width) as [Le|Gt].
    - destruct (render_line_fits cw R S t width Hw _ (align_line_fits cw R t width align l0 NS F Le)) as (row & _ & _ & -> & Sw).
      eexists; split; [reflexivity | exact Sw].
    - rewrite <- (line_width_no_shift l0 NS) in Gt.
      destruct (TLineOK_fits cw R t width Hw wrap ell _ _ _ HO) as (F1 & _).
      rewrite (align_line_spec cw R width align l0 NS).
      inversion HO; subst.
      + destruct (sumw cw (slice t a nl) =? 0) eqn:E0; cbn [app line_width fold_left seg_sc] in Gt; [lia|]. cbn [app].
        assert (a < nl).
        { destruct (Z_lt_le_dec a nl); [assumption|]. rewrite slice_nil in E0 by lia. cbn in E0. lia. }
        cbn [line_width fold_left seg_sc]. replace (0 + sumw cw (slice t a nl) + 0) with (sumw cw (slice t a nl)) by lia.
        destruct (pad_expected width align (sumw cw (slice t a nl)) =? 0) eqn:Ep.
        * destruct (render_line_clip_left cw R S t width Hw a nl ltac:(lia) ltac:(lia) ltac:(lia))
            as (p & pr & -> & _ & _ & _ & _ & Sw).
          eexists; split; [reflexivity | exact Sw].
        * assert (Hpad : pad_expected width align (sumw cw (slice t a nl)) < 0 /\ width <= pad_expected width align (sumw cw (slice t a nl)) + (sumw cw (slice t a nl))).
          { unfold pad_expected in *. replace (sumw cw (slice t a nl) =? width) with false in * by lia. destruct align; lia. }
          destruct (render_line_clip_shifted cw R S t width Hw a nl (pad_expected width align (sumw cw (slice t a nl)))
                      ltac:(lia) ltac:(lia) ltac:(lia) (proj1 Hpad) (proj2 Hpad)) as (row & -> & Sw).
          eexists; split; [reflexivity | exact Sw].
      + exfalso. match goal with H : sumw cw (slice t a e) = _ |- _ => rename H into HWe end.
        destruct (sumw cw (slice t a e) =? 0) eqn:E0; cbn [app line_width fold_left seg_sc] in Gt; lia. }
  assert (Hall : forall Ls, (forall ln, In ln Ls -> exists row, render_line cw t width ln = LOk row /\ sumw cw row = width) ->
            exists rows, render_lines cw t width Ls = LOk rows /\ zlen rows = zlen Ls /\ Forall (fun r => sumw cw r = width) rows).
  { induction Ls as [|l Ls IH]; intros Hl; cbn [render_lines].
    - exists []. repeat split; constructor.
    - destruct (Hl l (or_introl eq_refl)) as (row & -> & Sw).
      destruct (IH (fun ln I => Hl ln (or_intror I))) as (rows & -> & Hn & Hws). cbn [lbind].
      eexists; split; [reflexivity|]. rewrite !zlen_cons, Hn. split; [reflexivity | constructor; assumption]. }
  destruct (Hall _ Hlines) as (rows & -> & Hn & Hws).
  exists rows. rewrite Hn. repeat split; assumption.
Qed.

Theorem render_total cw t width align wrap ell :
  (forall c, 0 <= cw c <= 2) -> cw SP = 1 -> 1 <= width ->
  exists rows, text_render cw t width align wrap ell = LOk rows /\
               Forall (fun r => sumw cw r = width) rows /\
               text_rows cw t width align wrap ell = LOk (zlen rows).
Proof.
  intros R S Hw. destruct (wrap_cases wrap) as [Hm|Hm].
  - exact (wrap_render_total cw R S t width Hw align ell wrap Hm).
  - exact (trim_render_total_all cw t width align wrap ell R S Hw Hm).
Qed.
