(* C01 - the box/flow induction extended by the two constructors that render a child with size ():
   Padding(width='clip') and Overlay(width='pack').  Their fixed child must lie in the fragments of
   WidgetDimsTree / WidgetDimsFixedTree (it may not itself contain a clip Padding or a pack Overlay).
   This induction also covers widgets without rows (Pile([]) and what wraps it): [min_rows w] is the number of
   rows the contract guarantees, 0 or 1.  Columns always has a row (ba7db6e); an Overlay whose height is
   packed from a top widget without rows shows its bottom widget alone (f9cf74e) and has the rows of its
   margins only. *)
From Coq Require Import ZArith List Bool Lia ZifyBool.
Import ListNotations.
From Urwid Require Import WidgetDims WidgetDimsProofs WidgetDimsFrame WidgetDimsOverlay WidgetDimsColsArith
  WidgetDimsCols WidgetDimsTree WidgetDimsFixed WidgetDimsFixedPile WidgetDimsFixedCols WidgetDimsFixedTree
  WidgetDimsClip WidgetDimsOverlayPack.
Open Scope Z_scope.

Definition fixed_child_ok (w : widget) : bool :=
  proved_fragment w && fixed_fragment w && s_fixed (m_sizing (denote w)).

(* rows guaranteed by the contract: 0 for an empty Pile and for decorations and Piles of such widgets *)
Fixpoint min_rows (w : widget) : Z :=
  match w with
  | WLeaf _ => 1
  | WAttr w => min_rows w
  | WBoxAdapter _ _ => 1
  | WPadding w _ wt _ _ _ => match wt with WClip => 1 | _ => min_rows w end
  | WFiller w _ _ _ _ _ => min_rows w
  | WPile items _ => match items with PNil => 0 | _ => min_rows_p items end
  | WColumns _ _ _ _ => 1
  | WFrame _ _ _ _ => 1
  | WOverlay t _ p => match ov_wt p with WPack => 1 | _ => overlay_min_rows (min_rows t) p end
  end
with min_rows_p (l : pitems) : Z :=
  match l with PNil => 1 | PCons w _ _ r => Z.min (min_rows w) (min_rows_p r) end.

Fixpoint proved_fragment2 (w : widget) : bool :=
  match w with
  | WLeaf _ => true
  | WAttr w => proved_fragment2 w
  | WBoxAdapter w _ => proved_fragment2 w
  | WPadding w _ wt _ _ _ => match wt with WClip => fixed_child_ok w | _ => proved_fragment2 w end
  | WFiller w _ _ _ _ _ => proved_fragment2 w
  | WPile items _ => proved_fragment2_p items                    (* the empty Pile included *)
  | WColumns items d mw fp =>
      proved_fragment2_c items (cols_sizing (denote_c items)) && (fp <? zlength (denote_c items))
  | WFrame body hd ft _ => proved_fragment2 body && proved_fragment2_o hd && proved_fragment2_o ft
  | WOverlay t b p =>
      proved_fragment2 b
      && (match ov_wt p with
          | WPack => fixed_child_ok t
          | WGiven _ | WRelative _ =>
              proved_fragment2 t
              && (match ov_ht p with
                  | HRelative pct => (pct <=? 100) && (match ov_minh p with Some m => 0 <=? m | None => true end)
                  | _ => true
                  end)
          | WClip => false
          end)
  end
with proved_fragment2_p (l : pitems) : bool :=
  match l with PNil => true | PCons w _ _ r => proved_fragment2 w && proved_fragment2_p r end
with proved_fragment2_c (l : citems) (cs : sizing) : bool :=
  match l with
  | CNil => true
  | CCons w k n b r =>
      let ws := m_sizing (denote w) in
      proved_fragment2 w
      && (match k with KPack => s_flow ws && (negb (s_fixed ws) || leafish w) | _ => true end)
      && (if b then s_box ws else negb (s_flow cs) || s_flow ws)
      && proved_fragment2_c r cs
  end
with proved_fragment2_o (o : owidget) : bool :=
  match o with ONone => true | OSome w => proved_fragment2 w end.

(* the leaf hypotheses: every leaf satisfies the box/flow contract; the leaves under a clip Padding or a
   pack Overlay also the fixed one *)
Fixpoint leaves_ok2 (w : widget) : Prop :=
  match w with
  | WLeaf d => Good (leaf_sem d) /\ fpack_ok (leaf_sem d)
  | WAttr w => leaves_ok2 w
  | WBoxAdapter w _ => leaves_ok2 w
  | WPadding w _ wt _ _ _ => match wt with WClip => leaves_ok w /\ leaves_fx w | _ => leaves_ok2 w end
  | WFiller w _ _ _ _ _ => leaves_ok2 w
  | WPile items _ => leaves_ok2_p items
  | WColumns items _ _ _ => leaves_ok2_c items
  | WFrame body hd ft _ => leaves_ok2 body /\ leaves_ok2_o hd /\ leaves_ok2_o ft
  | WOverlay t b p =>
      (match ov_wt p with WPack => leaves_ok t /\ leaves_fx t | _ => leaves_ok2 t end) /\ leaves_ok2 b
  end
with leaves_ok2_p (l : pitems) : Prop :=
  match l with PNil => True | PCons w _ _ r => leaves_ok2 w /\ leaves_ok2_p r end
with leaves_ok2_c (l : citems) : Prop :=
  match l with CNil => True | CCons w _ _ _ r => leaves_ok2 w /\ leaves_ok2_c r end
with leaves_ok2_o (o : owidget) : Prop :=
  match o with ONone => True | OSome w => leaves_ok2 w end.

Lemma leafish_fpack2 : forall w, leafish w = true -> leaves_ok2 w -> fpack_ok (denote w).
Proof.
  fix IH 1. intros w. destruct w; cbn [leafish leaves_ok2 denote]; intros H L; try discriminate.
  - exact (proj2 L).
  - specialize (IH w H L). unfold fpack_ok in *. cbn [attr_sem m_sizing m_pack]. exact IH.
Qed.

Lemma min_rows_ranges :
  (forall w, 0 <= min_rows w <= 1) /\ (forall l, 0 <= min_rows_p l <= 1).
Proof.
  assert (H : forall w, 0 <= min_rows w <= 1).
  { apply (widget_mut (fun w => 0 <= min_rows w <= 1) (fun l => 0 <= min_rows_p l <= 1)
             (fun _ => True) (fun _ => True)); cbn [min_rows min_rows_p]; intros; auto; try lia;
      unfold overlay_min_rows;
      repeat match goal with |- context [match ?x with _ => _ end] => destruct x end;
      cbn [min_rows_p] in *; lia. }
  split; [exact H|]. induction l; cbn [min_rows_p]; [lia|]. specialize (H w). lia.
Qed.
Definition min_rows_range := proj1 min_rows_ranges.
Definition min_rows_p_range := proj2 min_rows_ranges.

Lemma pgood_weaken n m l : m <= n -> Forall (pgoodN n) l -> Forall (pgoodN m) l.
Proof.
  intros H F. eapply Forall_impl; [|exact F]. intros it G. exact (good_weaken n m _ H G).
Qed.

Theorem contract_ext :
  forall w, wf_b w = true -> proved_fragment2 w = true -> leaves_ok2 w -> GoodN (min_rows w) (denote w).
Proof.
  apply (widget_mut
    (fun w => wf_b w = true -> proved_fragment2 w = true -> leaves_ok2 w -> GoodN (min_rows w) (denote w))
    (fun l => forall ps, wf_p l ps = true -> proved_fragment2_p l = true -> leaves_ok2_p l ->
              Forall (pgoodN (min_rows_p l)) (denote_p l) /\ Forall (pile_ok ps) (denote_p l))
    (fun l => forall cs, wf_c l cs = true -> proved_fragment2_c l cs = true -> leaves_ok2_c l ->
              Forall (cgoodN 0) (denote_c l) /\ Forall (cols_item_ok cs) (denote_c l))
    (fun o => wf_o o = true -> proved_fragment2_o o = true -> leaves_ok2_o o -> opt_flow_goodN 0 (denote_o o)));
    cbn [wf_b proved_fragment2 leaves_ok2 denote min_rows]; auto.
  - (* leaf *) intros d _ _ [L _]. exact L.
  - (* attr *) intros w IH Hw Hf Hl. apply attr_good; auto.
  - (* boxadapter *) intros w IH h Hw Hf Hl. apply (boxadapter_good (min_rows w) 1); try lia. apply IH; auto; lia.
  - (* padding *) intros w IH a wt mw l r Hw Hf Hl.
    destruct wt as [n| | |pct].
    + apply padding_good; try lia; [apply IH; auto; lia|discriminate].
    + apply padding_good; try lia; [apply IH; auto; lia|discriminate].
    + (* clip *)
      unfold fixed_child_ok in Hf. destruct Hl as [L1 L2].
      apply padding_clip_good; [|lia].
      apply fixed_contract_by_induction; auto; lia.
    + apply padding_good; try lia; [apply IH; auto; lia|discriminate].
  - (* filler *) intros w IH va ht mh t b Hw Hf Hl. pose proof (min_rows_range w).
    apply filler_good; try lia. apply IH; auto; lia.
  - (* pile *) intros items IH fp Hw Hf Hl.
    destruct (IH (pile_sizing (denote_p items)) ltac:(lia) ltac:(lia) Hl) as [A B].
    destruct items as [|w k n r].
    + apply pile_good; [lia|intros; lia|constructor|constructor].
    + pose proof (min_rows_p_range (PCons w k n r)).
      apply pile_good; auto. intros _. cbn. discriminate.
  - (* columns *) intros items IH d mw fp Hw Hf Hl.
    destruct (IH (cols_sizing (denote_c items)) ltac:(lia) ltac:(lia) Hl) as [A B].
    apply (cols_good 0); auto; lia.
  - (* frame *) intros body IHb hd IHh ft IHf fpart Hw Hf Hl. destruct Hl as [L1 [L2 L3]].
    pose proof (min_rows_range body).
    apply (frame_good 0 1); try lia.
    + apply (good_weaken (min_rows body)); [lia|]. apply IHb; auto; lia.
    + apply IHh; auto; lia.
    + apply IHf; auto; lia.
  - (* overlay *) intros t IHt b IHb p Hw Hf Hl. destruct Hl as [L1 L2].
    repeat match type of Hw with (_ && _) = true => apply andb_prop in Hw; let H := fresh "W" in destruct Hw as [Hw H] end.
    apply andb_prop in Hf. destruct Hf as [Hfb Hft].
    assert (GB : exists nb, GoodN nb (denote b)) by (exists (min_rows b); auto).
    destruct (ov_wt p) as [n| | |pct] eqn:EW; try discriminate.
    + apply andb_prop in Hft. destruct Hft as [P1 P2]. pose proof (min_rows_range t).
      apply overlay_good; auto.
      eapply overlay_given_of_bools; eauto; rewrite EW; reflexivity.
    + (* width = 'pack' *)
      unfold fixed_child_ok in Hft. destruct L1 as [L1a L1b].
      apply (overlay_pack_good (denote t) (denote b) p); auto; try lia.
      apply fixed_contract_by_induction; auto; lia.
    + apply andb_prop in Hft. destruct Hft as [P1 P2]. pose proof (min_rows_range t).
      apply overlay_good; auto.
      eapply overlay_given_of_bools; eauto; rewrite EW; reflexivity.
  - (* PNil *) intros ps _ _ _. split; constructor.
  - (* PCons *) intros w IHw k n r IHr ps Hw Hf Hl.
    cbn [wf_p proved_fragment2_p leaves_ok2_p denote_p min_rows_p] in *.
    destruct Hl as [Hl1 Hl2].
    destruct (IHr ps ltac:(lia) ltac:(lia) Hl2) as [A B].
    split; constructor; auto.
    + unfold pgoodN. cbn [pi_sem]. apply (good_weaken (min_rows w)); [lia|]. apply IHw; auto; lia.
    + apply (pgood_weaken (min_rows_p r)); [lia|exact A].
    + unfold pile_ok. cbn. lia.
  - (* CNil *) intros cs _ _ _. split; constructor.
  - (* CCons *) intros w IHw k n b r IHr cs Hw Hf Hl.
    cbn [wf_c proved_fragment2_c leaves_ok2_c denote_c] in *. destruct Hl as [Hl1 Hl2].
    apply andb_prop in Hw. destruct Hw as [Hw Hw3]. apply andb_prop in Hw. destruct Hw as [Hw1 Hw2].
    apply andb_prop in Hf. destruct Hf as [Hf Hf4]. apply andb_prop in Hf. destruct Hf as [Hf Hf3].
    apply andb_prop in Hf. destruct Hf as [Hf1 Hf2].
    destruct (IHr cs Hw3 Hf4 Hl2) as [A B].
    assert (G : GoodN 0 (denote w)).
    { pose proof (min_rows_range w). apply (good_weaken (min_rows w)); [lia|]. apply IHw; auto. }
    split; constructor; auto.
    + unfold cgoodN. cbn [ci_sem ci_kind]. split; [exact G|]. intros ->.
      destruct (s_fixed (m_sizing (denote w))) eqn:EF.
      * apply leafish_fpack2; auto. lia.
      * unfold fpack_ok. rewrite EF. discriminate.
    + unfold cols_item_ok. cbn [ci_sem ci_kind ci_amount ci_box].
      unfold cols_child_ok in Hw2.
      apply andb_prop in Hw2. destruct Hw2 as [Hw2 _]. apply andb_prop in Hw2. destruct Hw2 as [Hw2 _].
      apply andb_prop in Hw2. destruct Hw2 as [Ka Kb].
      repeat split.
      * destruct k; lia.
      * destruct b; [exact Hf3|]. intros Hcs. rewrite Hcs in Hf3. cbn in Hf3. exact Hf3.
      * intros Hcs. rewrite Hcs in Kb. cbn in Kb. exact Kb.
  - (* OSome *) intros w IH Hw Hf Hl. cbn [wf_o proved_fragment2_o leaves_ok2_o denote_o opt_flow_goodN] in *.
    pose proof (min_rows_range w).
    split; [apply (good_weaken (min_rows w)); [lia|]; apply IH; auto; lia|lia].
Qed.
