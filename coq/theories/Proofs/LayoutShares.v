(* Proportional shares of the weighted columns, lifted from the sharing loop (cw_alloc) to
   Columns.column_widths as a whole. *)
From Coq Require Import ZArith List Bool Lia ZifyBool Permutation.
Import ListNotations.
From Urwid Require Import PyBase layout_gen Layout LayoutArith LayoutLists LayoutColumns.
Open Scope Z_scope.

Arguments Z.add : simpl never.
Arguments Z.sub : simpl never.
Arguments Z.mul : simpl never.
Arguments Z.div : simpl never.
Arguments Z.quot : simpl never.
Arguments Z.ltb : simpl never.
Arguments Z.leb : simpl never.
Arguments Z.eqb : simpl never.
Arguments Z.min : simpl never.
Arguments Z.max : simpl never.
Arguments Z.of_nat : simpl never.

(* (weight, width) of every weighted column, by column index; a column beyond the end of the
   width list has width 0 *)
Definition weighted_widths (cs : list col) (F : list Z) : list (Z * Z) :=
  map (fun p => (fst p, width_at F (snd p))) (weighted_of cs 0).
(* ... of the weighted columns that are shown *)
Definition shown_weighted (cs : list col) (F : list Z) : list (Z * Z) :=
  filter (fun p => 0 <? snd p) (weighted_widths cs F).

(* every width within bound2/2 columns of  share * weight / (sum of weights),
   share = the sum of the widths *)
Definition shares_within (bound2 : Z) (S : list (Z * Z)) : Prop :=
  let Wt := zsum (map fst S) in let share := zsum (map snd S) in
  Forall (fun p => - (bound2 * Wt) <= 2 * (snd p * Wt - share * fst p) <= bound2 * Wt) S.

Lemma shares_within_perm b S S' : Permutation S S' -> shares_within b S -> shares_within b S'.
Proof.
  intros HP H. unfold shares_within in *. cbv zeta in *.
  rewrite <- (zsum_perm _ _ (Permutation_map fst HP)), <- (zsum_perm _ _ (Permutation_map snd HP)).
  eapply Permutation_Forall; eassumption.
Qed.

Lemma weighted_of_app a : forall b i,
  weighted_of (a ++ b) i = weighted_of a i ++ weighted_of b (i + zlen a).
Proof.
  induction a as [|c r IH]; intros b i; cbn [app weighted_of].
  - change (zlen (@nil col)) with 0. now replace (i + 0) with i by lia.
  - rewrite IH, zlen_cons. replace (i + 1 + zlen r) with (i + (1 + zlen r)) by lia.
    destruct (is_weight c); reflexivity.
Qed.

Lemma filter_none {A} (f : A -> bool) l : (forall x, In x l -> f x = false) -> filter f l = [].
Proof.
  induction l as [|x r IH]; intros H; [reflexivity|]. cbn [filter].
  rewrite (H x (or_introl eq_refl)). apply IH. intros y Hy. apply H. now right.
Qed.

Lemma filter_all {A} (f : A -> bool) l : (forall x, In x l -> f x = true) -> filter f l = l.
Proof.
  induction l as [|x r IH]; intros H; [reflexivity|]. cbn [filter].
  rewrite (H x (or_introl eq_refl)). f_equal. apply IH. intros y Hy. apply H. now right.
Qed.

(* transport of the loop's Forall2 to a list of (weight, width) pairs *)
Lemma forall2_to_pairs (P : Z -> Z -> Prop) : forall (l al S : list (Z * Z)),
  Forall2 (fun x y => P (fst x) (snd y)) l al ->
  map fst S = map fst l -> map snd S = map snd al ->
  Forall (fun p => P (fst p) (snd p)) S.
Proof.
  intros l al S H. revert S. induction H as [|x y l al Hxy H IH]; intros S H1 H2.
  - destruct S; [constructor|discriminate].
  - destruct S as [|p S]; [discriminate|]. cbn [map] in *. injection H1 as Hp1 H1. injection H2 as Hp2 H2.
    constructor; [now rewrite Hp1, Hp2|]. now apply IH.
Qed.

Section Shares.
Variables (cs : list col) (div minw focus maxcol : Z) (F : list Z).
Hypothesis Hok : Forall col_ok cs.
Hypothesis Hdiv : 0 <= div.
Hypothesis Hminw : 1 <= minw.
Hypothesis Hmax : 0 <= maxcol.
Hypothesis Hfoc : 0 <= focus < zlen cs.
Hypothesis Hrun : column_widths cs div minw focus maxcol = Ok F.

(* If no shown weighted column sits at min_width (the minimum width did not intervene), every
   one of the k shown weighted columns is within (k-1)/2 columns of its proportional share. *)
Theorem cw_proportional_general :
  let S := shown_weighted cs F in
  Forall (fun p => minw < snd p) S -> shares_within (zlen S - 1) S.
Proof.
  intros S Hun. assert (Hm0 : 0 <= minw) by lia.
  destruct (column_widths_shape _ _ _ _ _ _ Hok Hdiv Hm0 Hmax Hfoc Hrun) as [dr [kept [post Sh]]].
  pose proof (sh_split _ _ _ _ _ _ _ _ _ Sh) as Hsplit.
  pose proof (sh_len _ _ _ _ _ _ _ _ _ Sh) as Hlen.
  pose proof (zlen_nonneg dr) as Hd0. pose proof (zlen_nonneg kept) as Hk0.
  set (f := fun p : Z * Z => (fst p, width_at F (snd p))).
  (* 1. only the kept weighted columns are shown *)
  assert (HS : S = map f (weighted_of kept (zlen dr))).
  { subst S. unfold shown_weighted, weighted_widths. fold f.
    rewrite Hsplit, !weighted_of_app, !map_app, !filter_app.
    rewrite (filter_none _ (map f (weighted_of dr 0))).
    2:{ intros x Hx. apply in_map_iff in Hx. destruct Hx as [[w j] [<- Hin]]. subst f. cbn [fst snd].
        apply weighted_of_In in Hin. destruct Hin as [Hj Hn]. apply nthz_range in Hn.
        unfold width_at. rewrite (sh_zero _ _ _ _ _ _ _ _ _ Sh j ltac:(lia)). reflexivity. }
    rewrite (filter_none _ (map f (weighted_of post _))).
    2:{ intros x Hx. apply in_map_iff in Hx. destruct Hx as [[w j] [<- Hin]]. subst f. cbn [fst snd].
        apply weighted_of_ge in Hin. cbn [snd] in Hin.
        unfold width_at. rewrite nthz_none_beyond by lia. reflexivity. }
    rewrite (filter_all _ (map f (weighted_of kept _))).
    2:{ intros x Hx. apply in_map_iff in Hx. destruct Hx as [[w j] [<- Hin]]. subst f. cbn [fst snd].
        apply weighted_of_In in Hin. destruct Hin as [Hj Hn].
        destruct (sh_weight _ _ _ _ _ _ _ _ _ Sh _ _ Hn eq_refl) as [v [Hv Hv1]].
        replace (0 + zlen dr + (j - (0 + zlen dr))) with j in Hv by lia.
        unfold width_at. replace (zlen dr + (j - (0 + zlen dr))) with j in Hv by lia. rewrite Hv. lia. }
    cbn [app]. rewrite app_nil_r. replace (0 + zlen dr) with (zlen dr) by lia. reflexivity. }
  (* 2. the sharing loop ran on a sorted permutation l of them *)
  destruct (sh_alloc _ _ _ _ _ _ _ _ _ Sh) as [l [al [Hperm [Hasc [Hidx [HalF Hcase]]]]]].
  assert (HSl : Permutation (map f l) S) by (rewrite HS; apply Permutation_map, Permutation_sym, Hperm).
  apply (shares_within_perm _ (map f l) S HSl).
  assert (Hzl : zlen S = zlen l).
  { rewrite HS, zlen_map. now apply perm_zlen. }
  rewrite Hzl.
  assert (Hfst : map fst (map f l) = map fst l) by (rewrite map_map; reflexivity).
  assert (Hsnd : map snd (map f l) = map snd al).
  { rewrite map_map. subst f. cbn [snd].
    clear - Hidx HalF. revert al Hidx HalF. induction l as [|x l IH]; intros al Hidx HalF.
    - destruct al; [reflexivity|discriminate].
    - destruct al as [|y al]; [discriminate|]. cbn [map] in *. injection Hidx as Hy Hidx.
      f_equal.
      + unfold width_at. rewrite <- Hy. rewrite (HalF y (or_introl eq_refl)). reflexivity.
      + apply IH; [exact Hidx|]. intros p Hp. apply HalF. now right. }
  assert (Hw1 : Forall (fun p => 1 <= fst p) l).
  { eapply Permutation_Forall; [exact Hperm|]. apply weighted_of_weights. apply col_ok_weight.
    rewrite Hsplit in Hok. apply Forall_app in Hok. destruct Hok as [_ H]. apply Forall_app in H. tauto. }
  (* the hypothesis on S, read on al *)
  assert (Hunal : unclamped minw al).
  { unfold unclamped. assert (Forall (fun p => minw < snd p) (map f l)).
    { eapply Permutation_Forall; [apply Permutation_sym; exact HSl|exact Hun]. }
    rewrite <- Forall_map in H. rewrite Hsnd in H. rewrite <- Forall_map. exact H. }
  destruct l as [|x0 l0] eqn:El.
  { cbn. unfold shares_within. constructor. }
  rewrite <- El in *.
  destruct Hcase as [Hall|[Hrunal [Hgrow Hne]]].
  - (* nothing was distributed: every kept weighted column is at min_width, excluded *)
    exfalso. destruct al as [|y al']; [rewrite El in Hidx; discriminate|].
    inversion Hall as [|? ? Hy _]; subst. inversion Hunal as [|? ? Hy' _]; subst. lia.
  - pose proof (cw_alloc_proportional minw l (zsum (map snd al)) al ltac:(lia) Hasc Hw1 Hgrow Hne Hrunal Hunal) as HF2.
    unfold shares_within. cbv zeta. rewrite Hfst, Hsnd.
    pose proof (forall2_to_pairs (fun a w => dev_ok (zsum (map snd al)) (zsum (map fst l)) (zlen l - 1) a w)
                  l al (map f l) HF2 Hfst Hsnd) as HF.
    eapply Forall_impl; [|exact HF]. intros p Hp. unfold dev_ok in Hp. exact Hp.
Qed.

(* hence "within one column" for up to three weighted columns *)
Corollary cw_proportional_upto3 :
  let S := shown_weighted cs F in
  zlen S <= 3 -> Forall (fun p => minw < snd p) S -> shares_within 2 S.
Proof.
  intros S H3 Hun. pose proof (cw_proportional_general Hun) as H. fold S in H.
  unfold shares_within in *. cbv zeta in *.
  assert (HW : 0 <= zsum (map fst S)).
  { apply zsum_nonneg. rewrite Forall_map. apply Forall_forall. intros p Hp.
    subst S. unfold shown_weighted in Hp. apply filter_In in Hp. destruct Hp as [Hp _].
    unfold weighted_widths in Hp. apply in_map_iff in Hp. destruct Hp as [[w j] [<- Hin]]. cbn [fst].
    apply weighted_of_In in Hin. destruct Hin as [_ Hn]. apply nthz_In in Hn.
    rewrite Forall_forall in Hok. specialize (Hok _ Hn). unfold col_ok in Hok. cbn in Hok. lia. }
  eapply Forall_impl; [|exact H]. cbv beta. intros p Hp. nia.
Qed.

End Shares.

(* ------------------------------------------------------------------ *)
(* the same for the rows of a box Pile (shares handed out in contents order) *)
From Urwid Require Import LayoutOthers.

(* (weight, rows) of the weighted items, in order *)
Fixpoint weighted_rows (items : list col) (rows : list Z) : list (Z * Z) :=
  match items, rows with
  | c :: it, r :: rs => if is_weight c then (snd c, r) :: weighted_rows it rs else weighted_rows it rs
  | _, _ => []
  end.
(* number of items with a positive weight *)
Fixpoint npos (items : list col) : Z :=
  match items with
  | [] => 0
  | c :: r => (if is_weight c && (0 <? snd c) then 1 else 0) + npos r
  end.

Lemma npos_nonneg items : 0 <= npos items.
Proof. induction items as [|c r IH]; cbn [npos]; [lia|]. destruct (is_weight c && (0 <? snd c)); lia. Qed.

Lemma npos_zero items : Forall pitem_ok items -> weight_sum items = 0 -> npos items = 0.
Proof.
  induction 1 as [|c r Hc Hr IH]; cbn [npos weight_sum]; [reflexivity|]. intros H.
  pose proof (weight_sum_nonneg r Hr). unfold pitem_ok in Hc.
  destruct (is_weight c); cbn [andb]; [|apply IH; lia].
  destruct (0 <? snd c) eqn:E; [lia|]. apply IH. lia.
Qed.

Lemma npos_pos items : Forall pitem_ok items -> 0 < weight_sum items -> 1 <= npos items.
Proof.
  induction 1 as [|c r Hc Hr IH]; cbn [npos weight_sum]; [lia|]. intros H.
  pose proof (npos_nonneg r). unfold pitem_ok in Hc.
  destruct (is_weight c); cbn [andb]; [|specialize (IH ltac:(lia)); lia].
  destruct (0 <? snd c) eqn:E; [lia|]. specialize (IH ltac:(lia)). lia.
Qed.

Lemma dev_ok_mono G0 W0 b b' a w : 0 < W0 -> b <= b' -> dev_ok G0 W0 b a w -> dev_ok G0 W0 b' a w.
Proof. unfold dev_ok. intros. nia. Qed.

Lemma pile_pass2_proportional W0 G0 : 0 < W0 ->
  forall items rem W j rows,
  Forall pitem_ok items -> 0 <= rem -> W = weight_sum items -> 0 <= j ->
  - (j * W0) <= 2 * (rem * W0 - G0 * W) <= j * W0 ->
  pile_pass2 items (map rn_of items) rem W = Ok rows ->
  Forall (fun p => dev_ok G0 W0 (j + Z.max 0 (npos items - 1)) (fst p) (snd p)) (weighted_rows items rows) /\
  zsum (map fst (weighted_rows items rows)) = W /\
  zsum (map snd (weighted_rows items rows)) = (if W =? 0 then 0 else rem).
Proof.
  intros HW0. induction items as [|[k h] r IH]; intros rem W j rows Hok Hrem HW Hj HD Hrun.
  - cbn in *. subst W. repeat split; constructor.
  - inversion Hok as [|? ? Hc Hr]; subst. unfold pitem_ok in Hc. cbn [snd] in Hc.
    pose proof (weight_sum_nonneg r Hr) as Hwn. pose proof (npos_nonneg r) as Hnp.
    cbn [map pile_pass2] in Hrun.
    destruct (rn_of (k, h)) as [v|] eqn:Ern.
    + (* given / packed / zero weight: no share *)
      destruct (pile_pass2 r (map rn_of r) rem (weight_sum (@cons col (k, h) r))) as [rows'|] eqn:Er; [|discriminate].
      cbn [bind] in Hrun. injection Hrun as <-.
      assert (Hcase : (is_weight (k, h) = false) \/ (is_weight (k, h) = true /\ h = 0 /\ v = 0)).
      { unfold rn_of, is_weight in *. cbn [fst snd] in *. destruct k; try (left; reflexivity).
        right. destruct (h =? 0) eqn:E; [|discriminate]. injection Ern as <-. repeat split; lia. }
      assert (HWr : weight_sum (@cons col (k, h) r) = weight_sum r).
      { cbn [weight_sum]. destruct Hcase as [->|[-> [-> _]]]; cbn [snd]; lia. }
      rewrite HWr in *.
      assert (Hnp' : npos (@cons col (k, h) r) = npos r).
      { cbn [npos]. destruct Hcase as [->|[-> [-> _]]]; cbn [andb snd]; [lia|]. destruct (0 <? 0) eqn:E00; lia. }
      destruct (IH rem (weight_sum r) j rows' Hr Hrem eq_refl Hj HD Er) as [HF [Hs1 Hs2]].
      cbn [weighted_rows]. rewrite Hnp'.
      destruct Hcase as [Hk|[Hk [Hh Hv]]]; rewrite Hk.
      * repeat split; assumption.
      * subst h v. cbn [map fst snd zsum]. repeat split; try lia.
        constructor; [|assumption]. unfold dev_ok. cbn [fst snd]. nia.
    + (* a positive weight *)
      assert (Hk : is_weight (k, h) = true /\ 1 <= h).
      { unfold rn_of, is_weight in *. cbn [fst snd] in *. destruct k; try discriminate.
        destruct (h =? 0) eqn:E; [discriminate|]. split; [reflexivity|lia]. }
      destruct Hk as [Hkw Hh].
      set (W := weight_sum (@cons col (k, h) r)) in *.
      assert (HWr : W = h + weight_sum r) by (subst W; cbn [weight_sum snd]; rewrite Hkw; reflexivity).
      clearbody W.
      destruct (W =? 0) eqn:E0; [lia|].
      pose proof (rhu_le_rem rem h W Hrem ltac:(lia)) as Hshare.
      pose proof (rhu_bounds (rem * h) W ltac:(nia) ltac:(lia)) as Hb. cbv zeta in Hb. destruct Hb as [Hb _].
      set (rows0 := round_half_up_div (rem * h) W) in *.
      destruct (pile_pass2 r (map rn_of r) (rem - rows0) (W - h)) as [rows'|] eqn:Er; [|discriminate].
      cbn [bind] in Hrun. injection Hrun as <-.
      assert (Hnp' : npos (@cons col (k, h) r) = 1 + npos r).
      { cbn [npos]. rewrite Hkw. cbn [andb snd]. destruct (0 <? h) eqn:E; lia. }
      cbn [weighted_rows]. rewrite Hkw, Hnp'. cbn [map fst snd zsum].
      destruct (Z.eq_dec (weight_sum r) 0) as [Hz|Hnz].
      * (* the last positive weight takes what remains *)
        assert (HWh : W = h) by lia.
        assert (Hr0 : rows0 = rem) by (subst rows0; rewrite HWh; apply rhu_all; lia).
        assert (Hn0 : npos r = 0) by (apply npos_zero; assumption).
        destruct (IH (rem - rows0) (W - h) j rows' Hr ltac:(lia) ltac:(lia) Hj ltac:(rewrite Hr0, HWh; nia) Er)
          as [HF [Hs1 Hs2]].
        rewrite Hn0 in *. replace (Z.max 0 (1 + 0 - 1)) with 0 by lia. replace (Z.max 0 (0 - 1)) with 0 in HF by lia.
        repeat split.
        -- constructor; [|exact HF]. unfold dev_ok. cbn [fst snd]. rewrite Hr0. rewrite HWh in HD. lia.
        -- lia.
        -- rewrite Hs2. replace (W - h =? 0) with true by lia. lia.
      * assert (Hn1 : 1 <= npos r) by (apply npos_pos; [assumption|lia]).
        pose proof (prop_step W0 G0 rem W h rows0 j ltac:(lia) Hj HW0 Hb HD) as [Hdev HD'].
        destruct (IH (rem - rows0) (W - h) (j + 1) rows' Hr ltac:(lia) ltac:(lia) ltac:(lia) HD' Er)
          as [HF [Hs1 Hs2]].
        replace (j + 1 + Z.max 0 (npos r - 1)) with (j + Z.max 0 (1 + npos r - 1)) in HF by lia.
        repeat split.
        -- constructor; [|exact HF]. apply (dev_ok_mono G0 W0 (j + 1)); [assumption|lia|].
           unfold dev_ok. cbn [fst snd]. lia.
        -- lia.
        -- rewrite Hs2. destruct (W - h =? 0) eqn:E1; lia.
Qed.

(* every weighted item of a box Pile is within (k-1)/2 rows of its proportional share of the
   rows left by the given and packed items, k = number of positively weighted items *)
Theorem rows_proportional_general items maxrow rows :
  Forall pitem_ok items -> pile_item_rows items maxrow = Ok rows ->
  shares_within (Z.max 0 (npos items - 1)) (weighted_rows items rows).
Proof.
  intros Hok Hrun. unfold pile_item_rows in Hrun. rewrite pile_pass1_spec in Hrun.
  replace (0 + weight_sum items) with (weight_sum items) in Hrun by lia.
  destruct (weight_sum items =? 0) eqn:E; [discriminate|].
  pose proof (weight_sum_nonneg items Hok) as Hwn.
  set (rem := Z.max (maxrow - fixed_sum items) 0) in *.
  destruct (pile_pass2_proportional (weight_sum items) rem ltac:(lia) items rem (weight_sum items) 0 rows
              Hok ltac:(lia) eq_refl ltac:(lia) ltac:(lia) Hrun) as [HF [Hs1 Hs2]].
  rewrite E in Hs2. unfold shares_within. cbv zeta. rewrite Hs1, Hs2.
  eapply Forall_impl; [|exact HF]. intros p Hp. unfold dev_ok in Hp. cbn beta in Hp.
  replace (0 + Z.max 0 (npos items - 1)) with (Z.max 0 (npos items - 1)) in Hp by lia. exact Hp.
Qed.

Corollary rows_proportional_upto3 items maxrow rows :
  Forall pitem_ok items -> pile_item_rows items maxrow = Ok rows -> npos items <= 3 ->
  shares_within 2 (weighted_rows items rows).
Proof.
  intros Hok Hrun H3. pose proof (rows_proportional_general items maxrow rows Hok Hrun) as H.
  unfold shares_within in *. cbv zeta in *.
  assert (HW : 0 <= zsum (map fst (weighted_rows items rows))).
  { apply zsum_nonneg. rewrite Forall_map. clear - Hok. revert rows.
    induction Hok as [|c r Hc Hr IH]; intros rows; [constructor|]. destruct rows as [|x rows]; [constructor|].
    cbn [weighted_rows]. destruct (is_weight c); [constructor; [exact Hc|apply IH]|apply IH]. }
  eapply Forall_impl; [|exact H]. cbv beta. intros p Hp. nia.
Qed.
