(* C04 - facts about the reference terminal (Model/TermRef.v): list plumbing, repair of split wide
   characters, what printing / inserting / erasing does to the cursor row, SGR. *)
From Coq Require Import ZArith List Bool Lia ZifyBool.
From Urwid Require Import PyBase TermRef DrawScreen PaintSpec.
Import ListNotations.
Open Scope Z_scope.

Arguments Z.add : simpl never.
Arguments Z.sub : simpl never.
Arguments Z.mul : simpl never.
Arguments Z.ltb : simpl never.
Arguments Z.leb : simpl never.
Arguments Z.eqb : simpl never.
Arguments Z.min : simpl never.
Arguments Z.max : simpl never.
Arguments Z.to_nat : simpl never.
Arguments Z.of_nat : simpl never.

(* ---------- Z-indexed list plumbing ---------- *)
Lemma takez_app_exact {A} (a b : list A) n : zlen a = n -> takez n (a ++ b) = a.
Proof.
  intros H. unfold takez, zlen in *. subst n. rewrite Nat2Z.id.
  rewrite firstn_app, Nat.sub_diag, firstn_all. cbn. now rewrite app_nil_r.
Qed.

Lemma dropz_app_exact {A} (a b : list A) n : zlen a = n -> dropz n (a ++ b) = b.
Proof.
  intros H. unfold dropz, zlen in *. subst n. rewrite Nat2Z.id.
  rewrite skipn_app, Nat.sub_diag, skipn_all. reflexivity.
Qed.

Lemma dropz_app_plus {A} (a b : list A) n k : zlen a = n -> 0 <= k -> dropz (n + k) (a ++ b) = dropz k b.
Proof.
  intros H Hk. unfold dropz, zlen in *. subst n.
  replace (Z.to_nat (Z.of_nat (length a) + k)) with (length a + Z.to_nat k)%nat by lia.
  rewrite skipn_app. rewrite (skipn_all2 a) by lia. cbn [app]. f_equal. lia.
Qed.

Lemma takez_all {A} (a : list A) n : zlen a <= n -> takez n a = a.
Proof. intros H. unfold takez, zlen in *. apply firstn_all2. lia. Qed.

Lemma dropz_all {A} (a : list A) n : zlen a <= n -> dropz n a = [].
Proof. intros H. unfold dropz, zlen in *. apply skipn_all2. lia. Qed.

Lemma dropz_0 {A} (a : list A) : dropz 0 a = a.
Proof. reflexivity. Qed.

Lemma zlen_repeat {A} (x : A) n : zlen (repeat x n) = Z.of_nat n.
Proof. unfold zlen. now rewrite repeat_length. Qed.

Lemma zlen_dropz_le {A} (l : list A) n : 0 <= n -> n <= zlen l -> zlen (dropz n l) = zlen l - n.
Proof. intros. rewrite zlen_dropz by lia. lia. Qed.

Lemma nthz_app_l {A} (a b : list A) i : 0 <= i < zlen a -> nthz (a ++ b) i = nthz a i.
Proof.
  intros H. unfold nthz, zlen in *. destruct (i <? 0) eqn:E; [lia|].
  apply nth_error_app1. lia.
Qed.

Lemma nthz_app_r {A} (a b : list A) i : zlen a <= i -> nthz (a ++ b) i = nthz b (i - zlen a).
Proof.
  intros H. pose proof (zlen_nonneg a). unfold nthz, zlen in *.
  destruct (i <? 0) eqn:E; [lia|]. destruct (i - Z.of_nat (length a) <? 0) eqn:E2; [lia|].
  rewrite nth_error_app2 by lia. f_equal. lia.
Qed.

Lemma nthz_cons_0 {A} (x : A) l : nthz (x :: l) 0 = Some x.
Proof. reflexivity. Qed.

Lemma nthz_range {A} (l : list A) i : 0 <= i < zlen l -> exists x, nthz l i = Some x.
Proof.
  intros H. unfold nthz, zlen in *. destruct (i <? 0) eqn:E; [lia|].
  destruct (nth_error l (Z.to_nat i)) eqn:N; [eauto|].
  apply nth_error_None in N. lia.
Qed.

Lemma nthz_none {A} (l : list A) i : i < 0 \/ zlen l <= i -> nthz l i = None.
Proof.
  intros H. unfold nthz, zlen in *. destruct (i <? 0) eqn:E; [reflexivity|].
  apply nth_error_None. lia.
Qed.

Lemma nthz_split {A} (l : list A) i x : nthz l i = Some x -> l = takez i l ++ x :: dropz (i + 1) l /\ 0 <= i < zlen l.
Proof.
  intros H. unfold nthz in H. destruct (i <? 0) eqn:E; [discriminate|].
  pose proof (nth_error_split l _ H) as (l1 & l2 & -> & Hl).
  assert (Hi : i = zlen l1) by (unfold zlen; lia).
  split.
  - rewrite (takez_app_exact l1 (x :: l2) i) by lia.
    replace (l1 ++ x :: l2) with ((l1 ++ [x]) ++ l2) at 2 by (now rewrite <- app_assoc).
    rewrite dropz_app_exact; [reflexivity|]. rewrite zlen_app, zlen_cons, zlen_nil. lia.
  - rewrite zlen_app, zlen_cons. pose proof (zlen_nonneg l2). lia.
Qed.

(* ---------- rows of the grid ---------- *)
Lemma zlen_set_row g y r : 0 <= y < zlen g -> zlen (set_row g y r) = zlen g.
Proof.
  intros H. unfold set_row. rewrite zlen_app, zlen_cons, zlen_takez, zlen_dropz by lia. lia.
Qed.

Lemma get_set_row_same g y r : 0 <= y < zlen g -> get_row (set_row g y r) y = r.
Proof.
  intros H. unfold get_row, set_row.
  rewrite nthz_app_r by (rewrite zlen_takez by lia; lia).
  rewrite zlen_takez by lia. replace (y - Z.min y (zlen g)) with 0 by lia. reflexivity.
Qed.

Lemma nthz_mid_other {A} (a b : list A) x r i : i <> zlen a -> nthz (a ++ x :: b) i = nthz (a ++ r :: b) i.
Proof.
  intros Hne. pose proof (zlen_nonneg a).
  destruct (Z_lt_ge_dec i 0). { rewrite !nthz_none; auto. }
  destruct (Z_lt_ge_dec i (zlen a)).
  - rewrite !nthz_app_l by lia. reflexivity.
  - rewrite !nthz_app_r by lia. unfold nthz. destruct (i - zlen a <? 0) eqn:E; [lia|].
    destruct (Z.to_nat (i - zlen a)) eqn:N; [lia|]. reflexivity.
Qed.

Lemma set_row_split g y r : 0 <= y < zlen g ->
  exists a x b, g = a ++ x :: b /\ zlen a = y /\ set_row g y r = a ++ r :: b.
Proof.
  intros H. destruct (nthz_range g y H) as [x Hx]. destruct (nthz_split g y x Hx) as [Hg _].
  exists (takez y g), x, (dropz (y + 1) g). split; [exact Hg|]. split.
  - rewrite zlen_takez by lia. lia.
  - reflexivity.
Qed.

Lemma get_set_row_other g y y' r : 0 <= y < zlen g -> y' <> y -> get_row (set_row g y r) y' = get_row g y'.
Proof.
  intros H Hne. destruct (set_row_split g y r H) as (a & x & b & Hg & Ha & Hs).
  unfold get_row. rewrite Hs. rewrite Hg. rewrite (nthz_mid_other a b r x y') by lia. reflexivity.
Qed.

Lemma set_set_row g y r r' : 0 <= y < zlen g -> set_row (set_row g y r) y r' = set_row g y r'.
Proof.
  intros H. destruct (set_row_split g y r H) as (a & x & b & Hg & Ha & Hs).
  rewrite Hs. unfold set_row. rewrite takez_app_exact by lia.
  replace (a ++ r :: b) with ((a ++ [r]) ++ b) by (now rewrite <- app_assoc).
  rewrite dropz_app_exact by (rewrite zlen_app, zlen_cons, zlen_nil; lia).
  rewrite Hg. rewrite takez_app_exact by lia.
  replace (a ++ x :: b) with ((a ++ [x]) ++ b) by (now rewrite <- app_assoc).
  rewrite dropz_app_exact by (rewrite zlen_app, zlen_cons, zlen_nil; lia). reflexivity.
Qed.

Lemma set_row_same g y : 0 <= y < zlen g -> set_row g y (get_row g y) = g.
Proof.
  intros H. destruct (nthz_range g y H) as [x Hx]. unfold get_row, set_row. rewrite Hx.
  symmetry. apply (nthz_split g y x Hx).
Qed.

Ltac splits_ := repeat match goal with |- _ /\ _ => split end.

(* ---------- well-formed cell lists and the repair of split halves ---------- *)
Inductive WFc : list cell -> Prop :=
  | WFc_nil : WFc []
  | WFc_narrow c l : c_w c <> 0 -> c_w c <> 2 -> WFc l -> WFc (c :: l)
  | WFc_wide c c2 l : c_w c = 2 -> c_w c2 = 0 -> WFc l -> WFc (c :: c2 :: l).

Lemma WFc_app a b : WFc a -> WFc b -> WFc (a ++ b).
Proof.
  induction 1; intros; cbn [app]; auto.
  - apply WFc_narrow; auto.
  - apply WFc_wide; auto.
Qed.

Lemma WFc_char_cells cp w cs a : w = 0 \/ w = 1 \/ w = 2 -> WFc (char_cells cp w cs a).
Proof.
  intros [ -> | [ -> | -> ] ]; unfold char_cells; cbn.
  - constructor.
  - apply WFc_narrow; cbn; try lia. constructor.
  - apply WFc_wide; cbn; try lia. constructor.
Qed.

Lemma zlen_char_cells cp w cs a : w = 0 \/ w = 1 \/ w = 2 -> zlen (char_cells cp w cs a) = w.
Proof. intros [ -> | [ -> | -> ] ]; reflexivity. Qed.

Lemma WFc_repeat_narrow c n : c_w c <> 0 -> c_w c <> 2 -> WFc (repeat c n).
Proof. intros. induction n; cbn [repeat]; constructor; auto. Qed.

Lemma fix_split_wf P X : WFc P -> fix_split false (P ++ X) = P ++ fix_split false X.
Proof.
  induction 1; cbn [app].
  - reflexivity.
  - cbn [fix_split]. destruct (c_w c =? 0) eqn:E0; [lia|]. destruct (c_w c =? 2) eqn:E2; [lia|].
    now rewrite IHWFc.
  - cbn [fix_split]. destruct (c_w c =? 0) eqn:E0; [lia|]. destruct (c_w c =? 2) eqn:E2; [|lia].
    destruct (c_w c2 =? 0) eqn:E3; [|lia]. now rewrite IHWFc.
Qed.

Lemma fix_split_wf_id P : WFc P -> fix_split false P = P.
Proof. intros H. rewrite <- (app_nil_r P) at 1. rewrite fix_split_wf by assumption. cbn. now rewrite app_nil_r. Qed.

Lemma zlen_fix_split b l : zlen (fix_split b l) = zlen l.
Proof.
  revert b. induction l as [|c l IH]; intros b; [reflexivity|].
  cbn [fix_split]. destruct (c_w c =? 0).
  - rewrite !zlen_cons, IH. reflexivity.
  - destruct (c_w c =? 2).
    + destruct l as [|c2 l']; [reflexivity|]. destruct (c_w c2 =? 0); rewrite !zlen_cons, IH; rewrite zlen_cons; reflexivity.
    + rewrite !zlen_cons, IH. reflexivity.
Qed.

(* ---------- what one row drawing may touch ---------- *)
Definition RowSt (t : term) (y : Z) (P R : list cell) : Prop :=
  t_y t = y /\ get_row (t_grid t) y = P ++ R /\ zlen P + zlen R = t_cols t /\ WFc P /\
  (if zlen P <? t_cols t then t_x t = zlen P /\ t_pending t = false
   else t_x t = t_cols t - 1 /\ t_pending t = true).

Definition SameFrame (t0 t : term) (y : Z) : Prop :=
  t_cols t = t_cols t0 /\ t_rows t = t_rows t0 /\ zlen (t_grid t) = zlen (t_grid t0) /\
  (forall y', y' <> y -> get_row (t_grid t) y' = get_row (t_grid t0) y') /\
  t_scrolled t = t_scrolled t0 /\ t_visible t = t_visible t0 /\ t_bce t = t_bce t0 /\ t_g1 t = t_g1 t0.

Definition SameModes (t t' : term) : Prop :=
  t_attr t' = t_attr t /\ t_irm t' = t_irm t /\ t_so t' = t_so t /\ t_ibm t' = t_ibm t.

Lemma SameFrame_refl t y : SameFrame t t y.
Proof. unfold SameFrame; intuition. Qed.

Lemma SameModes_refl t : SameModes t t.
Proof. unfold SameModes; intuition. Qed.

Lemma SameModes_trans a b c : SameModes a b -> SameModes b c -> SameModes a c.
Proof. unfold SameModes; intuition congruence. Qed.

Lemma cur_cs_modes t t' : SameModes t t' -> t_g1 t' = t_g1 t -> cur_cs t' = cur_cs t.
Proof. unfold SameModes, cur_cs. intros (_ & _ & -> & ->) ->. reflexivity. Qed.

(* printing one character of width 1 or 2 when it fits on the line *)
Lemma put_ok t0 t y P R cp w :
  RowSt t y P R -> SameFrame t0 t y -> 0 <= y < zlen (t_grid t) -> t_irm t = false ->
  w = 1 \/ w = 2 -> zlen P + w <= t_cols t ->
  RowSt (put t cp w) y (P ++ char_cells cp w (cur_cs t) (t_attr t)) (fix_split false (dropz w R))
  /\ SameFrame t0 (put t cp w) y /\ SameModes t (put t cp w).
Proof.
  intros (Hy & Hrow & Hlen & Hwf & Hpos) HF Hyr Hirm Hw Hfit.
  pose proof (zlen_nonneg P) as HP0. pose proof (zlen_nonneg R) as HR0.
  assert (Hlt : zlen P <? t_cols t = true) by lia. rewrite Hlt in Hpos. destruct Hpos as [Hx Hpend].
  unfold put.
  assert (E1 : w =? 0 = false) by lia. rewrite E1. assert (E1' : t_cols t <? w = false) by lia. rewrite E1'.
  rewrite Hpend. assert (E2 : t_cols t <? t_x t + w = false) by lia. rewrite E2. cbn [orb].
  rewrite Hirm, Hy, Hrow, Hx.
  set (cells := mkCell cp w (cur_cs t) (t_attr t) [] :: (if w =? 2 then [mkCell (-1) 0 (cur_cs t) (t_attr t) []] else [])).
  assert (Hcells : cells = char_cells cp w (cur_cs t) (t_attr t)).
  { unfold cells, char_cells. destruct Hw as [ -> | -> ]; reflexivity. }
  assert (Hzc : zlen cells = w). { rewrite Hcells. apply zlen_char_cells. lia. }
  assert (Hwc : WFc cells). { rewrite Hcells. apply WFc_char_cells. lia. }
  rewrite takez_app_exact by reflexivity.
  rewrite dropz_app_plus by lia.
  replace (P ++ cells ++ dropz w R) with ((P ++ cells) ++ dropz w R) by (now rewrite app_assoc).
  rewrite fix_split_wf by (apply WFc_app; assumption).
  set (newrow := (P ++ cells) ++ fix_split false (dropz w R)).
  set (g' := set_row (t_grid t) y newrow).
  assert (Hg'len : zlen g' = zlen (t_grid t)) by (apply zlen_set_row; lia).
  assert (Hnew : get_row g' y = newrow) by (apply get_set_row_same; lia).
  assert (Hrs : zlen (P ++ cells) + zlen (fix_split false (dropz w R)) = t_cols t).
  { rewrite zlen_app, zlen_fix_split, zlen_dropz_le by lia. lia. }
  destruct HF as (F1 & F2 & F3 & F4 & F5 & F6 & F7 & F8).
  destruct (t_cols t <=? zlen P + w) eqn:E3.
  - split; [|split].
    + unfold RowSt. cbn. rewrite <- Hcells. fold newrow. repeat split; auto.
      * apply WFc_app; assumption.
      * rewrite zlen_app, Hzc. assert (E4 : zlen P + w <? t_cols t = false) by lia. rewrite E4. auto.
    + unfold SameFrame. cbn. repeat split; auto; try lia.
      intros y' Hne. unfold g'. rewrite get_set_row_other by lia. auto.
    + unfold SameModes. cbn. auto.
  - split; [|split].
    + unfold RowSt. cbn. rewrite <- Hcells. fold newrow. repeat split; auto.
      * apply WFc_app; assumption.
      * rewrite zlen_app, Hzc. assert (E4 : zlen P + w <? t_cols t = true) by lia. rewrite E4. auto.
    + unfold SameFrame. cbn. repeat split; auto; try lia.
      intros y' Hne. unfold g'. rewrite get_set_row_other by lia. auto.
    + unfold SameModes. cbn. auto.
Qed.


(* printing in insert mode: the rest of the line moves right, what is pushed over the edge is lost *)
Lemma put_ins_ok t0 t y P Zc R2 cp w :
  RowSt t y P (Zc ++ R2) -> SameFrame t0 t y -> 0 <= y < zlen (t_grid t) -> t_irm t = true ->
  w = 1 \/ w = 2 -> zlen R2 = w -> WFc Zc ->
  RowSt (put t cp w) y (P ++ char_cells cp w (cur_cs t) (t_attr t)) Zc
  /\ SameFrame t0 (put t cp w) y /\ SameModes t (put t cp w).
Proof.
  intros (Hy & Hrow & Hlen & Hwf & Hpos) HF Hyr Hirm Hw HR2 HwZ.
  pose proof (zlen_nonneg P) as HP0. pose proof (zlen_nonneg Zc) as HZ0.
  rewrite zlen_app in Hlen.
  assert (Hlt : zlen P <? t_cols t = true) by lia. rewrite Hlt in Hpos. destruct Hpos as [Hx Hpend].
  unfold put.
  assert (E1 : w =? 0 = false) by lia. rewrite E1. assert (E1' : t_cols t <? w = false) by lia. rewrite E1'.
  rewrite Hpend. assert (E2 : t_cols t <? t_x t + w = false) by lia. rewrite E2. cbn [orb].
  rewrite Hirm, Hy, Hrow, Hx.
  set (cells := mkCell cp w (cur_cs t) (t_attr t) [] :: (if w =? 2 then [mkCell (-1) 0 (cur_cs t) (t_attr t) []] else [])).
  assert (Hcells : cells = char_cells cp w (cur_cs t) (t_attr t)).
  { unfold cells, char_cells. destruct Hw as [ -> | -> ]; reflexivity. }
  assert (Hzc : zlen cells = w). { rewrite Hcells. apply zlen_char_cells. lia. }
  assert (Hwc : WFc cells). { rewrite Hcells. apply WFc_char_cells. lia. }
  rewrite (takez_app_exact P (Zc ++ R2) (zlen P)) by reflexivity.
  rewrite (dropz_app_exact P (Zc ++ R2) (zlen P)) by reflexivity.
  replace (P ++ cells ++ Zc ++ R2) with ((P ++ cells ++ Zc) ++ R2) by (now rewrite <- !app_assoc).
  rewrite takez_app_exact by (rewrite !zlen_app; lia).
  rewrite fix_split_wf_id by (repeat apply WFc_app; assumption).
  replace (P ++ cells ++ Zc) with ((P ++ cells) ++ Zc) by (now rewrite <- !app_assoc).
  set (newrow := (P ++ cells) ++ Zc).
  set (g' := set_row (t_grid t) y newrow).
  assert (Hg'len : zlen g' = zlen (t_grid t)) by (apply zlen_set_row; lia).
  assert (Hnew : get_row g' y = newrow) by (apply get_set_row_same; lia).
  destruct HF as (F1 & F2 & F3 & F4 & F5 & F6 & F7 & F8).
  destruct (t_cols t <=? zlen P + w) eqn:E3.
  - split; [|split].
    + unfold RowSt. cbn. rewrite <- Hcells. fold newrow. repeat split; auto.
      * rewrite zlen_app, Hzc. lia.
      * apply WFc_app; assumption.
      * rewrite zlen_app, Hzc. assert (E4 : zlen P + w <? t_cols t = false) by lia. rewrite E4. auto.
    + unfold SameFrame. cbn. repeat split; auto; try lia.
      intros y' Hne. unfold g'. rewrite get_set_row_other by lia. auto.
    + unfold SameModes. cbn. auto.
  - split; [|split].
    + unfold RowSt. cbn. rewrite <- Hcells. fold newrow. repeat split; auto.
      * rewrite zlen_app, Hzc. lia.
      * apply WFc_app; assumption.
      * rewrite zlen_app, Hzc. assert (E4 : zlen P + w <? t_cols t = true) by lia. rewrite E4. auto.
    + unfold SameFrame. cbn. repeat split; auto; try lia.
      intros y' Hne. unfold g'. rewrite get_set_row_other by lia. auto.
    + unfold SameModes. cbn. auto.
Qed.

(* erase to end of line with the cursor after the printed part *)
Lemma el_ok t0 t y P R :
  RowSt t y P R -> SameFrame t0 t y -> 0 <= y < zlen (t_grid t) -> zlen P < t_cols t ->
  get_row (t_grid (step t TEl)) y = P ++ repeat (erase_cell t) (Z.to_nat (t_cols t - zlen P))
  /\ SameFrame t0 (step t TEl) y /\ SameModes t (step t TEl)
  /\ t_x (step t TEl) = t_x t /\ t_y (step t TEl) = t_y t /\ t_pending (step t TEl) = t_pending t.
Proof.
  intros (Hy & Hrow & Hlen & Hwf & Hpos) HF Hyr Hfit.
  assert (Hlt : zlen P <? t_cols t = true) by lia. rewrite Hlt in Hpos. destruct Hpos as [Hx Hpend].
  cbn [step]. rewrite Hy, Hrow, Hx. rewrite takez_app_exact by reflexivity.
  rewrite fix_split_wf_id.
  2:{ apply WFc_app; [assumption|]. apply WFc_repeat_narrow; cbn; lia. }
  set (newrow := P ++ repeat (erase_cell t) (Z.to_nat (t_cols t - zlen P))).
  destruct HF as (F1 & F2 & F3 & F4 & F5 & F6 & F7 & F8).
  split; [|split; [|split]].
  - cbn. apply get_set_row_same. lia.
  - unfold SameFrame. cbn. repeat split; auto.
    + rewrite zlen_set_row by lia. auto.
    + intros y' Hne. rewrite get_set_row_other by lia. auto.
  - unfold SameModes. cbn. auto.
  - cbn. auto.
Qed.

(* cursor addressing inside the screen *)
Lemma cup_ok t x y : 0 <= x < t_cols t -> 0 <= y < t_rows t -> step t (TCup (y + 1) (x + 1)) = set_pos t x y false.
Proof.
  intros Hx Hy. cbn [step]. unfold arg1, clampz.
  destruct (x + 1 =? 0) eqn:E1; [lia|]. destruct (y + 1 =? 0) eqn:E2; [lia|].
  f_equal; lia.
Qed.

Lemma run_app t a b : run t (a ++ b) = run (run t a) b.
Proof. unfold run. apply fold_left_app. Qed.

Lemma run_cons t k ks : run t (k :: ks) = run (step t k) ks.
Proof. reflexivity. Qed.

Lemma run_nil t : run t [] = t.
Proof. reflexivity. Qed.

(* n backspaces with room on the left *)
Lemma bs_run t n : (Z.of_nat n <= t_x t) ->
  run t (repeat TBs n) = match n with O => t | S _ => set_pos t (t_x t - Z.of_nat n) (t_y t) false end.
Proof.
  revert t. induction n as [|n IH]; intros t H; [reflexivity|].
  cbn [repeat]. rewrite run_cons.
  assert (E : 0 <? t_x t = true) by lia.
  assert (Hs : step t TBs = set_pos t (t_x t - 1) (t_y t) false) by (cbn [step]; now rewrite E).
  rewrite Hs. rewrite IH by (cbn; lia).
  destruct n.
  - f_equal.
  - unfold set_pos; cbn. f_equal. lia.
Qed.

(* ---------- zero-width (combining) characters ---------- *)
Lemma WFc_last_cases P : WFc P ->
  P = [] \/ (exists Q c, P = Q ++ [c] /\ c_w c <> 0 /\ c_w c <> 2 /\ WFc Q)
  \/ (exists Q c d, P = Q ++ [c; d] /\ c_w c = 2 /\ c_w d = 0 /\ WFc Q).
Proof.
  induction 1 as [|c l H0 H2 Hl IH|c c2 l Hc Hc2 Hl IH].
  - left. reflexivity.
  - right. destruct IH as [->|[(Q & c' & -> & A & B & C)|(Q & c' & d & -> & A & B & C)]].
    + left. exists [], c. splits_; auto; try constructor.
    + left. exists (c :: Q), c'. splits_; auto; try (apply WFc_narrow; auto).
    + right. exists (c :: Q), c', d. splits_; auto; try (apply WFc_narrow; auto).
  - right. destruct IH as [->|[(Q & c' & -> & A & B & C)|(Q & c' & d & -> & A & B & C)]].
    + right. exists [], c, c2. splits_; auto; try constructor.
    + left. exists (c :: c2 :: Q), c'. splits_; auto; try (apply WFc_wide; auto).
    + right. exists (c :: c2 :: Q), c', d. splits_; auto; try (apply WFc_wide; auto).
Qed.

Lemma combine_last_nil cp : combine_last [] cp = [].
Proof. reflexivity. Qed.

Lemma combine_last_narrow Q c cp : c_w c <> 0 -> combine_last (Q ++ [c]) cp = Q ++ [add_comb c cp].
Proof.
  intros H. unfold combine_last. rewrite rev_app_distr. cbn [rev app].
  destruct (c_w c =? 0) eqn:E; [lia|]. now rewrite rev_involutive.
Qed.

Lemma combine_last_wide Q c d cp : c_w d = 0 -> combine_last (Q ++ [c; d]) cp = Q ++ [add_comb c cp; d].
Proof.
  intros H. unfold combine_last. rewrite rev_app_distr. cbn [rev app].
  destruct (c_w d =? 0) eqn:E; [|lia]. now rewrite rev_involutive.
Qed.

Lemma zlen_combine_last P cp : WFc P -> zlen (combine_last P cp) = zlen P /\ WFc (combine_last P cp).
Proof.
  intros H. destruct (WFc_last_cases P H) as [->|[(Q & c & -> & A & B & C)|(Q & c & d & -> & A & B & C)]].
  - split; [reflexivity|constructor].
  - rewrite combine_last_narrow by assumption. split; [rewrite !zlen_app; reflexivity|].
    apply WFc_app; [assumption|]. apply WFc_narrow; cbn; auto. constructor.
  - rewrite combine_last_wide by assumption. split; [rewrite !zlen_app; reflexivity|].
    apply WFc_app; [assumption|]. apply WFc_wide; cbn; auto. constructor.
Qed.

Lemma put_zero_ok t0 t y P R cp :
  RowSt t y P R -> SameFrame t0 t y -> 0 <= y < zlen (t_grid t) ->
  RowSt (put t cp 0) y (combine_last P cp) R /\ SameFrame t0 (put t cp 0) y /\ SameModes t (put t cp 0).
Proof.
  intros (Hy & Hrow & Hlen & Hwf & Hpos) HF Hyr.
  pose proof (zlen_nonneg P) as HP0. pose proof (zlen_nonneg R) as HR0.
  change (put t cp 0) with (put_zero t cp). unfold put_zero.
  assert (Hidx : (if t_pending t then t_x t else t_x t - 1) = zlen P - 1).
  { destruct (zlen P <? t_cols t) eqn:E; destruct Hpos as [-> ->]; lia. }
  rewrite Hidx, Hy, Hrow.
  destruct HF as (F1 & F2 & F3 & F4 & F5 & F6 & F7 & F8).
  destruct (WFc_last_cases P Hwf) as [->|[(Q & c & -> & A & B & C)|(Q & c & d & -> & A & B & C)]].
  - change (zlen (@nil cell) - 1) with (-1). cbn [app].
    assert (E : nthz R (-1) = None) by (apply nthz_none; lia). rewrite E, E.
    splits_; auto using SameModes_refl; unfold RowSt, SameFrame; splits_; auto.
  - pose proof (zlen_nonneg Q) as HQ0.
    assert (Ei : zlen (Q ++ [c]) - 1 = zlen Q) by (rewrite zlen_app, zlen_cons, zlen_nil; lia). rewrite Ei.
    assert (En : nthz ((Q ++ [c]) ++ R) (zlen Q) = Some c).
    { rewrite <- app_assoc. rewrite nthz_app_r by lia. replace (zlen Q - zlen Q) with 0 by lia. reflexivity. }
    rewrite En. destruct (c_w c =? 0) eqn:E0; [lia|]. rewrite En.
    assert (Ec : combine_at ((Q ++ [c]) ++ R) (zlen Q) cp = (Q ++ [add_comb c cp]) ++ R).
    { unfold combine_at. rewrite En. rewrite <- !app_assoc. cbn [app].
      rewrite takez_app_exact by reflexivity.
      replace (Q ++ c :: R) with ((Q ++ [c]) ++ R) by (now rewrite <- app_assoc).
      rewrite dropz_app_exact by (rewrite zlen_app, zlen_cons, zlen_nil; lia). reflexivity. }
    rewrite Ec. rewrite combine_last_narrow by assumption.
    set (newrow := (Q ++ [add_comb c cp]) ++ R).
    destruct (zlen_combine_last (Q ++ [c]) cp Hwf) as [Hz Hw']. rewrite combine_last_narrow in Hz, Hw' by assumption.
    splits_.
    + unfold RowSt. cbn. splits_; auto.
      * apply get_set_row_same. lia.
      * rewrite Hz. exact Hlen.
      * rewrite Hz. exact Hpos.
    + unfold SameFrame. cbn. splits_; auto.
      * rewrite zlen_set_row by lia. auto.
      * intros y' Hne. rewrite get_set_row_other by lia. auto.
    + unfold SameModes. cbn. auto.
  - pose proof (zlen_nonneg Q) as HQ0.
    assert (Ei : zlen (Q ++ [c; d]) - 1 = zlen Q + 1) by (rewrite zlen_app, !zlen_cons, zlen_nil; lia). rewrite Ei.
    assert (En1 : nthz ((Q ++ [c; d]) ++ R) (zlen Q + 1) = Some d).
    { rewrite <- app_assoc. rewrite nthz_app_r by lia. replace (zlen Q + 1 - zlen Q) with 1 by lia. reflexivity. }
    assert (En : nthz ((Q ++ [c; d]) ++ R) (zlen Q) = Some c).
    { rewrite <- app_assoc. rewrite nthz_app_r by lia. replace (zlen Q - zlen Q) with 0 by lia. reflexivity. }
    rewrite En1. destruct (c_w d =? 0) eqn:E0; [|lia]. replace (zlen Q + 1 - 1) with (zlen Q) by lia. rewrite En.
    assert (Ec : combine_at ((Q ++ [c; d]) ++ R) (zlen Q) cp = (Q ++ [add_comb c cp; d]) ++ R).
    { unfold combine_at. rewrite En. rewrite <- !app_assoc. cbn [app].
      rewrite takez_app_exact by reflexivity.
      replace (Q ++ c :: d :: R) with ((Q ++ [c]) ++ d :: R) by (now rewrite <- app_assoc).
      rewrite dropz_app_exact by (rewrite zlen_app, zlen_cons, zlen_nil; lia). reflexivity. }
    rewrite Ec. rewrite combine_last_wide by assumption.
    destruct (zlen_combine_last (Q ++ [c; d]) cp Hwf) as [Hz Hw']. rewrite combine_last_wide in Hz, Hw' by assumption.
    splits_.
    + unfold RowSt. cbn. splits_; auto.
      * apply get_set_row_same. lia.
      * rewrite Hz. exact Hlen.
      * rewrite Hz. exact Hpos.
    + unfold SameFrame. cbn. splits_; auto.
      * rewrite zlen_set_row by lia. auto.
      * intros y' Hne. rewrite get_set_row_other by lia. auto.
    + unfold SameModes. cbn. auto.
Qed.
