(* C20 - Scrollable.render on plain grids of cells (C02's reference semantics, Model/CanvasGrid.v):
   geometry of the grid operations, the simulation grid -> sizes-only instance (= Model/Scrollable.s_render), and the
   cell-level statement: the rendered grid is rows [p, p+maxrow) of the wrapped grid cut/padded to maxcol columns. *)
From Coq Require Import ZArith List Bool Lia ZifyBool.
From Urwid Require Import PyBase Canvas CanvasGrid CanvasHeap CanvasFacts CanvasProg CanvasProgH
  ScrollBase scrollable_gen Scrollable ScrollCanvas ScrollableProofs ScrollCanvasProofs.
Import ListNotations.
Open Scope Z_scope.
Arguments Z.add : simpl never. Arguments Z.sub : simpl never. Arguments Z.mul : simpl never.
Arguments Z.ltb : simpl never. Arguments Z.leb : simpl never. Arguments Z.eqb : simpl never.
Arguments Z.min : simpl never. Arguments Z.max : simpl never.

(* a w x h rectangle of cells *)
Definition rect (g : grid) (w h : Z) : Prop := 0 < w /\ 0 < h /\ zlen g = h /\ Forall (fun r : row => zlen r = w) g.

Lemma rect_dims g w h : rect g w h -> gwidth g = w /\ gheight g = h /\ grect g.
Proof.
  intros (Hw & Hh & Hl & F). assert (E : gwidth g = w) by (apply gwidth_of_rows; [lia|exact F]).
  unfold grect, gheight. rewrite E. repeat split; try lia; assumption.
Qed.

Lemma grect_rect g : grect g -> rect g (gwidth g) (gheight g).
Proof. intros (Hh & Hw & F). unfold rect, gheight in *. repeat split; try lia; assumption. Qed.

Lemma repeatz_nonpos {A} (x : A) n : n <= 0 -> repeatz x n = [].
Proof. intros H. unfold repeatz. replace (Z.to_nat n) with O by lia. reflexivity. Qed.

Lemma zlen_blank_row n : zlen (blank_row n) = Z.max 0 n.
Proof. unfold blank_row. apply zlen_repeatz. Qed.

Lemma rect_padr g w h r : rect g w h -> 0 < w + Z.min r 0 -> rect (g_pad_trim_lr g 0 r) (w + r) h.
Proof.
  intros R Hg. destruct (rect_dims _ _ _ R) as (Ew & Eh & _). destruct R as (Hw & Hh & Hl & F).
  unfold rect, g_pad_trim_lr. rewrite Ew, zlen_map. repeat split; try lia.
  apply Forall_map. eapply Forall_impl; [|exact F]. cbn beta. intros R HR.
  rewrite !zlen_app, !zlen_blank_row. unfold g_window. rewrite zlen_trim_cells by lia. lia.
Qed.

Lemma Forall_blank_grid w n : 0 <= w -> Forall (fun r : row => zlen r = w) (blank_grid w n).
Proof. intros Hw. unfold blank_grid. apply Forall_repeatz. rewrite zlen_blank_row. lia. Qed.

Lemma zlen_blank_grid w n : zlen (blank_grid w n) = Z.max 0 n.
Proof. unfold blank_grid. apply zlen_repeatz. Qed.

Lemma rect_padb g w h b : rect g w h -> 0 < h + Z.min b 0 -> rect (g_pad_trim_tb g 0 b) w (h + b).
Proof.
  intros R Hg. destruct (rect_dims _ _ _ R) as (Ew & Eh & _). destruct R as (Hw & Hh & Hl & F).
  unfold rect, g_pad_trim_tb. rewrite Ew, Eh. repeat split; try lia.
  - rewrite !zlen_app, !zlen_blank_grid. rewrite dropz_le0 by lia. rewrite zlen_takez by lia. lia.
  - apply Forall_app. split; [apply Forall_blank_grid; lia|]. apply Forall_app. split; [|apply Forall_blank_grid; lia].
    apply Forall_takez, Forall_dropz, F.
Qed.

Lemma rect_drop g w h t : rect g w h -> 0 <= t < h -> rect (dropz t g) w (h - t).
Proof.
  intros (Hw & Hh & Hl & F) Ht. unfold rect. repeat split; try lia.
  - rewrite zlen_dropz by lia. lia.
  - apply Forall_dropz, F.
Qed.

Lemma rect_take g w h n : rect g w h -> 0 < n <= h -> rect (takez n g) w n.
Proof.
  intros (Hw & Hh & Hl & F) Hn. unfold rect. repeat split; try lia.
  - rewrite zlen_takez by lia. lia.
  - apply Forall_takez, F.
Qed.

Lemma cur_drop g c : cur (g_drop_cursor g c) = inside_canvas (gwidth g) (gheight g) (cur c).
Proof.
  unfold g_drop_cursor, inside_canvas. destruct (cur c) as [[x y]|] eqn:E; [|exact E].
  destruct ((0 <=? x) && (x <? gwidth g) && (0 <=? y) && (y <? gheight g)); [exact E|reflexivity].
Qed.

Lemma cur_translate_00 c : cur (translate_coords c 0 0) = cur c.
Proof. unfold translate_coords. cbn [cur]. destruct (cur c) as [[x y]|]; [|reflexivity]. rewrite !Z.add_0_r. reflexivity. Qed.

(* ------------------------------------------------------------------ grid -> sizes-only instance *)
Definition R_gd (g : gval) (d : dims) : Prop :=
  grect (gg g) /\ d_cols d = gwidth (gg g) /\ d_rows d = gheight (gg g) /\ d_cur d = cur (gco g).

Lemma grid_dims_sim st maxcol maxrow sel fc g d st' g' :
  R_gd g d ->
  render_skel grid_ops st maxcol maxrow sel fc g = Ok (st', g') ->
  exists d', render_skel dims_ops st maxcol maxrow sel fc d = Ok (st', d') /\ R_gd g' d'.
Proof.
  apply (skel_sim grid_ops dims_ops R_gd); unfold R_gd;
    cbn [grid_ops dims_ops o_cols o_rows o_cursor o_padr o_padb o_trim o_trim_end o_nocursor].
  - intros a b (_ & E & _). symmetry. exact E.
  - intros a b (_ & _ & E & _). symmetry. exact E.
  - intros a b (_ & _ & _ & E). symmetry. exact E.
  - intros a b r a' (G & Ec & Er & Eu) H. apply gguard_ok in H. destruct H as (_ & Hg & ->).
    pose proof (grect_rect _ G) as Rc. pose proof (rect_padr (gg a) (gwidth (gg a)) (gheight (gg a)) r Rc ltac:(lia)) as R'.
    destruct (rect_dims _ _ _ R') as (Ew' & Eh' & G'). cbn [gg gco].
    destruct (0 <? r) eqn:E1.
    + eexists. split; [reflexivity|]. cbn [d_cols d_rows d_cur]. replace (r <? 0) with false by lia.
      rewrite cur_translate_00. split; [exact G'|]. split; [lia|]. split; [lia|]. exact Eu.
    + destruct (r <? 0) eqn:E2.
      * eexists. split; [reflexivity|]. cbn [d_cols d_rows d_cur]. rewrite cur_drop, cur_translate_00, Ew', Eh', Ec, Er, Eu.
        split; [exact G'|]. split; [lia|]. split; [lia|]. reflexivity.
      * eexists. split; [reflexivity|]. rewrite cur_translate_00. split; [exact G'|]. split; [lia|]. split; [lia|]. exact Eu.
  - intros a b bo a' (G & Ec & Er & Eu) H. apply gguard_ok in H. destruct H as (_ & Hg & ->).
    pose proof (grect_rect _ G) as Rc. pose proof (rect_padb (gg a) (gwidth (gg a)) (gheight (gg a)) bo Rc ltac:(lia)) as R'.
    destruct (rect_dims _ _ _ R') as (Ew' & Eh' & G'). cbn [gg gco].
    eexists. split; [reflexivity|]. cbn [d_cols d_rows d_cur]. split; [exact G'|]. split; [lia|]. split; [lia|].
    unfold g_padtb_coords. replace ((0 <? 0) || (bo <? 0)) with (bo <? 0) by (destruct (bo <? 0); reflexivity).
    replace (0 <? 0) with false by lia. destruct (bo <? 0) eqn:E.
    + rewrite cur_drop. replace (Z.max 0 (- 0)) with 0 by lia. rewrite cur_translate_00, Eu.
      assert (Et : takez (gheight (gg a) - 0 - Z.max 0 (- bo)) (dropz 0 (gg a)) = g_pad_trim_tb (gg a) 0 bo).
      { unfold g_pad_trim_tb. replace (Z.max 0 0) with 0 by lia. replace (Z.max 0 bo) with 0 by lia.
        replace (Z.max 0 (- 0)) with 0 by lia. unfold blank_grid. rewrite !repeatz_nonpos by lia. cbn [app]. rewrite app_nil_r. reflexivity. }
      rewrite Et, Ew', Eh', Ec, Er. reflexivity.
    + exact Eu.
  - intros a b t a' (G & Ec & Er & Eu) H. apply gguard_ok in H. destruct H as (_ & Hg & ->).
    pose proof (grect_rect _ G) as Rc. pose proof (rect_drop (gg a) (gwidth (gg a)) (gheight (gg a)) t Rc ltac:(lia)) as R'.
    destruct (rect_dims _ _ _ R') as (Ew' & Eh' & G'). cbn [gg gco g_trim] in *.
    replace (d_rows b <=? t) with false by lia.
    eexists. split; [reflexivity|]. cbn [d_cols d_rows d_cur]. split; [exact G'|]. split; [lia|]. split; [lia|].
    rewrite cur_drop, Ew', Eh', Ec, Er, Eu. unfold translate_coords. cbn [cur].
    destruct (cur (gco a)) as [[x y]|]; [|reflexivity]. rewrite Z.add_0_r. reflexivity.
  - intros a b e a' (G & Ec & Er & Eu) H. apply gguard_ok in H. destruct H as (_ & Hg & ->).
    pose proof (grect_rect _ G) as Rc. pose proof (rect_take (gg a) (gwidth (gg a)) (gheight (gg a)) (gheight (gg a) - e) Rc ltac:(lia)) as R'.
    destruct (rect_dims _ _ _ R') as (Ew' & Eh' & G'). cbn [gg gco] in *.
    replace (d_rows b <? e) with false by lia.
    eexists. split; [reflexivity|]. cbn [d_cols d_rows d_cur]. split; [exact G'|]. split; [lia|]. split; [lia|].
    rewrite cur_drop, Ew', Eh', Ec, Er, Eu. reflexivity.
  - intros a b a' (G & Ec & Er & Eu) H. apply gguard_ok in H. destruct H as (_ & Hg & ->).
    eexists. split; [reflexivity|]. cbn [gg gco d_cols d_rows d_cur cur]. split; [exact G|]. split; [exact Ec|]. split; [exact Er|]. reflexivity.
Qed.

(* ------------------------------------------------------------------ the sizes-only instance, hence s_render, from grids *)
Definition ob_of_grid (gv : gval) (sel : bool) : cobs :=
  CObs (gwidth (gg gv)) (gheight (gg gv)) (cur (gco gv)) sel.

Theorem sg_render_is_s_render st maxcol maxrow sel gv st' g' :
  grect (gg gv) ->
  sg_render st maxcol maxrow sel gv = Ok (st', g') ->
  exists v,
    s_render st maxcol maxrow (ob_of_grid gv sel) = Ok (st', v) /\
    gwidth (gg g') = gwidth (gg gv) - v_trimr v + v_padr v /\
    gheight (gg g') = v_shown v + v_blank v /\
    cur (gco g') = v_cursor v /\ grect (gg g').
Proof.
  intros G H. unfold sg_render in H.
  assert (R0 : R_gd (GV (gg gv) (gco gv) false false) (dims_of (ob_of_grid gv sel))).
  { unfold R_gd, dims_of, ob_of_grid. cbn [gg gco d_cols d_rows d_cur c_cols c_rows c_cursor]. auto. }
  destruct (grid_dims_sim st maxcol maxrow sel _ _ _ st' g' R0 H) as (d' & E & G' & Ec & Er & Eu).
  pose proof (dims_is_s_render st maxcol maxrow (ob_of_grid gv sel)) as D.
  change (c_selectable (ob_of_grid gv sel)) with sel in D.
  change (c_cursor (ob_of_grid gv sel)) with (cur (gco gv)) in D.
  rewrite E in D.
  destruct (s_render st maxcol maxrow _) as [[st2 v]|]; [|discriminate].
  injection D as <- ->. exists v. split; [reflexivity|]. unfold dims_of_view in *. cbn [d_cols d_rows d_cur] in *.
  change (c_cols (ob_of_grid gv sel)) with (gwidth (gg gv)) in Ec.
  split; [symmetry; exact Ec|]. split; [symmetry; exact Er|]. split; [symmetry; exact Eu|exact G'].
Qed.

(* ------------------------------------------------------------------ (E) the rendered grid, cell for cell *)
Definition gclean (g : grid) : Prop := Forall (fun r : row => row_cleanb r = true) g.

Lemma window_blank w n : 0 <= n <= w -> g_window (blank_row w) 0 n = blank_row n.
Proof.
  intros H. unfold g_window.
  assert (T : takez (n - 0) (dropz 0 (blank_row w)) = blank_row n).
  { rewrite dropz_le0 by lia. unfold blank_row. rewrite takez_repeatz by lia. f_equal. lia. }
  pose proof (trim_cells_all (blank_row n) (row_clean_blank n)) as A.
  unfold trim_cells in *. rewrite T. rewrite zlen_blank_row in A. replace (Z.max 0 n - 0) with n in A by lia.
  rewrite dropz_le0 in A by lia. rewrite takez_all in A by (rewrite zlen_blank_row; lia). exact A.
Qed.

Lemma takez_map {A B} (f : A -> B) n l : takez n (map f l) = map f (takez n l).
Proof. unfold takez. apply firstn_map. Qed.
Lemma dropz_map {A B} (f : A -> B) n l : dropz n (map f l) = map f (dropz n l).
Proof. unfold dropz. apply skipn_map. Qed.

Lemma blank_row_0 : blank_row 0 = [].
Proof. reflexivity. Qed.
Lemma blank_grid_nonpos w n : n <= 0 -> blank_grid w n = [].
Proof. intros. unfold blank_grid. apply repeatz_nonpos. assumption. Qed.

(* the grid operations, in the shapes render uses them *)
Lemma step_padr gv w h r :
  gfin gv = false -> rect (gg gv) w h -> 0 < r ->
  o_padr grid_ops gv r =
    Ok (GV (map (fun R : row => g_window R 0 w ++ blank_row r) (gg gv)) (translate_coords (gco gv) 0 0) false false).
Proof.
  intros F R Hr. destruct (rect_dims _ _ _ R) as (Ew & Eh & _). destruct R as (Hw & _).
  cbn [grid_ops o_padr]. unfold gguard. rewrite F. cbn [negb andb]. replace (0 <? gwidth (gg gv) + Z.min r 0) with true by lia.
  replace (r <? 0) with false by lia. f_equal. f_equal. unfold g_pad_trim_lr. rewrite Ew. apply map_ext. intros R0.
  replace (Z.max 0 0) with 0 by lia. replace (Z.max 0 (- 0)) with 0 by lia. replace (Z.max 0 (- r)) with 0 by lia.
  replace (Z.max 0 r) with r by lia. rewrite blank_row_0, Z.sub_0_r. reflexivity.
Qed.

Lemma step_trimr gv w h tr :
  gfin gv = false -> rect (gg gv) w h -> 0 < tr < w ->
  exists co, o_padr grid_ops gv (- tr) = Ok (GV (map (fun R : row => g_window R 0 (w - tr)) (gg gv)) co false false).
Proof.
  intros F R Hr. destruct (rect_dims _ _ _ R) as (Ew & Eh & _).
  cbn [grid_ops o_padr]. unfold gguard. rewrite F. cbn [negb andb]. replace (0 <? gwidth (gg gv) + Z.min (- tr) 0) with true by lia.
  eexists. f_equal. f_equal. unfold g_pad_trim_lr. rewrite Ew. apply map_ext. intros R0.
  replace (Z.max 0 0) with 0 by lia. replace (Z.max 0 (- 0)) with 0 by lia. replace (Z.max 0 (- - tr)) with tr by lia.
  replace (Z.max 0 (- tr)) with 0 by lia. rewrite blank_row_0, app_nil_r. reflexivity.
Qed.

Lemma step_padb gv w h b :
  gfin gv = false -> rect (gg gv) w h -> 0 < b ->
  o_padb grid_ops gv b = Ok (GV (gg gv ++ blank_grid w b) (gco gv) false false).
Proof.
  intros F R Hb. destruct (rect_dims _ _ _ R) as (Ew & Eh & _). destruct R as (_ & Hh & Hl & _).
  cbn [grid_ops o_padb]. unfold gguard. rewrite F. cbn [negb andb]. replace (0 <? gheight (gg gv) + Z.min b 0) with true by lia.
  f_equal. f_equal.
  - unfold g_pad_trim_tb. rewrite Ew, Eh. replace (Z.max 0 0) with 0 by lia. replace (Z.max 0 (- 0)) with 0 by lia.
    replace (Z.max 0 (- b)) with 0 by lia. replace (Z.max 0 b) with b by lia.
    rewrite (blank_grid_nonpos w 0) by lia. rewrite dropz_le0 by lia. rewrite takez_all by lia. reflexivity.
  - unfold g_padtb_coords. replace ((0 <? 0) || (b <? 0)) with false by lia. replace (0 <? 0) with false by lia. reflexivity.
Qed.

Lemma step_trim gv w h t :
  gfin gv = false -> rect (gg gv) w h -> 0 <= t < h ->
  exists co, o_trim grid_ops gv t = Ok (GV (dropz t (gg gv)) co false false).
Proof.
  intros F R Ht. destruct (rect_dims _ _ _ R) as (Ew & Eh & _).
  cbn [grid_ops o_trim]. unfold gguard. rewrite F. cbn [negb andb]. replace ((0 <=? t) && (t <? gheight (gg gv))) with true by lia.
  eexists. reflexivity.
Qed.

Lemma step_trim_end gv w h e :
  gfin gv = false -> rect (gg gv) w h -> 0 < e < h ->
  exists co, o_trim_end grid_ops gv e = Ok (GV (takez (h - e) (gg gv)) co false false).
Proof.
  intros F R He. destruct (rect_dims _ _ _ R) as (Ew & Eh & _).
  cbn [grid_ops o_trim_end]. unfold gguard. rewrite F. cbn [negb andb]. replace ((0 <? e) && (e <? gheight (gg gv))) with true by lia.
  rewrite Eh. eexists. reflexivity.
Qed.

Lemma step_nocursor gv c : gfin gv = false -> exists gv', when c (o_nocursor grid_ops) gv = Ok gv' /\ gg gv' = gg gv /\ gfin gv' = false.
Proof.
  intros F. unfold when. destruct c; [|exists gv; auto].
  cbn [grid_ops o_nocursor]. unfold gguard. rewrite F. cbn [negb andb]. eexists. split; [reflexivity|]. split; reflexivity.
Qed.

Definition row_fit (w maxcol : Z) (R : row) : row :=
  g_window R 0 (Z.min w maxcol) ++ blank_row (Z.max 0 (maxcol - w)).

Lemma spec_grid_eq g p maxcol maxrow :
  spec_grid g p maxcol maxrow =
  map (row_fit (gwidth g) maxcol) (takez maxrow (dropz p g)) ++ blank_grid maxcol (Z.max 0 (maxrow - gheight g)).
Proof. reflexivity. Qed.

Lemma row_fit_exact w R : zlen R = w -> row_cleanb R = true -> row_fit w w R = R.
Proof.
  intros Hl Hc. unfold row_fit, g_window. replace (Z.min w w) with (zlen R) by lia. rewrite trim_cells_all by exact Hc.
  replace (Z.max 0 (w - w)) with 0 by lia. rewrite blank_row_0. apply app_nil_r.
Qed.

Theorem sg_render_spec st maxcol maxrow sel g co fi lf :
  1 <= maxrow -> 1 <= maxcol -> grect g -> gclean g -> cursor_ok (cur co) (gheight g) ->
  exists st' g',
    sg_render st maxcol maxrow sel (GV g co fi lf) = Ok (st', g') /\
    gg g' = spec_grid g (trim_top st') maxcol maxrow /\
    0 <= trim_top st' <= Z.max 0 (gheight g - maxrow).
Proof.
  intros Hmr Hmc G Cl Hcur. pose proof (grect_rect _ G) as R. set (w := gwidth g) in *. set (h := gheight g) in *.
  pose proof R as (Hw & Hh & Hl & Fw).
  unfold sg_render. cbn [gg gco]. set (gv0 := GV g co false false).
  unfold render_skel.
  change (o_cols grid_ops gv0) with w. change (o_rows grid_ops gv0) with h.
  (* step 1: pad on the right *)
  set (g1 := if w <=? maxcol then map (row_fit w maxcol) g else g).
  set (w1 := Z.max w maxcol).
  assert (S1 : exists gv1, when ((w <=? maxcol) && (0 <? maxcol - w)) (fun c => o_padr grid_ops c (maxcol - w)) gv0 = Ok gv1 /\
                           gfin gv1 = false /\ gg gv1 = g1 /\ cur (gco gv1) = cur co /\ rect g1 w1 h).
  { unfold when. destruct ((w <=? maxcol) && (0 <? maxcol - w)) eqn:B1.
    - rewrite (step_padr gv0 w h (maxcol - w) eq_refl R ltac:(lia)). eexists. split; [reflexivity|]. cbn [gfin gg gco].
      split; [reflexivity|]. subst g1. replace (w <=? maxcol) with true by lia.
      assert (E : map (fun R0 : row => g_window R0 0 w ++ blank_row (maxcol - w)) g = map (row_fit w maxcol) g).
      { apply map_ext. intros R0. unfold row_fit. replace (Z.min w maxcol) with w by lia. replace (Z.max 0 (maxcol - w)) with (maxcol - w) by lia. reflexivity. }
      split; [exact E|]. split; [apply cur_translate_00|].
      rewrite <- E. pose proof (rect_padr g w h (maxcol - w) R ltac:(lia)) as R1. unfold g_pad_trim_lr in R1.
      fold w in R1. subst w1. replace (Z.max w maxcol) with (w + (maxcol - w)) by lia.
      assert (E2 : map (fun R0 : row => blank_row (Z.max 0 0) ++ g_window R0 (Z.max 0 (- 0)) (w - Z.max 0 (- (maxcol - w))) ++ blank_row (Z.max 0 (maxcol - w))) g
                   = map (fun R0 : row => g_window R0 0 w ++ blank_row (maxcol - w)) g).
      { apply map_ext. intros R0. replace (Z.max 0 0) with 0 by lia. replace (Z.max 0 (- 0)) with 0 by lia.
        replace (Z.max 0 (- (maxcol - w))) with 0 by lia. replace (Z.max 0 (maxcol - w)) with (maxcol - w) by lia.
        rewrite blank_row_0, Z.sub_0_r. reflexivity. }
      rewrite E2 in R1. exact R1.
    - exists gv0. split; [reflexivity|]. split; [reflexivity|]. cbn [gv0 gg gco]. subst g1 w1.
      destruct (w <=? maxcol) eqn:Ew.
      + assert (w = maxcol) by lia. subst maxcol.
        assert (E : map (row_fit w w) g = g).
        { rewrite <- (map_id g) at 2. apply map_ext_in. intros R0 HR. unfold gclean in Cl. rewrite Forall_forall in Cl, Fw.
          apply row_fit_exact; [apply Fw; exact HR|apply Cl; exact HR]. }
        rewrite E. split; [reflexivity|]. split; [reflexivity|]. replace (Z.max w w) with w by lia. exact R.
      + split; [reflexivity|]. split; [reflexivity|]. replace (Z.max w maxcol) with w by lia. exact R. }
  destruct S1 as (gv1 & E1 & F1 & G1 & C1 & R1). rewrite E1.
  (* step 2: pad at the bottom *)
  set (g2 := g1 ++ blank_grid w1 (Z.max 0 (maxrow - h))).
  set (h2 := Z.max h maxrow).
  assert (S2 : exists gv2, when ((h <=? maxrow) && (0 <? maxrow - h)) (fun c => o_padb grid_ops c (maxrow - h)) gv1 = Ok gv2 /\
                           gfin gv2 = false /\ gg gv2 = g2 /\ cur (gco gv2) = cur co /\ rect g2 w1 h2).
  { unfold when. rewrite <- G1 in R1. destruct ((h <=? maxrow) && (0 <? maxrow - h)) eqn:B2.
    - rewrite (step_padb gv1 w1 h (maxrow - h) F1 R1 ltac:(lia)). eexists. split; [reflexivity|]. cbn [gfin gg gco].
      split; [reflexivity|]. subst g2. rewrite G1. replace (Z.max 0 (maxrow - h)) with (maxrow - h) by lia.
      split; [reflexivity|]. split; [exact C1|].
      pose proof (rect_padb (gg gv1) w1 h (maxrow - h) R1 ltac:(lia)) as Rb. unfold g_pad_trim_tb in Rb.
      destruct (rect_dims _ _ _ R1) as (Ew1 & Eh1 & _). rewrite Ew1, Eh1 in Rb.
      replace (Z.max 0 0) with 0 in Rb by lia. replace (Z.max 0 (- 0)) with 0 in Rb by lia.
      replace (Z.max 0 (- (maxrow - h))) with 0 in Rb by lia. replace (Z.max 0 (maxrow - h)) with (maxrow - h) in Rb by lia.
      rewrite (blank_grid_nonpos w1 0) in Rb by lia. rewrite dropz_le0 in Rb by lia.
      rewrite takez_all in Rb by (destruct R1 as (_ & _ & L & _); lia). cbn [app] in Rb. rewrite G1 in Rb.
      subst h2. replace (Z.max h maxrow) with (h + (maxrow - h)) by lia. exact Rb.
    - exists gv1. split; [reflexivity|]. split; [exact F1|]. subst g2 h2.
      rewrite (blank_grid_nonpos w1 (Z.max 0 (maxrow - h))) by lia. rewrite app_nil_r.
      split; [exact G1|]. split; [exact C1|]. replace (Z.max h maxrow) with h by lia. rewrite <- G1. exact R1. }
  destruct S2 as (gv2 & E2 & F2 & G2 & C2 & R2). rewrite E2.
  destruct ((w <=? maxcol) && (h <=? maxrow)) eqn:Hfit.
  - (* everything fits *)
    eexists. eexists. split; [reflexivity|]. cbn [trim_top]. split; [|lia].
    rewrite G2, spec_grid_eq. fold w h. subst g2 g1 w1. replace (w <=? maxcol) with true by lia.
    rewrite dropz_le0 by lia. rewrite takez_all by lia. replace (Z.max w maxcol) with maxcol by lia. reflexivity.
  - (* the render has to trim *)
    change (o_rows grid_ops gv2) with (gheight (gg gv2)). change (o_cursor grid_ops gv2) with (cur (gco gv2)).
    destruct (rect_dims _ _ _ R2) as (Ew2 & Eh2 & _). rewrite G2, Eh2, C2.
    pose proof (adjust_spec (trim_top st) (action st) (old_cursor st) h2 (cur co) maxcol maxrow Hmr
                  ltac:(unfold cursor_ok in *; destruct (cur co) as [[? ?]|]; [subst h2; lia|exact I])) as Ha.
    destruct (adjust_trim_top_gen (trim_top st) (action st) (old_cursor st) h2 (cur co) (maxcol, maxrow)) as [[tp act] old].
    destruct Ha as [_ Htp].
    (* step 3: trim the top *)
    assert (S3 : exists gv3, when (0 <? tp) (fun c => o_trim grid_ops c tp) gv2 = Ok gv3 /\
                             gfin gv3 = false /\ gg gv3 = dropz tp g2 /\ rect (dropz tp g2) w1 (h2 - tp)).
    { unfold when. rewrite <- G2 in R2. destruct (0 <? tp) eqn:Et.
      - destruct (step_trim gv2 w1 h2 tp F2 R2 ltac:(subst h2; lia)) as (co3 & E3). rewrite E3. eexists. split; [reflexivity|].
        cbn [gfin gg]. split; [reflexivity|]. rewrite G2. split; [reflexivity|]. rewrite <- G2. apply (rect_drop (gg gv2) w1 h2 tp); [exact R2|subst h2; lia].
      - exists gv2. split; [reflexivity|]. split; [exact F2|]. assert (tp = 0) by lia. subst tp. rewrite dropz_le0 by lia.
        split; [exact G2|]. rewrite Z.sub_0_r. rewrite <- G2. exact R2. }
    destruct S3 as (gv3 & E3 & F3 & G3 & R3). rewrite E3.
    (* step 4: trim the end *)
    set (g4 := takez maxrow (dropz tp g2)).
    assert (S4 : exists gv4, when (0 <? h - maxrow - tp) (fun c => o_trim_end grid_ops c (h - maxrow - tp)) gv3 = Ok gv4 /\
                             gfin gv4 = false /\ gg gv4 = g4 /\ rect g4 w1 maxrow).
    { unfold when. rewrite <- G3 in R3. destruct (0 <? h - maxrow - tp) eqn:Ee.
      - destruct (step_trim_end gv3 w1 (h2 - tp) (h - maxrow - tp) F3 R3 ltac:(subst h2; lia)) as (co4 & E4). rewrite E4.
        eexists. split; [reflexivity|]. cbn [gfin gg]. split; [reflexivity|]. subst g4. rewrite G3.
        replace (h2 - tp - (h - maxrow - tp)) with maxrow by (subst h2; lia). split; [reflexivity|].
        rewrite <- G3. apply (rect_take (gg gv3) w1 (h2 - tp) maxrow); [exact R3|subst h2; lia].
      - exists gv3. split; [reflexivity|]. split; [exact F3|]. subst g4.
        assert (Hlen : zlen (dropz tp g2) = maxrow).
        { rewrite <- G3. destruct R3 as (_ & _ & L & _). rewrite L. subst h2. lia. }
        rewrite takez_all by lia. split; [exact G3|]. rewrite <- G3.
        replace (rect (gg gv3) w1 maxrow) with (rect (gg gv3) w1 (h2 - tp)) by (f_equal; subst h2; lia). exact R3. }
    destruct S4 as (gv4 & E4 & F4 & G4 & R4). rewrite E4.
    (* step 5: trim on the right *)
    set (g5 := if 0 <? w - maxcol then map (fun R0 : row => g_window R0 0 maxcol) g4 else g4).
    assert (S5 : exists gv5, when (0 <? w - maxcol) (fun c => o_padr grid_ops c (- (w - maxcol))) gv4 = Ok gv5 /\
                             gfin gv5 = false /\ gg gv5 = g5).
    { unfold when. rewrite <- G4 in R4. subst g5. destruct (0 <? w - maxcol) eqn:Er.
      - assert (w1 = w) by (subst w1; lia). 
        destruct (step_trimr gv4 w1 maxrow (w - maxcol) F4 R4 ltac:(lia)) as (co5 & E5). rewrite E5.
        eexists. split; [reflexivity|]. cbn [gfin gg]. split; [reflexivity|]. rewrite G4.
        replace (w1 - (w - maxcol)) with maxcol by lia. reflexivity.
      - exists gv4. split; [reflexivity|]. split; [exact F4|exact G4]. }
    destruct S5 as (gv5 & E5 & F5 & G5). rewrite E5.
    destruct (step_nocursor gv5 (match o_cursor grid_ops gv5 with Some (_, y) => (maxrow <=? y) || (y <? 0) | None => false end) F5)
      as (gv6 & E6 & G6 & F6).
    rewrite E6. eexists. eexists. split; [reflexivity|]. cbn [trim_top].
    split; [|subst h2; lia].
    rewrite G6, G5, spec_grid_eq. fold w h. subst g5 g4 g2 g1 w1.
    destruct (w <=? maxcol) eqn:Ew.
    + (* not wider than the view: then it is higher *)
      assert (Hh' : maxrow < h) by lia.
      replace (0 <? w - maxcol) with false by lia.
      rewrite (blank_grid_nonpos _ (Z.max 0 (maxrow - h))) by lia. rewrite (blank_grid_nonpos maxcol (Z.max 0 (maxrow - h))) by lia.
      rewrite !app_nil_r. rewrite dropz_map, takez_map. reflexivity.
    + replace (0 <? w - maxcol) with true by lia. replace (Z.max w maxcol) with w by lia.
      assert (Ef : forall R0, row_fit w maxcol R0 = g_window R0 0 maxcol).
      { intros R0. unfold row_fit. replace (Z.min w maxcol) with maxcol by lia. replace (Z.max 0 (maxcol - w)) with 0 by lia.
        rewrite blank_row_0. apply app_nil_r. }
      rewrite (map_ext _ _ Ef).
      destruct (Z_lt_le_dec maxrow h) as [Hhi|Hlo].
      * rewrite (blank_grid_nonpos _ (Z.max 0 (maxrow - h))) by lia. rewrite (blank_grid_nonpos maxcol (Z.max 0 (maxrow - h))) by lia.
        rewrite !app_nil_r. reflexivity.
      * assert (tp = 0) by (subst h2; lia). subst tp. rewrite !dropz_le0 by lia.
        replace (Z.max 0 (maxrow - h)) with (maxrow - h) by lia.
        rewrite (takez_all maxrow g) by lia.
        rewrite takez_all by (rewrite zlen_app, zlen_blank_grid; lia).
        rewrite map_app. f_equal. unfold blank_grid. rewrite map_repeatz. f_equal. apply window_blank. lia.
Qed.
