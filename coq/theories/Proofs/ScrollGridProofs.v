(* C20 - Scrollable.render on plain grids of cells (C02's reference semantics, Model/CanvasGrid.v):
   geometry of the grid operations, the simulation grid -> sizes-only instance (= Model/Scrollable.s_render), and the
   cell-level statement: the rendered grid is rows [p, p+maxrow) of the wrapped grid cut/padded to maxcol columns. *)
From Coq Require Import ZArith List Bool Lia ZifyBool.
From Urwid Require Import PyBase Canvas CanvasGrid CanvasHeap CanvasFacts CanvasProg
  ScrollBase scrollable_gen Scrollable ScrollCanvas ScrollableProofs ScrollCanvasProofs.
Import ListNotations.
Open Scope Z_scope.
Arguments Z.add : simpl never. Arguments Z.sub : simpl never. Arguments Z.mul : simpl never.
Arguments Z.ltb : simpl never. Arguments Z.leb : simpl never. Arguments Z.eqb : simpl never.
Arguments Z.min : simpl never. Arguments Z.max : simpl never.

(* a w x h rectangle of cells *)
Definition rect (g : grid) (w h : Z) : Prop := 0 < w /\ 0 < h /\ zlen g = h /\ Forall (fun r : row => zlen r = w) g.

Lemma rect_dims g w h : rect g w h -> gwidth g = w /\ gheight g = h /\ grect g.
Proof.
  intros (Hw & Hh & Hl & F). assert (E : gwidth g = w) by (apply gwidth_of_rows; [lia|exact F]).
  unfold grect, gheight. rewrite E. repeat split; try lia; assumption.
Qed.

Lemma grect_rect g : grect g -> rect g (gwidth g) (gheight g).
Proof. intros (Hh & Hw & F). unfold rect, gheight in *. repeat split; try lia; assumption. Qed.

Lemma repeatz_nonpos {A} (x : A) n : n <= 0 -> repeatz x n = [].
Proof. intros H. unfold repeatz. replace (Z.to_nat n) with O by lia. reflexivity. Qed.

Lemma zlen_blank_row n : zlen (blank_row n) = Z.max 0 n.
Proof. unfold blank_row. apply zlen_repeatz. Qed.

Lemma rect_padr g w h r : rect g w h -> 0 < w + Z.min r 0 -> rect (g_pad_trim_lr g 0 r) (w + r) h.
Proof.
  intros R Hg. destruct (rect_dims _ _ _ R) as (Ew & Eh & _). destruct R as (Hw & Hh & Hl & F).
  unfold rect, g_pad_trim_lr. rewrite Ew, zlen_map. repeat split; try lia.
  apply Forall_map. eapply Forall_impl; [|exact F]. cbn beta. intros R HR.
  rewrite !zlen_app, !zlen_blank_row. unfold g_window. rewrite zlen_trim_cells by lia. lia.
Qed.

Lemma Forall_blank_grid w n : 0 <= w -> Forall (fun r : row => zlen r = w) (blank_grid w n).
Proof. intros Hw. unfold blank_grid. apply Forall_repeatz. rewrite zlen_blank_row. lia. Qed.

Lemma zlen_blank_grid w n : zlen (blank_grid w n) = Z.max 0 n.
Proof. unfold blank_grid. apply zlen_repeatz. Qed.

Lemma rect_padb g w h b : rect g w h -> 0 < h + Z.min b 0 -> rect (g_pad_trim_tb g 0 b) w (h + b).
Proof.
  intros R Hg. destruct (rect_dims _ _ _ R) as (Ew & Eh & _). destruct R as (Hw & Hh & Hl & F).
  unfold rect, g_pad_trim_tb. rewrite Ew, Eh. repeat split; try lia.
  - rewrite !zlen_app, !zlen_blank_grid. rewrite dropz_le0 by lia. rewrite zlen_takez by lia. lia.
  - apply Forall_app. split; [apply Forall_blank_grid; lia|]. apply Forall_app. split; [|apply Forall_blank_grid; lia].
    apply Forall_takez, Forall_dropz, F.
Qed.

Lemma rect_drop g w h t : rect g w h -> 0 <= t < h -> rect (dropz t g) w (h - t).
Proof.
  intros (Hw & Hh & Hl & F) Ht. unfold rect. repeat split; try lia.
  - rewrite zlen_dropz by lia. lia.
  - apply Forall_dropz, F.
Qed.

Lemma rect_take g w h n : rect g w h -> 0 < n <= h -> rect (takez n g) w n.
Proof.
  intros (Hw & Hh & Hl & F) Hn. unfold rect. repeat split; try lia.
  - rewrite zlen_takez by lia. lia.
  - apply Forall_takez, F.
Qed.

Lemma cur_drop g c : cur (g_drop_cursor g c) = inside_canvas (gwidth g) (gheight g) (cur c).
Proof.
  unfold g_drop_cursor, inside_canvas. destruct (cur c) as [[x y]|] eqn:E; [|exact E].
  destruct ((0 <=? x) && (x <? gwidth g) && (0 <=? y) && (y <? gheight g)); [exact E|reflexivity].
Qed.

Lemma cur_translate_00 c : cur (translate_coords c 0 0) = cur c.
Proof. unfold translate_coords. cbn [cur]. destruct (cur c) as [[x y]|]; [|reflexivity]. rewrite !Z.add_0_r. reflexivity. Qed.

(* ------------------------------------------------------------------ grid -> sizes-only instance *)
Definition R_gd (g : gval) (d : dims) : Prop :=
  grect (gg g) /\ d_cols d = gwidth (gg g) /\ d_rows d = gheight (gg g) /\ d_cur d = cur (gco g).

Lemma grid_dims_sim st maxcol maxrow sel fc g d st' g' :
  R_gd g d ->
  render_skel grid_ops st maxcol maxrow sel fc g = Ok (st', g') ->
  exists d', render_skel dims_ops st maxcol maxrow sel fc d = Ok (st', d') /\ R_gd g' d'.
Proof.
  apply (skel_sim grid_ops dims_ops R_gd); unfold R_gd;
    cbn [grid_ops dims_ops o_cols o_rows o_cursor o_padr o_padb o_trim o_trim_end o_nocursor].
  - intros a b (_ & E & _). symmetry. exact E.
  - intros a b (_ & _ & E & _). symmetry. exact E.
  - intros a b (_ & _ & _ & E). symmetry. exact E.
  - intros a b r a' (G & Ec & Er & Eu) H. apply gguard_ok in H. destruct H as (_ & Hg & ->).
    pose proof (grect_rect _ G) as Rc. pose proof (rect_padr (gg a) (gwidth (gg a)) (gheight (gg a)) r Rc ltac:(lia)) as R'.
    destruct (rect_dims _ _ _ R') as (Ew' & Eh' & G'). cbn [gg gco].
    destruct (0 <? r) eqn:E1.
    + eexists. split; [reflexivity|]. cbn [d_cols d_rows d_cur]. replace (r <? 0) with false by lia.
      rewrite cur_translate_00. split; [exact G'|]. split; [lia|]. split; [lia|]. exact Eu.
    + destruct (r <? 0) eqn:E2.
      * eexists. split; [reflexivity|]. cbn [d_cols d_rows d_cur]. rewrite cur_drop, cur_translate_00, Ew', Eh', Ec, Er, Eu.
        split; [exact G'|]. split; [lia|]. split; [lia|]. reflexivity.
      * eexists. split; [reflexivity|]. rewrite cur_translate_00. split; [exact G'|]. split; [lia|]. split; [lia|]. exact Eu.
  - intros a b bo a' (G & Ec & Er & Eu) H. apply gguard_ok in H. destruct H as (_ & Hg & ->).
    pose proof (grect_rect _ G) as Rc. pose proof (rect_padb (gg a) (gwidth (gg a)) (gheight (gg a)) bo Rc ltac:(lia)) as R'.
    destruct (rect_dims _ _ _ R') as (Ew' & Eh' & G'). cbn [gg gco].
    eexists. split; [reflexivity|]. cbn [d_cols d_rows d_cur]. split; [exact G'|]. split; [lia|]. split; [lia|].
    unfold g_padtb_coords. replace ((0 <? 0) || (bo <? 0)) with (bo <? 0) by (destruct (bo <? 0); reflexivity).
    replace (0 <? 0) with false by lia. destruct (bo <? 0) eqn:E.
    + rewrite cur_drop. replace (Z.max 0 (- 0)) with 0 by lia. rewrite cur_translate_00, Eu.
      assert (Et : takez (gheight (gg a) - 0 - Z.max 0 (- bo)) (dropz 0 (gg a)) = g_pad_trim_tb (gg a) 0 bo).
      { unfold g_pad_trim_tb. replace (Z.max 0 0) with 0 by lia. replace (Z.max 0 bo) with 0 by lia.
        replace (Z.max 0 (- 0)) with 0 by lia. unfold blank_grid. rewrite !repeatz_nonpos by lia. cbn [app]. rewrite app_nil_r. reflexivity. }
      rewrite Et, Ew', Eh', Ec, Er. reflexivity.
    + exact Eu.
  - intros a b t a' (G & Ec & Er & Eu) H. apply gguard_ok in H. destruct H as (_ & Hg & ->).
    pose proof (grect_rect _ G) as Rc. pose proof (rect_drop (gg a) (gwidth (gg a)) (gheight (gg a)) t Rc ltac:(lia)) as R'.
    destruct (rect_dims _ _ _ R') as (Ew' & Eh' & G'). cbn [gg gco g_trim] in *.
    replace (d_rows b <=? t) with false by lia.
    eexists. split; [reflexivity|]. cbn [d_cols d_rows d_cur]. split; [exact G'|]. split; [lia|]. split; [lia|].
    rewrite cur_drop, Ew', Eh', Ec, Er, Eu. unfold translate_coords. cbn [cur].
    destruct (cur (gco a)) as [[x y]|]; [|reflexivity]. rewrite Z.add_0_r. reflexivity.
  - intros a b e a' (G & Ec & Er & Eu) H. apply gguard_ok in H. destruct H as (_ & Hg & ->).
    pose proof (grect_rect _ G) as Rc. pose proof (rect_take (gg a) (gwidth (gg a)) (gheight (gg a)) (gheight (gg a) - e) Rc ltac:(lia)) as R'.
    destruct (rect_dims _ _ _ R') as (Ew' & Eh' & G'). cbn [gg gco] in *.
    replace (d_rows b <? e) with false by lia.
    eexists. split; [reflexivity|]. cbn [d_cols d_rows d_cur]. split; [exact G'|]. split; [lia|]. split; [lia|].
    rewrite cur_drop, Ew', Eh', Ec, Er, Eu. reflexivity.
  - intros a b a' (G & Ec & Er & Eu) H. apply gguard_ok in H. destruct H as (_ & Hg & ->).
    eexists. split; [reflexivity|]. cbn [gg gco d_cols d_rows d_cur cur]. split; [exact G|]. split; [exact Ec|]. split; [exact Er|]. reflexivity.
Qed.

(* ------------------------------------------------------------------ the sizes-only instance, hence s_render, from grids *)
Definition ob_of_grid (gv : gval) (sel : bool) : cobs :=
  CObs (gwidth (gg gv)) (gheight (gg gv)) (cur (gco gv)) sel.

Theorem sg_render_is_s_render st maxcol maxrow sel gv st' g' :
  grect (gg gv) ->
  sg_render st maxcol maxrow sel gv = Ok (st', g') ->
  exists v,
    s_render st maxcol maxrow (ob_of_grid gv sel) = Ok (st', v) /\
    gwidth (gg g') = gwidth (gg gv) - v_trimr v + v_padr v /\
    gheight (gg g') = v_shown v + v_blank v /\
    cur (gco g') = v_cursor v /\ grect (gg g').
Proof.
  intros G H. unfold sg_render in H.
  destruct (grid_dims_sim st maxcol maxrow sel _ _ (dims_of (ob_of_grid gv sel)) st' g'
              ltac:(unfold R_gd, dims_of, ob_of_grid; cbn; auto) H) as (d' & E & G' & Ec & Er & Eu).
  pose proof (dims_is_s_render st maxcol maxrow (ob_of_grid gv sel)) as D.
  cbn [ob_of_grid c_selectable c_cursor] in D. cbn [ob_of_grid c_cursor] in E. unfold dims_of in E. cbn [ob_of_grid c_cols c_rows c_cursor] in E.
  unfold dims_of in D. cbn [c_cols c_rows c_cursor] in D. rewrite E in D.
  destruct (s_render st maxcol maxrow _) as [[st2 v]|]; [|discriminate].
  injection D as <- ->. exists v. split; [reflexivity|]. unfold dims_of_view in *. cbn [d_cols d_rows d_cur c_cols] in *.
  repeat split; try lia; try assumption. symmetry. exact Eu.
Qed.
