(* C01 - proofs about Model/WidgetDims.v: canvas size laws, the contract of every proved container,
   and the structural induction over widget trees. *)
From Coq Require Import ZArith List Bool Lia ZifyBool.
Import ListNotations.
From Urwid Require Import WidgetDims.
Open Scope Z_scope.

Arguments Z.add : simpl never.
Arguments Z.sub : simpl never.
Arguments Z.mul : simpl never.
Arguments Z.div : simpl never.
Arguments Z.quot : simpl never.
Arguments Z.modulo : simpl never.
Arguments Z.ltb : simpl never.
Arguments Z.leb : simpl never.
Arguments Z.eqb : simpl never.
Arguments Z.min : simpl never.
Arguments Z.max : simpl never.
Arguments Z.opp : simpl never.

(* ------------------------------------------------------------------ the contract *)
Definition inside (d : canv) : Prop :=
  match cur d with None => True | Some (x, y) => 0 <= x < cc d /\ 0 <= y < cr d end.

(* the explicit deviation of the model: not a failure of the widget under consideration *)
Definition soft (e : err) : Prop := e = EStarved.

Definition valid_for (s : sizing) (sz : size) : Prop :=
  match sz with
  | SFixed => s_fixed s = true
  | SFlow c => s_flow s = true /\ 1 <= c
  | SBox c r => s_box s = true /\ 1 <= c /\ 1 <= r
  end.

(* what a canvas must be for the size it was asked for *)
Definition meets (s : sem) (sz : size) (f : bool) (d : canv) : Prop :=
  match sz with
  | SBox c r => cc d = c /\ cr d = r
  | SFlow c => cc d = c /\ m_rows s c f = Ok (cr d)
  | SFixed => m_pack s SFixed f = Ok (cc d, cr d)
  end /\ rect d = true /\ inside d.

(* the box and flow part of the contract, plus what containers need to know about rows()/pack().
   [n] is the least number of rows a flow rendering has: 1 for every bundled leaf, 0 once empty
   containers (Pile([])) are in scope. *)
Record GoodN (n : Z) (s : sem) : Prop := mkGood {
  g_rows : forall c f, s_flow (m_sizing s) = true -> 1 <= c ->
           match m_rows s c f with Ok h => n <= h | Err e => soft e end;
  g_pack : forall c f, s_flow (m_sizing s) = true -> 1 <= c ->
           match m_rows s c f with
           | Ok h => exists w, 0 <= w /\ m_pack s (SFlow c) f = Ok (w, h)
           | Err e => m_pack s (SFlow c) f = Err e
           end;
  g_flow : forall c f, s_flow (m_sizing s) = true -> 1 <= c ->
           match m_render s (SFlow c) f with Ok d => meets s (SFlow c) f d | Err e => soft e end;
  g_box : forall c r f, s_box (m_sizing s) = true -> 1 <= c -> 1 <= r ->
           match m_render s (SBox c r) f with Ok d => meets s (SBox c r) f d | Err e => soft e end;
  (* degenerate sizes are answered by the EStarved marker *)
  g_deg_rows : forall c f, c <= 0 -> m_rows s c f = Err EStarved;
  g_deg_pack : forall c f, c <= 0 -> m_pack s (SFlow c) f = Err EStarved;
  g_deg_render : forall sz f, degenerate sz = true -> m_render s sz f = Err EStarved
}.
Arguments g_rows {n} s _.
Arguments g_pack {n} s _.
Arguments g_flow {n} s _.
Arguments g_box {n} s _.
Arguments g_deg_rows {n} s _.
Arguments g_deg_pack {n} s _.
Arguments g_deg_render {n} s _.
Notation Good := (GoodN 1).

Lemma good_weaken n m s : m <= n -> GoodN n s -> GoodN m s.
Proof.
  intros H G. constructor.
  - intros c f Hs Hc. pose proof (g_rows s G c f Hs Hc) as R. destruct (m_rows s c f); [lia|exact R].
  - apply (g_pack s G).
  - apply (g_flow s G).
  - apply (g_box s G).
  - apply (g_deg_rows s G).
  - apply (g_deg_pack s G).
  - apply (g_deg_render s G).
Qed.

(* ------------------------------------------------------------------ small tactics *)
Ltac dif :=
  match goal with
  | |- context [if ?b then _ else _] => destruct b eqn:?
  | H : context [if ?b then _ else _] |- _ => destruct b eqn:?
  end.

Ltac fin := repeat split; try congruence; try (f_equal; lia); try lia; auto.

Lemma soft_starved : soft EStarved. Proof. reflexivity. Qed.
#[global] Hint Resolve soft_starved : core.

(* ------------------------------------------------------------------ wrappers *)
(* a raw render that produces the right size gives a wrapped render that meets the contract *)
Lemma wrap_flow raw c f (P : canv -> Prop) :
  1 <= c ->
  match raw (SFlow c) f with Ok d => cc d = c /\ P d | Err e => soft e end ->
  match wrap_render raw (SFlow c) f with Ok d => cc d = c /\ P d | Err e => soft e end.
Proof.
  intros Hc H. unfold wrap_render, degenerate.
  replace (c <=? 0) with false by lia.
  destruct (raw (SFlow c) f) as [d|e]; cbn; [|exact H].
  destruct H as [Hd HP]. rewrite Hd, Z.eqb_refl. auto.
Qed.

Lemma wrap_box raw c r f (P : canv -> Prop) :
  1 <= c -> 1 <= r ->
  match raw (SBox c r) f with Ok d => cc d = c /\ cr d = r /\ P d | Err e => soft e end ->
  match wrap_render raw (SBox c r) f with Ok d => cc d = c /\ cr d = r /\ P d | Err e => soft e end.
Proof.
  intros Hc Hr H. unfold wrap_render, degenerate.
  replace ((c <=? 0) || (r <=? 0)) with false by lia.
  destruct (raw (SBox c r) f) as [d|e]; cbn; [|exact H].
  destruct H as [Hd [Hr' HP]]. rewrite Hd, Hr', !Z.eqb_refl. cbn. auto.
Qed.

Lemma wrap_rows_valid raw c f : 1 <= c -> wrap_rows raw c f = raw c f.
Proof. intros; unfold wrap_rows. replace (c <=? 0) with false by lia. reflexivity. Qed.

(* ------------------------------------------------------------------ canvas laws *)
Lemma drop_outside_inside c r cu :
  match drop_outside c r cu with Some (x, y) => 0 <= x < c /\ 0 <= y < r | None => True end.
Proof.
  unfold drop_outside. destruct cu as [[x y]|]; [|exact I].
  destruct ((0 <=? x) && (x <? c) && (0 <=? y) && (y <? r)) eqn:E; [lia|exact I].
Qed.

Lemma pad_lr_nonneg cv l r :
  0 <= l -> 0 <= r ->
  pad_trim_lr cv l r = Ok (mkC (cc cv + l + r) (cr cv) (shift_cur (cur cv) l 0) (rect cv)).
Proof.
  intros. unfold pad_trim_lr. replace ((l <? 0) || (r <? 0)) with false by lia. reflexivity.
Qed.

Lemma inside_pad_lr cv l r :
  0 <= l -> 0 <= r -> inside cv -> inside (mkC (cc cv + l + r) (cr cv) (shift_cur (cur cv) l 0) (rect cv)).
Proof.
  unfold inside. cbn. destruct (cur cv) as [[x y]|]; cbn; [lia|auto].
Qed.

Lemma pad_tb_nonneg cv t b :
  0 <= t -> 0 <= b ->
  exists d, pad_trim_tb cv t b = Ok d /\ cc d = cc cv /\ cr d = cr cv + t + b /\ rect d = rect cv
            /\ (inside cv -> inside d).
Proof.
  intros. unfold pad_trim_tb. replace ((t <? 0) || (b <? 0)) with false by lia. cbn.
  destruct (0 <? t) eqn:?, (0 <? b) eqn:?; eexists; (split; [reflexivity|]); cbn;
    (repeat split; try reflexivity; try lia);
    unfold inside; cbn; destruct (cur cv) as [[x y]|]; cbn; auto; lia.
Qed.

Lemma trim_keep cv top n :
  0 <= top -> top < cr cv -> 1 <= n ->
  exists d, trim cv top (Some n) = Ok d /\ cc d = cc cv /\ cr d = Z.min n (cr cv - top) /\ rect d = rect cv
            /\ inside d.
Proof.
  intros. unfold trim.
  replace (top <? 0) with false by lia. replace (cr cv <=? top) with false by lia.
  replace (n =? 0) with false by lia. replace (n <? 0) with false by lia.
  eexists; split; [reflexivity|]; cbn. repeat split; auto.
  unfold inside; cbn.
  pose proof (drop_outside_inside (cc cv) (Z.min n (cr cv - top)) (shift_cur (cur cv) 0 (- top))) as D.
  destruct (drop_outside (cc cv) (Z.min n (cr cv - top)) (shift_cur (cur cv) 0 (- top))) as [[x y]|]; auto.
Qed.

(* Pile box: pad or trim the stacked canvas to the requested height *)
Lemma pad_tb_to cv r :
  1 <= r -> 0 <= cr cv -> cr cv <> r -> inside cv ->
  exists d, pad_trim_tb cv 0 (r - cr cv) = Ok d /\ cc d = cc cv /\ cr d = r /\ rect d = rect cv /\ inside d.
Proof.
  intros Hr H0 Hne Hin. destruct (Z_lt_ge_dec (cr cv) r) as [Hlt|Hge].
  - destruct (pad_tb_nonneg cv 0 (r - cr cv)) as [d [E [A [B [C D]]]]]; try lia.
    exists d; repeat split; auto; lia.
  - unfold pad_trim_tb. replace ((0 <? 0) || (r - cr cv <? 0)) with true by lia.
    replace (Z.max 0 (- 0)) with 0 by lia.
    replace (cr cv - 0 - Z.max 0 (- (r - cr cv))) with r by lia.
    destruct (trim_keep cv 0 r) as [d [E [A [B [C D]]]]]; try lia.
    rewrite E. cbn. replace (0 <? 0) with false by lia. replace (0 <? r - cr cv) with false by lia.
    exists d; repeat split; auto; lia.
Qed.

(* CanvasCombine *)
Definition all_width (w : Z) (l : list canv) : Prop :=
  Forall (fun c => cc c = w /\ rect c = true /\ 0 <= cr c /\ inside c) l.

Lemma combine_from_spec w0 : forall l row acc,
  all_width w0 l -> cc acc = w0 -> rect acc = true -> row = cr acc -> 0 <= cr acc -> inside acc ->
  let d := combine_from w0 row l acc in
  cc d = w0 /\ cr d = cr acc + fold_right (fun c a => cr c + a) 0 l /\ rect d = true /\ inside d.
Proof.
  induction l as [|c l IH]; intros row acc Hall Hc Hr Hrow H0 Hin; cbn.
  - repeat split; auto; lia.
  - inversion Hall as [|? ? [Hcw [Hcr [Hc0 Hci]]] Hall']; subst.
    specialize (IH (cr acc + cr c)
      (mkC (cc acc) (cr acc + cr c) (later_cur (cur acc) (shift_cur (cur c) 0 (cr acc)))
           (rect acc && rect c && (cc c =? cc acc))) Hall').
    cbn in IH.
    destruct IH as [A [B [C D]]]; auto.
    { rewrite Hr, Hcr, Hcw, Z.eqb_refl. reflexivity. }
    { lia. }
    { unfold inside in *. cbn. destruct (cur c) as [[x y]|]; cbn.
      - lia.
      - destruct (cur acc) as [[x y]|]; auto. lia. }
    repeat split; auto. lia.
Qed.

Lemma combine_spec w l :
  l <> [] -> all_width w l ->
  cc (canvas_combine l) = w /\ cr (canvas_combine l) = fold_right (fun c a => cr c + a) 0 l
  /\ rect (canvas_combine l) = true /\ inside (canvas_combine l).
Proof.
  intros Hne Hall. destruct l as [|c l]; [congruence|]. unfold canvas_combine.
  inversion Hall as [|? ? [Hcw [Hcr [Hc0 Hci]]] Hall']; subst.
  pose proof (combine_from_spec (cc c) (c :: l) 0 (mkC (cc c) 0 None true) Hall eq_refl eq_refl eq_refl
                ltac:(cbn; lia) I) as S.
  cbn in S. cbn. destruct S as [A [B [C D]]]. repeat split; auto.
Qed.

(* ------------------------------------------------------------------ nodes built with mk_node *)
Lemma mk_node_good n sz rows pf render :
  (forall c f, s_flow sz = true -> 1 <= c -> match rows c f with Ok h => n <= h | Err e => soft e end) ->
  (forall c f, s_flow sz = true -> 1 <= c ->
     match render (SFlow c) f with
     | Ok d => cc d = c /\ (rows c f = Ok (cr d) /\ rect d = true /\ inside d)
     | Err e => soft e end) ->
  (forall c r f, s_box sz = true -> 1 <= c -> 1 <= r ->
     match render (SBox c r) f with
     | Ok d => cc d = c /\ cr d = r /\ (rect d = true /\ inside d)
     | Err e => soft e end) ->
  GoodN n (mk_node sz rows pf render).
Proof.
  intros Hrows Hflow Hbox. constructor; cbn [mk_node m_sizing m_rows m_pack m_render].
  - intros c f Hs Hc. rewrite wrap_rows_valid by lia. apply Hrows; auto.
  - intros c f Hs Hc. rewrite wrap_rows_valid by lia. unfold degenerate.
    replace (c <=? 0) with false by lia. unfold default_pack. rewrite Hs.
    rewrite wrap_rows_valid by lia. destruct (rows c f); cbn; [exists c; split; [lia|reflexivity]|reflexivity].
  - intros c f Hs Hc.
    pose proof (wrap_flow render c f (fun d => rows c f = Ok (cr d) /\ rect d = true /\ inside d) Hc (Hflow c f Hs Hc)) as W.
    destruct (wrap_render render (SFlow c) f); [|exact W].
    destruct W as [A [B [C D]]]. unfold meets. cbn [m_rows mk_node]. rewrite wrap_rows_valid by lia. auto.
  - intros c r f Hs Hc Hr.
    pose proof (wrap_box render c r f (fun d => rect d = true /\ inside d) Hc Hr (Hbox c r f Hs Hc Hr)) as W.
    destruct (wrap_render render (SBox c r) f); [|exact W].
    destruct W as [A [B [C D]]]. unfold meets. auto.
  - intros c f Hc. unfold wrap_rows. replace (c <=? 0) with true by lia. reflexivity.
  - intros c f Hc. unfold degenerate. replace (c <=? 0) with true by lia. reflexivity.
  - intros s f Hd. unfold wrap_render. rewrite Hd. reflexivity.
Qed.

(* ------------------------------------------------------------------ AttrMap / LineBox delegation *)
Lemma attr_good n s : GoodN n s -> GoodN n (attr_sem s).
Proof.
  intros G. constructor; cbn [attr_sem m_sizing m_rows m_pack m_render].
  - apply (g_rows s G).
  - apply (g_pack s G).
  - intros c f Hs Hc. pose proof (g_flow s G c f Hs Hc) as H.
    pose proof (wrap_flow (m_render s) c f (fun d => m_rows s c f = Ok (cr d) /\ rect d = true /\ inside d) Hc) as W.
    destruct (m_render s (SFlow c) f) as [d|e] eqn:E.
    + destruct H as [[A B] [C D]]. specialize (W (conj A (conj B (conj C D)))).
      destruct (wrap_render (m_render s) (SFlow c) f); [|exact W].
      destruct W as [A' [B' [C' D']]]. unfold meets; cbn [m_rows attr_sem]. auto.
    + specialize (W H). destruct (wrap_render (m_render s) (SFlow c) f); [|exact W].
      destruct W as [A' [B' [C' D']]]. unfold meets; cbn [m_rows attr_sem]. auto.
  - intros c r f Hs Hc Hr. pose proof (g_box s G c r f Hs Hc Hr) as H.
    pose proof (wrap_box (m_render s) c r f (fun d => rect d = true /\ inside d) Hc Hr) as W.
    destruct (m_render s (SBox c r) f) as [d|e] eqn:E.
    + destruct H as [[A B] [C D]]. specialize (W (conj A (conj B (conj C D)))).
      destruct (wrap_render (m_render s) (SBox c r) f); [|exact W].
      destruct W as [A' [B' [C' D']]]. unfold meets. auto.
    + specialize (W H). destruct (wrap_render (m_render s) (SBox c r) f); [|exact W].
      destruct W as [A' [B' [C' D']]]. unfold meets. auto.
  - apply (g_deg_rows s G).
  - apply (g_deg_pack s G).
  - intros sz f Hd. unfold wrap_render. rewrite Hd. reflexivity.
Qed.

(* ------------------------------------------------------------------ BoxAdapter *)
Lemma boxadapter_good m n s h :
  GoodN m s -> s_box (m_sizing s) = true -> 1 <= h -> n <= 1 -> GoodN n (boxadapter_sem s h).
Proof.
  intros G Hb Hh Hn. unfold boxadapter_sem. apply mk_node_good; cbn [s_flow s_box].
  - intros; lia.
  - intros c f _ Hc. pose proof (g_box s G c h f Hb Hc Hh) as H.
    destruct (m_render s (SBox c h) f); [|exact H].
    destruct H as [[A B] [C D]]. rewrite B. auto.
  - intros; discriminate.
Qed.

(* ------------------------------------------------------------------ Filler *)
Lemma ctbf_nonneg maxrow va ht g mh t b :
  0 <= fst (ctbf maxrow va ht g mh t b) /\ 0 <= snd (ctbf maxrow va ht g mh t b).
Proof.
  unfold ctbf.
  match goal with |- context [let '(x, y) := ?e in _] => destruct e as [t2 b2] end.
  cbn. lia.
Qed.

Lemma int_scale_one v : int_scale v 101 1 = 0.
Proof.
  unfold int_scale. replace (v * (1 - 1) * 2 + (101 - 1)) with 100 by lia. reflexivity.
Qed.

Lemma ctbf_exact h va mh t b :
  0 <= t -> 0 <= b -> ctbf (h + t + b) va (HGiven h) h mh t b = (t, b).
Proof.
  intros Ht Hb. unfold ctbf.
  replace (h + t + b - h - t - b + 1) with 1 by lia. rewrite int_scale_one.
  replace (b + 0) with b by lia. replace (h + t + b - h - b) with t by lia.
  replace ((b <? 0) && (0 <? t)) with false by lia.
  replace ((t <? 0) && (0 <? b)) with false by lia.
  f_equal; lia.
Qed.

Lemma ctbf_given_fit r va h mh t b :
  h <= r ->
  fst (ctbf r va (HGiven h) h mh t b) + snd (ctbf r va (HGiven h) h mh t b) = r - h.
Proof.
  intros Hh. unfold ctbf.
  generalize (int_scale (100 - va) 101 (r - h - t - b + 1)) as k. intros k.
  destruct ((b + k <? 0) && (0 <? r - h - (b + k))) eqn:E1.
  - cbn. lia.
  - destruct ((r - h - (b + k) <? 0) && (0 <? b + k)) eqn:E2; cbn; lia.
Qed.

Lemma ctbf_given_over r va h mh t b :
  r < h -> ctbf r va (HGiven h) h mh t b = (0, 0).
Proof.
  intros Hh. unfold ctbf.
  generalize (int_scale (100 - va) 101 (r - h - t - b + 1)) as k. intros k.
  destruct ((b + k <? 0) && (0 <? r - h - (b + k))) eqn:E1.
  - cbn. f_equal; lia.
  - destruct ((r - h - (b + k) <? 0) && (0 <? b + k)) eqn:E2; cbn; f_equal; lia.
Qed.

Lemma filler_good nn s va ht mh t b :
  GoodN nn s -> nn <= 1 -> filler_child_ok (m_sizing s) ht = true -> 0 <= t -> 0 <= b ->
  GoodN nn (filler_sem s va ht mh t b).
Proof.
  intros G Hn1 Hok Ht Hb. unfold filler_sem. apply mk_node_good.
  - (* rows *)
    intros c f Hs Hc. unfold filler_rows. destruct ht as [n| |pct]; cbn in *.
    + lia.
    + pose proof (g_rows s G c f Hok Hc) as R. destruct (m_rows s c f); cbn; [lia|exact R].
    + discriminate.
  - (* flow *)
    intros c f Hs Hc. unfold filler_render, default_pack. rewrite Hs. rewrite wrap_rows_valid by lia.
    destruct ht as [n| |pct]; cbn [filler_rows filler_values filler_sizing s_flow filler_child_ok] in *; try discriminate.
    + (* given height: box child *)
      cbn. rewrite ctbf_exact by lia. cbn.
      replace (n + t + b - t - b) with n by lia.
      assert (Hbx : s_box (m_sizing s) = true) by lia. assert (Hn : 1 <= n) by lia.
      pose proof (g_box s G c n f Hbx Hc Hn) as B.
      destruct (m_render s (SBox c n) f) as [d|e]; cbn; [|exact B].
      destruct B as [[B1 B2] [B3 B4]].
      replace ((negb (n + t + b =? 0)) && (n + t + b <? cr d)) with false by lia. cbn.
      replace (n + t + b <? cr d) with false by lia.
      destruct (pad_tb_nonneg d t b Ht Hb) as [d' [E [A1 [A2 [A3 A4]]]]]. rewrite E.
      fin.
    + (* pack: flow child *)
      pose proof (g_rows s G c f Hok Hc) as R.
      pose proof (g_flow s G c f Hok Hc) as F.
      destruct (m_rows s c f) as [h|e] eqn:Er; cbn; [|exact R].
      rewrite Er. cbn. rewrite ctbf_exact by lia. cbn.
      destruct (m_render s (SFlow c) f) as [d|e]; cbn; [|exact F].
      destruct F as [[F1 F2] [F3 F4]]. assert (cr d = h) by congruence.
      replace ((negb (h + t + b =? 0)) && (h + t + b <? cr d)) with false by lia. cbn.
      replace (h + t + b <? cr d) with false by lia.
      destruct (pad_tb_nonneg d t b Ht Hb) as [d' [E [A1 [A2 [A3 A4]]]]]. rewrite E.
      fin.
  - (* box *)
    intros c r f Hs Hc Hr. unfold filler_render, default_pack. cbn.
    destruct ht as [n| |pct]; cbn [filler_values filler_child_ok] in *.
    + (* given *)
      pose proof (ctbf_nonneg r va (HGiven n) n mh t b) as [N1 N2].
      destruct (ctbf r va (HGiven n) n mh t b) as [t' b'] eqn:Ec. cbn in N1, N2. cbn.
      destruct (Z_le_gt_dec (r - t' - b') 0) as [Hz|Hz].
      * rewrite (g_deg_render s G (SBox c (r - t' - b')) f); [cbn; auto|]. unfold degenerate. lia.
      * assert (Hbx : s_box (m_sizing s) = true) by lia.
        pose proof (g_box s G c (r - t' - b') f Hbx Hc ltac:(lia)) as B.
        destruct (m_render s (SBox c (r - t' - b')) f) as [d|e]; cbn; [|exact B].
        destruct B as [[B1 B2] [B3 B4]].
        replace ((negb (r =? 0)) && (r <? cr d)) with false by lia. cbn.
        replace (r <? cr d) with false by lia.
        destruct (pad_tb_nonneg d t' b' N1 N2) as [d' [E [A1 [A2 [A3 A4]]]]]. rewrite E.
        fin.
    + (* pack *)
      assert (Hfl : s_flow (m_sizing s) = true) by exact Hok.
      pose proof (g_rows s G c f Hfl Hc) as R.
      pose proof (g_flow s G c f Hfl Hc) as F.
      destruct (m_rows s c f) as [h|e] eqn:Er; cbn; [|exact R].
      destruct (m_render s (SFlow c) f) as [d|e]; cbn.
      2:{ destruct (ctbf r va (HGiven h) h None t b); cbn. exact F. }
      destruct F as [[F1 F2] [F3 F4]]. assert (Hd : cr d = h) by congruence.
      destruct (Z_lt_ge_dec r h) as [Hov|Hfit].
      * (* the child is taller than the space *)
        rewrite ctbf_given_over by lia. cbn.
        replace ((negb (r =? 0)) && (r <? cr d)) with true by lia. cbn.
        unfold inside in F4. destruct (cur d) as [[cx cy]|].
        -- destruct (r <=? cy) eqn:Ecy.
           ++ replace (r - 0 - 0) with r by lia.
              destruct (trim_keep d (cy - r + 1) r) as [d1 [E1 [A1 [A2 [A3 A4]]]]]; try lia.
              rewrite E1. cbn. replace (r <? cr d1) with false by lia.
              destruct (pad_tb_nonneg d1 0 0) as [d2 [E2 [C1 [C2 [C3 C4]]]]]; try lia. rewrite E2.
              fin.
           ++ cbn. replace (r <? cr d) with true by lia.
              destruct (trim_keep d 0 r) as [d1 [E1 [A1 [A2 [A3 A4]]]]]; try lia. rewrite E1.
              fin.
        -- cbn. replace (r <? cr d) with true by lia.
           destruct (trim_keep d 0 r) as [d1 [E1 [A1 [A2 [A3 A4]]]]]; try lia. rewrite E1.
           fin.
      * pose proof (ctbf_given_fit r va h None t b ltac:(lia)) as S.
        pose proof (ctbf_nonneg r va (HGiven h) h None t b) as [N1 N2].
        destruct (ctbf r va (HGiven h) h None t b) as [t' b'] eqn:Ec. cbn in S, N1, N2. cbn.
        replace ((negb (r =? 0)) && (r <? cr d)) with false by lia. cbn.
        replace (r <? cr d) with false by lia.
        destruct (pad_tb_nonneg d t' b' N1 N2) as [d' [E [A1 [A2 [A3 A4]]]]]. rewrite E.
        fin.
    + (* relative *)
      pose proof (ctbf_nonneg r va (HRelative pct) 0 mh t b) as [N1 N2].
      destruct (ctbf r va (HRelative pct) 0 mh t b) as [t' b'] eqn:Ec. cbn in N1, N2. cbn.
      destruct (Z_le_gt_dec (r - t' - b') 0) as [Hz|Hz].
      * rewrite (g_deg_render s G (SBox c (r - t' - b')) f); [cbn; auto|]. unfold degenerate. lia.
      * assert (Hbx : s_box (m_sizing s) = true) by lia.
        pose proof (g_box s G c (r - t' - b') f Hbx Hc ltac:(lia)) as B.
        destruct (m_render s (SBox c (r - t' - b')) f) as [d|e]; cbn; [|exact B].
        destruct B as [[B1 B2] [B3 B4]].
        replace ((negb (r =? 0)) && (r <? cr d)) with false by lia. cbn.
        replace (r <? cr d) with false by lia.
        destruct (pad_tb_nonneg d t' b' N1 N2) as [d' [E [A1 [A2 [A3 A4]]]]]. rewrite E.
        fin.
Qed.

(* ------------------------------------------------------------------ Padding (width given / pack / relative) *)
Lemma clrp_nonneg maxcol align wt g mw l r :
  wt <> WClip ->
  0 <= fst (clrp maxcol align wt g mw l r) /\ 0 <= snd (clrp maxcol align wt g mw l r).
Proof.
  intros Hw. unfold clrp.
  match goal with |- context [let '(x, y) := ?e in _] => destruct e as [l2 r2] end.
  destruct wt; try congruence;
    (destruct ((l2 <? 0) || (r2 <? 0)) eqn:E; cbn; lia).
Qed.

Definition not_clip (wt : wtype) : Prop := wt <> WClip.

(* padding_values on a non-empty size: soft error or non-negative paddings *)
Lemma padding_values_ok nn s align wt mw l r sz f :
  GoodN nn s -> wt <> WClip -> padding_child_ok (m_sizing s) wt = true ->
  (forall c rr, sz = SBox c rr -> wt = WPack -> s_flow (m_sizing s) = true) ->
  (forall c, sz = SFlow c -> wt = WPack -> s_flow (m_sizing s) = true) ->
  sz <> SFixed ->
  match padding_values s align wt mw l r sz f with
  | Ok (L, R) => 0 <= L /\ 0 <= R
  | Err e => soft e
  end.
Proof.
  intros G Hw Hok Hb Hf Hnf. unfold padding_values.
  destruct wt as [n| | |pct]; try congruence.
  - destruct sz; try congruence;
      (match goal with |- context [clrp ?a ?b ?c ?d ?e ?f ?g] =>
         pose proof (clrp_nonneg a b c d e f g ltac:(discriminate)) as [N1 N2];
         destruct (clrp a b c d e f g); cbn in *; auto end).
  - assert (Hfl : s_flow (m_sizing s) = true).
    { destruct sz; try congruence; eauto. }
    assert (K : forall c, match m_pack s (SFlow (Z.max (c - l - r) (omin mw 0))) f with
                          | Ok p => True | Err e => soft e end).
    { intros c. generalize (Z.max (c - l - r) (omin mw 0)) as w0. intros w0.
      destruct (Z_le_gt_dec w0 0) as [Hz|Hz].
      - rewrite (g_deg_pack s G w0 f Hz). auto.
      - assert (H1 : 1 <= w0) by lia.
        pose proof (g_pack s G w0 f Hfl H1) as P. pose proof (g_rows s G w0 f Hfl H1) as R.
        destruct (m_rows s w0 f).
        + destruct P as [w [W0 P]]. rewrite P. exact I.
        + rewrite P. exact R. }
    destruct sz as [|c|c rr]; try congruence.
    + specialize (K c). destruct (m_pack s (SFlow (Z.max (c - l - r) (omin mw 0))) f) as [p|e]; cbn; [|exact K].
      match goal with |- context [clrp ?a ?b ?c ?d ?e ?f ?g] =>
         pose proof (clrp_nonneg a b c d e f g ltac:(discriminate)) as [N1 N2];
         destruct (clrp a b c d e f g); cbn in *; auto end.
    + specialize (K c). destruct (m_pack s (SFlow (Z.max (c - l - r) (omin mw 0))) f) as [p|e]; cbn; [|exact K].
      match goal with |- context [clrp ?a ?b ?c ?d ?e ?f ?g] =>
         pose proof (clrp_nonneg a b c d e f g ltac:(discriminate)) as [N1 N2];
         destruct (clrp a b c d e f g); cbn in *; auto end.
  - destruct sz; try congruence;
      (match goal with |- context [clrp ?a ?b ?c ?d ?e ?f ?g] =>
         pose proof (clrp_nonneg a b c d e f g ltac:(discriminate)) as [N1 N2];
         destruct (clrp a b c d e f g); cbn in *; auto end).
Qed.

Arguments padding_values_ok {nn}.

Lemma padding_sizing_flow cs wt :
  wt <> WClip -> s_flow (padding_sizing cs wt) = true -> s_flow cs = true.
Proof.
  intros Hw. destruct wt; try congruence; cbn; auto.
  destruct (s_flow cs) eqn:E; cbn; auto. intros; congruence.
Qed.
Lemma padding_sizing_box cs wt :
  wt <> WClip -> s_box (padding_sizing cs wt) = true -> s_box cs = true.
Proof.
  intros Hw. destruct wt; try congruence; cbn; auto.
  destruct (s_flow cs) eqn:E; cbn; auto.
Qed.

(* rows of the padded child at the width the padding leaves *)
Definition pad_child_rows (s : sem) (wt : wtype) (w : Z) (f : bool) : res Z :=
  match wt with
  | WPack => let* p := m_pack s (SFlow w) f in Ok (snd p)
  | _ => m_rows s w f
  end.

Lemma pad_child_rows_spec n s wt w f :
  GoodN n s -> s_flow (m_sizing s) = true ->
  match m_rows s w f with
  | Ok h => pad_child_rows s wt w f = Ok h
  | Err e => pad_child_rows s wt w f = Err e
  end.
Proof.
  intros G Hfl. unfold pad_child_rows. destruct wt; try (destruct (m_rows s w f); reflexivity).
  destruct (Z_le_gt_dec w 0) as [Hz|Hz].
  - rewrite (g_deg_rows s G w f Hz), (g_deg_pack s G w f Hz). reflexivity.
  - pose proof (g_pack s G w f Hfl ltac:(lia)) as P. destruct (m_rows s w f).
    + destruct P as [x [X0 P]]. rewrite P. reflexivity.
    + rewrite P. reflexivity.
Qed.

Arguments pad_child_rows_spec {n}.

Lemma padding_good nn s align wt mw l r :
  GoodN nn s -> wt <> WClip -> padding_child_ok (m_sizing s) wt = true -> 0 <= l -> 0 <= r ->
  GoodN nn (padding_sem s align wt mw l r).
Proof.
  intros G Hw Hok Hl Hr. unfold padding_sem. apply mk_node_good.
  - (* rows *)
    intros c f Hs Hc. apply padding_sizing_flow in Hs; auto.
    unfold padding_rows.
    pose proof (padding_values_ok s align wt mw l r (SFlow c) f G Hw Hok
                  ltac:(intros; discriminate) ltac:(intros; exact Hs) ltac:(discriminate)) as V.
    destruct (padding_values s align wt mw l r (SFlow c) f) as [[L R]|e]; cbn; [|exact V].
    assert (Q : match pad_child_rows s wt (c - L - R) f with Ok h => nn <= h | Err e => soft e end).
    { pose proof (pad_child_rows_spec s wt (c - L - R) f G Hs) as S.
      destruct (Z_le_gt_dec (c - L - R) 0) as [Hz|Hz].
      - rewrite (g_deg_rows s G _ f Hz) in S. rewrite S. auto.
      - pose proof (g_rows s G (c - L - R) f Hs ltac:(lia)) as R0.
        destruct (m_rows s (c - L - R) f); rewrite S; exact R0. }
    unfold pad_child_rows in Q. destruct wt; try congruence; exact Q.
  - (* flow *)
    intros c f Hs Hc. apply padding_sizing_flow in Hs; auto.
    unfold padding_render, padding_rows.
    pose proof (padding_values_ok s align wt mw l r (SFlow c) f G Hw Hok
                  ltac:(intros; discriminate) ltac:(intros; exact Hs) ltac:(discriminate)) as V.
    destruct (padding_values s align wt mw l r (SFlow c) f) as [[L R]|e]; cbn; [|exact V].
    destruct V as [V1 V2].
    assert (E : (match wt with
                 | WClip => m_render s SFixed f
                 | _ => m_render s (SFlow (c - (L + R))) f end) = m_render s (SFlow (c - (L + R))) f).
    { destruct wt; try congruence; reflexivity. }
    rewrite E. clear E.
    destruct (Z_le_gt_dec (c - (L + R)) 0) as [Hz|Hz].
    { rewrite (g_deg_render s G (SFlow (c - (L + R))) f); [cbn; auto|]. unfold degenerate. lia. }
    pose proof (g_flow s G (c - (L + R)) f Hs ltac:(lia)) as F.
    destruct (m_render s (SFlow (c - (L + R))) f) as [d|e]; cbn; [|exact F].
    destruct F as [[F1 F2] [F3 F4]].
    replace (cc d =? 0) with false by lia.
    assert (Q : pad_child_rows s wt (c - L - R) f = Ok (cr d)).
    { pose proof (pad_child_rows_spec s wt (c - L - R) f G Hs) as S.
      replace (c - L - R) with (c - (L + R)) in * by lia. rewrite F2 in S. exact S. }
    assert (Q' : (match wt with
                  | WPack => let* p := m_pack s (SFlow (c - L - R)) f in Ok (snd p)
                  | WClip => let* p := m_pack s SFixed f in Ok (snd p)
                  | _ => m_rows s (c - L - R) f end) = Ok (cr d)).
    { unfold pad_child_rows in Q. destruct wt; try congruence; exact Q. }
    destruct ((negb (L =? 0)) || (negb (R =? 0))) eqn:ELR.
    + rewrite pad_lr_nonneg by lia. pose proof (inside_pad_lr d L R V1 V2 F4) as IP. cbn in IP |- *. fin.
    + fin.
  - (* box *)
    intros c rr f Hs Hc Hrr. apply padding_sizing_box in Hs; auto.
    unfold padding_render.
    assert (Hpk : wt = WPack -> s_flow (m_sizing s) = true).
    { intros ->. cbn in Hok. unfold impb in Hok. lia. }
    pose proof (padding_values_ok s align wt mw l r (SBox c rr) f G Hw Hok
                  ltac:(intros; auto) ltac:(intros; discriminate) ltac:(discriminate)) as V.
    destruct (padding_values s align wt mw l r (SBox c rr) f) as [[L R]|e]; cbn; [|exact V].
    destruct V as [V1 V2].
    assert (E : (match wt with
                 | WClip => m_render s SFixed f
                 | _ => m_render s (SBox (c - (L + R)) rr) f end) = m_render s (SBox (c - (L + R)) rr) f).
    { destruct wt; try congruence; reflexivity. }
    rewrite E. clear E.
    destruct (Z_le_gt_dec (c - (L + R)) 0) as [Hz|Hz].
    { rewrite (g_deg_render s G (SBox (c - (L + R)) rr) f); [cbn; auto|]. unfold degenerate. lia. }
    pose proof (g_box s G (c - (L + R)) rr f Hs ltac:(lia) Hrr) as F.
    destruct (m_render s (SBox (c - (L + R)) rr) f) as [d|e]; cbn; [|exact F].
    destruct F as [[F1 F2] [F3 F4]].
    replace (cc d =? 0) with false by lia.
    destruct ((negb (L =? 0)) || (negb (R =? 0))) eqn:ELR.
    + rewrite pad_lr_nonneg by lia. pose proof (inside_pad_lr d L R V1 V2 F4) as IP. cbn in IP |- *. fin.
    + fin.
Qed.

(* ------------------------------------------------------------------ Pile *)
Lemma sumz_fold l : sumz l = fold_right Z.add 0 l.
Proof.
  unfold sumz. assert (H : forall a, fold_left Z.add l a = a + fold_right Z.add 0 l).
  { induction l as [|x l IH]; intros a; cbn; [lia|]. rewrite IH. lia. }
  rewrite H. lia.
Qed.

Definition pile_ok (ps : sizing) (it : pitem) : Prop :=
  pile_child_ok ps (m_sizing (pi_sem it)) (pi_kind it) (pi_amount it) = true.

Definition pgoodN (n : Z) (it : pitem) : Prop := GoodN n (pi_sem it).
Notation pgood := (pgoodN 1).

(* the render size of an item of a flow pile *)
Definition flow_entry_size (c : Z) (it : pitem) : size :=
  match pi_kind it with KGiven => SBox c (pi_amount it) | _ => SFlow c end.
Fixpoint flow_sizes (c : Z) (l : list pitem) (hs : list Z) : list (Z * size) :=
  match l, hs with
  | it :: r, h :: hr => (h, flow_entry_size c it) :: flow_sizes c r hr
  | _, _ => []
  end.

Lemma pile_flow_sizes n all c f fp ps :
  n <= 1 -> 1 <= c -> s_flow ps = true ->
  forall l i ir, Forall (pgoodN n) l -> Forall (pile_ok ps) l ->
  match pile_item_rows_flow l c f fp i with
  | Ok hs => pile_rows_sizes all l (SFlow c) c f fp i ir = Ok (flow_sizes c l hs)
             /\ Forall (fun h => n <= h) hs /\ length hs = length l
  | Err e => soft e /\ pile_rows_sizes all l (SFlow c) c f fp i ir = Err e
  end.
Proof.
  intros Hn1 Hc Hps. induction l as [|it l IH]; intros i ir HG HO; cbn [pile_item_rows_flow pile_rows_sizes].
  - cbn. auto.
  - inversion HG as [|? ? G HG']; subst. inversion HO as [|? ? O HO']; subst.
    unfold pgoodN in G. unfold pile_ok, pile_child_ok in O.
    specialize (IH (i + 1) ir HG' HO').
    destruct (pi_kind it) eqn:K.
    + (* given *)
      cbn. destruct (pile_item_rows_flow l c f fp (i + 1)) as [hs|e]; cbn.
      * destruct IH as [A [B C]]. rewrite A. cbn. unfold flow_entry_size. rewrite K.
        repeat split; auto. constructor; auto. lia.
      * destruct IH as [A B]. rewrite B. cbn. auto.
    + (* pack *)
      assert (Hfl : s_flow (m_sizing (pi_sem it)) = true) by exact O.
      rewrite Hfl. cbn [orb negb].
      pose proof (g_rows _ G c (item_focus f fp i) Hfl Hc) as R.
      pose proof (g_pack _ G c (item_focus f fp i) Hfl Hc) as P.
      destruct (m_rows (pi_sem it) c (item_focus f fp i)) as [h|e]; cbn.
      * destruct P as [w [W0 P]]. rewrite P. cbn.
        destruct (pile_item_rows_flow l c f fp (i + 1)) as [hs|e]; cbn.
        -- destruct IH as [A [B C]]. rewrite A. cbn. unfold flow_entry_size. rewrite K.
           repeat split; auto.
        -- destruct IH as [A B]. rewrite B. cbn. auto.
      * rewrite P. cbn. auto.
    + (* weight *)
      assert (Hfl : s_flow (m_sizing (pi_sem it)) = true).
      { unfold impb in O. rewrite Hps in O. cbn in O. lia. }
      rewrite Hfl. cbn [orb negb].
      pose proof (g_rows _ G c (item_focus f fp i) Hfl Hc) as R.
      pose proof (g_pack _ G c (item_focus f fp i) Hfl Hc) as P.
      destruct (m_rows (pi_sem it) c (item_focus f fp i)) as [h|e]; cbn.
      * destruct P as [w [W0 P]]. rewrite P. cbn.
        destruct (pile_item_rows_flow l c f fp (i + 1)) as [hs|e]; cbn.
        -- destruct IH as [A [B C]]. rewrite A. cbn. unfold flow_entry_size. rewrite K.
           repeat split; auto.
        -- destruct IH as [A B]. rewrite B. cbn. auto.
      * rewrite P. cbn. auto.
Qed.

Lemma pile_flow_render n c f fp ps :
  0 <= n -> 1 <= c -> s_flow ps = true ->
  forall l i hs, Forall (pgoodN n) l -> Forall (pile_ok ps) l ->
  pile_item_rows_flow l c f fp i = Ok hs ->
  match pile_render_items l (flow_sizes c l hs) f fp i with
  | Ok cvs => all_width c cvs
              /\ fold_right (fun d a => cr d + a) 0 cvs = fold_right Z.add 0 hs
  | Err e => soft e
  end.
Proof.
  intros Hn0 Hc Hps. induction l as [|it l IH]; intros i hs HG HO E.
  - cbn in E. inversion E; subst. cbn. repeat split; auto. constructor.
  - inversion HG as [|? ? G HG']; subst. inversion HO as [|? ? O HO']; subst.
    unfold pgoodN in G. unfold pile_ok, pile_child_ok in O.
    cbn [pile_item_rows_flow] in E.
    (* split the bind *)
    match type of E with (let* h := ?m in _) = _ => destruct m as [h|e] eqn:Eh; cbn in E; [|discriminate] end.
    destruct (pile_item_rows_flow l c f fp (i + 1)) as [hr|e] eqn:Er; cbn in E; [|discriminate].
    inversion E; subst hs. clear E.
    specialize (IH (i + 1) hr HG' HO' Er).
    cbn [flow_sizes pile_render_items].
    assert (H1 : 0 <= h /\ (1 <= h ->
                 match m_render (pi_sem it) (flow_entry_size c it) (item_focus f fp i) with
                 | Ok d => cc d = c /\ cr d = h /\ rect d = true /\ inside d
                 | Err e => soft e end)).
    { unfold flow_entry_size. destruct (pi_kind it) eqn:K.
      - inversion Eh; subst h. assert (1 <= pi_amount it) by lia. split; [lia|]. intros _.
        assert (Hb : s_box (m_sizing (pi_sem it)) = true) by lia.
        pose proof (g_box _ G c (pi_amount it) (item_focus f fp i) Hb Hc ltac:(lia)) as B.
        destruct (m_render (pi_sem it) (SBox c (pi_amount it)) (item_focus f fp i)); [|exact B].
        destruct B as [[B1 B2] [B3 B4]]. auto.
      - assert (Hfl : s_flow (m_sizing (pi_sem it)) = true) by exact O.
        rewrite Hfl in Eh.
        pose proof (g_rows _ G c (item_focus f fp i) Hfl Hc) as R. rewrite Eh in R. split; [lia|]. intros _.
        pose proof (g_flow _ G c (item_focus f fp i) Hfl Hc) as F.
        destruct (m_render (pi_sem it) (SFlow c) (item_focus f fp i)); [|exact F].
        destruct F as [[F1 F2] [F3 F4]]. rewrite Eh in F2. inversion F2. auto.
      - assert (Hfl : s_flow (m_sizing (pi_sem it)) = true).
        { unfold impb in O. rewrite Hps in O. cbn in O. lia. }
        rewrite Hfl in Eh.
        pose proof (g_rows _ G c (item_focus f fp i) Hfl Hc) as R. rewrite Eh in R. split; [lia|]. intros _.
        pose proof (g_flow _ G c (item_focus f fp i) Hfl Hc) as F.
        destruct (m_render (pi_sem it) (SFlow c) (item_focus f fp i)); [|exact F].
        destruct F as [[F1 F2] [F3 F4]]. rewrite Eh in F2. inversion F2. auto. }
    destruct H1 as [Hh Hr].
    destruct (0 <? h) eqn:E0.
    + specialize (Hr ltac:(lia)).
      destruct (m_render (pi_sem it) (flow_entry_size c it) (item_focus f fp i)) as [d|e]; cbn; [|exact Hr].
      destruct (pile_render_items l (flow_sizes c l hr) f fp (i + 1)) as [cvs|e]; cbn; [|exact IH].
      destruct IH as [A B]. destruct Hr as [R1 [R2 [R3 R4]]].
      split.
      * constructor; auto. repeat split; auto. lia.
      * lia.
    + (* a child without rows is not rendered *)
      destruct (pile_render_items l (flow_sizes c l hr) f fp (i + 1)) as [cvs|e]; [|exact IH].
      destruct IH as [A B]. split; [exact A|]. cbn [fold_right]. lia.
Qed.

(* box pile: the entries computed by get_rows_sizes ask every item for something it supports *)
Definition entry_ok (c : Z) (it : pitem) (e : Z * size) : Prop :=
  (snd e = SFlow c /\ s_flow (m_sizing (pi_sem it)) = true)
  \/ (snd e = SBox c (fst e) /\ s_box (m_sizing (pi_sem it)) = true).

Lemma pile_pass1_ok n c f fp ps :
  1 <= c -> s_box ps = true ->
  forall l i rem wt, Forall (pgoodN n) l -> Forall (pile_ok ps) l -> 0 <= wt ->
  match pile_box_pass1 l c f fp i rem wt with
  | Ok (hs, rem', wt') => wt <= wt' /\ (Exists (fun it => pi_kind it = KWeight) l -> wt < wt')
  | Err e => soft e
  end.
Proof.
  intros Hc Hps. induction l as [|it l IH]; intros i rem wt HG HO Hwt; cbn [pile_box_pass1].
  - split; [lia|]. intros X. inversion X.
  - inversion HG as [|? ? G HG']; subst. inversion HO as [|? ? O HO']; subst.
    unfold pgoodN in G. unfold pile_ok, pile_child_ok in O.
    destruct (pi_kind it) eqn:K.
    + specialize (IH (i + 1) (rem - pi_amount it) wt HG' HO' Hwt).
      destruct (pile_box_pass1 l c f fp (i + 1) (rem - pi_amount it) wt) as [[[hs r'] w']|e]; cbn; [|exact IH].
      destruct IH as [A B]. split; [lia|]. intros X. inversion X; subst; [congruence|auto].
    + assert (Hfl : s_flow (m_sizing (pi_sem it)) = true) by exact O.
      rewrite Hfl. cbn [negb andb].
      pose proof (g_rows _ G c (item_focus f fp i) Hfl Hc) as R.
      destruct (m_rows (pi_sem it) c (item_focus f fp i)) as [rows|e]; cbn; [|exact R].
      specialize (IH (i + 1) (rem - rows) wt HG' HO' Hwt).
      destruct (pile_box_pass1 l c f fp (i + 1) (rem - rows) wt) as [[[hs r'] w']|e]; cbn; [|exact IH].
      destruct IH as [A B]. split; [lia|]. intros X. inversion X; subst; [congruence|auto].
    + assert (Hn : 1 <= pi_amount it) by lia.
      replace (pi_amount it =? 0) with false by lia.
      specialize (IH (i + 1) rem (wt + pi_amount it) HG' HO' ltac:(lia)).
      destruct (pile_box_pass1 l c f fp (i + 1) rem (wt + pi_amount it)) as [[[hs r'] w']|e]; cbn; [|exact IH].
      destruct IH as [A B]. split; lia.
Qed.

Lemma pile_item_rows_box_ok n c r f fp ps l :
  1 <= c -> s_box ps = true -> Forall (pgoodN n) l -> Forall (pile_ok ps) l ->
  Exists (fun it => pi_kind it = KWeight) l ->
  match pile_item_rows_box l c r f fp with Ok _ => True | Err e => soft e end.
Proof.
  intros Hc Hps HG HO HX. unfold pile_item_rows_box.
  pose proof (pile_pass1_ok n c f fp ps Hc Hps l 0 r 0 HG HO ltac:(lia)) as P.
  destruct (pile_box_pass1 l c f fp 0 r 0) as [[[hs rem] wt]|e]; cbn; [|exact P].
  destruct P as [A B]. specialize (B HX). replace (wt =? 0) with false by lia. exact I.
Qed.

Lemma pile_box_sizes n all c r f fp ps :
  1 <= c -> 1 <= r -> s_box ps = true -> Forall (pgoodN n) all -> Forall (pile_ok ps) all ->
  forall l i ir, (forall it, In it l -> In it all) ->
  match pile_rows_sizes all l (SBox c r) c f fp i ir with
  | Ok es => Forall2 (entry_ok c) l es
  | Err e => soft e
  end.
Proof.
  intros Hc Hr Hps HGa HOa. induction l as [|it l IH]; intros i ir Hin; cbn [pile_rows_sizes].
  - constructor.
  - assert (Hit : In it all) by (apply Hin; left; reflexivity).
    assert (Hin' : forall x, In x l -> In x all) by (intros; apply Hin; right; auto).
    pose proof (proj1 (Forall_forall _ _) HGa it Hit) as G.
    pose proof (proj1 (Forall_forall _ _) HOa it Hit) as O.
    unfold pgoodN in G. unfold pile_ok, pile_child_ok in O.
    destruct (pi_kind it) eqn:K.
    + specialize (IH (i + 1) ir Hin').
      destruct (pile_rows_sizes all l (SBox c r) c f fp (i + 1) ir) as [es|e]; cbn; [|exact IH].
      constructor; auto. right. cbn. split; [reflexivity|lia].
    + cbn [orb].
      assert (Hfl : s_flow (m_sizing (pi_sem it)) = true) by exact O. rewrite Hfl.
      pose proof (g_rows _ G c (item_focus f fp i) Hfl Hc) as R.
      pose proof (g_pack _ G c (item_focus f fp i) Hfl Hc) as P.
      destruct (m_rows (pi_sem it) c (item_focus f fp i)) as [h|e].
      * destruct P as [w [W0 P]]. rewrite P. cbn.
        specialize (IH (i + 1) ir Hin').
        destruct (pile_rows_sizes all l (SBox c r) c f fp (i + 1) ir) as [es|e]; cbn; [|exact IH].
        constructor; auto. left. cbn. auto.
      * rewrite P. cbn. exact R.
    + cbn [orb negb].
      assert (X : Exists (fun it => pi_kind it = KWeight) all).
      { apply Exists_exists. exists it. auto. }
      assert (Q : match (match ir with Some ir0 => Ok ir0 | None => pile_item_rows all (SBox c r) f fp end) with
                  | Ok _ => True | Err e => soft e end).
      { destruct ir; [exact I|]. cbn. apply (pile_item_rows_box_ok n c r f fp ps all); auto. }
      destruct (match ir with Some ir0 => Ok ir0 | None => pile_item_rows all (SBox c r) f fp end) as [ir1|e]; cbn; [|exact Q].
      specialize (IH (i + 1) (Some ir1) Hin').
      destruct (pile_rows_sizes all l (SBox c r) c f fp (i + 1) (Some ir1)) as [es|e]; cbn; [|exact IH].
      constructor; auto. right. cbn. split; [reflexivity|].
      unfold impb in O. rewrite Hps in O. cbn in O. lia.
Qed.

Lemma pile_box_render n c f fp :
  0 <= n -> 1 <= c ->
  forall l es i, Forall (pgoodN n) l -> Forall2 (entry_ok c) l es ->
  match pile_render_items l es f fp i with
  | Ok cvs => all_width c cvs /\ Forall (fun d => 0 <= cr d) cvs
  | Err e => soft e
  end.
Proof.
  intros Hn0 Hc. induction l as [|it l IH]; intros es i HG HE.
  - inversion HE; subst. cbn. split; constructor.
  - inversion HE as [|? [h sz] ? es' E1 HE']; subst. inversion HG as [|? ? G HG']; subst.
    unfold pgoodN in G. cbn [pile_render_items].
    specialize (IH es' (i + 1) HG' HE').
    destruct (0 <? h) eqn:Hh; [|exact IH].
    assert (R : match m_render (pi_sem it) sz (item_focus f fp i) with
                | Ok d => cc d = c /\ rect d = true /\ 0 <= cr d /\ inside d
                | Err e => soft e end).
    { destruct E1 as [[E1 E2]|[E1 E2]]; cbn in E1; subst sz.
      - pose proof (g_flow _ G c (item_focus f fp i) E2 Hc) as F.
        pose proof (g_rows _ G c (item_focus f fp i) E2 Hc) as R.
        destruct (m_render (pi_sem it) (SFlow c) (item_focus f fp i)); [|exact F].
        destruct F as [[F1 F2] [F3 F4]]. rewrite F2 in R. repeat split; auto. lia.
      - pose proof (g_box _ G c h (item_focus f fp i) E2 Hc ltac:(lia)) as B.
        destruct (m_render (pi_sem it) (SBox c h) (item_focus f fp i)); [|exact B].
        destruct B as [[B1 B2] [B3 B4]]. repeat split; auto. lia. }
    destruct (m_render (pi_sem it) sz (item_focus f fp i)) as [d|e]; cbn; [|exact R].
    destruct (pile_render_items l es' f fp (i + 1)) as [cvs|e]; cbn; [|exact IH].
    destruct IH as [A B]. destruct R as [R1 [R2 [R3 R4]]]. split; constructor; auto.
Qed.

Lemma sum_cr_nonneg cvs : Forall (fun d => 0 <= cr d) cvs -> 0 <= fold_right (fun d a => cr d + a) 0 cvs.
Proof. induction 1; cbn; lia. Qed.

Lemma pile_good n l fp :
  0 <= n <= 1 -> (n = 1 -> l <> []) ->
  Forall (pgoodN n) l -> Forall (pile_ok (pile_sizing l)) l -> GoodN n (pile_sem l fp).
Proof.
  intros Hn Hne HG HO. unfold pile_sem. apply mk_node_good.
  - (* rows *)
    intros c f Hs Hc. unfold pile_rows.
    pose proof (pile_flow_sizes n l c f fp (pile_sizing l) ltac:(lia) Hc Hs l 0 None HG HO) as S.
    destruct (pile_item_rows_flow l c f fp 0) as [hs|e]; cbn; [|tauto].
    destruct S as [_ [B C]]. rewrite sumz_fold.
    assert (N0 : 0 <= fold_right Z.add 0 hs).
    { clear -B Hn. induction B; cbn; lia. }
    destruct (Z.eq_dec n 1) as [E1|E1]; [|lia].
    destruct hs as [|h hs]; [destruct l; [specialize (Hne E1); congruence|discriminate]|].
    inversion B; subst. cbn.
    assert (0 <= fold_right Z.add 0 hs).
    { clear -H2. induction H2; cbn; lia. }
    lia.
  - (* flow *)
    intros c f Hs Hc. unfold pile_render, pile_sizes, pile_rows.
    pose proof (pile_flow_sizes n l c f fp (pile_sizing l) ltac:(lia) Hc Hs l 0 None HG HO) as S.
    destruct (pile_item_rows_flow l c f fp 0) as [hs|e] eqn:E; cbn.
    2:{ destruct S as [S1 S2]. rewrite S2. cbn. exact S1. }
    destruct S as [S1 [S2 S3]]. rewrite S1. cbn.
    pose proof (pile_flow_render n c f fp (pile_sizing l) ltac:(lia) Hc Hs l 0 hs HG HO E) as R.
    destruct (pile_render_items l (flow_sizes c l hs) f fp 0) as [cvs|e]; cbn; [|exact R].
    destruct R as [R1 R2]. rewrite sumz_fold.
    destruct cvs as [|d cvs].
    + cbn in R2. rewrite <- R2. cbn. repeat split; auto.
    + destruct (combine_spec c (d :: cvs) ltac:(discriminate) R1) as [A [B [C D]]]. fin.
  - (* box *)
    intros c r f Hs Hc Hr. unfold pile_render, pile_sizes.
    pose proof (pile_box_sizes n l c r f fp (pile_sizing l) Hc Hr Hs HG HO l 0 None ltac:(auto)) as S.
    destruct (pile_rows_sizes l l (SBox c r) c f fp 0 None) as [es|e]; cbn; [|exact S].
    pose proof (pile_box_render n c f fp ltac:(lia) Hc l es 0 HG S) as R.
    destruct (pile_render_items l es f fp 0) as [cvs|e]; cbn; [|exact R].
    destruct R as [R1 R2].
    destruct cvs as [|d cvs]; [cbn; repeat split; auto; exact I|].
    destruct (combine_spec c (d :: cvs) ltac:(discriminate) R1) as [A [B [C D]]].
    pose proof (sum_cr_nonneg _ R2) as N.
    destruct (r =? cr (canvas_combine (d :: cvs))) eqn:Er.
    + fin.
    + destruct (pad_tb_to (canvas_combine (d :: cvs)) r Hr ltac:(lia) ltac:(lia) D) as [d' [E' [A' [B' [C' D']]]]].
      rewrite E'. fin.
Qed.

(* ------------------------------------------------------------------ leaves: a sufficient condition on the reported data *)
Definition canvas_ok (c r : Z) (v : res canv) : Prop :=
  match v with
  | Ok cv => cc cv = c /\ cr cv = r /\ rect cv = true /\ inside cv
  | Err x => soft x
  end.

Definition leaf_contract (d : leafdata) : Prop :=
  (forall c f, s_flow (l_sizing d) = true -> 1 <= c ->
     exists e h w, l_flow d f c = Ok e /\ fe_rows e = Ok h /\ 1 <= h /\ (0 <= w /\ fe_pack e = Ok (w, h))
                   /\ canvas_ok c h (fe_render e))
  /\ (forall c r f, s_box (l_sizing d) = true -> 1 <= c -> 1 <= r -> canvas_ok c r (l_box d c r f)).

Lemma leaf_good d : leaf_contract d -> Good (leaf_sem d).
Proof.
  intros [HF HB]. constructor; cbn [leaf_sem m_sizing m_rows m_pack m_render].
  - intros c f Hs Hc. replace (c <=? 0) with false by lia.
    destruct (HF c f Hs Hc) as [e [h [w [E1 [E2 [E3 [[W0 E4] E5]]]]]]]. rewrite E1. cbn. rewrite E2. exact E3.
  - intros c f Hs Hc. replace (c <=? 0) with false by lia.
    destruct (HF c f Hs Hc) as [e [h [w [E1 [E2 [E3 [[W0 E4] E5]]]]]]]. rewrite E1. cbn. rewrite E2. eauto.
  - intros c f Hs Hc. unfold degenerate. replace (c <=? 0) with false by lia.
    destruct (HF c f Hs Hc) as [e [h [w [E1 [E2 [E3 [[W0 E4] E5]]]]]]]. rewrite E1. cbn.
    unfold canvas_ok in E5. destruct (fe_render e) as [cv|x]; [|exact E5].
    destruct E5 as [A [B [C D]]]. unfold meets. cbn [m_rows leaf_sem].
    replace (c <=? 0) with false by lia. rewrite E1. cbn. rewrite E2. fin.
  - intros c r f Hs Hc Hr. unfold degenerate. replace ((c <=? 0) || (r <=? 0)) with false by lia.
    specialize (HB c r f Hs Hc Hr). unfold canvas_ok in HB. destruct (l_box d c r f) as [cv|x]; [|exact HB].
    destruct HB as [A [B [C D]]]. unfold meets. fin.
  - intros c f Hc. replace (c <=? 0) with true by lia. reflexivity.
  - intros c f Hc. replace (c <=? 0) with true by lia. reflexivity.
  - intros sz f Hd. rewrite Hd. reflexivity.
Qed.

(* the statement in the shape of the property text *)
Theorem render_contract_from_good n s sz f :
  GoodN n s -> sz <> SFixed -> valid_for (m_sizing s) sz ->
  match m_render s sz f with Ok d => meets s sz f d | Err e => soft e end.
Proof.
  intros G Hn Hv. destruct sz as [|c|c r]; [congruence| |].
  - destruct Hv as [H1 H2]. apply (g_flow s G c f H1 H2).
  - destruct Hv as [H1 [H2 H3]]. apply (g_box s G c r f H1 H2 H3).
Qed.
