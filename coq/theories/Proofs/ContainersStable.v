(* C08 - proofs: facts about a widget that no writer of the model touches (kind, leaf data) are
   the same after any model function.  Generic version of the preservation argument for
   predicates [P id n] closed under the five field setters without side conditions. *)
From Coq Require Import ZArith List Bool Lia ZifyBool.
Import ListNotations.
From Urwid Require Import PyBase PyList c08_container_gen Containers ContainersBase.
From Urwid Require MonitoredList.
Open Scope Z_scope.

Definition InvI (P : Z -> node -> Prop) (h : heap) : Prop := forall id n, getn h id = Some n -> P id n.

Section Stable.
Variable P : Z -> node -> Prop.
Hypothesis P_c : forall id n c, P id n -> P id (set_c n c).
Hypothesis P_selc : forall id n b, P id n -> P id (set_selc n b).
Hypothesis P_pref : forall id n p, P id n -> P id (set_pref n p).
Hypothesis P_parts : forall id n a b d p, P id n -> P id (set_parts n a b d p).
Hypothesis P_pend : forall id n p v, P id n -> P id (set_pend n p v).
Notation I := (InvI P).

Lemma st_w_node id (f : node -> node) : (forall n, P id n -> P id (f n)) -> pres I (w_node id f).
Proof.
  intros Hf h H. unfold w_node. destruct (getn h id) as [n|] eqn:G; cbn [fst]; [|exact H].
  intros id' n' G'. rewrite getn_setn in G'.
  destruct ((id' =? id) && (0 <=? id) && (id <? zlen h)) eqn:E.
  - injection G' as <-. assert (id' = id) by lia. subst id'. apply Hf. exact (H id n G).
  - exact (H id' n' G').
Qed.
Lemma st_w_pref id p : pres I (w_pref id p). Proof. apply st_w_node. intros; apply P_pref; assumption. Qed.
Lemma st_w_selc id b : pres I (w_selc id b). Proof. apply st_w_node. intros; apply P_selc; assumption. Qed.
Lemma st_w_pend id p v : pres I (w_pend id p v). Proof. apply st_w_node. intros; apply P_pend; assumption. Qed.
Lemma st_w_contents id s : pres I (w_contents id s). Proof. apply st_w_node. intros; apply P_c; assumption. Qed.
Lemma st_w_parts id a b d p : pres I (w_parts id a b d p). Proof. apply st_w_node. intros; apply P_parts; assumption. Qed.
Hint Resolve st_w_pref st_w_selc st_w_pend st_w_contents st_w_parts : pres.

Lemma st_w_listfocus id j : pres I (w_listfocus id j).
Proof. unfold w_listfocus. pres_tac. Qed.
Hint Resolve st_w_listfocus : pres.
Lemma st_w_focus id j : pres I (w_focus id j).
Proof. unfold w_focus. pres_tac. Qed.
Hint Resolve st_w_focus : pres.
Lemma st_gpc f : forall id, pres I (gpc f id).
Proof. induction f as [|f IH]; intros id; cbn [gpc]; pres_tac. Qed.
Hint Resolve st_gpc : pres.
Lemma st_upd_pref_from_focus f id : pres I (upd_pref_from_focus f id).
Proof. unfold upd_pref_from_focus. pres_tac. Qed.
Hint Resolve st_upd_pref_from_focus : pres.
Lemma st_mc f : forall id col row, pres I (mc f id col row).
Proof. induction f as [|f IH]; intros id col row; cbn [mc]; pres_tac. Qed.
Hint Resolve st_mc : pres.
Lemma st_scan_rows f owner c rl : pres I (scan_rows f owner c rl).
Proof. induction rl as [|r rs IH]; cbn [scan_rows]; pres_tac. Qed.
Hint Resolve st_scan_rows : pres.
Lemma st_lb_set_focus id pos : pres I (lb_set_focus id pos).
Proof. unfold lb_set_focus. pres_tac. Qed.
Lemma st_lb_visible0 f id focus : pres I (lb_visible0 f id focus).
Proof. unfold lb_visible0. pres_tac. Qed.
Hint Resolve st_lb_set_focus st_lb_visible0 : pres.
Lemma st_lb_change_focus f id position cf : pres I (lb_change_focus f id position cf).
Proof. unfold lb_change_focus. pres_tac. Qed.
Hint Resolve st_lb_change_focus : pres.
Lemma st_lb_complete f id focus : pres I (lb_complete f id focus).
Proof. unfold lb_complete. pres_tac. Qed.
Hint Resolve st_lb_complete : pres.
Lemma st_lb_visible f id focus : pres I (lb_visible f id focus).
Proof. unfold lb_visible. pres_tac. Qed.
Hint Resolve st_lb_visible : pres.
Lemma st_pile_move f id up cands : pres I (pile_move f id up cands).
Proof. induction cands as [|j r IH]; cbn [pile_move]; pres_tac. Qed.
Lemma st_cols_move f id cands : pres I (cols_move f id cands).
Proof. induction cands as [|j r IH]; cbn [cols_move]; pres_tac. Qed.
Hint Resolve st_pile_move st_cols_move : pres.
Lemma st_kp f : forall id key, pres I (kp f id key).
Proof. induction f as [|f IH]; intros id key; cbn [kp]; unfold unhandled; pres_tac. Qed.
Lemma st_me f : forall id route focus, pres I (me f id route focus).
Proof. induction f as [|f IH]; intros id route focus; cbn [me]; pres_tac. Qed.
Lemma st_rn_list rnf keep l : (forall c b, pres I (rnf c b)) -> forall j fi focus, pres I (rn_list rnf keep l j fi focus).
Proof. intros H. induction l as [|c r IH]; intros j fi focus; cbn [rn_list]; pres_tac. Qed.
Lemma st_rn f : forall id focus, pres I (rn f id focus).
Proof.
  induction f as [|f IH]; intros id focus; cbn [rn]; [apply pres_raise|].
  pres_tac; apply st_rn_list; exact IH.
Qed.
End Stable.

(* the keys a leaf handles, its selectable() flag and every widget's kind never change *)
Definition same_static (h0 : heap) (id : Z) (n : node) : Prop :=
  exists n0, getn h0 id = Some n0 /\ nk n = nk n0 /\ n_keys n = n_keys n0 /\ n_sel n = n_sel n0.

Lemma same_static_init h0 : InvI (same_static h0) h0.
Proof. intros id n G. exists n. repeat split. exact G. Qed.

Theorem lb_complete_static h0 f id focus h : InvI (same_static h0) h -> InvI (same_static h0) (fst (lb_complete f id focus h)).
Proof.
  apply (st_lb_complete (same_static h0)); intros ? ? *; intros (n0 & G & K & Ks & S); exists n0; repeat split; assumption.
Qed.
Theorem kp_static h0 f id key h : InvI (same_static h0) h -> InvI (same_static h0) (fst (kp f id key h)).
Proof.
  apply (st_kp (same_static h0)); intros ? ? *; intros (n0 & G & K & Ks & S); exists n0; repeat split; assumption.
Qed.
Theorem lb_visible_static h0 f id focus h : InvI (same_static h0) h -> InvI (same_static h0) (fst (lb_visible f id focus h)).
Proof.
  apply (st_lb_visible (same_static h0)); intros ? ? *; intros (n0 & G & K & Ks & S); exists n0; repeat split; assumption.
Qed.
