(* C09 <-> C19: the arithmetic used by the geometry model (Model/Geometry.v) is the arithmetic C19 (Model/Layout.v,
   Proofs/Layout*.v) proves its partition theorems about.
   - calculate_left_right_padding / calculate_top_bottom_filler: both properties use a py2v translation of the same
     source function (own constructor names): the two translations are equal ([clrp_same], [ctbf_same]);
   - Columns.column_widths: both models are hand-written mirrors; here they are proved equal ([column_widths_same]).
   With that, facts about the geometry model's widths and margins are obtained from C19's theorems instead of
   being proved a second time ([clrp_nonneg_c19], [clrp_clip_sum_c19], [ctbf_nonneg_c19], [column_widths_c19]).
   The sibling's files are imported read-only. *)
From Coq Require Import ZArith List Bool Lia.
Import ListNotations.
From Urwid Require Import PyBase geo_padfill_gen Geometry.
From Urwid Require layout_gen Layout LayoutArith LayoutColumns.
Open Scope Z_scope.

Definition cv_wt (t : gwtype) : layout_gen.wtype :=
  match t with
  | GRelative => layout_gen.WRelative | GClip => layout_gen.WClip | GGiven => layout_gen.WGiven
  | GPack => layout_gen.WPack | GWeight => layout_gen.WWeight
  end.
Definition cv_at (t : gatype) : layout_gen.atype :=
  match t with
  | GLeft => layout_gen.ALeft | GCenter => layout_gen.ACenter | GRight => layout_gen.ARight
  | GARelative => layout_gen.ARelative
  end.
Definition cv_vt (t : gvtype) : layout_gen.vtype :=
  match t with
  | GTop => layout_gen.VTop | GMiddle => layout_gen.VMiddle | GBottom => layout_gen.VBottom
  | GVRelative => layout_gen.VRelative
  end.

Lemma clrp_same maxcol at_ aa wt wa minw l r :
  calculate_left_right_padding maxcol at_ aa wt wa minw l r
  = layout_gen.calculate_left_right_padding maxcol (cv_at at_) aa (cv_wt wt) wa minw l r.
Proof.
  unfold calculate_left_right_padding, layout_gen.calculate_left_right_padding,
    round_half_up_div, layout_gen.round_half_up_div, int_scale, layout_gen.int_scale.
  destruct at_, wt; reflexivity.
Qed.

Lemma ctbf_same maxrow vt va ht ha minh t b :
  calculate_top_bottom_filler maxrow vt va ht ha minh t b
  = layout_gen.calculate_top_bottom_filler maxrow (cv_vt vt) va (cv_wt ht) ha minh t b.
Proof.
  unfold calculate_top_bottom_filler, layout_gen.calculate_top_bottom_filler,
    int_scale, layout_gen.int_scale.
  destruct vt, ht; reflexivity.
Qed.

(* ------------------------------------------------------------------------------------------ *)
(* Columns.column_widths: the two hand models are the same function                            *)
(* ------------------------------------------------------------------------------------------ *)
Definition cv_col (o : copt) : Layout.col :=
  match o with CGiven n => (Layout.KGiven, n) | CWeight n => (Layout.KWeight, n) | CPack => (Layout.KPack, 0) end.

Lemma phase1_same opts : forall i fp dc mw shared,
  Layout.cw_scan dc mw fp (map cv_col opts) i shared
  = let '(ws, sh, wt) := cw_phase1 opts i fp dc mw shared in (ws, wt, sh).
Proof.
  induction opts as [|o rest IH]; intros i fp dc mw shared; cbn [map Layout.cw_scan cw_phase1]; [reflexivity|].
  assert (Es : Layout.static_of mw (cv_col o) = static_w o mw) by (destruct o; reflexivity).
  rewrite Es. destruct ((shared <? static_w o mw + dc) && (fp <? i)); [reflexivity|].
  rewrite IH. destruct (cw_phase1 rest (i + 1) fp dc mw (shared - (static_w o mw + dc))) as [[ws sh] wt].
  destruct o; reflexivity.
Qed.

Lemma phase2_same ws : forall i dc shared wt,
  Layout.cw_drop dc ws i wt shared
  = let '(ws', sh, wt') := cw_phase2 ws i dc shared wt in (ws', wt', sh).
Proof.
  induction ws as [|w rest IH]; intros i dc shared wt; cbn [Layout.cw_drop cw_phase2]; [reflexivity|].
  destruct (0 <=? shared); [reflexivity|].
  assert (Ew : match wt with (_, j) :: t => if j =? i then t else wt | [] => [] end
             = match wt with (_, j) :: r => if j =? i then r else wt | [] => wt end) by (destruct wt; reflexivity).
  rewrite Ew, IH. destruct (cw_phase2 rest (i + 1) dc (shared + (w + dc)) _) as [[a b] c]. reflexivity.
Qed.

Lemma winsert_same a l : Layout.insert_pair a l = winsert a l.
Proof. induction l as [|b r IH]; cbn; [reflexivity|]. unfold Layout.pair_leb, wle. rewrite IH. reflexivity. Qed.
Lemma wsort_same l : Layout.sort_pairs l = wsort l.
Proof. induction l as [|a r IH]; cbn; [reflexivity|]. rewrite IH. apply winsert_same. Qed.

Lemma set_nth_neg l : forall i v, i < 0 -> set_nth l i v = l.
Proof.
  induction l as [|x r IH]; intros i v Hi; cbn [set_nth]; [reflexivity|].
  destruct (Z.eqb_spec i 0); [lia|]. rewrite IH by lia. reflexivity.
Qed.
Lemma set_nth_same l : forall i v, set_nth l i v = Layout.set_nthz l i v.
Proof.
  unfold Layout.set_nthz. intros i v. destruct (Z.ltb_spec i 0); [apply set_nth_neg; assumption|].
  revert i H. induction l as [|x r IH]; intros i Hi; cbn [set_nth]; [destruct (Z.to_nat i); reflexivity|].
  destruct (Z.eqb_spec i 0) as [->|Hn]; [reflexivity|].
  replace (Z.to_nat i) with (S (Z.to_nat (i - 1))) by lia. cbn [Layout.set_nth]. rewrite IH by lia. reflexivity.
Qed.

Lemma phase3_same mw sorted : forall ws grow wtotal al,
  Layout.cw_alloc mw sorted grow wtotal = Ok al ->
  cw_phase3 sorted ws grow wtotal mw = Layout.apply_allocs ws al.
Proof.
  induction sorted as [|[weight i] rest IH]; intros ws grow wtotal al H; cbn [Layout.cw_alloc cw_phase3] in *.
  - inversion H. reflexivity.
  - destruct (wtotal =? 0); [discriminate|].
    destruct (Layout.cw_alloc mw rest _ _) as [al'|] eqn:E; cbn [bind] in H; [|discriminate].
    inversion H; subst al. unfold Layout.apply_allocs. cbn [fold_left fst snd].
    rewrite (IH _ _ _ _ E). unfold Layout.apply_allocs. rewrite set_nth_same. reflexivity.
Qed.

Lemma zsum_same l : Layout.zsum l = zsum l.
Proof. induction l as [|x r IH]; cbn; [reflexivity|]. rewrite IH. reflexivity. Qed.

Theorem column_widths_same opts fp dc mw maxcol F :
  Layout.column_widths (map cv_col opts) dc mw fp maxcol = Ok F ->
  column_widths opts fp dc mw maxcol = F.
Proof.
  unfold Layout.column_widths, column_widths. rewrite phase1_same.
  destruct (cw_phase1 opts 0 fp dc mw (maxcol + dc)) as [[ws1 sh1] wt1]. rewrite phase2_same.
  destruct (cw_phase2 ws1 0 dc sh1 wt1) as [[ws2 sh2] wt2].
  destruct (sh2 =? 0); [intro H; inversion H; reflexivity|].
  destruct (Layout.cw_alloc _ _ _ _) as [al|] eqn:E; cbn [bind]; [|discriminate].
  intro H; inversion H; subst F. rewrite wsort_same, zsum_same in E. unfold rhu.
  apply (phase3_same _ _ _ _ _ _ E).
Qed.

(* ------------------------------------------------------------------------------------------ *)
(* facts about the geometry model's arithmetic, obtained from C19's theorems                    *)
(* ------------------------------------------------------------------------------------------ *)
Lemma cv_wt_clip wt : wt <> GClip -> cv_wt wt <> layout_gen.WClip.
Proof. destruct wt; cbn; congruence. Qed.

(* C19 clrp_partition (LayoutArith.clrp_child): outside 'clip' the margins are never negative and the child gets
   min(requested, available) *)
Theorem clrp_partition_c19 maxcol at_ aamt wt wamt minw l r :
  wt <> GClip ->
  let lr := calculate_left_right_padding maxcol at_ aamt wt wamt minw l r in
  0 <= fst lr /\ 0 <= snd lr /\
  maxcol - fst lr - snd lr = Z.min (LayoutArith.clrp_width maxcol (cv_wt wt) wamt minw l r) maxcol.
Proof.
  intros Hc lr. unfold lr. rewrite clrp_same.
  pose proof (LayoutArith.clrp_child maxcol (cv_at at_) aamt (cv_wt wt) wamt minw l r (cv_wt_clip wt Hc)) as H.
  cbv zeta in H. destruct (layout_gen.calculate_left_right_padding _ _ _ _ _ _ _ _). exact H.
Qed.

Corollary clrp_nonneg_c19 maxcol at_ aamt wt wamt minw l r :
  wt <> GClip ->
  0 <= fst (calculate_left_right_padding maxcol at_ aamt wt wamt minw l r) /\
  0 <= snd (calculate_left_right_padding maxcol at_ aamt wt wamt minw l r).
Proof. intro Hc. destruct (clrp_partition_c19 maxcol at_ aamt wt wamt minw l r Hc) as [A [B _]]. split; assumption. Qed.

(* C19 clrp_clip (LayoutArith.clrp_clip_exact) *)
Theorem clrp_clip_sum_c19 maxcol at_ aamt w minw l0 r0 :
  let lr := calculate_left_right_padding maxcol at_ aamt GClip w minw l0 r0 in
  fst lr + w + snd lr = maxcol.
Proof.
  intro lr. unfold lr. rewrite clrp_same.
  pose proof (LayoutArith.clrp_clip_exact maxcol (cv_at at_) aamt w minw l0 r0) as H. cbn [cv_wt].
  destruct (layout_gen.calculate_left_right_padding _ _ _ _ _ _ _ _). exact H.
Qed.

(* C19 ctbf_partition (LayoutArith.ctbf_child) *)
Theorem ctbf_partition_c19 maxrow vt vamt ht hamt minh t b :
  let tb := calculate_top_bottom_filler maxrow vt vamt ht hamt minh t b in
  0 <= fst tb /\ 0 <= snd tb /\
  maxrow - fst tb - snd tb = Z.min (LayoutArith.ctbf_height maxrow (cv_wt ht) hamt minh t b) maxrow.
Proof.
  intro tb. unfold tb. rewrite ctbf_same.
  pose proof (LayoutArith.ctbf_child maxrow (cv_vt vt) vamt (cv_wt ht) hamt minh t b) as H.
  cbv zeta in H. destruct (layout_gen.calculate_top_bottom_filler _ _ _ _ _ _ _ _). exact H.
Qed.

Corollary ctbf_nonneg_c19 maxrow vt vamt ht hamt minh t b :
  0 <= fst (calculate_top_bottom_filler maxrow vt vamt ht hamt minh t b) /\
  0 <= snd (calculate_top_bottom_filler maxrow vt vamt ht hamt minh t b).
Proof. destruct (ctbf_partition_c19 maxrow vt vamt ht hamt minh t b) as [A [B _]]. split; assumption. Qed.

(* a given height that fits beside the computed top margin: top + height + bottom = maxrow (what the Filler / Overlay
   proofs use), from C19's partition statement *)
Corollary ctbf_given_exact_c19 maxrow vt vamt h t0 b0 :
  let tb := calculate_top_bottom_filler maxrow vt vamt GGiven h None t0 b0 in
  fst tb + h <= maxrow -> fst tb + h + snd tb = maxrow.
Proof.
  intros tb Hle. destruct (ctbf_partition_c19 maxrow vt vamt GGiven h None t0 b0) as [A [B C]].
  fold tb in A, B, C. cbn in C. lia.
Qed.

(* Columns.column_widths of the geometry model, through C19's theorems cw_total / cw_nonneg / cw_fits: with weights
   >= 1 and given widths >= 0 there is no exception, no width is negative, the focus column is in the list, and the
   visible columns with their dividers fit into maxcol *)
Definition copt_ok (o : copt) : Prop := match o with CGiven n => 0 <= n | CWeight n => 1 <= n | CPack => True end.

Theorem column_widths_c19 opts fp dc mw maxcol :
  Forall copt_ok opts -> 0 <= dc -> 0 <= mw -> 0 <= maxcol -> 0 <= fp < zlen opts ->
  let F := column_widths opts fp dc mw maxcol in
  Layout.column_widths (map cv_col opts) dc mw fp maxcol = Ok F /\
  Forall (fun w => 0 <= w) F /\ fp < zlen F <= zlen opts /\ LayoutColumns.vis_need dc F <= maxcol.
Proof.
  intros Hok Hdc Hmw Hmax Hfp F.
  assert (Hok' : Forall LayoutColumns.col_ok (map cv_col opts)).
  { apply Forall_map. eapply Forall_impl; [|exact Hok]. intros o Ho. destruct o; cbn in *; lia. }
  assert (Hlen : zlen (map cv_col opts) = zlen opts) by (unfold zlen; rewrite map_length; reflexivity).
  assert (Hfp' : 0 <= fp < zlen (map cv_col opts)) by (rewrite Hlen; exact Hfp).
  destruct (LayoutColumns.column_widths_total _ dc mw fp maxcol Hok' Hdc Hmw Hmax Hfp') as [F' HF].
  pose proof (column_widths_same _ _ _ _ _ _ HF) as E. fold F in E. subst F'.
  split; [exact HF|]. split; [|split].
  - exact (LayoutColumns.cw_nonneg _ _ _ _ _ _ Hok' Hdc Hmw Hmax Hfp' HF).
  - rewrite <- Hlen. exact (LayoutColumns.cw_length _ _ _ _ _ _ Hok' Hdc Hmw Hmax Hfp' HF).
  - exact (LayoutColumns.cw_fits _ _ _ _ _ _ Hok' Hdc Hmw Hmax Hfp' HF).
Qed.
