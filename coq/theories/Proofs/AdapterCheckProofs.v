(* C13, adapters - the executable checker of the host specification is sound:
   hostok_b hl = true -> host_ok hl. *)
From Coq Require Import ZArith List Bool Lia.
Import ListNotations.
From Urwid Require Import PyBase SelectLoop AdapterLoop SelectLoopSpec AdapterLoopSpec AdapterCheck.
Open Scope Z_scope.

Lemma tcb_eqb_eq : forall a b, tcb_eqb a b = true -> a = b.
Proof.
  intros [k i|] [k' i'|]; cbn; intros H; try discriminate; [|reflexivity].
  apply andb_true_iff in H. destruct H as [H1 H2]. apply Z.eqb_eq in H1, H2. now subst.
Qed.

Lemma later_b_sound : forall h c w hl, later_b h c w hl = true -> hlater h c w hl.
Proof.
  intros h c w hl H. apply existsb_exists in H. destruct H as [x [X Hx]].
  destruct x; try discriminate. apply andb_true_iff in Hx. destruct Hx as [Hx H3]. apply andb_true_iff in Hx. destruct Hx as [H1 H2].
  apply tcb_eqb_eq in H1. apply Z.eqb_eq in H2, H3. subst. now exists t, d.
Qed.

Lemma cancelled_b_iff : forall h hl, cancelled_b h hl = true <-> hcancelled h hl.
Proof.
  intros h hl. unfold cancelled_b, hcancelled. rewrite existsb_exists. split.
  - intros [x [X Hx]]. destruct x; try discriminate. apply Z.eqb_eq in Hx. now subst.
  - intros X. exists (CCancel h). split; [exact X|]. apply Z.eqb_refl.
Qed.

Lemma fired_b_iff : forall h hl, fired_b h hl = true <-> hfired h hl.
Proof.
  intros h hl. unfold fired_b, hfired. rewrite existsb_exists. split.
  - intros [x [X Hx]]. destruct x; try discriminate. destruct ev; try discriminate. apply Z.eqb_eq in Hx. subst. now exists t, c.
  - intros [t [c X]]. exists (CNext t (HTimer h c)). split; [exact X|]. apply Z.eqb_refl.
Qed.

Lemma all_pending_sound : forall P hl, all_pending P hl = true -> forall h c w, hpending h c w hl -> P w = true.
Proof.
  intros P hl H h c w [[t [d La]] [Nc Nf]]. unfold all_pending in H. rewrite forallb_forall in H.
  specialize (H _ La). cbn in H. apply orb_true_iff in H. destruct H as [H|H]; [|exact H].
  apply orb_true_iff in H. destruct H as [H|H]; [apply cancelled_b_iff in H; contradiction|apply fired_b_iff in H; contradiction].
Qed.

Lemma time_le_b_sound : forall t hl, time_le_b t hl = true -> time_le t hl.
Proof.
  intros t hl H c t' X E. unfold time_le_b in H. rewrite forallb_forall in H. specialize (H _ X). rewrite E in H. now apply Z.leb_le.
Qed.

Lemma wait_ok_b_sound : forall to t0 older, wait_ok_b to t0 older = true -> wait_ok to t0 older.
Proof.
  intros to t0 older H. unfold wait_ok_b in H. apply andb_true_iff in H. destruct H as [H H3].
  apply andb_true_iff in H. destruct H as [H1 H2]. split; [now apply negb_true_iff|split; [now apply time_le_b_sound|]].
  destruct to as [d|].
  - apply andb_true_iff in H3. destruct H3 as [Hd Hp]. split; [now apply Z.leb_le|]. intros Hpos h c w P.
    apply orb_true_iff in Hp. destruct Hp as [Hp|Hp]; [apply Z.leb_le in Hp; lia|].
    pose proof (all_pending_sound _ _ Hp _ _ _ P) as X. now apply Z.leb_le.
  - intros h c w P. pose proof (all_pending_sound _ _ H3 _ _ _ P) as X. discriminate.
Qed.

Lemma hcall_ok_b_sound : forall c older, hcall_ok_b c older = true -> hcall_ok c older.
Proof.
  intros c older H. destruct c; cbn in *; try exact I.
  - apply andb_true_iff in H. destruct H as [H H3]. apply andb_true_iff in H. destruct H as [H1 H2].
    split; [now apply Z.eqb_eq|split; [|now apply time_le_b_sound]].
    intros cb' w' [t' [d' X]]. apply negb_true_iff in H2.
    assert (Y : existsb (is_later_of h) older = true).
    { apply existsb_exists. exists (CLater t' d' cb' h w'). split; [exact X|]. cbn. apply Z.eqb_refl. }
    congruence.
  - rewrite <- cancelled_b_iff. destruct b, (cancelled_b h older); cbn in H; try discriminate; split; auto; discriminate.
  - destruct (hreader fd older); destruct ok; cbn in H; try discriminate; split; auto; try discriminate; congruence.
  - apply andb_true_iff in H. destruct H as [Ht H]. split; [now apply time_le_b_sound|].
    destruct ev.
    + apply andb_true_iff in H. destruct H as [H Hf]. apply andb_true_iff in H. destruct H as [Hl Hc].
      apply existsb_exists in Hl. destruct Hl as [x [X Hx]]. destruct x; try discriminate.
      apply andb_true_iff in Hx. destruct Hx as [Hx H3]. apply andb_true_iff in Hx. destruct Hx as [H1 H2].
      apply tcb_eqb_eq in H1. apply Z.eqb_eq in H2. apply Z.leb_le in H3. subst.
      exists w. split; [|exact H3]. split; [now exists t0, d|split].
      * intros Y. apply cancelled_b_iff in Y. apply negb_true_iff in Hc. congruence.
      * intros Y. apply fired_b_iff in Y. apply negb_true_iff in Hf. congruence.
    + destruct (hreader fd older); cbn in H; [apply Z.eqb_eq in H; now subst|discriminate].
    + apply andb_true_iff in H. destruct H as [H1 H2]. split; [now apply wait_ok_b_sound|now apply Z.leb_le].
    + exact H.
    + now apply wait_ok_b_sound.
    + now apply wait_ok_b_sound.
Qed.

Theorem hostok_b_sound : forall hl, hostok_b hl = true -> host_ok hl.
Proof.
  induction hl as [|c r IH]; intros H; [exact I|]. cbn in H. apply andb_true_iff in H. destruct H as [H1 H2].
  split; [now apply hcall_ok_b_sound|now apply IH].
Qed.
