(* C15 - simulation, continued (see Proofs/VTermSim.v).
   C15 - simulation of the reference VT100 (Model/VT100Ref.v) by the emulator model (Model/VTerm.v) fed with
   the byte encoding of the reference's commands: the relation R, one lemma per command, composition. *)
From Coq Require Import ZArith List Bool Lia ZifyBool.
Import ListNotations.
From Urwid Require Import PyBase PyList vterm_csi_gen VTerm VT100Ref VTermRefine VTermListFacts VTermProofs VTermParse VTermSim VTermSimB VTermSimC VTermSimD.
Open Scope Z_scope.

Arguments Z.mul : simpl never.
Arguments Z.add : simpl never.
Arguments Z.sub : simpl never.
Arguments Z.div : simpl never.
Arguments Z.modulo : simpl never.
Arguments Z.ltb : simpl never.
Arguments Z.leb : simpl never.
Arguments Z.eqb : simpl never.
Arguments Z.min : simpl never.
Arguments Z.max : simpl never.
Arguments Z.pow : simpl never.
Arguments Z.to_nat : simpl never.
Arguments Z.of_nat : simpl never.


(* ---------- VPA ---------- *)
Lemma cd_vpa X args q : csi_dispatch X 100 args q = Ok (move_cursor X 0 (arg args 0 - 1) true false false).
Proof. unfold csi_dispatch. destruct (cur X). reflexivity. Qed.

Lemma sim_vpa s v r : R s v -> small r ->
  exists s', addbytes s (enc_cmd (CVpa r)) = Ok s' /\ R s' (exec v (CVpa r)).
Proof.
  intros HR Hr. cbn [enc_cmd exec].
  eapply (sim_csi s v [r] 100 1 1 100); [assumption|repeat constructor; assumption|reflexivity|unfold plain_byte; lia|].
  intros X HX. rewrite cd_vpa.
  eexists. split; [reflexivity|]. rewrite csi_args_1. cbn [arg nth]. rewrite !dflt_one.
  pose proof (R0_bounds X v HX) as B. pose proof (R0_org X v HX) as Og.
  erewrite with_xy_eq; [apply move_cursor_line; assumption| |]; csolve v Og.
Qed.

(* ---------- DECOM: ESC [ ? 6 h / ESC [ ? 6 l ---------- *)
Lemma addbyte_qmark t : InCsi t -> escbuf t = [] -> addbyte t 63 = Ok (with_escbuf t [63]).
Proof.
  intros [He Hp Hu Hd Hm] Hb.
  rewrite addbyte_ascii by (auto; lia).
  rewrite process_char_plain by (auto; unfold plain_byte; lia). rewrite He.
  unfold parse_escape. cbv zeta. rewrite Hp. replace (1 =? 1) with true by reflexivity.
  replace (csi_table 63) with (@None (Z * Z * Z)) by reflexivity. rewrite Hb. reflexivity.
Qed.

Lemma cd_modes X args q : csi_dispatch X 104 args q = csi_set_modes X args q false /\
                           csi_dispatch X 108 args q = csi_set_modes X args q true.
Proof. unfold csi_dispatch. destruct (cur X). split; reflexivity. Qed.

Lemma set_modes_1 X m q r : csi_set_modes X [m] q r = set_mode X m (negb r) q.
Proof. cbn [csi_set_modes]. destruct (set_mode X m (negb r) q); reflexivity. Qed.

Lemma feed_decom s f rest : Idle s -> f = 104 \/ f = 108 ->
  addbytes s ([27; 91; 63; 54; f] ++ rest) =
  bind (set_mode (csi_state s [63; 54]) 6 (f =? 104) true) (fun s' => addbytes (leave_escape (with_pstate s' 0)) rest).
Proof.
  intros Hi Hf. change ([27; 91; 63; 54; f] ++ rest) with (27 :: 91 :: 63 :: 54 :: f :: rest).
  rewrite feed_csi_intro by assumption.
  pose proof (csi_state_in s [] Hi) as I0.
  cbn [addbytes]. rewrite (addbyte_qmark _ I0 eq_refl). cbn [bind].
  change (with_escbuf (csi_state s []) [63]) with (csi_state s [63]).
  pose proof (csi_state_in s [63] Hi) as I1.
  rewrite (addbyte_param _ 54 I1) by (left; lia). cbn [bind].
  change (with_escbuf (csi_state s [63]) (escbuf (csi_state s [63]) ++ [54])) with (csi_state s [63; 54]).
  pose proof (csi_state_in s [63; 54] Hi) as [He Hps Hu Hd Hm].
  rewrite addbyte_ascii by (auto; lia).
  rewrite process_char_plain by (auto; unfold plain_byte; lia). rewrite He.
  unfold parse_escape. cbv zeta. rewrite Hps. replace (1 =? 1) with true by reflexivity.
  set (X := csi_state s [63; 54]) in *.
  assert (forall c, csi_table c = Some (1, 0, c) -> parse_csi X c = csi_dispatch X c [6] true) as Hp.
  { intros c Hc. unfold parse_csi. cbv zeta. rewrite Hc. change (escbuf X) with [63; 54]. reflexivity. }
  destruct (cd_modes X [6] true) as [D1 D2].
  destruct Hf as [-> | ->].
  - replace (csi_table 104) with (Some (1, 0, 104)) by reflexivity.
    rewrite (Hp 104 eq_refl), D1, set_modes_1. replace (104 =? 104) with true by reflexivity. cbn [negb].
    destruct (set_mode X 6 true true); reflexivity.
  - replace (csi_table 108) with (Some (1, 0, 108)) by reflexivity.
    rewrite (Hp 108 eq_refl), D2, set_modes_1. replace (108 =? 104) with false by reflexivity. cbn [negb].
    destruct (set_mode X 6 false true); reflexivity.
Qed.

Lemma set_mode_6 X on :
  set_mode X 6 on true = Ok (set_term_cursor (with_rotten (with_modes X (set_m_constrain (modes X) on)) false) 0 0).
Proof. reflexivity. Qed.

Lemma sim_decom s v on : R s v ->
  exists s', addbytes s (enc_cmd (CDecom on)) = Ok s' /\ R s' (exec v (CDecom on)).
Proof.
  intros HR. pose proof (R_idle s v HR) as Hi. destruct HR as (H0 & _).
  cbn [enc_cmd exec]. rewrite <- (app_nil_r [27; 91; 63; 54; _]).
  rewrite feed_decom by (auto; destruct on; auto).
  replace ((if on then 104 else 108) =? 104) with on by (destruct on; reflexivity).
  pose proof (R0_csi_state s v [63; 54] H0) as HX. set (X := csi_state s [63; 54]) in *.
  pose proof (R0_bounds X v HX) as B. pose proof HX as [].
  pose proof (set_mode_Keeps X 6 on true r_inv) as Kp. rewrite set_mode_6 in *. cbn [Keeps] in Kp. apply K_Inv in Kp.
  cbn [bind addbytes]. eexists. split; [reflexivity|]. apply R_leave.
  set (X1 := with_modes X (set_m_constrain (modes X) on)) in *.
  destruct (stc_frame (with_rotten X1 false) 0 0) as ((F1 & F2 & F3 & F4 & F5 & F6 & F7 & F8 & F9 & F10 & F11 & F12) & Fc & Fr & _).
  constructor; cbn [v_w v_h v_g v_x v_y v_pend v_top v_bot v_attr v_sb v_sbknown v_replies v_cs v_origin]; auto.
  - rewrite F1. exact r_w.
  - rewrite F2. exact r_h.
  - rewrite F3. exact r_grid.
  - rewrite Fc. unfold constrain, constrain_coords_gen. cbv zeta. cbn [sr_start sr_end modes width height with_rotten].
    replace (modes X1) with (set_m_constrain (modes X) on) by reflexivity. replace (width X1) with (width X) by reflexivity.
    replace (height X1) with (height X) by reflexivity. replace (sr_start X1) with (sr_start X) by reflexivity.
    replace (sr_end X1) with (sr_end X) by reflexivity.
    rewrite r_modes, r_w, r_h, r_top, r_bot. cbn [m_constrain modes0 set_m_constrain].
    replace (negb (negb (0 =? 0))) with true by reflexivity. rewrite andb_true_r.
    destruct on; split_ifs; try lia; try reflexivity; f_equal; lia.
  - rewrite F4. exact r_top.
  - rewrite F5. exact r_bot.
  - discriminate.
  - rewrite F6. exact r_attr.
  - rewrite F7. exact r_u8.
  - rewrite F8. cbn [modes with_rotten]. replace (modes X1) with (set_m_constrain (modes X) on) by reflexivity.
    rewrite r_modes. reflexivity.
  - rewrite F9. exact r_cset.
  - rewrite F10. exact r_tabs.
  - rewrite F12. exact r_replies.
  - rewrite F11. exact r_sb.
Qed.
