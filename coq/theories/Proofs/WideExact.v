(* C11 - well-formed double-byte text: within_double_byte is exact (0 = single byte, 1 = first half,
   2 = second half), hence move_next_char / move_prev_char are inverse on character boundaries. *)
From Coq Require Import ZArith List Bool Lia ZifyBool.
Import ListNotations.
From Urwid Require Import PyBase PyList Utf8 wcwidth_table_gen str_util_gen Width WidthFacts WideProofs.
Open Scope Z_scope.
Arguments Z.add : simpl never.
Arguments Z.sub : simpl never.
Arguments Z.mul : simpl never.
Arguments Z.ltb : simpl never.
Arguments Z.leb : simpl never.
Arguments Z.eqb : simpl never.
Arguments Z.land : simpl never.
Arguments Z.of_nat : simpl never.
Arguments Z.to_nat : simpl never.
Ltac Zify.zify_post_hook ::= Z.to_euclidean_division_equations.

(* a character of a double-byte encoding as urwid understands it: a single byte below 0x80, or a
   lead byte 0x81..0xFF followed by a trail byte 0x40..0x7E or 0x80..0xFF (EUC, Big5, GBK, UHC) *)
Inductive dbchar := DSingle (b : Z) | DDouble (lead trail : Z).
Definition dbchar_ok (c : dbchar) : Prop :=
  match c with
  | DSingle b => 0 <= b < 128
  | DDouble l t => 129 <= l <= 255 /\ (64 <= t <= 126 \/ 128 <= t <= 255)
  end.
Definition dbbytes (c : dbchar) : list Z := match c with DSingle b => [b] | DDouble l t => [l; t] end.
Definition dbflat (cs : list dbchar) : list Z := flat_map dbbytes cs.

Lemma dbflat_app a b : dbflat (a ++ b) = dbflat a ++ dbflat b.
Proof. apply flat_map_app. Qed.

(* j is where the backwards scan over high bytes from i stops *)
Definition scan_at (text : list Z) (ls i j : Z) : Prop :=
  ls - 1 <= j <= i /\
  (forall t, j < t <= i -> exists b, nthz text t = Some b /\ 128 <= b) /\
  (j = ls - 1 \/ exists b, nthz text j = Some b /\ b < 128).

Lemma scan_at_unique text ls i j1 j2 : scan_at text ls i j1 -> scan_at text ls i j2 -> j1 = j2.
Proof.
  intros (R1 & H1 & L1) (R2 & H2 & L2).
  destruct (Z.lt_trichotomy j1 j2) as [Hlt|[->|Hgt]]; [exfalso|reflexivity|exfalso].
  - destruct L2 as [->|(b & Hb & Hlo)]; [lia|].
    destruct (H1 j2 ltac:(lia)) as (b' & Hb' & Hhi). rewrite Hb in Hb'. inversion Hb'. lia.
  - destruct L1 as [->|(b & Hb & Hlo)]; [lia|].
    destruct (H2 j1 ltac:(lia)) as (b' & Hb' & Hhi). rewrite Hb in Hb'. inversion Hb'. lia.
Qed.

Lemma scan_at_base text ls : scan_at text ls (ls - 1) (ls - 1).
Proof. split; [lia|]. split; [intros; lia|now left]. Qed.

Lemma scan_at_low text ls i b : ls <= i -> nthz text i = Some b -> b < 128 -> scan_at text ls i i.
Proof. intros. split; [lia|]. split; [intros; lia|right; exists b; split; assumption]. Qed.

Lemma scan_at_high text ls i b j :
  ls <= i -> nthz text i = Some b -> 128 <= b -> scan_at text ls (i - 1) j -> scan_at text ls i j.
Proof.
  intros Hi Hb Hhi (R & H & L). split; [lia|]. split; [|exact L].
  intros t Ht. destruct (Z.eq_dec t i) as [->|]; [exists b; split; assumption|apply H; lia].
Qed.

Lemma wdb_scan_at text ls pos :
  0 <= ls <= pos -> pos <= zlen text ->
  exists j, wdb_scan text (Z.to_nat (pos - ls)) (pos - 1) ls = Ok j /\ scan_at text ls (pos - 1) j.
Proof.
  intros H1 H2.
  destruct (wdb_scan_spec text ls (Z.to_nat (pos - ls)) (pos - 1) ltac:(lia) ltac:(lia) ltac:(lia) ltac:(lia))
    as (j & Ej & A & B & C & D & E).
  exists j. split; [exact Ej|]. split; [|split; assumption].
  destruct (Z_lt_le_dec (pos - 1) ls); [specialize (C ltac:(lia))|specialize (B ltac:(lia))]; lia.
Qed.

(* a high byte: 1 or 2 by the parity of the distance to where the scan stops *)
Lemma wdb_high_at text ls pos v f j :
  0 <= ls <= pos -> pos < zlen text -> nthz text pos = Some v -> 128 <= v ->
  scan_at text ls (pos - 1) j ->
  wdb (S f) text ls pos = Ok (if (pos - j) mod 2 =? 0 then 2 else 1).
Proof.
  intros H1 H2 Hn Hv Hs.
  destruct (wdb_high text ls pos v f H1 H2 Hn Hv) as (j' & Ej' & Ew).
  destruct (wdb_scan_at text ls pos H1 ltac:(lia)) as (j'' & Ej'' & Hs'').
  rewrite Ej' in Ej''. inversion Ej''. subst j''.
  rewrite (scan_at_unique _ _ _ _ _ Hs Hs''). exact Ew.
Qed.

Lemma nthz_at (A0 : list Z) rest k :
  0 <= k < zlen rest -> nthz (A0 ++ rest) (zlen A0 + k) = Some (nth (Z.to_nat k) rest 0).
Proof.
  intros Hk. unfold nthz. pose proof (zlen_nonneg A0).
  destruct (zlen A0 + k <? 0) eqn:E; [lia|].
  rewrite nth_error_app2 by (unfold zlen in *; lia).
  replace (Z.to_nat (zlen A0 + k) - length A0)%nat with (Z.to_nat k) by (unfold zlen; lia).
  apply nth_error_nth'. unfold zlen in *. lia.
Qed.

Lemma zlen_dbbytes c : 1 <= zlen (dbbytes c) <= 2.
Proof. destruct c; unfold zlen; cbn; lia. Qed.

(* at a character boundary the run of high bytes just before it has even length *)
Lemma boundary_parity A0 mid : forall B0,
  Forall dbchar_ok mid ->
  exists j, scan_at (A0 ++ dbflat mid ++ B0) (zlen A0) (zlen A0 + zlen (dbflat mid) - 1) j /\
            (zlen A0 + zlen (dbflat mid) - 1 - j) mod 2 = 0.
Proof.
  induction mid as [|c mid' IH] using rev_ind; intros B0 Hok.
  - change (zlen (dbflat [])) with 0. exists (zlen A0 - 1). split.
    + replace (zlen A0 + 0 - 1) with (zlen A0 - 1) by lia. apply scan_at_base.
    + replace (zlen A0 + 0 - 1 - (zlen A0 - 1)) with 0 by lia. reflexivity.
  - apply Forall_app in Hok. destruct Hok as [Hok' Hc]. inversion Hc as [|c0 l0 Hc0 _ Heq]. clear Hc.
    rewrite dbflat_app. cbn [dbflat flat_map]. rewrite app_nil_r. rewrite zlen_app.
    rewrite <- app_assoc.
    destruct (IH (dbbytes c ++ B0) Hok') as (j' & Hs' & Hpar').
    set (text := A0 ++ dbflat mid' ++ dbbytes c ++ B0) in *.
    set (p' := zlen A0 + zlen (dbflat mid')) in *.
    pose proof (zlen_nonneg A0). pose proof (zlen_nonneg (dbflat mid')). pose proof (zlen_nonneg B0).
    assert (Htext : text = (A0 ++ dbflat mid') ++ dbbytes c ++ B0) by (unfold text; now rewrite <- app_assoc).
    assert (Hp' : p' = zlen (A0 ++ dbflat mid')) by (unfold p'; now rewrite zlen_app).
    destruct c as [b|l t]; cbn [dbbytes dbchar_ok] in *.
    + (* single byte *)
      change (zlen [b]) with 1.
      assert (Hn : nthz text p' = Some b).
      { rewrite Htext, Hp'. cbn [app]. apply nthz_app_mid. }
      exists p'. split.
      * replace (zlen A0 + (zlen (dbflat mid') + 1) - 1) with p' by (unfold p'; lia).
        apply (scan_at_low text (zlen A0) p' b); [unfold p'; lia|exact Hn|lia].
      * replace (zlen A0 + (zlen (dbflat mid') + 1) - 1 - p') with 0 by (unfold p'; lia). reflexivity.
    + change (zlen [l; t]) with 2.
      assert (Hn0 : nthz text p' = Some l).
      { rewrite Htext, Hp'. cbn [app]. apply nthz_app_mid. }
      assert (Hn1 : nthz text (p' + 1) = Some t).
      { rewrite Htext, Hp'. rewrite (nthz_at (A0 ++ dbflat mid') ([l; t] ++ B0) 1).
        - reflexivity.
        - rewrite zlen_app. change (zlen [l; t]) with 2. lia. }
      replace (zlen A0 + (zlen (dbflat mid') + 2) - 1) with (p' + 1) by (unfold p'; lia).
      destruct (Z_lt_le_dec t 128) as [Hlo|Hhi].
      * exists (p' + 1). split.
        -- apply (scan_at_low text (zlen A0) (p' + 1) t); [unfold p'; lia|exact Hn1|exact Hlo].
        -- replace (p' + 1 - (p' + 1)) with 0 by lia. reflexivity.
      * exists j'. split.
        -- apply (scan_at_high text (zlen A0) (p' + 1) t j'); [unfold p'; lia|exact Hn1|exact Hhi|].
           replace (p' + 1 - 1) with p' by lia.
           apply (scan_at_high text (zlen A0) p' l j'); [unfold p'; lia|exact Hn0|lia|exact Hs'].
        -- destruct Hs' as (R & _). lia.
Qed.

(* exactness *)
Theorem wdb_exact A0 m1 c m2 B0 :
  Forall dbchar_ok (m1 ++ c :: m2) ->
  let text := A0 ++ dbflat (m1 ++ c :: m2) ++ B0 in
  let ls := zlen A0 in
  let p := zlen A0 + zlen (dbflat m1) in
  match c with
  | DSingle _ => within_double_byte text ls p = Ok 0
  | DDouble _ _ => within_double_byte text ls p = Ok 1 /\ within_double_byte text ls (p + 1) = Ok 2
  end.
Proof.
  intros Hok text ls p.
  apply Forall_app in Hok. destruct Hok as [Hok1 Hok2]. inversion Hok2 as [|c0 l0 Hc Hok3 Heq]. clear Hok2.
  assert (Htext : text = A0 ++ dbflat m1 ++ (dbbytes c ++ dbflat m2 ++ B0)).
  { unfold text. rewrite dbflat_app. cbn [dbflat flat_map]. now rewrite <- !app_assoc. }
  destruct (boundary_parity A0 m1 (dbbytes c ++ dbflat m2 ++ B0) Hok1) as (j & Hs & Hpar).
  rewrite <- Htext in Hs. fold ls in Hs. fold p in Hs.
  pose proof (zlen_nonneg A0). pose proof (zlen_nonneg (dbflat m1)).
  pose proof (zlen_nonneg (dbflat m2)). pose proof (zlen_nonneg B0).
  assert (Htext2 : text = (A0 ++ dbflat m1) ++ dbbytes c ++ dbflat m2 ++ B0) by (rewrite Htext; now rewrite <- app_assoc).
  assert (Hp : p = zlen (A0 ++ dbflat m1)) by (unfold p; now rewrite zlen_app).
  assert (Hlen : zlen text = p + zlen (dbbytes c) + zlen (dbflat m2) + zlen B0).
  { rewrite Htext2, !zlen_app. lia. }
  unfold within_double_byte.
  destruct c as [b|l t]; cbn [dbbytes dbchar_ok] in *.
  - change (zlen [b]) with 1 in Hlen.
    assert (Hn : nthz text p = Some b) by (rewrite Htext2, Hp; cbn [app]; apply nthz_app_mid).
    rewrite (wdb_unfold 2). rewrite get_index_in by (unfold ls, p in *; lia). rewrite Hn.
    destruct ((64 <=? b) && (b <? 127)) eqn:E1.
    + destruct (p =? ls) eqn:E2; [reflexivity|].
      destruct (get_index_ok text (p - 1) ltac:(unfold ls, p in *; lia)) as (p1 & G1 & Hn1). rewrite G1.
      destruct (129 <=? p1) eqn:E3; [|reflexivity].
      (* the byte before the boundary is high: it is a second half, by parity *)
      destruct Hs as (R & Hhigh & Hlow).
      assert (Hj : j < p - 1).
      { destruct (Z_lt_le_dec j (p - 1)); [assumption|]. assert (j = p - 1) by lia. subst j.
        destruct Hlow as [Hl|(b' & Hb' & Hlo)]; [unfold ls, p in *; lia|].
        rewrite Hn1 in Hb'. inversion Hb'. lia. }
      assert (Hs2 : scan_at text ls (p - 1 - 1) j).
      { split; [lia|]. split; [intros t Ht; apply Hhigh; lia|exact Hlow]. }
      rewrite (wdb_high_at text ls (p - 1) p1 1 j ltac:(unfold ls, p in *; lia) ltac:(lia) Hn1 ltac:(lia) Hs2).
      destruct ((p - 1 - j) mod 2 =? 0) eqn:E4; [reflexivity|lia].
    + destruct (b <? 128) eqn:E2; [reflexivity|lia].
  - change (zlen [l; t]) with 2 in Hlen. destruct Hc as [Hl Ht].
    assert (Hn0 : nthz text p = Some l) by (rewrite Htext2, Hp; cbn [app]; apply nthz_app_mid).
    assert (Hn1 : nthz text (p + 1) = Some t).
    { rewrite Htext2, Hp. rewrite (nthz_at (A0 ++ dbflat m1) ([l; t] ++ dbflat m2 ++ B0) 1).
      - reflexivity.
      - rewrite zlen_app. change (zlen [l; t]) with 2. pose proof (zlen_nonneg (dbflat m2 ++ B0)). lia. }
    assert (E1 : wdb 3 text ls p = Ok 1 /\ wdb 2 text ls p = Ok 1).
    { split.
      - rewrite (wdb_high_at text ls p l 2 j ltac:(unfold ls, p in *; lia) ltac:(lia) Hn0 ltac:(lia) Hs).
        destruct ((p - j) mod 2 =? 0) eqn:E4; [lia|reflexivity].
      - rewrite (wdb_high_at text ls p l 1 j ltac:(unfold ls, p in *; lia) ltac:(lia) Hn0 ltac:(lia) Hs).
        destruct ((p - j) mod 2 =? 0) eqn:E4; [lia|reflexivity]. }
    split; [exact (proj1 E1)|].
    destruct (Z_lt_le_dec t 128) as [Hlo|Hhi].
    + (* low trail byte: the recursive branch *)
      rewrite (wdb_unfold 2). rewrite get_index_in by (unfold ls, p in *; lia). rewrite Hn1.
      destruct ((64 <=? t) && (t <? 127)) eqn:E2; [|lia].
      destruct (p + 1 =? ls) eqn:E3; [unfold ls, p in *; lia|].
      replace (p + 1 - 1) with p by lia.
      rewrite get_index_in by (unfold ls, p in *; lia). rewrite Hn0.
      destruct (129 <=? l) eqn:E4; [|lia]. rewrite (proj2 E1). reflexivity.
    + assert (Hs2 : scan_at text ls (p + 1 - 1) j).
      { replace (p + 1 - 1) with p by lia.
        apply (scan_at_high text ls p l j); [unfold ls, p in *; lia|exact Hn0|lia|exact Hs]. }
      rewrite (wdb_high_at text ls (p + 1) t 2 j ltac:(unfold ls, p in *; lia) ltac:(lia) Hn1 Hhi Hs2).
      destruct ((p + 1 - j) mod 2 =? 0) eqn:E4; [reflexivity|lia].
Qed.

(* next character and back, on a well-formed double-byte text *)
Theorem move_next_prev_inverse_wide pre c post :
  Forall dbchar_ok (pre ++ c :: post) ->
  let text := dbflat (pre ++ c :: post) in
  let a := zlen (dbflat pre) in
  exists n, move_next_char MWide text a (zlen text) = Ok n /\ n = a + zlen (dbbytes c) /\
            move_prev_char MWide text 0 n = Ok a.
Proof.
  intros Hok text a.
  pose proof (zlen_nonneg (dbflat pre)). pose proof (zlen_nonneg (dbflat post)). pose proof (zlen_dbbytes c).
  assert (Hlen : zlen text = a + zlen (dbbytes c) + zlen (dbflat post)).
  { unfold text. rewrite dbflat_app. cbn [dbflat flat_map]. rewrite !zlen_app. unfold a, dbflat. lia. }
  (* line_start = a: the character is the first one of the range *)
  assert (Hok' : Forall dbchar_ok ([] ++ c :: post)).
  { apply Forall_app in Hok. destruct Hok as [_ Hok]. exact Hok. }
  pose proof (wdb_exact (dbflat pre) [] c post [] Hok') as X1.
  cbn [app] in X1. change (zlen (dbflat [])) with 0 in X1. rewrite app_nil_r in X1.
  replace (dbflat pre ++ dbflat (c :: post)) with text in X1 by (unfold text; now rewrite dbflat_app).
  replace (zlen (dbflat pre) + 0) with a in X1 by (unfold a; lia). fold a in X1.
  (* line_start = 0 *)
  pose proof (wdb_exact [] pre c post [] Hok) as X0.
  cbn [app] in X0. change (zlen (@nil Z)) with 0 in X0. rewrite app_nil_r in X0.
  fold text in X0. replace (0 + zlen (dbflat pre)) with a in X0 by (unfold a; lia).
  unfold move_next_char, move_prev_char.
  destruct (zlen text <=? a) eqn:E0; [lia|].
  destruct c as [b|l t]; cbn [dbbytes] in *.
  - change (zlen [b]) with 1 in *. rewrite X1. cbn [Z.eqb]. exists (a + 1).
    destruct (0 =? 1) eqn:E1; [lia|]. split; [reflexivity|]. split; [reflexivity|].
    destruct (a + 1 <=? 0) eqn:E2; [lia|]. replace (a + 1 - 1) with a by lia. rewrite X0.
    destruct (0 =? 2) eqn:E3; [lia|]. reflexivity.
  - change (zlen [l; t]) with 2 in *. destruct X1 as [X1 _]. destruct X0 as [_ X0]. rewrite X1.
    destruct (1 =? 1) eqn:E1; [|lia]. exists (a + 2). split; [reflexivity|]. split; [reflexivity|].
    destruct (a + 2 <=? 0) eqn:E2; [lia|]. replace (a + 2 - 1) with (a + 1) by lia. rewrite X0.
    destruct (2 =? 2) eqn:E3; [|lia]. f_equal. lia.
Qed.

Theorem is_wide_char_wide wcw pre c post :
  Forall dbchar_ok (pre ++ c :: post) ->
  is_wide_char wcw MWide (dbflat (pre ++ c :: post)) (zlen (dbflat pre))
  = Ok (match c with DSingle _ => false | DDouble _ _ => true end).
Proof.
  intros Hok.
  assert (Hok' : Forall dbchar_ok ([] ++ c :: post)).
  { apply Forall_app in Hok. destruct Hok as [_ Hok]. exact Hok. }
  pose proof (wdb_exact (dbflat pre) [] c post [] Hok') as X1.
  cbn [app] in X1. change (zlen (dbflat [])) with 0 in X1. rewrite app_nil_r in X1.
  replace (dbflat pre ++ dbflat (c :: post)) with (dbflat (pre ++ c :: post)) in X1 by (now rewrite dbflat_app).
  replace (zlen (dbflat pre) + 0) with (zlen (dbflat pre)) in X1 by lia.
  unfold is_wide_char. destruct c as [b|l t].
  - rewrite X1. reflexivity.
  - destruct X1 as [X1 _]. rewrite X1. reflexivity.
Qed.

(* ---------- calc_trim_text in double-byte mode on well-formed text ---------- *)
(* every position is the first byte of a character or the second byte of a double one *)
Lemma classify cs : forall p, 0 <= p < zlen (dbflat cs) ->
  exists m1 c m2, cs = m1 ++ c :: m2 /\
    (p = zlen (dbflat m1) \/ (p = zlen (dbflat m1) + 1 /\ exists l t, c = DDouble l t)).
Proof.
  induction cs as [|c cs IH]; intros p Hp.
  - change (zlen (dbflat [])) with 0 in Hp. lia.
  - change (dbflat (c :: cs)) with (dbbytes c ++ dbflat cs) in Hp. rewrite zlen_app in Hp.
    pose proof (zlen_dbbytes c) as Hc.
    destruct (Z.eq_dec p 0) as [->|Hp0].
    + exists [], c, cs. split; [reflexivity|left; reflexivity].
    + destruct (Z_lt_le_dec p (zlen (dbbytes c))) as [Hlt|Hge].
      * (* second byte of c *)
        destruct c as [b|l t]; [change (zlen (dbbytes (DSingle b))) with 1 in *; lia|].
        change (zlen (dbbytes (DDouble l t))) with 2 in *.
        exists [], (DDouble l t), cs. split; [reflexivity|right]. split; [change (zlen (dbflat [])) with 0; lia|].
        exists l, t. reflexivity.
      * destruct (IH (p - zlen (dbbytes c)) ltac:(lia)) as (m1 & c' & m2 & E & Hcl).
        exists (c :: m1), c', m2. split; [rewrite E; reflexivity|].
        change (dbflat (c :: m1)) with (dbbytes c ++ dbflat m1). rewrite zlen_app.
        destruct Hcl as [Hcl|[Hcl Hd]]; [left; lia|right; split; [lia|exact Hd]].
Qed.

Definition dbclass (cs : list dbchar) (p : Z) : Z -> Prop := fun r =>
  exists m1 c m2, cs = m1 ++ c :: m2 /\
    ((p = zlen (dbflat m1) /\ r = match c with DSingle _ => 0 | DDouble _ _ => 1 end) \/
     (p = zlen (dbflat m1) + 1 /\ r = 2 /\ exists l t, c = DDouble l t)).

(* within_double_byte from any boundary at or before p gives the class of p *)
Lemma wdb_class pre rest p :
  Forall dbchar_ok (pre ++ rest) -> zlen (dbflat pre) <= p < zlen (dbflat (pre ++ rest)) ->
  exists r, within_double_byte (dbflat (pre ++ rest)) (zlen (dbflat pre)) p = Ok r /\
            within_double_byte (dbflat (pre ++ rest)) 0 p = Ok r /\
            (r = 0 \/ r = 1 \/ r = 2) /\
            (r = 2 -> exists pre' rest', pre ++ rest = pre' ++ rest' /\ zlen (dbflat pre') = p + 1 /\
                                         zlen (dbflat pre) < p) /\
            (r <> 2 -> exists pre' rest', pre ++ rest = pre' ++ rest' /\ zlen (dbflat pre') = p).
Proof.
  intros Hok Hp. rewrite dbflat_app, zlen_app in Hp.
  destruct (classify rest (p - zlen (dbflat pre)) ltac:(lia)) as (m1 & c & m2 & E & Hcl).
  subst rest.
  assert (Hok2 : Forall dbchar_ok (m1 ++ c :: m2)) by (apply Forall_app in Hok; tauto).
  assert (Hok3 : Forall dbchar_ok ((pre ++ m1) ++ c :: m2)) by (rewrite <- app_assoc; exact Hok).
  pose proof (wdb_exact (dbflat pre) m1 c m2 [] Hok2) as X1. cbn zeta in X1. rewrite app_nil_r in X1.
  rewrite <- dbflat_app in X1.
  pose proof (wdb_exact [] (pre ++ m1) c m2 [] Hok3) as X0. cbn zeta in X0.
  cbn [app] in X0. rewrite app_nil_r in X0. change (zlen (@nil Z)) with 0 in X0.
  rewrite <- app_assoc in X0. rewrite (dbflat_app pre m1), zlen_app in X0.
  replace (0 + (zlen (dbflat pre) + zlen (dbflat m1))) with (zlen (dbflat pre) + zlen (dbflat m1)) in X0 by lia.
  pose proof (zlen_nonneg (dbflat m1)).
  destruct Hcl as [Hcl|[Hcl (l & t & Hd)]].
  - replace p with (zlen (dbflat pre) + zlen (dbflat m1)) by lia.
    destruct c as [b|l t].
    + exists 0. split; [exact X1|]. split; [exact X0|]. split; [lia|]. split; [lia|]. intros _.
      exists (pre ++ m1), (DSingle b :: m2). split; [now rewrite <- app_assoc|]. now rewrite dbflat_app, zlen_app.
    + exists 1. split; [exact (proj1 X1)|]. split; [exact (proj1 X0)|]. split; [lia|]. split; [lia|]. intros _.
      exists (pre ++ m1), (DDouble l t :: m2). split; [now rewrite <- app_assoc|]. now rewrite dbflat_app, zlen_app.
  - subst c. replace p with (zlen (dbflat pre) + zlen (dbflat m1) + 1) by lia.
    exists 2. split; [exact (proj2 X1)|]. split; [exact (proj2 X0)|]. split; [lia|]. split; [|lia]. intros _.
    exists (pre ++ m1 ++ [DDouble l t]), m2. split; [now rewrite <- !app_assoc|]. split; [|lia].
    rewrite !dbflat_app, !zlen_app. change (zlen (dbflat [DDouble l t])) with 2. lia.
Qed.

Section WideTrim.
Variable wcw : Z -> Z.

Theorem calc_trim_text_wide cs sc ec :
  Forall dbchar_ok cs -> 0 <= sc < ec -> ec <= zlen (dbflat cs) ->
  exists sp ep pl pr,
    calc_trim_text wcw MWide (dbflat cs) 0 (zlen (dbflat cs)) sc ec = Ok (sp, ep, pl, pr) /\
    pl + (ep - sp) + pr = ec - sc /\ sp = sc + pl /\ (pl = 0 \/ pl = 1) /\ (pr = 0 \/ pr = 1) /\
    (pl = 1 <-> within_double_byte (dbflat cs) 0 sc = Ok 2) /\
    (pr = 1 <-> within_double_byte (dbflat cs) 0 ec = Ok 2).
Proof.
  intros Hok Hc He. set (T := dbflat cs) in *. set (L := zlen T) in *.
  (* the class of sc *)
  destruct (wdb_class [] cs sc Hok ltac:(change (zlen (dbflat [])) with 0; cbn [app]; fold T; fold L; lia))
    as (r1 & E1 & _ & Hr1 & H12 & H1n). cbn [app] in *. change (zlen (dbflat [])) with 0 in *. fold T in E1.
  (* the left edge: spos = sc + pl, a boundary *)
  assert (LEFT : exists pl pre rest,
     (if 0 <? sc then
       match calc_text_pos wcw MWide T 0 L sc with Err e_ => Err e_ | Ok (spos_4, sc_5) =>
       match (if sc_5 <? sc then
                match calc_text_pos wcw MWide T 0 L (sc + 1) with Err e_ => Err e_ | Ok (spos_7, sc_8) => Ok (1, spos_7) end
              else Ok (0, spos_4)) with Err e_ => Err e_ | Ok (pad_left_9, spos_10) => Ok (pad_left_9, spos_10) end end
      else @Ok (Z * Z) (0, 0)) = Ok (pl, sc + pl) /\
     (pl = 0 \/ pl = 1) /\ (pl = 1 <-> r1 = 2) /\ cs = pre ++ rest /\ zlen (dbflat pre) = sc + pl).
  { destruct (0 <? sc) eqn:E0.
    - unfold calc_text_pos. destruct (L <? 0) eqn:E00; [unfold L in *; pose proof (zlen_nonneg T); lia|].
      destruct (L <=? 0 + sc) eqn:E01; [lia|]. replace (0 + sc) with sc by lia. rewrite E1.
      destruct (r1 =? 2) eqn:E2.
      + assert (r1 = 2) by lia. subst r1. destruct (H12 eq_refl) as (pre' & rest' & Ecs & Hpre & _).
        replace (sc - 1 - 0) with (sc - 1) by lia. destruct (sc - 1 <? sc) eqn:E3; [|lia].
        destruct (L <=? 0 + (sc + 1)) eqn:E4.
        * (* the wide character is the last one *)
          exists 1, pre', rest'. split; [f_equal; f_equal; lia|]. split; [now right|]. split; [tauto|].
          split; [exact Ecs|exact Hpre].
        * replace (0 + (sc + 1)) with (sc + 1) by lia.
          destruct (wdb_class [] cs (sc + 1) Hok ltac:(change (zlen (dbflat [])) with 0; cbn [app]; fold T; fold L; lia))
            as (r2 & E5 & _ & Hr2 & H22 & _). cbn [app] in *. change (zlen (dbflat [])) with 0 in *. fold T in E5.
          rewrite E5.
          assert (r2 <> 2).
          { intros ->. destruct (H22 eq_refl) as (pre2 & rest2 & Ecs2 & Hpre2 & _).
            (* sc + 1 is a second half, but it is also a boundary: use exactness at that boundary *)
            rewrite Ecs in Hok.
            destruct rest' as [|c' rest''].
            - rewrite app_nil_r in Ecs. subst pre'. fold T in Hpre. fold L in Hpre. lia.
            - pose proof (wdb_exact [] pre' c' rest'' [] Hok) as X. cbn zeta in X. cbn [app] in X.
              rewrite app_nil_r in X. change (zlen (@nil Z)) with 0 in X. rewrite <- Ecs in X. fold T in X.
              replace (0 + zlen (dbflat pre')) with (sc + 1) in X by lia.
              destruct c'; [rewrite E5 in X; discriminate|destruct X as [X _]; rewrite E5 in X; discriminate]. }
          destruct (r2 =? 2) eqn:E6; [lia|].
          exists 1, pre', rest'. split; [reflexivity|]. split; [now right|]. split; [tauto|].
          split; [exact Ecs|exact Hpre].
      + destruct (H1n ltac:(lia)) as (pre' & rest' & Ecs & Hpre).
        replace (sc - 0) with sc by lia. destruct (sc <? sc) eqn:E3; [lia|].
        exists 0, pre', rest'. split; [f_equal; f_equal; lia|]. split; [now left|]. split; [lia|].
        split; [exact Ecs|lia].
    - assert (sc = 0) by lia. subst sc. exists 0, [], cs. split; [reflexivity|]. split; [now left|].
      split; [|split; [reflexivity|reflexivity]].
      split; [lia|]. intros ->. destruct (H12 eq_refl) as (_ & _ & _ & _ & Hlt). lia. }
  destruct LEFT as (pl & pre & rest & EL & Hpl & Hpl2 & Ecs & Hpre).
  unfold calc_trim_text, calc_trim_text_gen. fold T. fold L. rewrite EL.
  assert (Hrun : 0 <= ec - sc - pl) by lia.
  unfold calc_text_pos. destruct (L <? sc + pl) eqn:E7; [lia|].
  replace (sc + pl + (ec - sc - pl)) with ec by lia.
  destruct (L <=? ec) eqn:E8.
  - (* the range ends at the end of the line *)
    assert (ec = L) by lia. subst ec.
    destruct (L - (sc + pl) <? L - sc - pl) eqn:E9; [lia|].
    exists (sc + pl), L, pl, 0. split; [reflexivity|]. split; [lia|]. split; [reflexivity|]. split; [exact Hpl|].
    split; [now left|]. split; [rewrite Hpl2; split; [intros ->; exact E1|intros E; rewrite E1 in E; inversion E; reflexivity]|].
    split; [lia|]. intros E. exfalso.
    unfold within_double_byte in E. rewrite (wdb_unfold 2) in E. unfold L in E. rewrite get_index_out in E. discriminate.
  - rewrite Ecs in Hok.
    destruct (wdb_class pre rest ec Hok ltac:(rewrite <- Ecs; fold T; fold L; lia))
      as (r3 & E9 & E10 & Hr3 & H32 & H3n). rewrite <- Ecs in E9, E10. fold T in E9, E10. rewrite Hpre in E9.
    rewrite E9.
    destruct (r3 =? 2) eqn:E11.
    + assert (r3 = 2) by lia. subst r3.
      destruct (ec - 1 - (sc + pl) <? ec - sc - pl) eqn:E12; [|lia].
      exists (sc + pl), (ec - 1), pl, 1. split; [reflexivity|]. split; [lia|]. split; [reflexivity|]. split; [exact Hpl|].
      split; [now right|]. split; [rewrite Hpl2; split; [intros ->; exact E1|intros E; rewrite E1 in E; inversion E; reflexivity]|].
      split; [intros _; exact E10|reflexivity].
    + destruct (ec - (sc + pl) <? ec - sc - pl) eqn:E12; [lia|].
      exists (sc + pl), ec, pl, 0. split; [reflexivity|]. split; [lia|]. split; [reflexivity|]. split; [exact Hpl|].
      split; [now left|]. split; [rewrite Hpl2; split; [intros ->; exact E1|intros E; rewrite E1 in E; inversion E; reflexivity]|].
      split; [lia|]. intros E. rewrite E10 in E. inversion E. lia.
Qed.

End WideTrim.
