(* C11 - the statements of Properties/C11.v in terms of the model's own functions only
   (widths of ranges are written with calc_width, boundaries with boff). *)
From Coq Require Import ZArith List Bool Lia ZifyBool.
Import ListNotations.
From Urwid Require Import PyBase PyList Utf8 wcwidth_table_gen str_util_gen Width WidthFacts WidthProofs
     Utf8Proofs WideProofs RleProofs WidthTableProofs.
Open Scope Z_scope.

Definition scalars (s : list Z) : Prop := Forall (fun c => scalar c = true) s.

Lemma scalars_cp s : scalars s -> Forall cp s.
Proof. unfold scalars. apply Forall_impl. intros c. apply scalar_cp. Qed.

Lemma top_calc_text_pos_spec wcw text a b col :
  0 <= a <= b -> b <= zlen text -> 0 <= col ->
  exists p c, calc_text_pos wcw MStr text a b col = Ok (p, c) /\
    a <= p <= b /\ calc_width wcw MStr text a p = Ok c /\ c <= col /\
    (p = b \/ exists ch, nthz text p = Some ch /\ col < c + cw wcw ch) /\
    (forall j, a <= j < p -> exists w, calc_width wcw MStr text a (j + 1) = Ok w /\ w <= col).
Proof.
  intros H1 H2 H3. destruct (calc_text_pos_str_spec wcw text a b col H1 H2 H3) as (p & c & E & Hp & Hc & Hle & Hmax).
  exists p, c. split; [exact E|]. split; [exact Hp|]. split; [rewrite calc_width_str by lia; now rewrite Hc|].
  split; [exact Hle|]. split; [exact Hmax|].
  intros j Hj. exists (W wcw text a (j + 1)). split; [apply calc_width_str; lia|].
  eapply calc_text_pos_str_first; eassumption.
Qed.

Lemma top_bytes_agree wcw s a b col :
  scalars s -> 0 <= a <= b -> b <= zlen s ->
  calc_width wcw MUtf8 (encs s) (boff s a) (boff s b) = calc_width wcw MStr s a b /\
  exists p c, calc_text_pos wcw MStr s a b col = Ok (p, c) /\ a <= p <= b /\
              calc_text_pos wcw MUtf8 (encs s) (boff s a) (boff s b) col = Ok (boff s p, c).
Proof.
  intros Hs H1 H2. split; [apply calc_width_utf8_agrees; assumption|].
  apply calc_text_pos_utf8_agrees; [apply scalars_cp|..]; assumption.
Qed.

Lemma top_utf8_roundtrip pre c post :
  0 <= c < 1114112 ->
  decode_one (pre ++ utf8_encode c ++ post) (zlen pre) = Ok (c, zlen pre + zlen (utf8_encode c)) /\
  1 <= zlen (utf8_encode c) <= 4.
Proof. intros H. split; [apply decode_one_enc; exact H|apply zlen_utf8_encode]. Qed.

Lemma top_strict_decoder s : scalars s -> strict_decode (encs s) = Some s.
Proof. apply strict_decode_encs. Qed.

Lemma top_next_prev_utf8 s a b :
  scalars s -> 0 <= a < b -> b <= zlen s ->
  exists n, move_next_char MUtf8 (encs s) (boff s a) (boff s b) = Ok n /\ n = boff s (a + 1) /\
            move_prev_char MUtf8 (encs s) (boff s a) n = Ok (boff s a).
Proof. intros Hs. apply move_next_prev_inverse_utf8. apply scalars_cp, Hs. Qed.

Lemma top_prev_utf8 s a b :
  scalars s -> 0 <= a < b -> b <= zlen s ->
  move_prev_char MUtf8 (encs s) (boff s a) (boff s b) = Ok (boff s (b - 1)).
Proof. intros Hs. apply move_prev_char_utf8. apply scalars_cp, Hs. Qed.

Lemma top_is_wide_utf8 wcw s a ch :
  scalars s -> nthz s a = Some ch -> is_wide_char wcw MUtf8 (encs s) (boff s a) = Ok (cw wcw ch =? 2).
Proof.
  intros Hs Hn. pose proof (nthz_some_lt _ _ _ Hn) as Ha.
  destruct (split_at s a Ha) as (c & Es & Hn'). rewrite Hn in Hn'. inversion Hn'. subst c.
  assert (Hc : cp ch).
  { pose proof (scalars_cp s Hs) as F. rewrite Forall_forall in F. apply F. rewrite Es. apply in_or_app. right. now left. }
  unfold is_wide_char. rewrite Es at 1. rewrite encs_app, encs_cons. unfold boff.
  rewrite decode_one_enc by exact Hc. rewrite get_width_cp by exact Hc. reflexivity.
Qed.

Lemma top_trim_str wcw (Hw : forall c, wcw c <= 2) text a b sc ec wl :
  0 <= a <= b -> b <= zlen text -> 0 <= sc < ec -> calc_width wcw MStr text a b = Ok wl -> ec <= wl ->
  exists sp ep pl pr ws,
    calc_trim_text wcw MStr text a b sc ec = Ok (sp, ep, pl, pr) /\
    a <= sp <= ep /\ ep <= b /\ (pl = 0 \/ pl = 1) /\ (pr = 0 \/ pr = 1) /\
    calc_width wcw MStr text sp ep = Ok ws /\ pl + ws + pr = ec - sc /\
    calc_width wcw MStr text a sp = Ok (sc + pl) /\
    (pl = 1 <-> exists k w0 w1, a <= k < b /\ calc_width wcw MStr text a k = Ok w0 /\
                               calc_width wcw MStr text a (k + 1) = Ok w1 /\ w0 < sc < w1) /\
    (pr = 1 <-> exists k w0 w1, a <= k < b /\ calc_width wcw MStr text a k = Ok w0 /\
                               calc_width wcw MStr text a (k + 1) = Ok w1 /\ w0 < ec < w1).
Proof.
  intros H1 H2 Hc Hwl Hec. rewrite calc_width_str in Hwl by lia. inversion Hwl as [Hwl']. subst wl.
  destruct (calc_trim_text_str_spec wcw Hw text a b sc ec H1 H2 Hc Hec)
    as (sp & ep & pl & pr & E & Hs & He & Hpl & Hpr & HF & Htot & HL & HR).
  exists sp, ep, pl, pr, (W wcw text sp ep). split; [exact E|]. split; [exact Hs|]. split; [exact He|].
  split; [exact Hpl|]. split; [exact Hpr|]. split; [apply calc_width_str; lia|]. split; [exact Htot|].
  split; [rewrite calc_width_str by lia; now rewrite HF|].
  split.
  - rewrite HL. split.
    + intros (k & Hk & Hlt). exists k, (W wcw text a k), (W wcw text a (k + 1)).
      split; [exact Hk|]. rewrite !calc_width_str by lia. repeat split; lia.
    + intros (k & w0 & w1 & Hk & E0 & E1 & Hlt). rewrite calc_width_str in E0, E1 by lia.
      inversion E0. inversion E1. subst. exists k. split; [exact Hk|lia].
  - rewrite HR. split.
    + intros (k & Hk & Hlt). exists k, (W wcw text a k), (W wcw text a (k + 1)).
      split; [exact Hk|]. rewrite !calc_width_str by lia. repeat split; lia.
    + intros (k & w0 & w1 & Hk & E0 & E1 & Hlt). rewrite calc_width_str in E0, E1 by lia.
      inversion E0. inversion E1. subst. exists k. split; [exact Hk|lia].
Qed.

Lemma top_trim_utf8 wcw s a b sc ec :
  scalars s -> 0 <= a <= b -> b <= zlen s ->
  exists sp ep pl pr,
    calc_trim_text wcw MStr s a b sc ec = Ok (sp, ep, pl, pr) /\
    calc_trim_text wcw MUtf8 (encs s) (boff s a) (boff s b) sc ec = Ok (boff s sp, boff s ep, pl, pr).
Proof. intros Hs. apply calc_trim_text_utf8_agrees. apply scalars_cp, Hs. Qed.

Lemma top_rle_laws {A} (r r2 : list (A * Z)) :
  rle_len (r ++ r2) = rle_len r + rle_len r2.
Proof. apply rle_len_app. Qed.

Lemma top_rle_modify (r r2 : rle) a n :
  rle_len (rle_append_modify r a n) = rle_len r + n /\
  rle_len (rle_prepend_modify r a n) = n + rle_len r /\
  rle_len (rle_join_modify r r2) = rle_len r + rle_len r2.
Proof.
  split; [apply rle_append_modify_len|]. split; [apply rle_prepend_modify_len|apply rle_join_modify_len].
Qed.

Lemma top_target_encoding_len enc ud s :
  rle_len (snd (apply_target_encoding enc ud s)) = zlen (fst (apply_target_encoding enc ud s)) /\
  rle_len (snd (ate_bytes s)) = zlen (fst (ate_bytes s)).
Proof. split; [apply apply_target_encoding_len|apply ate_bytes_len]. Qed.

(* trim_text_attr_cs on the UTF-8 encoding of a text: defined, and the three results have one length *)
Lemma top_trim_text_attr_cs_utf8 wcw (Hw : forall c, wcw c <= 2) s (attr cs : rle) sc ec wl :
  scalars s -> 0 <= sc < ec -> calc_width wcw MStr s 0 (zlen s) = Ok wl -> ec <= wl ->
  nn attr -> nn cs -> rle_len attr = zlen (encs s) -> rle_len cs = zlen (encs s) ->
  exists t a c, trim_text_attr_cs wcw MUtf8 (encs s) attr cs sc ec = Ok (t, a, c) /\
                rle_len a = zlen t /\ rle_len c = zlen t.
Proof.
  intros Hs Hc Hwl Hec Na Nc La Lc. pose proof (zlen_nonneg s) as Hn.
  destruct (top_trim_str wcw Hw s 0 (zlen s) sc ec wl ltac:(lia) ltac:(lia) Hc Hwl Hec)
    as (sp & ep & pl & pr & ws & E & Hsp & Hep & Hpl & Hpr & _).
  destruct (top_trim_utf8 wcw s 0 (zlen s) sc ec Hs ltac:(lia) ltac:(lia)) as (sp' & ep' & pl' & pr' & E1 & E2).
  rewrite E in E1. inversion E1. subst sp' ep' pl' pr'.
  replace (boff s 0) with 0 in E2 by reflexivity. rewrite boff_full in E2.
  pose proof (boff_mono s 0 sp ltac:(lia) ltac:(lia)) as M1. replace (boff s 0) with 0 in M1 by reflexivity.
  pose proof (boff_mono s sp ep ltac:(lia) ltac:(lia)) as M2.
  pose proof (boff_mono s ep (zlen s) ltac:(lia) ltac:(lia)) as M3. rewrite boff_full in M3.
  destruct (trim_text_attr_cs_lens wcw MUtf8 (encs s) attr cs sc ec (boff s sp) (boff s ep) pl pr E2
              ltac:(lia) ltac:(lia) Hpl Hpr Na Nc La Lc) as (t & a & c & Et & _ & Ha & Hcc).
  exists t, a, c. repeat split; assumption.
Qed.
