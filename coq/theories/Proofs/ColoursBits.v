(* C18 - bit-vector algebra of AttrSpec.__value.
   The packed value is a union of pieces that live in pairwise disjoint regions of bits:
     the depth marker (HIGH_88 / HIGH_TRUE), the foreground number (bits 0-23), the foreground
     flags (settings and colour kind), the background number (bits 24-47), the background kind.
   "x lives in region S" is [sub x S : Z.land x S = x]; everything below follows from the
   distributivity of land over lor and from closed computations on the translated masks. *)
From Coq Require Import ZArith List Bool Lia ZifyBool.
Import ListNotations.
From Urwid Require Import PyBase PyList ColourBase colours_gen Colours.
Open Scope Z_scope.

Definition sub (x S : Z) : Prop := Z.land x S = x.

Lemma sub_keep x S M : sub x S -> Z.land S M = S -> Z.land x M = x.
Proof.
  unfold sub; intros H1 H2.
  replace (Z.land x M) with (Z.land (Z.land x S) M) by (now rewrite H1).
  rewrite <- Z.land_assoc, H2. exact H1.
Qed.
Lemma sub_zero x S M : sub x S -> Z.land S M = 0 -> Z.land x M = 0.
Proof.
  unfold sub; intros H1 H2.
  replace (Z.land x M) with (Z.land (Z.land x S) M) by (now rewrite H1).
  rewrite <- Z.land_assoc, H2. apply Z.land_0_r.
Qed.
(* x in S, M in R, S and R disjoint *)
Lemma sub_disj x S M R : sub x S -> sub M R -> Z.land S R = 0 -> Z.land x M = 0.
Proof.
  unfold sub; intros H1 H2 H3.
  replace (Z.land x M) with (Z.land (Z.land x S) (Z.land M R)) by (now rewrite H1, H2).
  rewrite <- Z.land_assoc. rewrite (Z.land_assoc S M R), (Z.land_comm S M), <- (Z.land_assoc M S R), H3.
  now rewrite Z.land_0_r, Z.land_0_r.
Qed.
Lemma sub_lor a b S : sub a S -> sub b S -> sub (Z.lor a b) S.
Proof. unfold sub; intros. now rewrite Z.land_lor_distr_l, H, H0. Qed.
Lemma sub_land x S X : sub x S -> sub (Z.land x X) S.
Proof.
  unfold sub; intros H. rewrite <- Z.land_assoc, (Z.land_comm X S), Z.land_assoc, H. reflexivity.
Qed.
Lemma sub_0 S : sub 0 S.
Proof. apply Z.land_0_l. Qed.
Lemma sub_refl S : sub S S.
Proof. apply Z.land_diag. Qed.

(* ---- the regions ---- *)
Definition R24 : Z := Z.ones 24.
Definition RS : Z := BG_COLOR_MASK.
Definition RM : Z := Z.lor HIGH_88_COLOR HIGH_TRUE_COLOR.
Definition RSET : Z := Z.lor STANDOUT (Z.lor UNDERLINE (Z.lor BOLD (Z.lor BLINK (Z.lor ITALICS STRIKETHROUGH)))).
Definition RF : Z := Z.lor RSET (Z.lor FG_BASIC_COLOR (Z.lor FG_HIGH_COLOR FG_TRUE_COLOR)).
Definition RB : Z := Z.lor BG_BASIC_COLOR (Z.lor BG_HIGH_COLOR BG_TRUE_COLOR).

Definition low24 (x : Z) : Prop := 0 <= x < 16777216.

Lemma sub_low24 x : low24 x -> sub x R24.
Proof.
  unfold low24, sub, R24; intros H. rewrite Z.land_ones by lia.
  apply Z.mod_small. change (2 ^ 24) with 16777216. lia.
Qed.
Lemma sub_shift y : low24 y -> sub (Z.shiftl y 24) RS.
Proof.
  intros H. unfold sub. change RS with (Z.shiftl R24 24).
  rewrite <- Z.shiftl_land. now rewrite (sub_low24 y H).
Qed.
Lemma shift_back y : Z.shiftr (Z.shiftl y 24) 24 = y.
Proof. rewrite Z.shiftr_shiftl_l by lia. apply Z.shiftl_0_r. Qed.

(* ---- the two packing steps of the constructor ---- *)
Definition pack1 (m fn ff : Z) : Z := Z.lor (Z.lor (Z.land m (Z.lnot FG_MASK)) fn) ff.
Definition pack (m fn ff bn bf : Z) : Z :=
  Z.lor (Z.lor (Z.land (pack1 m fn ff) (Z.lnot BG_MASK)) (Z.shiftl bn BG_SHIFT)) bf.

Record PackOK (m fn ff bn bf : Z) : Prop := {
  ok_m : sub m RM; ok_fn : low24 fn; ok_ff : sub ff RF; ok_bn : low24 bn; ok_bf : sub bf RB }.

Lemma pack1_flat m fn ff : sub m RM -> pack1 m fn ff = Z.lor (Z.lor m fn) ff.
Proof. intros H. unfold pack1. now rewrite (sub_keep m RM _ H) by (vm_compute; reflexivity). Qed.

Lemma pack_flat m fn ff bn bf : PackOK m fn ff bn bf ->
  pack m fn ff bn bf = Z.lor (Z.lor (Z.lor (Z.lor m fn) ff) (Z.shiftl bn 24)) bf.
Proof.
  intros [Hm Hfn Hff Hbn Hbf]. unfold pack. rewrite pack1_flat by assumption.
  change BG_SHIFT with 24.
  rewrite !Z.land_lor_distr_l.
  rewrite (sub_keep m RM _ Hm) by (vm_compute; reflexivity).
  rewrite (sub_keep fn R24 _ (sub_low24 fn Hfn)) by (vm_compute; reflexivity).
  rewrite (sub_keep ff RF _ Hff) by (vm_compute; reflexivity).
  reflexivity.
Qed.

(* clearing the true-colour marker touches the marker only *)
Lemma pack_clear m fn ff bn bf : PackOK m fn ff bn bf ->
  Z.land (pack m fn ff bn bf) (Z.lnot HIGH_TRUE_COLOR) = pack (Z.land m (Z.lnot HIGH_TRUE_COLOR)) fn ff bn bf.
Proof.
  intros OK.
  assert (OK' : PackOK (Z.land m (Z.lnot HIGH_TRUE_COLOR)) fn ff bn bf)
    by (destruct OK; constructor; auto using sub_land).
  rewrite (pack_flat _ _ _ _ _ OK), (pack_flat _ _ _ _ _ OK'). destruct OK as [Hm Hfn Hff Hbn Hbf].
  rewrite !Z.land_lor_distr_l.
  rewrite (sub_keep fn R24 _ (sub_low24 fn Hfn)) by (vm_compute; reflexivity).
  rewrite (sub_keep ff RF _ Hff) by (vm_compute; reflexivity).
  rewrite (sub_keep _ RS _ (sub_shift bn Hbn)) by (vm_compute; reflexivity).
  rewrite (sub_keep bf RB _ Hbf) by (vm_compute; reflexivity).
  reflexivity.
Qed.

Section Acc.
Variables m fn ff bn bf : Z.
Hypothesis OK : PackOK m fn ff bn bf.
Let v := pack m fn ff bn bf.

Lemma land_pack M :
  Z.land v M = Z.lor (Z.lor (Z.lor (Z.lor (Z.land m M) (Z.land fn M)) (Z.land ff M)) (Z.land (Z.shiftl bn 24) M)) (Z.land bf M).
Proof. unfold v. rewrite pack_flat by assumption. now rewrite !Z.land_lor_distr_l. Qed.

Lemma acc_fgnum : attr_foreground_number v = fn.
Proof.
  destruct OK as [Hm Hfn Hff Hbn Hbf]. unfold attr_foreground_number. rewrite land_pack.
  rewrite (sub_zero m RM _ Hm) by (vm_compute; reflexivity).
  rewrite (sub_keep fn R24 _ (sub_low24 fn Hfn)) by (vm_compute; reflexivity).
  rewrite (sub_zero ff RF _ Hff) by (vm_compute; reflexivity).
  rewrite (sub_zero _ RS _ (sub_shift bn Hbn)) by (vm_compute; reflexivity).
  rewrite (sub_zero bf RB _ Hbf) by (vm_compute; reflexivity).
  now rewrite !Z.lor_0_r, Z.lor_0_l.
Qed.

Lemma acc_bgnum : attr_background_number v = bn.
Proof.
  destruct OK as [Hm Hfn Hff Hbn Hbf]. unfold attr_background_number. rewrite land_pack.
  rewrite (sub_zero m RM _ Hm) by (vm_compute; reflexivity).
  rewrite (sub_zero fn R24 _ (sub_low24 fn Hfn)) by (vm_compute; reflexivity).
  rewrite (sub_zero ff RF _ Hff) by (vm_compute; reflexivity).
  rewrite (sub_keep _ RS _ (sub_shift bn Hbn)) by (vm_compute; reflexivity).
  rewrite (sub_zero bf RB _ Hbf) by (vm_compute; reflexivity).
  rewrite !Z.lor_0_r, !Z.lor_0_l. change BG_SHIFT with 24. apply shift_back.
Qed.

(* a mask inside the foreground-flag region sees only the foreground flags, etc. *)
Lemma acc_ff M : sub M RF -> Z.land v M = Z.land ff M.
Proof.
  intros HM. destruct OK as [Hm Hfn Hff Hbn Hbf]. rewrite land_pack.
  rewrite (sub_disj m RM M RF Hm HM) by (vm_compute; reflexivity).
  rewrite (sub_disj fn R24 M RF (sub_low24 fn Hfn) HM) by (vm_compute; reflexivity).
  rewrite (sub_disj _ RS M RF (sub_shift bn Hbn) HM) by (vm_compute; reflexivity).
  rewrite (sub_disj bf RB M RF Hbf HM) by (vm_compute; reflexivity).
  now rewrite !Z.lor_0_r, !Z.lor_0_l.
Qed.
Lemma acc_bf M : sub M RB -> Z.land v M = Z.land bf M.
Proof.
  intros HM. destruct OK as [Hm Hfn Hff Hbn Hbf]. rewrite land_pack.
  rewrite (sub_disj m RM M RB Hm HM) by (vm_compute; reflexivity).
  rewrite (sub_disj fn R24 M RB (sub_low24 fn Hfn) HM) by (vm_compute; reflexivity).
  rewrite (sub_disj ff RF M RB Hff HM) by (vm_compute; reflexivity).
  rewrite (sub_disj _ RS M RB (sub_shift bn Hbn) HM) by (vm_compute; reflexivity).
  now rewrite !Z.lor_0_l.
Qed.
Lemma acc_m M : sub M RM -> Z.land v M = Z.land m M.
Proof.
  intros HM. destruct OK as [Hm Hfn Hff Hbn Hbf]. rewrite land_pack.
  rewrite (sub_disj fn R24 M RM (sub_low24 fn Hfn) HM) by (vm_compute; reflexivity).
  rewrite (sub_disj ff RF M RM Hff HM) by (vm_compute; reflexivity).
  rewrite (sub_disj _ RS M RM (sub_shift bn Hbn) HM) by (vm_compute; reflexivity).
  rewrite (sub_disj bf RB M RM Hbf HM) by (vm_compute; reflexivity).
  now rewrite !Z.lor_0_r.
Qed.
(* a mask with one part in each flag region *)
Lemma acc_ff_bf Mf Mb : sub Mf RF -> sub Mb RB ->
  Z.land v (Z.lor Mb Mf) = Z.lor (Z.land bf Mb) (Z.land ff Mf).
Proof. intros. now rewrite Z.land_lor_distr_r, acc_bf, acc_ff by assumption. Qed.
End Acc.

(* the intermediate value (after __set_foreground, before __set_background) keeps the marker *)
Lemma pack1_marker m fn ff M : sub m RM -> low24 fn -> sub ff RF -> sub M RM ->
  Z.land (pack1 m fn ff) M = Z.land m M.
Proof.
  intros Hm Hfn Hff HM. rewrite pack1_flat by assumption. rewrite !Z.land_lor_distr_l.
  rewrite (sub_disj fn R24 M RM (sub_low24 fn Hfn) HM) by (vm_compute; reflexivity).
  rewrite (sub_disj ff RF M RM Hff HM) by (vm_compute; reflexivity).
  now rewrite !Z.lor_0_r.
Qed.

(* ---- settings as six booleans, colour kinds ---- *)
Record sset := SS { s_bold : bool; s_italics : bool; s_underline : bool; s_blink : bool;
                    s_standout : bool; s_strike : bool }.
Definition ss_empty : sset := SS false false false false false false.
Definition mem (s : setting) (ss : sset) : bool :=
  match s with
  | SBold => s_bold ss | SItalics => s_italics ss | SUnderline => s_underline ss
  | SBlink => s_blink ss | SStandout => s_standout ss | SStrike => s_strike ss
  end.
Definition add (s : setting) (ss : sset) : sset :=
  let '(SS a b c d e f) := ss in
  match s with
  | SBold => SS true b c d e f | SItalics => SS a true c d e f | SUnderline => SS a b true d e f
  | SBlink => SS a b c true e f | SStandout => SS a b c d true f | SStrike => SS a b c d e true
  end.
Definition bz (b : bool) (x : Z) : Z := if b then x else 0.
Definition enc (ss : sset) : Z :=
  Z.lor (bz (s_bold ss) BOLD) (Z.lor (bz (s_italics ss) ITALICS) (Z.lor (bz (s_underline ss) UNDERLINE)
    (Z.lor (bz (s_blink ss) BLINK) (Z.lor (bz (s_standout ss) STANDOUT) (bz (s_strike ss) STRIKETHROUGH))))).

Inductive kind := KNone | KBasic | KHigh | KTrue.
Definition fgflag (k : kind) : Z :=
  match k with KNone => 0 | KBasic => FG_BASIC_COLOR | KHigh => FG_HIGH_COLOR | KTrue => FG_TRUE_COLOR end.
Definition bgflag (k : kind) : Z :=
  match k with KNone => 0 | KBasic => BG_BASIC_COLOR | KHigh => BG_HIGH_COLOR | KTrue => BG_TRUE_COLOR end.
Definition is_basic (k : kind) : bool := match k with KBasic => true | _ => false end.
Definition is_high (k : kind) : bool := match k with KHigh => true | _ => false end.
Definition is_true (k : kind) : bool := match k with KTrue => true | _ => false end.
(* the accumulated [flags] of __set_foreground *)
Definition F (ss : sset) (k : kind) : Z := Z.lor (enc ss) (fgflag k).

Ltac all_ss ss := destruct ss as [[] [] [] [] [] []].

Lemma enc_test ss k s : (Z.land (F ss k) (ATTRIBUTES s) =? 0) = negb (mem s ss).
Proof. all_ss ss; destruct k, s; vm_compute; reflexivity. Qed.
Lemma enc_step ss k s : Z.lor (F ss k) (ATTRIBUTES s) = F (add s ss) k.
Proof. all_ss ss; destruct k, s; vm_compute; reflexivity. Qed.
Lemma F_kind ss k : Z.lor (F ss KNone) (fgflag k) = F ss k.
Proof. unfold F. cbn [fgflag]. now rewrite Z.lor_0_r. Qed.
Lemma F_empty : F ss_empty KNone = 0.
Proof. reflexivity. Qed.
Lemma F_sub ss k : sub (F ss k) RF.
Proof. all_ss ss; destruct k; vm_compute; reflexivity. Qed.
Lemma bgflag_sub k : sub (bgflag k) RB.
Proof. destruct k; vm_compute; reflexivity. Qed.

(* reading the flags back *)
Lemma F_basic ss k : (Z.land (F ss k) FG_BASIC_COLOR =? 0) = negb (match k with KBasic => true | _ => false end).
Proof. all_ss ss; destruct k; vm_compute; reflexivity. Qed.
Lemma F_high ss k : (Z.land (F ss k) FG_HIGH_COLOR =? 0) = negb (match k with KHigh => true | _ => false end).
Proof. all_ss ss; destruct k; vm_compute; reflexivity. Qed.
Lemma F_true ss k : (Z.land (F ss k) FG_TRUE_COLOR =? 0) = negb (match k with KTrue => true | _ => false end).
Proof. all_ss ss; destruct k; vm_compute; reflexivity. Qed.
Lemma F_setting ss k M b :
  In (M, b) [(BOLD, s_bold ss); (ITALICS, s_italics ss); (STANDOUT, s_standout ss); (BLINK, s_blink ss);
             (UNDERLINE, s_underline ss); (STRIKETHROUGH, s_strike ss)] ->
  (Z.land (F ss k) M =? 0) = negb b.
Proof.
  intros H. cbn [In] in H.
  repeat (destruct H as [H|H]; [injection H as <- <-; all_ss ss; destruct k; vm_compute; reflexivity|]).
  destruct H.
Qed.

(* the values of the kind bits *)
Lemma F_val ss k :
  Z.land (F ss k) FG_BASIC_COLOR = bz (is_basic k) FG_BASIC_COLOR /\
  Z.land (F ss k) FG_HIGH_COLOR = bz (is_high k) FG_HIGH_COLOR /\
  Z.land (F ss k) FG_TRUE_COLOR = bz (is_true k) FG_TRUE_COLOR.
Proof. all_ss ss; destruct k; vm_compute; repeat split; reflexivity. Qed.

Lemma masks_in_RF :
  sub FG_BASIC_COLOR RF /\ sub FG_HIGH_COLOR RF /\ sub FG_TRUE_COLOR RF /\ sub BOLD RF /\ sub ITALICS RF /\
  sub STANDOUT RF /\ sub BLINK RF /\ sub UNDERLINE RF /\ sub STRIKETHROUGH RF.
Proof. repeat split; vm_compute; reflexivity. Qed.
Lemma masks_in_RB : sub BG_BASIC_COLOR RB /\ sub BG_HIGH_COLOR RB /\ sub BG_TRUE_COLOR RB.
Proof. repeat split; vm_compute; reflexivity. Qed.
Lemma masks_in_RM : sub HIGH_88_COLOR RM /\ sub HIGH_TRUE_COLOR RM.
Proof. repeat split; vm_compute; reflexivity. Qed.
