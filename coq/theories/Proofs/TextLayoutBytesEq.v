(* The byte-mode primitives written out in Model/TextLayoutBytes.v are the functions of C11's model of
   urwid/str_util.py (Model/Width.v, mode MUtf8), whose decode_one arithmetic and calc_trim_text are
   re-translated from the source on every run: if the source changes, these equalities stop compiling. *)
From Coq Require Import ZArith List Bool Lia.
Import ListNotations.
From Urwid Require Import PyBase PyList Utf8 TextLayout TextLayoutBytes.
From Urwid Require str_util_gen Width.
Open Scope Z_scope.

Lemma u8_py_slice_eq {A} (l : list A) a b : u8_py_slice l a b = Width.py_slice l a b.
Proof. reflexivity. Qed.

Lemma u8_decode_one_arith_eq b1 b2 b3 b4 lt pos :
  u8_decode_one_arith b1 b2 b3 b4 lt pos = str_util_gen.decode_one_arith_gen b1 b2 b3 b4 lt pos.
Proof. reflexivity. Qed.

Lemma u8_decode_one_eq t pos : u8_decode_one t pos = Width.decode_one t pos.
Proof. reflexivity. Qed.

Lemma u8_mpc_loop_eq t fuel : forall o, u8_mpc_loop t fuel o = Width.mpc_loop t fuel o.
Proof. induction fuel; intros o; cbn; [reflexivity|]. destruct (get_index t o); [|reflexivity]. now rewrite IHfuel. Qed.

Lemma u8_move_prev_char_eq t a b : u8_move_prev_char t a b = Width.move_prev_char Width.MUtf8 t a b.
Proof. unfold u8_move_prev_char, Width.move_prev_char. now rewrite u8_mpc_loop_eq. Qed.

Lemma u8_mnc_loop_eq t fuel : forall o e, u8_mnc_loop t fuel o e = Width.mnc_loop t fuel o e.
Proof.
  induction fuel; intros o e; cbn; [reflexivity|]. destruct (o <? e); [|reflexivity].
  destruct (get_index t o); [|reflexivity]. now rewrite IHfuel.
Qed.

Lemma u8_move_next_char_eq t a b : u8_move_next_char t a b = Width.move_next_char Width.MUtf8 t a b.
Proof. unfold u8_move_next_char, Width.move_next_char. now rewrite u8_mnc_loop_eq. Qed.

Section Eq.
Variable wcw : Z -> Z.

Lemma u8_cw_eq c : u8_cw wcw c = Width.cw wcw c.
Proof. reflexivity. Qed.

Lemma u8_get_width_eq o : u8_get_width wcw o = Width.get_width wcw o.
Proof. reflexivity. Qed.

Lemma u8_wsum_eq l : u8_wsum wcw l = Width.wsum wcw l.
Proof. induction l; cbn; [reflexivity | now rewrite IHl]. Qed.

Lemma u8_ctp_loop_eq t fuel : forall i sc e p, u8_ctp_loop wcw t fuel i sc e p = Width.ctp_utf8_loop wcw t fuel i sc e p.
Proof.
  induction fuel; intros i sc e p; cbn; [reflexivity|]. destruct (i <? e); [|reflexivity].
  rewrite u8_decode_one_eq. destruct (Width.decode_one t i) as [[o n]|]; [|reflexivity].
  rewrite u8_get_width_eq. destruct (Width.get_width wcw o); [|reflexivity].
  destruct (p <? a + sc); [reflexivity | apply IHfuel].
Qed.

Lemma u8_calc_text_pos_eq t a b p : u8_calc_text_pos wcw t a b p = Width.calc_text_pos wcw Width.MUtf8 t a b p.
Proof. unfold u8_calc_text_pos, Width.calc_text_pos. now rewrite u8_ctp_loop_eq. Qed.

Lemma u8_cw_loop_eq t fuel : forall i sc e, u8_cw_loop wcw t fuel i sc e = Width.cw_utf8_loop wcw t fuel i sc e.
Proof.
  induction fuel; intros i sc e; cbn; [reflexivity|]. destruct (i <? e); [|reflexivity].
  rewrite u8_decode_one_eq. destruct (Width.decode_one t i) as [[o n]|]; [|reflexivity].
  rewrite u8_get_width_eq. destruct (Width.get_width wcw o); [|reflexivity]. apply IHfuel.
Qed.

Lemma u8_calc_width_eq t a b : u8_calc_width wcw t a b = Width.calc_width wcw Width.MUtf8 t a b.
Proof.
  unfold u8_calc_width, Width.calc_width. destruct (b <? a); [reflexivity|].
  rewrite u8_py_slice_eq. destruct (strict_decode (Width.py_slice t a b)); [now rewrite u8_wsum_eq | apply u8_cw_loop_eq].
Qed.

Lemma u8_is_wide_char_eq t o : u8_is_wide_char wcw t o = Width.is_wide_char wcw Width.MUtf8 t o.
Proof. reflexivity. Qed.

Lemma u8_calc_trim_text_eq t a b sc ec :
  u8_calc_trim_text wcw t a b sc ec = Width.calc_trim_text wcw Width.MUtf8 t a b sc ec.
Proof.
  unfold u8_calc_trim_text, Width.calc_trim_text, str_util_gen.calc_trim_text_gen.
  pose proof (u8_calc_text_pos_eq t) as E.
  destruct (0 <? sc).
  - rewrite E. destruct (Width.calc_text_pos wcw Width.MUtf8 t a b sc) as [[p c]|]; [|reflexivity].
    destruct (c <? sc).
    + rewrite E. destruct (Width.calc_text_pos wcw Width.MUtf8 t a b (sc + 1)) as [[p2 c2]|]; [|reflexivity].
      cbn. rewrite E. reflexivity.
    + cbn. rewrite E. reflexivity.
  - cbn. rewrite E. reflexivity.
Qed.

End Eq.
