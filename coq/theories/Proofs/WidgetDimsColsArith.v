(* C01 - Columns.column_widths of Model/WidgetDims.v computes what C19's Model/Layout.v computes on the
   resolved column list, so C19's shape theorem (Proofs/LayoutColumns.v, imported read-only) applies:
   the widths are >= 0 and, with the dividers, need at most maxcol columns. *)
From Coq Require Import ZArith List Bool Lia ZifyBool.
Import ListNotations.
From Urwid Require PyBase Layout LayoutLists LayoutColumns.
From Urwid Require Import WidgetDims WidgetDimsProofs.
Open Scope Z_scope.

Arguments Z.add : simpl never.
Arguments Z.sub : simpl never.
Arguments Z.mul : simpl never.
Arguments Z.quot : simpl never.
Arguments Z.ltb : simpl never.
Arguments Z.leb : simpl never.
Arguments Z.eqb : simpl never.
Arguments Z.max : simpl never.
Arguments Z.min : simpl never.
Arguments Z.of_nat : simpl never.

(* static_w of the first loop of column_widths, for one item *)
Definition item_static (it : citem) (maxcol mw : Z) (fo : bool) : res Z :=
  let cs := m_sizing (ci_sem it) in
  match ci_kind it with
  | KGiven => Ok (ci_amount it)
  | KPack =>
      if s_fixed cs || s_flow cs then
        let* c1 := (if s_fixed cs then (let* p := m_pack (ci_sem it) SFixed fo in Ok (fst p)) else Ok 0) in
        if s_flow cs && ((c1 =? 0) || (maxcol <? c1))
        then (let* p := m_pack (ci_sem it) (SFlow maxcol) fo in Ok (fst p))
        else Ok c1
      else (let* p := m_pack (ci_sem it) (SFlow maxcol) fo in Ok (fst p))
  | KWeight => Ok mw
  end.

Definition col_of (it : citem) (sw : Z) : Layout.col :=
  match ci_kind it with
  | KGiven => (Layout.KGiven, ci_amount it)
  | KPack => (Layout.KPack, sw)
  | KWeight => (Layout.KWeight, ci_amount it)
  end.

(* what the arithmetic needs to know about an item *)
Definition item_arith_ok (maxcol mw : Z) (it : citem) : Prop :=
  match ci_kind it with
  | KGiven => 0 <= ci_amount it
  | KWeight => 1 <= ci_amount it
  | KPack => forall fo sw, item_static it maxcol mw fo = Ok sw -> 0 <= sw
  end.

Lemma loop1_scan maxcol d mw f fp : forall l i shared ws wt sh,
  Forall (item_arith_ok maxcol mw) l -> 0 <= i ->
  cw_loop1 l maxcol d mw f fp i shared = Ok (ws, wt, sh) ->
  exists cs, length cs = length l /\ Forall LayoutColumns.col_ok cs
             /\ Layout.cw_scan d mw fp cs i shared = (ws, wt, sh)
             /\ Forall (fun p => 0 <= snd p) wt.
Proof.
  induction l as [|it l IH]; intros i shared ws wt sh HA Hi E.
  - cbn in E. inversion E; subst. exists []. repeat split; constructor.
  - inversion HA as [|? ? A HA']; subst.
    cbn [cw_loop1] in E.
    change (match ci_kind it with
            | KGiven => Ok (ci_amount it)
            | KPack => _
            | KWeight => Ok mw end) with (item_static it maxcol mw (item_focus f fp i)) in E.
    destruct (item_static it maxcol mw (item_focus f fp i)) as [sw|e] eqn:ES; cbn [bind] in E; [|discriminate].
    assert (Hcol : LayoutColumns.col_ok (col_of it sw) /\ Layout.static_of mw (col_of it sw) = sw
                   /\ Layout.is_weight (col_of it sw) = (match ci_kind it with KWeight => true | _ => false end)
                   /\ snd (col_of it sw) = (match ci_kind it with KPack => sw | _ => ci_amount it end)).
    { unfold item_arith_ok in A. unfold col_of, LayoutColumns.col_ok, Layout.static_of, Layout.is_weight, item_static in *.
      destruct (ci_kind it); cbn in *.
      - inversion ES; subst. repeat split; auto.
      - repeat split; auto. eapply A; eauto.
      - inversion ES; subst. repeat split; auto. }
    destruct Hcol as [C1 [C2 [C3 C4]]].
    destruct ((shared <? sw + d) && (fp <? i)) eqn:EB.
    + inversion E; subst.
      exists (col_of it sw :: map (fun _ => (Layout.KGiven, 0)) l). repeat split.
      * cbn. rewrite map_length. reflexivity.
      * constructor; auto. apply Forall_forall. intros c Hc. apply in_map_iff in Hc. destruct Hc as [x [<- _]].
        unfold LayoutColumns.col_ok. cbn. lia.
      * cbn [Layout.cw_scan]. rewrite C2, EB. reflexivity.
      * constructor.
    + destruct (cw_loop1 l maxcol d mw f fp (i + 1) (shared - (sw + d))) as [[[ws' wt'] sh']|e] eqn:ER;
        cbn [bind] in E; [|discriminate].
      inversion E; subst. clear E.
      destruct (IH (i + 1) (shared - (sw + d)) ws' wt' sh HA' ltac:(lia) ER) as [cs [L [O [S W]]]].
      exists (col_of it sw :: cs). repeat split.
      * cbn. lia.
      * constructor; auto.
      * cbn [Layout.cw_scan]. rewrite C2, EB, S, C3, C4. destruct (ci_kind it); reflexivity.
      * destruct (ci_kind it); auto; constructor; auto.
Qed.

Lemma drop_eq d : forall ws i sh wt,
  cw_drop ws d i sh wt = (let '(a, b, c) := Layout.cw_drop d ws i wt sh in (a, c, b)).
Proof.
  induction ws as [|w r IH]; intros i sh wt; cbn [cw_drop Layout.cw_drop]; [reflexivity|].
  destruct (0 <=? sh); [reflexivity|].
  assert (E : (match wt with (_, j) :: wr => if j =? i then wr else wt | [] => wt end)
              = (match wt with (_, j) :: t => if j =? i then t else wt | [] => [] end)).
  { destruct wt as [|[a j] t]; reflexivity. }
  rewrite E. rewrite IH.
  destruct (Layout.cw_drop d r (i + 1) _ (sh + (w + d))) as [[a b] c]. reflexivity.
Qed.

Lemma drop_weights_sub d : forall ws i wt sh,
  Forall (fun p : Z * Z => 0 <= snd p) wt ->
  Forall (fun p : Z * Z => 0 <= snd p) (snd (fst (Layout.cw_drop d ws i wt sh))).
Proof.
  induction ws as [|w r IH]; intros i wt sh H; cbn [Layout.cw_drop]; [exact H|].
  destruct (0 <=? sh); [exact H|].
  set (wt' := match wt with (_, j) :: t => if j =? i then t else wt | [] => [] end).
  assert (H' : Forall (fun p : Z * Z => 0 <= snd p) wt').
  { subst wt'. destruct wt as [|[a j] t]; [constructor|]. destruct (j =? i); [inversion H; auto|exact H]. }
  specialize (IH (i + 1) wt' (sh + (w + d)) H').
  destruct (Layout.cw_drop d r (i + 1) wt' (sh + (w + d))) as [[a b] c]. exact IH.
Qed.

Lemma winsert_eq x l : winsert x l = Layout.insert_pair x l.
Proof. induction l as [|y r IH]; cbn; [reflexivity|]. unfold wle, Layout.pair_leb. rewrite IH. destruct ((fst x <? fst y) || (fst x =? fst y) && (snd x <=? snd y)); reflexivity. Qed.
Lemma wsort_eq l : wsort l = Layout.sort_pairs l.
Proof. unfold wsort. induction l as [|x r IH]; cbn; [reflexivity|]. rewrite IH. apply winsert_eq. Qed.

Lemma insert_pair_forall (P : Z * Z -> Prop) x l : P x -> Forall P l -> Forall P (Layout.insert_pair x l).
Proof.
  intros Hx. induction 1 as [|y r Hy Hr IH]; cbn; [repeat constructor; auto|].
  destruct (Layout.pair_leb x y); repeat constructor; auto.
Qed.
Lemma sort_pairs_forall (P : Z * Z -> Prop) l : Forall P l -> Forall P (Layout.sort_pairs l).
Proof. induction 1; cbn; [constructor|]. apply insert_pair_forall; auto. Qed.

Lemma set_nth_eq l n v : set_nth l n v = Layout.set_nth l n v.
Proof. revert n. induction l as [|x r IH]; intros [|k]; cbn; reflexivity. Qed.

Lemma grow_eq mw : forall s ws g wt,
  Forall (fun p : Z * Z => 0 <= snd p) s ->
  match Layout.cw_alloc mw s g wt with
  | PyBase.Ok al => cw_grow s ws mw g wt = Ok (Layout.apply_allocs ws al)
  | PyBase.Err _ => cw_grow s ws mw g wt = Err EZeroDiv
  end.
Proof.
  induction s as [|[weight i] r IH]; intros ws g wt H; cbn [cw_grow Layout.cw_alloc]; [reflexivity|].
  inversion H as [|? ? Hi Hr]; subst. cbn in Hi.
  destruct (wt =? 0); [reflexivity|].
  change (layout_gen.round_half_up_div (g * weight) wt) with (round_half (g * weight) wt).
  set (width := Z.max (round_half (g * weight) wt) mw).
  specialize (IH (set_nth ws (Z.to_nat i) width) (g - width) (wt - weight) Hr).
  destruct (Layout.cw_alloc mw r (g - width) (wt - weight)) as [al|e]; cbn [PyBase.bind].
  - rewrite IH. unfold Layout.apply_allocs. cbn [fold_left fst snd].
    unfold Layout.set_nthz. replace (i <? 0) with false by lia. rewrite set_nth_eq. reflexivity.
  - exact IH.
Qed.

Lemma sumz_zsum l : sumz l = Layout.zsum l.
Proof. rewrite sumz_fold. induction l; cbn; [reflexivity|]. rewrite IHl. reflexivity. Qed.

(* the bridge: once the first loop has resolved the static widths, the rest is C19's function *)
Definition of_layout (r : PyBase.result (list Z)) : res (list Z) :=
  match r with PyBase.Ok F => Ok F | PyBase.Err _ => Err EZeroDiv end.

Lemma column_widths_eq l d mw fp maxcol f ws wt sh :
  Forall (item_arith_ok maxcol mw) l ->
  cw_loop1 l maxcol d mw f fp 0 (maxcol + d) = Ok (ws, wt, sh) ->
  exists cs, length cs = length l /\ Forall LayoutColumns.col_ok cs
             /\ column_widths l d mw fp maxcol f = of_layout (Layout.column_widths cs d mw fp maxcol).
Proof.
  intros HA E1.
  destruct (loop1_scan maxcol d mw f fp l 0 (maxcol + d) ws wt sh HA ltac:(lia) E1) as [cs [L [O [S W]]]].
  exists cs. repeat split; auto.
  unfold column_widths, Layout.column_widths. rewrite E1, S. cbn [bind].
  rewrite drop_eq.
  pose proof (drop_weights_sub d ws 0 wt sh W) as W2.
  destruct (Layout.cw_drop d ws 0 wt sh) as [[ws2 wt2] sh2]. cbn [fst snd] in W2.
  destruct (sh2 =? 0); [reflexivity|].
  rewrite wsort_eq.
  pose proof (grow_eq mw (Layout.sort_pairs wt2) ws2 (sh2 + zlength wt2 * mw) (sumz (map fst wt2))
                (sort_pairs_forall _ _ W2)) as G.
  rewrite sumz_zsum in G |- *.
  change (zlength wt2) with (PyBase.zlen wt2) in G |- *.
  destruct (Layout.cw_alloc mw (Layout.sort_pairs wt2) (sh2 + PyBase.zlen wt2 * mw) (Layout.zsum (map fst wt2))) as [al|e];
    cbn [PyBase.bind of_layout]; exact G.
Qed.

Theorem column_widths_bridge l d mw fp maxcol f F :
  Forall (item_arith_ok maxcol mw) l ->
  column_widths l d mw fp maxcol f = Ok F ->
  exists cs, length cs = length l /\ Forall LayoutColumns.col_ok cs
             /\ Layout.column_widths cs d mw fp maxcol = PyBase.Ok F.
Proof.
  intros HA E.
  destruct (cw_loop1 l maxcol d mw f fp 0 (maxcol + d)) as [[[ws wt] sh]|e] eqn:E1.
  2:{ unfold column_widths in E. rewrite E1 in E. discriminate. }
  destruct (column_widths_eq l d mw fp maxcol f ws wt sh HA E1) as [cs [L [O Q]]].
  exists cs. repeat split; auto. rewrite E in Q.
  destruct (Layout.column_widths cs d mw fp maxcol); cbn in Q; congruence.
Qed.

(* with positive weights the width computation itself never fails *)
Theorem column_widths_total l d mw fp maxcol f ws wt sh :
  Forall (item_arith_ok maxcol mw) l -> 0 <= d -> 0 <= mw -> 0 <= maxcol -> 0 <= fp < zlength l ->
  cw_loop1 l maxcol d mw f fp 0 (maxcol + d) = Ok (ws, wt, sh) ->
  exists F, column_widths l d mw fp maxcol f = Ok F.
Proof.
  intros HA Hd Hm Hmax Hfp E1.
  destruct (column_widths_eq l d mw fp maxcol f ws wt sh HA E1) as [cs [L [O Q]]].
  assert (Hfoc : 0 <= fp < PyBase.zlen cs). { unfold PyBase.zlen. unfold zlength in Hfp. lia. }
  destruct (LayoutColumns.column_widths_total_shape cs d mw fp maxcol O Hd Hm Hmax Hfoc) as [F [dr [kept [post [HF _]]]]].
  exists F. rewrite Q, HF. reflexivity.
Qed.

(* ------------------------------------------------------------------ what Columns.render lays out *)
(* columns needed by the rendered columns: every shown column but the one at index n-1 gets a divider *)
Fixpoint rtotal (ws : list Z) (n d i : Z) : Z :=
  match ws with
  | [] => 0
  | w :: r => (if w <=? 0 then 0 else if i <? n - 1 then w + d else w) + rtotal r n d (i + 1)
  end.

Lemma rtotal_bound n d : 0 <= d -> forall ws i,
  n = i + PyBase.zlen ws -> Forall (fun w => 0 <= w) ws ->
  rtotal ws n d i <= Layout.zsum ws + d * Z.max 0 (PyBase.zlen ws - 1).
Proof.
  intros Hd. induction ws as [|w r IH]; intros i Hn H; cbn [rtotal Layout.zsum].
  - change (PyBase.zlen (@nil Z)) with 0. lia.
  - inversion H as [|? ? Hw Hr]; subst. rewrite PyBase.zlen_cons in *.
    pose proof (PyBase.zlen_nonneg r) as Hl.
    specialize (IH (i + 1) ltac:(lia) Hr).
    destruct r as [|w2 r2].
    + change (PyBase.zlen (@nil Z)) with 0 in *. cbn [rtotal] in *.
      destruct (w <=? 0); [lia|]. replace (i <? i + (1 + 0) - 1) with false by lia. lia.
    + rewrite PyBase.zlen_cons in *. pose proof (PyBase.zlen_nonneg r2).
      destruct (w <=? 0); [nia|]. destruct (i <? i + (1 + (1 + PyBase.zlen r2)) - 1); nia.
Qed.

Lemma rtotal_zeros n d K : forall k i, rtotal (repeat 0 k ++ K) n d i = rtotal K n d (i + Z.of_nat k).
Proof.
  induction k as [|k IH]; intros i; cbn [repeat app rtotal].
  - f_equal. lia.
  - rewrite IH. change (0 <=? 0) with true. cbv iota. replace (i + 1 + Z.of_nat k) with (i + Z.of_nat (S k)) by lia. lia.
Qed.

Lemma zeros_prefix : forall (F : list Z) (k : nat),
  (k <= length F)%nat -> (forall j, 0 <= j < Z.of_nat k -> PyBase.nthz F j = Some 0) ->
  exists K, F = repeat 0 k ++ K.
Proof.
  induction F as [|x r IH]; intros k Hk Hz.
  - destruct k; [exists []; reflexivity|cbn in Hk; lia].
  - destruct k as [|k]; [exists (x :: r); reflexivity|].
    pose proof (Hz 0 ltac:(lia)) as H0. rewrite LayoutLists.nthz_cons_zero in H0. inversion H0; subst.
    destruct (IH k ltac:(cbn in Hk; lia)) as [K EK].
    { intros j Hj. rewrite <- (LayoutLists.nthz_cons_succ 0 r j) by lia. apply Hz. lia. }
    exists K. cbn. rewrite <- EK. reflexivity.
Qed.

Lemma zsum_repeat0 k : Layout.zsum (repeat 0 k) = 0.
Proof. induction k; cbn; lia. Qed.
Lemma zsum_app a b : Layout.zsum (a ++ b) = Layout.zsum a + Layout.zsum b.
Proof. induction a; cbn; lia. Qed.

(* the two facts Columns.render relies on *)
Theorem widths_fit l d mw fp maxcol f F :
  Forall (item_arith_ok maxcol mw) l -> 0 <= d -> 0 <= mw -> 0 <= maxcol -> 0 <= fp < zlength l ->
  column_widths l d mw fp maxcol f = Ok F ->
  Forall (fun w => 0 <= w) F /\ rtotal F (zlength F) d 0 <= maxcol /\ (length F <= length l)%nat.
Proof.
  intros HA Hd Hm Hmax Hfp E.
  destruct (column_widths_bridge l d mw fp maxcol f F HA E) as [cs [L [O R]]].
  assert (Hfoc : 0 <= fp < PyBase.zlen cs). { unfold PyBase.zlen. unfold zlength in Hfp. lia. }
  destruct (LayoutColumns.column_widths_shape cs d mw fp maxcol F O Hd Hm Hmax Hfoc R) as [dr [kept [post S]]].
  pose proof (LayoutColumns.sh_nonneg _ _ _ _ _ _ _ _ _ S) as N.
  pose proof (LayoutColumns.sh_len _ _ _ _ _ _ _ _ _ S) as SL.
  pose proof (LayoutColumns.sh_zero _ _ _ _ _ _ _ _ _ S) as SZ.
  pose proof (LayoutColumns.sh_sum_le _ _ _ _ _ _ _ _ _ S) as SS.
  pose proof (LayoutColumns.sh_split _ _ _ _ _ _ _ _ _ S) as SP.
  split; [exact N|].
  assert (HL : (length F <= length l)%nat).
  { rewrite <- L. rewrite SP, !app_length. unfold PyBase.zlen in SL. lia. }
  split; [|exact HL].
  destruct (zeros_prefix F (length dr)) as [K EK].
  { unfold PyBase.zlen in SL. lia. }
  { intros j Hj. apply SZ. unfold PyBase.zlen. lia. }
  assert (LK : PyBase.zlen K = PyBase.zlen kept).
  { rewrite EK in SL. rewrite PyBase.zlen_app in SL. unfold PyBase.zlen at 1 in SL. rewrite repeat_length in SL.
    unfold PyBase.zlen in *. lia. }
  rewrite EK at 1. rewrite rtotal_zeros.
  assert (NK : Forall (fun w => 0 <= w) K). { rewrite EK in N. apply Forall_app in N. tauto. }
  pose proof (rtotal_bound (zlength F) d Hd K (0 + Z.of_nat (length dr))) as B.
  specialize (B ltac:(rewrite EK; unfold zlength, PyBase.zlen; rewrite app_length, repeat_length; lia) NK).
  assert (ZF : Layout.zsum F = Layout.zsum K). { rewrite EK, zsum_app, zsum_repeat0. lia. }
  pose proof (PyBase.zlen_nonneg K).
  destruct (Z.eq_dec (PyBase.zlen K) 0) as [E0|E0].
  - apply PyBase.zlen_zero_nil in E0. subst K. cbn [rtotal]. lia.
  - nia.
Qed.
