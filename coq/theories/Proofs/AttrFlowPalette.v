(* C17 part 4b: names are resolved through the palette entry for the active colour depth. *)
From Coq Require Import ZArith List Bool Lia ZifyBool.
Import ListNotations.
From Urwid Require Import PyBase PyList AttrFlow AttrFlowBasics AttrFlowSgr.
Open Scope Z_scope.

Arguments Z.eqb : simpl never.

Definition puniq {V} (m : list (attr * V)) : Prop := NoDup (map fst m).

Lemma plookup_pset {V} (m : list (attr * V)) : forall k v k0,
  plookup k0 (pset m k v) = if attr_eqb k k0 then Some v else plookup k0 m.
Proof.
  induction m as [|[k' v'] t IH]; intros k v k0; cbn [pset plookup].
  - reflexivity.
  - destruct (attr_eqb k' k) eqn:E; cbn [plookup].
    + apply attr_eqb_eq in E; subst k'. destruct (attr_eqb _ _); reflexivity.
    + rewrite IH. destruct (attr_eqb k' k0) eqn:E2; [|reflexivity].
      apply attr_eqb_eq in E2; subst k'. apply attr_eqb_neq in E.
      destruct (attr_eqb k k0) eqn:E3; [apply attr_eqb_eq in E3; congruence | reflexivity].
Qed.

Lemma pkeys_pset {V} (m : list (attr * V)) : forall k v x,
  In x (map fst (pset m k v)) <-> x = k \/ In x (map fst m).
Proof.
  induction m as [|[k' v'] t IH]; intros k v x; cbn [pset map fst In].
  - intuition.
  - destruct (attr_eqb k' k) eqn:E; cbn [map fst In].
    + apply attr_eqb_eq in E; subst k'. intuition.
    + rewrite IH. intuition.
Qed.

Lemma puniq_pset {V} (m : list (attr * V)) : forall k v, puniq m -> puniq (pset m k v).
Proof.
  unfold puniq. induction m as [|[k' v'] t IH]; intros k v H; cbn [pset map fst].
  - repeat constructor. intros [].
  - inversion H as [|? ? Hn Ht]; subst. destruct (attr_eqb k' k) eqn:E; cbn [map fst].
    + now constructor.
    + constructor; [|now apply IH]. rewrite pkeys_pset. apply attr_eqb_neq in E. intros [->|]; tauto.
Qed.

Lemma plookup_none_notin {V} k (m : list (attr * V)) : plookup k m = None <-> ~ In k (map fst m).
Proof.
  induction m as [|[k' v] t IH]; cbn [plookup map fst In]; [tauto|].
  destruct (attr_eqb k' k) eqn:E.
  - apply attr_eqb_eq in E. split; [discriminate | intro H; exfalso; apply H; now left].
  - apply attr_eqb_neq in E. rewrite IH. tauto.
Qed.

(* the escape the active depth gives an entry *)
Definition esc_of (s : screen) (e : pentry) : option (list Z) :=
  match select_spec (s_colors s) e with
  | Ok a => Some (attrspec_to_escape (s_bib s) (s_bbb s) a)
  | Err _ => None
  end.

Definition same_term (s s' : screen) : Prop :=
  s_colors s' = s_colors s /\ s_bib s' = s_bib s /\ s_bbb s' = s_bbb s /\ s_hasul s' = s_hasul s.

Lemma esc_of_same s s' e : same_term s s' -> esc_of s' e = esc_of s e.
Proof. intros (A & B & C & _). unfold esc_of. now rewrite A, B, C. Qed.

(* the escape table agrees with the palette on every name *)
Definition consistent (s : screen) : Prop :=
  puniq (s_palette s) /\
  forall name, plookup name (s_escape s) =
               match plookup name (s_palette s) with Some e => esc_of s e | None => None end.

Lemma on_update_spec s name e s' : on_update s name e = Ok s' ->
  s_palette s' = s_palette s /\ same_term s s' /\
  exists ps, esc_of s e = Some ps /\ s_escape s' = pset (s_escape s) name ps.
Proof.
  unfold on_update, esc_of. destruct (select_spec (s_colors s) e) as [a|]; [|discriminate].
  intro H; inversion H; subst; cbn. repeat split. eexists; split; reflexivity.
Qed.

Lemma rebuild_spec pal : forall s s', puniq pal -> rebuild s pal = Ok s' ->
  s_palette s' = s_palette s /\ same_term s s' /\
  forall name, plookup name (s_escape s') =
               match plookup name pal with Some e => esc_of s e | None => plookup name (s_escape s) end.
Proof.
  induction pal as [|[n e] r IH]; intros s s' Hu H.
  - cbn in H. inversion H; subst. repeat split.
  - cbn [rebuild] in H. destruct (on_update s n e) as [s1|] eqn:E1; [|discriminate].
    destruct (on_update_spec _ _ _ _ E1) as (P1 & T1 & ps & Es & Ee).
    unfold puniq in Hu; cbn [map fst] in Hu; inversion Hu as [|? ? Hn Hr]; subst.
    destruct (IH s1 s' Hr H) as (P2 & T2 & L).
    split; [congruence|]. split.
    { destruct T1 as (a1 & a2 & a3 & a4), T2 as (b1 & b2 & b3 & b4). repeat split; congruence. }
    intro name. rewrite L. cbn [plookup].
    destruct (attr_eqb n name) eqn:E.
    + apply attr_eqb_eq in E; subst n. apply plookup_none_notin in Hn. rewrite Hn.
      rewrite Ee, plookup_pset, attr_eqb_refl. now rewrite Es.
    + destruct (plookup name r) as [e'|]; [now apply esc_of_same|].
      now rewrite Ee, plookup_pset, E.
Qed.

Lemma step_consistent s o s' : consistent s -> pstep s o = Ok s' -> consistent s'.
Proof.
  intros [Hu Hc] H. destruct o as [name lh e|name like|colors bib hasul]; cbn [pstep] in H.
  - unfold reg_entry in H.
    set (e' := PE (p_basic e) (p_mono e) (if lh then p_basic e else p_88 e) (p_256 e) (p_true e)) in *.
    destruct (on_update s name e') as [s1|] eqn:E1; [|discriminate].
    destruct (on_update_spec _ _ _ _ E1) as (P1 & T1 & ps & Es & Ee).
    inversion H; subst s'; clear H. split; cbn [s_palette s_escape].
    + rewrite P1. now apply puniq_pset.
    + intro n. rewrite Ee, P1, !plookup_pset.
      assert (Hsame : forall x, esc_of (Scr (pset (s_palette s) name e') (pset (s_escape s) name ps)
                                        (s_colors s1) (s_bib s1) (s_bbb s1) (s_hasul s1)) x = esc_of s x).
      { intro x. apply esc_of_same. destruct T1 as (a1 & a2 & a3 & a4). repeat split; assumption. }
      destruct (attr_eqb name n) eqn:E.
      * now rewrite Hsame, Es.
      * rewrite Hc. destruct (plookup n (s_palette s)); [now rewrite Hsame | reflexivity].
  - (* alias: the entry is copied and its escape is created through the signal *)
    unfold reg_alias in H. destruct (plookup like (s_palette s)) as [e|] eqn:El; [|discriminate].
    set (s0 := Scr (pset (s_palette s) name e) (s_escape s) (s_colors s) (s_bib s) (s_bbb s) (s_hasul s)) in *.
    destruct (on_update_spec _ _ _ _ H) as (P1 & T1 & ps & Es & Ee).
    assert (T0 : same_term s s0) by (repeat split).
    assert (Hsame : forall x, esc_of s' x = esc_of s x).
    { intro x. rewrite (esc_of_same s0 s' x T1). now apply esc_of_same. }
    split.
    + rewrite P1. cbn [s0 s_palette]. now apply puniq_pset.
    + intro n. rewrite Ee, P1. cbn [s0 s_palette s_escape]. rewrite !plookup_pset.
      destruct (attr_eqb name n) eqn:E.
      * rewrite Hsame. rewrite <- Es. symmetry. now apply esc_of_same.
      * rewrite Hc. destruct (plookup n (s_palette s)); [now rewrite Hsame | reflexivity].
  - unfold set_props in H.
    destruct ((colors =? s_colors s) && Bool.eqb bib (s_bib s) && Bool.eqb hasul (s_hasul s)).
    + inversion H; subst. now split.
    + destruct (rebuild_spec _ _ _ Hu H) as (P & T & L). cbn [s_palette s_escape] in *.
      split; [now rewrite P|]. intro n. rewrite L, P. cbn [plookup].
      destruct (plookup n (s_palette s)); [|reflexivity].
      symmetry. now apply esc_of_same.
Qed.

Lemma prun_consistent ops : forall s, consistent s -> consistent (fst (prun s ops)).
Proof.
  induction ops as [|o r IH]; intros s Hs; [exact Hs|].
  cbn [prun]. destruct (pstep s o) as [s'|] eqn:E.
  - specialize (IH s' (step_consistent _ _ _ Hs E)). destruct (prun s' r). exact IH.
  - specialize (IH s Hs). destruct (prun s r). exact IH.
Qed.

Lemma init_consistent bib bbb : consistent (screen_init bib bbb).
Proof.
  split.
  - cbn. repeat constructor. intros [].
  - intro name. destruct name as [n|]; reflexivity.
Qed.

(* a registered name resolves to the escape of its entry at the active depth *)
Lemma resolve_registered s name e a : consistent s ->
  plookup name (s_palette s) = Some e -> select_spec (s_colors s) e = Ok a ->
  attr_to_escape s (DName name) = attrspec_to_escape (s_bib s) (s_bbb s) a.
Proof.
  intros [_ Hc] Hp Hs. cbn [attr_to_escape]. rewrite Hc, Hp. unfold esc_of. now rewrite Hs.
Qed.

(* an undefined name gets default/default, which a terminal reads as a reset pen *)
Lemma resolve_undefined_escape s name : plookup name (s_escape s) = None ->
  attr_to_escape s (DName name) = attrspec_to_escape (s_bib s) (s_bbb s) default_spec /\
  decode_sgr (attr_to_escape s (DName name)) = t_reset.
Proof.
  intro H. cbn [attr_to_escape]. rewrite H. split; [reflexivity|]. destruct (s_bib s), (s_bbb s); reflexivity.
Qed.

Lemma resolve_undefined s name : consistent s -> plookup name (s_palette s) = None ->
  attr_to_escape s (DName name) = attrspec_to_escape (s_bib s) (s_bbb s) default_spec /\
  decode_sgr (attr_to_escape s (DName name)) = t_reset.
Proof.
  intros [_ Hc] Hp. apply resolve_undefined_escape. now rewrite Hc, Hp.
Qed.
