(* C12 - the small specification the MainLoop model is proved to refine (definitions only).
   [spec_*] list, for a fault-free session, the user callbacks in the order the property demands
   (plus the screen.draw_screen calls, [TDraw]); [cut] cuts such a list right after the first
   callback invocation for which the fault plan holds a fault. *)
From Coq Require Import ZArith List Bool.
Import ListNotations.
From Urwid Require Import PyBase MainLoop.
Open Scope Z_scope.

(* user callbacks: the fault points, numbered 0,1,2.. in invocation order *)
Definition is_cb (t : tev) : bool :=
  match t with
  | TFilter _ | TKeypress _ | TMouse _ _ _ | TUnhandled _ | TAlarm _ | TPipe _ _ | TFile _ | TRender => true
  | _ => false
  end.
(* the part of the trace the ordering clauses speak about: callbacks and screen.draw_screen *)
Definition is_act (t : tev) : bool := is_cb t || match t with TDraw => true | _ => false end.
Definition acts (s : st) : list tev := filter is_act (rev (tr s)).

Fixpoint ncb (l : list tev) : Z :=
  match l with [] => 0 | a :: r => (if is_cb a then 1 else 0) + ncb r end.

Fixpoint cut (P : Z -> option fault) (i : Z) (L : list tev) : list tev * option fault :=
  match L with
  | [] => ([], None)
  | a :: L' =>
      if is_cb a then
        match P i with
        | Some f => ([a], Some f)
        | None => (a :: fst (cut P (i + 1) L'), snd (cut P (i + 1) L'))
        end
      else (a :: fst (cut P i L'), snd (cut P i L'))
  end.

(* the first fault among the invocation indices i, i+1, .., i+k-1 *)
Fixpoint first_fault (P : Z -> option fault) (i : Z) (k : nat) : option (Z * fault) :=
  match k with
  | O => None
  | S k' => match P i with Some f => Some (i, f) | None => first_fault P (i + 1) k' end
  end.

Section Spec.
Variable c : config.

(* PopUpTarget renders the wrapped widget before it forwards keypress / mouse_event / render *)
Definition overlay_spec : list tev := if c_pop_ups c then [TRender] else [].
Definition filtered (ks : list key) : list key :=
  match c_filter c with Some d => apply_filter d ks | None => ks end.
Definition spec_filter (ks : list key) : list tev :=
  match c_filter c with Some _ => [TFilter ks] | None => [] end.
Definition spec_unhandled (k : key) : list tev :=
  match c_unhandled c with Some _ => [TUnhandled k] | None => [] end.
(* a key bound to REDRAW_SCREEN ('ctrl l') clears the screen instead of reaching unhandled_input *)
Definition spec_after (k : key) : list tev := if is_redraw k then [] else spec_unhandled k.
(* what the widget answers *)
Definition widget_keypress (x : Z) : Z := assoc_default (w_keys c) x x.     (* 0 = handled *)
Definition widget_mouse (b : Z) : bool := memz b (w_mouse c).

(* one key of a batch: the widget first; the unhandled-input handler exactly when not handled *)
Definition spec_key (k : key) : list tev :=
  match k with
  | KResize => []
  | KKey x =>
      if w_selectable c then
        overlay_spec ++ [TKeypress x] ++
        (if widget_keypress x =? 0 then [] else spec_after (KKey (widget_keypress x)))
      else spec_after k
  | KMouse b cl rw =>
      if w_has_mouse c then
        overlay_spec ++ [TMouse b cl rw] ++ (if widget_mouse b then [] else spec_after k)
      else spec_after k
  end.
(* one batch of input: the filter first, then every surviving key in order *)
Definition spec_update (ks : list key) : list tev :=
  spec_filter ks ++ flat_map spec_key (filtered ks).
(* the redraw: render the topmost widget, then screen.draw_screen *)
Definition spec_draw : list tev := overlay_spec ++ [TRender; TDraw].
Definition spec_event (e : event) : list tev :=
  match e with
  | EInput ks => spec_update ks
  | EResize => spec_update [KResize]
  | EAlarm i => [TAlarm i]
  | EPipe i d => [TPipe i d]
  | EFile i => [TFile i]
  end.
(* a round: its events in arrival order, then the redraw before the loop waits again *)
Definition spec_round (r : list event) : list tev := flat_map spec_event r ++ spec_draw.
Definition spec_alarm (a : alarm) : list tev :=
  match a with AUser i => [TAlarm i] | AEnteringIdle => spec_draw end.

(* run() on a screen with hook_event_loop: the alarms set before run(), the initial redraw
   (start() schedules it as an alarm), the first idle redraw, then round after round *)
Definition spec_hook_session (rounds : list (list event)) : list tev :=
  flat_map spec_alarm (map AUser (c_pre_alarms c) ++ [AEnteringIdle]) ++ spec_draw ++ flat_map spec_round rounds.

(* run() on a screen without hook_event_loop (_run_screen_event_loop): redraw, then per get_input
   result that is not an idle time-out: filter, keys, every due alarm, redraw *)
Fixpoint spec_screen_loop (pending : list alarm) (inputs : list (list key)) : list tev :=
  match inputs with
  | [] => []
  | b :: rest =>
      if is_nil b && is_nil pending then spec_screen_loop pending rest
      else spec_update b ++ flat_map spec_alarm pending ++ spec_draw ++ spec_screen_loop [] rest
  end.
Definition spec_plain_session (inputs : list (list key)) : list tev :=
  spec_draw ++ spec_screen_loop (map AUser (c_pre_alarms c)) inputs.

Definition spec_session (rounds : list (list event)) (inputs : list (list key)) : list tev :=
  if c_hook c then spec_hook_session rounds else spec_plain_session inputs.

(* PopUpTarget wraps a Widget, and every urwid.Widget has mouse_event *)
Definition wf_config : Prop := c_pop_ups c = true -> w_has_mouse c = true.

End Spec.

(* the modes the property calls initial; tty settings and signal handlers are arbitrary *)
Definition initial_modes (t : term) : Prop :=
  t_alt t = false /\ t_cursor t = true /\ t_m1000 t = false /\ t_m1002 t = false /\ t_m1006 t = false /\
  t_paste t = false /\ t_focus t = false /\ snd (t_tios t) = false /\ t_plain t = false.
