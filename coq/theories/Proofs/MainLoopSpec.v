(* C12 - the small specification the MainLoop model is proved to refine (definitions only).
   [spec_*] list, for a fault-free session, the user callbacks in the order the property demands
   (plus the screen.draw_screen calls, [TDraw]); [cut] cuts such a list right after the first
   callback invocation for which the fault plan holds a fault. *)
From Coq Require Import ZArith List Bool.
Import ListNotations.
From Urwid Require Import PyBase MainLoop.
Open Scope Z_scope.

(* user callbacks: the fault points, numbered 0,1,2.. in invocation order *)
Definition is_cb (t : tev) : bool :=
  match t with
  | TFilter _ | TKeypress _ | TMouse _ _ _ | TUnhandled _ | TAlarm _ | TPipe _ _ | TFile _ | TRender | TPopKey _ => true
  | _ => false
  end.
(* the part of the trace the ordering clauses speak about: callbacks and screen.draw_screen *)
Definition is_act (t : tev) : bool := is_cb t || match t with TDraw => true | _ => false end.
Definition acts (s : st) : list tev := filter is_act (rev (tr s)).

Fixpoint ncb (l : list tev) : Z :=
  match l with [] => 0 | a :: r => (if is_cb a then 1 else 0) + ncb r end.

Fixpoint cut (P : Z -> option fault) (i : Z) (L : list tev) : list tev * option fault :=
  match L with
  | [] => ([], None)
  | a :: L' =>
      if is_cb a then
        match P i with
        | Some f => ([a], Some f)
        | None => (a :: fst (cut P (i + 1) L'), snd (cut P (i + 1) L'))
        end
      else (a :: fst (cut P i L'), snd (cut P i L'))
  end.

(* the first fault among the invocation indices i, i+1, .., i+k-1 *)
Fixpoint first_fault (P : Z -> option fault) (i : Z) (k : nat) : option (Z * fault) :=
  match k with
  | O => None
  | S k' => match P i with Some f => Some (i, f) | None => first_fault P (i + 1) k' end
  end.

Section Spec.
Variable c : config.

(* PopUpTarget renders the wrapped widget before it forwards keypress / mouse_event / render *)
Definition overlay_spec : list tev := if c_pop_ups c then [TRender] else [].
Definition filtered (ks : list key) : list key :=
  match c_filter c with Some d => apply_filter d ks | None => ks end.
Definition spec_filter (ks : list key) : list tev :=
  match c_filter c with Some _ => [TFilter ks] | None => [] end.
Definition spec_unhandled (k : key) : list tev :=
  match c_unhandled c with Some _ => [TUnhandled k] | None => [] end.
(* a key bound to REDRAW_SCREEN ('ctrl l') clears the screen instead of reaching unhandled_input *)
Definition spec_after (k : key) : list tev := if is_redraw k then [] else spec_unhandled k.
(* what the widget answers *)
Definition widget_keypress (x : Z) : Z := assoc_default (w_keys c) x x.     (* 0 = handled *)
Definition widget_mouse (b : Z) : bool := memz b (w_mouse c).

(* Threading the pop-up state ([o]: the launcher's pop-up is open) through a list of inputs. *)
Fixpoint thread {X} (f : bool -> X -> list tev * bool) (o : bool) (l : list X) : list tev * bool :=
  match l with
  | [] => ([], o)
  | x :: r => (fst (f o x) ++ fst (thread f (snd (f o x)) r), snd (thread f (snd (f o x)) r))
  end.

(* the PopUpTarget shows the Overlay (pop-up on top of the body) once it has looked at the launcher *)
Definition pop_shown (o : bool) : bool := c_pop_ups c && o.

(* A key goes to the TOPMOST widget: the open pop-up if there is one, else the body behind the launcher.
   [keypress_cb]: whose keypress is called; [keypress_result]: what it returns (0 = None = handled;
   the launcher itself consumes key 111, 'o', and opens its pop-up; the pop-up consumes key 120, 'x', and
   closes, and handles the keys of [w_pop_keys]); [keypress_open]: is the pop-up open afterwards. *)
Definition keypress_cb (o : bool) (x : Z) : tev :=
  if pop_shown o then TPopKey x else TKeypress x.
Definition keypress_result (o : bool) (x : Z) : Z :=
  if pop_shown o then (if x =? 120 then 0 else if memz x (w_pop_keys c) then 0 else x)
  else if c_launcher c && (x =? 111) then 0 else widget_keypress x.
Definition keypress_open (o : bool) (x : Z) : bool :=
  if pop_shown o then (if x =? 120 then false else o)
  else if c_launcher c && (x =? 111) then true else o.

(* one key of a batch: the topmost widget first; the unhandled-input handler exactly when that widget
   did not handle it.  Result: the callbacks, and whether the pop-up is open afterwards. *)
Definition spec_key (o : bool) (k : key) : list tev * bool :=
  match k with
  | KResize => ([], o)
  | KKey x =>
      if w_selectable c then
        (overlay_spec ++ [keypress_cb o x] ++
         (if keypress_result o x =? 0 then [] else spec_after (KKey (keypress_result o x))),
         keypress_open o x)
      else (spec_after k, o)
  | KMouse b cl rw =>
      if pop_shown o then (overlay_spec ++ spec_after k, o)      (* the pop-up widget ignores the mouse *)
      else if w_has_mouse c then
        (overlay_spec ++ [TMouse b cl rw] ++ (if widget_mouse b then [] else spec_after k), o)
      else (spec_after k, o)
  end.
Definition spec_keys := thread spec_key.
(* one batch of input: the filter first, then every surviving key in order *)
Definition spec_update (o : bool) (ks : list key) : list tev * bool :=
  (spec_filter ks ++ fst (spec_keys o (filtered ks)), snd (spec_keys o (filtered ks))).
(* the redraw: render the topmost widget (body and, when open, the pop-up), then screen.draw_screen *)
Definition spec_draw (o : bool) : list tev :=
  overlay_spec ++ (if pop_shown o then [TRender; TRender] else [TRender]) ++ [TDraw].
Definition spec_event (o : bool) (e : event) : list tev * bool :=
  match e with
  | EInput ks => spec_update o ks
  | EResize => spec_update o [KResize]
  | EAlarm i => ([TAlarm i], o)
  | EPipe i d => ([TPipe i d], o)
  | EFile i => ([TFile i], o)
  end.
Definition spec_alarm (o : bool) (a : alarm) : list tev :=
  match a with AUser i => [TAlarm i] | AEnteringIdle => spec_draw o end.
(* the idle phase: every registered MainLoop.entering_idle redraws ([k] = 1 unless an earlier run() on
   the same loop ended with an exception: MainLoop.stop() is not called then and its callback stays) *)
Fixpoint spec_idle (k : nat) (o : bool) : list tev :=
  match k with O => [] | S k' => spec_draw o ++ spec_idle k' o end.
(* ready descriptors are served before due alarms (C13 contract of the select loop) *)
Definition spec_fd_event (o : bool) (e : event) : list tev * bool :=
  match e with EAlarm _ => ([], o) | _ => spec_event o e end.
(* a round: the descriptor events in arrival order, the alarms in the order they were set, then the redraw
   before the loop waits again *)
Definition spec_round (k : nat) (o : bool) (r : list event) : list tev * bool :=
  (fst (thread spec_fd_event o r) ++ flat_map (spec_alarm (snd (thread spec_fd_event o r))) (alarm_ids r) ++
   spec_idle k (snd (thread spec_fd_event o r)),
   snd (thread spec_fd_event o r)).

(* event_loop.run(): what is left in the alarm heap fires first, the idle phase, then round after round *)
Definition spec_loop (k : nat) (o : bool) (al : list alarm) (rounds : list (list event)) : list tev :=
  flat_map (spec_alarm o) al ++ spec_idle k o ++ fst (thread (spec_round k) o rounds).

(* run() on a screen with hook_event_loop: the alarms set before run(), the initial redraw
   (start() schedules it as an alarm), the first idle redraw, then round after round *)
Definition spec_hook_session (rounds : list (list event)) : list tev :=
  spec_loop 1 false (map AUser (c_pre_alarms c) ++ [AEnteringIdle]) rounds.

(* run() on a screen without hook_event_loop (_run_screen_event_loop): redraw, then per get_input
   result that is not an idle time-out: filter, keys, every due alarm, redraw *)
Fixpoint spec_screen_loop (o : bool) (pending : list alarm) (inputs : list (list key)) : list tev :=
  match inputs with
  | [] => []
  | b :: rest =>
      if is_nil b && is_nil pending then spec_screen_loop o pending rest
      else fst (spec_update o b) ++ flat_map (spec_alarm (snd (spec_update o b))) pending ++
           spec_draw (snd (spec_update o b)) ++ spec_screen_loop (snd (spec_update o b)) [] rest
  end.
Definition spec_plain_session (inputs : list (list key)) : list tev :=
  spec_draw false ++ spec_screen_loop false (map AUser (c_pre_alarms c)) inputs.

Definition spec_session (rounds : list (list event)) (inputs : list (list key)) : list tev :=
  if c_hook c then spec_hook_session rounds else spec_plain_session inputs.

(* whether the pop-up is open after a batch of keys / after whole rounds *)
Definition open_after_keys (o : bool) (ks : list key) : bool := snd (spec_keys o ks).

(* PopUpTarget wraps a Widget, and every urwid.Widget has mouse_event; a PopUpLauncher is of use only
   below a PopUpTarget.  (Boolean, so that it can be decided for a concrete configuration.) *)
Definition wf_configb : bool :=
  (negb (c_pop_ups c) || w_has_mouse c) && (negb (c_launcher c) || c_pop_ups c).
Definition wf_config : Prop := wf_configb = true.

End Spec.

(* the modes the property calls initial; tty settings and signal handlers are arbitrary *)
Definition initial_modes (t : term) : Prop :=
  t_alt t = false /\ t_cursor t = true /\ t_m1000 t = false /\ t_m1002 t = false /\ t_m1006 t = false /\
  t_paste t = false /\ t_focus t = false /\ snd (t_tios t) = false /\ t_plain t = false.
