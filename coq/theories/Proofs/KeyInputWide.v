(* C05 - the non-UTF-8 encoding modes of process_keyqueue.  In "wide" (double-byte) mode the decision
   rests on str_util.within_double_byte, which the model takes from the py2v translation of the
   source (Gen/str_loops_gen.v); its value on every one- and two-byte string is settled by
   computation (KeyInputProofs.wdb_table), so these theorems are re-proved against the source text
   on every run. *)
From Coq Require Import ZArith List Bool Lia.
Import ListNotations.
From Urwid Require Import PyBase escape_table_gen KeyInput KeyInputProofs KeyInputSgr.
Open Scope Z_scope.

(* lead >= 0x80 and (trail >= 0x80, or lead >= 0x81 and trail in 0x40..0x7E): the EUC-JP/KR/CN,
   Big5, GBK and UHC layouts *)
Definition dbcs_trail (a b : Z) : bool :=
  (128 <=? b) || ((129 <=? a) && (64 <=? b) && (b <? 127)).

Lemma wdb2_nonzero a b : 128 <= a < 256 -> 0 <= b < 256 -> negb (wdb2_spec a b =? 0) = dbcs_trail a b.
Proof.
  intros Ha Hb. unfold wdb2_spec, dbcs_trail.
  assert (E : (128 <=? a) = true) by (apply Z.leb_le; lia). rewrite E.
  destruct ((64 <=? b) && (b <? 127)) eqn:E1.
  - apply andb_true_iff in E1. destruct E1 as [E1 E2]. rewrite E1, E2.
    assert (E3 : (128 <=? b) = false) by (apply Z.leb_gt; apply Z.ltb_lt in E2; lia). rewrite E3.
    destruct (129 <=? a); reflexivity.
  - destruct (b <? 128) eqn:E2.
    + assert (E3 : (128 <=? b) = false) by (apply Z.leb_gt; apply Z.ltb_lt in E2; lia). rewrite E3.
      cbn [orb]. destruct (129 <=? a); [|reflexivity]. cbn [andb]. rewrite E1. reflexivity.
    + assert (E3 : (128 <=? b) = true) by (apply Z.leb_le; apply Z.ltb_ge in E2; lia). rewrite E3. reflexivity.
Qed.

Lemma high_byte_guards a : 128 <= a < 256 ->
  (32 <=? a) && (a <=? 126) = false /\ assoc a keyconv = None /\
  (0 <? a) && (a <? 27) = false /\ (27 <? a) && (a <? 32) = false /\
  (127 <? a) && (a <? 256) = true /\ (a <? 256) = true.
Proof.
  intros Ha. repeat split.
  - apply andb_false_iff. right. apply Z.leb_gt. lia.
  - pose proof (keyconv_high a ltac:(lia)) as Hk.
    assert (E0 : (127 <? a) = true) by (apply Z.ltb_lt; lia). rewrite E0 in Hk. cbn [implb] in Hk.
    destruct (assoc a keyconv); [discriminate Hk|reflexivity].
  - apply andb_false_iff. right. apply Z.ltb_ge. lia.
  - apply andb_false_iff. right. apply Z.ltb_ge. lia.
  - apply andb_true_iff. split; apply Z.ltb_lt; lia.
  - apply Z.ltb_lt; lia.
Qed.

(* wide mode, a high byte followed by another byte: ONE two-byte character when the pair is a
   double-byte character, otherwise the high byte alone and the next byte left for the next round *)
Lemma wide_pair_decodes_proof a b rest more :
  128 <= a < 256 -> 0 <= b < 256 ->
  process_keyqueue Wide (a :: b :: rest) more =
    if dbcs_trail a b then OOk ([Key [a; b]], rest) else OOk ([Key [a]], b :: rest).
Proof.
  intros Ha Hb. destruct (high_byte_guards a Ha) as [G1 [G2 [G3 [G4 [G5 G6]]]]].
  rewrite process_eq, G1, G2, G3, G4, G5.
  unfold wide_step. cbn [enc_is_wide andb]. rewrite G6.
  rewrite (wdb1_value a ltac:(lia)). unfold wdb1_spec.
  assert (E : (128 <=? a) = true) by (apply Z.leb_le; lia). rewrite E.
  change (negb (1 =? 0)) with true. cbn iota.
  assert (Eb : (b <? 256) = true) by (apply Z.ltb_lt; lia). rewrite Eb.
  rewrite (wdb2_value a b ltac:(lia) Hb), (wdb2_nonzero a b Ha Hb).
  destruct (dbcs_trail a b); [reflexivity|].
  assert (Eu : utf8_step Wide a (b :: rest) more = None) by reflexivity.
  rewrite Eu. reflexivity.
Qed.

(* wide mode, a high byte with nothing after it: pending while more input may come, the byte itself
   when the completion timeout fires *)
Lemma wide_lead_alone_proof a :
  128 <= a < 256 ->
  process_keyqueue Wide [a] true = OMore /\ process_keyqueue Wide [a] false = OOk ([Key [a]], []).
Proof.
  intros Ha. destruct (high_byte_guards a Ha) as [G1 [G2 [G3 [G4 [G5 G6]]]]].
  assert (E : (128 <=? a) = true) by (apply Z.leb_le; lia).
  split; rewrite process_eq, G1, G2, G3, G4, G5; unfold wide_step; cbn [enc_is_wide andb]; rewrite G6;
    rewrite (wdb1_value a ltac:(lia)); unfold wdb1_spec; rewrite E; change (negb (1 =? 0)) with true; cbn iota.
  - reflexivity.
  - assert (Eu : utf8_step Wide a [] false = None) by reflexivity. rewrite Eu. reflexivity.
Qed.

(* narrow mode: every high byte is its own character, whatever follows *)
Lemma narrow_high_byte_proof a rest more :
  128 <= a < 256 -> process_keyqueue Narrow (a :: rest) more = OOk ([Key [a]], rest).
Proof.
  intros Ha. destruct (high_byte_guards a Ha) as [G1 [G2 [G3 [G4 [G5 G6]]]]].
  rewrite process_eq, G1, G2, G3, G4.
  assert (Ew : wide_step Narrow a rest more = None) by reflexivity.
  assert (Eu : utf8_step Narrow a rest more = None) by reflexivity.
  rewrite Ew, Eu, G5. reflexivity.
Qed.

(* a stream of double-byte characters and ASCII letters in wide mode, however cut into reads, gives
   one event per character: via decisive + fragmentation_invariant (KeyInputProofs); here the
   whole-stream decode *)
Inductive wchar := WAscii (c : Z) | WDouble (a b : Z).
Definition wchar_ok (w : wchar) : bool :=
  match w with
  | WAscii c => (32 <=? c) && (c <=? 126)
  | WDouble a b => (128 <=? a) && (a <? 256) && (0 <=? b) && (b <? 256) && dbcs_trail a b
  end.
Definition wbytes (w : wchar) : list Z := match w with WAscii c => [c] | WDouble a b => [a; b] end.
Definition wevent (w : wchar) : event := match w with WAscii c => Key [c] | WDouble a b => Key [a; b] end.

Lemma wide_text_decodes_proof more : forall ws, forallb wchar_ok ws = true ->
  decode Wide (flat_map wbytes ws) more = PDone (map wevent ws).
Proof.
  induction ws as [|w ws IH]; intros H; [reflexivity|].
  cbn [forallb] in H. apply andb_true_iff in H. destruct H as [Hw Hws].
  cbn [flat_map map]. destruct w as [c|a b]; cbn [wbytes wevent app].
  - rewrite decode_cons by discriminate. rewrite process_eq. cbn [wchar_ok] in Hw. rewrite Hw.
    rewrite (IH Hws). reflexivity.
  - cbn [wchar_ok] in Hw. repeat (apply andb_true_iff in Hw; destruct Hw as [Hw ?]).
    rewrite decode_cons by discriminate.
    rewrite wide_pair_decodes_proof by (repeat match goal with H : (_ <=? _) = true |- _ => apply Z.leb_le in H
                                               | H : (_ <? _) = true |- _ => apply Z.ltb_lt in H end; lia).
    match goal with H : dbcs_trail a b = true |- _ => rewrite H end.
    rewrite (IH Hws). reflexivity.
Qed.
