(* Proofs about Model/TextLayout.v, wrap modes 'any' and 'space':
   the loop invariant [Lines], termination (fuel) and the consequences used by Properties/C03.v *)
From Coq Require Import ZArith List Bool Lia ZifyBool.
Import ListNotations.
From Urwid Require Import PyBase TextLayout TextLayoutFacts.
Open Scope Z_scope.

Arguments Z.add : simpl never.
Arguments Z.sub : simpl never.
Arguments Z.mul : simpl never.
Arguments Z.div : simpl never.
Arguments Z.ltb : simpl never.
Arguments Z.leb : simpl never.
Arguments Z.eqb : simpl never.
Arguments Z.min : simpl never.
Arguments Z.max : simpl never.
Arguments Z.of_nat : simpl never.
Arguments Z.to_nat : simpl never.

(* ---------- observations on a layout (they ignore the alignment shift) ---------- *)
Definition seg_range (s : seg) : list (Z * Z) := match s with SText _ o e => [(o, e)] | _ => [] end.
Definition line_ranges (l : line) : list (Z * Z) := flat_map seg_range l.
(* [shown L]: the [offs,end) ranges of a layout, in reading order *)
Definition shown_ranges (L : list line) : list (Z * Z) := flat_map line_ranges L.
Definition in_ranges (i : Z) (rs : list (Z * Z)) : Prop := exists o e, In (o, e) rs /\ o <= i < e.

(* increasing and disjoint, between lo and hi *)
Fixpoint ranges_sorted (lo : Z) (rs : list (Z * Z)) (hi : Z) : Prop :=
  match rs with
  | [] => lo <= hi
  | (o, e) :: r => lo <= o /\ o < e /\ ranges_sorted e r hi
  end.

(* the removed-character hint (0, h) that ends a line, if any *)
Definition line_hint (l : line) : option Z :=
  match last l (SShift 0) with SPad 0 h => Some h | _ => None end.
(* the text offset at which the following line takes over *)
Definition line_next (l : line) : option Z :=
  match last l (SShift 0) with SPad _ h => Some (h + 1) | SText _ _ e => Some e | _ => None end.
Definition line_shift (l : line) : Z := match l with SShift s :: _ => s | _ => 0 end.
Definition no_shift (l : line) : Prop := match l with SShift _ :: _ => False | _ => True end.

Lemma ranges_sorted_weaken lo rs hi hi' : ranges_sorted lo rs hi -> hi <= hi' -> ranges_sorted lo rs hi'.
Proof.
  revert lo; induction rs as [|[o e] r IH]; intros lo H L; cbn [ranges_sorted] in *; [lia|].
  destruct H as (A & B & C). repeat split; try assumption. eapply IH; eassumption.
Qed.

Lemma ranges_sorted_app lo r1 mid r2 hi :
  ranges_sorted lo r1 mid -> ranges_sorted mid r2 hi -> ranges_sorted lo (r1 ++ r2) hi.
Proof.
  revert lo; induction r1 as [|[o e] r IH]; intros lo H1 H2; cbn [ranges_sorted app] in *.
  - destruct r2 as [|[o e] r2]; cbn [ranges_sorted] in *; [lia|]. destruct H2 as (A & B & C). repeat split; try lia; assumption.
  - destruct H1 as (A & B & C). repeat split; try assumption. eapply IH; eassumption.
Qed.

Lemma ranges_sorted_bounds lo rs hi : ranges_sorted lo rs hi -> lo <= hi /\
  forall o e, In (o, e) rs -> lo <= o /\ o < e /\ e <= hi.
Proof.
  revert lo; induction rs as [|[o e] r IH]; intros lo H; cbn [ranges_sorted] in *.
  - split; [assumption | intros ? ? []].
  - destruct H as (A & B & C). destruct (IH _ C) as (D & E). split; [lia|].
    intros o' e' [Q|I]; [inversion Q; subst; lia|]. specialize (E _ _ I). lia.
Qed.

(* nothing is shown twice: an offset lies in at most one range of a sorted list *)
Lemma ranges_sorted_unique lo rs hi i r1 r2 n1 n2 : ranges_sorted lo rs hi ->
  nth_error rs n1 = Some r1 -> nth_error rs n2 = Some r2 ->
  fst r1 <= i < snd r1 -> fst r2 <= i < snd r2 -> n1 = n2.
Proof.
  revert lo n1 n2; induction rs as [|[o e] r IH]; intros lo n1 n2 H N1 N2 I1 I2.
  - destruct n1; discriminate.
  - cbn [ranges_sorted] in H. destruct H as (A & B & C).
    pose proof (ranges_sorted_bounds _ _ _ C) as (_ & Hb).
    destruct n1, n2; cbn [nth_error] in *.
    + reflexivity.
    + inversion N1; subst. apply nth_error_In in N2. destruct r2 as [o2 e2]. specialize (Hb _ _ N2). cbn in *; lia.
    + inversion N2; subst. apply nth_error_In in N1. destruct r1 as [o1 e1]. specialize (Hb _ _ N1). cbn in *; lia.
    + f_equal. eapply IH; eassumption.
Qed.

Lemma last_cons_ne {A} (x : A) l d : l <> [] -> last (x :: l) d = last l d.
Proof. destruct l; [contradiction | reflexivity]. Qed.

Lemma shown_ranges_app L1 L2 : shown_ranges (L1 ++ L2) = shown_ranges L1 ++ shown_ranges L2.
Proof. unfold shown_ranges. apply flat_map_app. Qed.

Section Wrap.
Variable cw : Z -> Z.
Hypothesis cw_range : forall c, 0 <= cw c <= 2.
Hypothesis cw_space : cw SP = 1.
Variable t : list Z.
Variable width : Z.
Hypothesis width_pos : 1 <= width.
Variable wrap : wrapmode.
Hypothesis wrap_ws : wrap = WAny \/ wrap = WSpace.

Notation len := (zlen t).
Notation W a b := (sumw cw (slice t a b)).

(* ---------- the invariant ---------- *)
(* position e ends a line "with a consumed character": end of text, a newline, or (space mode) a space *)
Definition eol_like (e : Z) : Prop :=
  e = len \/ nthz t e = Some NL \/ (nthz t e = Some SP /\ wrap = WSpace).

Definition narrow_at (k : Z) : Prop :=
  exists c, nthz t k = Some c /\ c <> SP /\ c <> NL /\ cw c <> 2.

(* a run of single/zero-width non-space characters that contains e-1 and e and is wider than the width *)
Definition long_word (e : Z) : Prop :=
  exists i j, i < e <= j /\ (forall k, i <= k <= j -> narrow_at k) /\ width < W i (j + 1).

(* why a line may end at e without consuming a character *)
Definition break_ok (e sc : Z) : Prop :=
  match wrap with
  | WAny => exists c, nthz t e = Some c /\ width < sc + cw c
  | _ => (exists c, nthz t e = Some c /\ cw c = 2) \/
         (exists c, nthz t (e - 1) = Some c /\ cw c = 2) \/
         nthz t (e - 1) = Some SP \/
         long_word e
  end.

(* [LineOK a ln b]: the layout line ln accounts for the text from offset a up to offset b (where the
   next line starts); [a, a') is a run of zero-width characters that was dropped *)
Inductive LineOK : Z -> line -> Z -> Prop :=
  | LO_empty a h : 0 <= a <= h -> h <= len -> W a h = 0 -> eol_like h ->
      LineOK a [SPad 0 h] (h + 1)
  | LO_hint a a' e sc : 0 <= a <= a' -> a' < e -> e <= len -> W a a' = 0 ->
      (a = a' \/ nthz t a' = Some SP) -> sc = W a' e ->
      0 < sc <= width -> eol_like e ->
      LineOK a [SText sc a' e; SPad 0 e] (e + 1)
  | LO_break a a' e sc : 0 <= a <= a' -> a' < e -> e < len -> W a a' = 0 ->
      (a = a' \/ nthz t a' = Some SP) -> sc = W a' e ->
      0 < sc <= width -> break_ok e sc ->
      LineOK a [SText sc a' e] e.

(* the segment list built so far (last line first) accounts for the text up to idx *)
Inductive Lines : list line -> Z -> Prop :=
  | Lines_nil : Lines [] 0
  | Lines_cons segs a ln b : Lines segs a -> LineOK a ln b -> Lines (ln :: segs) b.

(* a double-width character is next and the width is 1: the next iteration raises CanNotDisplayText *)
Definition Doomed (idx : Z) : Prop :=
  width = 1 /\ exists c, nthz t idx = Some c /\ cw c = 2 /\ c <> NL.

Definition flag (segs : list line) : Z :=
  match unwrap_candidate segs with UCand _ _ _ _ _ => 1 | _ => 0 end.
Definition mu (segs : list line) (idx : Z) : Z := 2 * (len + 1 - idx) + flag segs.

Lemma flag_range segs : 0 <= flag segs <= 1.
Proof. unfold flag; destruct (unwrap_candidate segs); lia. Qed.

Lemma LineOK_range a ln b : LineOK a ln b -> 0 <= a < b /\ b <= len + 1.
Proof. intros H; inversion H; subst; lia. Qed.

Lemma Lines_range segs idx : Lines segs idx -> 0 <= idx <= len + 1.
Proof.
  intros H; inversion H; subst; [pose proof (zlen_nonneg t); lia|].
  match goal with H : LineOK _ _ _ |- _ => apply LineOK_range in H end. lia.
Qed.

Lemma unwrap_not_err segs idx : Lines segs idx -> unwrap_candidate segs <> UErr.
Proof.
  intros H; inversion H; subst; [discriminate|].
  match goal with H : LineOK _ _ _ |- _ => inversion H; subst end; discriminate.
Qed.

Lemma unwrap_cand_inv segs idx p_sc p_off h_sc h_off rest :
  Lines segs idx -> unwrap_candidate segs = UCand p_sc p_off h_sc h_off rest ->
  exists a, Lines rest a /\ 0 <= a <= p_off /\ p_off <= h_off /\ h_off <= len /\ W a p_off = 0 /\ h_sc = 0 /\
            idx = h_off + 1 /\ p_sc = W p_off h_off /\ 0 <= p_sc <= width /\
            (a = p_off \/ nthz t p_off = Some SP \/ p_off = h_off).
Proof.
  intros H U; inversion H; subst; [discriminate|].
  match goal with H : LineOK _ _ _ |- _ => inversion H; subst end; cbn in U; inversion U; subst.
  - exists a. rewrite (slice_nil t h_off h_off) by lia. cbn [sumw]. repeat split; try lia; try assumption.
  - exists a. repeat split; try lia; try assumption.
    match goal with H : _ \/ _ |- _ => destruct H; [left | right; left]; assumption end.
Qed.

Lemma narrow_ne k : narrow_at k -> forall c, nthz t k = Some c -> c <> SP /\ c <> NL /\ cw c <> 2.
Proof. intros (c' & N & A) c N'. rewrite N in N'; inversion N'; subst. exact A. Qed.

(* the measure decreases whenever idx moves forward *)
Lemma mu_forward segs segs' idx idx' : idx < idx' -> mu segs' idx' < mu segs idx.
Proof. intros; unfold mu. pose proof (flag_range segs); pose proof (flag_range segs'); lia. Qed.

(* CanNotDisplayText is raised only for a double-width character in a one-column space *)
Definition CantReason : Prop := width = 1 /\ exists k c, nthz t k = Some c /\ cw c = 2 /\ c <> NL.

Definition StepGood (segs : list line) (idx : Z) (r : lres (list line * Z)) : Prop :=
  (r = LCant /\ CantReason) \/
  exists segs' idx', r = LOk (segs', idx') /\ (Lines segs' idx' \/ Doomed idx') /\ mu segs' idx' < mu segs idx.

Lemma step_good_forward segs idx ln idx' :
  Lines segs idx -> LineOK idx ln idx' -> StepGood segs idx (LOk (ln :: segs, idx')).
Proof.
  intros HL HO. right. exists (ln :: segs), idx'. split; [reflexivity|]. split.
  - left. econstructor; eassumption.
  - apply mu_forward. apply LineOK_range in HO. lia.
Qed.

Lemma step_good_doomed segs idx ln idx' :
  idx < idx' -> Doomed idx' -> StepGood segs idx (LOk (ln :: segs, idx')).
Proof.
  intros HL HD. right. exists (ln :: segs), idx'. split; [reflexivity|]. split; [right; assumption|].
  apply mu_forward; lia.
Qed.

(* ---------- one iteration ---------- *)
Lemma step_wrap_good segs idx : Lines segs idx -> idx <= len ->
  StepGood segs idx (step_wrap cw t width wrap segs idx).
Proof.
  intros HL Hidx.
  pose proof (Lines_range _ _ HL) as Hr.
  unfold step_wrap.
  destruct (find_nl_spec t idx ltac:(lia)) as (Hnl1 & Hnl2 & Hnl3).
  set (nl := find_nl t idx) in *.
  rewrite (calc_width_ok cw t idx nl) by lia. cbn [lbind].
  assert (Heol : eol_like nl) by (destruct Hnl2; [left | right; left]; assumption).
  pose proof (sumw_nonneg cw cw_range (slice t idx nl)) as Hnn.
  destruct (W idx nl =? 0) eqn:E0.
  { apply step_good_forward; [assumption|]. apply LO_empty; try lia; assumption. }
  assert (Hlt : idx < nl).
  { destruct (Z_lt_le_dec idx nl); [assumption|]. rewrite slice_nil in E0 by lia. cbn in E0. lia. }
  destruct (W idx nl <=? width) eqn:E1.
  { apply step_good_forward; [assumption|].
    apply LO_hint; try lia; try assumption; try reflexivity. rewrite slice_nil by lia. reflexivity. }
  destruct (calc_text_pos_spec cw t idx nl width ltac:(lia) ltac:(lia) ltac:(lia))
    as (pos & sc & Ectp & Hpos & Hsc & Hle & Hend).
  rewrite Ectp. cbn [lbind].
  destruct (pos =? idx) eqn:Epi.
  { left. split; [reflexivity|]. assert (pos = idx) by lia; subst pos.
    destruct Hend as [E|(ch & Nch & Hch)]; [lia|].
    rewrite slice_nil in Hsc by lia. cbn [sumw] in Hsc. pose proof (cw_range ch).
    split; [lia|]. exists idx, ch. repeat split; try assumption; try lia.
    intros ->. apply (Hnl3 idx); [lia | assumption]. }
  assert (Hposnl : pos < nl).
  { destruct Hend as [->|?]; [lia|]. destruct (Z_lt_le_dec pos nl); [assumption|].
    assert (pos = nl) by lia. subst pos. lia. }
  destruct Hend as [Hend | (ch & Nch & Hch)]; [lia|].
  assert (Hchnl : ch <> NL) by (intros ->; apply (Hnl3 pos); [lia | assumption]).
  pose proof (cw_range ch) as Hcwch.
  assert (Hzpre : W idx idx = 0) by (rewrite slice_nil by lia; reflexivity).
  pose proof (sumw_nonneg cw cw_range (slice t idx pos)) as Hscnn.
  (* the forced / 'any' break at pos *)
  assert (Hdoom : sc = 0 -> Doomed pos).
  { intros Z0. split; [lia|]. exists ch. repeat split; try assumption; lia. }
  destruct wrap_ws as [Ew | Ew]; rewrite Ew.
  - (* any *)
    destruct (Z.eq_dec sc 0) as [Z0 | NZ].
    + apply step_good_doomed; [lia | auto].
    + apply step_good_forward; [assumption|].
      apply LO_break with (a' := idx); try lia; try assumption.
      unfold break_ok; rewrite Ew. exists ch; split; [assumption | lia].
  - (* space *)
    unfold get. rewrite Nch. cbn [lbind].
    destruct (ch =? SP) eqn:Esp.
    { assert (ch = SP) by lia; subst ch.
      apply step_good_forward; [assumption|].
      apply LO_hint; try lia; try assumption.
      right; right; split; assumption. }
    destruct (cw ch =? 2) eqn:Ewide.
    { destruct (Z.eq_dec sc 0) as [Z0 | NZ].
      + apply step_good_doomed; [lia | auto].
      + apply step_good_forward; [assumption|].
        apply LO_break with (a' := idx); try lia; try assumption.
        unfold break_ok; rewrite Ew. left. exists ch; split; [assumption | lia]. }
    assert (Hscpos : 0 < sc) by lia.
    pose proof (scan_back_spec cw t idx (Z.to_nat (pos - idx)) ltac:(lia) ltac:(lia)) as Hscan.
    replace (idx + Z.of_nat (Z.to_nat (pos - idx))) with pos in Hscan by lia.
    destruct (scan_back cw t idx (Z.to_nat (pos - idx))) as [prev | prev | |]; [| | | contradiction].
    + (* wrap at a space found by scanning back *)
      destruct Hscan as (Hp & Nsp & _).
      rewrite (calc_width_ok cw t idx prev) by lia. cbn [lbind].
      pose proof (sumw_slice_mono cw cw_range t idx prev pos ltac:(lia) ltac:(lia)) as Hm.
      pose proof (sumw_nonneg cw cw_range (slice t idx prev)).
      destruct (W idx prev =? 0) eqn:Ez.
      * apply step_good_forward; [assumption|].
        apply LO_empty; try lia. right; right; split; assumption.
      * apply step_good_forward; [assumption|].
        assert (idx < prev).
        { destruct (Z_lt_le_dec idx prev); [assumption|]. rewrite slice_nil in Ez by lia. cbn in Ez; lia. }
        apply LO_hint; try lia; try assumption; try reflexivity.
        right; right; split; assumption.
    + (* wrap after a wide character *)
      destruct Hscan as (Hp & (c & Nc & _ & Hcw) & _).
      destruct (pos <=? prev) eqn:Epp; [lia|].
      rewrite (calc_width_ok cw t idx (prev + 1)) by lia. cbn [lbind].
      pose proof (sumw_slice_mono cw cw_range t idx (prev + 1) pos ltac:(lia) ltac:(lia)) as Hm.
      pose proof (sumw_slice_snoc cw t idx prev c ltac:(lia) Nc) as Hs.
      pose proof (sumw_nonneg cw cw_range (slice t idx prev)).
      apply step_good_forward; [assumption|].
      apply LO_break with (a' := idx); try lia; try assumption; try reflexivity.
      unfold break_ok; rewrite Ew. right; left. exists c.
      replace (prev + 1 - 1) with prev by lia. split; assumption.
    + (* no space, no wide character in [idx, pos): a word longer than the width *)
      assert (Hnarrow : forall k, idx <= k <= pos -> narrow_at k).
      { intros k Hk. destruct (Z.eq_dec k pos) as [->|].
        - exists ch; repeat split; try assumption; lia.
        - destruct (Hscan k ltac:(lia)) as (c & Nc & A & B). exists c; repeat split; try assumption.
          intros ->. apply (Hnl3 k); [lia | assumption]. }
      assert (HWlong : width < W idx (pos + 1)).
      { rewrite (sumw_slice_snoc cw t idx pos ch) by (lia || assumption). lia. }
      assert (Hforce : StepGood segs idx (LOk ([SText sc idx pos] :: segs, pos))).
      { apply step_good_forward; [assumption|].
        apply LO_break with (a' := idx); try lia; try assumption.
        unfold break_ok; rewrite Ew. right; right; right.
        exists idx, pos. split; [lia|]. split; assumption. }
      destruct (unwrap_candidate segs) as [p_sc p_off h_sc h_off rest | |] eqn:EU;
        [| exact Hforce | exfalso; eapply unwrap_not_err; eassumption].
      destruct (unwrap_cand_inv _ _ _ _ _ _ _ HL EU)
        as (a & HLr & Ha & Hpo & Hho & Hz & Hhs & Hi & Hps & Hpsr & Hpre).
      subst h_sc. replace (0 =? 0) with true by reflexivity. rewrite andb_true_r.
      destruct (p_sc <? width) eqn:Epw; [| exact Hforce].
      destruct (nthz_ex t h_off ltac:(lia)) as (ch0 & Nch0). unfold get. rewrite Nch0. cbn [lbind].
      destruct (ch0 =? SP) eqn:Esp0; [| exact Hforce].
      assert (ch0 = SP) by lia; subst ch0.
      (* combine with the previous line *)
      destruct (calc_text_pos_spec cw t p_off nl width ltac:(lia) ltac:(lia) ltac:(lia))
        as (pos2 & sc2 & Ectp2 & Hpos2 & Hsc2 & Hle2 & Hend2).
      rewrite Ectp2. cbn [lbind].
      assert (HWp : W p_off idx = p_sc + 1).
      { subst idx. rewrite (sumw_slice_snoc cw t p_off h_off SP) by (lia || assumption). lia. }
      assert (Hge : idx <= pos2).
      { apply (ctp_result_ge cw cw_range t p_off nl width pos2 sc2 idx); try lia; assumption. }
      assert (Hlt2 : pos2 < pos + 1).
      { apply (ctp_result_lt cw cw_range t p_off nl width pos2 sc2 (pos + 1)); try lia; try assumption.
        pose proof (sumw_slice_mono_l cw cw_range t p_off idx (pos + 1) ltac:(lia) ltac:(lia)). lia. }
      destruct (pos2 <? len) eqn:Epl; [| lia].
      destruct (Hnarrow pos2 ltac:(lia)) as (c2 & Nc2 & C2a & C2b & C2c).
      rewrite Nc2. cbn [lbind].
      replace ((c2 =? SP) || (c2 =? NL)) with false by lia.
      right. exists ([SText sc2 p_off pos2] :: rest), pos2. split; [reflexivity|]. split.
      * left. econstructor; [exact HLr|].
        pose proof (sumw_slice_mono cw cw_range t p_off idx pos2 ltac:(lia) ltac:(lia)).
        apply LO_break with (a' := p_off); try lia; try assumption.
        { destruct Hpre as [|[|]]; [left; assumption | right; assumption | right; subst p_off; assumption]. }
        unfold break_ok; rewrite Ew.
        destruct (Z.eq_dec pos2 idx) as [->|].
        -- right; right; left. replace (idx - 1) with h_off by lia. assumption.
        -- right; right; right. exists idx, pos. split; [lia|]. split; assumption.
      * unfold mu, flag. rewrite EU. cbn [unwrap_candidate]. lia.
Qed.

Lemma doomed_reason idx : Doomed idx -> CantReason.
Proof. intros (Hw & c & N & Hc & Hnl). split; [assumption|]. exists idx, c. repeat split; assumption. Qed.

Lemma step_wrap_doomed segs idx : Doomed idx -> 0 <= idx -> step_wrap cw t width wrap segs idx = LCant.
Proof.
  intros (Hw & c & N & Hc & Hnl) H0. pose proof (nthz_lt _ _ _ N) as Hr.
  unfold step_wrap.
  destruct (find_nl_spec t idx ltac:(lia)) as (Hnl1 & Hnl2 & Hnl3).
  set (nl := find_nl t idx) in *.
  assert (Hlt : idx < nl).
  { destruct (Z_lt_le_dec idx nl); [assumption|]. assert (nl = idx) by lia.
    destruct Hnl2 as [E|E]; [lia|]. rewrite H in E. rewrite N in E. inversion E; contradiction. }
  rewrite (calc_width_ok cw t idx nl) by lia. cbn [lbind].
  pose proof (sumw_slice_cons cw t idx nl c Hlt N) as Hs.
  pose proof (sumw_nonneg cw cw_range (slice t (idx + 1) nl)).
  destruct (W idx nl =? 0) eqn:E0; [lia|].
  destruct (W idx nl <=? width) eqn:E1; [lia|].
  destruct (calc_text_pos_spec cw t idx nl width ltac:(lia) ltac:(lia) ltac:(lia))
    as (pos & sc & Ectp & Hpos & Hsc & Hle & Hend).
  rewrite Ectp. cbn [lbind].
  assert (pos < idx + 1).
  { apply (ctp_result_lt cw cw_range t idx nl width pos sc (idx + 1)); try lia; try assumption.
    rewrite (slice_one t idx c N). cbn [sumw]. lia. }
  replace (pos =? idx) with true by lia. reflexivity.
Qed.

(* ---------- the loop ---------- *)
Lemma wrap_loop_good fuel : forall segs idx,
  (Lines segs idx \/ Doomed idx) -> 0 <= idx <= len + 1 -> mu segs idx <= Z.of_nat fuel ->
  (wrap_loop cw fuel t width wrap segs idx = LCant /\ CantReason) \/
  exists segs', wrap_loop cw fuel t width wrap segs idx = LOk (rev segs') /\ Lines segs' (len + 1).
Proof.
  induction fuel as [|k IH]; intros segs idx HS Hr Hmu.
  - cbn [wrap_loop]. destruct (idx <=? len) eqn:E.
    + unfold mu in Hmu. pose proof (flag_range segs). lia.
    + right. assert (idx = len + 1) by lia. subst idx. exists segs. split; [reflexivity|].
      destruct HS as [|(_ & c & N & _)]; [assumption|]. apply nthz_lt in N. lia.
  - cbn [wrap_loop]. destruct (idx <=? len) eqn:E.
    + destruct HS as [HL | HD].
      * destruct (step_wrap_good segs idx HL ltac:(lia)) as [(-> & HR) | (segs' & idx' & -> & HS' & Hmu')];
          [left; split; [reflexivity | assumption]|]. cbn [lbind].
        assert (Hr' : 0 <= idx' <= len + 1).
        { destruct HS' as [HL' | (_ & c & N & _)]; [apply (Lines_range _ _ HL')|]. apply nthz_lt in N. lia. }
        apply (IH segs' idx' HS' Hr'). lia.
      * rewrite (step_wrap_doomed segs idx HD ltac:(lia)). left; split; [reflexivity|].
        eapply doomed_reason; eassumption.
    + right. assert (idx = len + 1) by lia. subst idx. exists segs. split; [reflexivity|].
      destruct HS as [|(_ & c & N & _)]; [assumption|]. apply nthz_lt in N. lia.
Qed.

(* the fuel given by calculate_text_segments always suffices; the result is CanNotDisplayText or a
   layout that satisfies the invariant up to the end of the text *)
Theorem wrap_segments_good :
  (wrap_loop cw (Z.to_nat (2 * len + 3)) t width wrap [] 0 = LCant /\ CantReason) \/
  exists segs, wrap_loop cw (Z.to_nat (2 * len + 3)) t width wrap [] 0 = LOk (rev segs) /\ Lines segs (len + 1).
Proof.
  pose proof (zlen_nonneg t).
  apply wrap_loop_good; [left; constructor | lia |].
  unfold mu, flag; cbn [unwrap_candidate]. lia.
Qed.

(* ---------- consequences of the invariant ---------- *)
Lemma ranges_sorted_lo lo lo' rs hi : ranges_sorted lo rs hi -> lo' <= lo -> ranges_sorted lo' rs hi.
Proof. destruct rs as [|[o e] r]; cbn [ranges_sorted]; intros; [lia|]. destruct H as (A & B & C). repeat split; try lia; assumption. Qed.

Lemma LineOK_shape a ln b : LineOK a ln b -> line_next ln = Some b /\ no_shift ln /\ ln <> [].
Proof. intros H; inversion H; subst; cbn; repeat split; try discriminate; reflexivity. Qed.

Lemma LineOK_ranges a ln b : LineOK a ln b -> ranges_sorted a (line_ranges ln) (Z.min b len).
Proof. intros H; inversion H; subst; cbn [line_ranges flat_map seg_range app ranges_sorted]; lia. Qed.

Lemma Lines_sorted segs b : Lines segs b -> ranges_sorted 0 (shown_ranges (rev segs)) (Z.min b len).
Proof.
  induction 1 as [|segs a ln b HL IH HO].
  - cbn. pose proof (zlen_nonneg t). lia.
  - cbn [rev]. rewrite shown_ranges_app. eapply ranges_sorted_app; [exact IH|].
    unfold shown_ranges; cbn [flat_map]. rewrite app_nil_r.
    eapply ranges_sorted_lo; [apply LineOK_ranges; eassumption | lia].
Qed.

Definition line_start (L : list line) (a : Z) : Prop :=
  a = 0 \/ exists ln, In ln L /\ line_next ln = Some a.

(* why the character at offset i may be missing from the layout *)
Definition omit_ok (L : list line) (i : Z) : Prop :=
  nthz t i = Some NL
  \/ (wrap = WSpace /\ nthz t i = Some SP /\ exists ln, In ln L /\ line_hint ln = Some i)
  \/ (exists a a', 0 <= a /\ a <= i < a' /\ W a a' = 0 /\ line_start L a /\
                   (a' = len \/ nthz t a' = Some NL \/ nthz t a' = Some SP)).

Lemma Lines_start segs a : Lines segs a -> line_start segs a.
Proof.
  intros H; inversion H; subst; [left; reflexivity | right].
  eexists; split; [left; reflexivity|]. eapply LineOK_shape; eassumption.
Qed.

Lemma line_start_cons L ln a : line_start L a -> line_start (ln :: L) a.
Proof. intros [->|(l & I & N)]; [left; reflexivity | right; exists l; split; [right|]; assumption]. Qed.

Lemma omit_ok_cons L ln i : omit_ok L i -> omit_ok (ln :: L) i.
Proof.
  intros [H|[(A & B & l & I & N)|(a & a' & A0 & A & B & C & D)]].
  - left; assumption.
  - right; left. repeat split; try assumption. exists l; split; [right|]; assumption.
  - right; right. exists a, a'. repeat split; try lia; try assumption. apply line_start_cons; assumption.
Qed.

Lemma in_ranges_cons L ln i : in_ranges i (shown_ranges L) -> in_ranges i (shown_ranges (ln :: L)).
Proof.
  intros (o & e & I & R). exists o, e. split; [|assumption].
  unfold shown_ranges in *; cbn [flat_map]. apply in_or_app; right; assumption.
Qed.

Lemma Lines_cover segs b : Lines segs b ->
  forall i, 0 <= i < Z.min b len -> in_ranges i (shown_ranges segs) \/ omit_ok segs i.
Proof.
  induction 1 as [|segs a ln b HL IH HO]; intros i Hi; [lia|].
  destruct (Z_lt_le_dec i (Z.min a len)) as [Lt|Ge].
  { destruct (IH i ltac:(lia)); [left; apply in_ranges_cons | right; apply omit_ok_cons]; assumption. }
  pose proof (Lines_start _ _ HL) as Hst. apply (line_start_cons _ ln) in Hst.
  assert (Heol : forall h, h = i -> eol_like h -> line_hint ln = Some h -> omit_ok (ln :: segs) i).
  { intros h -> [E|[E|(E & Ew)]] Hh; [lia | left; assumption | right; left].
    repeat split; try assumption. exists ln; split; [left; reflexivity | assumption]. }
  inversion HO; subst.
  - (* empty line *)
    destruct (Z.eq_dec i h) as [->|]; [right; apply (Heol h); [reflexivity | assumption | reflexivity]|].
    right; right; right. exists a, h. repeat split; try lia; try assumption.
    match goal with H : eol_like h |- _ => destruct H as [E|[E|(E & _)]] end; auto.
  - destruct (Z.eq_dec i e) as [->|]; [right; apply (Heol e); [reflexivity | assumption | reflexivity]|].
    destruct (Z_lt_le_dec i a').
    + right; right; right. exists a, a'. repeat split; try lia; try assumption.
      match goal with H : _ = _ \/ nthz t a' = _ |- _ => destruct H; [lia | auto] end.
    + left. exists a', e. split; [|lia]. unfold shown_ranges; cbn [flat_map line_ranges seg_range app].
      left; reflexivity.
  - destruct (Z_lt_le_dec i a').
    + right; right; right. exists a, a'. repeat split; try lia; try assumption.
      match goal with H : _ = _ \/ nthz t a' = _ |- _ => destruct H; [lia | auto] end.
    + left. exists a', b. split; [|lia]. unfold shown_ranges; cbn [flat_map line_ranges seg_range app].
      left; reflexivity.
Qed.

Lemma Lines_all segs b : Lines segs b -> forall ln, In ln segs -> exists a b', LineOK a ln b'.
Proof.
  induction 1; intros l I; [contradiction|]. destruct I as [<-|I]; [eauto | apply IHLines; assumption].
Qed.

Lemma LineOK_fits a ln b : LineOK a ln b ->
  0 <= line_width ln <= width /\
  (forall sc o e, In (SText sc o e) ln -> sc = W o e /\ 0 < sc <= width /\ 0 <= o < e /\ e <= len) /\
  (forall s, In s ln -> match s with SText _ _ _ => True | SPad 0 _ => True | _ => False end).
Proof.
  intros H; inversion H; subst; cbn [line_width fold_left seg_sc]; (split; [lia|]); split.
  all: try (intros sc0 o e0 [Q|[Q|[]]]; inversion Q; subst; repeat split; lia).
  all: try (intros sc0 o e0 [Q|[]]; inversion Q; subst; repeat split; lia).
  all: try (intros s [<-|[<-|[]]]; exact I).
  all: try (intros s [<-|[]]; exact I).
Qed.

Lemma LineOK_broken a ln b : LineOK a ln b -> line_hint ln = None ->
  exists a' sc, ln = [SText sc a' b] /\ sc = W a' b /\ break_ok b sc.
Proof. intros H N; inversion H; subst; cbn in N; try discriminate. eauto. Qed.

End Wrap.

(* ====================================================================================== *)
(* wrap modes 'clip' and 'ellipsis'                                                        *)
Section Trim.
Variable cw : Z -> Z.
Hypothesis cw_range : forall c, 0 <= cw c <= 2.
Variable t : list Z.
Variable width : Z.
Hypothesis width_pos : 1 <= width.
Variable wrap : wrapmode.
Hypothesis wrap_ce : wrap = WClip \/ wrap = WEllipsis.
Variable ell0 : list Z.

Notation len := (zlen t).
Notation W a b := (sumw cw (slice t a b)).
Notation ell := (trim_ell cw width ell0).
Notation ew := (sumw cw (trim_ell cw width ell0)).

Lemma trim_ell_rev_le r : sumw cw (trim_ell_rev cw width r) <= width - 1.
Proof.
  induction r as [|c r IH]; cbn [trim_ell_rev]; [cbn; lia|].
  destruct (width - 1 <? sumw cw (c :: r)) eqn:E; [exact IH | lia].
Qed.

Lemma ew_range : 0 <= ew <= width - 1.
Proof.
  unfold trim_ell. rewrite sumw_rev. split; [apply sumw_nonneg; assumption | apply trim_ell_rev_le].
Qed.

Lemma ew_nonzero_ell : ew <> 0 -> ell <> [].
Proof. intros H E. rewrite E in H. cbn in H. lia. Qed.

Definition para_end (nl : Z) : Prop := nl = len \/ nthz t nl = Some NL.

(* the cut of an over-long line: e is the first character that does not fit before the ellipsis *)
Definition cut_at (a e : Z) : Prop :=
  W a e <= width - ew /\ exists ch, nthz t e = Some ch /\ width - ew < cw ch + W a e.

Inductive TLineOK : Z -> line -> Z -> Prop :=
  | TL_plain a nl : 0 <= a <= nl -> nl <= len -> para_end nl ->
      (forall k, a <= k < nl -> nthz t k <> Some NL) ->
      (wrap = WEllipsis -> ew <> 0 -> W a nl <= width) ->
      TLineOK a ((if W a nl =? 0 then [] else [SText (W a nl) a nl]) ++ [SPad 0 nl]) (nl + 1)
  | TL_trim a e nl pr : wrap = WEllipsis -> 0 < ew -> 0 <= a <= e -> e < nl -> nl <= len -> para_end nl ->
      (forall k, a <= k < nl -> nthz t k <> Some NL) ->
      width < W a nl -> W a e = width - ew - pr -> (pr = 0 \/ pr = 1) -> cut_at a e ->
      TLineOK a ((if W a e =? 0 then [] else [SText (W a e) a e]) ++ [SIns ew e ell; SPad pr e]) (nl + 1).

Inductive TLines : list line -> Z -> Prop :=
  | TLines_nil : TLines [] 0
  | TLines_cons segs a ln b : TLines segs a -> TLineOK a ln b -> TLines (ln :: segs) b.

Lemma TLineOK_range a ln b : TLineOK a ln b -> 0 <= a < b /\ b <= len + 1.
Proof. intros H; inversion H; subst; lia. Qed.

Lemma TLines_range segs idx : TLines segs idx -> 0 <= idx <= len + 1.
Proof.
  intros H; inversion H; subst; [pose proof (zlen_nonneg t); lia|].
  match goal with H : TLineOK _ _ _ |- _ => apply TLineOK_range in H end. lia.
Qed.

Lemma step_trim_good idx : 0 <= idx <= len ->
  exists ln idx', step_trim cw t width wrap ell idx = LOk (ln, idx') /\ TLineOK idx ln idx' /\
                  idx' = find_nl t idx + 1.
Proof.
  intros Hidx. unfold step_trim.
  destruct (find_nl_spec t idx ltac:(lia)) as (Hnl1 & Hnl2 & Hnl3).
  set (nl := find_nl t idx) in *.
  rewrite (calc_width_ok cw t idx nl) by lia. cbn [lbind].
  pose proof ew_range as Hew.
  destruct ((match wrap with WEllipsis => true | _ => false end) && (width <? W idx nl) && negb (ew =? 0)) eqn:Econd.
  - (* the line is cut and the ellipsis inserted *)
    assert (Ew : wrap = WEllipsis) by (destruct wrap; cbn in Econd; try discriminate; reflexivity).
    assert (Hwide : width < W idx nl) by lia. assert (Hew0 : 0 < ew) by lia.
    unfold calc_trim_text. replace (0 <? 0) with false by reflexivity. cbn [lbind].
    replace (width - ew - 0 - 0) with (width - ew) by lia.
    destruct (calc_text_pos_spec cw t idx nl (width - ew) ltac:(lia) ltac:(lia) ltac:(lia))
      as (pos & sc & Ectp & Hpos & Hsc & Hle & Hend).
    rewrite Ectp. cbn [lbind].
    replace (negb (0 =? 0)) with false by reflexivity. replace (negb (idx =? idx)) with false by lia.
    cbn [lbind].
    assert (Hposnl : pos < nl).
    { destruct (Z_lt_le_dec pos nl); [assumption|]. assert (pos = nl) by lia. subst pos. lia. }
    destruct Hend as [E | (ch & Nch & Hch)]; [lia|]. pose proof (cw_range ch).
    set (pr := if sc <? width - ew then 1 else 0).
    assert (Hpr : (pr = 0 \/ pr = 1) /\ sc = width - ew - pr) by (unfold pr; destruct (sc <? width - ew) eqn:E; lia).
    destruct Hpr as (Hpr & Hscpr).
    exists ((if width - ew - pr =? 0 then [] else [SText (width - ew - pr) idx pos]) ++ [SIns ew pos ell] ++ [SPad pr pos]), (nl + 1).
    split; [reflexivity|]. split; [|reflexivity].
    rewrite <- Hscpr. rewrite Hsc.
    apply TL_trim; try lia; try assumption.
    split; [lia|]. exists ch. split; [assumption | lia].
  - exists ((if W idx nl =? 0 then [] else [SText (W idx nl) idx nl]) ++ [] ++ [SPad 0 nl]), (nl + 1).
    split; [reflexivity|]. split; [|reflexivity]. cbn [app].
    apply TL_plain; try lia; try assumption.
    intros Ew Hne. rewrite Ew in Econd. cbn in Econd. lia.
Qed.

Lemma trim_loop_good fuel : forall segs idx, TLines segs idx -> len + 1 - idx <= Z.of_nat fuel ->
  exists segs', trim_loop cw fuel t width wrap ell segs idx = LOk (rev segs') /\ TLines segs' (len + 1).
Proof.
  induction fuel as [|k IH]; intros segs idx HL Hf; pose proof (TLines_range _ _ HL) as Hr; cbn [trim_loop].
  - destruct (idx <=? len) eqn:E; [lia|]. assert (idx = len + 1) by lia. subst. eauto.
  - destruct (idx <=? len) eqn:E.
    + destruct (step_trim_good idx ltac:(lia)) as (ln & idx' & -> & HO & _). cbn [lbind].
      pose proof (TLineOK_range _ _ _ HO).
      apply IH; [econstructor; eassumption | lia].
    + assert (idx = len + 1) by lia. subst. eauto.
Qed.

Theorem trim_segments_good :
  exists segs, trim_loop cw (Z.to_nat (len + 2)) t width wrap ell [] 0 = LOk (rev segs) /\ TLines segs (len + 1).
Proof. pose proof (zlen_nonneg t). apply trim_loop_good; [constructor | lia]. Qed.

(* ---------- consequences ---------- *)
Lemma TLineOK_shape a ln b : TLineOK a ln b -> no_shift ln /\ ln <> [].
Proof.
  intros H; inversion H; subst.
  - destruct (W a nl =? 0); cbn; repeat split; try discriminate; reflexivity.
  - destruct (W a e =? 0); cbn; repeat split; try discriminate; reflexivity.
Qed.

Lemma TLineOK_ranges a ln b : TLineOK a ln b -> ranges_sorted a (line_ranges ln) (Z.min b len).
Proof.
  intros H; inversion H; subst.
  - destruct (W a nl =? 0) eqn:E; cbn [line_ranges flat_map seg_range app ranges_sorted]; try lia.
    assert (a < nl) by (destruct (Z_lt_le_dec a nl); [assumption|]; rewrite slice_nil in E by lia; cbn in E; lia). lia.
  - destruct (W a e =? 0) eqn:E; cbn [line_ranges flat_map seg_range app ranges_sorted]; try lia.
    assert (a < e) by (destruct (Z_lt_le_dec a e); [assumption|]; rewrite slice_nil in E by lia; cbn in E; lia). lia.
Qed.

Lemma TLines_sorted segs b : TLines segs b -> ranges_sorted 0 (shown_ranges (rev segs)) (Z.min b len).
Proof.
  induction 1 as [|segs a ln b HL IH HO].
  - cbn. pose proof (zlen_nonneg t). lia.
  - cbn [rev]. rewrite shown_ranges_app. eapply ranges_sorted_app; [exact IH|].
    unfold shown_ranges; cbn [flat_map]. rewrite app_nil_r.
    destruct (line_ranges ln) as [|[o e] r] eqn:E.
    + cbn. apply TLineOK_range in HO. lia.
    + pose proof (TLineOK_ranges _ _ _ HO) as R. rewrite E in R. cbn [ranges_sorted] in *.
      destruct R as (A & B & C). repeat split; try lia; assumption.
Qed.

(* in these modes a layout line is a whole paragraph: it starts at 0 or after a newline *)
Definition tline_start (a : Z) : Prop := a = 0 \/ nthz t (a - 1) = Some NL.

(* why the character at offset i may be missing from a clip / ellipsis layout *)
Definition omit_ok_trim (i : Z) : Prop :=
  nthz t i = Some NL
  \/ (exists a nl, a <= i < nl /\ W a nl = 0 /\ tline_start a /\ para_end nl)
  \/ (wrap = WEllipsis /\ exists a e, tline_start a /\ a <= e /\ a <= i /\
        (forall j, a <= j <= i -> nthz t j <> Some NL) /\ cut_at a e /\ (e <= i \/ W a e = 0)).

Lemma TLineOK_next_start a ln b : TLineOK a ln b -> b <= len -> nthz t (b - 1) = Some NL.
Proof.
  intros H L; inversion H; subst;
    match goal with H : para_end ?n |- _ => replace (n + 1 - 1) with n by lia; destruct H; [lia | assumption] end.
Qed.

Lemma TLines_start segs a : TLines segs a -> a <= len -> tline_start a.
Proof.
  intros H L; inversion H; subst; [left; reflexivity | right]. eapply TLineOK_next_start; eassumption.
Qed.

Lemma TLines_cover segs b : TLines segs b ->
  forall i, 0 <= i < Z.min b len -> in_ranges i (shown_ranges segs) \/ omit_ok_trim i.
Proof.
  induction 1 as [|segs a ln b HL IH HO]; intros i Hi; [lia|].
  destruct (Z_lt_le_dec i (Z.min a len)) as [Lt|Ge].
  { destruct (IH i ltac:(lia)) as [H|H]; [left | right; exact H].
    destruct H as (o & e & I & R). exists o, e. split; [|assumption].
    unfold shown_ranges in *; cbn [flat_map]. apply in_or_app; right; assumption. }
  pose proof (TLines_start _ _ HL ltac:(lia)) as Hst.
  inversion HO; subst.
  - destruct (Z.eq_dec i nl) as [->|].
    { right; left. match goal with H : para_end nl |- _ => destruct H; [lia | assumption] end. }
    destruct (W a nl =? 0) eqn:E.
    + right; right; left. exists a, nl. repeat split; try lia; try assumption.
    + left. exists a, nl. split; [|lia]. unfold shown_ranges; cbn [flat_map line_ranges seg_range app]. left; reflexivity.
  - destruct (Z.eq_dec i nl) as [->|].
    { right; left. match goal with H : para_end nl |- _ => destruct H; [lia | assumption] end. }
    destruct (Z_lt_le_dec i e).
    + destruct (W a e =? 0) eqn:E.
      * right; right; right. split; [assumption|]. exists a, e.
        split; [assumption|]. split; [lia|]. split; [lia|]. split; [|split; [assumption | right; lia]].
        intros j Hj. match goal with H : forall k, _ -> nthz t k <> Some NL |- _ => apply H; lia end.
      * left. exists a, e. split; [|lia]. unfold shown_ranges; cbn [flat_map line_ranges seg_range app]. left; reflexivity.
    + right; right; right. split; [assumption|]. exists a, e.
      split; [assumption|]. split; [lia|]. split; [lia|]. split; [|split; [assumption | left; lia]].
      intros j Hj. match goal with H : forall k, _ -> nthz t k <> Some NL |- _ => apply H; lia end.
Qed.

Lemma TLines_all segs b : TLines segs b -> forall ln, In ln segs -> exists a b', TLineOK a ln b'.
Proof.
  induction 1; intros l I; [contradiction|]. destruct I as [<-|I]; [eauto | apply IHTLines; assumption].
Qed.

(* in ellipsis mode (when an ellipsis fits at all) every line fits; a cut line fills the width exactly *)
Ltac in_cases := repeat match goal with
  | H : In _ (_ :: _) |- _ => destruct H as [H|H]; [inversion H; subst; clear H | ]
  | H : In _ [] |- _ => destruct H
  end.

Lemma TLineOK_fits a ln b : TLineOK a ln b ->
  (wrap = WEllipsis -> ew <> 0 -> 0 <= line_width ln <= width) /\
  (forall sc o e, In (SText sc o e) ln -> sc = W o e /\ 0 < sc /\ 0 <= o < e /\ e <= len) /\
  (forall sc o txt, In (SIns sc o txt) ln -> txt <> [] /\ sc = sumw cw txt /\ 0 < sc /\ line_width ln = width) /\
  (forall sc o, In (SPad sc o) ln -> 0 <= sc <= 1) /\
  (forall sc, ~ In (SShift sc) ln).
Proof.
  intros H; inversion H; subst.
  - pose proof (sumw_nonneg cw cw_range (slice t a nl)).
    assert (W a nl <> 0 -> a < nl).
    { intros N. destruct (Z_lt_le_dec a nl); [assumption|]. rewrite slice_nil in N by lia. cbn in N; lia. }
    destruct (W a nl =? 0) eqn:E; cbn [app line_width fold_left seg_sc].
    all: (split; [intros Ew Hne; match goal with H : wrap = WEllipsis -> _ |- _ => specialize (H Ew Hne) end; lia|]).
    all: (split; [intros sc o e0 HI; in_cases; repeat split; lia|]).
    all: (split; [intros sc o txt HI; in_cases|]).
    all: (split; [intros sc o HI; in_cases; lia|]).
    all: intros sc HI; in_cases.
  - pose proof (sumw_nonneg cw cw_range (slice t a e)).
    pose proof (ew_nonzero_ell ltac:(lia)).
    assert (W a e <> 0 -> a < e).
    { intros N. destruct (Z_lt_le_dec a e); [assumption|]. rewrite slice_nil in N by lia. cbn in N; lia. }
    destruct (W a e =? 0) eqn:E; cbn [app line_width fold_left seg_sc].
    all: (split; [intros; lia|]).
    all: (split; [intros sc o e0 HI; in_cases; repeat split; lia|]).
    all: (split; [intros sc o txt HI; in_cases; repeat split; try assumption; lia|]).
    all: (split; [intros sc o HI; in_cases; lia|]).
    all: intros sc HI; in_cases.
Qed.

End Trim.

(* ====================================================================================== *)
(* alignment and rendering                                                                 *)
Ltac Zify.zify_post_hook ::= Z.div_mod_to_equations.

Section Render.
Variable cw : Z -> Z.
Hypothesis cw_range : forall c, 0 <= cw c <= 2.
Hypothesis cw_space : cw SP = 1.
Variable t : list Z.
Variable width : Z.
Hypothesis width_pos : 1 <= width.

Notation len := (zlen t).
Notation W a b := (sumw cw (slice t a b)).

Definition total (l : line) : Z := fold_left (fun a s => a + seg_sc s) l 0.

Lemma fold_sc l : forall a, fold_left (fun a s => a + seg_sc s) l a = a + total l.
Proof.
  unfold total. induction l as [|s l IH]; intros a; cbn [fold_left]; [lia|].
  rewrite IH. rewrite (IH (0 + seg_sc s)). lia.
Qed.

Lemma total_cons s l : total (s :: l) = seg_sc s + total l.
Proof. unfold total at 1. cbn [fold_left]. rewrite fold_sc. lia. Qed.

Lemma line_width_no_shift l : no_shift l -> line_width l = total l.
Proof. destruct l as [|[] l]; cbn; intros H; try reflexivity. contradiction. Qed.

Lemma line_width_shift s l : line_width (SShift s :: l) = total l.
Proof. reflexivity. Qed.

(* ---------- align_layout ---------- *)
Definition pad_expected (align : alignmode) (lw : Z) : Z :=
  if lw =? width then 0 else
  match align with AlLeft => 0 | AlRight => width - lw | AlCenter => (width - lw + 1) / 2 end.

Lemma align_line_spec align l : no_shift l ->
  let s := pad_expected align (line_width l) in
  align_line width align l = (if s =? 0 then l else SShift s :: l).
Proof.
  intros NS. cbn zeta. unfold align_line, pad_expected.
  destruct (line_width l =? width) eqn:E; cbn [orb]; [reflexivity|].
  destruct align; cbn [orb]; try reflexivity.
  destruct (width - line_width l =? 0) eqn:E2; [lia | reflexivity].
Qed.

Lemma align_line_shift align l : no_shift l ->
  line_shift (align_line width align l) = pad_expected align (line_width l) /\
  line_width (align_line width align l) = line_width l /\
  line_ranges (align_line width align l) = line_ranges l /\
  (l <> [] -> line_hint (align_line width align l) = line_hint l /\ line_next (align_line width align l) = line_next l).
Proof.
  intros NS. rewrite (align_line_spec align l NS).
  destruct (pad_expected align (line_width l) =? 0) eqn:E.
  - repeat split; try reflexivity. destruct l as [|[] l]; cbn in *; try lia; try contradiction.
  - split; [reflexivity|]. split; [cbn [line_width]; symmetry; apply line_width_no_shift; assumption|].
    split; [reflexivity|]. intros NE. split.
    + unfold line_hint. rewrite last_cons_ne by assumption. reflexivity.
    + unfold line_next. rewrite last_cons_ne by assumption. reflexivity.
Qed.

Lemma pad_expected_spare align lw : lw <= width ->
  pad_expected align lw = match align with AlLeft => 0 | AlRight => width - lw | AlCenter => (width - lw + 1) / 2 end
  /\ 0 <= pad_expected align lw /\ pad_expected align lw + lw <= width.
Proof.
  intros H. unfold pad_expected. destruct (lw =? width) eqn:E; destruct align; repeat split; try lia.
  all: replace (width - lw + 1) with 1 by lia; reflexivity.
Qed.

(* ---------- rendering a line that fits ---------- *)
Definition seg_ok (s : seg) : Prop :=
  match s with
  | SText sc o e => 0 <= o < e /\ sc = W o e /\ 0 < sc
  | SIns sc o txt => txt <> [] /\ sc = sumw cw txt /\ 0 < sc
  | SPad sc o => 0 <= sc
  | SShift sc => 0 <= sc
  end.

Lemma seg_ok_sc s : seg_ok s -> 0 <= seg_sc s.
Proof. destruct s; cbn; lia. Qed.

Lemma trim_line_loop_id segs : forall acc,
  Forall (fun s => 0 <= seg_sc s <= width) segs ->
  trim_line_loop cw t segs 0 width 0 acc = LOk (acc ++ segs).
Proof.
  induction segs as [|s segs IH]; intros acc HF; cbn [trim_line_loop]; [now rewrite app_nil_r|].
  inversion HF as [|? ? Hs HF']; subst.
  replace (negb (0 =? 0) || (seg_sc s <? 0)) with false by lia.
  replace (width <=? 0) with false by lia.
  replace (width <? 0 + seg_sc s) with false by lia.
  rewrite IH by assumption. rewrite <- app_assoc. reflexivity.
Qed.

Lemma sumw_spaces1 n : 0 <= n -> sumw cw (spaces n) = n.
Proof. intros; rewrite sumw_spaces, cw_space. lia. Qed.

Lemma render_seg_ok s : seg_ok s -> exists row, render_seg t s = LOk row /\ sumw cw row = seg_sc s.
Proof.
  destruct s as [sc o e|sc o txt|sc o|sc]; cbn [seg_ok seg_sc]; intros H; unfold render_seg; cbn [seg_valid].
  - destruct H as (A & B & C). replace (negb (0 <? sc)) with false by lia.
    replace (e =? 0) with false by lia. eexists; split; [reflexivity | lia].
  - destruct H as (A & B & C). replace (negb (0 <? sc)) with false by lia.
    destruct txt; [contradiction|]. eexists; split; [reflexivity | lia].
  - replace (negb (0 <=? sc)) with false by lia. eexists; split; [reflexivity | apply sumw_spaces1; lia].
  - cbn [negb]. eexists; split; [reflexivity | apply sumw_spaces1; lia].
Qed.

Lemma render_segs_ok l : Forall seg_ok l -> exists row, render_segs t l = LOk row /\ sumw cw row = total l.
Proof.
  induction 1 as [|s l Hs Hl IH]; cbn [render_segs].
  - exists []. split; reflexivity.
  - destruct (render_seg_ok s Hs) as (r1 & -> & S1). destruct IH as (r2 & -> & S2). cbn [lbind].
    eexists; split; [reflexivity|]. rewrite sumw_app, total_cons. lia.
Qed.

Definition line_fits (l : line) : Prop := Forall seg_ok l /\ total l <= width.

Lemma total_ge_seg l : Forall seg_ok l -> 0 <= total l /\ Forall (fun s => 0 <= seg_sc s <= total l) l.
Proof.
  induction 1 as [|s l Hs Hl (IH1 & IH2)].
  - unfold total; cbn; split; [lia | constructor].
  - rewrite total_cons. pose proof (seg_ok_sc s Hs). split; [lia|]. constructor; [lia|].
    eapply Forall_impl; [|exact IH2]. cbn; intros; lia.
Qed.

(* a line that fits is rendered as it stands and padded to exactly [width] columns *)
Lemma render_line_fits l : line_fits l ->
  exists row, render_segs t l = LOk row /\ sumw cw row = total l /\
              render_line cw t width l = LOk (row ++ spaces (width - total l)) /\
              sumw cw (row ++ spaces (width - total l)) = width.
Proof.
  intros (HF & HT). destruct (total_ge_seg l HF) as (T0 & TF).
  destruct (render_segs_ok l HF) as (row & Er & Sr). exists row. repeat split; try assumption.
  - unfold render_line, trim_line. rewrite trim_line_loop_id.
    + cbn [app lbind]. rewrite Er. cbn [lbind]. rewrite Sr. replace (width <? total l) with false by lia. reflexivity.
    + eapply Forall_impl; [|exact TF]. cbn; intros; lia.
  - rewrite sumw_app, Sr, sumw_spaces1 by lia. lia.
Qed.

Lemma render_lines_fits L : Forall line_fits L ->
  exists rows, render_lines cw t width L = LOk rows /\ zlen rows = zlen L /\
               Forall (fun r => sumw cw r = width) rows.
Proof.
  induction 1 as [|l L Hl HL (rows & Er & El & Ew)]; cbn [render_lines].
  - exists []. repeat split; constructor.
  - destruct (render_line_fits l Hl) as (row & _ & _ & -> & Sw). rewrite Er. cbn [lbind].
    eexists; split; [reflexivity|]. rewrite !zlen_cons, El. split; [reflexivity|]. constructor; assumption.
Qed.

Lemma render_lines_length L : forall rows, render_lines cw t width L = LOk rows -> zlen rows = zlen L.
Proof.
  induction L as [|l L IH]; intros rows H; cbn [render_lines] in H.
  - inversion H; reflexivity.
  - destruct (render_line cw t width l); try discriminate. cbn [lbind] in H.
    destruct (render_lines cw t width L); try discriminate. cbn [lbind] in H. inversion H; subst.
    rewrite !zlen_cons. f_equal. apply IH; reflexivity.
Qed.

(* an aligned line that fitted before still fits *)
Lemma align_line_fits align l : no_shift l -> Forall seg_ok l -> total l <= width ->
  line_fits (align_line width align l).
Proof.
  intros NS HF HT. rewrite (align_line_spec align l NS). rewrite (line_width_no_shift l NS).
  destruct (pad_expected_spare align (total l) HT) as (_ & P0 & P1).
  destruct (pad_expected align (total l) =? 0); [split; assumption|].
  split; [constructor; [cbn; lia | assumption]|]. rewrite total_cons. cbn [seg_sc]. lia.
Qed.

(* ---------- clip mode, left aligned: an over-long line shows its longest fitting prefix ---------- *)
Lemma render_line_clip_left a nl : 0 <= a < nl -> nl <= len -> width < W a nl ->
  exists p pr, render_line cw t width [SText (W a nl) a nl; SPad 0 nl]
                 = LOk ((if W a p =? 0 then [] else slice t a p) ++ spaces pr) /\
               a <= p < nl /\ (pr = 0 \/ pr = 1) /\ W a p + pr = width /\
               (exists ch, nthz t p = Some ch /\ width < W a p + cw ch) /\
               sumw cw ((if W a p =? 0 then [] else slice t a p) ++ spaces pr) = width.
Proof.
  intros Ha Hnl Hw. set (sc := W a nl) in *.
  unfold render_line, trim_line. cbn [trim_line_loop seg_sc].
  replace (negb (0 =? 0) || (sc <? 0)) with false by lia.
  replace (width <=? 0) with false by lia.
  replace (width <? 0 + sc) with true by lia.
  cbn [seg_valid]. replace (negb (0 <? sc)) with false by lia.
  unfold subseg. cbn [seg_sc].
  replace (Z.max 0 0) with 0 by lia. replace (Z.min (width - 0) sc) with width by lia.
  replace (width <=? 0) with false by lia. replace (nl =? 0) with false by lia.
  unfold calc_trim_text. replace (0 <? 0) with false by reflexivity. cbn [lbind].
  replace (width - 0 - 0) with width by lia.
  destruct (calc_text_pos_spec cw t a nl width ltac:(lia) ltac:(lia) ltac:(lia))
    as (p & c & Ectp & Hp & Hc & Hle & Hend).
  rewrite Ectp. cbn [lbind].
  assert (Hpnl : p < nl).
  { destruct (Z_lt_le_dec p nl); [assumption|]. assert (p = nl) by lia. subst p. unfold sc in Hw. lia. }
  destruct Hend as [E | (ch & Nch & Hch)]; [lia|]. pose proof (cw_range ch).
  set (pr := if c <? width then 1 else 0).
  assert (Hpr : (pr = 0 \/ pr = 1) /\ c = width - pr) by (unfold pr; destruct (c <? width) eqn:E; lia).
  destruct Hpr as (Hpr & Hcpr).
  exists p, pr. replace (0 =? 0) with true by reflexivity. cbn [app].
  replace (width - 0 - 0 - pr) with (width - pr) by lia.
  assert (Hrow : sumw cw ((if W a p =? 0 then [] else slice t a p) ++ spaces pr) = width).
  { rewrite sumw_app, sumw_spaces1 by lia. destruct (W a p =? 0) eqn:E0; cbn [sumw]; lia. }
  split; [|repeat split; try lia; try assumption; exists ch; split; [assumption | lia]].
  assert (Hs1 : sumw cw (spaces 1) = 1) by (apply sumw_spaces1; lia).
  destruct (width - pr =? 0) eqn:E1; destruct (pr =? 0) eqn:E2; try lia; cbn [app lbind render_segs].
  - (* only the padding space remains *)
    unfold render_seg. cbn [seg_valid]. replace (negb (0 <=? 1)) with false by reflexivity. cbn [lbind app].
    replace (W a p =? 0) with true in * by lia. cbn [app] in *. rewrite app_nil_r.
    replace pr with 1 in * by lia. rewrite Hs1.
    replace (width <? 1) with false by lia. replace (width - 1) with 0 by lia.
    change (spaces 0) with (@nil Z). now rewrite app_nil_r.
  - unfold render_seg at 1. cbn [seg_valid]. replace (negb (0 <? width - pr)) with false by lia.
    assert (a < p).
    { destruct (Z_lt_le_dec a p); [assumption|]. rewrite slice_nil in Hc by lia. cbn in Hc. lia. }
    replace (p =? 0) with false by lia. cbn [lbind app]. rewrite app_nil_r.
    replace (W a p =? 0) with false in * by lia.
    replace pr with 0 in * by lia. rewrite <- Hc. replace c with width by lia.
    replace (width <? width) with false by lia. replace (width - width) with 0 by lia. reflexivity.
  - unfold render_seg. cbn [seg_valid]. replace (negb (0 <? width - pr)) with false by lia.
    replace (negb (0 <=? 1)) with false by reflexivity.
    assert (a < p).
    { destruct (Z_lt_le_dec a p); [assumption|]. rewrite slice_nil in Hc by lia. cbn in Hc. lia. }
    replace (p =? 0) with false by lia. cbn [lbind app]. rewrite app_nil_r.
    replace (W a p =? 0) with false in * by lia.
    replace pr with 1 in * by lia. rewrite Hrow.
    replace (width <? width) with false by lia. replace (width - width) with 0 by lia.
    change (spaces 0) with (@nil Z). now rewrite app_nil_r.
Qed.

End Render.
