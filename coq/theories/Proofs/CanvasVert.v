(* C02: vertical operations - stacking (shard list append), shards_trim_rows,
   shards_trim_top, attribute maps - proved on the abstract machine and transported to the
   concrete shard lists. *)
From Coq Require Import ZArith List Bool Lia ZifyBool.
From Urwid Require Import PyBase Canvas CanvasFacts CanvasAbs.
Import ListNotations.
Open Scope Z_scope.
Arguments Z.add : simpl never.
Arguments Z.sub : simpl never.
Arguments Z.mul : simpl never.
Arguments Z.ltb : simpl never.
Arguments Z.leb : simpl never.
Arguments Z.eqb : simpl never.
Arguments Z.min : simpl never.
Arguments Z.max : simpl never.
Arguments Z.to_nat : simpl never.
Arguments Z.of_nat : simpl never.

(* ------------------------------------------------------------------ arows *)
Lemma zlen_arows body k m : zlen (arows body k m) = Z.of_nat m.
Proof.
  revert k; induction m as [|m IH]; intros k; cbn [arows]; [reflexivity|]. rewrite zlen_cons, IH. lia.
Qed.
Lemma arows_app body k a b : arows body k (a + b) = arows body k a ++ arows body (k + Z.of_nat a) b.
Proof.
  revert k; induction a as [|a IH]; intros k; cbn [arows Nat.add app].
  - f_equal. lia.
  - rewrite IH. do 3 f_equal. lia.
Qed.
Lemma arows_ext body body' k m :
  (forall j, k <= j < k + Z.of_nat m -> arow body j = arow body' j) -> arows body k m = arows body' k m.
Proof.
  revert k; induction m as [|m IH]; intros k H; cbn [arows]; [reflexivity|]. f_equal.
  - apply H. lia.
  - apply IH. intros j Hj. apply H. lia.
Qed.
Lemma arows_shift body body' k t m :
  (forall j, k <= j < k + Z.of_nat m -> arow body' j = arow body (t + j)) -> arows body' k m = arows body (t + k) m.
Proof.
  revert k; induction m as [|m IH]; intros k H; cbn [arows]; [reflexivity|]. f_equal.
  - apply H. lia.
  - rewrite IH; [f_equal; lia|]. intros j Hj. apply H. lia.
Qed.
Lemma takez_arows body k n j : 0 <= j <= n -> takez j (arows body k (Z.to_nat n)) = arows body k (Z.to_nat j).
Proof.
  intros. replace (Z.to_nat n) with (Z.to_nat j + Z.to_nat (n - j))%nat by lia.
  rewrite arows_app. rewrite takez_app_l by (rewrite zlen_arows; lia).
  apply takez_all. rewrite zlen_arows. lia.
Qed.
Lemma dropz_arows body k n t : 0 <= t <= n -> dropz t (arows body k (Z.to_nat n)) = arows body (k + t) (Z.to_nat (n - t)).
Proof.
  intros. replace (Z.to_nat n) with (Z.to_nat t + Z.to_nat (n - t))%nat by lia.
  rewrite arows_app. rewrite dropz_app_r by (rewrite zlen_arows; lia).
  rewrite zlen_arows. rewrite dropz_le0 by lia. f_equal. lia.
Qed.

(* ------------------------------------------------------------------ payload transformations *)
Definition ptake (j : Z) (a : acv) : acv := (fst a, takez j (snd a)).
Definition pdrop (t : Z) (a : acv) : acv := (fst a, dropz t (snd a)).
Definition rowmap (f : cell -> cell) : row -> row := map f.
Definition pmap (f : cell -> cell) (a : acv) : acv := (fst a, map (rowmap f) (snd a)).
Definition slot_map (T : acv -> acv) (s : slot) : slot :=
  match s with Free w => Free w | Busy a => Busy (T a) end.

Section PayloadMap.
  Variable T : acv -> acv.
  Hypothesis T_fst : forall a, fst (T a) = fst a.

  Lemma atake_map cvs g :
    atake (map T cvs) g = rmap (fun br : list acv * list acv => (map T (fst br), map T (snd br))) (atake cvs g).
  Proof.
    revert g; induction cvs as [|a cvs IH]; intros g; cbn [map atake].
    - destruct (g =? 0); reflexivity.
    - destruct (g =? 0); [reflexivity|]. rewrite T_fst. destruct (g - fst a <? 0); [reflexivity|].
      rewrite IH. destruct (atake cvs (g - fst a)) as [[b r]|e]; reflexivity.
  Qed.

  Lemma fill_map sl cvs g :
    fill (map (slot_map T) sl) (map T cvs) g = rmap (map T) (fill sl cvs g).
  Proof.
    revert cvs g; induction sl as [|[w|a] sl IH]; intros cvs g; cbn [map slot_map fill].
    - reflexivity.
    - apply IH.
    - rewrite atake_map. destruct (atake cvs g) as [[b r]|e]; cbn [rmap fst snd]; [|reflexivity].
      rewrite IH. destruct (fill sl r 0); cbn [rmap]; [|reflexivity]. now rewrite map_app.
  Qed.

  Lemma body_width_map body : body_width (map T body) = body_width body.
  Proof. induction body as [|a b IH]; cbn [map body_width fold_right]; [reflexivity|]. unfold body_width in IH. now rewrite IH, T_fst. Qed.
End PayloadMap.

Lemma arow_ptake j body k : k < j -> arow (map (ptake j) body) k = arow body k.
Proof.
  intros. unfold arow. induction body as [|a b IH]; cbn [map flat_map]; [reflexivity|].
  rewrite IH. f_equal. cbn [ptake snd]. now rewrite nthz_takez.
Qed.
Lemma arow_pdrop t body k : 0 <= t -> 0 <= k -> arow (map (pdrop t) body) k = arow body (t + k).
Proof.
  intros. unfold arow. induction body as [|a b IH]; cbn [map flat_map]; [reflexivity|].
  rewrite IH. f_equal. cbn [pdrop snd]. now rewrite nthz_dropz.
Qed.
Lemma nthz_map_default {A B} (g : A -> B) (l : list A) k (dA : A) (dB : B) :
  g dA = dB ->
  match nthz (map g l) k with Some r => r | None => dB end = g (match nthz l k with Some r => r | None => dA end).
Proof. intros E. rewrite nthz_map. destruct (nthz l k); cbn [option_map]; auto. Qed.
Lemma arow_pmap f body k : arow (map (pmap f) body) k = map f (arow body k).
Proof.
  unfold arow. induction body as [|a b IH]; cbn [map flat_map]; [reflexivity|].
  rewrite IH, map_app. f_equal. cbn [pmap snd]. apply (nthz_map_default (rowmap f) (snd a) k [] []). reflexivity.
Qed.

(* ------------------------------------------------------------------ closed slot lists *)
Definition is_free (s : slot) : Prop := match s with Free _ => True | Busy _ => False end.
Lemma closed_iff sl : closed sl <-> Forall is_free sl.
Proof.
  split.
  - induction sl as [|[w|a] sl IH]; intros H; [constructor| |].
    + constructor; [exact I|]. apply IH. intros C g. specialize (H C (g - w)). cbn [fill] in H.
      replace (g - w + w) with g in H by lia. exact H.
    + exfalso. specialize (H [] 0). cbn [fill atake] in H. replace (0 =? 0) with true in H by lia.
      destruct (fill sl [] 0); discriminate.
  - induction 1 as [|[w|a] sl Hs _ IH]; intros C g; cbn [fill]; [reflexivity|apply IH|destruct Hs].
Qed.
Lemma closed_equiv_nil sl : closed sl -> sl_equiv sl [].
Proof. intros H C g. rewrite H. reflexivity. Qed.
Lemma closed_map T sl : closed sl -> closed (map (slot_map T) sl).
Proof.
  rewrite !closed_iff. intros H. apply Forall_forall. intros s Hs. apply in_map_iff in Hs as (s0 & <- & Hs0).
  rewrite Forall_forall in H. specialize (H _ Hs0). destruct s0; [exact I|destruct H].
Qed.

(* ------------------------------------------------------------------ size of the content *)
Definition ashards_rows (ss : list ashard) : Z := fold_right (fun s acc => fst s + acc) 0 ss.

Lemma AWF_len w ss : forall sl, AWF w ss sl -> zlen (acontent_from ss sl) = ashards_rows ss.
Proof.
  induction ss as [|[n cvs] ss IH]; intros sl; cbn [AWF acontent_from ashards_rows fold_right fst]; [reflexivity|].
  intros (Hn & _ & body & -> & _ & _ & _ & Hr). rewrite zlen_app, zlen_arows. fold (ashards_rows ss). rewrite (IH _ Hr). lia.
Qed.

Lemma arow_width body k :
  0 <= k -> Forall acv_ok body -> Forall (fun a : acv => k < zlen (snd a)) body -> zlen (arow body k) = body_width body.
Proof.
  intros Hk. unfold arow. induction body as [|a b IH]; intros F W; cbn [flat_map body_width fold_right]; [reflexivity|].
  inversion F; subst. inversion W; subst. rewrite zlen_app. unfold body_width in IH. rewrite IH by assumption. f_equal.
  destruct (nthz_lt_some (snd a) k) as [r Hr]; [lia|]. rewrite Hr. destruct H1 as [_ H1]. rewrite Forall_forall in H1. apply H1.
  unfold nthz in Hr. destruct (k <? 0); [discriminate|]. eapply nth_error_In; eauto.
Qed.

Lemma arows_width body k m :
  0 <= k -> Forall acv_ok body -> Forall (fun a : acv => k + Z.of_nat m <= zlen (snd a)) body ->
  Forall (fun r : row => zlen r = body_width body) (arows body k m).
Proof.
  revert k; induction m as [|m IH]; intros k Hk F W; cbn [arows]; constructor.
  - apply arow_width; [assumption|assumption|]. eapply Forall_impl; [|exact W]. cbn beta; intros; lia.
  - apply IH; [lia|assumption|]. eapply Forall_impl; [|exact W]. cbn beta; intros; lia.
Qed.

Lemma AWF_width w ss : forall sl, AWF w ss sl -> Forall (fun r : row => zlen r = w) (acontent_from ss sl).
Proof.
  induction ss as [|[n cvs] ss IH]; intros sl; cbn [AWF acontent_from]; [constructor|].
  intros (Hn & _ & body & -> & Fo & Fn & <- & Hr). apply Forall_app; split; [|apply IH, Hr].
  apply arows_width; [lia|assumption|]. eapply Forall_impl; [|exact Fn]. cbn beta; intros; lia.
Qed.

(* ------------------------------------------------------------------ append (CanvasCombine) *)
Lemma AWF_app w s1 s2 : forall sl, AWF w s1 sl -> AWF w s2 [] ->
  AWF w (s1 ++ s2) sl /\ acontent_from (s1 ++ s2) sl = acontent_from s1 sl ++ acontent_from s2 [].
Proof.
  induction s1 as [|[n cvs] s1 IH]; intros sl H1 H2; cbn [app].
  - cbn [AWF acontent_from app] in *. split.
    + eapply AWF_equiv; [apply sl_equiv_sym, closed_equiv_nil, H1|exact H2].
    + apply acontent_equiv, closed_equiv_nil, H1.
  - cbn [AWF acontent_from] in *. destruct H1 as (Hn & Fa & body & Ef & Fo & Fn & Hw & Hr).
    destruct (IH _ Hr H2) as [I1 I2]. split.
    + split; [assumption|]. split; [assumption|]. exists body. auto.
    + rewrite Ef, I2, app_assoc. reflexivity.
Qed.

(* ------------------------------------------------------------------ shards_trim_rows *)
Fixpoint atrim_rows (ss : list ashard) (done keep : Z) : list ashard :=
  match ss with
  | [] => []
  | (n, cvs) :: ss' =>
      if keep <=? done then []
      else (Z.min n (keep - done), map (ptake (keep - done)) cvs) :: atrim_rows ss' (done + n) keep
  end.

Lemma atrim_rows_done ss done keep : keep <= done -> atrim_rows ss done keep = [].
Proof. intros. destruct ss as [|[n cvs] ss]; cbn [atrim_rows]; [reflexivity|]. destruct (keep <=? done) eqn:E; [reflexivity|lia]. Qed.

Lemma ptake_ok j a : acv_ok a -> acv_ok (ptake j a).
Proof. intros [? ?]. split; cbn [ptake fst snd]; [assumption|now apply Forall_takez]. Qed.

Lemma slot_after_ptake n j a :
  0 < n -> n < j -> n <= zlen (snd a) -> slot_after n (ptake j a) = slot_map (ptake (j - n)) (slot_after n a).
Proof.
  intros. unfold slot_after. cbn [ptake fst snd]. rewrite zlen_takez by lia.
  destruct (n =? zlen (snd a)) eqn:E.
  - destruct (n =? Z.min j (zlen (snd a))) eqn:E'; [reflexivity|lia].
  - destruct (n =? Z.min j (zlen (snd a))) eqn:E'; [lia|]. unfold slot_map, ptake. cbn [fst snd]. do 2 f_equal.
    replace j with (n + (j - n)) at 1 by lia. apply dropz_takez; lia.
Qed.

Lemma atrim_rows_correct w : forall ss sl done keep,
  AWF w ss sl -> done < keep ->
  AWF w (atrim_rows ss done keep) (map (slot_map (ptake (keep - done))) sl) /\
  acontent_from (atrim_rows ss done keep) (map (slot_map (ptake (keep - done))) sl)
  = takez (keep - done) (acontent_from ss sl).
Proof.
  induction ss as [|[n cvs] ss IH]; intros sl done keep H Hd.
  - cbn [atrim_rows AWF acontent_from] in *. split; [now apply closed_map|now rewrite takez_nil].
  - cbn [AWF acontent_from] in H |- *. destruct H as (Hn & Fa & body & Ef & Fo & Fn & Hw & Hr).
    cbn [atrim_rows]. destruct (keep <=? done) eqn:E; [lia|]. clear E.
    set (j := keep - done) in *.
    assert (fill (map (slot_map (ptake j)) sl) (map (ptake j) cvs) 0 = Ok (map (ptake j) body)) as Ef'.
    { rewrite fill_map by reflexivity. now rewrite Ef. }
    cbn [AWF acontent_from]. rewrite Ef', Ef.
    assert (Forall acv_ok (map (ptake j) body)) as Fo'.
    { apply Forall_forall. intros a Ha. apply in_map_iff in Ha as (a0 & <- & Ha0). apply ptake_ok. rewrite Forall_forall in Fo; auto. }
    assert (Forall (fun a : acv => Z.min n j <= zlen (snd a)) (map (ptake j) body)) as Fn'.
    { apply Forall_forall. intros a Ha. apply in_map_iff in Ha as (a0 & <- & Ha0). cbn [ptake snd].
      rewrite Forall_forall in Fn. specialize (Fn _ Ha0). rewrite zlen_takez by lia. lia. }
    destruct (Z.le_gt_cases j n) as [Hjn|Hjn].
    + (* the shard is cut: nothing follows *)
      rewrite atrim_rows_done by lia. replace (Z.min n j) with j by lia.
      assert (Forall is_free (slots_after j (map (ptake j) body))) as Cl.
      { apply Forall_forall. intros s Hs. unfold slots_after in Hs. rewrite map_map in Hs. apply in_map_iff in Hs as (a & <- & Ha).
        rewrite Forall_forall in Fn. specialize (Fn _ Ha). unfold slot_after. cbn [ptake fst snd]. rewrite zlen_takez by lia.
        destruct (j =? Z.min j (zlen (snd a))) eqn:E; [exact I|lia]. }
      split.
      * split; [lia|]. split; [apply Forall_forall; intros a Ha; apply in_map_iff in Ha as (a0 & <- & Ha0); apply ptake_ok; rewrite Forall_forall in Fa; auto|].
        exists (map (ptake j) body). split; [reflexivity|]. split; [assumption|]. split; [now replace (Z.min n j) with j in Fn' by lia|].
        split; [now rewrite body_width_map|]. cbn [AWF]. now apply closed_iff.
      * cbn [acontent_from]. rewrite app_nil_r. rewrite takez_app_l by (rewrite zlen_arows; lia).
        rewrite takez_arows by lia. apply arows_ext. intros k Hk. apply arow_ptake. lia.
    + (* the whole shard is kept *)
      replace (Z.min n j) with n by lia.
      assert (slots_after n (map (ptake j) body) = map (slot_map (ptake (keep - (done + n)))) (slots_after n body)) as Es.
      { unfold slots_after. rewrite !map_map. apply map_ext_in. intros a Ha. rewrite Forall_forall in Fn.
        replace (keep - (done + n)) with (j - n) by lia. apply slot_after_ptake; auto; lia. }
      destruct (IH (slots_after n body) (done + n) keep Hr) as [I1 I2]; [lia|]. split.
      * split; [lia|]. split; [apply Forall_forall; intros a Ha; apply in_map_iff in Ha as (a0 & <- & Ha0); apply ptake_ok; rewrite Forall_forall in Fa; auto|].
        exists (map (ptake j) body). split; [reflexivity|]. split; [assumption|]. split; [now replace (Z.min n j) with n in Fn' by lia|].
        split; [now rewrite body_width_map|]. now rewrite Es.
      * rewrite Es, I2. rewrite takez_app_r by (rewrite zlen_arows; lia). rewrite zlen_arows. f_equal.
        -- apply arows_ext. intros k Hk. apply arow_ptake. lia.
        -- f_equal. lia.
Qed.

(* the concrete function computes the abstract one *)
Lemma abs_trim_rows_cv cv done keep :
  cview_ok cv -> done < keep ->
  let cv' := if keep <? crows cv + done then cview_trim_rows cv (keep - done) else cv in
  cview_ok cv' /\ abs_cv cv' = ptake (keep - done) (abs_cv cv).
Proof.
  intros H Hd. cbn zeta. destruct (keep <? crows cv + done) eqn:E.
  - split; [apply cview_trim_rows_ok; [assumption|lia]|]. unfold abs_cv, ptake; cbn [fst snd cview_trim_rows ccols].
    rewrite rows_of_trim_rows by (try assumption; lia). reflexivity.
  - split; [assumption|]. unfold abs_cv, ptake; cbn [fst snd]. rewrite takez_all; [reflexivity|]. rewrite zlen_rows_of by assumption. lia.
Qed.

Lemma abs_trim_rows_go ss : forall done keep,
  shards_ok ss -> shards_ok (trim_rows_go ss done keep) /\ map abs_sh (trim_rows_go ss done keep) = atrim_rows (map abs_sh ss) done keep.
Proof.
  induction ss as [|[n cvs] ss IH]; intros done keep S; cbn [trim_rows_go map atrim_rows abs_sh fst snd]; [split; [constructor|reflexivity]|].
  inversion S; subst. cbn [snd] in *. destruct (keep <=? done) eqn:E; [split; [constructor|reflexivity]|].
  destruct (IH (done + n) keep H2) as [I1 I2].
  assert (Forall cview_ok (map (fun cv : cview => if keep <? crows cv + done then cview_trim_rows cv (keep - done) else cv) cvs)
          /\ map abs_cv (map (fun cv : cview => if keep <? crows cv + done then cview_trim_rows cv (keep - done) else cv) cvs)
             = map (ptake (keep - done)) (map abs_cv cvs)) as [F1 F2].
  { clear - H1 E. induction cvs as [|cv cvs IHc]; cbn [map]; [split; [constructor|reflexivity]|].
    inversion H1; subst. destruct (IHc H3) as [A B]. destruct (abs_trim_rows_cv cv done keep H2) as [C D]; [lia|].
    cbn zeta in C, D. split; [constructor; assumption|]. now rewrite D, B. }
  split.
  - constructor; [|assumption]. cbn [snd]. destruct (keep <? n + done); cbn [snd]; exact F1.
  - cbn [map]. rewrite <- I2. f_equal. destruct (keep <? n + done) eqn:E2; unfold abs_sh; cbn [fst snd]; rewrite F2; f_equal; lia.
Qed.

(* ------------------------------------------------------------------ attribute maps *)
Definition ashmap (f : cell -> cell) (s : ashard) : ashard := (fst s, map (pmap f) (snd s)).

Lemma row_clean_map (f : cell -> cell) r : (forall c, ck (f c) = ck c) -> row_cleanb (map f r) = row_cleanb r.
Proof.
  intros Hf. unfold row_cleanb. f_equal.
  - destruct r as [|c r]; [reflexivity|]. cbn [map first_okb]. now rewrite Hf.
  - induction r as [|c r IH]; [reflexivity|]. cbn [map last_okb]. destruct r as [|c' r']; [now rewrite Hf|]. cbn [map] in *. exact IH.
Qed.
Lemma pmap_ok f a : (forall c, ck (f c) = ck c) -> acv_ok a -> acv_ok (pmap f a).
Proof.
  intros Hf [? H]. split; cbn [pmap fst snd]; [assumption|]. apply Forall_forall. intros r Hr.
  apply in_map_iff in Hr as (r0 & <- & Hr0). unfold rowmap. rewrite zlen_map, row_clean_map by assumption. rewrite Forall_forall in H. auto.
Qed.
Lemma slots_after_pmap f n body : slots_after n (map (pmap f) body) = map (slot_map (pmap f)) (slots_after n body).
Proof.
  unfold slots_after. rewrite !map_map. apply map_ext. intros a. unfold slot_after. cbn [pmap fst snd]. rewrite zlen_map.
  destruct (n =? zlen (snd a)); cbn [slot_map pmap fst snd]; [reflexivity|]. now rewrite dropz_map.
Qed.
Lemma arows_pmap f body k m : arows (map (pmap f) body) k m = map (map f) (arows body k m).
Proof. revert k; induction m as [|m IH]; intros k; cbn [arows map]; [reflexivity|]. now rewrite arow_pmap, IH. Qed.

Lemma amap_correct w f : (forall c, ck (f c) = ck c) -> forall ss sl,
  AWF w ss sl ->
  AWF w (map (ashmap f) ss) (map (slot_map (pmap f)) sl) /\
  acontent_from (map (ashmap f) ss) (map (slot_map (pmap f)) sl) = map (map f) (acontent_from ss sl).
Proof.
  intros Hf. induction ss as [|[n cvs] ss IH]; intros sl H.
  - cbn [map AWF acontent_from] in *. split; [now apply closed_map|reflexivity].
  - cbn [AWF acontent_from map ashmap fst snd] in H |- *. destruct H as (Hn & Fa & body & Ef & Fo & Fn & Hw & Hr).
    assert (fill (map (slot_map (pmap f)) sl) (map (pmap f) cvs) 0 = Ok (map (pmap f) body)) as Ef'.
    { rewrite fill_map by reflexivity. now rewrite Ef. }
    rewrite Ef', Ef. destruct (IH _ Hr) as [I1 I2]. rewrite slots_after_pmap. split.
    + split; [assumption|]. split; [apply Forall_forall; intros a Ha; apply in_map_iff in Ha as (a0 & <- & Ha0); apply pmap_ok; [assumption|]; rewrite Forall_forall in Fa; auto|].
      exists (map (pmap f) body). split; [reflexivity|].
      split; [apply Forall_forall; intros a Ha; apply in_map_iff in Ha as (a0 & <- & Ha0); apply pmap_ok; [assumption|]; rewrite Forall_forall in Fo; auto|].
      split; [apply Forall_forall; intros a Ha; apply in_map_iff in Ha as (a0 & <- & Ha0); cbn [pmap snd]; rewrite zlen_map; rewrite Forall_forall in Fn; auto|].
      split; [now rewrite body_width_map|]. now rewrite slots_after_pmap.
    + rewrite I2, arows_pmap, map_app. reflexivity.
Qed.

(* ------------------------------------------------------------------ shards_trim_top *)
Lemma slot_after_pdrop n t a :
  0 <= t < n -> n <= zlen (snd a) -> slot_after (n - t) (pdrop t a) = slot_after n a.
Proof.
  intros. unfold slot_after. cbn [pdrop fst snd]. rewrite zlen_dropz_le by lia.
  destruct (n =? zlen (snd a)) eqn:E.
  - destruct (n - t =? zlen (snd a) - t) eqn:E'; [reflexivity|lia].
  - destruct (n - t =? zlen (snd a) - t) eqn:E'; [lia|]. rewrite dropz_dropz by lia. do 3 f_equal. lia.
Qed.
Lemma pdrop_ok t a : acv_ok a -> acv_ok (pdrop t a).
Proof. intros [? ?]. split; cbn [pdrop fst snd]; [assumption|now apply Forall_dropz]. Qed.

(* one step of a well-formed concrete run, as used by every operation that walks the shards *)
Lemma wf_step w n cvs ss tail sl :
  tail_ok tail -> sl_equiv sl (slots_of_tail tail) -> wf_fromb w ((n, cvs) :: ss) tail = true ->
  exists sb, sbody cvs tail = Ok sb /\ 0 < n /\ Forall cview_ok cvs /\ Forall entry_ok sb /\
             Forall (fun e : body_entry cview => fst e + n <= crows (snd e)) sb /\ body_cols sb = w /\
             wf_fromb w ss (stail n sb) = true /\ tail_ok (stail n sb) /\
             sl_equiv (slots_after n (map abs_e sb)) (slots_of_tail (stail n sb)) /\
             fill sl (map abs_cv cvs) 0 = Ok (map abs_e sb).
Proof.
  intros T E H. cbn [wf_fromb] in H.
  apply andb_prop in H as [H H3]. apply andb_prop in H as [H1 H2].
  assert (Forall cview_ok cvs) as Fc by (apply Forall_forall; intros cv Hcv; rewrite forallb_forall in H2; exact (H2 _ Hcv)).
  destruct (sbody cvs tail) as [sb|e] eqn:Eb; [|discriminate].
  apply andb_prop in H3 as [H3 H6]. apply andb_prop in H3 as [H4 H5].
  assert (Forall entry_ok sb) as Fe by (eapply sbody_ok; eauto).
  assert (Forall (fun e : body_entry cview => fst e + n <= crows (snd e)) sb) as Fn.
  { apply Forall_forall; intros e He; rewrite forallb_forall in H4; specialize (H4 _ He); lia. }
  exists sb. repeat split; try assumption; try lia.
  - apply stail_go_ok; [lia|assumption|assumption].
  - apply sl_equiv_sym, stail_equiv; [lia|assumption].
  - rewrite E, fill_abs, Eb. reflexivity.
Qed.

Lemma trim_top_correct w : forall ss tail sl top,
  tail_ok tail -> sl_equiv sl (slots_of_tail tail) -> wf_fromb w ss tail = true ->
  0 <= top < shards_rows ss ->
  exists ss', trim_top_go ss tail top = Ok ss' /\ ss' <> [] /\ shards_ok ss' /\ AWF w (map abs_sh ss') [] /\
              acontent_from (map abs_sh ss') [] = dropz top (acontent_from (map abs_sh ss) sl).
Proof.
  induction ss as [|[n cvs] ss IH]; intros tail sl top T E H Ht.
  - cbn [shards_rows fold_right] in Ht. lia.
  - destruct (wf_step _ _ _ _ _ _ T E H) as (sb & Eb & Hn & Fc & Fe & Fn & Hw & Hr & T' & E' & Ef).
    destruct (wf_abs w ss (stail n sb) (slots_after n (map abs_e sb)) T' E' Hr) as (S' & A' & _).
    cbn [trim_top_go]. rewrite Eb. cbn [map abs_sh acontent_from fst snd]. rewrite Ef.
    cbn [shards_rows fold_right fst] in Ht. fold (shards_rows ss) in Ht.
    destruct (top <? n) eqn:Etn.
    + (* trim inside this shard *)
      set (new := map (fun e : body_entry cview => cview_trim_top (snd e) (fst e + top)) sb).
      assert (Forall cview_ok new /\ map abs_cv new = map (pdrop top) (map abs_e sb)) as [Fnew Enew].
      { subst new. clear - Fe Fn Ht Etn. induction sb as [|[d cv] sb IHs]; cbn [map]; [split; [constructor|reflexivity]|].
        inversion Fe; subst. inversion Fn; subst. destruct (IHs H2 H4) as [A B]. destruct H1 as [? ?]. cbn [fst snd] in *.
        split; [constructor; [apply cview_trim_top_ok; [assumption|lia]|assumption]|]. rewrite B. f_equal.
        unfold abs_cv, pdrop, abs_e; cbn [fst snd cview_trim_top ccols]. rewrite rows_of_trim_top by (try assumption; lia).
        rewrite dropz_dropz by lia. do 2 f_equal. lia. }
      exists ((n - top, new) :: ss). split; [reflexivity|]. split; [discriminate|]. split; [constructor; assumption|].
      assert (Forall (fun a : acv => n <= zlen (snd a)) (map abs_e sb)) as Fz.
      { apply Forall_forall. intros a Ha. apply in_map_iff in Ha as (e & <- & He). rewrite Forall_forall in Fe, Fn.
        rewrite zlen_abs_e by auto. specialize (Fn _ He). lia. }
      assert (slots_after (n - top) (map (pdrop top) (map abs_e sb)) = slots_after n (map abs_e sb)) as Es.
      { unfold slots_after. rewrite map_map. apply map_ext_in. intros a Ha. rewrite Forall_forall in Fz. apply slot_after_pdrop; [lia|auto]. }
      assert (Forall acv_ok (map abs_e sb)) as Fo.
      { apply Forall_forall. intros a Ha. apply in_map_iff in Ha as (e & <- & He). rewrite Forall_forall in Fe. apply abs_e_ok; auto. }
      cbn [map abs_sh fst snd AWF acontent_from fill]. rewrite Enew, Es. split.
      * split; [lia|]. split; [apply Forall_forall; intros a Ha; apply in_map_iff in Ha as (a0 & <- & Ha0); apply pdrop_ok; rewrite Forall_forall in Fo; auto|].
        exists (map (pdrop top) (map abs_e sb)). split; [reflexivity|].
        split; [apply Forall_forall; intros a Ha; apply in_map_iff in Ha as (a0 & <- & Ha0); apply pdrop_ok; rewrite Forall_forall in Fo; auto|].
        split; [apply Forall_forall; intros a Ha; apply in_map_iff in Ha as (a0 & <- & Ha0); cbn [pdrop snd]; rewrite Forall_forall in Fz; specialize (Fz _ Ha0); rewrite zlen_dropz_le by lia; lia|].
        split; [rewrite body_width_map by reflexivity; rewrite <- body_cols_abs; assumption|]. rewrite Es. assumption.
      * rewrite dropz_app_l by (rewrite zlen_arows; lia). f_equal. rewrite dropz_arows by lia.
        rewrite Z.add_0_l. transitivity (arows (map abs_e sb) (top + 0) (Z.to_nat (n - top))); [|f_equal; lia].
        apply arows_shift. intros j Hj. apply arow_pdrop; lia.
    + (* skip this shard *)
      destruct (IH (stail n sb) (slots_after n (map abs_e sb)) (top - n) T' E' Hr) as (ss' & R1 & R2 & R3 & R4 & R5); [lia|].
      exists ss'. split; [assumption|]. split; [assumption|]. split; [assumption|]. split; [assumption|].
      rewrite R5. rewrite dropz_app_r by (rewrite zlen_arows; lia). rewrite zlen_arows. f_equal. lia.
Qed.

(* ------------------------------------------------------------------ concrete statements *)
Definition WF (s : shards) : Prop := wfb s = true.

Lemma tail_ok_nil : tail_ok [].
Proof. constructor. Qed.

Lemma shards_rows_abs ss : ashards_rows (map abs_sh ss) = shards_rows ss.
Proof. induction ss as [|[n cvs] ss IH]; cbn [map ashards_rows shards_rows fold_right abs_sh fst]; [reflexivity|]. unfold ashards_rows, shards_rows in IH. now rewrite IH. Qed.

Lemma body_width_abs_cv cvs : body_width (map abs_cv cvs) = cviews_cols cvs.
Proof. induction cvs as [|cv cvs IH]; cbn [map body_width cviews_cols fold_right abs_cv fst]; [reflexivity|]. unfold body_width, cviews_cols in IH. now rewrite IH. Qed.

Lemma WF_elim s : WF s ->
  0 < shards_cols s /\ shards_ok s /\ AWF (shards_cols s) (map abs_sh s) [] /\
  content s = Ok (acontent_from (map abs_sh s) []).
Proof.
  unfold WF, wfb, content. intros H. apply andb_prop in H as [H1 H2].
  destruct (wf_abs _ _ [] [] tail_ok_nil (sl_equiv_refl _) H2) as (A & B & C). repeat split; try assumption; lia.
Qed.

Lemma AWF_cols w s : s <> [] -> AWF w (map abs_sh s) [] -> shards_cols s = w.
Proof.
  destruct s as [|[n cvs] s]; [congruence|]. intros _. cbn [map abs_sh AWF fill fst snd shards_cols].
  intros (_ & _ & body & [= <-] & _ & _ & <- & _). now rewrite body_width_abs_cv.
Qed.

Lemma WF_intro w s : 0 < w -> s <> [] -> shards_ok s -> AWF w (map abs_sh s) [] -> WF s /\ shards_cols s = w.
Proof.
  intros Hw Hs S A. pose proof (AWF_cols _ _ Hs A) as Ec. split; [|assumption].
  unfold WF, wfb. rewrite Ec. apply andb_true_intro. split; [lia|].
  eapply wf_of_abs; eauto using tail_ok_nil, sl_equiv_refl.
Qed.

(* rows() and cols() are the size of the content *)
Theorem content_size s rows :
  WF s -> content s = Ok rows -> zlen rows = shards_rows s /\ Forall (fun r : row => zlen r = shards_cols s) rows.
Proof.
  intros H E. destruct (WF_elim _ H) as (Hc & S & A & C). rewrite C in E. injection E as <-.
  split; [rewrite (AWF_len _ _ _ A); apply shards_rows_abs|apply (AWF_width _ _ _ A)].
Qed.

Lemma WF_rows_pos s : WF s -> 0 < shards_rows s.
Proof.
  intros H. destruct (WF_elim _ H) as (Hc & S & A & C). destruct s as [|[n cvs] s]; [cbn in Hc; lia|].
  cbn [map abs_sh AWF fst snd] in A. destruct A as (Hn & _ & body & _ & _ & _ & _ & Hr).
  cbn [shards_rows fold_right fst]. fold (shards_rows s). rewrite <- shards_rows_abs. rewrite <- (AWF_len _ _ _ Hr).
  pose proof (zlen_nonneg (acontent_from (map abs_sh s) (slots_after n body))). lia.
Qed.

Lemma shards_rows_app s1 s2 : shards_rows (s1 ++ s2) = shards_rows s1 + shards_rows s2.
Proof.
  induction s1 as [|[n c] s1 IH]; cbn [app shards_rows fold_right fst].
  - fold (shards_rows s2). lia.
  - fold (shards_rows (s1 ++ s2)). fold (shards_rows s1). rewrite IH. lia.
Qed.

(* CanvasCombine on shard lists *)
Theorem combine_shards s1 s2 r1 r2 :
  WF s1 -> WF s2 -> shards_cols s1 = shards_cols s2 -> content s1 = Ok r1 -> content s2 = Ok r2 ->
  WF (s1 ++ s2) /\ content (s1 ++ s2) = Ok (r1 ++ r2) /\
  shards_cols (s1 ++ s2) = shards_cols s1 /\ shards_rows (s1 ++ s2) = shards_rows s1 + shards_rows s2.
Proof.
  intros H1 H2 Ec E1 E2. destruct (WF_elim _ H1) as (Hc1 & S1 & A1 & C1). destruct (WF_elim _ H2) as (Hc2 & S2 & A2 & C2).
  rewrite <- Ec in A2. destruct (AWF_app _ _ _ _ A1 A2) as [A C].
  assert (s1 ++ s2 <> []) as Hne by (destruct s1; [cbn in Hc1; lia|discriminate]).
  rewrite <- map_app in A, C.
  destruct (WF_intro _ _ Hc1 Hne (proj2 (Forall_app _ _ _) (conj S1 S2)) A) as [W Ecols].
  split; [assumption|]. split.
  - destruct (WF_elim _ W) as (_ & _ & _ & C'). rewrite C', C. rewrite C1 in E1. rewrite C2 in E2. congruence.
  - split; [assumption|]. apply shards_rows_app.
Qed.

(* shards_trim_rows *)
Theorem trim_rows_shards s k rows :
  WF s -> 0 < k -> content s = Ok rows ->
  exists s', shards_trim_rows s k = Ok s' /\ WF s' /\ content s' = Ok (takez k rows) /\ shards_cols s' = shards_cols s.
Proof.
  intros H Hk E. destruct (WF_elim _ H) as (Hc & S & A & C). unfold shards_trim_rows.
  destruct (k <? 0) eqn:E0; [lia|]. eexists; split; [reflexivity|].
  destruct (abs_trim_rows_go s 0 k S) as [S' E'].
  destruct (atrim_rows_correct _ _ [] 0 k A) as [A' C']; [lia|]. cbn [map] in A', C'. rewrite Z.sub_0_r in C'.
  rewrite <- E' in A', C'.
  assert (trim_rows_go s 0 k <> []) as Hne.
  { destruct s as [|[n cvs] s]; [cbn in Hc; lia|]. cbn [trim_rows_go]. destruct (k <=? 0) eqn:E1; [lia|discriminate]. }
  destruct (WF_intro _ _ Hc Hne S' A') as [W Ecols]. split; [assumption|]. split; [|assumption].
  destruct (WF_elim _ W) as (_ & _ & _ & C''). rewrite C'', C'. rewrite C in E. congruence.
Qed.

(* shards_trim_top *)
Theorem trim_top_shards s top rows :
  WF s -> 0 < top < shards_rows s -> content s = Ok rows ->
  exists s', shards_trim_top s top = Ok s' /\ WF s' /\ content s' = Ok (dropz top rows) /\ shards_cols s' = shards_cols s.
Proof.
  intros H Ht E. destruct (WF_elim _ H) as (Hc & S & A & C). unfold shards_trim_top.
  destruct (top <=? 0) eqn:E0; [lia|]. unfold WF, wfb in H. apply andb_prop in H as [_ H].
  destruct (trim_top_correct _ s [] [] top tail_ok_nil (sl_equiv_refl _) H) as (s' & R1 & R2 & R3 & R4 & R5); [lia|].
  exists s'. split; [assumption|]. destruct (WF_intro _ _ Hc R2 R3 R4) as [W Ecols]. split; [assumption|]. split; [|assumption].
  destruct (WF_elim _ W) as (_ & _ & _ & C''). rewrite C'', R5. rewrite C in E. congruence.
Qed.

(* fill_attr_apply on shard lists *)
Definition fill_shards (m : dict) (s : shards) : shards :=
  map (fun sh : shard => (fst sh, map (cview_fill_attr m) (snd sh))) s.

Lemma abs_fill_shards m s :
  shards_ok s -> shards_ok (fill_shards m s) /\ map abs_sh (fill_shards m s) = map (ashmap (cell_map_attr (Some m))) (map abs_sh s).
Proof.
  induction s as [|[n cvs] s IH]; intros S; cbn [fill_shards map]; [split; [constructor|reflexivity]|].
  inversion S; subst. destruct (IH H2) as [I1 I2]. cbn [snd fst] in *.
  assert (Forall cview_ok (map (cview_fill_attr m) cvs) /\ map abs_cv (map (cview_fill_attr m) cvs) = map (pmap (cell_map_attr (Some m))) (map abs_cv cvs)) as [F1 F2].
  { clear - H1. induction cvs as [|cv cvs IHc]; cbn [map]; [split; [constructor|reflexivity]|]. inversion H1; subst.
    destruct (IHc H3) as [A B]. split; [constructor; [now apply cview_fill_attr_ok|assumption]|]. rewrite B. f_equal.
    unfold abs_cv, pmap; cbn [fst snd]. rewrite rows_of_fill_attr by assumption. f_equal.
    unfold cview_fill_attr. destruct (cam cv); reflexivity. }
  split; [constructor; assumption|]. fold (fill_shards m s). rewrite I2. unfold abs_sh at 1, ashmap at 1; cbn [fst snd]. now rewrite F2.
Qed.

Lemma shards_rows_fill m s : shards_rows (fill_shards m s) = shards_rows s.
Proof.
  unfold fill_shards, shards_rows. induction s as [|[n c] s IH]; cbn [map fold_right fst]; [reflexivity|]. f_equal. apply IH.
Qed.

Theorem fill_attr_shards m s rows :
  WF s -> content s = Ok rows ->
  WF (fill_shards m s) /\ content (fill_shards m s) = Ok (map (map (cell_map_attr (Some m))) rows) /\
  shards_cols (fill_shards m s) = shards_cols s /\ shards_rows (fill_shards m s) = shards_rows s.
Proof.
  intros H E. destruct (WF_elim _ H) as (Hc & S & A & C).
  destruct (abs_fill_shards m s S) as [S' E'].
  destruct (amap_correct _ (cell_map_attr (Some m)) (fun c => eq_refl) _ [] A) as [A' C']. cbn [map] in A', C'. rewrite <- E' in A', C'.
  assert (fill_shards m s <> []) as Hne by (destruct s; [cbn in Hc; lia|discriminate]).
  destruct (WF_intro _ _ Hc Hne S' A') as [W Ecols]. split; [assumption|]. split.
  - destruct (WF_elim _ W) as (_ & _ & _ & C''). rewrite C'', C'. rewrite C in E. injection E as <-. reflexivity.
  - split; [assumption|]. apply shards_rows_fill.
Qed.
