(* C02: toolkit for the horizontal operations.  A shard body is described by a FLAGGED body
   (fresh cview / continued cview) that FITS the slot list: every run of free columns is
   tiled exactly by fresh cviews.  [Fit_ffill]: a flagged body that fits is what [fill]
   rebuilds from its fresh cviews; [Fit_of_ffill]: in a well-formed canvas the body fits.
   With this, an operation is verified by exhibiting the flagged bodies of its result. *)
From Coq Require Import ZArith List Bool Lia ZifyBool.
From Urwid Require Import PyBase Canvas CanvasFacts CanvasAbs CanvasVert.
Import ListNotations.
Open Scope Z_scope.
Arguments Z.add : simpl never.
Arguments Z.sub : simpl never.
Arguments Z.mul : simpl never.
Arguments Z.ltb : simpl never.
Arguments Z.leb : simpl never.
Arguments Z.eqb : simpl never.
Arguments Z.min : simpl never.
Arguments Z.max : simpl never.
Arguments Z.to_nat : simpl never.
Arguments Z.of_nat : simpl never.

Definition fbody := list (bool * acv).
Definition body_of (fb : fbody) : list acv := map snd fb.
Definition fresh_of (fb : fbody) : list acv := map snd (filter fst fb).
Definition mk_fresh (l : list acv) : fbody := map (pair true) l.
Definition mk_busy (l : list acv) : fbody := map (pair false) l.

Fixpoint ffill (sl : list slot) (cvs : list acv) (g : Z) : result fbody :=
  match sl with
  | [] => Ok (mk_fresh cvs)
  | Free w :: sl' => ffill sl' cvs (g + w)
  | Busy a :: sl' =>
      match atake cvs g with
      | Err e => Err e
      | Ok (b, rest) =>
          match ffill sl' rest 0 with
          | Err e => Err e
          | Ok b' => Ok (mk_fresh b ++ (false, a) :: b')
          end
      end
  end.

Lemma body_of_mk_fresh l : body_of (mk_fresh l) = l.
Proof. unfold body_of, mk_fresh. rewrite map_map. cbn [snd]. apply map_id. Qed.
Lemma body_of_mk_busy l : body_of (mk_busy l) = l.
Proof. unfold body_of, mk_busy. rewrite map_map. cbn [snd]. apply map_id. Qed.
Lemma fresh_of_mk_fresh l : fresh_of (mk_fresh l) = l.
Proof. unfold fresh_of, mk_fresh. induction l as [|a l IH]; cbn [map filter fst snd]; [reflexivity|]. now rewrite IH. Qed.
Lemma fresh_of_mk_busy l : fresh_of (mk_busy l) = [].
Proof. unfold fresh_of, mk_busy. induction l as [|a l IH]; cbn [map filter fst snd]; [reflexivity|]. exact IH. Qed.
Lemma body_of_app a b : body_of (a ++ b) = body_of a ++ body_of b.
Proof. unfold body_of. apply map_app. Qed.
Lemma fresh_of_app a b : fresh_of (a ++ b) = fresh_of a ++ fresh_of b.
Proof. unfold fresh_of. now rewrite filter_app, map_app. Qed.

Lemma fill_ffill sl : forall cvs g, fill sl cvs g = rmap body_of (ffill sl cvs g).
Proof.
  induction sl as [|[w|a] sl IH]; intros cvs g; cbn [fill ffill rmap].
  - now rewrite body_of_mk_fresh.
  - apply IH.
  - destruct (atake cvs g) as [[b r]|e]; [|reflexivity]. rewrite IH. destruct (ffill sl r 0); cbn [rmap]; [|reflexivity].
    rewrite body_of_app, body_of_mk_fresh. reflexivity.
Qed.

(* ------------------------------------------------------------------ Fit *)
Inductive Fit : list slot -> Z -> fbody -> Prop :=
| fit_nil : Fit [] 0 []
| fit_free w sl g fb : 0 <= w -> 0 <= g -> Fit sl (g + w) fb -> Fit (Free w :: sl) g fb
| fit_fresh a sl g fb : 0 < fst a <= g -> Fit sl (g - fst a) fb -> Fit sl g ((true, a) :: fb)
| fit_busy a sl fb : Fit sl 0 fb -> Fit (Busy a :: sl) 0 ((false, a) :: fb).

Lemma Fit_nonneg sl g fb : Fit sl g fb -> 0 <= g.
Proof. induction 1; lia. Qed.

Lemma atake_0 cvs : atake cvs 0 = Ok ([], cvs).
Proof. destruct cvs; cbn [atake]; replace (0 =? 0) with true by lia; reflexivity. Qed.

Definition free_nonneg (s : slot) : Prop := match s with Free w => 0 <= w | Busy _ => True end.
Lemma Fit_free_nonneg sl g fb : Fit sl g fb -> Forall free_nonneg sl.
Proof. induction 1; try assumption; constructor; auto; exact I. Qed.

Lemma ffill_cons_fresh sl : forall a cvs g,
  Forall free_nonneg sl ->
  0 < fst a <= g -> ffill sl (a :: cvs) g = rmap (cons (true, a)) (ffill sl cvs (g - fst a)).
Proof.
  induction sl as [|[w|b] sl IH]; intros a cvs g Fn H; cbn [ffill rmap].
  - reflexivity.
  - inversion Fn; subst. cbn [free_nonneg] in H2. rewrite IH by (try assumption; lia). do 2 f_equal. lia.
  - cbn [atake]. destruct (g =? 0) eqn:E; [lia|]. destruct (g - fst a <? 0) eqn:E2; [lia|].
    destruct (atake cvs (g - fst a)) as [[b0 r]|e]; [|reflexivity].
    destruct (ffill sl r 0); reflexivity.
Qed.

Lemma Fit_ffill sl g fb : Fit sl g fb -> ffill sl (fresh_of fb) g = Ok fb.
Proof.
  induction 1 as [|w sl g fb Hw Hg _ IH|a sl g fb Ha HF IH|a sl fb _ IH].
  - reflexivity.
  - cbn [ffill]. exact IH.
  - change (fresh_of ((true, a) :: fb)) with (a :: fresh_of fb).
    rewrite ffill_cons_fresh by (try assumption; eapply Fit_free_nonneg; eassumption). now rewrite IH.
  - change (fresh_of ((false, a) :: fb)) with (fresh_of fb). cbn [ffill]. rewrite atake_0, IH. reflexivity.
Qed.

Lemma Fit_fill sl fb : Fit sl 0 fb -> fill sl (fresh_of fb) 0 = Ok (body_of fb).
Proof. intros F. rewrite fill_ffill, (Fit_ffill _ _ _ F). reflexivity. Qed.

Lemma Fit_app s1 g f1 : Fit s1 g f1 -> forall s2 f2, Fit s2 0 f2 -> Fit (s1 ++ s2) g (f1 ++ f2).
Proof.
  induction 1; intros s2 f2 F2; cbn [app].
  - exact F2.
  - apply fit_free; auto.
  - apply fit_fresh; auto.
  - apply fit_busy; auto.
Qed.

Lemma Fit_all_busy l : Fit (map Busy l) 0 (mk_busy l).
Proof. induction l as [|a l IH]; cbn [map mk_busy]; [constructor|]. apply fit_busy. exact IH. Qed.

Lemma Fit_fresh_prefix b : forall sl g fb,
  Forall (fun a : acv => 0 < fst a) b -> Fit sl g fb -> Fit sl (g + body_width b) (mk_fresh b ++ fb).
Proof.
  induction b as [|a b IH]; intros sl g fb Fp F; cbn [mk_fresh map app body_width fold_right].
  - now rewrite Z.add_0_r.
  - inversion Fp; subst. fold (body_width b). assert (0 <= body_width b) as Hb.
    { clear - H2. induction H2; cbn [body_width fold_right]; [lia|]. unfold body_width in IHForall. lia. }
    pose proof (Fit_nonneg _ _ _ F). apply fit_fresh; [lia|]. replace (g + (fst a + body_width b) - fst a) with (g + body_width b) by lia. apply IH; assumption.
Qed.

(* ------------------------------------------------------------------ exactness *)
Definition slot_width (s : slot) : Z := match s with Free w => w | Busy a => fst a end.
Definition slots_width (sl : list slot) : Z := fold_right (fun s acc => slot_width s + acc) 0 sl.
Definition slot_nonneg (s : slot) : Prop := match s with Free w => 0 <= w | Busy a => 0 < fst a end.

Lemma body_width_app a b : body_width (a ++ b) = body_width a + body_width b.
Proof. unfold body_width. induction a as [|x a IH]; cbn [app fold_right]; [lia|]. rewrite IH. lia. Qed.
Lemma body_width_nonneg b : Forall (fun a : acv => 0 < fst a) b -> 0 <= body_width b.
Proof. induction 1; cbn [body_width fold_right]; [lia|]. unfold body_width in IHForall. lia. Qed.
Lemma slots_width_app a b : slots_width (a ++ b) = slots_width a + slots_width b.
Proof. unfold slots_width. induction a as [|x a IH]; cbn [app fold_right]; [lia|]. rewrite IH. lia. Qed.

Lemma atake_exact cvs : forall g b rest,
  atake cvs g = Ok (b, rest) -> 0 <= g -> Forall (fun a : acv => 0 < fst a) cvs ->
  cvs = b ++ rest /\ (body_width b = g \/ (rest = [] /\ body_width b < g)).
Proof.
  induction cvs as [|a cvs IH]; intros g b rest; cbn [atake].
  - destruct (g =? 0) eqn:E; intros [= <- <-] Hg _; (split; [reflexivity|]); cbn [body_width fold_right]; [left; lia|right; split; [reflexivity|lia]].
  - destruct (g =? 0) eqn:E; [intros [= <- <-] Hg _; split; [reflexivity|left; cbn [body_width fold_right]; lia]|].
    destruct (g - fst a <? 0) eqn:E2; [discriminate|].
    destruct (atake cvs (g - fst a)) as [[b0 r0]|e] eqn:E3; [|discriminate]. intros [= <- <-] Hg F. inversion F; subst.
    destruct (IH _ _ _ E3 ltac:(lia) H2) as [A B]. split; [cbn [app]; now rewrite <- A|].
    cbn [body_width fold_right]. fold (body_width b0). destruct B as [B|[B1 B2]]; [left; lia|right; split; [assumption|lia]].
Qed.

Lemma ffill_nil_width sl : forall g fb,
  ffill sl [] g = Ok fb -> Forall slot_nonneg sl -> body_width (body_of fb) <= slots_width sl.
Proof.
  induction sl as [|[w|a] sl IH]; intros g fb; cbn [ffill slots_width fold_right slot_width].
  - intros [= <-] _. cbn. lia.
  - intros E F. inversion F; subst. cbn [slot_nonneg] in H1. fold (slots_width sl). specialize (IH _ _ E H2). lia.
  - assert (atake [] g = Ok ([], [])) as -> by (cbn [atake]; destruct (g =? 0); reflexivity).
    destruct (ffill sl [] 0) as [b'|e] eqn:E; [|discriminate]. intros [= <-] F. inversion F; subst.
    cbn [mk_fresh map app body_of snd body_width fold_right]. fold (body_of b'). fold (body_width (body_of b')). fold (slots_width sl).
    specialize (IH _ _ E H2). lia.
Qed.

Lemma Fit_of_ffill sl : forall cvs g fb,
  ffill sl cvs g = Ok fb -> Forall slot_nonneg sl -> Forall (fun a : acv => 0 < fst a) cvs -> 0 <= g ->
  body_width (body_of fb) = slots_width sl + g ->
  Fit sl g fb /\ fresh_of fb = cvs.
Proof.
  induction sl as [|[w|a] sl IH]; intros cvs g fb; cbn [ffill slots_width fold_right slot_width].
  - intros [= <-] _ Fp Hg Hw. rewrite body_of_mk_fresh in Hw. split; [|apply fresh_of_mk_fresh].
    rewrite <- (app_nil_r (mk_fresh cvs)). replace g with (0 + body_width cvs) by lia. apply Fit_fresh_prefix; [assumption|constructor].
  - intros E F Fp Hg Hw. inversion F; subst. cbn [slot_nonneg] in H1. fold (slots_width sl) in Hw.
    destruct (IH _ _ _ E H2 Fp ltac:(lia) ltac:(lia)) as [A B]. split; [apply fit_free; assumption|assumption].
  - destruct (atake cvs g) as [[b rest]|e] eqn:Et; [|discriminate]. destruct (ffill sl rest 0) as [b'|e] eqn:E; [|discriminate].
    intros [= <-] F Fp Hg Hw. inversion F; subst. cbn [slot_nonneg] in H1. fold (slots_width sl) in Hw.
    destruct (atake_exact _ _ _ _ Et Hg Fp) as [Ecv Ex]. subst cvs. apply Forall_app in Fp as [Fb Fr].
    rewrite body_of_app, body_of_mk_fresh, body_width_app in Hw. cbn [body_of map snd body_width fold_right] in Hw.
    fold (body_of b') in Hw. fold (body_width (body_of b')) in Hw.
    destruct Ex as [Ex|[Ex1 Ex2]].
    + destruct (IH _ _ _ E H2 Fr ltac:(lia) ltac:(lia)) as [A B]. split.
      * replace g with (0 + body_width b) by lia. apply Fit_fresh_prefix; [assumption|]. apply fit_busy. exact A.
      * rewrite fresh_of_app, fresh_of_mk_fresh. change (fresh_of ((false, a) :: b')) with (fresh_of b'). now rewrite B.
    + subst rest. pose proof (ffill_nil_width _ _ _ E H2). lia.
Qed.

(* ------------------------------------------------------------------ well-formed slot lists *)
Definition SWF (w : Z) (sl : list slot) : Prop := slots_width sl = w /\ Forall slot_nonneg sl.

Lemma slots_after_width n body : Forall acv_ok body -> SWF (body_width body) (slots_after n body).
Proof.
  unfold SWF, slots_after, slots_width, body_width.
  induction 1 as [|a body Ha _ IH]; cbn [map fold_right]; [split; [reflexivity|constructor]|].
  destruct IH as [I1 I2]. destruct Ha as [Ha _]. split.
  - rewrite I1. unfold slot_after. destruct (n =? zlen (snd a)); cbn [slot_width fst]; lia.
  - constructor; [|exact I2]. unfold slot_after. destruct (n =? zlen (snd a)); cbn [slot_nonneg fst]; lia.
Qed.

(* one band of a well-formed run, with its flagged body *)
Lemma AWF_step w n cvs ss sl :
  AWF w ((n, cvs) :: ss) sl -> SWF w sl ->
  exists fb, Fit sl 0 fb /\ fresh_of fb = cvs /\ fill sl cvs 0 = Ok (body_of fb) /\ 0 < n /\
             Forall acv_ok (body_of fb) /\ Forall (fun a : acv => n <= zlen (snd a)) (body_of fb) /\
             body_width (body_of fb) = w /\ AWF w ss (slots_after n (body_of fb)) /\
             SWF w (slots_after n (body_of fb)).
Proof.
  cbn [AWF]. intros (Hn & Fa & body & Ef & Fo & Fn & Hw & Hr) [S1 S2].
  pose proof Ef as Ef'. rewrite fill_ffill in Ef'. destruct (ffill sl cvs 0) as [fb|e] eqn:E; [|discriminate]. cbn [rmap] in Ef'. injection Ef' as <-.
  destruct (Fit_of_ffill _ _ _ _ E S2) as [A B]; [|lia|lia|].
  - eapply Forall_impl; [|exact Fa]. intros a [? _]; assumption.
  - pose proof (slots_after_width n _ Fo) as Sw. rewrite Hw in Sw. exists fb. repeat split; try assumption; apply Sw.
Qed.

Lemma AWF_build w n ss sl fb :
  Fit sl 0 fb -> 0 < n -> Forall acv_ok (body_of fb) -> Forall (fun a : acv => n <= zlen (snd a)) (body_of fb) ->
  body_width (body_of fb) = w -> AWF w ss (slots_after n (body_of fb)) ->
  AWF w ((n, fresh_of fb) :: ss) sl.
Proof.
  intros F Hn Fo Fn Hw Hr. cbn [AWF]. split; [assumption|]. split.
  - unfold fresh_of. apply Forall_forall. intros a Ha. apply in_map_iff in Ha as ([fl a0] & <- & Hin).
    apply filter_In in Hin as [Hin _]. rewrite Forall_forall in Fo. apply Fo. unfold body_of. apply in_map_iff. exists (fl, a0). auto.
  - exists (body_of fb). split; [now apply Fit_fill|]. auto.
Qed.

Lemma acontent_step n cvs ss sl body :
  fill sl cvs 0 = Ok body ->
  acontent_from ((n, cvs) :: ss) sl = arows body 0 (Z.to_nat n) ++ acontent_from ss (slots_after n body).
Proof. intros E. cbn [acontent_from]. now rewrite E. Qed.

(* the initial slot list: "everything free" *)
Lemma sl_equiv_nil_free w : sl_equiv [] [Free w].
Proof. intros C g. reflexivity. Qed.
Lemma SWF_free w : 0 <= w -> SWF w [Free w].
Proof. intros. split; [cbn; lia|constructor; [exact H|constructor]]. Qed.

(* ------------------------------------------------------------------ framing with constant columns
   (pad_trim_left_right with non-negative amounts: blank cviews spanning all rows are added
   to the first shard) *)
Definition cside (s : Z * row) (h : Z) : acv := (fst s, repeatz (snd s) h).
Definition side_ok (s : Z * row) : Prop := 0 < fst s /\ zlen (snd s) = fst s /\ row_cleanb (snd s) = true.
Definition side_slots (h : Z) (sides : list (Z * row)) : list slot :=
  if 0 <? h then map (fun s => Busy (cside s h)) sides else map (fun s : Z * row => Free (fst s)) sides.
Definition prow (sides : list (Z * row)) : row := flat_map snd sides.
Definition sides_width (sides : list (Z * row)) : Z := fold_right (fun s acc => fst s + acc) 0 sides.

Lemma cside_ok s h : side_ok s -> acv_ok (cside s h).
Proof. intros (A & B & C). split; cbn [cside fst snd]; [assumption|]. apply Forall_repeatz. auto. Qed.

Lemma body_width_csides sides h : body_width (map (fun s => cside s h) sides) = sides_width sides.
Proof. unfold body_width, sides_width. induction sides as [|s l IH]; cbn [map fold_right cside fst]; [reflexivity|]. now rewrite IH. Qed.

Lemma arow_app b1 b2 k : arow (b1 ++ b2) k = arow b1 k ++ arow b2 k.
Proof. unfold arow. apply flat_map_app. Qed.

Lemma nthz_repeatz {A} (x : A) h k : 0 <= k < h -> nthz (repeatz x h) k = Some x.
Proof.
  intros. rewrite nthz_nth_error by lia. unfold repeatz.
  assert (Z.to_nat k < Z.to_nat h)%nat as Hlt by lia. revert Hlt. generalize (Z.to_nat k) as i, (Z.to_nat h) as m.
  induction i; intros [|m] Hm; try lia; cbn [repeat nth_error]; [reflexivity|]. apply IHi. lia.
Qed.

Lemma arow_csides sides h k : 0 <= k < h -> arow (map (fun s => cside s h) sides) k = prow sides.
Proof.
  intros. unfold arow, prow. induction sides as [|s l IH]; cbn [map flat_map]; [reflexivity|].
  rewrite IH. f_equal. cbn [cside snd]. now rewrite nthz_repeatz.
Qed.

Lemma slots_after_csides n h sides :
  0 < n <= h -> slots_after n (map (fun s => cside s h) sides) = side_slots (h - n) sides.
Proof.
  intros. unfold slots_after, side_slots. rewrite map_map. destruct (0 <? h - n) eqn:E.
  - apply map_ext. intros s. unfold slot_after. cbn [cside fst snd]. rewrite zlen_repeatz.
    destruct (n =? Z.max 0 h) eqn:E2; [lia|]. unfold cside. cbn [fst snd]. rewrite dropz_repeatz by lia. reflexivity.
  - apply map_ext. intros s. unfold slot_after. cbn [cside fst snd]. rewrite zlen_repeatz.
    destruct (n =? Z.max 0 h) eqn:E2; [reflexivity|lia].
Qed.

Lemma side_slots_free sides : Forall is_free (side_slots 0 sides).
Proof. unfold side_slots. replace (0 <? 0) with false by lia. apply Forall_forall. intros s Hs. apply in_map_iff in Hs as (x & <- & _). exact I. Qed.

Lemma arows_frame pre post body k m h :
  0 <= k -> k + Z.of_nat m <= h ->
  arows (map (fun s => cside s h) pre ++ body ++ map (fun s => cside s h) post) k m
  = map (fun r : row => prow pre ++ r ++ prow post) (arows body k m).
Proof.
  revert k; induction m as [|m IH]; intros k Hk Hm; cbn [arows map]; [reflexivity|].
  rewrite IH by lia. f_equal. rewrite !arow_app, !arow_csides by lia. reflexivity.
Qed.

Lemma frame_rest w pre post : Forall side_ok pre -> Forall side_ok post ->
  forall ss sl h,
  AWF w ss sl -> SWF w sl -> ashards_rows ss = h ->
  AWF (sides_width pre + w + sides_width post) ss (side_slots h pre ++ sl ++ side_slots h post) /\
  acontent_from ss (side_slots h pre ++ sl ++ side_slots h post)
  = map (fun r : row => prow pre ++ r ++ prow post) (acontent_from ss sl).
Proof.
  intros Fpre Fpost. induction ss as [|[n cvs] ss IH]; intros sl h A S Eh.
  - cbn [ashards_rows fold_right] in Eh. subst h. cbn [AWF acontent_from map] in *. split; [|reflexivity].
    apply closed_iff. apply Forall_app; split; [apply side_slots_free|]. apply Forall_app; split; [now apply closed_iff|apply side_slots_free].
  - destruct (AWF_step _ _ _ _ _ A S) as (fb & F & Efr & Ef & Hn & Fo & Fn & Hw & Hr & S').
    cbn [ashards_rows fold_right fst] in Eh. fold (ashards_rows ss) in Eh.
    assert (0 <= ashards_rows ss) as Hrs by (rewrite <- (AWF_len _ _ _ Hr); apply zlen_nonneg).
    assert (0 <? h = true) as Hh by lia. unfold side_slots at 1 2 3 4. rewrite Hh.
    set (P := map (fun s => cside s h) pre). set (Q := map (fun s => cside s h) post).
    replace (map (fun s : Z * row => Busy (cside s h)) pre) with (map Busy P) by (subst P; now rewrite map_map).
    replace (map (fun s : Z * row => Busy (cside s h)) post) with (map Busy Q) by (subst Q; now rewrite map_map).
    set (fb' := mk_busy P ++ fb ++ mk_busy Q).
    assert (Fit (map Busy P ++ sl ++ map Busy Q) 0 fb') as F'.
    { subst fb'. apply Fit_app; [apply Fit_all_busy|]. apply Fit_app; [assumption|apply Fit_all_busy]. }
    assert (fresh_of fb' = cvs) as Efr'.
    { subst fb'. rewrite !fresh_of_app, !fresh_of_mk_busy, app_nil_r. exact Efr. }
    assert (body_of fb' = P ++ body_of fb ++ Q) as Eb'.
    { subst fb'. now rewrite !body_of_app, !body_of_mk_busy. }
    destruct (IH (slots_after n (body_of fb)) (h - n) Hr S' ltac:(lia)) as [I1 I2].
    assert (slots_after n (body_of fb') = side_slots (h - n) pre ++ slots_after n (body_of fb) ++ side_slots (h - n) post) as Es.
    { rewrite Eb'. unfold slots_after. rewrite !map_app. fold (slots_after n P). fold (slots_after n Q). fold (slots_after n (body_of fb)).
      subst P Q. rewrite !slots_after_csides by lia. reflexivity. }
    split.
    + rewrite <- Efr'. apply AWF_build; try assumption.
      * rewrite Eb'. apply Forall_app; split; [|apply Forall_app; split; [assumption|]].
        -- subst P. apply Forall_forall. intros a Ha. apply in_map_iff in Ha as (s & <- & Hs). apply cside_ok. rewrite Forall_forall in Fpre; auto.
        -- subst Q. apply Forall_forall. intros a Ha. apply in_map_iff in Ha as (s & <- & Hs). apply cside_ok. rewrite Forall_forall in Fpost; auto.
      * rewrite Eb'. apply Forall_app; split; [|apply Forall_app; split; [assumption|]].
        -- subst P. apply Forall_forall. intros a Ha. apply in_map_iff in Ha as (s & <- & Hs). cbn [cside snd]. rewrite zlen_repeatz. lia.
        -- subst Q. apply Forall_forall. intros a Ha. apply in_map_iff in Ha as (s & <- & Hs). cbn [cside snd]. rewrite zlen_repeatz. lia.
      * rewrite Eb', !body_width_app. subst P Q. rewrite !body_width_csides. lia.
      * rewrite Es. exact I1.
    + rewrite (acontent_step _ _ _ _ (body_of fb')) by (rewrite <- Efr'; now apply Fit_fill).
      rewrite (acontent_step _ _ _ _ _ Ef). rewrite Es, I2, map_app. f_equal.
      rewrite Eb'. subst P Q. apply arows_frame; lia.
Qed.

(* the first shard receives the side cviews as fresh cviews *)
Lemma frame_correct w pre post n cvs ss :
  Forall side_ok pre -> Forall side_ok post ->
  AWF w ((n, cvs) :: ss) [] ->
  let h := ashards_rows ((n, cvs) :: ss) in
  let cvs' := map (fun s => cside s h) pre ++ cvs ++ map (fun s => cside s h) post in
  AWF (sides_width pre + w + sides_width post) ((n, cvs') :: ss) [] /\
  acontent_from ((n, cvs') :: ss) [] = map (fun r : row => prow pre ++ r ++ prow post) (acontent_from ((n, cvs) :: ss) []).
Proof.
  intros Fpre Fpost A h cvs'. pose proof A as A0. cbn [AWF fill] in A. destruct A as (Hn & Fa & body & [= <-] & Fo & Fn & Hw & Hr).
  assert (0 <= ashards_rows ss) as Hrs by (rewrite <- (AWF_len _ _ _ Hr); apply zlen_nonneg).
  assert (h = n + ashards_rows ss) as Eh by reflexivity.
  pose proof (slots_after_width n _ Fo) as S'. rewrite Hw in S'.
  destruct (frame_rest w pre post Fpre Fpost ss (slots_after n cvs) (h - n) Hr S' ltac:(lia)) as [I1 I2].
  assert (slots_after n cvs' = side_slots (h - n) pre ++ slots_after n cvs ++ side_slots (h - n) post) as Es.
  { subst cvs'. unfold slots_after. rewrite !map_app. fold (slots_after n (map (fun s => cside s h) pre)).
    fold (slots_after n (map (fun s => cside s h) post)). rewrite !slots_after_csides by lia. reflexivity. }
  assert (Forall acv_ok cvs') as Fo'.
  { subst cvs'. apply Forall_app; split; [|apply Forall_app; split; [assumption|]].
    - apply Forall_forall. intros a Ha. apply in_map_iff in Ha as (s & <- & Hs). apply cside_ok. rewrite Forall_forall in Fpre; auto.
    - apply Forall_forall. intros a Ha. apply in_map_iff in Ha as (s & <- & Hs). apply cside_ok. rewrite Forall_forall in Fpost; auto. }
  split.
  - cbn [AWF fill]. split; [assumption|]. split; [assumption|]. exists cvs'. split; [reflexivity|]. split; [assumption|]. split.
    + subst cvs'. apply Forall_app; split; [|apply Forall_app; split; [assumption|]].
      * apply Forall_forall. intros a Ha. apply in_map_iff in Ha as (s & <- & Hs). cbn [cside snd]. rewrite zlen_repeatz. lia.
      * apply Forall_forall. intros a Ha. apply in_map_iff in Ha as (s & <- & Hs). cbn [cside snd]. rewrite zlen_repeatz. lia.
    + split; [subst cvs'; rewrite !body_width_app, !body_width_csides; lia|]. rewrite Es. exact I1.
  - cbn [acontent_from fill]. rewrite Es, I2, map_app. f_equal. subst cvs'. apply arows_frame; lia.
Qed.

(* ------------------------------------------------------------------ content rows are clean *)
Lemma first_okb_app a b : a <> [] -> first_okb (a ++ b) = first_okb a.
Proof. destruct a; [congruence|reflexivity]. Qed.
Lemma last_okb_app a b : b <> [] -> last_okb (a ++ b) = last_okb b.
Proof.
  intros Hb. induction a as [|c a IH]; [reflexivity|]. cbn [app last_okb]. destruct (a ++ b) eqn:E.
  - destruct a; [cbn in E; congruence|discriminate].
  - exact IH.
Qed.
Lemma row_clean_app a b : a <> [] -> b <> [] -> row_cleanb a = true -> row_cleanb b = true -> row_cleanb (a ++ b) = true.
Proof.
  unfold row_cleanb. intros Ha Hb H1 H2. apply andb_prop in H1 as [A1 A2]. apply andb_prop in H2 as [B1 B2].
  rewrite first_okb_app, last_okb_app by assumption. now rewrite A1, B2.
Qed.

Lemma arow_clean body k :
  0 <= k -> body <> [] -> Forall acv_ok body -> Forall (fun a : acv => k < zlen (snd a)) body ->
  arow body k <> [] /\ row_cleanb (arow body k) = true.
Proof.
  intros Hk. induction body as [|a body IH]; [congruence|]. intros _ Fo Fk. inversion Fo as [|? ? [Ha Hr] Fo']; subst. inversion Fk; subst.
  unfold arow. cbn [flat_map]. fold (arow body k).
  destruct (nthz_lt_some (snd a) k) as [r Hr']; [lia|]. rewrite Hr'.
  assert (In r (snd a)) as Hin by (unfold nthz in Hr'; destruct (k <? 0); [discriminate|]; eapply nth_error_In; eauto).
  rewrite Forall_forall in Hr. destruct (Hr _ Hin) as [Hz Hc].
  assert (r <> []) as Hne by (intros ->; rewrite zlen_nil in Hz; lia).
  destruct body as [|a' body'].
  - cbn [arow flat_map]. rewrite app_nil_r. auto.
  - destruct (IH ltac:(discriminate) Fo' H2) as [I1 I2]. split.
    + destruct r; [congruence|discriminate].
    + now apply row_clean_app.
Qed.

Lemma arows_clean body k m :
  0 <= k -> body <> [] -> Forall acv_ok body -> Forall (fun a : acv => k + Z.of_nat m <= zlen (snd a)) body ->
  Forall (fun r : row => row_cleanb r = true) (arows body k m).
Proof.
  revert k; induction m as [|m IH]; intros k Hk Hb Fo Fk; cbn [arows]; constructor.
  - apply arow_clean; try assumption. eapply Forall_impl; [|exact Fk]. cbn beta; intros; lia.
  - apply IH; try assumption; [lia|]. eapply Forall_impl; [|exact Fk]. cbn beta; intros; lia.
Qed.

Lemma AWF_clean w ss : 0 < w -> forall sl, AWF w ss sl -> Forall (fun r : row => row_cleanb r = true) (acontent_from ss sl).
Proof.
  intros Hw. induction ss as [|[n cvs] ss IH]; intros sl; cbn [AWF acontent_from]; [constructor|].
  intros (Hn & _ & body & -> & Fo & Fn & Hbw & Hr). apply Forall_app; split; [|apply IH, Hr].
  apply arows_clean; try assumption; [lia| |].
  - intros ->. cbn in Hbw. lia.
  - eapply Forall_impl; [|exact Fn]. cbn beta; intros; lia.
Qed.

Lemma content_clean s g : WF s -> content s = Ok g -> Forall (fun r : row => row_cleanb r = true) g.
Proof.
  intros W C. destruct (WF_elim _ W) as (Hc & _ & A & C'). rewrite C' in C. injection C as <-. eapply AWF_clean; eauto.
Qed.

