(* Natural (FIXED) size of a Text: pack(()) reports (cols, rows); at width cols every paragraph fits,
   so the layout has exactly one line per paragraph and rows((cols,)) = rows. *)
From Coq Require Import ZArith List Bool Lia ZifyBool.
Import ListNotations.
From Urwid Require Import PyBase TextLayout TextLayoutFacts TextLayoutProofs.
Open Scope Z_scope.

Arguments Z.add : simpl never.
Arguments Z.sub : simpl never.
Arguments Z.mul : simpl never.
Arguments Z.ltb : simpl never.
Arguments Z.leb : simpl never.
Arguments Z.eqb : simpl never.
Arguments Z.max : simpl never.
Arguments Z.of_nat : simpl never.
Arguments Z.to_nat : simpl never.

(* number of newlines *)
Fixpoint cnt (l : list Z) : Z := match l with [] => 0 | c :: r => (if c =? NL then 1 else 0) + cnt r end.

Lemma cnt_app a b : cnt (a ++ b) = cnt a + cnt b.
Proof. induction a; cbn [app cnt]; lia. Qed.

Lemma cnt_nonneg l : 0 <= cnt l.
Proof. induction l; cbn [cnt]; [lia|]. destruct (a =? NL); lia. Qed.

Lemma cnt_zero l : ~ In NL l -> cnt l = 0.
Proof.
  induction l; cbn [cnt In]; intros H; [reflexivity|].
  rewrite IHl by tauto. destruct (a =? NL) eqn:E; [|lia]. exfalso. apply H. left. lia.
Qed.

Lemma slice_all t : slice t 0 (zlen t) = t.
Proof. unfold slice, takez, dropz, zlen. replace (Z.to_nat 0) with O by lia. cbn [skipn]. apply firstn_all2. lia. Qed.

Section Natural.
Variable cw : Z -> Z.
Hypothesis cw_range : forall c, 0 <= cw c <= 2.
Variable t : list Z.

Notation len := (zlen t).
Notation W a b := (sumw cw (slice t a b)).

(* ---------- the widest paragraph ---------- *)
Fixpoint maxpara (l : list Z) (cur : Z) : Z :=
  match l with
  | [] => cur
  | c :: r => if c =? NL then Z.max cur (maxpara r 0) else maxpara r (cur + cw c)
  end.

Lemma fold_max_init l : forall a, 0 <= a -> fold_left Z.max l a = Z.max a (fold_left Z.max l 0).
Proof.
  induction l as [|x l IH]; intros a Ha; cbn [fold_left]; [lia|].
  destruct (Z_le_gt_dec 0 x).
  - rewrite (IH (Z.max a x)) by lia. rewrite (IH (Z.max 0 x)) by lia. lia.
  - replace (Z.max a x) with a by lia. replace (Z.max 0 x) with 0 by lia. apply IH; assumption.
Qed.

Lemma split_widths_max l : forall cur, 0 <= cur ->
  fold_left Z.max (split_widths cw l cur) 0 = maxpara l cur /\ cur <= maxpara l cur.
Proof.
  induction l as [|c l IH]; intros cur Hc; cbn [split_widths maxpara].
  - cbn [fold_left]. lia.
  - destruct (c =? NL).
    + cbn [fold_left]. destruct (IH 0 ltac:(lia)) as (E & L).
      rewrite fold_max_init by lia. rewrite E. lia.
    + pose proof (cw_range c). destruct (IH (cur + cw c) ltac:(lia)) as (E & L). split; [exact E | lia].
Qed.

Lemma split_widths_len l : forall cur, zlen (split_widths cw l cur) = cnt l + 1.
Proof.
  induction l as [|c l IH]; intros cur; cbn [split_widths cnt]; [reflexivity|].
  destruct (c =? NL); [rewrite zlen_cons, IH; lia | rewrite IH; lia].
Qed.

Lemma maxpara_run s : forall post cur, ~ In NL s -> cur + sumw cw s <= maxpara (s ++ post) cur.
Proof.
  induction s as [|c s IH]; intros post cur H; cbn [app sumw].
  - assert (G : forall l cur, cur <= maxpara l cur).
    { induction l as [|x l IHl]; intros cu; cbn [maxpara]; [lia|].
      destruct (x =? NL); [lia|]. pose proof (cw_range x). specialize (IHl (cu + cw x)). lia. }
    specialize (G post cur). lia.
  - cbn [maxpara]. destruct (c =? NL) eqn:E; [exfalso; apply H; left; lia|].
    specialize (IH post (cur + cw c) ltac:(intros I; apply H; right; exact I)). lia.
Qed.

Lemma maxpara_sub pre : forall s post cur, 0 <= cur -> ~ In NL s -> sumw cw s <= maxpara (pre ++ s ++ post) cur.
Proof.
  induction pre as [|c pre IH]; intros s post cur Hc H; cbn [app].
  - pose proof (maxpara_run s post cur H). lia.
  - cbn [maxpara]. destruct (c =? NL).
    + specialize (IH s post 0 ltac:(lia) H). lia.
    + pose proof (cw_range c). apply IH; [lia | assumption].
Qed.

Definition natural_cols : Z := fst (text_pack_fixed cw t).
Definition natural_rows : Z := snd (text_pack_fixed cw t).

Lemma natural_rows_cnt : natural_rows = cnt t + 1.
Proof.
  unfold natural_rows, text_pack_fixed. destruct t as [|c r] eqn:E; [reflexivity|].
  cbn [snd]. apply split_widths_len.
Qed.

(* every newline-free range of the text fits in the natural width *)
Lemma natural_fits a b : 0 <= a <= b -> b <= len -> (forall k, a <= k < b -> nthz t k <> Some NL) ->
  W a b <= natural_cols.
Proof.
  intros H1 H2 Hno.
  assert (Hn : ~ In NL (slice t a b)).
  { intros I. apply In_slice in I; [|lia]. destruct I as (k & Hk & N). exact (Hno k Hk N). }
  assert (Ht : t = slice t 0 a ++ slice t a b ++ slice t b len).
  { rewrite <- (slice_split t a b len) by lia. rewrite <- (slice_split t 0 a len) by lia. symmetry. apply slice_all. }
  unfold natural_cols, text_pack_fixed. destruct t as [|c r] eqn:E.
  - rewrite slice_past_end by (unfold zlen; cbn; lia). cbn. lia.
  - rewrite <- E in *. cbn [fst]. destruct (split_widths_max t 0 ltac:(lia)) as (-> & _).
    rewrite Ht at 2. apply maxpara_sub; [lia | assumption].
Qed.

(* ---------- one line per paragraph ---------- *)
Variable width : Z.
Variable wrap : wrapmode.

Definition paras_from (idx : Z) : Z := cnt (slice t idx len) + (if idx <=? len then 1 else 0).

Lemma paras_step idx : 0 <= idx <= len ->
  paras_from idx = 1 + paras_from (find_nl t idx + 1).
Proof.
  intros H. destruct (find_nl_spec t idx H) as (A & B & C). set (nl := find_nl t idx) in *.
  unfold paras_from. replace (idx <=? len) with true by lia.
  assert (Hn : cnt (slice t idx nl) = 0).
  { apply cnt_zero. intros I. apply In_slice in I; [|lia]. destruct I as (k & Hk & N). exact (C k Hk N). }
  rewrite (slice_split t idx nl len) by lia. rewrite cnt_app, Hn.
  destruct B as [B|B].
  - rewrite B. rewrite (slice_nil t len len) by lia. rewrite (slice_past_end t (len + 1)) by lia.
    cbn [cnt]. replace (len + 1 <=? len) with false by lia. lia.
  - pose proof (nthz_lt _ _ _ B). rewrite (slice_cons t nl len NL) by (lia || assumption).
    cbn [cnt]. replace (NL =? NL) with true by reflexivity. replace (nl + 1 <=? len) with true by lia. lia.
Qed.

Lemma step_wrap_fits segs idx : 0 <= idx <= len -> W idx (find_nl t idx) <= width ->
  exists ln, step_wrap cw t width wrap segs idx = LOk (ln :: segs, find_nl t idx + 1).
Proof.
  intros H F. destruct (find_nl_spec t idx H) as (A & _). unfold step_wrap.
  rewrite (calc_width_ok cw t idx (find_nl t idx)) by lia. cbn [lbind].
  destruct (W idx (find_nl t idx) =? 0); [eauto|].
  replace (W idx (find_nl t idx) <=? width) with true by lia. eauto.
Qed.

Lemma wrap_loop_natural fuel : forall segs idx, 0 <= idx <= len + 1 -> len + 1 - idx <= Z.of_nat fuel ->
  (forall a, 0 <= a <= len -> W a (find_nl t a) <= width) ->
  exists segs', wrap_loop cw fuel t width wrap segs idx = LOk (rev segs') /\ zlen segs' = zlen segs + paras_from idx.
Proof.
  induction fuel as [|k IH]; intros segs idx Hr Hf Hfit; cbn [wrap_loop].
  - replace (idx <=? len) with false by lia. exists segs. split; [reflexivity|].
    unfold paras_from. rewrite slice_past_end by lia. replace (idx <=? len) with false by lia. cbn; lia.
  - destruct (idx <=? len) eqn:E.
    + destruct (step_wrap_fits segs idx ltac:(lia) (Hfit idx ltac:(lia))) as (ln & ->). cbn [lbind].
      destruct (find_nl_spec t idx ltac:(lia)) as (A & _).
      destruct (IH (ln :: segs) (find_nl t idx + 1) ltac:(lia) ltac:(lia) Hfit) as (s' & -> & L).
      exists s'. split; [reflexivity|]. rewrite L, zlen_cons, (paras_step idx) by lia. lia.
    + exists segs. split; [reflexivity|].
      unfold paras_from. rewrite slice_past_end by lia. replace (idx <=? len) with false by lia. cbn; lia.
Qed.

Variable ell : list Z.
Hypothesis width_pos : 1 <= width.

Lemma trim_loop_natural fuel : wrap = WClip \/ wrap = WEllipsis ->
  forall segs idx, 0 <= idx <= len + 1 -> len + 1 - idx <= Z.of_nat fuel ->
  exists segs', trim_loop cw fuel t width wrap (trim_ell cw width ell) segs idx = LOk (rev segs') /\
                zlen segs' = zlen segs + paras_from idx.
Proof.
  intros Hw. induction fuel as [|k IH]; intros segs idx Hr Hf; cbn [trim_loop].
  - replace (idx <=? len) with false by lia. exists segs. split; [reflexivity|].
    unfold paras_from. rewrite slice_past_end by lia. replace (idx <=? len) with false by lia. cbn; lia.
  - destruct (idx <=? len) eqn:E.
    + destruct (step_trim_good cw cw_range t width width_pos wrap Hw ell idx ltac:(lia)) as (ln & idx' & -> & _ & ->).
      cbn [lbind]. destruct (find_nl_spec t idx ltac:(lia)) as (A & _).
      destruct (IH (ln :: segs) (find_nl t idx + 1) ltac:(lia) ltac:(lia)) as (s' & -> & L).
      exists s'. split; [reflexivity|]. rewrite L, zlen_cons, (paras_step idx) by lia. lia.
    + exists segs. split; [reflexivity|].
      unfold paras_from. rewrite slice_past_end by lia. replace (idx <=? len) with false by lia. cbn; lia.
Qed.

End Natural.

(* at the natural width (when it is at least one column) rows() is the row count pack(()) reports *)
Theorem natural_size_rows cw t align wrap ell :
  (forall c, 0 <= cw c <= 2) -> 1 <= natural_cols cw t ->
  text_rows cw t (natural_cols cw t) align wrap ell = LOk (natural_rows cw t).
Proof.
  intros R Hw. set (w := natural_cols cw t) in *. pose proof (zlen_nonneg t) as Hl.
  assert (Hfit : forall a, 0 <= a <= zlen t -> sumw cw (slice t a (find_nl t a)) <= w).
  { intros a Ha. destruct (find_nl_spec t a Ha) as (A & _ & C). apply (natural_fits cw R t a (find_nl t a)); try assumption; lia. }
  assert (Hp : paras_from t 0 = natural_rows cw t).
  { unfold paras_from. rewrite slice_all. replace (0 <=? zlen t) with true by lia. rewrite natural_rows_cnt by exact R. reflexivity. }
  unfold text_rows, layout, calculate_text_segments.
  assert (Hres : exists segs, (match wrap with
            | WClip | WEllipsis => trim_loop cw (Z.to_nat (zlen t + 2)) t w wrap (trim_ell cw w ell) [] 0
            | _ => wrap_loop cw (Z.to_nat (2 * zlen t + 3)) t w wrap [] 0 end) = LOk (rev segs)
            /\ zlen segs = natural_rows cw t).
  { destruct wrap.
    - destruct (wrap_loop_natural cw R t w WAny (Z.to_nat (2 * zlen t + 3)) [] 0 ltac:(lia) ltac:(lia) Hfit) as (s & E & L).
      exists s. split; [exact E|]. rewrite L, Hp. reflexivity.
    - destruct (wrap_loop_natural cw R t w WSpace (Z.to_nat (2 * zlen t + 3)) [] 0 ltac:(lia) ltac:(lia) Hfit) as (s & E & L).
      exists s. split; [exact E|]. rewrite L, Hp. reflexivity.
    - destruct (trim_loop_natural cw R t w WClip ell Hw (Z.to_nat (zlen t + 2)) (or_introl eq_refl) [] 0 ltac:(lia) ltac:(lia)) as (s & E & L).
      exists s. split; [exact E|]. rewrite L, Hp. reflexivity.
    - destruct (trim_loop_natural cw R t w WEllipsis ell Hw (Z.to_nat (zlen t + 2)) (or_intror eq_refl) [] 0 ltac:(lia) ltac:(lia)) as (s & E & L).
      exists s. split; [exact E|]. rewrite L, Hp. reflexivity. }
  destruct Hres as (segs & -> & L). cbn [to_lres lbind]. f_equal.
  unfold align_layout, zlen in *. rewrite map_length, rev_length. exact L.
Qed.
