(* C17 part 1: decompose_tagmarkup gives every character the attribute of its innermost tag. *)
From Coq Require Import ZArith List Bool Lia ZifyBool.
Import ListNotations.
From Urwid Require Import PyBase PyList AttrFlow AttrFlowBasics.
Open Scope Z_scope.

Arguments Z.add : simpl never.
Arguments Z.sub : simpl never.
Arguments Z.ltb : simpl never.
Arguments Z.leb : simpl never.
Arguments Z.eqb : simpl never.
Arguments Z.to_nat : simpl never.
Arguments Z.of_nat : simpl never.

(* ---- the specification, by structural recursion on the markup: nothing but "the tag
        that encloses a string most closely wins" ---- *)
Fixpoint flat (m : markup) : list Z :=
  match m with
  | Str _ cs => cs
  | Tagged _ m' => flat m'
  | Lst ms => flat_map flat ms
  | Bad => []
  end.

Fixpoint tags (m : markup) (cur : attr) : list attr :=
  match m with
  | Str _ cs => repeat cur (length cs)
  | Tagged a m' => tags m' a
  | Lst ms => flat_map (fun x => tags x cur) ms
  | Bad => []
  end.

(* induction principle for the nested type *)
Section MarkupInd.
  Variable P : markup -> Prop.
  Hypothesis HS : forall b cs, P (Str b cs).
  Hypothesis HT : forall a m, P m -> P (Tagged a m).
  Hypothesis HL : forall ms, Forall P ms -> P (Lst ms).
  Hypothesis HB : P Bad.
  Fixpoint markup_ind' (m : markup) : P m :=
    match m with
    | Str b cs => HS b cs
    | Tagged a m' => HT a m' (markup_ind' m')
    | Lst ms => HL ms ((fix go (l : list markup) : Forall P l :=
                          match l with
                          | [] => Forall_nil P
                          | x :: r => Forall_cons x (markup_ind' x) (go r)
                          end) ms)
    | Bad => HB
    end.
End MarkupInd.

(* the loop of the list case, named *)
Definition lst_loop (a : attr) :=
  fix loop (ms : list markup) (rtl : list piece) (ral : rle) : result (list piece * rle) :=
    match ms with
    | [] => Ok (rtl, ral)
    | e :: rest =>
        match tagmarkup_recurse e a with
        | Err x => Err x
        | Ok (tl, al) =>
            match merge_runs ral al with
            | Err x => Err x
            | Ok ral' => loop rest (rtl ++ tl) ral'
            end
        end
    end.

Lemma recurse_lst ms a : tagmarkup_recurse (Lst ms) a = lst_loop a ms [] [].
Proof. reflexivity. Qed.

Lemma merge_last_spec ral : forall ta tr al', nonneg ral -> 0 <= tr -> nonneg al' ->
  expand (merge_last ral ta tr al') = expand ral ++ repeat ta (Z.to_nat tr) ++ expand al' /\
  nonneg (merge_last ral ta tr al').
Proof.
  induction ral as [|[la lr] t IH]; intros ta tr al' Hr Ht Ha.
  - cbn. split; [reflexivity|]. apply nonneg_cons; cbn; auto.
  - apply nonneg_cons in Hr; cbn [snd] in Hr; destruct Hr as [H1 H2].
    destruct t as [|y t'].
    + cbn [merge_last]. destruct (attr_eqb la ta) eqn:E.
      * apply attr_eqb_eq in E; subst la. cbn [expand app]. split.
        -- rewrite repeat_Z_add by assumption. rewrite ?app_nil_r, <- ?app_assoc. reflexivity.
        -- apply nonneg_cons; cbn [snd]; split; [lia | assumption].
      * cbn [expand app]. split; [rewrite ?app_nil_r, <- ?app_assoc; reflexivity|].
        apply nonneg_cons; cbn [snd]; split; [assumption|]. apply nonneg_cons; cbn [snd]; auto.
    + change (merge_last ((la, lr) :: y :: t') ta tr al') with ((la, lr) :: merge_last (y :: t') ta tr al').
      destruct (IH ta tr al' H2 Ht Ha) as [E N]. cbn [expand]. rewrite E. split.
      * cbn [expand]. now rewrite <- !app_assoc.
      * apply nonneg_cons; cbn [snd]; auto.
Qed.

Lemma merge_runs_spec ral al ral' : nonneg ral -> nonneg al -> merge_runs ral al = Ok ral' ->
  expand ral' = expand ral ++ expand al /\ nonneg ral'.
Proof.
  intros Hr Ha. unfold merge_runs. destruct ral as [|r0 rt].
  - intro H; inversion H; subst. cbn. auto.
  - destruct al as [|[ta tr] al']; [discriminate|]. intro H; inversion H; subst.
    apply nonneg_cons in Ha; cbn [snd] in Ha; destruct Ha as [H1 H2].
    destruct (merge_last_spec (r0 :: rt) ta tr al' Hr H1 H2) as [E N].
    split; [exact E | exact N].
Qed.

Definition recurse_ok (m : markup) : Prop :=
  forall a tl al, tagmarkup_recurse m a = Ok (tl, al) ->
    flat_map snd tl = flat m /\ expand al = tags m a /\ nonneg al.

Lemma lst_loop_spec a ms : Forall recurse_ok ms ->
  forall rtl ral tl al, nonneg ral -> lst_loop a ms rtl ral = Ok (tl, al) ->
    flat_map snd tl = flat_map snd rtl ++ flat_map flat ms /\
    expand al = expand ral ++ flat_map (fun x => tags x a) ms /\ nonneg al.
Proof.
  induction 1 as [|e rest He Hrest IH]; intros rtl ral tl al Hn H.
  - cbn in H. inversion H; subst. cbn. now rewrite !app_nil_r.
  - cbn [lst_loop] in H. fold (lst_loop a) in H.
    destruct (tagmarkup_recurse e a) as [[tl1 al1]|] eqn:E1; [|discriminate].
    destruct (He a tl1 al1 E1) as (F1 & X1 & N1).
    destruct (merge_runs ral al1) as [ral'|] eqn:E2; [|discriminate].
    destruct (merge_runs_spec ral al1 ral' Hn N1 E2) as [X2 N2].
    destruct (IH _ _ _ _ N2 H) as (F & X & N).
    split; [|split; [|exact N]].
    + rewrite F, flat_map_app, <- app_assoc. f_equal. cbn [flat_map]. f_equal. exact F1.
    + rewrite X, X2, <- app_assoc. f_equal. cbn [flat_map]. f_equal. exact X1.
Qed.

Lemma recurse_spec m : recurse_ok m.
Proof.
  induction m using markup_ind'; intros a0 tl al Hr.
  - cbn in Hr. inversion Hr; subst. cbn [flat_map snd flat tags expand app].
    rewrite !app_nil_r. unfold zlen. rewrite Nat2Z.id. split; [reflexivity|split; [reflexivity|]].
    apply nonneg_cons; cbn [snd]; split; [lia | constructor].
  - cbn [tagmarkup_recurse] in Hr. cbn [flat tags]. now apply IHm.
  - rewrite recurse_lst in Hr.
    destruct (lst_loop_spec a0 ms H [] [] tl al (Forall_nil _) Hr) as (F & X & N).
    cbn [flat tags]. cbn in F, X. auto.
  - discriminate.
Qed.

Lemma join_pieces_spec tl b text : join_pieces tl = Ok (b, text) -> text = flat_map snd tl.
Proof.
  unfold join_pieces. destruct tl as [|[b0 c0] r]; [intro H; inversion H; reflexivity|].
  destruct (forallb _ _); [|discriminate]. intro H; inversion H; reflexivity.
Qed.

Lemma trim_none_tail_spec al : nonneg al ->
  exists k, expand al = expand (trim_none_tail al) ++ repeat None k /\ nonneg (trim_none_tail al) /\
            rle_len al = rle_len (trim_none_tail al) + Z.of_nat k.
Proof.
  induction al as [|[a n] t IH]; intro H.
  - exists 0%nat. cbn. auto.
  - apply nonneg_cons in H; cbn [snd] in H; destruct H as [H1 H2].
    destruct t as [|y t'].
    + destruct a as [v|].
      * exists 0%nat. cbn [trim_none_tail expand repeat rle_len]. rewrite !app_nil_r. split; [reflexivity|].
        split; [apply nonneg_cons; cbn; auto | lia].
      * exists (Z.to_nat n). cbn [trim_none_tail expand app rle_len]. rewrite app_nil_r. split; [reflexivity|].
        split; [constructor | lia].
    + destruct (IH H2) as (k & E & N & L). exists k.
      destruct a as [v|];
        [ change (trim_none_tail ((Some v, n) :: y :: t')) with ((Some v, n) :: trim_none_tail (y :: t'))
        | change (trim_none_tail ((None, n) :: y :: t')) with ((None, n) :: trim_none_tail (y :: t')) ];
        (set (l := y :: t') in *; cbn [expand rle_len]; rewrite E, <- app_assoc; split; [reflexivity|];
         split; [apply nonneg_cons; cbn [snd]; auto | cbn [rle_len] in L; lia]).
Qed.

Lemma length_tags m : forall a, length (tags m a) = length (flat m).
Proof.
  induction m using markup_ind'; intro a0; cbn [tags flat].
  - apply repeat_length.
  - apply IHm.
  - induction H as [|x r Hx Hr IH]; cbn [flat_map]; [reflexivity|].
    now rewrite !app_length, Hx, IH.
  - reflexivity.
Qed.

(* the property clause: text, attribute of every character, run-length bookkeeping *)
Lemma decompose_innermost m b text al : decompose_tagmarkup m = Ok (b, text, al) ->
  text = flat m /\
  nonneg al /\ rle_len al <= zlen text /\
  (exists k, expand al ++ repeat None k = tags m None) /\
  (forall i, 0 <= i < zlen text -> rle_get_at al i = nth (Z.to_nat i) (tags m None) None).
Proof.
  unfold decompose_tagmarkup.
  destruct (tagmarkup_recurse m None) as [[tl al0]|] eqn:E; [|discriminate].
  destruct (join_pieces tl) as [[b' text']|] eqn:J; [|discriminate].
  intro H; inversion H; subst b' text' al; clear H.
  destruct (recurse_spec m None tl al0 E) as (F & X & N).
  apply join_pieces_spec in J. subst text.
  destruct (trim_none_tail_spec al0 N) as (k & E2 & N2 & L).
  assert (Hlen : rle_len al0 = zlen (flat m)).
  { rewrite <- length_expand by assumption. rewrite X, length_tags. reflexivity. }
  split; [exact F|]. rewrite F. split; [exact N2|]. split; [lia|].
  split; [exists k; now rewrite <- E2, X|].
  intros i Hi. rewrite rle_get_at_expand by (assumption || lia).
  rewrite <- X, E2.
  destruct (Nat.lt_ge_cases (Z.to_nat i) (length (expand (trim_none_tail al0)))) as [Hlt|Hge].
  - now rewrite app_nth1.
  - rewrite nth_overflow by assumption. rewrite app_nth2 by assumption.
    symmetry. destruct (Nat.lt_ge_cases (Z.to_nat i - length (expand (trim_none_tail al0))) k).
    + now apply nth_repeat_lt.
    + apply nth_overflow. now rewrite repeat_length.
Qed.
