(* C20 - Scrollable.render on canvas objects, totality and the combined statement:
   for every state, every view of at least 1x1 and every well-formed wrapped canvas, render on the heap succeeds,
   leaves every pre-existing list object (the wrapped canvas included) untouched, leaves the state Model/Scrollable.s_render
   computes, and returns a canvas whose cells are exactly the slice the property describes. *)
From Coq Require Import ZArith List Bool Lia ZifyBool.
From Urwid Require Import PyBase Canvas CanvasGrid CanvasHeap CanvasFacts CanvasHoriz CanvasProg CanvasProgH
  CanvasHeapFrame CanvasHeapScope CanvasHeapRefine CanvasHeapSim
  ScrollBase scrollable_gen Scrollable ScrollCanvas ScrollableProofs ScrollCanvasProofs ScrollGridProofs.
Import ListNotations.
Open Scope Z_scope.
Arguments Z.add : simpl never. Arguments Z.sub : simpl never. Arguments Z.mul : simpl never.
Arguments Z.ltb : simpl never. Arguments Z.leb : simpl never. Arguments Z.eqb : simpl never.
Arguments Z.min : simpl never. Arguments Z.max : simpl never.

(* ------------------------------------------------------------------ errors are simulated too *)
Section SimErr.
  Context {A B : Type}.
  Variable OA : cops A.
  Variable OB : cops B.
  Variable R : A -> B -> Prop.
  Hypothesis R_cols : forall a b, R a b -> o_cols OA a = o_cols OB b.
  Hypothesis R_rows : forall a b, R a b -> o_rows OA a = o_rows OB b.
  Hypothesis R_cursor : forall a b, R a b -> o_cursor OA a = o_cursor OB b.
  Hypothesis R_padr : forall a b r a', R a b -> o_padr OA a r = Ok a' -> exists b', o_padr OB b r = Ok b' /\ R a' b'.
  Hypothesis R_padb : forall a b bo a', R a b -> o_padb OA a bo = Ok a' -> exists b', o_padb OB b bo = Ok b' /\ R a' b'.
  Hypothesis R_trim : forall a b t a', R a b -> o_trim OA a t = Ok a' -> exists b', o_trim OB b t = Ok b' /\ R a' b'.
  Hypothesis R_trim_end : forall a b e a', R a b -> o_trim_end OA a e = Ok a' -> exists b', o_trim_end OB b e = Ok b' /\ R a' b'.
  Hypothesis R_nocursor : forall a b a', R a b -> o_nocursor OA a = Ok a' -> exists b', o_nocursor OB b = Ok b' /\ R a' b'.
  Hypothesis E_padr : forall a b r e, R a b -> o_padr OA a r = Err e -> o_padr OB b r = Err e.
  Hypothesis E_padb : forall a b bo e, R a b -> o_padb OA a bo = Err e -> o_padb OB b bo = Err e.
  Hypothesis E_trim : forall a b t e, R a b -> o_trim OA a t = Err e -> o_trim OB b t = Err e.
  Hypothesis E_trim_end : forall a b x e, R a b -> o_trim_end OA a x = Err e -> o_trim_end OB b x = Err e.
  Hypothesis E_nocursor : forall a b e, R a b -> o_nocursor OA a = Err e -> o_nocursor OB b = Err e.

  Lemma when_both (c : bool) (fa : A -> result A) (fb : B -> result B) a b :
    (forall a0 b0 a1, R a0 b0 -> fa a0 = Ok a1 -> exists b1, fb b0 = Ok b1 /\ R a1 b1) ->
    (forall a0 b0 e, R a0 b0 -> fa a0 = Err e -> fb b0 = Err e) ->
    R a b ->
    match when c fa a with
    | Ok a' => exists b', when c fb b = Ok b' /\ R a' b'
    | Err e => when c fb b = Err e
    end.
  Proof.
    intros Hs He Hr. unfold when. destruct c.
    - destruct (fa a) as [a'|e] eqn:E; [exact (Hs _ _ _ Hr E)|exact (He _ _ _ Hr E)].
    - exists b. split; [reflexivity|exact Hr].
  Qed.

  Lemma skel_sim_err st maxcol maxrow sel fc a b e :
    R a b ->
    render_skel OA st maxcol maxrow sel fc a = Err e ->
    render_skel OB st maxcol maxrow sel fc b = Err e.
  Proof.
    intros Hr. unfold render_skel.
    rewrite <- (R_cols _ _ Hr), <- (R_rows _ _ Hr).
    pose proof (when_both ((o_cols OA a <=? maxcol) && (0 <? maxcol - o_cols OA a))
                  (fun c => o_padr OA c (maxcol - o_cols OA a)) (fun c => o_padr OB c (maxcol - o_cols OA a)) a b
                  (fun a0 b0 a1 H => R_padr a0 b0 _ a1 H) (fun a0 b0 e0 H => E_padr a0 b0 _ e0 H) Hr) as W1.
    destruct (when _ _ a) as [a1|e1]; [destruct W1 as (b1 & -> & R1)|rewrite W1; intros [= ->]; reflexivity].
    pose proof (when_both ((o_rows OA a <=? maxrow) && (0 <? maxrow - o_rows OA a))
                  (fun c => o_padb OA c (maxrow - o_rows OA a)) (fun c => o_padb OB c (maxrow - o_rows OA a)) a1 b1
                  (fun a0 b0 a2 H => R_padb a0 b0 _ a2 H) (fun a0 b0 e0 H => E_padb a0 b0 _ e0 H) R1) as W2.
    destruct (when _ _ a1) as [a2|e2]; [destruct W2 as (b2 & -> & R2)|rewrite W2; intros [= ->]; reflexivity].
    destruct ((o_cols OA a <=? maxcol) && (o_rows OA a <=? maxrow)); [discriminate|].
    rewrite <- (R_rows _ _ R2), <- (R_cursor _ _ R2).
    destruct (adjust_trim_top_gen _ _ _ _ _ _) as [[tp act] old].
    pose proof (when_both (0 <? tp) (fun c => o_trim OA c tp) (fun c => o_trim OB c tp) a2 b2
                  (fun a0 b0 a3 H => R_trim a0 b0 _ a3 H) (fun a0 b0 e0 H => E_trim a0 b0 _ e0 H) R2) as W3.
    destruct (when (0 <? tp) _ a2) as [a3|e3]; [destruct W3 as (b3 & -> & R3)|rewrite W3; intros [= ->]; reflexivity].
    pose proof (when_both (0 <? o_rows OA a - maxrow - tp) (fun c => o_trim_end OA c (o_rows OA a - maxrow - tp))
                  (fun c => o_trim_end OB c (o_rows OA a - maxrow - tp)) a3 b3
                  (fun a0 b0 a4 H => R_trim_end a0 b0 _ a4 H) (fun a0 b0 e0 H => E_trim_end a0 b0 _ e0 H) R3) as W4.
    destruct (when (0 <? o_rows OA a - maxrow - tp) _ a3) as [a4|e4]; [destruct W4 as (b4 & -> & R4)|rewrite W4; intros [= ->]; reflexivity].
    pose proof (when_both (0 <? o_cols OA a - maxcol) (fun c => o_padr OA c (- (o_cols OA a - maxcol)))
                  (fun c => o_padr OB c (- (o_cols OA a - maxcol))) a4 b4
                  (fun a0 b0 a5 H => R_padr a0 b0 _ a5 H) (fun a0 b0 e0 H => E_padr a0 b0 _ e0 H) R4) as W5.
    destruct (when (0 <? o_cols OA a - maxcol) _ a4) as [a5|e5]; [destruct W5 as (b5 & -> & R5)|rewrite W5; intros [= ->]; reflexivity].
    rewrite <- (R_cursor _ _ R5).
    pose proof (when_both (match o_cursor OA a5 with Some (_, y) => (maxrow <=? y) || (y <? 0) | None => false end)
                  (o_nocursor OA) (o_nocursor OB) a5 b5 R_nocursor E_nocursor R5) as W6.
    destruct (when _ (o_nocursor OA) a5) as [a6|e6]; [discriminate|rewrite W6; intros [= ->]; reflexivity].
  Qed.
End SimErr.

(* ------------------------------------------------------------------ heap layer: errors refine too *)
Lemma sh_render_err st maxcol maxrow sel h v e :
  vscoped h v ->
  sh_render st maxcol maxrow sel h v = Err e ->
  sc_render st maxcol maxrow sel (to_value h v) = Err e.
Proof.
  intros Hv. unfold sh_render, sc_render.
  destruct (h_wrap h v) as [[h0 c0]|e0] eqn:Ew.
  - rewrite (h_wrap_ref _ _ _ _ Ew). destruct (h_wrap_ext _ _ _ _ Ew) as [X0 _]. pose proof (h_wrap_scoped _ _ _ _ Ew Hv) as S0.
    apply (skel_sim_err heap_ops comp_ops (R_heap h)); unfold R_heap;
      cbn [heap_ops comp_ops o_cols o_rows o_cursor o_padr o_padb o_trim o_trim_end o_nocursor].
    + intros [h1 c] b (_ & _ & <-). reflexivity.
    + intros [h1 c] b (_ & _ & <-). reflexivity.
    + intros [h1 c] b (_ & _ & <-). reflexivity.
    + intros [h1 c] b r [h' c'] (X & S & <-) H. cbn [fst snd] in *.
      exists (to_comp h' c'). split; [exact (h_pad_lr_ref _ _ _ _ _ _ H S)|]. cbn [fst snd].
      split; [exact (hext_trans _ _ _ X (h_pad_lr_ext _ _ _ _ _ _ H))|]. split; [exact (h_pad_lr_scoped _ _ _ _ _ _ H S)|reflexivity].
    + intros [h1 c] b bo [h' c'] (X & S & <-) H. cbn [fst snd] in *.
      exists (to_comp h' c'). split; [exact (h_pad_tb_ref _ _ _ _ _ _ H S)|]. cbn [fst snd].
      split; [exact (hext_trans _ _ _ X (h_pad_tb_ext _ _ _ _ _ _ H))|]. split; [exact (h_pad_tb_scoped _ _ _ _ _ _ H S)|reflexivity].
    + intros [h1 c] b t [h' c'] (X & S & <-) H. cbn [fst snd] in *.
      exists (to_comp h' c'). split; [exact (h_trim_ref _ _ _ _ _ _ H S)|]. cbn [fst snd].
      split; [exact (hext_trans _ _ _ X (proj1 (h_trim_ext _ _ _ _ _ _ H)))|]. split; [exact (h_trim_scoped _ _ _ _ _ _ H S)|reflexivity].
    + intros [h1 c] b x [h' c'] (X & S & <-) H. cbn [fst snd] in *.
      exists (to_comp h' c'). split; [exact (h_trim_end_ref _ _ _ _ _ H)|]. cbn [fst snd].
      split; [exact (hext_trans _ _ _ X (h_trim_end_ext _ _ _ _ _ H))|]. split; [exact (h_trim_end_scoped _ _ _ _ _ H)|reflexivity].
    + intros [h1 c] b [h' c'] (X & S & <-) H. cbn [fst snd] in *.
      exists (to_comp h' c'). split; [exact (h_same_ref _ _ _ _ _ set_cursor_keeps_shards H)|]. cbn [fst snd].
      split; [exact (hext_trans _ _ _ X (h_same_ext _ _ _ _ _ H))|]. split; [exact (h_same_scoped _ _ _ _ _ H S)|reflexivity].
    + intros [h1 c] b r e1 (_ & _ & <-) H. cbn [fst snd] in *. exact (h_pad_lr_err _ _ _ _ _ H).
    + intros [h1 c] b bo e1 (_ & _ & <-) H. cbn [fst snd] in *. exact (h_pad_tb_err _ _ _ _ _ H).
    + intros [h1 c] b t e1 (_ & _ & <-) H. cbn [fst snd] in *. exact (h_trim_err _ _ _ _ _ H).
    + intros [h1 c] b x e1 (_ & _ & <-) H. cbn [fst snd] in *. exact (h_trim_end_err _ _ _ _ H).
    + intros [h1 c] b e1 (_ & _ & <-) H. cbn [fst snd] in *. exact (h_same_err _ _ _ _ H).
    + cbn [fst snd]. split; [exact X0|]. split; [exact S0|reflexivity].
  - rewrite (h_wrap_err _ _ _ Ew). intros [= ->]. reflexivity.
Qed.

(* ------------------------------------------------------------------ everything together *)
Theorem sh_render_total st maxcol maxrow sel h v gv :
  1 <= maxrow -> 1 <= maxcol ->
  vscoped h v -> vrel (to_value h v) gv ->
  grect (gg gv) -> gclean (gg gv) -> cursor_ok (cur (gco gv)) (gheight (gg gv)) ->
  exists st' h' c' vw,
    (* it never raises *)
    sh_render st maxcol maxrow sel h v = Ok (st', (h', c')) /\
    (* it modifies no list object that existed before: the wrapped widget's canvas is what it was *)
    hext h h' /\ to_value h' v = to_value h v /\
    (* the canvas it returns shows exactly rows [p, p+maxrow) x columns [0, maxcol) of the wrapped canvas, blank padded *)
    content (deref h' (hid c')) = Ok (spec_grid (gg gv) (trim_top st') maxcol maxrow) /\
    0 <= trim_top st' <= Z.max 0 (gheight (gg gv) - maxrow) /\
    (* and the state is the one the sizes-only model (the one tied to the code by the correspondence) computes *)
    s_render st maxcol maxrow (ob_of_grid gv sel) = Ok (st', vw) /\ v_top vw = trim_top st'.
Proof.
  intros Hmr Hmc Hv V G Cl Hcur. destruct gv as [g co fi lf]. cbn [gg gco] in *.
  destruct (sg_render_spec st maxcol maxrow sel g co fi lf Hmr Hmc G Cl Hcur) as (st' & g' & Eg & Sg & Rg).
  destruct (sc_render_refines_grid st maxcol maxrow sel _ _ st' g' V Eg) as (c0 & Ec & V0).
  destruct (sg_render_is_s_render st maxcol maxrow sel (GV g co fi lf) st' g' G Eg) as (vw & Es & _).
  destruct (sh_render st maxcol maxrow sel h v) as [[st2 [h' c']]|e] eqn:Eh.
  - destruct (sh_render_frame st maxcol maxrow sel h v st2 h' c' Hv Eh) as (Ec' & X & T).
    rewrite Ec in Ec'. injection Ec' as <- ->.
    exists st', h', c', vw. split; [reflexivity|]. split; [exact X|]. split; [exact T|].
    destruct V0 as (_ & _ & C & _). cbn [to_comp cshards] in C. split; [rewrite C, Sg; reflexivity|].
    split; [exact Rg|]. split; [exact Es|].
    assert (Hob : ob_ok (ob_of_grid (GV g co fi lf) sel)).
    { unfold ob_ok, ob_of_grid. cbn [c_rows c_cols c_cursor gg gco]. destruct G as (A1 & A2 & _). repeat split; try lia. exact Hcur. }
    destruct (s_render_reports _ _ _ _ _ _ Hmr Hob Es) as (T' & _). symmetry. exact T'.
  - pose proof (sh_render_err st maxcol maxrow sel h v e Hv Eh) as Ee. rewrite Ec in Ee. discriminate.
Qed.
