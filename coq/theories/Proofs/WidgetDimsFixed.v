(* C01 - FIXED sizing: render(()) has exactly the size pack(()) reports.  Proved for leaves (hypothesis),
   AttrMap / LineBox delegation, Padding (given or pack width; NOT for the combinations of the known
   finding "fixed Padding: pack(()) differs from render(())": a min_width above the child's width, a
   relative width) and Overlay with a given or relative width.  BoxAdapter, Filler and Frame never
   claim FIXED sizing.  Pile and Columns in fixed mode are not proved. *)
From Coq Require Import ZArith List Bool Lia ZifyBool.
Import ListNotations.
From Urwid Require Import WidgetDims WidgetDimsProofs WidgetDimsOverlay.
Open Scope Z_scope.

Arguments Z.add : simpl never.
Arguments Z.sub : simpl never.
Arguments Z.mul : simpl never.
Arguments Z.quot : simpl never.
Arguments Z.div : simpl never.
Arguments Z.ltb : simpl never.
Arguments Z.leb : simpl never.
Arguments Z.eqb : simpl never.
Arguments Z.max : simpl never.
Arguments Z.min : simpl never.

Record GoodFx (s : sem) : Prop := mkGoodFx {
  gx_pack : s_fixed (m_sizing s) = true -> forall f,
            match m_pack s SFixed f with Ok (w, h) => 1 <= w /\ 1 <= h | Err e => soft e end;
  gx_render : s_fixed (m_sizing s) = true -> forall f,
            match m_render s SFixed f with Ok d => meets s SFixed f d | Err e => soft e end
}.

Lemma nofixed_fx s : s_fixed (m_sizing s) = false -> GoodFx s.
Proof. intros H. constructor; intros H'; congruence. Qed.

Lemma attr_fx s : GoodFx s -> GoodFx (attr_sem s).
Proof.
  intros G. constructor; cbn [attr_sem m_sizing m_pack m_render]; intros Hs f.
  - apply (gx_pack s G Hs f).
  - unfold wrap_render. cbn [degenerate]. pose proof (gx_render s G Hs f) as R.
    destruct (m_render s SFixed f) as [d|e]; cbn; [|exact R]. exact R.
Qed.

(* calculate_left_right_padding when the space is exactly the widget plus its margins *)
Lemma clrp_exact w a mw l r :
  0 <= l -> 0 <= r -> clrp (w + l + r) a (WGiven w) w mw l r = (l, r).
Proof.
  intros Hl Hr. unfold clrp.
  replace (w + l + r - w - l - r + 1) with 1 by lia. rewrite int_scale_one.
  replace (r + 0) with r by lia. replace (w + l + r - w - r) with l by lia.
  replace ((r <? 0) && (0 <? l)) with false by lia.
  replace ((l <? 0) && (0 <? r)) with false by lia.
  replace ((l <? 0) || (r <? 0)) with false by lia. reflexivity.
Qed.

(* the Padding options for which pack(()) and render(()) agree (everything else is the known finding) *)
Definition padfix_ok (wt : wtype) (mw : option Z) : Prop :=
  match wt with
  | WGiven n => match mw with None => True | Some m => m <= n end
  | WPack => match mw with None => True | Some m => m <= 1 end
  | _ => False
  end.

Lemma padding_fx s align wt mw l r :
  Good s -> (wt = WPack -> GoodFx s) -> padfix_ok wt mw -> padding_child_ok (m_sizing s) wt = true -> 0 <= l -> 0 <= r ->
  GoodFx (padding_sem s align wt mw l r).
Proof.
  intros G GX HP Hok Hl Hr. unfold padding_sem.
  constructor; cbn [mk_node m_sizing m_pack m_render degenerate]; intros Hs f.
  - (* pack(()) *)
    unfold padding_pack_fixed. destruct wt as [n| | |pct]; try contradiction; cbn in Hok, Hs, HP.
    + assert (Hn : 1 <= n) by lia.
      assert (Hfl : s_flow (m_sizing s) = true).
      { destruct (s_flow (m_sizing s)) eqn:E; [reflexivity|]. unfold impb in Hok. lia. }
      pose proof (g_rows s G n f Hfl Hn) as R. destruct (m_rows s n f); cbn; [|exact R].
      unfold omin. destruct mw as [m|]; [destruct (m =? 0)|]; lia.
    + specialize (GX eq_refl). pose proof (gx_pack s GX Hs f) as P. destruct (m_pack s SFixed f) as [[w h]|e]; cbn; [|exact P].
      unfold omin. destruct mw as [m|]; [destruct (m =? 0)|]; lia.
  - (* render(()) *)
    unfold wrap_render. cbn [degenerate]. unfold padding_render, padding_values, padding_pack_fixed, meets.
    cbn [mk_node m_pack degenerate].
    destruct wt as [n| | |pct]; try contradiction; cbn in Hok, Hs, HP.
    + assert (Hn : 1 <= n) by lia.
      assert (Hfl : s_flow (m_sizing s) = true).
      { destruct (s_flow (m_sizing s)) eqn:E; [reflexivity|]. unfold impb in Hok. lia. }
      cbn [bind]. rewrite clrp_exact by lia.
      pose proof (g_flow s G n f Hfl Hn) as F.
      destruct (m_render s (SFlow n) f) as [d|e]; cbn [bind]; [|exact F].
      destruct F as [[F1 F2] [F3 F4]].
      replace (cc d =? 0) with false by lia.
      assert (EM : Z.max n (omin mw 1) = n).
      { unfold omin. destruct mw as [m|]; [destruct (m =? 0)|]; lia. }
      destruct ((negb (l =? 0)) || (negb (r =? 0))) eqn:ELR.
      * rewrite pad_lr_nonneg by lia. pose proof (inside_pad_lr d l r Hl Hr F4) as IP.
        cbn [validate bind cc cr rect] in *. rewrite F2. cbn [bind]. rewrite EM. repeat split; auto. f_equal. f_equal. lia.
      * cbn [validate bind]. rewrite F2. cbn [bind]. rewrite EM. repeat split; auto. f_equal. f_equal. lia.
    + specialize (GX eq_refl). pose proof (gx_pack s GX Hs f) as P. pose proof (gx_render s GX Hs f) as R.
      destruct (m_pack s SFixed f) as [[w h]|e] eqn:EP; cbn [bind fst snd]; [|exact P].
      rewrite clrp_exact by lia.
      destruct (m_render s SFixed f) as [d|e]; cbn [bind]; [|exact R].
      destruct R as [R1 [R2 R3]]. rewrite EP in R1. inversion R1; subst w h.
      replace (cc d =? 0) with false by lia.
      assert (EM : Z.max (cc d) (omin mw 1) = cc d).
      { unfold omin. destruct mw as [m|]; [destruct (m =? 0)|]; lia. }
      destruct ((negb (l =? 0)) || (negb (r =? 0))) eqn:ELR.
      * rewrite pad_lr_nonneg by lia. pose proof (inside_pad_lr d l r Hl Hr R3) as IP.
        cbn [validate bind cc cr rect] in *. rewrite EM. repeat split; auto.
      * cbn [validate bind]. rewrite EM. repeat split; auto. f_equal. f_equal. lia.
Qed.

(* ------------------------------------------------------------------ Overlay (given / relative width) *)
Definition overlay_given_fx (p : ovp) : Prop :=
  overlay_given p
  /\ match ov_wt p with
     | WRelative pct => pct <= 100 /\ match ov_minw p with Some m => 0 <= m | None => True end
     | _ => True
     end.

Lemma round_half_pos m pct : 1 <= m -> 1 <= pct <= 100 -> 1 <= round_half (m * 100) pct.
Proof. intros. unfold round_half. apply Z.quot_le_lower_bound; lia. Qed.

Lemma overlay_pack_fixed_ok t p f :
  Good t -> overlay_given_fx p -> overlay_top_ok (m_sizing t) p = true ->
  s_fixed (overlay_sizing (m_sizing t) p) = true ->
  match overlay_pack_fixed t p f with Ok (c, r) => 1 <= c /\ 1 <= r | Err e => soft e end.
Proof.
  intros Gt [[Hw [Hl [Hrg [Htp [Hbt Hh]]]]] Hx] Hok Hs.
  unfold overlay_pack_fixed, overlay_sizing, overlay_top_ok in *.
  destruct (ov_wt p) as [n| | |pct] eqn:EW; try contradiction; cbn [wt_amount] in *.
  - (* given width *)
    replace (n =? 0) with false by lia. cbn [bind].
    destruct (ov_ht p) as [m| |hp] eqn:EH; cbn in Hs, Hok, Hh |- *.
    + replace (m =? 0) with false by lia. lia.
    + assert (Hfl : s_flow (m_sizing t) = true).
      { destruct (s_flow (m_sizing t)); [reflexivity|discriminate]. }
      pose proof (g_rows t Gt n f Hfl Hw) as R. destruct (m_rows t n f); cbn; [lia|exact R].
    + destruct (osome (ov_minh p)) eqn:EO.
      * replace (hp =? 0) with false by lia.
        unfold osome in EO. destruct (ov_minh p) as [mh|]; [|discriminate]. cbn.
        assert (1 <= mh) by lia. replace (mh =? 0) with false by lia.
        split; [lia|]. apply round_half_pos; lia.
      * rewrite andb_false_r in Hs. discriminate.
  - (* relative width *)
    replace (pct =? 0) with false by lia.
    destruct (osome (ov_minw p)) eqn:EM.
    2:{ destruct (ov_ht p); cbn in Hs; try rewrite andb_false_r in Hs;
          try (destruct (s_flow (m_sizing t)); discriminate);
          try (destruct (negb (_ =? 0) && _); [destruct (s_box (m_sizing t))|]; cbn in Hs; try rewrite andb_false_r in Hs; discriminate). }
    unfold osome in EM. destruct (ov_minw p) as [mw|]; [|discriminate]. cbn [omin bind].
    assert (1 <= mw) by lia. replace (mw =? 0) with false by lia.
    pose proof (round_half_pos mw pct ltac:(lia) ltac:(lia)) as RP.
    destruct (ov_ht p) as [m| |hp] eqn:EH; cbn in Hs, Hok, Hh |- *.
    + replace (m =? 0) with false by lia. lia.
    + assert (Hfl : s_flow (m_sizing t) = true).
      { destruct (s_flow (m_sizing t)); [reflexivity|discriminate]. }
      pose proof (g_rows t Gt mw f Hfl ltac:(lia)) as R. destruct (m_rows t mw f); cbn; [lia|exact R].
    + destruct (osome (ov_minh p)) eqn:EO.
      * replace (hp =? 0) with false by lia.
        unfold osome in EO. destruct (ov_minh p) as [mh|]; [|discriminate]. cbn.
        assert (1 <= mh) by lia. replace (mh =? 0) with false by lia.
        split; [lia|]. apply round_half_pos; lia.
      * rewrite andb_false_r in Hs. discriminate.
Qed.

Lemma overlay_fx t b p :
  Good t -> (exists nb, GoodN nb b) -> s_box (m_sizing b) = true -> overlay_given_fx p ->
  overlay_top_ok (m_sizing t) p = true -> GoodFx (overlay_sem t b p).
Proof.
  intros Gt Gb Hb Hg Hok.
  constructor; cbn [overlay_sem m_sizing m_pack m_render degenerate]; intros Hs f.
  - apply overlay_pack_fixed_ok; auto.
  - unfold wrap_render. cbn [degenerate]. rewrite overlay_render_unfold. cbn [degenerate].
    unfold meets. cbn [overlay_sem m_pack degenerate].
    pose proof (overlay_pack_fixed_ok t p f Gt Hg Hok Hs) as P.
    destruct (overlay_pack_fixed t p f) as [[c r]|e]; cbn [bind fst snd]; [|exact P].
    destruct P as [Hc Hr].
    pose proof (overlay_body_ok 1 t b p c r f ltac:(lia) Gt Gb Hb (proj1 Hg) Hok Hc Hr) as B.
    destruct (overlay_body t b p c r f) as [d|e]; cbn [bind validate]; [|exact B].
    destruct B as [B1 [B2 [B3 B4]]]. repeat split; auto. congruence.
Qed.
