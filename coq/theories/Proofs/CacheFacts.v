(* Facts about the association lists of Model/Cache.v and about the cache-only operations
   (store, drop_entries, invalidate, cleanup).  No widget-rendering content here. *)
From Coq Require Import ZArith List Bool Lia.
Import ListNotations.
From Urwid Require Import PyBase Cache.
Open Scope Z_scope.
Arguments Z.add : simpl never.
Arguments Z.sub : simpl never.
Arguments Z.eqb : simpl never.
Arguments Z.ltb : simpl never.

Section AL.
  Variable V : Type.
  Implicit Types l : list (Z * V).

  Lemma alookup_aremove l x y : alookup (aremove l x) y = if x =? y then None else alookup l y.
  Proof.
    induction l as [|[z v] r IH]; cbn [aremove alookup].
    - destruct (x =? y); reflexivity.
    - destruct (z =? x) eqn:E1.
      + rewrite IH. destruct (x =? y) eqn:E2; [reflexivity|].
        destruct (z =? y) eqn:E3; [|reflexivity].
        apply Z.eqb_eq in E1, E3. subst. rewrite Z.eqb_refl in E2. discriminate.
      + cbn [alookup]. destruct (z =? y) eqn:E3.
        * destruct (x =? y) eqn:E2; [|reflexivity].
          apply Z.eqb_eq in E2, E3. subst. rewrite Z.eqb_refl in E1. discriminate.
        * apply IH.
  Qed.

  Lemma alookup_aset l x v y : alookup (aset l x v) y = if x =? y then Some v else alookup l y.
  Proof.
    unfold aset. cbn [alookup]. destruct (x =? y) eqn:E; [reflexivity|].
    rewrite alookup_aremove, E. reflexivity.
  Qed.

  Lemma aremove_length l x : (length (aremove l x) <= length l)%nat.
  Proof.
    induction l as [|[z v] r IH]; cbn [aremove length]; [lia|].
    destruct (z =? x); cbn [length]; lia.
  Qed.

  Lemma aremove_length_lt l x v : alookup l x = Some v -> (length (aremove l x) < length l)%nat.
  Proof.
    induction l as [|[z w] r IH]; cbn [aremove alookup length]; [discriminate|].
    destruct (z =? x); intros H.
    - pose proof (aremove_length r x). lia.
    - cbn [length]. specialize (IH H). lia.
  Qed.

  Lemma aremove_nil_lookup l x y : aremove l x = [] -> x <> y -> alookup l y = None.
  Proof.
    intros H N. pose proof (alookup_aremove l x y) as A. rewrite H in A. cbn in A.
    destruct (x =? y) eqn:E; [apply Z.eqb_eq in E; contradiction|]. symmetry. exact A.
  Qed.
End AL.
Arguments alookup_aremove {V}.
Arguments alookup_aset {V}.
Arguments aremove_length {V}.
Arguments aremove_length_lt {V}.
Arguments aremove_nil_lookup {V}.

Lemma eqb_sym_false x y : (x =? y) = false -> (y =? x) = false.
Proof. rewrite Z.eqb_sym. auto. Qed.

Definition olz_eq_dec : forall a b : option (list Z), {a = b} + {a <> b}.
Proof. decide equality. apply list_eq_dec. apply Z.eq_dec. Defined.

(* keys of a dict are unique *)
Definition nodupkeys {V} (l : list (Z * V)) : Prop := NoDup (map fst l).

Lemma in_aremove {V} (l : list (Z * V)) x e : In e (aremove l x) -> In e l /\ fst e <> x.
Proof.
  induction l as [|[z v] r IH]; cbn [aremove]; [intros []|].
  destruct (z =? x) eqn:E.
  - intros H. destruct (IH H). split; [right|]; assumption.
  - cbn [In]. intros [H|H].
    + subst e. split; [left; reflexivity|]. cbn. apply Z.eqb_neq. exact E.
    + destruct (IH H). split; [right|]; assumption.
Qed.

Lemma nodupkeys_aremove {V} (l : list (Z * V)) x : nodupkeys l -> nodupkeys (aremove l x).
Proof.
  unfold nodupkeys. induction l as [|[z v] r IH]; cbn [aremove map]; [auto|].
  intros H. inversion H as [|? ? N D]. subst. destruct (z =? x); [auto|].
  cbn [map fst]. constructor; [|auto].
  intros I. apply in_map_iff in I. destruct I as [e [E I]]. apply in_aremove in I. destruct I as [I _].
  apply N. apply in_map_iff. exists e. auto.
Qed.

Lemma nodupkeys_aset {V} (l : list (Z * V)) x v : nodupkeys l -> nodupkeys (aset l x v).
Proof.
  intros H. unfold aset, nodupkeys. cbn [map fst]. constructor.
  - intros I. apply in_map_iff in I. destruct I as [e [E I]]. apply in_aremove in I. destruct I as [_ N]. contradiction.
  - apply nodupkeys_aremove. exact H.
Qed.

Lemma alookup_in {V} (l : list (Z * V)) k v : alookup l k = Some v -> In (k, v) l.
Proof.
  induction l as [|[z u] r IH]; cbn [alookup]; [discriminate|].
  destruct (z =? k) eqn:E; intros H.
  - apply Z.eqb_eq in E. inversion H. subst. left. reflexivity.
  - right. auto.
Qed.

Lemma in_alookup {V} (l : list (Z * V)) k v : nodupkeys l -> In (k, v) l -> alookup l k = Some v.
Proof.
  unfold nodupkeys. induction l as [|[z u] r IH]; cbn [alookup map In]; [tauto|].
  intros H I. inversion H as [|? ? N D]. subst. destruct I as [E|I].
  - inversion E. subst. rewrite Z.eqb_refl. reflexivity.
  - destruct (z =? k) eqn:E.
    + apply Z.eqb_eq in E. subst. exfalso. apply N. apply in_map_iff. exists (k, v). auto.
    + auto.
Qed.

(* ---------- reading the cache ---------- *)
Definition lookup2 (c : cache) (w : widget) (k : key) : option cid := alookup (sizes_of c w) k.
Record RefsOK (c : cache) : Prop := {
  refs_fwd : forall r w k, alookup (refs c) r = Some (w, k) -> lookup2 c w k = Some r;
  refs_bwd : forall w k r, lookup2 c w k = Some r -> alookup (refs c) r = Some (w, k);
  sizes_nd : forall w, nodupkeys (sizes_of c w) }.

Lemma lookup2_has c w k r : lookup2 c w k = Some r -> alookup (widgets c) w <> None.
Proof. unfold lookup2, sizes_of. destruct (alookup (widgets c) w); [discriminate|cbn; discriminate]. Qed.

Lemma lookup2_same_widgets c c' w k :
  alookup (widgets c') w = alookup (widgets c) w -> lookup2 c' w k = lookup2 c w k.
Proof. unfold lookup2, sizes_of. intros ->. reflexivity. Qed.

Lemma deps_of_same c c' w : alookup (deps c') w = alookup (deps c) w -> deps_of c' w = deps_of c w.
Proof. unfold deps_of. intros ->. reflexivity. Qed.

(* ---------- del cls._refs[ref] for every ref of a widget ---------- *)
Lemma alookup_drop_refs (l : list (Z * cid)) (rs : list (Z * (widget * key))) x :
  alookup (fold_left (fun r e => aremove r (snd e)) l rs) x
  = if existsb (fun e => snd e =? x) l then None else alookup rs x.
Proof.
  revert rs. induction l as [|e l IH]; intros rs; cbn [fold_left existsb]; [reflexivity|].
  rewrite IH. destruct (existsb (fun e0 => snd e0 =? x) l) eqn:E.
  - rewrite orb_true_r. reflexivity.
  - rewrite orb_false_r. rewrite alookup_aremove. reflexivity.
Qed.

Lemma existsb_values (l : list (Z * cid)) x :
  existsb (fun e => snd e =? x) l = true <-> exists k, In (k, x) l.
Proof.
  rewrite existsb_exists. split.
  - intros [[k v] [I E]]. cbn in E. apply Z.eqb_eq in E. subst. eauto.
  - intros [k I]. exists (k, x). split; [exact I|cbn; apply Z.eqb_refl].
Qed.

(* ---------- drop_entries ---------- *)
Lemma drop_widgets c w x :
  alookup (widgets (drop_entries c w)) x = if w =? x then None else alookup (widgets c) x.
Proof. unfold drop_entries. cbn [widgets]. apply alookup_aremove. Qed.

Lemma drop_sizes c w x : sizes_of (drop_entries c w) x = if w =? x then [] else sizes_of c x.
Proof. unfold sizes_of. rewrite drop_widgets. destruct (w =? x); reflexivity. Qed.

Lemma drop_lookup2 c w x k :
  lookup2 (drop_entries c w) x k = if w =? x then None else lookup2 c x k.
Proof. unfold lookup2. rewrite drop_sizes. destruct (w =? x); reflexivity. Qed.

Lemma drop_refsok c w : RefsOK c -> RefsOK (drop_entries c w).
Proof.
  intros [A B N]. split.
  - intros r x k H. unfold drop_entries in H. cbn [refs] in H. rewrite alookup_drop_refs in H.
    destruct (existsb (fun e => snd e =? r) (sizes_of c w)) eqn:E; [discriminate|].
    rewrite drop_lookup2. destruct (w =? x) eqn:Ewx.
    + apply Z.eqb_eq in Ewx. subst x. exfalso.
      apply A in H. apply alookup_in in H.
      assert (existsb (fun e => snd e =? r) (sizes_of c w) = true) as T by (apply existsb_values; eauto).
      congruence.
    + apply A. exact H.
  - intros x k r H. rewrite drop_lookup2 in H. destruct (w =? x) eqn:Ewx; [discriminate|].
    unfold drop_entries. cbn [refs]. rewrite alookup_drop_refs.
    destruct (existsb (fun e => snd e =? r) (sizes_of c w)) eqn:E.
    + exfalso. apply existsb_values in E. destruct E as [k0 I].
      apply (in_alookup _ _ _ (N w)) in I.
      pose proof (B _ _ _ H) as R1. pose proof (B w k0 r I) as R2.
      rewrite R1 in R2. inversion R2. subst. rewrite Z.eqb_refl in Ewx. discriminate.
    + apply B. exact H.
  - intros x. rewrite drop_sizes. destruct (w =? x); [constructor|apply N].
Qed.

(* ---------- CanvasCache.invalidate ----------
   What one complete call does, as a relation between the cache before and after. *)
Record Post (a b : cache) : Prop := {
  (* entries disappear per widget, never change *)
  p_widgets : forall x, alookup (widgets b) x = alookup (widgets a) x \/ alookup (widgets b) x = None;
  p_deps : forall x, alookup (deps b) x = alookup (deps a) x \/ alookup (deps b) x = None;
  (* a dependants list is deleted only for a widget whose entries are deleted *)
  p_deps_changed : forall x, alookup (deps b) x <> alookup (deps a) x -> alookup (widgets b) x = None;
  (* the cascade: when a widget loses its entries so does every dependant it had *)
  p_closed : forall x p, alookup (widgets a) x <> None -> alookup (widgets b) x = None ->
                         In p (deps_of a x) -> alookup (widgets b) p = None }.

Lemma Post_refl a : Post a a.
Proof. split; auto. - intros x H. contradiction. - intros x p H1 H2. contradiction. Qed.

Lemma Post_trans a b c : Post a b -> Post b c -> Post a c.
Proof.
  intros [A1 A2 A5 AC] [B1 B2 B5 BC]. split.
  - intros x. destruct (B1 x) as [E|E]; [rewrite E; apply A1|right; exact E].
  - intros x. destruct (B2 x) as [E|E]; [rewrite E; apply A2|right; exact E].
  - intros x H. destruct (olz_eq_dec (alookup (deps b) x) (alookup (deps a) x)) as [E|E].
    + apply B5. rewrite E. exact H.
    + specialize (A5 x E). destruct (B1 x) as [E1|E1]; congruence.
  - intros x p Ha Hc I.
    destruct (alookup (widgets b) x) eqn:Hb.
    + (* x still had its entries after the first part: its dependants list was intact *)
      destruct (olz_eq_dec (alookup (deps b) x) (alookup (deps a) x)) as [E|E].
      * apply (BC x p); [congruence|exact Hc|]. unfold deps_of in *. rewrite E. exact I.
      * specialize (A5 x E). congruence.
    + specialize (AC x p Ha Hb I). destruct (B1 p) as [E1|E1]; congruence.
Qed.

Lemma Post_none_stays a b x : Post a b -> alookup (widgets a) x = None -> alookup (widgets b) x = None.
Proof. intros [A1 _ _ _] H. destruct (A1 x) as [E|E]; congruence. Qed.

(* the loop over the dependants *)
Lemma invalidate_fold_spec (m : nat) :
  (forall c w c', invalidate m c w = Some c' -> Post c c' /\ alookup (widgets c') w = None /\ (RefsOK c -> RefsOK c')) ->
  forall ds c c',
    fold_left (fun acc d => match acc with None => None | Some c0 => invalidate m c0 d end) ds (Some c) = Some c' ->
    Post c c' /\ (forall d, In d ds -> alookup (widgets c') d = None) /\ (RefsOK c -> RefsOK c').
Proof.
  intros IH. induction ds as [|d ds IHds]; intros c c' H; cbn [fold_left] in H.
  - inversion H. subst. split; [apply Post_refl|]. split; [intros d []|auto].
  - destruct (invalidate m c d) as [c1|] eqn:E.
    + destruct (IH _ _ _ E) as [P1 [N1 R1]]. destruct (IHds _ _ H) as [P2 [N2 R2]].
      split; [eapply Post_trans; eauto|]. split; [|auto].
      intros d0 [->|I]; [eapply Post_none_stays; eauto|auto].
    + exfalso. clear -H. induction ds; cbn in H; [discriminate|auto].
Qed.

Lemma invalidate_spec n : forall c w c',
  invalidate n c w = Some c' ->
  Post c c' /\ alookup (widgets c') w = None /\ (RefsOK c -> RefsOK c').
Proof.
  induction n as [|m IH]; intros c w c' H.
  - cbn [invalidate] in H.
    destruct (alookup (deps (drop_entries c w)) w) eqn:D; [discriminate|].
    inversion H. subst c'. clear H. unfold drop_entries in D. cbn [deps] in D.
    split; [|split; [rewrite drop_widgets, Z.eqb_refl; reflexivity|apply drop_refsok]].
    split.
    + intros x. rewrite drop_widgets. destruct (w =? x); auto.
    + intros x. left. reflexivity.
    + intros x H. exfalso. apply H. reflexivity.
    + intros x p Ha Hb I. rewrite drop_widgets in Hb. destruct (w =? x) eqn:E; [|contradiction].
      apply Z.eqb_eq in E. subst x. unfold deps_of in I. rewrite D in I. destruct I.
  - cbn [invalidate] in H.
    destruct (alookup (deps (drop_entries c w)) w) as [ds|] eqn:D.
    + set (c2 := Cache (widgets (drop_entries c w)) (refs (drop_entries c w)) (aremove (deps (drop_entries c w)) w)) in *.
      destruct (invalidate_fold_spec m IH _ _ _ H) as [P2 [N2 R2]].
      unfold drop_entries in D. cbn [deps] in D.
      assert (W2 : forall x, alookup (widgets c2) x = if w =? x then None else alookup (widgets c) x).
      { intros x. unfold c2. cbn [widgets]. apply alookup_aremove. }
      assert (D2 : forall x, alookup (deps c2) x = if w =? x then None else alookup (deps c) x).
      { intros x. unfold c2, drop_entries. cbn [deps]. apply alookup_aremove. }
      assert (Wn : alookup (widgets c') w = None).
      { eapply Post_none_stays; [exact P2|]. rewrite W2, Z.eqb_refl. reflexivity. }
      destruct P2 as [B1 B2 B5 BC].
      split; [|split; [exact Wn|]].
      * split.
        -- intros x. destruct (B1 x) as [E|E]; [|auto]. rewrite E, W2. destruct (w =? x); auto.
        -- intros x. destruct (B2 x) as [E|E]; [|auto]. rewrite E, D2. destruct (w =? x); auto.
        -- intros x Hx. destruct (w =? x) eqn:E.
           ++ apply Z.eqb_eq in E. subst x. exact Wn.
           ++ apply B5. rewrite D2, E. exact Hx.
        -- intros x p Ha Hb I. destruct (w =? x) eqn:E.
           ++ apply Z.eqb_eq in E. subst x. apply N2. unfold deps_of in I. rewrite D in I. exact I.
           ++ apply (BC x p); [rewrite W2, E; exact Ha|exact Hb|].
              unfold deps_of in *. rewrite D2, E. exact I.
      * intros R. apply R2. apply (drop_refsok c w) in R. destruct R as [A B N].
        split; [exact A|exact B|exact N].
    + inversion H. subst c'. clear H. unfold drop_entries in D. cbn [deps] in D.
      split; [|split; [rewrite drop_widgets, Z.eqb_refl; reflexivity|apply drop_refsok]].
      split.
      * intros x. rewrite drop_widgets. destruct (w =? x); auto.
      * intros x. left. reflexivity.
      * intros x H. exfalso. apply H. reflexivity.
      * intros x p Ha Hb I. rewrite drop_widgets in Hb. destruct (w =? x) eqn:E; [|contradiction].
        apply Z.eqb_eq in E. subst x. unfold deps_of in I. rewrite D in I. destruct I.
Qed.

(* ---------- the fuel given by [step] is enough: every recursive call deletes a key of _deps ---------- *)
Lemma invalidate_total n : forall c w,
  (length (deps c) < n)%nat ->
  exists c', invalidate n c w = Some c' /\ (length (deps c') <= length (deps c))%nat.
Proof.
  induction n as [|m IH]; intros c w L; [lia|].
  cbn [invalidate].
  destruct (alookup (deps (drop_entries c w)) w) as [ds|] eqn:D.
  - set (c2 := Cache (widgets (drop_entries c w)) (refs (drop_entries c w)) (aremove (deps (drop_entries c w)) w)).
    assert (L2 : (length (deps c2) < length (deps c))%nat).
    { unfold c2. cbn [deps]. unfold drop_entries in *. cbn [deps] in *. eapply aremove_length_lt. exact D. }
    assert (forall ds c0, (length (deps c0) < m)%nat ->
              exists c', fold_left (fun acc d => match acc with None => None | Some c1 => invalidate m c1 d end) ds (Some c0) = Some c'
                         /\ (length (deps c') <= length (deps c0))%nat) as F.
    { induction ds0 as [|d ds0 IHd]; intros c0 L0; cbn [fold_left].
      - exists c0. split; [reflexivity|lia].
      - destruct (IH c0 d L0) as [c1 [E1 L1]]. rewrite E1.
        destruct (IHd c1 ltac:(lia)) as [c3 [E3 L3]]. exists c3. split; [exact E3|lia]. }
    destruct (F ds c2 ltac:(lia)) as [c' [E L']]. exists c'. split; [exact E|lia].
  - eexists. split; [reflexivity|]. unfold drop_entries. cbn [deps]. lia.
Qed.

(* ---------- CanvasCache.cleanup ---------- *)
Lemma cleanup_absent c r : alookup (refs c) r = None -> cleanup_entry c r = c.
Proof. unfold cleanup_entry. intros ->. reflexivity. Qed.

Lemma cleanup_spec c r w k :
  RefsOK c -> alookup (refs c) r = Some (w, k) ->
  let c' := cleanup_entry c r in
  (forall x y, lookup2 c' x y = if (x =? w) && (y =? k) then None else lookup2 c x y) /\
  (forall x, alookup (refs c') x = if r =? x then None else alookup (refs c) x) /\
  (forall x, alookup (deps c') x = alookup (deps c) x \/ (x = w /\ alookup (widgets c') w = None)) /\
  (forall x, nodupkeys (sizes_of c' x)).
Proof.
  intros [A B N] R. cbn zeta. pose proof (A _ _ _ R) as L.
  unfold cleanup_entry. rewrite R.
  unfold lookup2, sizes_of in L.
  destruct (alookup (widgets c) w) as [sizes|] eqn:W; [|cbn in L; discriminate].
  destruct sizes as [|e0 sizes0] eqn:S; [cbn in L; discriminate|]. rewrite <- S in *.
  assert (NS : nodupkeys sizes). { specialize (N w). unfold sizes_of in N. rewrite W in N. exact N. }
  destruct (aremove sizes k) as [|e1 rest] eqn:AR.
  - (* last canvas of the widget *)
    split; [|split; [|split]].
    + intros x y. unfold lookup2, sizes_of. cbn [widgets]. rewrite alookup_aremove.
      destruct (w =? x) eqn:E.
      * apply Z.eqb_eq in E. subst x. rewrite Z.eqb_refl. cbn [andb alookup].
        destruct (y =? k) eqn:E2; [reflexivity|]. rewrite W.
        symmetry. apply (aremove_nil_lookup _ _ _ AR). intros ->. rewrite Z.eqb_refl in E2. discriminate.
      * rewrite (Z.eqb_sym x w), E. reflexivity.
    + intros x. cbn [refs]. apply alookup_aremove.
    + intros x. cbn [deps widgets]. rewrite !alookup_aremove. destruct (w =? x) eqn:E.
      * right. apply Z.eqb_eq in E. rewrite Z.eqb_refl. auto.
      * left. reflexivity.
    + intros x. unfold sizes_of. cbn [widgets]. rewrite alookup_aremove. destruct (w =? x); [constructor|apply N].
  - rewrite <- AR.
    split; [|split; [|split]].
    + intros x y. unfold lookup2, sizes_of. cbn [widgets]. rewrite alookup_aset.
      destruct (w =? x) eqn:E.
      * apply Z.eqb_eq in E. subst x. rewrite Z.eqb_refl. cbn [andb]. rewrite alookup_aremove, W.
        rewrite (Z.eqb_sym y k). reflexivity.
      * rewrite (Z.eqb_sym x w), E. reflexivity.
    + intros x. cbn [refs]. apply alookup_aremove.
    + intros x. left. reflexivity.
    + intros x. unfold sizes_of. cbn [widgets]. rewrite alookup_aset. destruct (w =? x).
      * apply nodupkeys_aremove. exact NS.
      * apply N.
Qed.

Lemma cleanup_widgets_none c r w k x :
  RefsOK c -> alookup (refs c) r = Some (w, k) -> x <> w ->
  alookup (widgets (cleanup_entry c r)) x = alookup (widgets c) x.
Proof.
  intros [A B N] R NE. pose proof (A _ _ _ R) as L.
  unfold cleanup_entry. rewrite R. unfold lookup2, sizes_of in L.
  destruct (alookup (widgets c) w) as [sizes|] eqn:W; [|cbn in L; discriminate].
  destruct sizes as [|e0 sizes0] eqn:S; [cbn in L; discriminate|]. rewrite <- S in *.
  destruct (aremove sizes k) as [|e1 rest] eqn:AR; cbn [widgets].
  - rewrite alookup_aremove. destruct (w =? x) eqn:E; [apply Z.eqb_eq in E; congruence|reflexivity].
  - rewrite alookup_aset. destruct (w =? x) eqn:E; [apply Z.eqb_eq in E; congruence|reflexivity].
Qed.

(* ---------- CanvasCache.store ---------- *)
Definition dd (d : list (Z * list Z)) (x : Z) : list Z := match alookup d x with Some l => l | None => [] end.

Lemma dd_add_dep wd d z x : dd (add_dep wd d z) x = if z =? x then dd d z ++ [wd] else dd d x.
Proof. unfold dd, add_dep. rewrite alookup_aset. destruct (z =? x); reflexivity. Qed.

Lemma fold_add_dep wd dl : forall d,
  (forall x y, In y (dd d x) -> In y (dd (fold_left (add_dep wd) dl d) x)) /\
  (forall x, In x dl -> In wd (dd (fold_left (add_dep wd) dl d) x)).
Proof.
  induction dl as [|z dl IH]; intros d; cbn [fold_left].
  - split; [auto|intros x []].
  - destruct (IH (add_dep wd d z)) as [A B]. split.
    + intros x y I. apply A. rewrite dd_add_dep. destruct (z =? x) eqn:E; [|exact I].
      apply Z.eqb_eq in E. subst. apply in_or_app. left. exact I.
    + intros x [->|I]; [|auto]. apply A. rewrite dd_add_dep, Z.eqb_refl. apply in_or_app. right. left. reflexivity.
Qed.

Section Store.
  Variable C : Type.
  Variable cacheable : widget -> bool.

  Lemma store_spec (c : cache) (cv : canvas C) (dl : list widget) :
    cacheable (c_w cv) = true ->
    (forall x, In x dl -> amem (widgets c) x = true) ->
    let c' := store C cacheable c cv dl in
    (forall x y, lookup2 c' x y = if (x =? c_w cv) && (y =? c_k cv) then Some (c_id cv) else lookup2 c x y) /\
    (forall r, alookup (refs c') r = if c_id cv =? r then Some (c_w cv, c_k cv) else alookup (refs c) r) /\
    (forall x y, In y (deps_of c x) -> In y (deps_of c' x)) /\
    (forall x, In x dl -> In (c_w cv) (deps_of c' x)) /\
    (forall x, x <> c_w cv -> alookup (widgets c') x = alookup (widgets c) x) /\
    ((forall x, nodupkeys (sizes_of c x)) -> forall x, nodupkeys (sizes_of c' x)).
  Proof.
    intros HC HD. cbn zeta. unfold store. rewrite HC. cbn [negb].
    assert (existsb (fun w => negb (amem (widgets c) w)) dl = false) as ->.
    { apply not_true_is_false. intros T. apply existsb_exists in T. destruct T as [x [I T]].
      rewrite (HD x I) in T. discriminate. }
    destruct (fold_add_dep (c_w cv) dl (deps c)) as [FA FB].
    split; [|split; [|split; [|split; [|split]]]].
    - intros x y. unfold lookup2 at 1. unfold sizes_of at 1. cbn [widgets]. rewrite alookup_aset.
      destruct (c_w cv =? x) eqn:E.
      + apply Z.eqb_eq in E. subst x. rewrite Z.eqb_refl. cbn [andb]. rewrite alookup_aset.
        rewrite (Z.eqb_sym y). destruct (c_k cv =? y); reflexivity.
      + rewrite (Z.eqb_sym x), E. reflexivity.
    - intros r. cbn [refs]. apply alookup_aset.
    - intros x y I. unfold deps_of. cbn [deps]. apply FA. exact I.
    - intros x I. unfold deps_of. cbn [deps]. apply FB. exact I.
    - intros x NE. cbn [widgets]. rewrite alookup_aset. destruct (c_w cv =? x) eqn:E; [|reflexivity].
      apply Z.eqb_eq in E. congruence.
    - intros N x. unfold sizes_of at 1. cbn [widgets]. rewrite alookup_aset. destruct (c_w cv =? x).
      + apply nodupkeys_aset. apply N.
      + apply N.
  Qed.
End Store.

(* ---------- the loop `for w in popped: cls.invalidate(w)` of cleanup ---------- *)
Lemma invalidate_all_spec n ds c c' :
  invalidate_all n ds c = Some c' ->
  Post c c' /\ (forall d, In d ds -> alookup (widgets c') d = None) /\ (RefsOK c -> RefsOK c').
Proof. unfold invalidate_all. apply invalidate_fold_spec. apply invalidate_spec. Qed.

Lemma invalidate_all_total n : forall ds c,
  (length (deps c) < n)%nat ->
  exists c', invalidate_all n ds c = Some c' /\ (length (deps c') <= length (deps c))%nat.
Proof.
  unfold invalidate_all. induction ds as [|d ds IH]; intros c L; cbn [fold_left].
  - exists c. split; [reflexivity|lia].
  - destruct (invalidate_total n c d L) as [c1 [E1 L1]]. rewrite E1.
    destruct (IH c1 ltac:(lia)) as [c2 [E2 L2]]. exists c2. split; [exact E2|lia].
Qed.
